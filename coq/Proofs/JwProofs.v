(* C17 -- proofs about the Jordan-Wigner model (Model/Jw.v) and the generated tables. *)
From Coq Require Import ZArith List Bool String Arith Lia.
Import ListNotations.
From RV Require Import Gen.SimplifyOp Gen.JwSwapRule Gen.QcLoops Model.Jw.
Local Open Scope Z_scope.

(* ================================================================== 2x2 algebra *)
Lemma M2_eq : forall a b, m00 a = m00 b -> m01 a = m01 b -> m10 a = m10 b -> m11 a = m11 b -> a = b.
Proof. intros [a0 a1 a2 a3] [b0 b1 b2 b3]; cbn; intros; subst; reflexivity. Qed.

Ltac m2 := intros; repeat match goal with x : M2 |- _ => destruct x end; unfold mul2, add2, scale2, tr2, I2, Z2, Sp, Sm, O2; cbn [m00 m01 m10 m11]; try (apply M2_eq; cbn [m00 m01 m10 m11]; ring).

Lemma mul2_assoc : forall a b c, mul2 (mul2 a b) c = mul2 a (mul2 b c). Proof. m2. Qed.
Lemma mul2_I_l : forall a, mul2 I2 a = a. Proof. m2. Qed.
Lemma mul2_I_r : forall a, mul2 a I2 = a. Proof. m2. Qed.
Lemma mul2_scale_l : forall c a b, mul2 (scale2 c a) b = scale2 c (mul2 a b). Proof. m2. Qed.
Lemma mul2_scale_r : forall c a b, mul2 a (scale2 c b) = scale2 c (mul2 a b). Proof. m2. Qed.
Lemma scale2_scale2 : forall c d a, scale2 c (scale2 d a) = scale2 (c * d) a. Proof. m2. Qed.
Lemma scale2_1 : forall a, scale2 1 a = a. Proof. m2. Qed.
Lemma Z2_Z2 : mul2 Z2 Z2 = I2. Proof. reflexivity. Qed.
Lemma tr2_mul2 : forall a b, tr2 (mul2 a b) = mul2 (tr2 b) (tr2 a). Proof. m2. Qed.

Lemma get2_mul2 : forall a b i j, get2 (mul2 a b) i j = get2 a i false * get2 b false j + get2 a i true * get2 b true j.
Proof. intros [] [] [] []; reflexivity. Qed.
Lemma get2_I2 : forall i j, get2 I2 i j = if Bool.eqb i j then 1 else 0.
Proof. intros [] []; reflexivity. Qed.

Lemma get2_add2 : forall x y i j, get2 (add2 x y) i j = get2 x i j + get2 y i j.
Proof. intros [] [] [] []; reflexivity. Qed.
Lemma get2_scale2 : forall k x i j, get2 (scale2 k x) i j = k * get2 x i j.
Proof. intros k [] [] []; reflexivity. Qed.

Lemma eqb2_eq : forall a b, eqb2 a b = true <-> a = b.
Proof.
  intros [a0 a1 a2 a3] [b0 b1 b2 b3]; unfold eqb2; cbn [m00 m01 m10 m11]. rewrite !andb_true_iff, !Z.eqb_eq. split.
  - intros [[[-> ->] ->] ->]; reflexivity.
  - intros H; inversion H; auto.
Qed.

Lemma sgn_xorb : forall a b, sgn (xorb a b) = sgn a * sgn b. Proof. intros [] []; reflexivity. Qed.
Lemma sgn_sq : forall a, sgn a * sgn a = 1. Proof. intros []; reflexivity. Qed.

(* ================================================================== words *)
Lemma den_word_app : forall u v, den_word (u ++ v) = mul2 (den_word u) (den_word v).
Proof.
  induction u; intros; cbn [den_word app].
  - now rewrite mul2_I_l.
  - now rewrite IHu, mul2_assoc.
Qed.

(* the accumulation order of BasisHalfSpin.op_mat gives the same matrix *)
Lemma den_word_foldl_eq : forall w, den_word_foldl w = den_word w.
Proof.
  unfold den_word_foldl. intros w.
  assert (H : forall acc, fold_left (fun acc s => mul2 acc (sym_mat s)) w acc = mul2 acc (den_word w)).
  { induction w; intros; cbn [fold_left den_word].
    - now rewrite mul2_I_r.
    - now rewrite IHw, mul2_assoc. }
  now rewrite H, mul2_I_l.
Qed.

(* ================================================================== Kronecker products, entries *)
Lemma repeat_length' : forall {A} (x : A) n, List.length (repeat x n) = n.
Proof. intros; apply repeat_length. Qed.

Lemma jw_string_length : forall core n i, List.length (jw_string core n i) = n.
Proof.
  induction n; intros; cbn [jw_string]; [reflexivity|].
  destruct i; cbn [List.length]; [now rewrite repeat_length | now rewrite IHn].
Qed.

Lemma zipmul_repeat_I_l : forall x, zipmul (repeat I2 (List.length x)) x = x.
Proof. induction x; cbn [List.length repeat zipmul]; [reflexivity|]. now rewrite mul2_I_l, IHx. Qed.
Lemma zipmul_repeat_I_r : forall x, zipmul x (repeat I2 (List.length x)) = x.
Proof. induction x; cbn [List.length repeat zipmul]; [reflexivity|]. now rewrite mul2_I_r, IHx. Qed.
Lemma zipmul_repeat_I_I : forall n, zipmul (repeat I2 n) (repeat I2 n) = repeat I2 n.
Proof. intros. rewrite <- (repeat_length I2 n) at 1. apply zipmul_repeat_I_l. Qed.

Lemma entry_repeat_I : forall n r c, List.length r = n -> entry (repeat I2 n) r c = delta r c.
Proof.
  induction n; intros r c Hr; destruct r; try discriminate; cbn [repeat entry delta].
  - destruct c; reflexivity.
  - destruct c; [reflexivity|]. injection Hr as Hr. rewrite get2_I2, IHn by exact Hr.
    destruct (Bool.eqb b b0); ring.
Qed.

Lemma jw_string_flat_eq : forall core n i, (i < n)%nat -> jw_string core n i = jw_string_flat core n i.
Proof.
  unfold jw_string_flat. induction n; intros i Hi; [lia|].
  destruct i; cbn [jw_string repeat app].
  - replace (S n - 0 - 1)%nat with n by lia. reflexivity.
  - rewrite IHn by lia. replace (S n - S i - 1)%nat with (n - i - 1)%nat by lia. reflexivity.
Qed.

(* canonical anticommutation relations, site by site, for any number of sites *)
Definition acomm (p q : PT) (r c : list bool) : Z := pt_entry (pt_mul p q) r c + pt_entry (pt_mul q p) r c.

Lemma jw_acomm_gen : forall X Y k,
  mul2 X Z2 = scale2 (-1) (mul2 Z2 X) -> mul2 Y Z2 = scale2 (-1) (mul2 Z2 Y) ->
  add2 (mul2 X Y) (mul2 Y X) = scale2 k I2 ->
  forall n i j r c, (i < n)%nat -> (j < n)%nat -> List.length r = n -> List.length c = n ->
  entry (zipmul (jw_string X n i) (jw_string Y n j)) r c + entry (zipmul (jw_string Y n j) (jw_string X n i)) r c
  = if Nat.eqb i j then k * delta r c else 0.
Proof.
  intros X Y k HX HY HK. induction n; intros i j r c Hi Hj Hr Hc; [lia|].
  destruct r as [|a r]; [discriminate|]. destruct c as [|b c]; [discriminate|].
  injection Hr as Hr. injection Hc as Hc.
  destruct i as [|i], j as [|j]; cbn [jw_string zipmul entry Nat.eqb delta].
  - rewrite zipmul_repeat_I_I, entry_repeat_I by exact Hr.
    replace (get2 (mul2 X Y) a b * delta r c + get2 (mul2 Y X) a b * delta r c)
      with (get2 (add2 (mul2 X Y) (mul2 Y X)) a b * delta r c)
      by (rewrite get2_add2; ring).
    rewrite HK, get2_scale2, get2_I2. destruct (Bool.eqb a b); ring.
  - rewrite <- (jw_string_length Y n j) at 1 4. rewrite zipmul_repeat_I_l, zipmul_repeat_I_r.
    rewrite HX, get2_scale2. ring.
  - rewrite <- (jw_string_length X n i) at 2 3. rewrite zipmul_repeat_I_l, zipmul_repeat_I_r.
    rewrite HY, get2_scale2. ring.
  - rewrite Z2_Z2, get2_I2. specialize (IHn i j r c ltac:(lia) ltac:(lia) Hr Hc).
    rewrite <- Z.mul_add_distr_l, IHn. destruct (Bool.eqb a b), (Nat.eqb i j); ring.
Qed.

Theorem jw_car_proof : forall n i j r c, (i < n)%nat -> (j < n)%nat -> List.length r = n -> List.length c = n ->
  acomm (a_op n i) (a_dag n j) r c = (if Nat.eqb i j then delta r c else 0)
  /\ acomm (a_op n i) (a_op n j) r c = 0
  /\ acomm (a_dag n i) (a_dag n j) r c = 0.
Proof.
  intros n i j r c Hi Hj Hr Hc. unfold acomm, pt_entry, pt_mul, a_op, a_dag; cbn [pt_coef pt_facs].
  rewrite !Z.mul_1_l.
  pose proof (jw_acomm_gen Sp Sm 1 eq_refl eq_refl eq_refl n i j r c Hi Hj Hr Hc) as H1.
  pose proof (jw_acomm_gen Sp Sp 0 eq_refl eq_refl eq_refl n i j r c Hi Hj Hr Hc) as H2.
  pose proof (jw_acomm_gen Sm Sm 0 eq_refl eq_refl eq_refl n i j r c Hi Hj Hr Hc) as H3.
  rewrite H1, H2, H3. destruct (Nat.eqb i j); repeat split; ring.
Qed.

(* the adjoint of a_i is a_i^dagger *)
Lemma jw_adj : forall n i, pt_adj (a_op n i) = a_dag n i.
Proof.
  intros. unfold pt_adj, a_op, a_dag; cbn [pt_coef pt_facs]. f_equal.
  assert (HI : forall m, map tr2 (repeat I2 m) = repeat I2 m).
  { induction m; cbn [repeat map]; [reflexivity|]. now rewrite IHm. }
  revert i; induction n; intros; cbn [jw_string map]; [reflexivity|].
  destruct i; cbn [map].
  - now rewrite HI.
  - now rewrite IHn.
Qed.

(* the site-wise product of pure tensors is the operator product (mixed-product property) *)
Lemma sumZ_app : forall a b, sumZ (a ++ b) = sumZ a + sumZ b.
Proof. unfold sumZ. induction a; intros; simpl; [lia|]. rewrite IHa. lia. Qed.
Lemma sumZ_map_scale : forall {A} (f : A -> Z) k l, sumZ (map (fun m => k * f m) l) = k * sumZ (map f l).
Proof. unfold sumZ. induction l; simpl; [lia|]. rewrite IHl. lia. Qed.
Lemma sumZ_map_ext : forall {A} (f g : A -> Z) l, (forall x, f x = g x) -> sumZ (map f l) = sumZ (map g l).
Proof. intros. f_equal. apply map_ext; auto. Qed.

Lemma entry_zipmul : forall A B r c, List.length A = List.length r -> List.length B = List.length r -> List.length c = List.length r ->
  entry (zipmul A B) r c = sumZ (map (fun m => entry A r m * entry B m c) (all_bits (List.length r))).
Proof.
  induction A as [|x A IH]; intros B r c HA HB Hc.
  - destruct r; [|discriminate]. destruct B; [|discriminate]. destruct c; [|discriminate]. reflexivity.
  - destruct r as [|a r]; [discriminate|]. destruct B as [|y B]; [discriminate|]. destruct c as [|b c]; [discriminate|].
    cbn [List.length] in *. injection HA as HA. injection HB as HB. injection Hc as Hc.
    cbn [zipmul entry all_bits]. rewrite map_app, !map_map, sumZ_app. cbn [entry].
    rewrite (IH B r c HA HB Hc), get2_mul2.
    rewrite (sumZ_map_ext (fun m => get2 x a false * entry A r m * (get2 y false b * entry B m c))
                          (fun m => (get2 x a false * get2 y false b) * (entry A r m * entry B m c))) by (intros; ring).
    rewrite (sumZ_map_ext (fun m => get2 x a true * entry A r m * (get2 y true b * entry B m c))
                          (fun m => (get2 x a true * get2 y true b) * (entry A r m * entry B m c))) by (intros; ring).
    rewrite !sumZ_map_scale. ring.
Qed.

Theorem pt_mul_is_operator_product : forall p q r c,
  List.length (pt_facs p) = List.length r -> List.length (pt_facs q) = List.length r -> List.length c = List.length r ->
  pt_entry (pt_mul p q) r c = sumZ (map (fun m => pt_entry p r m * pt_entry q m c) (all_bits (List.length r))).
Proof.
  intros [cp fp] [cq fq] r c Hp Hq Hc. unfold pt_entry, pt_mul; cbn [pt_coef pt_facs] in *.
  rewrite (entry_zipmul fp fq r c Hp Hq Hc).
  rewrite (sumZ_map_ext (fun m => cp * entry fp r m * (cq * entry fq m c)) (fun m => (cp * cq) * (entry fp r m * entry fq m c))) by (intros; ring).
  now rewrite sumZ_map_scale.
Qed.

(* ================================================================== simplify_op *)
(* P is Z-graded with parity b :  P Z = (-1)^b Z P *)
Definition zgr (b : bool) (P : M2) : Prop := mul2 P Z2 = scale2 (sgn b) (mul2 Z2 P).

Lemma zgr_I : zgr false I2. Proof. reflexivity. Qed.
Lemma zgr_mul_odd : forall b P S, zgr b P -> mul2 S Z2 = scale2 (-1) (mul2 Z2 S) -> zgr (negb b) (mul2 P S).
Proof.
  unfold zgr; intros b P S HP HS.
  rewrite mul2_assoc, HS, mul2_scale_r, <- mul2_assoc, HP, mul2_scale_l, scale2_scale2, mul2_assoc.
  f_equal. destruct b; reflexivity.
Qed.
Lemma zgr_mul_even : forall b P S, zgr b P -> mul2 S Z2 = mul2 Z2 S -> zgr b (mul2 P S).
Proof.
  unfold zgr; intros b P S HP HS.
  now rewrite mul2_assoc, HS, <- mul2_assoc, HP, mul2_scale_l, mul2_assoc.
Qed.

Definition zpow (c : nat) : M2 := Nat.iter c (mul2 Z2) I2.
Lemma zpow_S : forall c, zpow (S c) = mul2 Z2 (zpow c). Proof. reflexivity. Qed.
Lemma zpow_parity : forall c, zpow c = if Nat.odd c then Z2 else I2.
Proof.
  induction c; [reflexivity|]. rewrite zpow_S, IHc, Nat.odd_succ, <- Nat.negb_odd.
  destruct (Nat.odd c); reflexivity.
Qed.
Lemma odd_mod2 : forall c, Nat.eqb (Nat.modulo c 2) 1 = Nat.odd c.
Proof. intros. rewrite <- Nat.bit0_mod, Nat.bit0_odd. destruct (Nat.odd c); reflexivity. Qed.

Definition nonZ (w : list string) : list string := filter (fun s => negb (String.eqb s simp_cancel_sym)) w.

Lemma in_qc_alphabet : forall s, In s qc_alphabet -> s = "Z"%string \/ s = "+"%string \/ s = "-"%string.
Proof. cbn. intros s [ <- | [ <- | [ <- | [] ] ] ]; auto. Qed.

Lemma simplify_loop : forall w k m P, Forall (fun s => In s qc_alphabet) w -> zgr (Nat.odd k) P ->
  scale2 (sgn (Nat.odd m)) (mul2 P (den_word w))
  = scale2 (sgn (Nat.odd (snd (fold_left simp_step w (k, m)))))
           (mul2 (zpow (simp_n_sigma_z w)) (mul2 P (den_word (nonZ w)))).
Proof.
  induction w as [|s t IH]; intros k m P Hw HP.
  - cbn. now rewrite mul2_I_l.
  - inversion Hw as [|? ? Hs Ht]; subst. apply in_qc_alphabet in Hs.
    cbn [fold_left den_word].
    destruct Hs as [ -> | [ -> | -> ] ].
    + (* the cancel symbol: it moves to the front across the k non-cancel symbols seen so far *)
      change (simp_step (k, m) "Z"%string) with (k, (m + k)%nat).
      change (simp_n_sigma_z ("Z"%string :: t)) with (S (simp_n_sigma_z t)).
      change (nonZ ("Z"%string :: t)) with (nonZ t).
      change (sym_mat "Z"%string) with Z2.
      rewrite zpow_S, (mul2_assoc Z2), <- (mul2_scale_r _ Z2), <- (IH k (m + k)%nat P Ht HP).
      rewrite <- (mul2_assoc P Z2), HP, !mul2_scale_l, !mul2_scale_r, !scale2_scale2, Nat.odd_add, sgn_xorb, !mul2_assoc.
      reflexivity.
    + change (simp_step (k, m) "+"%string) with ((k + 1)%nat, m).
      change (simp_n_sigma_z ("+"%string :: t)) with (simp_n_sigma_z t).
      change (nonZ ("+"%string :: t)) with ("+"%string :: nonZ t). cbn [den_word].
      rewrite <- !(mul2_assoc P). apply IH; [exact Ht|].
      rewrite Nat.add_1_r, Nat.odd_succ, <- Nat.negb_odd. apply zgr_mul_odd; [exact HP|reflexivity].
    + change (simp_step (k, m) "-"%string) with ((k + 1)%nat, m).
      change (simp_n_sigma_z ("-"%string :: t)) with (simp_n_sigma_z t).
      change (nonZ ("-"%string :: t)) with ("-"%string :: nonZ t). cbn [den_word].
      rewrite <- !(mul2_assoc P). apply IH; [exact Ht|].
      rewrite Nat.add_1_r, Nat.odd_succ, <- Nat.negb_odd. apply zgr_mul_odd; [exact HP|reflexivity].
Qed.

Lemma simp_n_permute_eq : forall w, simp_n_permute w = snd (fold_left simp_step w simp_init).
Proof. intros. unfold simp_n_permute. destruct (fold_left simp_step w simp_init); reflexivity. Qed.

(* for every word over the symbols qc_model can put on a site: sign * reduced word = ordered product *)
Theorem simplify_op_den_proof : forall w, Forall (fun s => In s qc_alphabet) w ->
  den_word w = scale2 (sgn (simp_sign_minus w)) (den_word (simp_new_symbol w)).
Proof.
  intros w Hw. pose proof (simplify_loop w 0%nat 0%nat I2 Hw zgr_I) as H.
  cbn [Nat.odd Nat.even sgn] in H. rewrite scale2_1, !mul2_I_l in H.
  unfold simp_sign_minus. rewrite simp_n_permute_eq. unfold simp_init. rewrite H. f_equal.
  unfold simp_new_symbol. fold (nonZ w). rewrite den_word_app, odd_mod2, zpow_parity.
  destruct (Nat.odd (simp_n_sigma_z w)); [|reflexivity]. cbn [den_word]. now rewrite mul2_I_r.
Qed.


(* ================================================================== what qc_model puts on a site *)
Lemma filter_seq_tag : forall (s : string) l j a,
  map snd (filter (fun ls : nat * string => Nat.eqb (fst ls) l) (map (fun l' => (l', s)) (seq a j)))
  = if (Nat.leb a l && Nat.ltb l (a + j))%bool then [s] else [].
Proof.
  induction j; intros a.
  - cbn [seq map filter]. destruct (Nat.leb_spec a l), (Nat.ltb_spec l (a + 0)); cbn [andb]; try reflexivity; lia.
  - cbn [seq map filter fst]. destruct (Nat.eqb_spec a l) as [->|Hne]; cbn [map snd]; rewrite IHj.
    + destruct (Nat.leb_spec (S l) l), (Nat.ltb_spec l (S l + j)), (Nat.leb_spec l l), (Nat.ltb_spec l (l + S j)); cbn [andb map snd app]; try reflexivity; lia.
    + destruct (Nat.leb_spec (S a) l), (Nat.ltb_spec l (S a + j)), (Nat.leb_spec a l), (Nat.ltb_spec l (a + S j)); cbn [andb map snd app]; try reflexivity; lia.
Qed.

Definition core_sym (dag : bool) : string := if dag then qc_create_sym else qc_annihilate_sym.

Lemma lop_site_spec : forall l dag j,
  lop_site l (dag, j) = if Nat.ltb l j then [qc_string_sym] else if Nat.eqb l j then [core_sym dag] else [].
Proof.
  intros. unfold lop_site, ladder_word; cbn [fst snd]. rewrite filter_app, map_app, filter_seq_tag.
  cbn [filter fst map snd Nat.leb andb Nat.add]. fold (core_sym dag).
  rewrite (Nat.eqb_sym j l).
  destruct (Nat.ltb_spec l j), (Nat.eqb_spec l j); cbn; try reflexivity; lia.
Qed.

Lemma lop_site_alphabet : forall l o, Forall (fun s => In s qc_alphabet) (lop_site l o).
Proof.
  intros l [dag j]. rewrite lop_site_spec.
  destruct (Nat.ltb l j); [constructor; [cbn; auto|constructor]|].
  destruct (Nat.eqb l j); [|constructor]. destruct dag; (constructor; [cbn; auto|constructor]).
Qed.

Lemma site_word_alphabet : forall ops l, Forall (fun s => In s qc_alphabet) (site_word ops l).
Proof.
  unfold site_word. induction ops; intros; cbn [flat_map]; [constructor|].
  apply Forall_app; split; [apply lop_site_alphabet | apply IHops].
Qed.

(* ------------------------------------------------------------------ conservation of N_alpha, N_beta *)
Lemma zz_add_0_l : forall a, zz_add (0, 0) a = a. Proof. intros []; reflexivity. Qed.
Lemma zz_add_0_r : forall a, zz_add a (0, 0) = a. Proof. intros [x y]; unfold zz_add; cbn. f_equal; lia. Qed.
Lemma zz_add_assoc : forall a b c, zz_add a (zz_add b c) = zz_add (zz_add a b) c.
Proof. intros [] [] []; unfold zz_add; cbn; f_equal; lia. Qed.
Lemma zz_add_comm : forall a b, zz_add a b = zz_add b a.
Proof. intros [] []; unfold zz_add; cbn; f_equal; lia. Qed.

Definition zz_sum (l : list (Z * Z)) : Z * Z := fold_right zz_add (0, 0) l.
Lemma zz_sum_app : forall a b, zz_sum (a ++ b) = zz_add (zz_sum a) (zz_sum b).
Proof. unfold zz_sum. induction a; intros; cbn [app fold_right]; [now rewrite zz_add_0_l|]. now rewrite IHa, zz_add_assoc. Qed.

Lemma qn_of_cancel : forall l, qn_of l simp_cancel_sym = (0, 0).
Proof. intros. unfold qn_of. destruct (qn_uses_dict1 l); reflexivity. Qed.

Lemma site_qn_eq : forall ops l, site_qn ops l = zz_sum (map (qn_of l) (nonZ (site_word ops l))).
Proof.
  intros. unfold site_qn, site_emit. fold (zz_sum).
  assert (H : zz_sum (map (qn_of l) (simp_new_symbol (site_word ops l))) = zz_sum (map (qn_of l) (nonZ (site_word ops l)))).
  { unfold simp_new_symbol. fold (nonZ (site_word ops l)). rewrite map_app, zz_sum_app.
    destruct (Nat.eqb _ 1); cbn [map zz_sum fold_right]; [rewrite qn_of_cancel|]; now rewrite ?zz_add_0_l. }
  destruct (site_word ops l) eqn:E; [reflexivity|]. rewrite <- E in *.
  destruct (simp_new_symbol (site_word ops l)) eqn:E2; [exact H|]. exact H.
Qed.

Lemma nonZ_app : forall a b, nonZ (a ++ b) = nonZ a ++ nonZ b. Proof. intros; apply filter_app. Qed.

Lemma nonZ_lop_site : forall l dag j, nonZ (lop_site l (dag, j)) = if Nat.eqb l j then [core_sym dag] else [].
Proof.
  intros. rewrite lop_site_spec. destruct (Nat.ltb_spec l j).
  - destruct (Nat.eqb_spec l j); [lia|reflexivity].
  - destruct (Nat.eqb l j); [|reflexivity]. destruct dag; reflexivity.
Qed.

Definition charge (o : lop) : Z * Z := qn_of (snd o) (core_sym (fst o)).

Lemma site_qn_cons : forall o ops l, site_qn (o :: ops) l = zz_add (if Nat.eqb l (snd o) then charge o else (0, 0)) (site_qn ops l).
Proof.
  intros [dag j] ops l. rewrite !site_qn_eq. unfold site_word; cbn [flat_map]. fold (site_word ops l).
  rewrite nonZ_app, map_app, zz_sum_app, nonZ_lop_site. cbn [snd fst]. unfold charge; cbn [fst snd].
  destruct (Nat.eqb_spec l j); [subst; cbn; now rewrite zz_add_0_r | reflexivity].
Qed.

Lemma zz_sum_pick : forall (c : Z * Z) j a n, (a <= j < a + n)%nat ->
  zz_sum (map (fun l => if Nat.eqb l j then c else (0, 0)) (seq a n)) = c.
Proof.
  intros c j a n. revert a. induction n; intros a H; [lia|]. cbn [seq map zz_sum fold_right]. fold (zz_sum).
  destruct (Nat.eqb_spec a j).
  - subst. assert (Hz : forall m b, (j < b)%nat -> zz_sum (map (fun l => if Nat.eqb l j then c else (0, 0)) (seq b m)) = (0, 0)).
    { induction m; intros; [reflexivity|]. cbn [seq map zz_sum fold_right]. fold zz_sum.
      destruct (Nat.eqb_spec b j); [lia|]. rewrite IHm by lia. reflexivity. }
    rewrite Hz by lia. apply zz_add_0_r.
  - unfold zz_sum in *. rewrite IHn by lia. apply zz_add_0_l.
Qed.

Lemma zz_sum_map_add : forall {A} (f g : A -> Z * Z) l, zz_sum (map (fun x => zz_add (f x) (g x)) l) = zz_add (zz_sum (map f l)) (zz_sum (map g l)).
Proof.
  induction l; cbn [map zz_sum fold_right]; [reflexivity|]. fold zz_sum. unfold zz_sum in IHl. rewrite IHl.
  destruct (f a), (g a), (fold_right zz_add (0,0) (map f l)), (fold_right zz_add (0,0) (map g l)); unfold zz_add; cbn; f_equal; lia.
Qed.

Lemma term_qn_charges : forall n ops, Forall (fun o => (snd o < n)%nat) ops -> term_qn n ops = zz_sum (map charge ops).
Proof.
  intros n ops H. unfold term_qn. fold (zz_sum (map (site_qn ops) (seq 0 n))). induction H as [|o ops Ho H IH].
  - rewrite (map_ext _ (fun _ => (0, 0))) by reflexivity. cbn [map]. unfold zz_sum.
    induction (seq 0 n); [reflexivity|]. cbn [map fold_right]. now rewrite IHl.
  - rewrite (map_ext _ (fun l => zz_add (if Nat.eqb l (snd o) then charge o else (0, 0)) (site_qn ops l))) by (intros; apply site_qn_cons).
    rewrite zz_sum_map_add, IH, zz_sum_pick by lia. reflexivity.
Qed.

Lemma charge_dag : forall j, charge (true, j) = if Nat.odd j then (0, 1) else (1, 0).
Proof. intros. unfold charge, qn_of, qn_uses_dict1; cbn [fst snd core_sym]. rewrite odd_mod2. destruct (Nat.odd j); reflexivity. Qed.
Lemma charge_ann : forall j, charge (false, j) = if Nat.odd j then (0, -1) else (-1, 0).
Proof. intros. unfold charge, qn_of, qn_uses_dict1; cbn [fst snd core_sym]. rewrite odd_mod2. destruct (Nat.odd j); reflexivity. Qed.

(* the charge simplify_op attaches to a^dagger_j is the label of the occupied level of the basis *)
Lemma charge_is_basis_label : forall j, charge (true, j) = occ_qn j.
Proof. intros. rewrite charge_dag. unfold occ_qn. rewrite <- Nat.negb_odd. destruct (Nat.odd j); reflexivity. Qed.

Lemma mod2_eq_odd : forall a b, Nat.eqb (Nat.modulo a 2) (Nat.modulo b 2) = Bool.eqb (Nat.odd a) (Nat.odd b).
Proof.
  intros. rewrite <- !Nat.bit0_mod, !Nat.bit0_odd. destruct (Nat.odd a), (Nat.odd b); reflexivity.
Qed.

Theorem qc_conserves_proof : forall n,
  (forall p q, (p < n)%nat -> (q < n)%nat -> one_body_support p q = true -> term_qn n (one_body_ops p q) = (0, 0)) /\
  (forall p q r s, (p < n)%nat -> (q < n)%nat -> (r < n)%nat -> (s < n)%nat -> two_body_support p q r s = true ->
     term_qn n (two_body_ops p q r s) = (0, 0)).
Proof.
  intros n. split.
  - intros p q Hp Hq H. rewrite term_qn_charges by (repeat constructor; cbn; lia).
    unfold one_body_support, sh_pred in H. rewrite mod2_eq_odd in H.
    cbn [one_body_ops one_body_pattern combine map zz_sum fold_right]. rewrite charge_dag, charge_ann.
    destruct (Nat.odd p), (Nat.odd q); try discriminate; reflexivity.
  - intros p q r s Hp Hq Hr Hs H. rewrite term_qn_charges by (repeat constructor; cbn; lia).
    unfold two_body_support, seri_pred_perm, perm_get, seri_pred in H. cbn [aseri_plus aseri_minus nth] in H.
    rewrite !mod2_eq_odd in H.
    cbn [two_body_ops two_body_pattern combine map zz_sum fold_right]. rewrite !charge_dag, !charge_ann.
    destruct (aseri_in_range p q r s); [|discriminate].
    destruct (Nat.odd p), (Nat.odd q), (Nat.odd r), (Nat.odd s); try discriminate; reflexivity.
Qed.

(* ================================================================== the operator-side swap rule *)
Definition even2 (M : M2) : Prop := m01 M = 0 /\ m10 M = 0.
Definition odd2 (M : M2) : Prop := m00 M = 0 /\ m11 M = 0.
Definition graded (b : bool) (M : M2) : Prop := if b then odd2 M else even2 M.

Lemma list16_eq : forall (a0 a1 a2 a3 a4 a5 a6 a7 a8 a9 a10 a11 a12 a13 a14 a15 b0 b1 b2 b3 b4 b5 b6 b7 b8 b9 b10 b11 b12 b13 b14 b15 : Z),
  a0=b0 -> a1=b1 -> a2=b2 -> a3=b3 -> a4=b4 -> a5=b5 -> a6=b6 -> a7=b7 -> a8=b8 -> a9=b9 -> a10=b10 -> a11=b11 -> a12=b12 -> a13=b13 -> a14=b14 -> a15=b15 ->
  [a0;a1;a2;a3;a4;a5;a6;a7;a8;a9;a10;a11;a12;a13;a14;a15] = [b0;b1;b2;b3;b4;b5;b6;b7;b8;b9;b10;b11;b12;b13;b14;b15].
Proof. intros; subst; reflexivity. Qed.

(* F (A (x) B) F^T for parity-graded factors: sites exchanged, a Z for every odd partner, a sign if both are odd *)
Lemma conj_graded : forall A B a b, graded a A -> graded b B ->
  conjF (kron A B) = scale4 (sgn (a && b)) (kron (if a then mul2 Z2 B else B) (if b then mul2 Z2 A else A)).
Proof.
  intros [a0 a1 a2 a3] [b0 b1 b2 b3] a b HA HB.
  destruct a, b; unfold graded, odd2, even2 in HA, HB; cbn [m00 m01 m10 m11] in HA, HB; destruct HA, HB; subst;
  cbv -[Z.mul Z.add Z.opp Z.sub]; apply list16_eq; ring.
Qed.

(* the plain permutation, for comparison *)
Lemma conjSWAP_kron : forall A B, conjSWAP (kron A B) = kron B A.
Proof. intros [a0 a1 a2 a3] [b0 b1 b2 b3]. cbv -[Z.mul Z.add Z.opp Z.sub]; apply list16_eq; ring. Qed.

Lemma graded_mul : forall a b A B, graded a A -> graded b B -> graded (xorb a b) (mul2 A B).
Proof.
  intros a b [a0 a1 a2 a3] [b0 b1 b2 b3] HA HB.
  destruct a, b; unfold graded, odd2, even2 in *; cbn [m00 m01 m10 m11 mul2 xorb] in *; destruct HA, HB; subst; split; ring.
Qed.

(* the names the rule counts as ladder symbols, and the letters it accepts, are whatever the translator extracted;
   the lemmas below only use their classification by computation *)
Definition sumcnt (names : list string) (w : jw_word) : nat := fold_right (fun n acc => (cnt n w + acc)%nat) 0%nat names.
Definition par (w : jw_word) : bool := Nat.odd (sumcnt rule_counted_names w).
Definition letters_ok (w : jw_word) : Prop := Forall (fun s => In s rule_letters) w.
Definition rule_word (w : jw_word) : Prop := w = ["I"%string] \/ (w <> [] /\ letters_ok w).

Lemma cnt_app : forall s a b, cnt s (a ++ b) = (cnt s a + cnt s b)%nat.
Proof. intros. unfold cnt. apply count_occ_app. Qed.
Lemma sumcnt_app : forall names a b, sumcnt names (a ++ b) = (sumcnt names a + sumcnt names b)%nat.
Proof. induction names; intros; cbn [sumcnt fold_right]; [reflexivity|]. fold (sumcnt names (a0 ++ b)) (sumcnt names a0) (sumcnt names b). rewrite IHnames, cnt_app. lia. Qed.
Lemma par_cons : forall s t, par (s :: t) = xorb (par [s]) (par t).
Proof. intros. unfold par. change (s :: t) with ([s] ++ t). now rewrite sumcnt_app, Nat.odd_add. Qed.

Lemma odd_S : forall x, Nat.odd (S x) = negb (Nat.odd x).
Proof. intros. now rewrite Nat.odd_succ, Nat.negb_odd. Qed.

Definition gradedb (b : bool) (M : M2) : bool :=
  if b then (Z.eqb (m00 M) 0 && Z.eqb (m11 M) 0)%bool else (Z.eqb (m01 M) 0 && Z.eqb (m10 M) 0)%bool.
Lemma gradedb_spec : forall b M, gradedb b M = true -> graded b M.
Proof. intros [] M H; unfold gradedb in H; apply andb_true_iff in H; destruct H as [H1 H2]; apply Z.eqb_eq in H1, H2; split; assumption. Qed.

(* every letter the rule accepts denotes a matrix of the parity the rule's counting assigns to it *)
Lemma letters_graded : forall s, In s rule_letters -> graded (par [s]) (sym_mat s).
Proof.
  assert (H : forallb (fun s => gradedb (par [s]) (sym_mat s)) rule_letters = true) by (vm_compute; reflexivity).
  intros s Hs. rewrite forallb_forall in H. apply gradedb_spec, H, Hs.
Qed.

Lemma den_parity_letters : forall w, letters_ok w -> graded (par w) (den_word w).
Proof.
  induction w as [|s t IH]; intros H.
  - split; reflexivity.
  - inversion H as [|? ? Hs Ht]; subst. cbn [den_word]. rewrite par_cons.
    apply graded_mul; [apply letters_graded, Hs | apply IH, Ht].
Qed.

Lemma den_parity : forall w, rule_word w -> graded (par w) (den_word w).
Proof.
  intros w [ -> | [_ H] ]; [apply gradedb_spec; vm_compute; reflexivity | now apply den_parity_letters].
Qed.

(* prepend_sigma_z multiplies by Z from the left, for every accepted head letter and every tail *)
Ltac prepend_case :=
  eexists; split; [reflexivity|];
  first [ reflexivity
        | cbn [den_word]; rewrite <- mul2_assoc;
          match goal with |- context [mul2 Z2 (sym_mat ?s)] => change (mul2 Z2 (sym_mat s)) with I2 end;
          rewrite mul2_I_l; reflexivity ].

Lemma prepend_den_letters : forall s, In s rule_letters -> forall t,
  exists w', prepend_sigma_z (s :: t) = Some w' /\ den_word w' = mul2 Z2 (den_word (s :: t)).
Proof.
  intros s Hs t. unfold rule_letters in Hs. cbn in Hs.
  repeat (destruct Hs as [ <- | Hs ]; [destruct t as [|s' t']; prepend_case|]).
  destruct Hs.
Qed.

Lemma prepend_den : forall w, rule_word w -> exists w', prepend_sigma_z w = Some w' /\ den_word w' = mul2 Z2 (den_word w).
Proof.
  intros w [ -> | [Hne H] ].
  - eexists; split; reflexivity.
  - destruct w as [|s t]; [congruence|]. inversion H as [|? ? Hs Ht]; subst. now apply prepend_den_letters.
Qed.

Lemma mod2_b2n : forall c, Nat.modulo c 2 = Nat.b2n (Nat.odd c).
Proof. intros. now rewrite <- Nat.bit0_mod, Nat.bit0_odd. Qed.

(* the generated counting expressions, whatever number of names they mention *)
Lemma op1_sum : forall w1 w2, op1_new_sigma_z w1 w2 = Nat.modulo (sumcnt rule_counted_names w1) 2.
Proof. intros. unfold op1_new_sigma_z, sumcnt. cbn [rule_counted_names fold_right]. f_equal. lia. Qed.
Lemma op2_sum : forall w1 w2, op2_new_sigma_z w1 w2 = Nat.modulo (sumcnt rule_counted_names w2) 2.
Proof. intros. unfold op2_new_sigma_z, sumcnt. cbn [rule_counted_names fold_right]. f_equal. lia. Qed.
Lemma op1_total : forall w1 w2, (op1_n_sigma_plus w1 w2 + op1_n_sigma_minus w1 w2)%nat = sumcnt rule_counted_names w1.
Proof. intros. unfold op1_n_sigma_plus, op1_n_sigma_minus, sumcnt. cbn [rule_counted_names fold_right]. lia. Qed.

Lemma op1_nz : forall w1 w2, op1_new_sigma_z w1 w2 = Nat.b2n (par w1). Proof. intros. rewrite op1_sum. apply mod2_b2n. Qed.
Lemma op2_nz : forall w1 w2, op2_new_sigma_z w1 w2 = Nat.b2n (par w2). Proof. intros. rewrite op2_sum. apply mod2_b2n. Qed.

Lemma coeff_minus_eq : forall w1 w2, coeff_is_minus w1 w2 = (par w2 && par w1)%bool.
Proof.
  intros. unfold coeff_is_minus, n_permutes. rewrite op2_nz, op1_total. fold (par w1).
  destruct (par w2); cbn [Nat.b2n andb]; [now rewrite Nat.mul_1_l | reflexivity].
Qed.

(* For every pair of words the code admits, the generated rule produces  F (o1 (x) o2) F^T  with the two sites
   exchanged: w1 is the operator that sat on the second site, w2 the one of the first site *)
Theorem jw_swap_rule_conj_all_words : rule_layout_ok = true /\ forall w1 w2, rule_word w1 -> rule_word w2 -> rule_asserts w1 w2 = true ->
  exists n1 n2 mn, jw_rule w1 w2 = Some (n1, n2, mn)
    /\ scale4 (sgn mn) (kron (den_word n1) (den_word n2)) = conjF (kron (den_word w2) (den_word w1)).
Proof.
  split; [reflexivity|]. intros w1 w2 H1 H2 Has.
  pose proof (den_parity w1 H1) as G1. pose proof (den_parity w2 H2) as G2.
  destruct (prepend_den w1 H1) as [p1 [Hp1 Hd1]]. destruct (prepend_den w2 H2) as [p2 [Hp2 Hd2]].
  rewrite (conj_graded _ _ _ _ G2 G1).
  unfold jw_rule, new_op1, new_op2. rewrite Has, op1_nz, op2_nz, coeff_minus_eq.
  destruct (par w1), (par w2); cbn [Nat.b2n Nat.eqb]; rewrite ?Hp1, ?Hp2; do 3 eexists; (split; [reflexivity|]);
    rewrite ?Hd1, ?Hd2; reflexivity.
Qed.

(* finite form, independent of the shape of the rule: all admitted pairs of words of at most three symbols *)
Definition admitted_pairs (k : nat) : list (jw_word * jw_word) :=
  filter (fun p => rule_asserts (fst p) (snd p)) (list_prod (rule_words k) (rule_words k)).

Theorem jw_swap_rule_conj_proof : forall w1 w2, In (w1, w2) (admitted_pairs 3) ->
  exists x, rule_new_op w1 w2 = Some x /\ x = conjF (rule_old_op w1 w2).
Proof.
  assert (H : forallb (fun p => pair_ok (fst p) (snd p)) (admitted_pairs 3) = true) by (vm_compute; reflexivity).
  intros w1 w2 Hin. rewrite forallb_forall in H. specialize (H _ Hin). cbn [fst snd] in H.
  unfold pair_ok in H. destruct (rule_new_op w1 w2) as [x|]; [|discriminate].
  exists x. split; [reflexivity|]. unfold eqb4 in H. apply andb_true_iff in H. destruct H as [Hl Hc].
  apply Nat.eqb_eq in Hl. revert Hl Hc. generalize (conjF (rule_old_op w1 w2)). clear.
  induction x as [|a x IH]; intros [|b y] Hl Hc; try discriminate; [reflexivity|].
  cbn in Hl, Hc. apply andb_true_iff in Hc. destruct Hc as [Hab Hc]. apply Z.eqb_eq in Hab. subst.
  f_equal. apply IH; [now injection Hl|exact Hc].
Qed.

(* state side: _update_mps applies exactly F to the two-site amplitude *)
Theorem state_rule_is_F : state_axes_ok = true /\ forall v0 v1 v2 v3, state_rule [v0; v1; v2; v3] = apply4 F4 [v0; v1; v2; v3].
Proof.
  split; [reflexivity|]. intros. cbv -[Z.mul Z.add Z.opp Z.sub].
  repeat (f_equal; try ring).
Qed.

Lemma F4_orthogonal : mmul4 (tr4 F4) F4 = id4 /\ mmul4 F4 (tr4 F4) = id4.
Proof. split; vm_compute; reflexivity. Qed.

(* ------------------------------------------------------------------ coverage of the qc symbols *)
Lemma qc_covered_spec : qc_covered = true <-> forall s, In s qc_alphabet -> rule_classifies s = true.
Proof. unfold qc_covered. apply forallb_forall. Qed.

(* soundness of the search: a reported pair is a pair of single qc symbols on which the rule's output
   is not the F-conjugate (or on which the code raises) *)
Theorem qc_counterexample_sound : forall w1 w2, qc_counterexample = Some (w1, w2) ->
  (exists s1 s2, In s1 qc_alphabet /\ In s2 qc_alphabet /\ w1 = [s1] /\ w2 = [s2]) /\
  (rule_new_op w1 w2 = None \/ exists x, rule_new_op w1 w2 = Some x /\ x <> conjF (rule_old_op w1 w2)).
Proof.
  unfold qc_counterexample. intros w1 w2 H. apply find_some in H. destruct H as [Hin Hbad]. cbn [fst snd] in Hbad.
  split.
  - unfold qc_single_pairs in Hin. apply in_prod_iff in Hin. destruct Hin as [Ha Hb].
    apply in_map_iff in Ha. apply in_map_iff in Hb. destruct Ha as [s1 [<- Hs1]]. destruct Hb as [s2 [<- Hs2]].
    exists s1, s2. auto.
  - unfold pair_ok in Hbad. destruct (rule_new_op w1 w2) as [x|]; [right|left; reflexivity].
    exists x. split; [reflexivity|]. intros ->. apply negb_true_iff in Hbad.
    assert (E : forall y, eqb4 y y = true).
    { intros y. unfold eqb4. rewrite Nat.eqb_refl. cbn [andb]. induction y; [reflexivity|]. cbn. now rewrite Z.eqb_refl, IHy. }
    now rewrite E in Hbad.
Qed.

Theorem qc_no_counterexample_complete : qc_counterexample = None ->
  forall s1 s2, In s1 qc_alphabet -> In s2 qc_alphabet -> pair_ok [s1] [s2] = true.
Proof.
  unfold qc_counterexample. intros H s1 s2 H1 H2.
  pose proof (find_none _ _ H ([s1], [s2])) as Hn. cbn [fst snd] in Hn.
  apply negb_false_iff. apply Hn. unfold qc_single_pairs. apply in_prod; [apply (in_map (fun s => [s]) _ _ H1) | apply (in_map (fun s => [s]) _ _ H2)].
Qed.


(* ================================================================== qc_model terms are products of JW strings *)
Definition site_mat (core : M2) (l j : nat) : M2 := if Nat.ltb l j then Z2 else if Nat.eqb l j then core else I2.

Lemma map_const_repeat : forall {A B} (x : B) (l : list A), map (fun _ => x) l = repeat x (List.length l).
Proof. induction l; cbn; [reflexivity|]. now rewrite IHl. Qed.

Lemma jw_string_sites : forall core n j, jw_string core n j = map (fun l => site_mat core l j) (seq 0 n).
Proof.
  induction n; intros j; [reflexivity|]. cbn [jw_string seq map]. rewrite <- seq_shift, map_map. destruct j.
  - f_equal. rewrite (map_ext _ (fun _ => I2)) by reflexivity. now rewrite map_const_repeat, seq_length.
  - f_equal. rewrite IHn. apply map_ext. reflexivity.
Qed.

Lemma den_lop_site : forall l dag j, den_word (lop_site l (dag, j)) = site_mat (if dag then Sm else Sp) l j.
Proof.
  intros. rewrite lop_site_spec. unfold site_mat. destruct (Nat.ltb l j); [reflexivity|].
  destruct (Nat.eqb l j); [|reflexivity]. destruct dag; reflexivity.
Qed.

Lemma zipmul_map : forall {A} (f g : A -> M2) l, zipmul (map f l) (map g l) = map (fun x => mul2 (f x) (g x)) l.
Proof. induction l; cbn [map zipmul]; [reflexivity|]. now rewrite IHl. Qed.

Lemma ops_product_sites : forall n ops,
  ops_product n ops = mkPT 1 (map (fun l => den_word (site_word ops l)) (seq 0 n)).
Proof.
  induction ops as [|[dag j] ops IH]; cbn [ops_product fold_right].
  - f_equal. rewrite (map_ext _ (fun _ => I2)) by reflexivity. now rewrite map_const_repeat, seq_length.
  - fold (ops_product n ops). rewrite IH. unfold pt_mul, lop_pt, a_dag, a_op; cbn [fst snd pt_coef pt_facs].
    assert (E : (if dag then mkPT 1 (jw_string Sm n j) else mkPT 1 (jw_string Sp n j)) = mkPT 1 (jw_string (if dag then Sm else Sp) n j))
      by (destruct dag; reflexivity).
    rewrite E; cbn [pt_coef pt_facs]. f_equal. rewrite jw_string_sites, zipmul_map. apply map_ext. intros l.
    unfold site_word; cbn [flat_map]. now rewrite den_word_app, den_lop_site.
Qed.

Lemma all_cancel_no_permute : forall w, nonZ w = [] -> forall m, fold_left simp_step w (0%nat, m) = (0%nat, m).
Proof.
  induction w as [|s t IH]; intros H m; [reflexivity|].
  unfold nonZ in H; cbn [filter] in H. destruct (String.eqb s simp_cancel_sym) eqn:E; cbn [negb] in H; [|discriminate].
  apply String.eqb_eq in E; subst s. cbn [fold_left].
  change (simp_step (0%nat, m) simp_cancel_sym) with (0%nat, (m + 0)%nat). rewrite Nat.add_0_r. apply IH. exact H.
Qed.

Lemma site_emit_den : forall ops l,
  den_word (site_word ops l) =
  scale2 (sgn (match site_emit ops l with Some (sg, _) => sg | None => false end))
         (match site_emit ops l with Some (_, nw) => den_word nw | None => I2 end).
Proof.
  intros. unfold site_emit. pose proof (simplify_op_den_proof _ (site_word_alphabet ops l)) as H.
  destruct (site_word ops l) as [|s t] eqn:E; [reflexivity|]. rewrite <- E in *.
  destruct (simp_new_symbol (site_word ops l)) eqn:E2; [|exact H].
  rewrite H. cbn [den_word sgn]. f_equal.
  assert (Hn : nonZ (site_word ops l) = []).
  { unfold simp_new_symbol in E2. fold (nonZ (site_word ops l)) in E2. apply app_eq_nil in E2. tauto. }
  unfold simp_sign_minus. rewrite simp_n_permute_eq. unfold simp_init. now rewrite (all_cancel_no_permute _ Hn).
Qed.

Lemma entry_scaled : forall (sg : nat -> bool) (F : nat -> M2) ls r c,
  entry (map (fun l => scale2 (sgn (sg l)) (F l)) ls) r c
  = sgn (fold_right xorb false (map sg ls)) * entry (map F ls) r c.
Proof.
  induction ls; intros r c; cbn [map entry fold_right].
  - cbn. destruct r, c; ring.
  - destruct r as [|x r]; [cbn; ring|]. destruct c as [|y c]; [cbn; ring|].
    rewrite IHls, get2_scale2, sgn_xorb. ring.
Qed.

(* every term qc_model generates (sign from simplify_op, reduced words per site) is exactly the ordered product of
   the Jordan-Wigner strings of its ladder operators, for any number of spin orbitals *)
Theorem qc_term_is_jw_product_proof : forall n ops r c,
  pt_entry (term_pt n ops) r c = pt_entry (ops_product n ops) r c.
Proof.
  intros. rewrite ops_product_sites. unfold pt_entry, term_pt, term_sign_minus, term_facs; cbn [pt_coef pt_facs].
  rewrite (map_ext _ _ (fun l => site_emit_den ops l)).
  rewrite (entry_scaled (fun l => match site_emit ops l with Some (sg, _) => sg | None => false end)
                        (fun l => match site_emit ops l with Some (_, nw) => den_word nw | None => I2 end)).
  ring.
Qed.

(* ================================================================== stacked = flat as multisets *)
From Coq Require Import Permutation.

Lemma flat_map_app_perm : forall {A B} (f g : A -> list B) l,
  Permutation (flat_map (fun x => f x ++ g x) l) (flat_map f l ++ flat_map g l).
Proof.
  induction l; cbn [flat_map]; [constructor|].
  rewrite <- !app_assoc. apply Permutation_app_head.
  rewrite IHl. rewrite !app_assoc. apply Permutation_app_tail. apply Permutation_app_comm.
Qed.

Lemma flat_map_map_out : forall {A B C} (f : B -> C) (g : A -> list B) l, flat_map (fun x => map f (g x)) l = map f (flat_map g l).
Proof. induction l; cbn [flat_map map]; [reflexivity|]. now rewrite map_app, IHl. Qed.

Lemma flat_map_pick : forall {B} (x : B) (kx : nat) ps, NoDup ps -> In kx ps ->
  flat_map (fun p => if Nat.eqb kx p then [x] else []) ps = [x].
Proof.
  induction ps as [|p ps IH]; intros Hnd Hin; [destruct Hin|]. inversion Hnd as [|? ? Hni Hnd']; subst. cbn [flat_map].
  destruct (Nat.eqb_spec kx p) as [->|Hne].
  - assert (E : flat_map (fun p0 => if Nat.eqb p p0 then [x] else []) ps = []).
    { clear IH Hnd Hnd' Hin. induction ps as [|q ps IH]; [reflexivity|]. cbn [flat_map].
      destruct (Nat.eqb_spec p q) as [->|_]; [exfalso; apply Hni; left; reflexivity|]. cbn [app]. apply IH. intros H; apply Hni; right; exact H. }
    now rewrite E.
  - destruct Hin as [->|Hin]; [congruence|]. cbn [app]. now apply IH.
Qed.

Lemma group_by_key_perm : forall {B} (k : B -> nat) ps (L : list B), NoDup ps -> (forall x, In x L -> In (k x) ps) ->
  Permutation (flat_map (fun p => filter (fun x => Nat.eqb (k x) p) L) ps) L.
Proof.
  intros B k ps L Hnd. induction L as [|x L IH]; intros Hin.
  - cbn [filter]. clear Hin Hnd. induction ps as [|p ps IHp]; cbn [flat_map app]; [constructor | exact IHp].
  - rewrite (flat_map_ext _ (fun p => (if Nat.eqb (k x) p then [x] else []) ++ filter (fun y => Nat.eqb (k y) p) L)).
    2:{ intros p. cbn [filter]. destruct (Nat.eqb (k x) p); reflexivity. }
    rewrite flat_map_app_perm, flat_map_pick by (auto; apply Hin; left; reflexivity).
    cbn [app]. constructor. apply IH. intros y Hy. apply Hin. right. exact Hy.
Qed.

Lemma stacked_group_spec : forall S1 S2 p,
  stacked_group S1 S2 p = Some (map mkT1 (rows1 S1 p) ++ map mkT2 (rows2 S2 p)).
Proof.
  intros. unfold stacked_group, stacked_group_emitted, stacked_one_guard, stacked_two_guard.
  destruct (rows1 S1 p), (rows2 S2 p); reflexivity.
Qed.

Lemma stacked_domain_spec : forall norbs f1 f2, (forall p, In p (f1 ++ f2) -> (p < norbs)%nat) ->
  NoDup (stacked_domain norbs f1 f2) /\ (forall p, In p (f1 ++ f2) -> In p (stacked_domain norbs f1 f2)).
Proof.
  intros norbs f1 f2 Hb. unfold stacked_domain.
  first [ split; [apply NoDup_nodup | intros p Hp; apply nodup_In; exact Hp]
        | split; [apply seq_NoDup | intros p Hp; apply in_seq; specialize (Hb p Hp); lia] ].
Qed.

(* for every support pattern (S1, S2) and every order in which the visited first indices are enumerated (a Python set),
   the concatenation of the stacked sub-lists is a permutation of the flat list *)
Theorem stacked_is_flat_proof : forall norbs S1 S2 ps,
  (forall x, In x S1 -> (fst x < norbs)%nat) -> (forall x, In x S2 -> (qfirst x < norbs)%nat) ->
  Permutation ps (stacked_visits norbs S1 S2) ->
  Permutation (stacked_terms_over ps S1 S2) (flat_terms S1 S2).
Proof.
  intros norbs S1 S2 ps H1 H2 Hps. unfold stacked_visits in Hps.
  assert (Hb : forall p, In p (map fst S1 ++ map qfirst S2) -> (p < norbs)%nat).
  { intros p Hp. apply in_app_or in Hp. destruct Hp as [Hp|Hp]; apply in_map_iff in Hp; destruct Hp as [x [<- Hx]]; auto. }
  destruct (stacked_domain_spec norbs _ _ Hb) as [Hnd Hall].
  assert (Hnd' : NoDup ps) by (eapply Permutation_NoDup; [apply Permutation_sym; exact Hps | exact Hnd]).
  assert (Hin : forall p, In p (map fst S1 ++ map qfirst S2) -> In p ps).
  { intros p Hp. eapply Permutation_in; [apply Permutation_sym; exact Hps | apply Hall, Hp]. }
  unfold stacked_terms_over, flat_terms.
  rewrite (flat_map_ext _ (fun p => map mkT1 (rows1 S1 p) ++ map mkT2 (rows2 S2 p))) by (intros; now rewrite stacked_group_spec).
  rewrite flat_map_app_perm, !flat_map_map_out. apply Permutation_app; apply Permutation_map; unfold rows1, rows2.
  - apply (group_by_key_perm fst); [exact Hnd'|]. intros x Hx. apply Hin, in_or_app. left. now apply in_map.
  - apply (group_by_key_perm qfirst); [exact Hnd'|]. intros x Hx. apply Hin, in_or_app. right. now apply in_map.
Qed.

(* ================================================================== hermiticity: closure of the term list under the adjoint *)
Lemma sh_sym : forall h, h_symmetric h -> forall p q, sh_val h p q = sh_val h q p.
Proof.
  intros h Hh p q. unfold sh_val, sh_pred, sh_src. rewrite (Nat.eqb_sym (Nat.modulo q 2)).
  destruct (Nat.eqb (Nat.modulo p 2) (Nat.modulo q 2)); [apply Hh | reflexivity].
Qed.

Lemma aseri_sym : forall eri, eri_symmetric eri -> forall p q r s, aseri_val eri p q r s = aseri_val eri r s p q.
Proof.
  intros eri [Ha [Hb Hc]] p q r s. unfold aseri_val, aseri_in_range. rewrite (andb_comm (Nat.ltb p q)).
  destruct (Nat.ltb r s && Nat.ltb p q)%bool; [|reflexivity].
  unfold perm4, perm_get, aseri_plus, aseri_minus; cbn [nth]. unfold seri_val, seri_pred, seri_src.
  rewrite (Nat.eqb_sym (Nat.modulo r 2) (Nat.modulo q 2)), (Nat.eqb_sym (Nat.modulo s 2) (Nat.modulo p 2)),
          (Nat.eqb_sym (Nat.modulo r 2) (Nat.modulo p 2)), (Nat.eqb_sym (Nat.modulo s 2) (Nat.modulo q 2)).
  f_equal.
  - destruct (Nat.eqb (Nat.modulo p 2) (Nat.modulo s 2)), (Nat.eqb (Nat.modulo q 2) (Nat.modulo r 2)); cbn [andb]; try reflexivity.
    rewrite (Hc (Nat.div r 2)), (Ha (Nat.div s 2)), (Hb (Nat.div p 2)). reflexivity.
  - destruct (Nat.eqb (Nat.modulo p 2) (Nat.modulo r 2)), (Nat.eqb (Nat.modulo q 2) (Nat.modulo s 2)); cbn [andb]; try reflexivity.
    rewrite (Ha (Nat.div r 2)), (Hb (Nat.div p 2)). reflexivity.
Qed.

(* index level: the adjoint class carries the same coefficient, hence belongs to the support iff the class does *)
Theorem qc_hermitian_coeff : forall h eri, h_symmetric h -> eri_symmetric eri ->
  forall t, tcoef h eri (tadj t) = tcoef h eri t /\ tadj (tadj t) = t.
Proof.
  intros h eri Hh He [p q|p q r s]; cbn [tadj tcoef]; split; try reflexivity.
  - now rewrite (sh_sym h Hh).
  - now rewrite (aseri_sym eri He).
Qed.

(* operator level: the adjoint (transpose; everything is real) of a product of ladder operators is the product of the
   daggered operators in reverse order *)
Lemma entry_tr : forall fs r c, entry (map tr2 fs) r c = entry fs c r.
Proof.
  induction fs as [|f fs IH]; intros r c; destruct r as [|a r], c as [|b c]; cbn [map entry]; try reflexivity.
  rewrite IH. destruct f, a, b; reflexivity.
Qed.

Lemma den_lop_site_dag : forall l o, den_word (lop_site l (lop_dag o)) = tr2 (den_word (lop_site l o)).
Proof.
  intros l [dag j]. unfold lop_dag; cbn [fst snd]. rewrite !den_lop_site. unfold site_mat.
  destruct (Nat.ltb l j); [reflexivity|]. destruct (Nat.eqb l j); [|reflexivity]. destruct dag; reflexivity.
Qed.

Lemma site_word_app : forall a b l, site_word (a ++ b) l = site_word a l ++ site_word b l.
Proof. intros. unfold site_word. apply flat_map_app. Qed.

Lemma den_site_word_adj : forall ops l, den_word (site_word (ops_adj ops) l) = tr2 (den_word (site_word ops l)).
Proof.
  induction ops as [|o t IH]; intros l; [reflexivity|].
  unfold ops_adj in *. cbn [map rev]. rewrite site_word_app, den_word_app, IH.
  change (site_word [lop_dag o] l) with (lop_site l (lop_dag o) ++ []). rewrite app_nil_r, den_lop_site_dag.
  change (site_word (o :: t) l) with (lop_site l o ++ site_word t l). now rewrite den_word_app, tr2_mul2.
Qed.

Theorem ops_product_adj : forall n ops r c,
  pt_entry (ops_product n (ops_adj ops)) r c = pt_entry (ops_product n ops) c r.
Proof.
  intros. rewrite !ops_product_sites. unfold pt_entry; cbn [pt_coef pt_facs]. f_equal.
  rewrite (map_ext _ (fun l => tr2 (den_word (site_word ops l)))) by (intros; apply den_site_word_adj).
  rewrite <- (map_map (fun l => den_word (site_word ops l)) tr2). apply entry_tr.
Qed.

(* normal ordering of the adjoint of a two-body term: a+_s a+_r a_q a_p = a+_r a+_s a_p a_q (two anticommutations) *)
Lemma zipmul_assoc : forall a b c, zipmul (zipmul a b) c = zipmul a (zipmul b c).
Proof.
  induction a as [|x a IH]; intros [|y b] [|z c]; cbn [zipmul]; try reflexivity. now rewrite mul2_assoc, IH.
Qed.
Lemma pt_mul_assoc : forall p q r, pt_mul (pt_mul p q) r = pt_mul p (pt_mul q r).
Proof. intros [c1 f1] [c2 f2] [c3 f3]. unfold pt_mul; cbn [pt_coef pt_facs]. now rewrite zipmul_assoc, Z.mul_assoc. Qed.
Lemma zipmul_length : forall a b, List.length a = List.length b -> List.length (zipmul a b) = List.length a.
Proof. induction a as [|x a IH]; intros [|y b] H; cbn in *; try congruence. now rewrite IH by congruence. Qed.
Lemma lop_pt_length : forall n o, List.length (pt_facs (lop_pt n o)) = n.
Proof. intros n [[] j]; cbn; apply jw_string_length. Qed.
Lemma pt_mul_id_r : forall n o, pt_mul (lop_pt n o) (mkPT 1 (repeat I2 n)) = lop_pt n o.
Proof.
  intros n o. pose proof (lop_pt_length n o) as H. destruct (lop_pt n o) as [c f]; cbn [pt_facs] in H. unfold pt_mul; cbn [pt_coef pt_facs].
  rewrite Z.mul_1_r. f_equal. rewrite <- H at 1. apply zipmul_repeat_I_r.
Qed.
Lemma all_bits_length : forall n m, In m (all_bits n) -> List.length m = n.
Proof.
  induction n; intros m H; cbn [all_bits] in H.
  - destruct H as [<-|[]]. reflexivity.
  - apply in_app_or in H. destruct H as [H|H]; apply in_map_iff in H; destruct H as [m' [<- H']]; cbn; now rewrite IHn.
Qed.
Lemma sumZ_map_ext_in : forall {A} (f g : A -> Z) l, (forall x, In x l -> f x = g x) -> sumZ (map f l) = sumZ (map g l).
Proof. intros. f_equal. apply map_ext_in; auto. Qed.

Lemma anticomm_pairs : forall n (A B C D : lop) r c,
  (forall r c, List.length r = n -> List.length c = n -> acomm (lop_pt n A) (lop_pt n B) r c = 0) ->
  (forall r c, List.length r = n -> List.length c = n -> acomm (lop_pt n C) (lop_pt n D) r c = 0) ->
  List.length r = n -> List.length c = n ->
  pt_entry (ops_product n [A; B; C; D]) r c = pt_entry (ops_product n [B; A; D; C]) r c.
Proof.
  intros n A B C D r c HAB HCD Hr Hc. cbn [ops_product fold_right]. rewrite !pt_mul_id_r, <- !pt_mul_assoc.
  assert (L2 : forall X Y, List.length (pt_facs (pt_mul (lop_pt n X) (lop_pt n Y))) = n).
  { intros. unfold pt_mul; cbn [pt_facs]. rewrite zipmul_length; rewrite !lop_pt_length; reflexivity. }
  rewrite !pt_mul_assoc.
  rewrite <- (pt_mul_assoc (lop_pt n A)), <- (pt_mul_assoc (lop_pt n B)).
  rewrite !pt_mul_is_operator_product by (rewrite ?L2, ?Hr, ?Hc; reflexivity).
  apply sumZ_map_ext_in. intros m Hm. rewrite Hr in Hm. apply all_bits_length in Hm.
  specialize (HAB r m Hr Hm). specialize (HCD m c Hm Hc). unfold acomm in HAB, HCD. nia.
Qed.

Lemma acomm_dag_dag : forall n i j r c, (i < n)%nat -> (j < n)%nat -> List.length r = n -> List.length c = n ->
  acomm (lop_pt n (true, i)) (lop_pt n (true, j)) r c = 0.
Proof. intros. cbn [lop_pt fst snd]. now destruct (jw_car_proof n i j r c) as [_ [_ ?]]. Qed.
Lemma acomm_op_op : forall n i j r c, (i < n)%nat -> (j < n)%nat -> List.length r = n -> List.length c = n ->
  acomm (lop_pt n (false, i)) (lop_pt n (false, j)) r c = 0.
Proof. intros. cbn [lop_pt fst snd]. now destruct (jw_car_proof n i j r c) as [_ [? _]]. Qed.

(* the term list is closed under the adjoint: for symmetric integrals the class tadj t carries the same coefficient and
   its operator is the transpose of the operator of t -- every number of spin orbitals, every matrix element *)
Theorem qc_hermitian_proof : forall n h eri, h_symmetric h -> eri_symmetric eri ->
  forall t r c, (match t with T1 p q => p < n /\ q < n | T2 p q r' s => p < n /\ q < n /\ r' < n /\ s < n end)%nat ->
  List.length r = n -> List.length c = n ->
  tcoef h eri (tadj t) * pt_entry (term_pt n (t_ops (tadj t))) r c = tcoef h eri t * pt_entry (term_pt n (t_ops t)) c r.
Proof.
  intros n h eri Hh He t r c Hb Hr Hc. destruct (qc_hermitian_coeff h eri Hh He t) as [-> _]. f_equal.
  rewrite !qc_term_is_jw_product_proof, <- ops_product_adj.
  destruct t as [p q|p q r' s]; cbn [tadj t_ops].
  - reflexivity.
  - destruct Hb as [Hp [Hq [Hr' Hs]]].
    change (ops_adj (two_body_ops p q r' s)) with [(true, s); (true, r'); (false, q); (false, p)].
    change (two_body_ops r' s p q) with [(true, r'); (true, s); (false, p); (false, q)].
    symmetry. apply anticomm_pairs; auto; intros; [apply acomm_dag_dag | apply acomm_op_op]; auto.
Qed.

(* ================================================================== sequences of exchanges (operator side, swap_jw = False) *)
(* Built on C01's swap_mpo_sound (Proofs/SymMpoProofs.v), for every commutative ring and every exact-zero test. *)
From RV Require Import Base.CRing Model.SymMpo Proofs.SymMpoProofs.

(* exchange the entries k, k+1 of a string of primary operators *)
Definition swap_str (k : nat) (s : list nat) : list nat :=
  firstn k s ++ match skipn k s with a :: b :: t => b :: a :: t | t => t end.
Definition perm_str (ks : list nat) (s : list nat) : list nat := fold_right swap_str s ks.

Lemma swap_str_length : forall k s, List.length (swap_str k s) = List.length s.
Proof.
  intros. unfold swap_str. rewrite <- (firstn_skipn k s) at 3. rewrite !app_length. f_equal.
  destruct (skipn k s) as [|a [|b t]]; reflexivity.
Qed.
Lemma perm_str_length : forall ks s, List.length (perm_str ks s) = List.length s.
Proof. induction ks; intros; cbn [perm_str fold_right]; [reflexivity|]. fold (perm_str ks s). now rewrite swap_str_length, IHks. Qed.

Section OfsPlain.
Variable R : CRing.
Variable iszero : R -> bool.
Hypothesis iszero_ok : forall x, iszero x = true -> x = r0 R.

(* a history of successful try_swap_site calls: positions (= number of bonds before the exchanged pair), oldest first *)
Inductive swap_history : list (bond R) -> list nat -> list (bond R) -> Prop :=
| sh_nil : forall bs, swap_history bs [] bs
| sh_step : forall nprim pre post b2 b3 nb2 nb3 ws ks bs',
    swap_site R iszero nprim b2 b3 ws = Some (nb2, nb3) ->
    sweep_ok R iszero ws (dedup R iszero (swap_table R nprim b2 b3)) ->
    swap_history (pre ++ nb2 :: nb3 :: post) ks bs' ->
    swap_history (pre ++ b2 :: b3 :: post) (List.length pre :: ks) bs'.

Lemma swap_history_length : forall bs ks bs', swap_history bs ks bs' -> List.length bs' = List.length bs.
Proof. induction 1; [reflexivity|]. rewrite IHswap_history, !app_length. reflexivity. Qed.

Lemma one_swap_coeff : forall nprim pre post b2 b3 nb2 nb3 ws s,
  swap_site R iszero nprim b2 b3 ws = Some (nb2, nb3) ->
  sweep_ok R iszero ws (dedup R iszero (swap_table R nprim b2 b3)) ->
  List.length s = List.length (pre ++ b2 :: b3 :: post) ->
  coeff R (pre ++ nb2 :: nb3 :: post) s = coeff R (pre ++ b2 :: b3 :: post) (swap_str (List.length pre) s).
Proof.
  intros nprim pre post b2 b3 nb2 nb3 ws s Hs Hok Hlen. rewrite app_length in Hlen. cbn [List.length] in Hlen.
  unfold swap_str. rewrite <- (firstn_skipn (List.length pre) s) at 1.
  assert (Hsk : List.length (skipn (List.length pre) s) = S (S (List.length post))) by (rewrite skipn_length; lia).
  destruct (skipn (List.length pre) s) as [|a [|b t]]; cbn [List.length] in Hsk; try lia.
  apply (swap_mpo_sound R iszero iszero_ok nprim pre post b2 b3 nb2 nb3 ws Hs Hok). lia.
Qed.

(* after ANY sequence of adjacent exchanges the coefficient of every operator string is the original coefficient of the
   string with the same exchanges undone: the operator is the original one written in the new site order *)
Theorem ofs_operator_invariant_plain_proof : forall bs ks bs', swap_history bs ks bs' ->
  forall s, List.length s = List.length bs -> coeff R bs' s = coeff R bs (perm_str ks s).
Proof.
  induction 1 as [bs|nprim pre post b2 b3 nb2 nb3 ws ks bs' Hs Hok Hh IH]; intros s Hlen; [reflexivity|].
  cbn [perm_str fold_right]. fold (perm_str ks s).
  rewrite IH by (rewrite Hlen, !app_length; reflexivity).
  apply (one_swap_coeff nprim pre post b2 b3 nb2 nb3 ws); [exact Hs | exact Hok |]. now rewrite perm_str_length.
Qed.
End OfsPlain.

(* ================================================================== exchanges with the Jordan-Wigner rule: whole operator, histories *)
(* Built on C01's swap_jw_sound (abstract rule phi : (p, q) -> (p', q', c); p = operator of the old second site). *)
Section OfsJw.
Variable R : CRing.
Variable iszero : R -> bool.
Hypothesis iszero_ok : forall x, iszero x = true -> x = r0 R.
Add Ring RRjw : (rth R).

(* D' is obtained from D by the rule at depth k (strings latest site first) *)
Definition jw_rel (phi : nat * nat -> nat * nat * R) (dom : list (nat * nat)) (k : nat) (D D' : den R) : Prop :=
  forall i w l p' q', List.length w = k ->
    D' i (w ++ q' :: p' :: l)
    = SymMpo.lsum R dom (fun pq => if pair_eqb (fst (phi pq)) (p', q') then rmul R (snd (phi pq)) (D i (w ++ fst pq :: snd pq :: l)) else r0 R).

Lemma jw_rel_dnext : forall phi dom k D D' b, jw_rel phi dom k D D' -> jw_rel phi dom (S k) (dnext R D b) (dnext R D' b).
Proof.
  intros phi dom k D D' b H i w l p' q' Hw. destruct w as [|x w]; [discriminate|]. cbn [app dnext].
  injection Hw as Hw.
  rewrite (lsum_ext R (nth i b []) _
             (fun e => SymMpo.lsum R dom (fun pq => if pair_eqb (fst (phi pq)) (p', q')
                                               then rmul R (snd (phi pq)) (rmul R (snd e) (drow R D (w ++ fst pq :: snd pq :: l) x (fst e)))
                                               else r0 R))).
  2:{ intros [key f] _. cbn [fst snd]. unfold drow. destruct key as [|a [|o' [|? ?]]];
      try (rewrite lsum_zero; [ring | intros pq _; destruct (pair_eqb (fst (phi pq)) (p', q')); ring]).
      destruct (Nat.eqb o' x).
      - rewrite (H a w l p' q' Hw), <- lsum_scale. apply lsum_ext. intros pq _. destruct (pair_eqb (fst (phi pq)) (p', q')); ring.
      - rewrite lsum_zero; [ring | intros pq _; destruct (pair_eqb (fst (phi pq)) (p', q')); ring]. }
  rewrite lsum_swap. apply lsum_ext. intros pq _. destruct (pair_eqb (fst (phi pq)) (p', q')).
  - now rewrite lsum_scale.
  - apply lsum_zero. reflexivity.
Qed.

Lemma jw_rel_dchain : forall phi dom post k D D', jw_rel phi dom k D D' ->
  jw_rel phi dom (k + List.length post) (dchain R D post) (dchain R D' post).
Proof.
  induction post as [|b post IH]; intros k D D' H; cbn [dchain List.length].
  - now rewrite Nat.add_0_r.
  - replace (k + S (List.length post))%nat with (S k + List.length post)%nat by lia. apply IH, jw_rel_dnext, H.
Qed.

Lemma swap_site_jw_length : forall nprim nprim' phi b2 b3 nb2 nb3 ws,
  swap_site_jw R iszero nprim nprim' phi b2 b3 ws = Some (nb2, nb3) -> List.length nb3 = List.length b3.
Proof.
  intros nprim nprim' phi b2 b3 nb2 nb3 ws Hs. unfold swap_site_jw in Hs.
  destruct (sweep R iszero ws _) as [bsl tf].
  destruct bsl as [|x1 [|x2 [|[|x3 [|? ?]] [|? ?]]]]; try discriminate.
  destruct (final_okb R iszero tf && Nat.eqb (List.length x2) (List.length b3))%bool; [|discriminate].
  destruct (resort R nprim' (List.length b3) 0 x2 x3) as [r|] eqn:Er; [|discriminate].
  inversion Hs; subst. apply (resort_length R _ _ _ _ _ _ Er).
Qed.

(* one try_swap_site(swap_jw=True) on the whole operator: the coefficient of the string with p' on the new first and q' on
   the new second site is the signed sum of the old coefficients of (q on the old first, p on the old second site) over the
   pairs the rule maps to (p', q') *)
Theorem swap_jw_mpo_sound : forall nprim nprim' phi pre post b2 b3 nb2 nb3 ws dom,
  (nprim <= nprim')%nat ->
  swap_site_jw R iszero nprim nprim' phi b2 b3 ws = Some (nb2, nb3) ->
  sweep_ok R iszero ws (map (jw_row R phi (nprim' - nprim)) (dedup R iszero (swap_table R nprim b2 b3))) ->
  NoDup dom -> pairs_in R (swap_table R nprim b2 b3) dom ->
  forall spre spost p' q', List.length spost = List.length post ->
    coeff R (pre ++ nb2 :: nb3 :: post) (spre ++ p' :: q' :: spost)
    = SymMpo.lsum R dom (fun pq => if pair_eqb (fst (phi pq)) (p', q')
                                   then rmul R (snd (phi pq)) (coeff R (pre ++ b2 :: b3 :: post) (spre ++ snd pq :: fst pq :: spost))
                                   else r0 R).
Proof.
  intros nprim nprim' phi pre post b2 b3 nb2 nb3 ws dom Hle Hs Hok Hnd Hdom spre spost p' q' Hlen.
  unfold coeff. rewrite !dchain_app. cbn [dchain]. rewrite !rev_app_distr. cbn [rev]. rewrite <- !app_assoc. cbn [app].
  set (D1 := dchain R (D0 R) pre).
  assert (H0 : jw_rel phi dom 0 (dnext R (dnext R D1 b2) b3) (dnext R (dnext R D1 nb2) nb3)).
  { intros i w l p'' q'' Hw. destruct w; [|discriminate]. cbn [app].
    destruct (Nat.lt_ge_cases i (List.length b3)) as [Hi|Hi].
    - apply (swap_jw_sound R iszero iszero_ok nprim nprim' phi b2 b3 nb2 nb3 ws dom Hle Hs Hok Hnd Hdom D1 i p'' q'' l Hi).
    - pose proof (swap_site_jw_length _ _ _ _ _ _ _ _ Hs) as Hl. cbn [dnext]. rewrite !nth_overflow by lia. cbn [SymMpo.lsum].
      symmetry. apply lsum_zero. intros pq _. destruct (pair_eqb (fst (phi pq)) (p'', q'')); ring. }
  pose proof (jw_rel_dchain phi dom post 0 _ _ H0) as H1. cbn [Nat.add] in H1.
  rewrite (H1 0%nat (rev spost) (rev spre) p' q') by (now rewrite rev_length).
  apply lsum_ext. intros pq _. rewrite !rev_app_distr. cbn [rev]. rewrite <- !app_assoc. reflexivity.
Qed.

(* the action of one exchange on coefficient functions (strings in site order, position k = new first site) *)
Definition jw_step_fun (k : nat) (phi : nat * nat -> nat * nat * R) (dom : list (nat * nat)) (c : list nat -> R) : list nat -> R :=
  fun s => match skipn k s with
           | p' :: q' :: t => SymMpo.lsum R dom (fun pq => if pair_eqb (fst (phi pq)) (p', q')
                                                      then rmul R (snd (phi pq)) (c (firstn k s ++ snd pq :: fst pq :: t)) else r0 R)
           | _ => r0 R
           end.
Definition plain_step_fun (k : nat) (c : list nat -> R) : list nat -> R := fun s => c (swap_str k s).

(* histories of successful exchanges, with (jh_jw) or without (jh_plain) the Jordan-Wigner rule, oldest first; the second
   index is the accumulated action on coefficient functions *)
Inductive ofs_history : list (bond R) -> ((list nat -> R) -> list nat -> R) -> list (bond R) -> Prop :=
| jh_nil : forall bs, ofs_history bs (fun c => c) bs
| jh_plain : forall bs T nprim pre post b2 b3 nb2 nb3 ws,
    ofs_history bs T (pre ++ b2 :: b3 :: post) ->
    swap_site R iszero nprim b2 b3 ws = Some (nb2, nb3) ->
    sweep_ok R iszero ws (dedup R iszero (swap_table R nprim b2 b3)) ->
    ofs_history bs (fun c => plain_step_fun (List.length pre) (T c)) (pre ++ nb2 :: nb3 :: post)
| jh_jw : forall bs T nprim nprim' phi dom pre post b2 b3 nb2 nb3 ws,
    ofs_history bs T (pre ++ b2 :: b3 :: post) ->
    (nprim <= nprim')%nat ->
    swap_site_jw R iszero nprim nprim' phi b2 b3 ws = Some (nb2, nb3) ->
    sweep_ok R iszero ws (map (jw_row R phi (nprim' - nprim)) (dedup R iszero (swap_table R nprim b2 b3))) ->
    NoDup dom -> pairs_in R (swap_table R nprim b2 b3) dom ->
    ofs_history bs (fun c => jw_step_fun (List.length pre) phi dom (T c)) (pre ++ nb2 :: nb3 :: post).

Lemma ofs_history_length : forall bs T bs', ofs_history bs T bs' -> List.length bs' = List.length bs.
Proof. induction 1; [reflexivity| |]; rewrite <- IHofs_history, !app_length; reflexivity. Qed.

Theorem ofs_operator_invariant_proof : forall bs T bs', ofs_history bs T bs' ->
  forall s, List.length s = List.length bs -> coeff R bs' s = T (coeff R bs) s.
Proof.
  induction 1 as [bs | bs T nprim pre post b2 b3 nb2 nb3 ws Hh IH Hs Hok
                     | bs T nprim nprim' phi dom pre post b2 b3 nb2 nb3 ws Hh IH Hle Hs Hok Hnd Hdom]; intros s Hlen.
  - reflexivity.
  - pose proof (ofs_history_length _ _ _ Hh) as HL.
    unfold plain_step_fun. rewrite <- IH by (now rewrite swap_str_length).
    apply (one_swap_coeff R iszero iszero_ok nprim pre post b2 b3 nb2 nb3 ws s Hs Hok). now rewrite HL.
  - pose proof (ofs_history_length _ _ _ Hh) as HL. rewrite app_length in HL. cbn [List.length] in HL.
    unfold jw_step_fun.
    assert (Hsk : List.length (skipn (List.length pre) s) = S (S (List.length post))) by (rewrite skipn_length; lia).
    destruct (skipn (List.length pre) s) as [|p' [|q' t]] eqn:E; cbn [List.length] in Hsk; try lia.
    rewrite <- (firstn_skipn (List.length pre) s) at 1. rewrite E.
    rewrite (swap_jw_mpo_sound nprim nprim' phi pre post b2 b3 nb2 nb3 ws dom Hle Hs Hok Hnd Hdom) by lia.
    apply lsum_ext. intros pq _. destruct (pair_eqb (fst (phi pq)) (p', q')); [|reflexivity]. f_equal.
    apply IH. rewrite app_length, firstn_length. cbn [List.length]. lia.
Qed.
End OfsJw.

(* ================================================================== the generated rule as C01's abstract rule; F conjugation of the two-site block *)
(* primary operators are interned words: prim (old table), prim' (table after the rule appended its new words) *)
Definition phi_jw (prim : nat -> jw_word) (intern : jw_word -> nat) (pq : nat * nat) : nat * nat * Z :=
  match jw_rule (prim (fst pq)) (prim (snd pq)) with
  | Some (n1, n2, mn) => (intern n1, intern n2, sgn mn)
  | None => (fst pq, snd pq, 1)
  end.

(* what the rule has to achieve on a pair: p = operator of the old second site, q = of the old first site *)
Definition phi_conj_at (prim prim' : nat -> jw_word) (phi : nat * nat -> nat * nat * Z) (pq : nat * nat) : Prop :=
  scale4 (snd (phi pq)) (kron (den_word (prim' (fst (fst (phi pq))))) (den_word (prim' (snd (fst (phi pq))))))
  = conjF (kron (den_word (prim (snd pq))) (den_word (prim (fst pq)))).

Theorem phi_jw_conj : forall prim prim' intern pq,
  rule_word (prim (fst pq)) -> rule_word (prim (snd pq)) -> rule_asserts (prim (fst pq)) (prim (snd pq)) = true ->
  (forall n1 n2 mn, jw_rule (prim (fst pq)) (prim (snd pq)) = Some (n1, n2, mn) -> prim' (intern n1) = n1 /\ prim' (intern n2) = n2) ->
  phi_conj_at prim prim' (phi_jw prim intern) pq.
Proof.
  intros prim prim' intern pq H1 H2 Has Hint.
  destruct jw_swap_rule_conj_all_words as [_ H]. destruct (H _ _ H1 H2 Has) as [n1 [n2 [mn [Hr Hc]]]].
  unfold phi_conj_at, phi_jw. rewrite Hr. cbn [fst snd]. destruct (Hint _ _ _ Hr) as [-> ->]. exact Hc.
Qed.

Definition sw4 (i : nat) : nat := match i with 1 => 2 | 2 => 1 | _ => i end%nat.
Definition fsgn (i : nat) : Z := match i with 3%nat => -1 | _ => 1 end.

(* entries of F X F^T and of c X for Kronecker products *)
Lemma conjF_kron_entry : forall A B i j, (i < 4)%nat -> (j < 4)%nat ->
  get4 (conjF (kron A B)) i j = fsgn i * fsgn j * get4 (kron A B) (sw4 i) (sw4 j).
Proof.
  intros [a0 a1 a2 a3] [b0 b1 b2 b3] i j Hi Hj.
  do 4 (destruct i as [|i]; [do 4 (destruct j as [|j]; [cbv -[Z.mul Z.add Z.opp Z.sub]; ring|]); lia|]). lia.
Qed.
Lemma scale4_kron_entry : forall c A B i j, (i < 4)%nat -> (j < 4)%nat ->
  get4 (scale4 c (kron A B)) i j = c * get4 (kron A B) i j.
Proof.
  intros c [a0 a1 a2 a3] [b0 b1 b2 b3] i j Hi Hj.
  do 4 (destruct i as [|i]; [do 4 (destruct j as [|j]; [cbv -[Z.mul Z.add Z.opp Z.sub]; ring|]); lia|]). lia.
Qed.

Lemma sumZ_map_add : forall {A} (f g : A -> Z) l, sumZ (map (fun x => f x + g x) l) = sumZ (map f l) + sumZ (map g l).
Proof. unfold sumZ. induction l; simpl; [reflexivity|]. rewrite IHl. lia. Qed.
Lemma sumZ_zero : forall {A} (f : A -> Z) l, (forall x, In x l -> f x = 0) -> sumZ (map f l) = 0.
Proof. unfold sumZ. induction l; intros H; simpl; [reflexivity|]. rewrite IHl by (intros; apply H; right; assumption). rewrite (H a) by (left; reflexivity). reflexivity. Qed.
Lemma sumZ_swap : forall {A B} (f : A -> B -> Z) la lb,
  sumZ (map (fun a => sumZ (map (fun b => f a b) lb)) la) = sumZ (map (fun b => sumZ (map (fun a => f a b) la)) lb).
Proof.
  induction la as [|a la IH]; intros lb.
  - cbn [map]. symmetry. apply sumZ_zero. reflexivity.
  - cbn [map]. change (sumZ (?x :: ?l)) with (x + sumZ l). rewrite IH, <- sumZ_map_add. reflexivity.
Qed.
Lemma sumZ_pick : forall (dom : list (nat * nat)) k (F : nat * nat -> Z), NoDup dom -> In k dom ->
  sumZ (map (fun x => if pair_eqb k x then F x else 0) dom) = F k.
Proof.
  induction dom as [|s dom IH]; intros k F ND Hin; [destruct Hin|]. cbn [map]. change (sumZ (?x :: ?l)) with (x + sumZ l).
  inversion ND as [|? ? Hn ND']; subst. destruct (pair_eqb_spec k s) as [->|Hne].
  - rewrite sumZ_zero; [ring|]. intros s' Hs'. destruct (pair_eqb_spec s s') as [->|]; [contradiction|reflexivity].
  - destruct Hin as [E|Hin]; [congruence|]. rewrite IH by assumption. ring.
Qed.
Lemma lsum_Z : forall {A} (l : list A) (f : A -> Z), SymMpo.lsum ZRing l f = sumZ (map f l).
Proof. induction l; intros; [reflexivity|]. cbn [SymMpo.lsum map]. rewrite IHl. reflexivity. Qed.

(* With the environment strings fixed, let cold q p be the old coefficient (q on the old first site, p on the old second) and
   cnew p' q' the coefficient jw_step_fun produces.  The two-site operator  sum cnew p' q' . (prim' p' (x) prim' q')  is
   F ( sum cold q p . (prim q (x) prim p) ) F^T, entry by entry ((F X F^T)_ij = fsgn i fsgn j X_(sw4 i)(sw4 j)). *)
Theorem jw_block_conj_proof : forall (prim prim' : nat -> jw_word) (phi : nat * nat -> nat * nat * Z) (dom dom' : list (nat * nat)) (cold : nat -> nat -> Z),
  NoDup dom' -> (forall pq, In pq dom -> In (fst (phi pq)) dom') -> (forall pq, In pq dom -> phi_conj_at prim prim' phi pq) ->
  forall i j, (i < 4)%nat -> (j < 4)%nat ->
  sumZ (map (fun x' => sumZ (map (fun pq => if pair_eqb (fst (phi pq)) x' then snd (phi pq) * cold (snd pq) (fst pq) else 0) dom)
                       * get4 (kron (den_word (prim' (fst x'))) (den_word (prim' (snd x')))) i j) dom')
  = fsgn i * fsgn j * sumZ (map (fun pq => cold (snd pq) (fst pq) * get4 (kron (den_word (prim (snd pq))) (den_word (prim (fst pq)))) (sw4 i) (sw4 j)) dom).
Proof.
  intros prim prim' phi dom dom' cold ND Him Hgood i j Hi Hj.
  rewrite (sumZ_map_ext _ (fun x' => sumZ (map (fun pq => (if pair_eqb (fst (phi pq)) x' then snd (phi pq) * cold (snd pq) (fst pq) else 0)
                                              * get4 (kron (den_word (prim' (fst x'))) (den_word (prim' (snd x')))) i j) dom))).
  2:{ intros x'. rewrite Z.mul_comm, <- sumZ_map_scale. apply sumZ_map_ext. intros; ring. }
  rewrite sumZ_swap, <- sumZ_map_scale. apply sumZ_map_ext_in. intros pq Hpq.
  rewrite (sumZ_map_ext _ (fun x' => if pair_eqb (fst (phi pq)) x'
                                     then snd (phi pq) * cold (snd pq) (fst pq) * get4 (kron (den_word (prim' (fst x'))) (den_word (prim' (snd x')))) i j else 0))
    by (intros x'; destruct (pair_eqb (fst (phi pq)) x'); ring).
  rewrite (sumZ_pick dom' (fst (phi pq)) (fun x' => snd (phi pq) * cold (snd pq) (fst pq) * get4 (kron (den_word (prim' (fst x'))) (den_word (prim' (snd x')))) i j) ND (Him pq Hpq)).
  pose proof (Hgood pq Hpq) as Hg. unfold phi_conj_at in Hg.
  pose proof (f_equal (fun X => get4 X i j) Hg) as He. cbn beta in He.
  rewrite scale4_kron_entry, conjF_kron_entry in He by assumption.
  transitivity (cold (snd pq) (fst pq) * (snd (phi pq) * get4 (kron (den_word (prim' (fst (fst (phi pq))))) (den_word (prim' (snd (fst (phi pq)))))) i j)); [ring|].
  rewrite He. ring.
Qed.

Lemma jw_step_fun_Z : forall k phi dom (c : list nat -> Z) spre p' q' t, List.length spre = k ->
  jw_step_fun ZRing k phi dom c (spre ++ p' :: q' :: t)
  = sumZ (map (fun pq => if pair_eqb (fst (phi pq)) (p', q') then snd (phi pq) * c (spre ++ snd pq :: fst pq :: t) else 0) dom).
Proof.
  intros k phi dom c spre p' q' t Hk. unfold jw_step_fun. subst k.
  rewrite skipn_app, Nat.sub_diag, skipn_all, firstn_app, Nat.sub_diag, firstn_all. cbn [skipn firstn app]. rewrite app_nil_r.
  apply lsum_Z.
Qed.

(* one exchange with the generated rule, semantically: for every environment (spre, t) the two-site block of the new
   coefficient function is F . (two-site block of the old one) . F^T *)
Theorem jw_step_block_conj_proof : forall (prim prim' : nat -> jw_word) phi dom dom' k (c : list nat -> Z) spre t,
  List.length spre = k -> NoDup dom' -> (forall pq, In pq dom -> In (fst (phi pq)) dom') ->
  (forall pq, In pq dom -> phi_conj_at prim prim' phi pq) ->
  forall i j, (i < 4)%nat -> (j < 4)%nat ->
  sumZ (map (fun x' => jw_step_fun ZRing k phi dom c (spre ++ fst x' :: snd x' :: t)
                       * get4 (kron (den_word (prim' (fst x'))) (den_word (prim' (snd x')))) i j) dom')
  = fsgn i * fsgn j * sumZ (map (fun pq => c (spre ++ snd pq :: fst pq :: t)
                                           * get4 (kron (den_word (prim (snd pq))) (den_word (prim (fst pq)))) (sw4 i) (sw4 j)) dom).
Proof.
  intros prim prim' phi dom dom' k c spre t Hk ND Him Hgood i j Hi Hj.
  rewrite <- (jw_block_conj_proof prim prim' phi dom dom' (fun q p => c (spre ++ q :: p :: t)) ND Him Hgood i j Hi Hj).
  apply sumZ_map_ext. intros [p' q']. cbn [fst snd]. now rewrite (jw_step_fun_Z k phi dom c spre p' q' t Hk).
Qed.
