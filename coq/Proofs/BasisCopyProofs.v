(* C16 -- copy(new_dof) forwards every constructor parameter op_mat depends on (structural obligation on Gen/BasisCopy.v) *)
From Coq Require Import List String Bool.
Import ListNotations.
From RV Require Import Model.BasisCopy Gen.BasisCopy.

Definition copy_stmt (n : string) : Prop :=
  exists c, find_class n basis_classes = Some c /\ args_faithful c = true /\
            forall q, In q (bc_params c) -> relevant c (fst (fst q)) = true \/ identity_param (fst (fst q)) = true ->
                      forwarded c (fst (fst q)) = true \/ absorbed c (fst (fst q)) = true.

Definition copy_check (n : string) : bool :=
  match find_class n basis_classes with Some c => class_ok c | None => false end.

Lemma copy_check_sound n : copy_check n = true -> copy_stmt n.
Proof.
  unfold copy_check, copy_stmt. destruct (find_class n basis_classes) as [c|]; [|discriminate].
  unfold class_ok. intros H. apply andb_true_iff in H. destruct H as [Ha Hp].
  exists c. split; [reflexivity|]. split; [exact Ha|].
  intros q Hq Hr. rewrite forallb_forall in Hp. specialize (Hp q Hq). unfold param_ok in Hp.
  assert (E : (relevant c (fst (fst q)) || identity_param (fst (fst q))) = true) by (apply orb_true_iff; exact Hr).
  rewrite E in Hp. cbn [negb orb] in Hp. apply orb_true_iff in Hp. exact Hp.
Qed.

Theorem copy_forwards : forall n, In n copy_checked_classes -> copy_stmt n.
Proof.
  intros n Hn. apply copy_check_sound.
  assert (H : forallb copy_check copy_checked_classes = true) by (vm_compute; reflexivity).
  rewrite forallb_forall in H. now apply H.
Qed.

(* every BasisSet subclass of the source is either claimed above or reported by the harness *)
Theorem copy_classes_complete : forall c, In c basis_classes -> In (bc_name c) all_basis_classes.
Proof.
  assert (H : forallb (fun c => smem (bc_name c) all_basis_classes) basis_classes = true) by (vm_compute; reflexivity).
  intros c Hc. rewrite forallb_forall in H. specialize (H c Hc). unfold smem in H.
  apply existsb_exists in H. destruct H as (x & Hx & E). apply String.eqb_eq in E. now subst.
Qed.
