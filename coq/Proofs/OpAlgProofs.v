(* C15 -- lemmas about Model/OpAlg.v.  The denotation is into ANY algebra [ma] satisfying [malg_ok]
   (unital ring, scalars embedded centrally, "I" |-> 1); nothing is assumed about the scalars. *)
From Coq Require Import ZArith List Bool Lia Sorted.
Import ListNotations.
From RV Require Import Model.OpAlg Gen.CheckTerms.

Lemma filter_length_le' : forall {A} (p : A -> bool) l, (length (filter p l) <= length l)%nat.
Proof. induction l; simpl; [lia|]. destruct (p a); simpl; lia. Qed.

Lemma filter_filter' : forall {A} (p q : A -> bool) l,
  filter p (filter q l) = filter (fun x => q x && p x) l.
Proof. induction l; simpl; auto. destruct (q a); simpl; [destruct (p a)|]; rewrite ?IHl; auto. Qed.

Lemma filter_ext_in' : forall {A} (p q : A -> bool) l,
  (forall x, In x l -> p x = q x) -> filter p l = filter q l.
Proof.
  induction l; simpl; auto; intros H. rewrite (H a) by auto. rewrite IHl; auto.
Qed.

Lemma filter_all_true : forall {A} (p : A -> bool) l, (forall x, In x l -> p x = true) -> filter p l = l.
Proof. induction l; simpl; auto; intros H. rewrite (H a) by auto. f_equal. apply IHl. auto. Qed.

Lemma filter_all_false : forall {A} (p : A -> bool) l, (forall x, In x l -> p x = false) -> filter p l = [].
Proof. induction l; simpl; auto; intros H. rewrite (H a) by auto. apply IHl. auto. Qed.

(* ---- sorted site lists ---- *)
Local Open Scope Z_scope.
Lemma insert_uniq_in : forall x y l, In y (insert_uniq x l) <-> y = x \/ In y l.
Proof.
  induction l; simpl. - intuition.
  - destruct (x <? a) eqn:E1; simpl. + intuition.
    + destruct (x =? a) eqn:E2; simpl.
      * apply Z.eqb_eq in E2. subst. intuition.
      * rewrite IHl. intuition.
Qed.
Lemma insert_uniq_sorted : forall x l, StronglySorted Z.lt l -> StronglySorted Z.lt (insert_uniq x l).
Proof.
  induction l; simpl; intros H. - constructor; constructor.
  - inversion H; subst. destruct (x <? a) eqn:E1.
    + apply Z.ltb_lt in E1. constructor; auto. constructor; auto.
      eapply Forall_impl; [|exact H3]. simpl. intros. lia.
    + destruct (x =? a) eqn:E2; auto. apply Z.ltb_ge in E1. apply Z.eqb_neq in E2.
      constructor; auto. apply Forall_forall. intros y Hy. apply insert_uniq_in in Hy.
      destruct Hy as [->|Hy]; [lia|]. rewrite Forall_forall in H3. auto.
Qed.
Lemma sorted_sites_sorted : forall (site : dof -> Z) w, StronglySorted Z.lt (sorted_sites site w).
Proof. intros site. induction w; simpl. - constructor. - apply insert_uniq_sorted. exact IHw. Qed.
Lemma sorted_sites_in : forall (site : dof -> Z) w s, In s (sorted_sites site w) <-> exists l, In l w /\ site (l_dof l) = s.
Proof.
  intros site. induction w; simpl; intros s.
  - split; [contradiction|]. intros [l [[] _]].
  - rewrite insert_uniq_in, IHw. split.
    + intros [->|[l [Hl Hs]]]; eauto.
    + intros [l [[<-|Hl] Hs]]; [left; auto|right; eauto].
Qed.
Lemma sorted_nodup : forall l, StronglySorted Z.lt l -> NoDup l.
Proof.
  induction l; intros H; constructor; inversion H; subst; auto.
  intros Hin. rewrite Forall_forall in H3. specialize (H3 _ Hin). lia.
Qed.

Local Close Scope Z_scope.

(* ------------------------------------------------------------------------------------------ *)
Section Proofs.
Variable ra : ralg.
Variable ma : malg ra.
Hypothesis ok : malg_ok ra ma.

Local Open Scope Z_scope.
Declare Scope M_scope.
Local Notation "x + y" := (madd ma x y) : M_scope.
Local Notation "x * y" := (mmul ma x y) : M_scope.
Local Notation "- x" := (mopp ma x) : M_scope.
Local Notation mO := (m0 ma).
Local Notation mI := (m1 ma).
Local Open Scope M_scope.
Local Notation E := (emb ma).
Local Notation den := (den ra ma).
Local Notation dens := (dens ra ma).
Local Notation denw := (denw ra ma).
Local Notation denv := (denv ra ma).

Let addC := ok_add_comm ra ma ok.
Let addA := ok_add_assoc ra ma ok.
Let add0l := ok_add_0_l ra ma ok.
Let addN := ok_add_opp ra ma ok.
Let mulA := ok_mul_assoc ra ma ok.
Let mul1l := ok_mul_1_l ra ma ok.
Let mul1r := ok_mul_1_r ra ma ok.
Let dl := ok_distr_l ra ma ok.
Let dr := ok_distr_r ra ma ok.
Let cen := ok_emb_central ra ma ok.

(* ---- ring consequences ---- *)
Lemma add0r : forall x, x + mO = x.
Proof. intros. rewrite addC. apply add0l. Qed.
Lemma idem_zero : forall x, x + x = x -> x = mO.
Proof.
  intros x H. transitivity (x + (x + - x)).
  - rewrite addN. symmetry. apply add0r.
  - rewrite addA, H. apply addN.
Qed.
Lemma mul0l : forall x, mO * x = mO.
Proof. intros. apply idem_zero. rewrite <- dr. rewrite add0l. reflexivity. Qed.
Lemma mul0r : forall x, x * mO = mO.
Proof. intros. apply idem_zero. rewrite <- dl. rewrite add0l. reflexivity. Qed.
Lemma opp_unique : forall x y, x + y = mO -> y = - x.
Proof.
  intros x y H. rewrite <- (add0l y). rewrite <- (addN x). rewrite (addC x (- x)).
  rewrite <- addA. rewrite H. apply add0r.
Qed.
Lemma opp_mul_l : forall x y, (- x) * y = - (x * y).
Proof. intros. apply opp_unique. rewrite <- dr, addN. apply mul0l. Qed.
Lemma opp_mul_r : forall x y, x * (- y) = - (x * y).
Proof. intros. apply opp_unique. rewrite <- dl, addN. apply mul0r. Qed.
Lemma opp_0 : - mO = mO.
Proof. symmetry. apply opp_unique. apply add0l. Qed.
Lemma add_swap : forall a b c d, (a + b) + (c + d) = (a + c) + (b + d).
Proof.
  intros. rewrite <- (addA a b). rewrite (addA b c d). rewrite (addC b c). rewrite <- (addA c b d).
  apply addA.
Qed.
Lemma opp_add : forall x y, - (x + y) = - x + - y.
Proof. intros. symmetry. apply opp_unique. rewrite add_swap, !addN. apply add0l. Qed.
Lemma add_left_comm : forall a b c, a + (b + c) = b + (a + c).
Proof. intros. rewrite addA, (addC a b), <- addA. reflexivity. Qed.

(* ---- words ---- *)
Lemma denw_app : forall u v, denw (u ++ v) = denw u * denw v.
Proof. induction u; simpl; intros. - symmetry; apply mul1l. - rewrite IHu. apply mulA. Qed.

(* ---- Op * Op, Op * scalar, -Op ---- *)
Lemma den_op_mul : forall a b, den (op_mul ra a b) = den a * den b.
Proof.
  intros a b. unfold OpAlg.den, op_mul. simpl. rewrite denw_app, (ok_emb_mul ra ma ok).
  rewrite !mulA. f_equal. rewrite <- !mulA. f_equal. apply cen.
Qed.
Lemma den_op_scal_r : forall a c, den (op_scal ra a c) = den a * E c.
Proof.
  intros. unfold OpAlg.den, op_scal. simpl. rewrite (ok_emb_mul ra ma ok).
  rewrite <- !mulA. f_equal. apply cen.
Qed.
Lemma den_op_scal_l : forall a c, den (op_scal ra a c) = E c * den a.
Proof. intros. rewrite den_op_scal_r. symmetry. apply cen. Qed.
Lemma den_op_neg : forall a, den (op_neg ra a) = - den a.
Proof. intros. unfold OpAlg.den, op_neg. simpl. rewrite (ok_emb_opp ra ma ok). apply opp_mul_l. Qed.

(* ---- sums ---- *)
Lemma dens_app : forall s t, dens (s ++ t) = dens s + dens t.
Proof. induction s; simpl; intros. - symmetry; apply add0l. - rewrite IHs. apply addA. Qed.
Lemma dens_single : forall a, dens [a] = den a.
Proof. intros. simpl. apply add0r. Qed.
Lemma dens_rev : forall s, dens (rev s) = dens s.
Proof. induction s; simpl; auto. rewrite dens_app, dens_single, IHs. apply addC. Qed.
Lemma dens_neg : forall s, dens (sum_neg ra s) = - dens s.
Proof.
  induction s; simpl. - symmetry; apply opp_0. - rewrite den_op_neg, opp_add. f_equal. apply IHs.
Qed.
Lemma dens_sum_mul_op : forall s b, dens (sum_mul_op ra s b) = dens s * den b.
Proof.
  induction s; simpl; intros. - symmetry; apply mul0l. - rewrite den_op_mul, dr. f_equal. apply IHs.
Qed.
Lemma dens_op_mul_sum : forall a s, dens (op_mul_sum ra a s) = den a * dens s.
Proof.
  induction s; simpl. - symmetry; apply mul0r. - rewrite den_op_mul, dl. f_equal. apply IHs.
Qed.
Lemma dens_sum_mul_sum : forall s t, dens (sum_mul_sum ra s t) = dens s * dens t.
Proof.
  induction s; simpl; intros. - symmetry; apply mul0l.
  - rewrite dens_app, dens_op_mul_sum, dr. f_equal. apply IHs.
Qed.
Lemma dens_scal_r : forall s c, dens (sum_scal ra s c) = dens s * E c.
Proof.
  induction s; simpl; intros. - symmetry; apply mul0l. - rewrite den_op_scal_r, dr. f_equal. apply IHs.
Qed.
Lemma dens_scal_l : forall s c, dens (sum_scal ra s c) = E c * dens s.
Proof. intros. rewrite dens_scal_r. symmetry. apply cen. Qed.

(* ---- squeeze_identity ---- *)
Lemma is_I_interp : forall l, is_I l = true -> interp ma (l_sym l) (l_dof l) = mI.
Proof. unfold is_I. intros l H. apply Z.eqb_eq in H. rewrite H. apply (ok_interp_I ra ma ok). Qed.
Lemma denw_all_I : forall w, forallb is_I w = true -> denw w = mI.
Proof.
  induction w; simpl; auto. intros H. apply andb_prop in H. destruct H as [H1 H2].
  rewrite is_I_interp, IHw by auto. apply mul1l.
Qed.
Lemma denw_filter_I : forall w, denw (filter (fun l => negb (is_I l)) w) = denw w.
Proof.
  induction w; simpl; auto. destruct (is_I a) eqn:Ha; simpl.
  - rewrite is_I_interp, IHw by auto. symmetry. apply mul1l.
  - rewrite IHw. reflexivity.
Qed.
Lemma squeeze_den : forall o o', squeeze ra o = Some o' -> den o' = den o.
Proof.
  intros o o'. unfold squeeze, OpAlg.den. destruct (word o) as [|l0 w] eqn:Ew; [discriminate|].
  destruct (forallb is_I (l0 :: w)) eqn:Ha.
  - intros H. injection H as <-. cbn [word factor]. rewrite (denw_all_I _ Ha).
    simpl. rewrite (ok_interp_I ra ma ok). rewrite mul1l. reflexivity.
  - destruct (existsb _ (l0 :: w)); [discriminate|]. intros H. injection H as <-.
    cbn [word factor]. f_equal. exact (denw_filter_I (l0 :: w)).
Qed.
Lemma squeeze_factor : forall o o', squeeze ra o = Some o' -> factor o' = factor o.
Proof.
  intros o o'. unfold squeeze. destruct (word o); [discriminate|].
  destruct (forallb _ _); [|destruct (existsb _ _); [discriminate|]]; intros H; injection H as <-; reflexivity.
Qed.
(* squeeze never raises when every identity letter carries a zero quantum number *)
Lemma squeeze_total : forall o, word o <> [] ->
  (forall l, In l (word o) -> is_I l = true -> qn_zero (l_qn l) = true) -> exists o', squeeze ra o = Some o'.
Proof.
  intros o Hne Hq. unfold squeeze. destruct (word o) as [|l0 w] eqn:Ew; [congruence|].
  destruct (forallb is_I (l0 :: w)); [eauto|].
  destruct (existsb _ (l0 :: w)) eqn:Hex; [|eauto].
  apply existsb_exists in Hex. destruct Hex as [l [Hin Hl]]. apply andb_prop in Hl. destruct Hl as [H1 H2].
  rewrite (Hq l Hin H1) in H2. discriminate.
Qed.

(* ---- same_term / merge / simplify ---- *)
Lemma key_eqb_eq : forall u v, key_eqb u v = true <-> u = v.
Proof.
  induction u as [|[s1 d1] u]; destruct v as [|[s2 d2] v]; simpl; split; intros H; try discriminate; auto.
  - apply andb_prop in H. destruct H as [H H3]. apply andb_prop in H. destruct H as [H1 H2].
    apply Z.eqb_eq in H1. apply Z.eqb_eq in H2. apply IHu in H3. congruence.
  - injection H as -> -> ->. rewrite !Z.eqb_refl. simpl. apply IHu. reflexivity.
Qed.
Lemma denw_key : forall u v, key u = key v -> denw u = denw v.
Proof.
  induction u; destruct v; simpl; intros H; try discriminate; auto.
  injection H as H1 H2 H3. rewrite H1, H2. f_equal. apply IHu. exact H3.
Qed.
Lemma same_term_denw : forall a b, same_term ra a b = true -> denw (word a) = denw (word b).
Proof. intros a b H. apply denw_key. apply key_eqb_eq. exact H. Qed.

Lemma dens_partition : forall (p : op ra -> bool) l,
  dens (filter p l) + dens (filter (fun x => negb (p x)) l) = dens l.
Proof.
  induction l; simpl. - apply add0l.
  - destruct (p a); simpl.
    + rewrite <- addA. f_equal. exact IHl.
    + rewrite add_left_comm. f_equal. exact IHl.
Qed.

Lemma emb_fold : forall W l acc, Forall (fun x => denw (word x) = W) l ->
  E (fold_left (radd ra) (map factor l) acc) * W = E acc * W + dens l.
Proof.
  induction l; simpl; intros acc H. - symmetry; apply add0r.
  - inversion H; subst. rewrite IHl by assumption. rewrite (ok_emb_add ra ma ok), dr.
    rewrite <- addA. reflexivity.
Qed.

Lemma merge_den : forall n s, (length s <= n)%nat -> dens (merge ra n s) = dens s.
Proof.
  induction n; intros s Hl.
  - destruct s; simpl in *; [reflexivity|lia].
  - destruct s as [|o rest]; [reflexivity|]. simpl merge. simpl dens.
    rewrite IHn by (simpl in Hl; pose proof (filter_length_le' (fun x => negb (same_term ra o x)) rest); lia).
    unfold OpAlg.den at 1. cbn [word factor].
    rewrite (ok_emb_add ra ma ok), dr.
    rewrite (emb_fold (denw (word o))).
    + rewrite (ok_emb_0 ra ma ok), mul0l, add0l, dens_rev.
      rewrite <- addA. f_equal. apply dens_partition.
    + apply Forall_forall. intros x Hx. apply in_rev in Hx. apply filter_In in Hx. destruct Hx as [_ Hx].
      symmetry. apply same_term_denw. exact Hx.
Qed.

Lemma squeeze_all_den : forall s s', squeeze_all ra s = Some s' -> dens s' = dens s.
Proof.
  induction s; simpl; intros s' H. - injection H as <-. reflexivity.
  - destruct (squeeze ra a) eqn:Ha; [|discriminate]. destruct (squeeze_all ra s) eqn:Hs; [|discriminate].
    injection H as <-. simpl. rewrite (squeeze_den _ _ Ha), (IHs _ eq_refl). reflexivity.
Qed.
Lemma merged_den : forall s q, merged ra s = Some q -> dens q = dens s.
Proof.
  unfold merged. intros s q H. destruct (squeeze_all ra s) eqn:Hs; [|discriminate]. injection H as <-.
  rewrite merge_den by lia. apply squeeze_all_den. exact Hs.
Qed.
Lemma den_zero_factor : forall o, factor o = r0 ra -> den o = mO.
Proof. intros o H. unfold OpAlg.den. rewrite H, (ok_emb_0 ra ma ok). apply mul0l. Qed.
Lemma filter_keep_den : forall t q, tol_exact ra t -> dens (filter (fun o => keep ra t (factor o)) q) = dens q.
Proof.
  intros t q Ht. induction q; simpl; auto. destruct (keep ra t (factor a)) eqn:Hk; simpl.
  - f_equal. exact IHq.
  - rewrite (den_zero_factor a (Ht _ Hk)), add0l. exact IHq.
Qed.
(* atol = 0 (more generally: any tolerance that only drops zero): simplification is exact *)
Lemma simplify_den : forall t s r, tol_exact ra t -> simplify ra t s = Some r -> dens r = dens s.
Proof.
  unfold simplify. intros t s r Ht H. destruct (merged ra s) eqn:Hm; [|discriminate]. injection H as <-.
  rewrite filter_keep_den by assumption. apply merged_den. exact Hm.
Qed.
(* any tolerance: what simplify returns plus what it dropped is exactly the input; every dropped
   term failed the test |factor| > atol *)
Lemma simplify_split : forall t s r, simplify ra t s = Some r ->
  exists d, dropped ra t s = Some d /\ dens s = dens r + dens d
            /\ Forall (fun o => keep ra t (factor o) = false) d.
Proof.
  unfold simplify, dropped. intros t s r H. destruct (merged ra s) eqn:Hm; [|discriminate]. injection H as <-.
  eexists. split; [reflexivity|]. split.
  - rewrite (dens_partition (fun o => keep ra t (factor o)) l). symmetry. apply merged_den. exact Hm.
  - apply Forall_forall. intros x Hx. apply filter_In in Hx. destruct Hx as [_ Hx].
    destruct (keep ra t (factor x)); [discriminate|reflexivity].
Qed.
(* simplify raises only if squeeze_identity raises on some term *)
Lemma simplify_total : forall t s, (forall o, In o s -> exists o', squeeze ra o = Some o') ->
  exists r, simplify ra t s = Some r.
Proof.
  intros t s H. unfold simplify, merged.
  assert (exists q, squeeze_all ra s = Some q) as [q Hq].
  { induction s; simpl; [eauto|]. destruct (H a) as [a' Ha]; [simpl; auto|]. rewrite Ha.
    destruct IHs as [q Hq]; [intros; apply H; simpl; auto|]. rewrite Hq. eauto. }
  rewrite Hq. simpl. eauto.
Qed.

(* the merged list has pairwise different (symbol, dofs) keys *)
Lemma merge_keys_in : forall n s x, In x (merge ra n s) -> exists y, In y s /\ word x = word y.
Proof.
  induction n; simpl; intros s x H; [contradiction|]. destruct s as [|o rest]; [contradiction|].
  destruct H as [<-|H].
  - exists o. simpl. auto.
  - apply IHn in H. destruct H as [y [Hy Hw]]. apply filter_In in Hy. exists y. simpl. tauto.
Qed.
Lemma merge_nodup : forall n s, (length s <= n)%nat -> NoDup (map (fun o => key (word o)) (merge ra n s)).
Proof.
  induction n; intros s Hl; simpl; [constructor|]. destruct s as [|o rest]; [constructor|].
  simpl. constructor.
  - intros Hin. apply in_map_iff in Hin. destruct Hin as [x [Hk Hx]].
    apply merge_keys_in in Hx. destruct Hx as [y [Hy Hw]]. apply filter_In in Hy. destruct Hy as [_ Hy].
    unfold same_term in Hy. rewrite <- Hw, Hk in Hy.
    assert (key_eqb (key (word o)) (key (word o)) = true) by (apply key_eqb_eq; reflexivity).
    rewrite H in Hy. discriminate.
  - apply IHn. simpl in Hl. pose proof (filter_length_le' (fun x => negb (same_term ra o x)) rest). lia.
Qed.

Lemma nodup_map_filter : forall {A B} (f : A -> B) (p : A -> bool) l,
  NoDup (map f l) -> NoDup (map f (filter p l)).
Proof.
  induction l; simpl; intros H; auto. inversion H; subst. destruct (p a); simpl; auto.
  constructor; auto. intros Hin. apply H2. apply in_map_iff in Hin. destruct Hin as [x [Hx Hi]].
  apply filter_In in Hi. apply in_map_iff. exists x. tauto.
Qed.
(* the result of simplify has pairwise different (symbol, dofs) keys *)
Lemma simplify_nodup : forall t s r, simplify ra t s = Some r -> NoDup (map (fun o => key (word o)) r).
Proof.
  unfold simplify, merged. intros t s r H. destruct (squeeze_all ra s); [|discriminate]. simpl in H.
  injection H as <-. apply nodup_map_filter. apply merge_nodup. lia.
Qed.

(* ---- Model.check_operator_terms ---- *)
Section WithReq.
Hypothesis rok : ralg_ok ra.
Lemma zero_filter_den : forall s, dens (zero_filter ra s) = dens s.
Proof.
  induction s; simpl; auto. destruct (reqb ra (factor a) (r0 ra)) eqn:Hz; simpl.
  - apply (ok_reqb ra rok) in Hz. rewrite (den_zero_factor a Hz), add0l. exact IHs.
  - f_equal. exact IHs.
Qed.

(* ---- value level ---- *)
Lemma is_zero_emb : forall c, is_zero ra c = true -> E c = mO.
Proof. unfold is_zero. intros c H. apply (ok_reqb ra rok) in H. rewrite H. apply (ok_emb_0 ra ma ok). Qed.

Lemma v_add_den : forall a b v, v_add ra a b = Some v -> denv v = denv a + denv b.
Proof.
  intros a b v. destruct a as [k c|x|l|s], b as [k' c'|y|l'|s']; simpl; intros H; try discriminate.
  - destruct (add0_left k && is_zero ra c) eqn:Hc; [|discriminate]. injection H as <-.
    apply andb_prop in Hc. destruct Hc as [_ Hc]. simpl. rewrite (is_zero_emb _ Hc), add0l. apply add0r.
  - destruct (add0_right k' && is_zero ra c') eqn:Hc; [|discriminate]. injection H as <-.
    apply andb_prop in Hc. destruct Hc as [_ Hc]. simpl. rewrite (is_zero_emb _ Hc), !add0r. reflexivity.
  - injection H as <-. simpl. rewrite add0r. reflexivity.
  - injection H as <-. reflexivity.
  - injection H as <-. reflexivity.
  - injection H as <-. simpl. apply dens_app.
  - injection H as <-. simpl. apply dens_app.
  - injection H as <-. simpl. rewrite dens_app, dens_single. reflexivity.
  - injection H as <-. simpl. apply dens_app.
  - injection H as <-. simpl. apply dens_app.
Qed.
Lemma v_neg_den : forall a v, v_neg ra a = Some v -> denv v = - denv a.
Proof.
  intros a v. destruct a; simpl; intros H; try discriminate; injection H as <-; simpl.
  - apply (ok_emb_opp ra ma ok). - apply den_op_neg. - apply dens_neg.
Qed.
Lemma v_sub_den : forall a b v, v_sub ra a b = Some v -> denv v = denv a + - denv b.
Proof.
  intros a b v H. unfold v_sub in H.
  destruct a; try discriminate; destruct (v_neg ra b) eqn:Hn; try discriminate;
    apply v_add_den in H; rewrite H; f_equal; apply v_neg_den; exact Hn.
Qed.
Lemma v_mul_den : forall a b v, v_mul ra a b = Some v -> denv v = denv a * denv b.
Proof.
  intros a b v. destruct a as [k c|x|l|s], b as [k' c'|y|l'|s']; simpl; intros H; try discriminate.
  - destruct (mul_kind k); [|discriminate]. injection H as <-. simpl. apply den_op_scal_l.
  - destruct (mul_kind k); [|discriminate]. injection H as <-. simpl. apply dens_scal_l.
  - destruct (mul_kind k'); [|discriminate]. injection H as <-. simpl. apply den_op_scal_r.
  - injection H as <-. simpl. apply den_op_mul.
  - injection H as <-. simpl. apply dens_op_mul_sum.
  - injection H as <-. simpl. apply dens_op_mul_sum.
  - injection H as <-. simpl. apply dens_sum_mul_op.
  - destruct (mul_kind k'); [|discriminate]. injection H as <-. simpl. apply dens_scal_r.
  - injection H as <-. simpl. apply dens_sum_mul_op.
  - injection H as <-. simpl. apply dens_sum_mul_sum.
  - injection H as <-. simpl. apply dens_sum_mul_sum.
Qed.
Lemma v_div_den : forall a b v, v_div ra a b = Some v -> denv v = denv a * sem_inv ra ma (Some b).
Proof.
  intros a b v. destruct a as [k c|x|l|s], b as [k' c'|y|l'|s']; simpl; intros H; try discriminate.
  destruct (mul_kind k'); [|discriminate]. destruct (rinv ra c') eqn:Hi; [|discriminate].
  injection H as <-. simpl. apply dens_scal_r.
Qed.
Lemma v_iadd_den : forall a b v, v_iadd ra a b = Some v -> denv v = denv a + denv b.
Proof.
  intros a b v H. destruct a as [k c|x|l|s], b as [k' c'|y|l'|s'];
    try (exact (v_add_den _ _ _ H)); simpl in H; try discriminate;
    injection H as <-; simpl; rewrite ?dens_app, ?dens_single; reflexivity.
Qed.
Lemma v_simplify_den : forall t a v, tol_exact ra t -> v_simplify ra t a = Some v -> denv v = denv a.
Proof.
  intros t a v Ht. destruct a; simpl; intros H; try discriminate.
  destruct (simplify ra t s) eqn:Hs; [|discriminate]. injection H as <-. simpl. eapply simplify_den; eauto.
Qed.
Lemma v_squeeze_den : forall a v, v_squeeze ra a = Some v -> denv v = denv a.
Proof.
  intros a v. destruct a; simpl; intros H; try discriminate.
  destruct (squeeze ra o) eqn:Hs; [|discriminate]. injection H as <-. simpl. apply squeeze_den. exact Hs.
Qed.
Lemma v_mksum_den : forall a v, v_mksum ra a = Some v -> denv v = denv a.
Proof. intros a v. destruct a; simpl; intros H; try discriminate; injection H as <-; reflexivity. Qed.
Lemma v_mklist_den : forall a v, v_mklist ra a = Some v -> denv v = denv a.
Proof. intros a v. destruct a; simpl; intros H; try discriminate; injection H as <-; reflexivity. Qed.
Lemma v_copy_den : forall a v, v_copy ra a = Some v -> denv v = denv a.
Proof. intros a v. destruct a; simpl; intros H; try discriminate; injection H as <-; reflexivity. Qed.

(* the program theorem: every accepted expression denotes the matrix expression it stands for *)
Theorem eval_sound : forall e v, tols_exact ra e -> eval ra e = Some v -> denv v = sem ra ma e.
Proof.
  induction e; simpl; intros w Ht H.
  - injection H as <-. reflexivity.
  - destruct Ht as [T1 T2]. destruct (eval ra e1) eqn:E1, (eval ra e2) eqn:E2; simpl in H; try discriminate.
    rewrite (v_add_den _ _ _ H), (IHe1 _ T1 eq_refl), (IHe2 _ T2 eq_refl). reflexivity.
  - destruct Ht as [T1 T2]. destruct (eval ra e1) eqn:E1, (eval ra e2) eqn:E2; simpl in H; try discriminate.
    rewrite (v_sub_den _ _ _ H), (IHe1 _ T1 eq_refl), (IHe2 _ T2 eq_refl). reflexivity.
  - destruct Ht as [T1 T2]. destruct (eval ra e1) eqn:E1, (eval ra e2) eqn:E2; simpl in H; try discriminate.
    rewrite (v_mul_den _ _ _ H), (IHe1 _ T1 eq_refl), (IHe2 _ T2 eq_refl). reflexivity.
  - destruct Ht as [T1 T2]. destruct (eval ra e1) eqn:E1, (eval ra e2) eqn:E2; simpl in H; try discriminate.
    rewrite (v_div_den _ _ _ H), (IHe1 _ T1 eq_refl). reflexivity.
  - destruct Ht as [T1 T2]. destruct (eval ra e1) eqn:E1, (eval ra e2) eqn:E2; simpl in H; try discriminate.
    rewrite (v_iadd_den _ _ _ H), (IHe1 _ T1 eq_refl), (IHe2 _ T2 eq_refl). reflexivity.
  - destruct (eval ra e) eqn:E1; simpl in H; try discriminate.
    rewrite (v_neg_den _ _ H), (IHe _ Ht eq_refl). reflexivity.
  - destruct Ht as [T1 T2]. destruct (eval ra e) eqn:E1; simpl in H; try discriminate.
    rewrite (v_simplify_den _ _ _ T1 H). apply IHe; auto.
  - destruct (eval ra e) eqn:E1; simpl in H; try discriminate.
    rewrite (v_squeeze_den _ _ H). apply IHe; auto.
  - destruct (eval ra e) eqn:E1; simpl in H; try discriminate.
    rewrite (v_mksum_den _ _ H). apply IHe; auto.
  - destruct (eval ra e) eqn:E1; simpl in H; try discriminate.
    rewrite (v_mklist_den _ _ H). apply IHe; auto.
  - destruct (eval ra e) eqn:E1; simpl in H; try discriminate.
    rewrite (v_copy_den _ _ H). apply IHe; auto.
Qed.

(* division undoes multiplication: c * (s / c) = s *)
Lemma den_div_cancel : forall s c d, rinv ra c = Some d -> E c * dens (sum_scal ra s d) = dens s.
Proof.
  intros s c d H. rewrite dens_scal_l, mulA, <- (ok_emb_mul ra ma ok), (ok_rinv ra rok _ _ H).
  rewrite (ok_emb_1 ra ma ok). apply mul1l.
Qed.

(* OpSum.product on a non-empty list: left-to-right product *)
Lemma fold_none : forall (t : list (val ra)),
  fold_left (fun acc b => obind acc (fun x => v_mul ra x b)) t None = None.
Proof. induction t; simpl; auto. Qed.
Lemma v_sum_product_den : forall t a v, v_sum_product ra (a :: t) = Some v ->
  denv v = fold_left (mmul ma) (map denv t) (denv a).
Proof.
  unfold v_sum_product. induction t; simpl; intros a0 v H.
  - injection H as <-. reflexivity.
  - destruct (v_mul ra a0 a) eqn:Hm; [|rewrite fold_none in H; discriminate].
    rewrite (IHt _ _ H). rewrite (v_mul_den _ _ _ Hm). reflexivity.
Qed.
End WithReq.

(* Op.product *)
Lemma op_product_den_gen : forall t a,
  den (mkOp (word a ++ concat (map word t)) (fold_left (rmul ra) (map factor t) (factor a)))
  = den a * mprod ra ma (map den t).
Proof.
  induction t; simpl; intros a0.
  - rewrite app_nil_r, mul1r. destruct a0; reflexivity.
  - rewrite app_assoc. etransitivity; [exact (IHt (op_mul ra a0 a))|]. rewrite den_op_mul. symmetry. apply mulA.
Qed.
Lemma op_product_den : forall l o, op_product ra l = Some o -> den o = mprod ra ma (map den l).
Proof.
  intros l o H. destruct l as [|a t]; [discriminate|]. simpl in H. injection H as <-.
  apply (op_product_den_gen t a).
Qed.

(* ---- split_elementary ---- *)
Section Split.
Variable site : dof -> Z.
Hypothesis comm : sites_commute ra ma site.
Local Notation il := (fun l : letter => interp ma (l_sym l) (l_dof l)).

Lemma letter_comm_word : forall l w, Forall (fun x => site (l_dof x) <> site (l_dof l)) w ->
  il l * denw w = denw w * il l.
Proof.
  induction w; simpl; intros H. - rewrite mul1l, mul1r. reflexivity.
  - inversion H; subst. rewrite mulA. rewrite (comm (l_sym l) (l_dof l) (l_sym a) (l_dof a)) by auto.
    rewrite <- mulA. rewrite IHw by assumption. apply mulA.
Qed.
Lemma split_one : forall s w,
  denw w = denw (filter (on_site site s) w) * denw (filter (fun l => negb (on_site site s l)) w).
Proof.
  induction w; simpl. - symmetry; apply mul1l.
  - destruct (on_site site s a) eqn:Ha; simpl.
    + rewrite IHw at 1. apply mulA.
    + rewrite IHw at 1. rewrite !mulA. f_equal. apply letter_comm_word.
      apply Forall_forall. intros x Hx. apply filter_In in Hx. destruct Hx as [_ Hx].
      unfold on_site in *. apply Z.eqb_eq in Hx. apply Z.eqb_neq in Ha. congruence.
Qed.
Definition not_in_sites (ss : list Z) (l : letter) : bool := negb (existsb (Z.eqb (site (l_dof l))) ss).
Lemma groups_den : forall ss w, NoDup ss ->
  mprod ra ma (map (fun s => denw (filter (on_site site s) w)) ss) * denw (filter (not_in_sites ss) w) = denw w.
Proof.
  induction ss; intros w Hnd; simpl.
  - rewrite mul1l. f_equal. apply filter_all_true. reflexivity.
  - inversion Hnd; subst. symmetry. etransitivity; [apply (split_one a w)|]. symmetry.
    rewrite <- mulA. f_equal.
    rewrite <- (IHss (filter (fun l => negb (on_site site a l)) w) H2). f_equal.
    + f_equal. apply map_ext_in. intros s Hs. f_equal. rewrite filter_filter'. apply filter_ext_in'.
      intros x _. unfold on_site. destruct (site (l_dof x) =? a) eqn:E1; simpl; auto.
      apply Z.eqb_eq in E1. destruct (site (l_dof x) =? s) eqn:E2; auto. apply Z.eqb_eq in E2. congruence.
    + f_equal. rewrite filter_filter'. apply filter_ext_in'. intros x _. unfold not_in_sites, on_site. simpl.
      rewrite negb_orb. reflexivity.
Qed.

(* the elementary operators multiplied in site order, times the returned factor, are the operator *)
Theorem split_elementary_den : forall o,
  E (snd (split_elementary ra site o)) * mprod ra ma (map den (fst (split_elementary ra site o))) = den o.
Proof.
  intros o. unfold split_elementary. simpl. unfold OpAlg.den at 2. f_equal.
  rewrite map_map. simpl.
  rewrite (map_ext _ (fun s => denw (filter (on_site site s) (word o)))).
  2:{ intros s. unfold OpAlg.den. simpl. rewrite (ok_emb_1 ra ma ok). apply mul1l. }
  etransitivity; [|apply (groups_den (sorted_sites site (word o)) (word o));
                   apply sorted_nodup; apply sorted_sites_sorted].
  rewrite (filter_all_false (not_in_sites (sorted_sites site (word o)))).
  - simpl. symmetry. apply mul1r.
  - intros x Hx. unfold not_in_sites. apply negb_false_iff. apply existsb_exists.
    exists (site (l_dof x)). split; [|apply Z.eqb_refl]. apply sorted_sites_in. eauto.
Qed.
End Split.
End Proofs.

(* normal form produced by split_elementary: one group per occupied site, sites strictly increasing,
   every group non-empty, all its letters on that site and in their original relative order *)
Theorem split_elementary_normal_form : forall ra (site : dof -> Z) (o : op ra),
  let ss := sorted_sites site (word o) in
  map word (fst (split_elementary ra site o)) = map (fun s => filter (on_site site s) (word o)) ss
  /\ StronglySorted Z.lt ss
  /\ (forall s, In s ss -> filter (on_site site s) (word o) <> []
                          /\ Forall (fun l => site (l_dof l) = s) (filter (on_site site s) (word o)))
  /\ Forall (fun g => factor g = r1 ra) (fst (split_elementary ra site o))
  /\ snd (split_elementary ra site o) = factor o.
Proof.
  intros ra site o ss. split; [|split; [|split; [|split]]].
  - unfold split_elementary. simpl. rewrite map_map. reflexivity.
  - apply sorted_sites_sorted.
  - intros s Hs. split.
    + apply sorted_sites_in in Hs. destruct Hs as [l [Hl Hsl]].
      intros Hnil. assert (In l (filter (on_site site s) (word o))) as Hin.
      { apply filter_In. split; auto. unfold on_site. apply Z.eqb_eq. exact Hsl. }
      rewrite Hnil in Hin. contradiction.
    + apply Forall_forall. intros x Hx. apply filter_In in Hx. destruct Hx as [_ Hx].
      unfold on_site in Hx. apply Z.eqb_eq. exact Hx.
  - unfold split_elementary. simpl. apply Forall_forall. intros g Hg. apply in_map_iff in Hg.
    destruct Hg as [s [<- _]]. reflexivity.
  - reflexivity.
Qed.

(* ---- values are immutable: adding nothing gives an equal VALUE (the implementation must allocate a new
        object for it), and `a += b` on an OpSum computes exactly what `a + b` computes ---- *)
Lemma v_add_empty_r : forall ra (s : list (op ra)),
  v_add ra (VSum s) (VSum []) = Some (VSum s) /\ v_add ra (VSum s) (VL []) = Some (VSum s)
  /\ v_sub ra (VSum s) (VSum []) = Some (VSum s) /\ v_add ra (VSum []) (VSum s) = Some (VSum s).
Proof. intros. simpl. rewrite app_nil_r. auto. Qed.
Lemma v_iadd_is_add : forall ra (s : list (op ra)) b, v_iadd ra (VSum s) b = v_add ra (VSum s) b.
Proof. intros ra s b. destruct b; reflexivity. Qed.

(* ---- split_elementary is a function of the operator and of the site map restricted to its dofs ---- *)
Lemma sorted_sites_ext : forall (site1 site2 : dof -> Z) w,
  (forall l, In l w -> site1 (l_dof l) = site2 (l_dof l)) -> sorted_sites site1 w = sorted_sites site2 w.
Proof.
  induction w; simpl; intros H; auto. rewrite (H a) by auto. rewrite IHw; auto.
Qed.
Lemma split_elementary_ext : forall ra (site1 site2 : dof -> Z) (o : op ra),
  (forall l, In l (word o) -> site1 (l_dof l) = site2 (l_dof l)) ->
  split_elementary ra site1 o = split_elementary ra site2 o.
Proof.
  intros ra site1 site2 o H. unfold split_elementary. rewrite (sorted_sites_ext site1 site2 (word o) H).
  f_equal. apply map_ext. intros s. f_equal. apply filter_ext_in'. intros x Hx. unfold on_site.
  rewrite (H x Hx). reflexivity.
Qed.

(* ---- __eq__ / __hash__ ---- *)
Lemma zlist_eqb_eq : forall u v, zlist_eqb u v = true <-> u = v.
Proof.
  induction u; destruct v; simpl; split; intros H; try discriminate; auto.
  - apply andb_prop in H. destruct H as [H1 H2]. apply Z.eqb_eq in H1. apply IHu in H2. congruence.
  - injection H as -> ->. rewrite Z.eqb_refl. simpl. apply IHu. reflexivity.
Qed.
Lemma qlist_eqb_eq : forall u v, qlist_eqb u v = true <-> u = v.
Proof.
  induction u; destruct v; simpl; split; intros H; try discriminate; auto.
  - apply andb_prop in H. destruct H as [H1 H2]. apply zlist_eqb_eq in H1. apply IHu in H2. congruence.
  - injection H as -> ->. apply andb_true_intro. split; [apply zlist_eqb_eq|apply IHu]; reflexivity.
Qed.
Lemma op_eqb_tuple : forall ra, ralg_ok ra -> forall a b : op ra,
  op_eqb ra a b = true <-> to_tuple ra a = to_tuple ra b.
Proof.
  intros ra rok a b. unfold op_eqb, to_tuple. split.
  - intros H. apply andb_prop in H. destruct H as [H H4]. apply andb_prop in H. destruct H as [H H3].
    apply andb_prop in H. destruct H as [H1 H2].
    apply zlist_eqb_eq in H1. apply zlist_eqb_eq in H2. apply qlist_eqb_eq in H4.
    apply (ok_reqb ra rok) in H3. congruence.
  - intros H. injection H as H1 H2 H3 H4. rewrite H1, H2, H3, H4.
    repeat (apply andb_true_intro; split); try (apply zlist_eqb_eq; reflexivity).
    + apply (ok_reqb ra rok). reflexivity.
    + apply qlist_eqb_eq. reflexivity.
Qed.
Lemma to_tuple_inj : forall ra (a b : op ra), to_tuple ra a = to_tuple ra b -> a = b.
Proof.
  intros ra [wa fa] [wb fb]. unfold to_tuple. simpl. intros H. injection H as H1 H2 H3 H4. subst fb.
  f_equal. revert wb H1 H2 H4. induction wa as [|[[s d] q] wa]; destruct wb as [|[[s' d'] q'] wb]; simpl;
    intros H1 H2 H4; try discriminate; auto.
  unfold l_sym, l_dof, l_qn in *. simpl in *. inversion H1; inversion H2; inversion H4; subst. f_equal. apply IHwa; auto.
Qed.
(* a == b  ->  hash(a) == hash(b), for every hash function of tuples; and a == b iff same fields *)
Theorem eq_hash : forall ra, ralg_ok ra -> forall (a b : op ra), op_eqb ra a b = true ->
  forall (H : Type) (h : tuple_t ra -> H), op_hash ra h a = op_hash ra h b.
Proof. intros ra rok a b Heq H h. unfold op_hash. f_equal. apply op_eqb_tuple; assumption. Qed.
Theorem op_eqb_eq : forall ra, ralg_ok ra -> forall (a b : op ra), op_eqb ra a b = true <-> a = b.
Proof.
  intros ra rok a b. split.
  - intros H. apply to_tuple_inj. apply op_eqb_tuple; assumption.
  - intros ->. apply op_eqb_tuple; auto.
Qed.

(* ---- Model.check_operator_terms as translated into Gen/CheckTerms.v ---- *)
Section CheckTermsProofs.
Variable ra : ralg.
Hypothesis rok : ralg_ok ra.

(* the translated filter is the model's zero filter, whenever it does not raise; it raises iff a dof is unknown *)
Lemma ct_filter_spec : forall known (s r : list (op ra)),
  ct_filter ra known s = Some r <-> (forallb (ct_dofs_known ra known) s = true /\ r = zero_filter ra s).
Proof.
  intros known. induction s; simpl; intros r.
  - split. + intros H. injection H as <-. auto. + intros [_ ->]. reflexivity.
  - destruct (ct_dofs_known ra known a); simpl.
    + destruct (ct_filter ra known s) as [q|] eqn:Hq.
      * destruct (proj1 (IHs q) eq_refl) as [Hk ->]. rewrite Hk. unfold ct_discard.
        destruct (reqb ra (factor a) (r0 ra)); simpl; split.
        -- intros H. injection H as <-. auto.
        -- intros [_ ->]. reflexivity.
        -- intros H. injection H as <-. auto.
        -- intros [_ ->]. reflexivity.
      * split; [discriminate|]. intros [Hk _].
        pose proof (proj2 (IHs (zero_filter ra s)) (conj Hk eq_refl)) as X. discriminate X.
    + split; [discriminate|]. intros [H _]. discriminate.
Qed.

Lemma ct_discard_exact : forall o : op ra, ct_discard ra o = reqb ra (factor o) (r0 ra).
Proof. intros. reflexivity. Qed.

(* a term is kept iff its factor is not zero: nothing else is ever dropped, whatever its magnitude *)
Lemma ct_filter_keeps_iff_nonzero : forall known (s r : list (op ra)) o,
  ct_filter ra known s = Some r -> (In o r <-> In o s /\ factor o <> r0 ra).
Proof.
  intros known s r o H. apply ct_filter_spec in H. destruct H as [_ ->]. unfold zero_filter.
  rewrite filter_In. split; intros [H1 H2]; split; auto.
  - intros E. apply (ok_reqb ra rok) in E. rewrite E in H2. discriminate.
  - destruct (reqb ra (factor o) (r0 ra)) eqn:E; auto. apply (ok_reqb ra rok) in E. contradiction.
Qed.

(* scale equivariance: for a scalar c that is not a zero divisor, filter (terms * c) = (filter terms) * c *)
Lemma zero_filter_scale : forall c,
  (forall a, rmul ra a c = r0 ra -> a = r0 ra) -> rmul ra (r0 ra) c = r0 ra ->
  forall s, zero_filter ra (sum_scal ra s c) = sum_scal ra (zero_filter ra s) c.
Proof.
  intros c Hreg H0. induction s; simpl; auto.
  assert (reqb ra (rmul ra (factor a) c) (r0 ra) = reqb ra (factor a) (r0 ra)) as E.
  { destruct (reqb ra (factor a) (r0 ra)) eqn:E1.
    - apply (ok_reqb ra rok) in E1. rewrite E1, H0. apply (ok_reqb ra rok). reflexivity.
    - destruct (reqb ra (rmul ra (factor a) c) (r0 ra)) eqn:E2; auto.
      apply (ok_reqb ra rok) in E2. apply Hreg in E2. rewrite E2 in E1.
      rewrite (proj2 (ok_reqb ra rok _ _) eq_refl) in E1. discriminate. }
  rewrite E. destruct (reqb ra (factor a) (r0 ra)); simpl; rewrite IHs; reflexivity.
Qed.
Lemma ct_known_scale : forall known c (s : list (op ra)),
  forallb (ct_dofs_known ra known) (sum_scal ra s c) = forallb (ct_dofs_known ra known) s.
Proof. induction s; simpl; auto. rewrite IHs. reflexivity. Qed.
Lemma ct_filter_scale : forall known c,
  (forall a, rmul ra a c = r0 ra -> a = r0 ra) -> rmul ra (r0 ra) c = r0 ra ->
  forall s, ct_filter ra known (sum_scal ra s c) = option_map (fun r => sum_scal ra r c) (ct_filter ra known s).
Proof.
  intros known c Hreg H0 s.
  destruct (ct_filter ra known s) as [r|] eqn:Hs; simpl.
  - apply ct_filter_spec in Hs. destruct Hs as [Hk ->]. apply ct_filter_spec. split.
    + rewrite ct_known_scale. exact Hk.
    + symmetry. apply zero_filter_scale; assumption.
  - destruct (ct_filter ra known (sum_scal ra s c)) as [q|] eqn:Hq; auto.
    apply ct_filter_spec in Hq. destruct Hq as [Hk _]. rewrite ct_known_scale in Hk.
    pose proof (proj2 (ct_filter_spec known s (zero_filter ra s)) (conj Hk eq_refl)) as X. rewrite Hs in X. discriminate X.
Qed.

(* denotation: the cleaned list denotes the sum of the operators handed in *)
Variable ma : malg ra.
Hypothesis ok : malg_ok ra ma.
Lemma ct_ravel_den : forall (l : list (val ra)) s, ct_ravel ra l = Some s ->
  dens ra ma s = fold_right (fun v acc => madd ma (denv ra ma v) acc) (m0 ma) l.
Proof.
  induction l; simpl; intros s H.
  - injection H as <-. reflexivity.
  - destruct (ct_item ra a) as [x|] eqn:Ha; [|discriminate].
    destruct (ct_ravel ra l) as [r|] eqn:Hr; [|discriminate]. injection H as <-.
    rewrite (dens_app ra ma ok), (IHl _ eq_refl). f_equal.
    destruct a; simpl in Ha; try discriminate; injection Ha as <-; simpl; auto.
    apply (dens_single ra ma ok).
Qed.
Lemma check_operator_terms_den : forall known (l : list (val ra)) r,
  check_operator_terms ra known l = Some r ->
  dens ra ma r = fold_right (fun v acc => madd ma (denv ra ma v) acc) (m0 ma) l.
Proof.
  unfold check_operator_terms. intros known l r H. destruct (ct_ravel ra l) as [s|] eqn:Hs; [|discriminate].
  simpl in H. apply ct_filter_spec in H. destruct H as [_ ->].
  rewrite (zero_filter_den ra ma ok rok). apply ct_ravel_den. exact Hs.
Qed.
End CheckTermsProofs.

(* ---- tolerance bound for simplify with atol > 0 ---- *)
Section Bound.
Variable ra : ralg.
Variable ma : malg ra.
Hypothesis ok : malg_ok ra ma.
(* an abstract (semi)norm with values in an ordered structure W *)
Variable W : Type.
Variables (wle : W -> W -> Prop) (wadd wmul : W -> W -> W) (w0 : W).
Variable nrm : M ma -> W.
Variable absf : R ra -> W.
Hypothesis wle_refl : forall x, wle x x.
Hypothesis wle_trans : forall x y z, wle x y -> wle y z -> wle x z.
Hypothesis wadd_mono : forall a b c d, wle a b -> wle c d -> wle (wadd a c) (wadd b d).
Hypothesis wmul_mono_l : forall a b c, wle a b -> wle (wmul a c) (wmul b c).
Hypothesis nrm_0 : wle (nrm (m0 ma)) w0.
Hypothesis nrm_tri : forall x y, wle (nrm (madd ma x y)) (wadd (nrm x) (nrm y)).
Hypothesis nrm_scal : forall c x, wle (nrm (mmul ma (emb ma c) x)) (wmul (absf c) (nrm x)).

Fixpoint wsum (l : list W) : W := match l with [] => w0 | x :: t => wadd x (wsum t) end.

Lemma dens_bound : forall (atol : W) d, Forall (fun o => wle (absf (factor o)) atol) d ->
  wle (nrm (dens ra ma d)) (wsum (map (fun o => wmul atol (nrm (denw ra ma (word o)))) d)).
Proof.
  induction d; simpl; intros H. - exact nrm_0.
  - inversion H; subst. eapply wle_trans; [apply nrm_tri|]. apply wadd_mono; auto.
    unfold den. eapply wle_trans; [apply nrm_scal|]. apply wmul_mono_l. assumption.
Qed.

(* den(input) = den(simplify) + D with |D| <= sum over the dropped terms of atol * |word| *)
Theorem simplify_atol_bound : forall (t : tol ra) (atol : W),
  (forall c, keep ra t c = false -> wle (absf c) atol) ->
  forall s r, simplify ra t s = Some r ->
  exists d, dropped ra t s = Some d
    /\ dens ra ma s = madd ma (dens ra ma r) (dens ra ma d)
    /\ wle (nrm (dens ra ma d)) (wsum (map (fun o => wmul atol (nrm (denw ra ma (word o)))) d)).
Proof.
  intros t atol Hk s r H. destruct (simplify_split ra ma ok t s r H) as [d [H1 [H2 H3]]].
  exists d. split; auto. split; auto. apply dens_bound. eapply Forall_impl; [|exact H3]. simpl. auto.
Qed.
End Bound.

(* ====================== a concrete interpretation (non-vacuity) ====================== *)
(* scalars Z, matrices 2x2 over Z; dof 0 carries the non-commuting letters, other dofs scalar matrices *)
Local Open Scope Z_scope.
Definition M2 := (Z * Z * Z * Z)%type.
Definition m2_add (x y : M2) : M2 :=
  let '(a, b, c, d) := x in let '(a', b', c', d') := y in (a + a', b + b', c + c', d + d').
Definition m2_mul (x y : M2) : M2 :=
  let '(a, b, c, d) := x in let '(a', b', c', d') := y in
  (a * a' + b * c', a * b' + b * d', c * a' + d * c', c * b' + d * d').
Definition m2_opp (x : M2) : M2 := let '(a, b, c, d) := x in (- a, - b, - c, - d).
Definition m2_scal (c : Z) : M2 := (c, 0, 0, c).
Definition m2_interp (s : sym) (d : dof) : M2 :=
  if s =? 0 then (1, 0, 0, 1)
  else if d =? 0 then (if s =? 1 then (0, 1, 0, 0) else if s =? 2 then (0, 0, 1, 0) else (1, 0, 0, -1))
  else m2_scal (s + d).
Definition MA2 : malg ZR := mkMalg ZR M2 (0, 0, 0, 0) (1, 0, 0, 1) m2_add m2_mul m2_opp m2_scal m2_interp.

Lemma ZR_ok : ralg_ok ZR.
Proof.
  constructor; simpl.
  - intros. apply Z.eqb_eq.
  - intros c d. destruct ((c =? 1) || (c =? -1)) eqn:E; [|discriminate]. intros H. injection H as <-.
    apply orb_prop in E. destruct E as [E|E]; apply Z.eqb_eq in E; subst; reflexivity.
Qed.
Lemma MA2_ok : malg_ok ZR MA2.
Proof.
  constructor; unfold MA2, ZR; cbn [M m0 m1 madd mmul mopp emb interp R r0 r1 radd rmul ropp];
    unfold m2_add, m2_mul, m2_opp, m2_scal; intros;
    repeat match goal with x : M2 |- _ => destruct x as [[[? ?] ?] ?] end;
    repeat match goal with |- (_, _) = (_, _) => f_equal end; try ring; try reflexivity.
Qed.
Lemma MA2_commute : sites_commute ZR MA2 (fun d => d).
Proof.
  unfold sites_commute. simpl. intros s1 d1 s2 d2 Hd. unfold m2_interp, m2_scal, m2_mul.
  destruct (s1 =? 0), (s2 =? 0), (d1 =? 0) eqn:E1, (d2 =? 0) eqn:E2;
    try (apply Z.eqb_eq in E1; apply Z.eqb_eq in E2; congruence);
    repeat match goal with |- context [if ?b then _ else _] => destruct b end;
    repeat match goal with |- (_, _) = (_, _) => f_equal end; ring.
Qed.
