(* C02 -- the GENERATED tree builders (Gen/TreeBuilders.v, from treebase.py by tx/builders_tree.py):
   they terminate within the fuel they are given, never hit an IndexError, and keep every basis set
   exactly once.  linear / binary / t3ns and the recursive part of general_mctdh are shown equal to the
   hand-written structural models of Model/TreeTopo.v (whose properties are in TreeTopoProofs.v); the
   three ways general_mctdh forms its elementary nodes are treated directly. *)
From Coq Require Import ZArith List Arith Lia Bool Permutation.
Import ListNotations.
From RV Require Import Gen.Partition Model.TreeTopo Gen.TreeBuilders Proofs.TreeTopoProofs.

(* ------------------------------------------------------------------ python primitives on good arguments *)
Section Prims.
Context {A : Type}.
Implicit Types (l : list A).

Lemma py_index_nat n k : k < n -> py_index n (Z.of_nat k) = Some k.
Proof.
  intros H. unfold py_index. destruct (Z.leb_spec 0 (Z.of_nat k)); [|lia].
  destruct (Z.ltb_spec (Z.of_nat k) (Z.of_nat n)); [|lia]. cbn [andb]. now rewrite Nat2Z.id.
Qed.
Lemma py_index_0_nil : py_index 0 0%Z = None.
Proof. reflexivity. Qed.
Lemma py_get_nat l k : k < length l -> py_get l (Z.of_nat k) = nth_error l k.
Proof. intros H. unfold py_get. now rewrite py_index_nat. Qed.
Lemma py_get_0 a l : py_get (a :: l) 0%Z = Some a.
Proof. apply (py_get_nat (a :: l) 0). cbn. lia. Qed.
Lemma py_get_1 a b l : py_get (a :: b :: l) 1%Z = Some b.
Proof. apply (py_get_nat (a :: b :: l) 1). cbn. lia. Qed.
Lemma py_get_nil (i : Z) : py_get (@nil A) i = None.
Proof. unfold py_get, py_index. cbn [length Z.of_nat Z.opp]. destruct (Z.leb_spec 0 i), (Z.ltb_spec i 0); cbn [andb]; try reflexivity; lia. Qed.

Lemma py_slice_from l a : py_slice l (Z.of_nat a) (py_len l) = skipn a l.
Proof.
  unfold py_slice, py_clip, py_len. set (n := Z.of_nat (length l)).
  destruct (Z.ltb_spec (Z.of_nat a) 0); [lia|]. destruct (Z.ltb_spec n 0); [subst n; lia|].
  rewrite Z.min_id. destruct (Z_le_gt_dec (Z.of_nat a) n).
  - rewrite Z.min_l by lia. rewrite Nat2Z.id. apply firstn_all2. rewrite skipn_length. subst n. lia.
  - rewrite Z.min_r by lia. rewrite Z.sub_diag. cbn [Z.to_nat firstn]. symmetry. apply skipn_all2. subst n. lia.
Qed.
Lemma py_slice_upto l b : py_slice l 0 (Z.of_nat b) = firstn b l.
Proof.
  unfold py_slice, py_clip, py_len. set (n := Z.of_nat (length l)). cbn [Z.ltb Z.compare].
  destruct (Z.ltb_spec (Z.of_nat b) 0); [lia|]. rewrite (Z.min_l 0 n) by (subst n; lia). cbn [Z.to_nat skipn]. rewrite Z.sub_0_r.
  destruct (Z_le_gt_dec (Z.of_nat b) n).
  - rewrite Z.min_l by lia. now rewrite Nat2Z.id.
  - rewrite Z.min_r by lia. subst n. rewrite Nat2Z.id. rewrite !firstn_all2; [reflexivity|lia|lia].
Qed.
(* l[a:b] for 0 <= a <= b *)
Lemma py_slice_nat l a b : a <= b -> py_slice l (Z.of_nat a) (Z.of_nat b) = firstn (b - a) (skipn a l).
Proof.
  intros Hab. unfold py_slice, py_clip, py_len. set (n := Z.of_nat (length l)).
  destruct (Z.ltb_spec (Z.of_nat a) 0); [lia|]. destruct (Z.ltb_spec (Z.of_nat b) 0); [lia|].
  destruct (Z_le_gt_dec (Z.of_nat a) n).
  - rewrite (Z.min_l (Z.of_nat a)) by lia. rewrite Nat2Z.id. destruct (Z_le_gt_dec (Z.of_nat b) n).
    + rewrite Z.min_l by lia. f_equal. lia.
    + rewrite Z.min_r by lia. rewrite !firstn_all2; [reflexivity| |]; rewrite skipn_length; subst n; lia.
  - rewrite (Z.min_r (Z.of_nat a)) by lia. rewrite (Z.min_r (Z.of_nat b)) by lia. rewrite Z.sub_diag. cbn [Z.to_nat firstn].
    rewrite skipn_all2 by (subst n; lia). now rewrite firstn_nil.
Qed.
(* l[:s] + l[s:] == l for every s *)
Lemma py_split l (s : Z) : py_slice l 0 s ++ py_slice l s (py_len l) = l.
Proof.
  unfold py_slice, py_clip, py_len. set (n := Z.of_nat (length l)). cbn [Z.ltb Z.compare].
  destruct (Z.ltb_spec n 0); [subst n; lia|]. rewrite (Z.min_l 0 n) by (subst n; lia). rewrite Z.min_id.
  cbn [Z.to_nat skipn]. rewrite Z.sub_0_r.
  destruct (Z.ltb_spec s 0).
  - set (s' := Z.max 0 (s + n)). assert ((0 <= s' <= n)%Z) by (subst s'; lia).
    replace (firstn (Z.to_nat (n - s')) (skipn (Z.to_nat s') l)) with (skipn (Z.to_nat s') l)
      by (symmetry; apply firstn_all2; rewrite skipn_length; subst n; lia).
    apply firstn_skipn.
  - set (s' := Z.min s n). assert ((0 <= s' <= n)%Z) by (subst s'; lia).
    replace (firstn (Z.to_nat (n - s')) (skipn (Z.to_nat s') l)) with (skipn (Z.to_nat s') l)
      by (symmetry; apply firstn_all2; rewrite skipn_length; subst n; lia).
    apply firstn_skipn.
Qed.
End Prims.

Lemma opt_all_Some {X Y} (f : X -> option Y) (g : X -> Y) l : (forall x, In x l -> f x = Some (g x)) -> opt_all (map f l) = Some (map g l).
Proof.
  induction l as [|x l IH]; intros H; cbn [map opt_all]; [reflexivity|].
  rewrite (H x (in_eq _ _)), IH by (intros; apply H; now right). reflexivity.
Qed.

(* ------------------------------------------------------------------ linear *)
Section Linear.
Context {A : Type}.

Definition chain_edges (m : nat) : list (nat * nat) := map (fun k => (k, S k)) (seq 0 m).

Lemma chain_edges_filter i m : filter (fun e => Nat.eqb (fst e) i) (chain_edges m) = if Nat.ltb i m then [(i, S i)] else [].
Proof.
  unfold chain_edges. induction m as [|m IH]; [reflexivity|].
  rewrite seq_S, map_app, filter_app, IH. cbn [Nat.add map filter fst].
  destruct (Nat.ltb_spec i m), (Nat.eqb_spec m i), (Nat.ltb_spec i (S m)); try lia; try reflexivity.
  now subst.
Qed.

Lemma skipn_succ {X} i (l : list X) : skipn (S i) l = tl (skipn i l).
Proof.
  revert l. induction i as [|i IH]; intros [|x l]; try reflexivity.
  - change (skipn (S (S i)) (x :: l)) with (skipn (S i) l). change (skipn (S i) (x :: l)) with (skipn i l). apply IH.
Qed.

Lemma tof_chain (l : list A) : forall fuel i a rest,
  skipn i l = a :: rest -> length rest < fuel ->
  tree_of_edges_f fuel (map (fun x => [Real x]) l) (chain_edges (length l - 1)) i = linear_from a rest.
Proof.
  induction fuel as [|fuel IH]; intros i a rest Hs Hf; [lia|].
  assert (Hn : nth i (map (fun x => [Real x]) l) [] = [Real a]).
  { rewrite <- (firstn_skipn i l), Hs, map_app. assert (Li : length (firstn i l) = i).
    { rewrite firstn_length. assert (i < length l); [|lia]. destruct (Nat.lt_ge_cases i (length l)); [assumption|].
      rewrite skipn_all2 in Hs by lia. discriminate. }
    rewrite app_nth2 by (rewrite map_length; lia). rewrite map_length, Li, Nat.sub_diag. reflexivity. }
  assert (Ll : length l = i + S (length rest)).
  { rewrite <- (firstn_skipn i l) at 1. rewrite app_length, Hs. cbn [length]. rewrite firstn_length.
    assert (i <= length l); [|lia]. destruct (Nat.le_gt_cases i (length l)); [assumption|]. rewrite skipn_all2 in Hs by lia. discriminate. }
  cbn [tree_of_edges_f]. rewrite Hn, chain_edges_filter.
  destruct rest as [|b rest'].
  - destruct (Nat.ltb_spec i (length l - 1)); [cbn [length] in Ll; lia|]. reflexivity.
  - destruct (Nat.ltb_spec i (length l - 1)); [|cbn [length] in Ll; lia]. cbn [map snd linear_from]. f_equal. f_equal.
    apply IH; [|cbn [length] in Hf; lia].
    rewrite skipn_succ, Hs. reflexivity.
Qed.
End Linear.

Section LinearEq.
Context {A : Type}.

Lemma chain_edges_snd m : map snd (chain_edges m) = seq 1 m.
Proof. unfold chain_edges. rewrite map_map. cbn [snd]. now rewrite seq_shift. Qed.
Lemma existsb_seq_lt x a m : x < a -> existsb (Nat.eqb x) (seq a m) = false.
Proof.
  revert a. induction m as [|m IH]; intros a H; [reflexivity|]. cbn [seq existsb].
  destruct (Nat.eqb_spec x a); [lia|]. apply IH. lia.
Qed.
Lemma nodup_natb_seq a m : nodup_natb (seq a m) = true.
Proof. revert a. induction m as [|m IH]; intros a; [reflexivity|]. cbn [seq nodup_natb]. rewrite existsb_seq_lt by lia. now rewrite IH. Qed.

Theorem linear_g_eq (l : list A) : linear_g l = linear l.
Proof.
  destruct l as [|a l']; [reflexivity|].
  unfold linear_g, linear_root, linear_edges. set (l := a :: l'). set (n := length l).
  change 0%Z with (Z.of_nat 0). rewrite (py_index_nat n 0) by (subst n l; cbn; lia).
  unfold py_range, py_len. fold n. replace (Z.to_nat (Z.of_nat n - 1)) with (n - 1) by lia.
  rewrite !map_map.
  rewrite (opt_all_Some _ (fun k => (k, S k))).
  2:{ intros k Hk. apply in_seq in Hk. cbn [fst snd]. rewrite (py_index_nat n k) by lia.
      replace (Z.of_nat k + 1)%Z with (Z.of_nat (S k)) by lia. rewrite (py_index_nat n (S k)) by lia. reflexivity. }
  fold (chain_edges (n - 1)). unfold tree_of_edges. rewrite chain_edges_snd, nodup_natb_seq, existsb_seq_lt by lia.
  cbn [andb negb]. subst n. rewrite (tof_chain l (length l) 0 a l'); [reflexivity|reflexivity|subst l; cbn; lia].
Qed.
End LinearEq.

(* ------------------------------------------------------------------ binary *)
Section BinaryEq.
Context {A : Type}.

Lemma binary_recursion_g_eq : forall f (a : A) offs, length offs < f ->
  binary_recursion_g f a offs = Some (bin (length offs) a offs).
Proof.
  induction f as [|f IH]; intros a offs Hf; [lia|].
  destruct offs as [|o0 [|o1 rest]].
  - reflexivity.
  - cbn [binary_recursion_g py_len length]. rewrite py_get_0. reflexivity.
  - cbn [binary_recursion_g]. unfold py_len at 1 2. cbn [length].
    destruct (Z.eqb_spec (Z.of_nat (S (S (length rest)))) 0); [lia|].
    destruct (Z.eqb_spec (Z.of_nat (S (S (length rest)))) 1); [lia|].
    rewrite py_get_0, py_get_1. cbv zeta.
    change 2%Z with (Z.of_nat 2). rewrite py_slice_from. cbn [skipn].
    unfold py_floordiv, py_len at 1 2. change 2%Z with (Z.of_nat 2). rewrite <- Nat2Z.inj_div.
    rewrite py_slice_upto, py_slice_from.
    assert (Hd : length rest / 2 <= length rest) by (apply Nat.div_le_upper_bound; lia).
    cbn [length] in Hf.
    rewrite !IH by (rewrite ?firstn_length, ?skipn_length; lia).
    cbn [length].
    change (bin (S (S (length rest))) a (o0 :: o1 :: rest))
      with (BNode [Real a] [bin (S (length rest)) o0 (firstn (length rest / 2) rest); bin (S (length rest)) o1 (skipn (length rest / 2) rest)]).
    f_equal. f_equal. f_equal; [|f_equal]; apply bin_fuel; rewrite ?firstn_length, ?skipn_length; lia.
Qed.

Theorem binary_g_eq (l : list A) : binary_g l = binary l.
Proof.
  unfold binary_g. destruct l as [|a l']; [now rewrite py_get_nil|].
  rewrite py_get_0. change 1%Z with (Z.of_nat 1). rewrite py_slice_from. cbn [skipn binary].
  apply binary_recursion_g_eq. cbn. lia.
Qed.
End BinaryEq.

(* ------------------------------------------------------------------ counters: Z in the generated code, nat in the models *)
Lemma opt_thread_eq {X Y} (g : X -> Z -> option (Y * Z)) (h : X -> nat -> Y * nat) xs :
  (forall x c, In x xs -> g x (Z.of_nat c) = Some (fst (h x c), Z.of_nat (snd (h x c)))) ->
  forall c, opt_thread g xs (Z.of_nat c) = Some (fst (thread h xs c), Z.of_nat (snd (thread h xs c))).
Proof.
  induction xs as [|x xs IH]; intros H c; cbn [opt_thread thread]; [reflexivity|].
  rewrite (H x c (in_eq _ _)). destruct (h x c) as [y c1]. cbn [fst snd].
  rewrite (IH (fun x' c' Hin => H x' c' (in_cons _ _ _ Hin)) c1). destruct (thread h xs c1) as [ys c2]. reflexivity.
Qed.
Lemma opt_thread_cat_eq {X Y} (g : X -> Z -> option (list Y * Z)) (h : X -> nat -> list Y * nat) xs :
  (forall x c, In x xs -> g x (Z.of_nat c) = Some (fst (h x c), Z.of_nat (snd (h x c)))) ->
  forall c, opt_thread_cat g xs (Z.of_nat c) = Some (fst (thread_cat h xs c), Z.of_nat (snd (thread_cat h xs c))).
Proof.
  induction xs as [|x xs IH]; intros H c; cbn [opt_thread_cat thread_cat]; [reflexivity|].
  rewrite (H x c (in_eq _ _)). destruct (h x c) as [y c1]. cbn [fst snd].
  rewrite (IH (fun x' c' Hin => H x' c' (in_cons _ _ _ Hin)) c1). destruct (thread_cat h xs c1) as [ys c2]. reflexivity.
Qed.

Lemma partition_group_le {X} (l g : list X) n : (0 < n)%Z -> In g (approximate_partition l n) -> length g <= length l.
Proof.
  intros Hn Hg. transitivity (length (concat (approximate_partition l n))); [|now rewrite partition_concat_gen].
  clear - Hg. induction (approximate_partition l n) as [|x xs IH]; [destruct Hg|].
  cbn [concat]. rewrite app_length. destruct Hg as [->|Hg]; [lia|specialize (IH Hg); lia].
Qed.

(* ------------------------------------------------------------------ t3ns *)
Section T3nsEq.
Context {A : Type}.

Lemma t3_rec_S f (a b c0 : A) rest ctr :
  t3_rec (S f) (a :: b :: c0 :: rest) ctr =
  let (ts, c') := thread_cat (t3_rec f) (approximate_partition (b :: c0 :: rest) 2%Z) (S ctr) in
  ([BNode [Real a] [BNode [Dummy ctr] ts]], c').
Proof. reflexivity. Qed.

Lemma t3ns_recursion_g_eq : forall f (bl : list A) c, length bl < f ->
  t3ns_recursion_g f bl (Z.of_nat c) = Some (fst (t3_rec (length bl) bl c), Z.of_nat (snd (t3_rec (length bl) bl c))).
Proof.
  induction f as [|f IH]; intros bl c Hf; [lia|].
  destruct bl as [|a [|b [|c0 rest]]]; try reflexivity.
  - (* three or more *)
    set (bl := a :: b :: c0 :: rest) in *. cbn [t3ns_recursion_g].
    assert (L : py_len bl = Z.of_nat (S (S (S (length rest))))) by reflexivity.
    rewrite !L.
    destruct (Z.eqb_spec (Z.of_nat (S (S (S (length rest))))) 0); [lia|].
    destruct (Z.eqb_spec (Z.of_nat (S (S (S (length rest))))) 1); [lia|].
    destruct (Z.eqb_spec (Z.of_nat (S (S (S (length rest))))) 2); [lia|].
    cbv zeta. rewrite <- L. change 1%Z with (Z.of_nat 1). rewrite py_slice_upto, py_slice_from.
    replace (Z.of_nat c + Z.of_nat 1)%Z with (Z.of_nat (S c)) by lia.
    subst bl. cbn [firstn skipn length]. rewrite t3_rec_S.
    rewrite (opt_thread_cat_eq (t3ns_recursion_g f) (t3_rec (S (S (length rest))))).
    + destruct (thread_cat _ _ _) as [ts c']. cbn [fst snd map]. unfold zdummy. now rewrite Nat2Z.id.
    + intros g c1 Hg.
      assert (length g < length (b :: c0 :: rest)).
      { apply (partition_group_shorter (b :: c0 :: rest) g 2%Z); [lia|unfold py_len; cbn [length]; lia|exact Hg]. }
      cbn [length] in *. rewrite IH by lia. rewrite (t3_rec_fuel (length g) (S (S (length rest)))) by lia. reflexivity.
Qed.

Theorem t3ns_g_eq (l : list A) : t3ns_g l = Some (t3ns l).
Proof.
  unfold t3ns_g, t3ns. cbv zeta. change (0 + 1)%Z with (Z.of_nat 1).
  rewrite (opt_thread_cat_eq (t3ns_recursion_g (S (length l))) (t3_rec (length l))).
  - destruct (thread_cat _ _ _) as [ts c']. reflexivity.
  - intros g c Hg. pose proof (partition_group_le l g 3%Z ltac:(lia) Hg).
    rewrite t3ns_recursion_g_eq by lia. rewrite (t3_rec_fuel (length g) (length l)) by lia. reflexivity.
Qed.
End T3nsEq.

(* ------------------------------------------------------------------ general_mctdh *)
Section MctdhEq.
Context {A : Type}.

Lemma mctdh_rec_S f order (els : list (btree A)) ctr :
  mctdh_rec (S f) order els ctr =
  if Nat.leb (length els) order then (BNode [Dummy ctr] els, S ctr)
  else let (ts, c') := thread (mctdh_rec f order) (approximate_partition els (Z.of_nat order)) (S ctr) in
       (BNode [Dummy ctr] ts, c').
Proof. reflexivity. Qed.

Lemma mctdh_recursion_g_eq order : 2 <= order -> forall f (els : list (btree A)) c, length els < f ->
  mctdh_recursion_g f (Z.of_nat order) els (Z.of_nat c)
  = Some (fst (mctdh_rec (length els) order els c), Z.of_nat (snd (mctdh_rec (length els) order els c))).
Proof.
  intros Ho. induction f as [|f IH]; intros els c Hf; [lia|].
  cbn [mctdh_recursion_g]. cbv zeta. replace (Z.of_nat c + 1)%Z with (Z.of_nat (S c)) by lia.
  unfold py_len. unfold zdummy. rewrite Nat2Z.id.
  destruct els as [|e els'] eqn:E.
  - cbn [length Z.of_nat]. destruct (Z.leb_spec 0 (Z.of_nat order)); [reflexivity|lia].
  - rewrite <- E in *. assert (Hl : length els = S (length els')) by (subst els; reflexivity).
    replace (mctdh_rec (length els) order els c) with (mctdh_rec (S (length els')) order els c) by (now rewrite Hl).
    rewrite mctdh_rec_S.
    destruct (Z.leb_spec (Z.of_nat (length els)) (Z.of_nat order)), (Nat.leb_spec (length els) order); try lia; [reflexivity|].
    rewrite (opt_thread_eq (mctdh_recursion_g f (Z.of_nat order)) (mctdh_rec (length els') order)).
    + destruct (thread _ _ _) as [ts c']. reflexivity.
    + intros g c1 Hg.
      assert (length g < length els).
      { apply (partition_group_shorter els g (Z.of_nat order)); [lia|unfold py_len; lia|exact Hg]. }
      rewrite IH by lia. rewrite (mctdh_rec_fuel order Ho (length g) (length els')) by lia. reflexivity.
Qed.

(* elementary nodes, no contraction *)
Lemma chunks_g_ok order : 1 <= order -> forall f (l : list A), length l < f -> l <> [] ->
  exists gs, mctdh_chunks_g f (Z.of_nat order) l = Some gs /\ concat gs = l /\ Forall (fun g => g <> []) gs.
Proof.
  intros Ho. induction f as [|f IH]; intros l Hf Hl; [lia|].
  cbn [mctdh_chunks_g]. unfold py_len at 1.
  destruct (Z.ltb_spec (Z.of_nat order) (Z.of_nat (length l))) as [Hlt|Hge].
  - rewrite py_slice_upto, py_slice_from.
    destruct (IH (skipn order l)) as [gs [E [C N]]].
    + rewrite skipn_length. lia.
    + intros E. apply (f_equal (@length A)) in E. rewrite skipn_length in E. cbn in E. lia.
    + rewrite E. cbn [option_map]. eexists. split; [reflexivity|]. split.
      * cbn [concat]. rewrite C. apply firstn_skipn.
      * constructor; [|exact N]. destruct l; [congruence|]. destruct order; [lia|]. cbn. congruence.
  - exists [l]. split; [reflexivity|]. split; [cbn; apply app_nil_r|]. repeat constructor. exact Hl.
Qed.

(* the for/break loop: j = lo + (number of leading positions where the test fails), at most the last *)
Definition zrange (lo : Z) (m : nat) : list Z := map (fun k => (lo + Z.of_nat k)%Z) (seq 0 m).
Lemma zrange_S lo m : zrange lo (S m) = lo :: zrange (lo + 1) m.
Proof.
  unfold zrange. cbn [seq map]. rewrite Z.add_0_r. f_equal. rewrite <- seq_shift, map_map.
  apply map_ext. intros k. lia.
Qed.
Lemma pfb_cons (x : Z) js test : js <> [] -> py_for_break (x :: js) test = if test x then Some x else py_for_break js test.
Proof. destruct js; [congruence|reflexivity]. Qed.
Lemma zrange_S_ne lo m : zrange lo (S m) <> [].
Proof. rewrite zrange_S. congruence. Qed.
Lemma for_break_spec test : forall k lo, exists jn, jn <= k /\
  py_for_break (zrange lo (S k)) test = Some (lo + Z.of_nat jn)%Z /\
  forall t, t < jn -> test (lo + Z.of_nat t)%Z = false.
Proof.
  induction k as [|k IH]; intros lo.
  - exists 0. split; [lia|]. split; [cbn; now rewrite Z.add_0_r|]. intros; lia.
  - rewrite zrange_S, pfb_cons by apply zrange_S_ne. destruct (test lo) eqn:T.
    + exists 0. split; [lia|]. split; [now rewrite Z.add_0_r|intros; lia].
    + destruct (IH (lo + 1)%Z) as [jn [Hj [E N]]]. exists (S jn). split; [lia|]. split.
      * rewrite E. f_equal. lia.
      * intros t Ht. destruct t; [now rewrite Z.add_0_r|]. specialize (N t ltac:(lia)).
        replace (lo + Z.of_nat (S t))%Z with (lo + 1 + Z.of_nat t)%Z by lia. exact N.
Qed.

Lemma skipn_nth_error {X} (l : list X) i b : nth_error l i = Some b -> skipn i l = b :: skipn (S i) l.
Proof. revert l. induction i as [|i IH]; intros [|x l] H; try discriminate; cbn in *; [now injection H as ->|now apply IH]. Qed.
Lemma skipn_add {X} a b (l : list X) : skipn a (skipn b l) = skipn (b + a) l.
Proof. revert l. induction b as [|b IH]; intros l; [reflexivity|]. destruct l; [now rewrite !skipn_nil|]. cbn [skipn Nat.add]. apply IH. Qed.

(* elementary nodes, contract_label given *)
Lemma labels_g_ok order (l : list A) (lab : list bool) : 1 <= order -> length lab = length l ->
  forall f i, i <= length l -> length l - i < f ->
  exists gs, mctdh_labels_g f (Z.of_nat order) l lab (Z.of_nat i) = Some gs /\ concat gs = skipn i l /\ Forall (fun g => g <> []) gs.
Proof.
  intros Ho Hlab. induction f as [|f IH]; intros i Hi Hf; [lia|].
  cbn [mctdh_labels_g]. unfold py_len at 1.
  destruct (Z.eqb_spec (Z.of_nat i) (Z.of_nat (length l))) as [E|NE]; cbn [negb].
  - exists []. split; [reflexivity|]. split; [|constructor]. apply Nat2Z.inj in E. subst i. now rewrite skipn_all.
  - assert (Hlt : i < length l) by lia.
    destruct (py_getb lab (Z.of_nat i)).
    + rewrite py_get_nat by lia. destruct (nth_error l i) as [b|] eqn:Eb; [|apply nth_error_None in Eb; lia].
      replace (Z.of_nat i + 1)%Z with (Z.of_nat (S i)) by lia.
      destruct (IH (S i) ltac:(lia) ltac:(lia)) as [gs [E [C N]]]. rewrite E. cbn [option_map].
      eexists. split; [reflexivity|]. split; [|constructor; [congruence|exact N]].
      cbn [concat app]. rewrite C. symmetry. now apply skipn_nth_error.
    + set (test := fun j : Z => orb (Z.eqb (Z.of_nat i + j) (py_len lab)) (py_getb lab (Z.of_nat i + j))).
      assert (Er : py_range2 1 (Z.of_nat order + 1) = zrange 1 (S (order - 1))).
      { unfold py_range2, zrange. replace (Z.to_nat (Z.of_nat order + 1 - 1)) with (S (order - 1)) by lia. reflexivity. }
      rewrite Er. destruct (for_break_spec test (order - 1) 1%Z) as [jn [Hj [E N]]]. fold test. rewrite E.
      (* the group does not run past the end of the list *)
      assert (Hend : i + S jn <= length l).
      { destruct (Nat.le_gt_cases (i + S jn) (length l)) as [|Hgt]; [assumption|exfalso].
        assert (Ht : length l - i - 1 < jn) by lia. specialize (N _ Ht). unfold test, py_len in N.
        apply orb_false_iff in N. destruct N as [N _]. apply Z.eqb_neq in N. lia. }
      replace (Z.of_nat i + (1 + Z.of_nat jn))%Z with (Z.of_nat (i + S jn)) by lia.
      rewrite py_slice_nat by lia. replace (i + S jn - i) with (S jn) by lia.
      destruct (IH (i + S jn) Hend ltac:(lia)) as [gs [E' [C N']]]. rewrite E'. cbn [option_map].
      eexists. split; [reflexivity|]. split.
      * cbn [concat]. rewrite C, <- skipn_add. apply firstn_skipn.
      * constructor; [|exact N']. destruct (skipn i l) eqn:Es; [|cbn; congruence].
        apply (f_equal (@length A)) in Es. rewrite skipn_length in Es. cbn in Es. lia.
Qed.

Lemma concat_length_ge' {X : Type} (gs : list (list X)) : Forall (fun g => g <> []) gs -> length gs <= length (concat gs).
Proof.
  induction 1 as [|g gs Hg _ IH]; cbn [concat length]; [lia|]. rewrite app_length. destruct g; [congruence|]. cbn [length]. lia.
Qed.

(* the elementary groups of the generated function, whatever the mode: a partition of l into non-empty runs *)
Definition elementary_g_ok (l : list A) (gs : list (list A)) : Prop := concat gs = l /\ Forall (fun g => g <> []) gs.

Lemma mctdh_from_groups order (l : list A) gs : 2 <= order -> l <> [] -> elementary_g_ok l gs ->
  exists t, option_map fst (mctdh_recursion_g (S (length l)) (Z.of_nat order) (map mknode gs) 0%Z) = Some t /\
            Permutation (real_basis t) l /\ nodes_ok t = true /\ NoDup (dummy_ids t) /\ real_basis t = l.
Proof.
  intros Ho Hl [C N].
  assert (Hlen : length (map (@mknode A) gs) < S (length l)).
  { rewrite map_length. pose proof (concat_length_ge' gs N). rewrite C in H. lia. }
  change 0%Z with (Z.of_nat 0). rewrite (mctdh_recursion_g_eq order Ho _ _ 0 Hlen). cbn [option_map fst].
  eexists. split; [reflexivity|].
  assert (E : real_basis (fst (mctdh_rec (length (map (@mknode A) gs)) order (map mknode gs) 0)) = l).
  { rewrite mctdh_rec_real by lia. rewrite flat_map_concat_map, map_map.
    rewrite (map_ext _ (fun g => g)) by (intros; apply (real_basis_leaf (A := A))). now rewrite map_id. }
  assert (D : flat_map dummy_ids (map (@mknode A) gs) = []).
  { clear - N. induction N as [|g gs _ _ IHg]; cbn [map flat_map]; [reflexivity|].
    change (mknode g) with (leaf g). now rewrite dummy_ids_leaf. }
  rewrite E. repeat split; try reflexivity.
  - apply mctdh_rec_ok; [lia|]. rewrite forallb_forall. intros x Hx. apply in_map_iff in Hx.
    destruct Hx as [g [<- Hg]]. change (mknode g) with (leaf g). apply nodes_ok_leaf. rewrite Forall_forall in N. now apply N.
  - destruct (mctdh_rec_dummies (length (map (@mknode A) gs)) order _ 0 D) as [_ ->]. apply seq_NoDup.
Qed.

(* general_mctdh: for every tree order >= 2, every list of more than one basis set, every mode (a label
   vector must have the list's length) the generated builder returns a tree, and that tree keeps every
   basis set exactly once, in order *)
Theorem general_mctdh_g_ok (l : list A) order mode : 2 <= order -> 1 < length l -> mode_ok mode l ->
  exists t, general_mctdh_g l (Z.of_nat order) mode = Some t /\
            Permutation (real_basis t) l /\ nodes_ok t = true /\ NoDup (dummy_ids t) /\ real_basis t = l.
Proof.
  intros Ho Hl Hm. unfold general_mctdh_g. cbv zeta. unfold py_len at 1.
  assert (Hne : l <> []) by (intros ->; cbn in Hl; lia).
  destruct (Z.gtb_spec (Z.of_nat (length l)) 1) as [_|]; [|lia]. cbn [negb].
  destruct mode as [| |lab].
  - destruct (chunks_g_ok order ltac:(lia) (S (length l)) l ltac:(lia) Hne) as [gs [E [C N]]]. rewrite E.
    apply mctdh_from_groups; [assumption|assumption|split; assumption].
  - apply mctdh_from_groups; [assumption|assumption|]. split.
    + rewrite <- flat_map_concat_map. apply flat_map_singleton.
    + clear. induction l; cbn [map]; constructor; [congruence|assumption].
  - cbn [mode_ok] in Hm. unfold py_len. rewrite Hm, Z.eqb_refl. cbn [negb].
    destruct (labels_g_ok order l lab ltac:(lia) Hm (S (length l)) 0 ltac:(lia) ltac:(lia)) as [gs [E [C N]]].
    change 0%Z with (Z.of_nat 0) at 1. rewrite E.
    apply mctdh_from_groups; [assumption|assumption|split; assumption].
Qed.

(* what the asserts reject *)
Theorem general_mctdh_g_rejects (l : list A) order mode :
  length l <= 1 \/ ~ mode_ok mode l -> general_mctdh_g l order mode = None.
Proof.
  intros H. unfold general_mctdh_g. cbv zeta. unfold py_len at 1.
  destruct (Z.gtb_spec (Z.of_nat (length l)) 1) as [Hg|]; [|reflexivity]. cbn [negb].
  destruct H as [H|H]; [lia|]. destruct mode as [| |lab]; cbn [mode_ok] in H; try tauto.
  unfold py_len. destruct (Z.eqb_spec (Z.of_nat (length lab)) (Z.of_nat (length l))); [lia|reflexivity].
Qed.
End MctdhEq.

(* ------------------------------------------------------------------ the property, about the generated builders *)
Theorem builders_g_exactly_once : forall (A : Type) (l : list A),
  (forall t, linear_g l = Some t -> Permutation (real_basis t) l /\ nodes_ok t = true /\ NoDup (dummy_ids t)) /\
  (forall t, binary_g l = Some t -> Permutation (real_basis t) l /\ nodes_ok t = true /\ NoDup (dummy_ids t)) /\
  (forall order mode t, 2 <= order -> general_mctdh_g l (Z.of_nat order) mode = Some t ->
       Permutation (real_basis t) l /\ nodes_ok t = true /\ NoDup (dummy_ids t)) /\
  (forall t, t3ns_g l = Some t -> Permutation (real_basis t) l /\ nodes_ok t = true /\ NoDup (dummy_ids t)).
Proof.
  intros A l. pose proof (builders_exactly_once A l) as [H1 [H2 [_ H4]]]. repeat split.
  1-3: rewrite linear_g_eq in H; now destruct (H1 t H) as [? [? ?]].
  1-3: rewrite binary_g_eq in H; now destruct (H2 t H) as [? [? ?]].
  1-3: destruct (Nat.le_gt_cases (length l) 1) as [Hs|Hs];
       [rewrite general_mctdh_g_rejects in H0 by (now left); discriminate|];
       assert (Hm : mode_ok mode l) by
         (destruct mode as [| |lab]; cbn [mode_ok]; auto;
          destruct (Nat.eq_dec (length lab) (length l)) as [E|NE]; [exact E|];
          rewrite general_mctdh_g_rejects in H0 by (right; cbn [mode_ok]; exact NE); discriminate);
       destruct (general_mctdh_g_ok l order mode H Hs Hm) as [t' [E [P [O [D _]]]]];
       rewrite E in H0; injection H0 as <-; assumption.
  1-3: rewrite t3ns_g_eq in H; injection H as <-; now destruct H4 as [? [? ?]].
Qed.

(* they return a tree on every input the code accepts (the fuel is enough, no IndexError) *)
Theorem builders_g_total : forall (A : Type) (l : list A),
  (l <> [] -> exists t, linear_g l = Some t /\ real_basis t = l) /\
  (l <> [] -> exists t, binary_g l = Some t) /\
  (forall order mode, 2 <= order -> 1 < length l -> mode_ok mode l ->
       exists t, general_mctdh_g l (Z.of_nat order) mode = Some t /\ real_basis t = l) /\
  (exists t, t3ns_g l = Some t /\ real_basis t = l).
Proof.
  intros A l. repeat split.
  - intros Hl. rewrite linear_g_eq. destruct l as [|a l']; [congruence|]. eexists. split; [reflexivity|]. apply linear_from_real.
  - intros Hl. rewrite binary_g_eq. destruct l as [|a l']; [congruence|]. eexists. reflexivity.
  - intros order mode Ho Hl Hm. destruct (general_mctdh_g_ok l order mode Ho Hl Hm) as [t [E [_ [_ [_ R]]]]]. eauto.
  - rewrite t3ns_g_eq. eexists. split; [reflexivity|]. now destruct (t3ns_exactly_once l).
Qed.
