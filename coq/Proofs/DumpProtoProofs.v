(* C14 -- proofs about the dump protocol model.
   Part 1: the interpreter is parametric in the cell type (simulation lemma).
   Part 2: soundness of the finite-state model checker: if the candidate invariant computed by
           [reach] is closed and all its members are safe, then EVERY history (any length, any
           crash points, any restarts) ends in a safe state.
   Part 3: the booleans evaluated (vm_compute) for the generated protocols of Gen/DumpProto.v.
   What is finite: the abstract state space (5 cell classes)^npaths x bool and hence the candidate
   invariant; the lifting to all histories is by induction over the history. *)
From Coq Require Import List Arith Bool Lia String.
Import ListNotations.
From RV Require Import Model.DumpProto Gen.DumpProto.

(* ------------------------------------------------------------------ induction over nested ops *)
Section OpInd.
  Variable P : op -> Prop.
  Hypothesis HM : P Makedirs.
  Hypothesis HRm : forall p, P (Remove p).
  Hypothesis HRn : forall a b, P (Rename a b).
  Hypothesis HRp : forall a b, P (Replace a b).
  Hypothesis HW : forall p, P (Write p).
  Hypothesis HIf : forall g body, Forall P body -> P (If g body).
  Fixpoint op_ind' (o : op) : P o :=
    match o with
    | Makedirs => HM
    | Remove p => HRm p
    | Rename a b => HRn a b
    | Replace a b => HRp a b
    | Write p => HW p
    | If g body =>
        HIf g body ((fix f (l : list op) : Forall P l :=
                       match l with
                       | [] => Forall_nil P
                       | x :: l' => Forall_cons x (op_ind' x) (f l')
                       end) body)
    end.
End OpInd.

Lemma run_op_If : forall (C : Type) (ab pa : C) isab cur g body s,
  run_op ab pa isab cur (If g body) s =
  if eval ab isab g s then run_ops ab pa isab cur body s else ([], true).
Proof.
  intros. cbn [run_op]. destruct (eval ab isab g s); [|reflexivity].
  revert s. induction body as [|o l IH]; intros s; [reflexivity|].
  cbn [run_ops]. cbv zeta. destruct (snd (run_op ab pa isab cur o s)); [rewrite IH|]; reflexivity.
Qed.

(* ------------------------------------------------------------------ generic list facts *)
Lemma last_in : forall (X : Type) (t : list X) (d : X), In (last t d) (d :: t).
Proof.
  induction t as [|x t IH]; intros d; [left; reflexivity|].
  destruct t as [|y t']; [right; left; reflexivity|].
  change (last (x :: y :: t') d) with (last (y :: t') d).
  specialize (IH x). change (last (y :: t') d) with (last (y :: t') d).
  assert (E : last (y :: t') d = last (y :: t') x).
  { clear. revert y. induction t' as [|z t'' IH']; intros y; [reflexivity|].
    change (last (y :: z :: t'') d) with (last (z :: t'') d).
    change (last (y :: z :: t'') x) with (last (z :: t'') x). apply IH'. }
  rewrite E. right. exact IH.
Qed.

Lemma firstn_incl : forall (X : Type) c (t : list X) x, In x (firstn c t) -> In x t.
Proof.
  induction c as [|c IH]; intros [|y t] x H; simpl in *; try contradiction.
  destruct H as [H|H]; [left; exact H|right; apply IH; exact H].
Qed.

Lemma last_firstn_in : forall (X : Type) c (t : list X) d, In (last (firstn c t) d) (d :: t).
Proof.
  intros. destruct (last_in X (firstn c t) d) as [H|H]; [left; exact H|right].
  eapply firstn_incl; exact H.
Qed.

Lemma Forall2_firstn : forall (X Y : Type) (Q : X -> Y -> Prop) c l1 l2,
  Forall2 Q l1 l2 -> Forall2 Q (firstn c l1) (firstn c l2).
Proof.
  induction c as [|c IH]; intros l1 l2 H; [constructor|].
  destruct H; simpl; constructor; auto.
Qed.

Lemma Forall2_last : forall (X Y : Type) (Q : X -> Y -> Prop) l1 l2,
  Forall2 Q l1 l2 -> forall d1 d2, Q d1 d2 -> Q (last l1 d1) (last l2 d2).
Proof.
  induction 1 as [|x y l1 l2 Hxy H IH]; intros d1 d2 Hd; [exact Hd|].
  destruct H as [|x' y' l1' l2' Hxy' H']; [exact Hxy|].
  change (Q (last (x' :: l1') d1) (last (y' :: l2') d2)).
  apply IH. exact Hd.
Qed.

Lemma Forall2_map_r : forall (X Y Z : Type) (Q : X -> Y -> Prop) (Q' : X -> Z -> Prop) (f : Y -> Z),
  (forall x y, Q x y -> Q' x (f y)) -> forall l1 l2, Forall2 Q l1 l2 -> Forall2 Q' l1 (map f l2).
Proof. induction 2; simpl; constructor; auto. Qed.

(* ------------------------------------------------------------------ Part 1: parametricity *)
Section Param.
  Variables (A B : Type) (absA partA : A) (isA : A -> bool) (absB partB : B) (isB : B -> bool).
  Variable R : A -> B -> Prop.
  Hypothesis Rabs : R absA absB.
  Hypothesis Rpart : R partA partB.
  Hypothesis Ris : forall x y, R x y -> isA x = isB y.

  Lemma get_rel : forall s a, Forall2 R s a -> forall p, R (get absA s p) (get absB a p).
  Proof.
    unfold get. induction 1 as [|x y s a Hxy H IH]; intros p.
    - destruct p; exact Rabs.
    - destruct p; simpl; [exact Hxy|apply IH].
  Qed.

  Lemma set_rel : forall s a, Forall2 R s a -> forall p c d, R c d -> Forall2 R (set s p c) (set a p d).
  Proof.
    induction 1 as [|x y s a Hxy H IH]; intros p c d Hcd; [constructor|].
    destruct p; simpl; constructor; auto.
  Qed.

  Lemma eval_rel : forall g s a, Forall2 R s a -> eval absA isA g s = eval absB isB g a.
  Proof.
    intros g s a H. destruct g; simpl; rewrite (Ris _ _ (get_rel s a H p)); reflexivity.
  Qed.

  Definition rel_res (r1 : list (list A) * bool) (r2 : list (list B) * bool) : Prop :=
    Forall2 (Forall2 R) (fst r1) (fst r2) /\ snd r1 = snd r2.

  Lemma move_rel : forall s a, Forall2 R s a -> forall p q,
    rel_res (move A absA isA s p q) (move B absB isB a p q).
  Proof.
    intros s a H p q. unfold move.
    rewrite (Ris _ _ (get_rel s a H p)).
    destruct (isB (get absB a p)); [split; [constructor|reflexivity]|].
    destruct (Nat.eqb p q); split; try reflexivity; simpl.
    - constructor; [exact H|constructor].
    - constructor; [|constructor]. apply set_rel; [|exact Rabs].
      apply set_rel; [exact H|apply get_rel; exact H].
  Qed.

  Section WithCur.
    Variables (cA : A) (cB : B).
    Hypothesis Rcur : R cA cB.

    Definition op_ok (o : op) : Prop :=
      forall s a, Forall2 R s a ->
        rel_res (run_op absA partA isA cA o s) (run_op absB partB isB cB o a).

    Lemma run_ops_rel_aux : forall body, Forall op_ok body ->
      forall s a, Forall2 R s a ->
        rel_res (run_ops absA partA isA cA body s) (run_ops absB partB isB cB body a).
    Proof.
      induction 1 as [|o l Ho Hl IH]; intros s a H.
      - split; [constructor|reflexivity].
      - cbn [run_ops]. cbv zeta. destruct (Ho s a H) as [Ht Hb].
        remember (run_op absA partA isA cA o s) as rA eqn:EA.
        remember (run_op absB partB isB cB o a) as rB eqn:EB.
        clear EA EB. destruct rA as [tA bA], rB as [tB bB]. simpl in Ht, Hb. subst bB. simpl.
        destruct bA.
        + assert (HL : Forall2 R (last tA s) (last tB a)) by (apply Forall2_last; assumption).
          destruct (IH _ _ HL) as [Ht' Hb']. split; simpl.
          * apply Forall2_app; assumption.
          * exact Hb'.
        + split; [exact Ht|reflexivity].
    Qed.

    Lemma run_op_rel : forall o, op_ok o.
    Proof.
      induction o as [|p|p q|p q|p|g body IHb] using op_ind'; unfold op_ok; intros s a H.
      - split; simpl; [constructor; [exact H|constructor]|reflexivity].
      - cbn [run_op]. rewrite (Ris _ _ (get_rel s a H p)).
        destruct (isB (get absB a p)); split; simpl; try reflexivity; [constructor|].
        constructor; [|constructor]. apply set_rel; [exact H|exact Rabs].
      - apply move_rel; exact H.
      - apply move_rel; exact H.
      - split; [|reflexivity]. simpl.
        constructor; [apply set_rel; [exact H|exact Rpart]|].
        constructor; [apply set_rel; [exact H|exact Rcur]|constructor].
      - rewrite !run_op_If. rewrite (eval_rel g s a H).
        destruct (eval absB isB g a).
        + apply run_ops_rel_aux; assumption.
        + split; [constructor|reflexivity].
    Qed.

    Lemma run_ops_rel : forall body s a, Forall2 R s a ->
      rel_res (run_ops absA partA isA cA body s) (run_ops absB partB isB cB body a).
    Proof.
      intros body. apply run_ops_rel_aux. apply Forall_forall. intros o _. apply run_op_rel.
    Qed.
  End WithCur.
End Param.

(* ------------------------------------------------------------------ Part 2: concrete vs abstract *)

(* m = last returned attempt, n = attempt in progress *)
Inductive crel (m n : nat) : cell -> acell -> Prop :=
| cr_abs : crel m n Absent AAbs
| cr_part : crel m n Partial APart
| cr_old : forall k, k < m -> crel m n (Complete k) AOld
| cr_good : forall k, m <= k < n -> crel m n (Complete k) AGood
| cr_cur : crel m n (Complete n) ACur.

Lemma crel_is : forall m n x y, crel m n x y -> c_is_absent x = a_is_absent y.
Proof. destruct 1; reflexivity. Qed.

Lemma crel_crash : forall m n x y, m <= n -> crel m n x y -> crel m (S n) x (relabel_crash y).
Proof.
  intros m n x y Hmn H. destruct H; simpl; try constructor; lia.
Qed.

Lemma crel_fin : forall m n x y, m <= n -> crel m n x y -> crel n (S n) x (relabel_fin y).
Proof.
  intros m n x y Hmn H. destruct H; simpl; try constructor; lia.
Qed.

Definition srel (st : hstate) (x : astate) : Prop :=
  Forall2 (crel (h_fin st) (h_next st)) (h_fs st) (fst x) /\
  snd x = negb (Nat.eqb (h_fin st) 0) /\
  h_fin st < h_next st.

Lemma run_sim : forall proto st x, srel st x ->
  Forall2 (Forall2 (crel (h_fin st) (h_next st)))
          (fst (crun (h_next st) proto (h_fs st))) (fst (arun proto (fst x))) /\
  snd (crun (h_next st) proto (h_fs st)) = aok proto x.
Proof.
  intros proto st x (Hfs & _ & _). unfold crun, arun, aok.
  apply (run_ops_rel cell acell Absent Partial c_is_absent AAbs APart a_is_absent
                     (crel (h_fin st) (h_next st))); try constructor.
  - apply crel_is.
  - exact Hfs.
Qed.

Lemma step_sim : forall proto st x a, srel st x ->
  exists y, In y (asucc proto x) /\ srel (step_attempt proto st a) y.
Proof.
  intros proto st x a Hrel.
  destruct (run_sim proto st x Hrel) as [Ht Hb].
  destruct Hrel as (Hfs & Hf & Hlt).
  unfold aok in Hb.
  (* the "did not return" successor, for any related pair of intermediate states *)
  assert (Crash : forall L L', Forall2 (crel (h_fin st) (h_next st)) L L' ->
                    In L' (fst x :: fst (arun proto (fst x))) ->
                    exists y, In y (asucc proto x) /\
                              srel (mk_hstate L (S (h_next st)) (h_fin st)) y).
  { intros L L' HL Hin. exists (map relabel_crash L', snd x). split.
    - unfold asucc. apply in_or_app. right.
      apply (in_map (fun y => (map relabel_crash y, snd x))). exact Hin.
    - split; [|split]; simpl; [|exact Hf|lia].
      eapply Forall2_map_r; [|exact HL]. intros c d Hcd. apply crel_crash; [lia|exact Hcd]. }
  destruct a as [c|].
  - (* killed after c actions *)
    unfold step_attempt.
    apply (Crash _ (last (firstn c (fst (arun proto (fst x)))) (fst x))).
    + apply Forall2_last; [apply Forall2_firstn; exact Ht|exact Hfs].
    + apply last_firstn_in.
  - unfold step_attempt.
    assert (HL : Forall2 (crel (h_fin st) (h_next st))
                   (last (fst (crun (h_next st) proto (h_fs st))) (h_fs st))
                   (last (fst (arun proto (fst x))) (fst x)))
      by (apply Forall2_last; assumption).
    destruct (snd (crun (h_next st) proto (h_fs st))) eqn:E.
    + exists (map relabel_fin (last (fst (arun proto (fst x))) (fst x)), true). split.
      * unfold asucc. rewrite <- Hb. left. reflexivity.
      * split; [|split]; simpl; [| |lia].
        -- eapply Forall2_map_r; [|exact HL]. intros c d Hcd. apply crel_fin with (m := h_fin st); [lia|exact Hcd].
        -- destruct (h_next st); [lia|reflexivity].
    + apply (Crash _ (last (fst (arun proto (fst x))) (fst x)) HL). apply last_in.
Qed.

(* boolean equalities *)
Lemma acell_eqb_eq : forall x y, acell_eqb x y = true -> x = y.
Proof. destruct x, y; simpl; intros H; try reflexivity; discriminate. Qed.

Lemma alist_eqb_eq : forall x y, alist_eqb x y = true -> x = y.
Proof.
  induction x as [|a x IH]; destruct y as [|b y]; simpl; intros H; try reflexivity; try discriminate.
  apply andb_true_iff in H. destruct H as [H1 H2].
  rewrite (acell_eqb_eq _ _ H1), (IH _ H2). reflexivity.
Qed.

Lemma astate_eqb_eq : forall x y, astate_eqb x y = true -> x = y.
Proof.
  intros [a f] [b g]. unfold astate_eqb. simpl. intros H.
  apply andb_true_iff in H. destruct H as [H1 H2].
  rewrite (alist_eqb_eq _ _ H1), (eqb_prop _ _ H2). reflexivity.
Qed.

Lemma amem_In : forall x l, amem x l = true -> In x l.
Proof.
  intros x l H. unfold amem in H. apply existsb_exists in H. destruct H as (y & Hy & E).
  rewrite (astate_eqb_eq _ _ E). exact Hy.
Qed.

Lemma init_srel : forall np, srel (init_state np) (ainit np).
Proof.
  intros np. split; [|split]; simpl; [|reflexivity|lia].
  induction np; simpl; constructor; [constructor|assumption].
Qed.

(* every history ends in a state described by a member of any closed candidate invariant *)
Lemma history_in_inv : forall proto np I, inv_closed proto np I = true ->
  forall h st x, In x I -> srel st x ->
  exists y, In y I /\ srel (run_history proto h st) y.
Proof.
  intros proto np I HI. unfold inv_closed in HI. apply andb_true_iff in HI. destruct HI as [_ Hcl].
  rewrite forallb_forall in Hcl.
  induction h as [|a h IH]; intros st x Hx Hrel.
  - exists x. split; assumption.
  - simpl. destruct (step_sim proto st x a Hrel) as (y & Hy & Hrel').
    apply (IH _ y); [|exact Hrel'].
    apply amem_In. specialize (Hcl x Hx). rewrite forallb_forall in Hcl. apply Hcl. exact Hy.
Qed.

Lemma history_in_inv0 : forall proto np I, inv_closed proto np I = true ->
  forall h, exists y, In y I /\ srel (run_history proto h (init_state np)) y.
Proof.
  intros proto np I HI h. apply (history_in_inv proto np I HI h _ (ainit np)).
  - unfold inv_closed in HI. apply andb_true_iff in HI. apply amem_In. apply HI.
  - apply init_srel.
Qed.

Lemma asafe_safe : forall W st x, srel st x -> asafe W x = true -> safe W st.
Proof.
  intros W st x (Hfs & Hf & Hlt) H. unfold asafe in H. apply orb_true_iff in H. destruct H as [H|H].
  - left. rewrite Hf in H. rewrite negb_involutive in H. apply Nat.eqb_eq. exact H.
  - right. apply existsb_exists in H. destruct H as (p & Hp & Hg).
    pose proof (get_rel cell acell Absent AAbs _ (cr_abs _ _) _ _ Hfs p) as Hc.
    remember (get Absent (h_fs st) p) as c eqn:Ec. remember (get AAbs (fst x) p) as d eqn:Ed.
    destruct Hc; try discriminate. exists p, k. auto.
Qed.

(* soundness of the model checker *)
Lemma check_safe_inv_sound : forall proto np W I, check_safe_inv proto np W I = true ->
  forall h, safe W (run_history proto h (init_state np)).
Proof.
  intros proto np W I H h. unfold check_safe_inv in H. apply andb_true_iff in H. destruct H as [Hc Hs].
  destruct (history_in_inv0 proto np I Hc h) as (y & Hy & Hrel).
  apply (asafe_safe W _ y Hrel). unfold inv_safe in Hs. rewrite forallb_forall in Hs. apply Hs. exact Hy.
Qed.

Lemma no_raise_from : forall proto np I, inv_closed proto np I = true -> inv_noraise proto I = true ->
  forall h st x, In x I -> srel st x -> no_raise proto h st = true.
Proof.
  intros proto np I HI Hok. pose proof HI as HI'.
  unfold inv_closed in HI. apply andb_true_iff in HI. destruct HI as [_ Hcl].
  rewrite forallb_forall in Hcl. unfold inv_noraise in Hok. rewrite forallb_forall in Hok.
  induction h as [|a h IH]; intros st x Hx Hrel; [reflexivity|].
  simpl. destruct (run_sim proto st x Hrel) as [_ Hb]. rewrite Hb, (Hok x Hx). simpl.
  destruct (step_sim proto st x a Hrel) as (y & Hy & Hrel').
  apply (IH _ y); [|exact Hrel'].
  apply amem_In. specialize (Hcl x Hx). rewrite forallb_forall in Hcl. apply Hcl. exact Hy.
Qed.

Lemma check_noraise_inv_sound : forall proto np I, check_noraise_inv proto np I = true ->
  forall h, no_raise proto h (init_state np) = true.
Proof.
  intros proto np I H h. unfold check_noraise_inv in H. apply andb_true_iff in H. destruct H as [Hc Hs].
  apply (no_raise_from proto np I Hc Hs h _ (ainit np)).
  - unfold inv_closed in Hc. apply andb_true_iff in Hc. apply amem_In. apply Hc.
  - apply init_srel.
Qed.

(* a job that is never killed before attempt j+1: counters *)
Lemma run_none_counters : forall proto j st, no_raise proto (repeat None j) st = true ->
  h_next (run_history proto (repeat None j) st) = j + h_next st /\
  (0 < j -> h_fin (run_history proto (repeat None j) st) = j + h_next st - 1).
Proof.
  intros proto. induction j as [|j IH]; intros st H.
  - simpl. split; [reflexivity|lia].
  - cbn [repeat no_raise] in H. apply andb_true_iff in H. destruct H as [Hb H].
    change (run_history proto (repeat None (S j)) st)
      with (run_history proto (repeat None j) (step_attempt proto st None)).
    destruct (IH _ H) as [Hn Hf].
    assert (En : h_next (step_attempt proto st None) = S (h_next st)) by reflexivity.
    assert (Ef : h_fin (step_attempt proto st None) = h_next st)
      by (unfold step_attempt; rewrite Hb; reflexivity).
    split; [rewrite Hn, En; lia|]. intros _.
    destruct j as [|j'].
    + cbn [repeat run_history fold_left]. rewrite Ef. lia.
    + rewrite Hf, En; lia.
Qed.

Lemma no_raise_app : forall proto h1 h2 st, no_raise proto (h1 ++ h2) st = true -> no_raise proto h1 st = true.
Proof.
  intros proto. induction h1 as [|a h1 IH]; intros h2 st H; [reflexivity|].
  simpl in *. apply andb_true_iff in H. destruct H as [Hb H]. rewrite Hb. simpl. eapply IH. exact H.
Qed.

Theorem single_run_sound : forall proto np W I,
  check_safe_inv proto np W I = true -> check_noraise_inv proto np I = true ->
  forall j c, 0 < j ->
    exists p k, In p W /\
      get Absent (h_fs (run_history proto (repeat None j ++ [Some c]) (init_state np))) p = Complete k /\
      (k = j \/ k = S j).
Proof.
  intros proto np W I Hs Hr j c Hj.
  pose proof (check_safe_inv_sound proto np W I Hs (repeat None j ++ [Some c])) as Hsafe.
  pose proof (check_noraise_inv_sound proto np I Hr (repeat None j ++ [Some c])) as Hnr.
  apply no_raise_app in Hnr.
  destruct (run_none_counters proto j _ Hnr) as [Hn Hf]. specialize (Hf Hj).
  unfold run_history, attempt in *. rewrite fold_left_app in Hsafe |- *. cbn [fold_left] in Hsafe |- *.
  remember (fold_left (step_attempt proto) (repeat None j) (init_state np)) as st eqn:Est. clear Est.
  cbn [init_state h_next] in Hn, Hf.
  unfold safe in Hsafe. cbn [step_attempt h_fs h_next h_fin] in Hsafe |- *.
  destruct Hsafe as [H0|(p & k & Hp & Hg & Hk)]; [lia|].
  exists p, k. split; [exact Hp|]. split; [exact Hg|]. lia.
Qed.

(* ------------------------------------------------------------------ Part 3: the generated protocols *)

Lemma protocols_checked :
  forallb (fun np => check_safe_inv (snd np) npaths watched (reach (snd np) npaths) &&
                     check_noraise_inv (snd np) npaths (reach (snd np) npaths)) protocols = true.
Proof. vm_compute. reflexivity. Qed.

Lemma protocols_nonempty : protocols <> [].
Proof. discriminate. Qed.

Theorem restart_safe_gen : forall name proto, In (name, proto) protocols ->
  forall h, safe watched (run_history proto h (init_state npaths)).
Proof.
  intros name proto Hin. pose proof protocols_checked as H. rewrite forallb_forall in H.
  specialize (H _ Hin). cbn beta iota delta [snd] in H. apply andb_true_iff in H.
  apply (check_safe_inv_sound proto npaths watched (reach proto npaths)). apply H.
Qed.

Theorem never_raises_gen : forall name proto, In (name, proto) protocols ->
  forall h, no_raise proto h (init_state npaths) = true.
Proof.
  intros name proto Hin. pose proof protocols_checked as H. rewrite forallb_forall in H.
  specialize (H _ Hin). cbn beta iota delta [snd] in H. apply andb_true_iff in H.
  apply (check_noraise_inv_sound proto npaths (reach proto npaths)). apply H.
Qed.

Theorem single_run_safe_gen : forall name proto, In (name, proto) protocols ->
  forall j c, 0 < j ->
    exists p k, In p watched /\
      get Absent (h_fs (run_history proto (repeat None j ++ [Some c]) (init_state npaths))) p = Complete k /\
      (k = j \/ k = S j).
Proof.
  intros name proto Hin. pose proof protocols_checked as H. rewrite forallb_forall in H.
  specialize (H _ Hin). cbn beta iota delta [snd] in H. apply andb_true_iff in H.
  apply (single_run_sound proto npaths watched (reach proto npaths)); apply H.
Qed.

(* safe_b reflects safe (used for the examples and by the harness) *)
Lemma safe_b_false : forall W st, safe_b W st = false -> ~ safe W st.
Proof.
  intros W st H Hs. unfold safe_b in H. apply orb_false_iff in H. destruct H as [H0 He].
  destruct Hs as [Hs|(p & k & Hp & Hg & Hk)].
  - apply Nat.eqb_neq in H0. contradiction.
  - assert (existsb (fun p => match get Absent (h_fs st) p with
                              | Complete k => Nat.leb (h_fin st) k && Nat.ltb k (h_next st)
                              | _ => false end) W = true).
    { apply existsb_exists. exists p. split; [exact Hp|]. rewrite Hg.
      apply andb_true_iff. split; [apply Nat.leb_le|apply Nat.ltb_lt]; lia. }
    congruence.
Qed.

(* The protocol of the snapshot before commit d93ad39 (np.savez directly onto the result file),
   written out by hand ONLY to show that the model separates it from the generated one. *)
Definition proto_inplace : list op :=
  [Makedirs; If (GExists 0) [If (GExists 1) [Remove 1]; Rename 0 1]; Write 0; If (GExists 1) [Remove 1]].

Theorem inplace_restart_refuted :
  exists h, ~ safe [0; 1] (run_history proto_inplace h (init_state 2)).
Proof. exists [None; Some 3; Some 2]. apply safe_b_false. vm_compute. reflexivity. Qed.

Theorem inplace_single_run_ok : check_safe proto_inplace 2 [0; 1] = false /\
  forall j c, j <= 6 -> c <= 8 ->
    safe_b [0; 1] (run_history proto_inplace (repeat None j ++ [Some c]) (init_state 2)) = true.
Proof.
  split; [vm_compute; reflexivity|].
  intros j c Hj Hc.
  assert (H : forallb (fun j => forallb (fun c =>
             safe_b [0; 1] (run_history proto_inplace (repeat None j ++ [Some c]) (init_state 2)))
             (seq 0 9)) (seq 0 7) = true) by (vm_compute; reflexivity).
  rewrite forallb_forall in H. specialize (H j). rewrite forallb_forall in H.
  apply H; apply in_seq; lia.
Qed.

(* ------------------------------------------------------------------ serialisation keys *)
From RV Require Import Gen.DumpKeys.

Lemma fam_covered_sound : forall ws r, fam_covered ws r = true ->
  forall n k, In k (expand n r) -> In k (keys n ws).
Proof.
  intros ws r H n k Hk. unfold keys. apply in_flat_map.
  destruct r as [s|p off]; simpl in H; apply existsb_exists in H; destruct H as (w & Hw & E).
  - destruct w as [s'|]; [|discriminate]. apply String.eqb_eq in E. subst s'.
    exists (FConst s). split; [exact Hw|exact Hk].
  - destruct w as [|p' off']; [discriminate|]. apply andb_true_iff in E. destruct E as [E1 E2].
    apply String.eqb_eq in E1. subst p'. apply Nat.leb_le in E2.
    exists (FIdx p off'). split; [exact Hw|]. simpl in *.
    apply in_map_iff in Hk. destruct Hk as (i & Hi & Hin). apply in_map_iff. exists i. split; [exact Hi|].
    apply in_seq in Hin. apply in_seq. lia.
Qed.

Lemma covers_sound : forall ws rs, covers ws rs = true ->
  forall n k, In k (keys n rs) -> In k (keys n ws).
Proof.
  intros ws rs H n k Hk. unfold covers in H. rewrite forallb_forall in H.
  unfold keys in Hk. apply in_flat_map in Hk. destruct Hk as (r & Hr & Hk).
  exact (fam_covered_sound ws r (H r Hr) n k Hk).
Qed.

Lemma kinds_checked : forallb kind_ok kinds = true.
Proof. vm_compute. reflexivity. Qed.

Theorem keys_cover_gen : forall kind ver ws rs, In (kind, ver, ws, rs) kinds ->
  exists rs', rs = Some rs' /\ forall n k, In k (keys n rs') -> In k (keys n ws).
Proof.
  intros kind ver ws rs Hin. pose proof kinds_checked as H. rewrite forallb_forall in H.
  specialize (H _ Hin). unfold kind_ok in H. cbn [fst snd] in H.
  destruct rs as [rs'|]; [|discriminate]. exists rs'. split; [reflexivity|]. apply covers_sound. exact H.
Qed.
