(* C14 -- proofs about the dump protocol model.
   Part 1: the interpreter is parametric in the cell type (simulation lemma).
   Part 2: soundness of the finite-state model checker: if the candidate invariant computed by
           [reach] is closed and all its members are safe, then EVERY history (any length, any
           crash points, any restarts) ends in a safe state.
   Part 3: the booleans evaluated (vm_compute) for the generated protocols of Gen/DumpProto.v.
   What is finite: the abstract state space (5 cell classes)^npaths x bool and hence the candidate
   invariant; the lifting to all histories is by induction over the history. *)
From Coq Require Import List Arith Bool Lia String.
Import ListNotations.
From RV Require Import Model.DumpProto Gen.DumpProto.

(* ------------------------------------------------------------------ induction over nested ops *)
Section OpInd.
  Variable P : op -> Prop.
  Hypothesis HM : P Makedirs.
  Hypothesis HRm : forall p, P (Remove p).
  Hypothesis HRn : forall a b, P (Rename a b).
  Hypothesis HRp : forall a b, P (Replace a b).
  Hypothesis HW : forall p, P (Write p).
  Hypothesis HIf : forall g body, Forall P body -> P (If g body).
  Fixpoint op_ind' (o : op) : P o :=
    match o with
    | Makedirs => HM
    | Remove p => HRm p
    | Rename a b => HRn a b
    | Replace a b => HRp a b
    | Write p => HW p
    | If g body =>
        HIf g body ((fix f (l : list op) : Forall P l :=
                       match l with
                       | [] => Forall_nil P
                       | x :: l' => Forall_cons x (op_ind' x) (f l')
                       end) body)
    end.
End OpInd.

Lemma run_op_If : forall (C : Type) (ab pa : C) isab cur g body s,
  run_op ab pa isab cur (If g body) s =
  if eval ab isab g s then run_ops ab pa isab cur body s else ([], true).
Proof.
  intros. cbn [run_op]. destruct (eval ab isab g s); [|reflexivity].
  revert s. induction body as [|o l IH]; intros s; [reflexivity|].
  cbn [run_ops]. cbv zeta. destruct (snd (run_op ab pa isab cur o s)); [rewrite IH|]; reflexivity.
Qed.

(* ------------------------------------------------------------------ generic list facts *)
Lemma last_in : forall (X : Type) (t : list X) (d : X), In (last t d) (d :: t).
Proof.
  induction t as [|x t IH]; intros d; [left; reflexivity|].
  destruct t as [|y t']; [right; left; reflexivity|].
  change (last (x :: y :: t') d) with (last (y :: t') d).
  specialize (IH x). change (last (y :: t') d) with (last (y :: t') d).
  assert (E : last (y :: t') d = last (y :: t') x).
  { clear. revert y. induction t' as [|z t'' IH']; intros y; [reflexivity|].
    change (last (y :: z :: t'') d) with (last (z :: t'') d).
    change (last (y :: z :: t'') x) with (last (z :: t'') x). apply IH'. }
  rewrite E. right. exact IH.
Qed.

Lemma firstn_incl : forall (X : Type) c (t : list X) x, In x (firstn c t) -> In x t.
Proof.
  induction c as [|c IH]; intros [|y t] x H; simpl in *; try contradiction.
  destruct H as [H|H]; [left; exact H|right; apply IH; exact H].
Qed.

Lemma last_firstn_in : forall (X : Type) c (t : list X) d, In (last (firstn c t) d) (d :: t).
Proof.
  intros. destruct (last_in X (firstn c t) d) as [H|H]; [left; exact H|right].
  eapply firstn_incl; exact H.
Qed.

Lemma Forall2_firstn : forall (X Y : Type) (Q : X -> Y -> Prop) c l1 l2,
  Forall2 Q l1 l2 -> Forall2 Q (firstn c l1) (firstn c l2).
Proof.
  induction c as [|c IH]; intros l1 l2 H; [constructor|].
  destruct H; simpl; constructor; auto.
Qed.

Lemma Forall2_last : forall (X Y : Type) (Q : X -> Y -> Prop) l1 l2,
  Forall2 Q l1 l2 -> forall d1 d2, Q d1 d2 -> Q (last l1 d1) (last l2 d2).
Proof.
  induction 1 as [|x y l1 l2 Hxy H IH]; intros d1 d2 Hd; [exact Hd|].
  destruct H as [|x' y' l1' l2' Hxy' H']; [exact Hxy|].
  change (Q (last (x' :: l1') d1) (last (y' :: l2') d2)).
  apply IH. exact Hd.
Qed.

Lemma Forall2_map_r : forall (X Y Z : Type) (Q : X -> Y -> Prop) (Q' : X -> Z -> Prop) (f : Y -> Z),
  (forall x y, Q x y -> Q' x (f y)) -> forall l1 l2, Forall2 Q l1 l2 -> Forall2 Q' l1 (map f l2).
Proof. induction 2; simpl; constructor; auto. Qed.

(* ------------------------------------------------------------------ Part 1: parametricity *)
Section Param.
  Variables (A B : Type) (absA partA : A) (isA : A -> bool) (absB partB : B) (isB : B -> bool).
  Variable R : A -> B -> Prop.
  Hypothesis Rabs : R absA absB.
  Hypothesis Rpart : R partA partB.
  Hypothesis Ris : forall x y, R x y -> isA x = isB y.

  Lemma get_rel : forall s a, Forall2 R s a -> forall p, R (get absA s p) (get absB a p).
  Proof.
    unfold get. induction 1 as [|x y s a Hxy H IH]; intros p.
    - destruct p; exact Rabs.
    - destruct p; simpl; [exact Hxy|apply IH].
  Qed.

  Lemma set_rel : forall s a, Forall2 R s a -> forall p c d, R c d -> Forall2 R (set s p c) (set a p d).
  Proof.
    induction 1 as [|x y s a Hxy H IH]; intros p c d Hcd; [constructor|].
    destruct p; simpl; constructor; auto.
  Qed.

  Lemma eval_rel : forall g s a, Forall2 R s a -> eval absA isA g s = eval absB isB g a.
  Proof.
    intros g s a H. destruct g; simpl; rewrite (Ris _ _ (get_rel s a H p)); reflexivity.
  Qed.

  Definition rel_res (r1 : list (list A) * bool) (r2 : list (list B) * bool) : Prop :=
    Forall2 (Forall2 R) (fst r1) (fst r2) /\ snd r1 = snd r2.

  Lemma move_rel : forall s a, Forall2 R s a -> forall p q,
    rel_res (move A absA isA s p q) (move B absB isB a p q).
  Proof.
    intros s a H p q. unfold move.
    rewrite (Ris _ _ (get_rel s a H p)).
    destruct (isB (get absB a p)); [split; [constructor|reflexivity]|].
    destruct (Nat.eqb p q); split; try reflexivity; simpl.
    - constructor; [exact H|constructor].
    - constructor; [|constructor]. apply set_rel; [|exact Rabs].
      apply set_rel; [exact H|apply get_rel; exact H].
  Qed.

  Section WithCur.
    Variables (cA : A) (cB : B).
    Hypothesis Rcur : R cA cB.

    Definition op_ok (o : op) : Prop :=
      forall s a, Forall2 R s a ->
        rel_res (run_op absA partA isA cA o s) (run_op absB partB isB cB o a).

    Lemma run_ops_rel_aux : forall body, Forall op_ok body ->
      forall s a, Forall2 R s a ->
        rel_res (run_ops absA partA isA cA body s) (run_ops absB partB isB cB body a).
    Proof.
      induction 1 as [|o l Ho Hl IH]; intros s a H.
      - split; [constructor|reflexivity].
      - cbn [run_ops]. cbv zeta. destruct (Ho s a H) as [Ht Hb].
        remember (run_op absA partA isA cA o s) as rA eqn:EA.
        remember (run_op absB partB isB cB o a) as rB eqn:EB.
        clear EA EB. destruct rA as [tA bA], rB as [tB bB]. simpl in Ht, Hb. subst bB. simpl.
        destruct bA.
        + assert (HL : Forall2 R (last tA s) (last tB a)) by (apply Forall2_last; assumption).
          destruct (IH _ _ HL) as [Ht' Hb']. split; simpl.
          * apply Forall2_app; assumption.
          * exact Hb'.
        + split; [exact Ht|reflexivity].
    Qed.

    Lemma run_op_rel : forall o, op_ok o.
    Proof.
      induction o as [|p|p q|p q|p|g body IHb] using op_ind'; unfold op_ok; intros s a H.
      - split; simpl; [constructor; [exact H|constructor]|reflexivity].
      - cbn [run_op]. rewrite (Ris _ _ (get_rel s a H p)).
        destruct (isB (get absB a p)); split; simpl; try reflexivity; [constructor|].
        constructor; [|constructor]. apply set_rel; [exact H|exact Rabs].
      - apply move_rel; exact H.
      - apply move_rel; exact H.
      - split; [|reflexivity]. simpl.
        constructor; [apply set_rel; [exact H|exact Rpart]|].
        constructor; [apply set_rel; [exact H|exact Rcur]|constructor].
      - rewrite !run_op_If. rewrite (eval_rel g s a H).
        destruct (eval absB isB g a).
        + apply run_ops_rel_aux; assumption.
        + split; [constructor|reflexivity].
    Qed.

    Lemma run_ops_rel : forall body s a, Forall2 R s a ->
      rel_res (run_ops absA partA isA cA body s) (run_ops absB partB isB cB body a).
    Proof.
      intros body. apply run_ops_rel_aux. apply Forall_forall. intros o _. apply run_op_rel.
    Qed.
  End WithCur.
End Param.

(* ------------------------------------------------------------------ Part 2: concrete vs abstract *)

(* m = last returned attempt, n = attempt in progress *)
Inductive crel (m n : nat) : cell -> acell -> Prop :=
| cr_abs : crel m n Absent AAbs
| cr_part : crel m n Partial APart
| cr_old : forall k, k < m -> crel m n (Complete k) AOld
| cr_good : forall k, m <= k < n -> crel m n (Complete k) AGood
| cr_cur : crel m n (Complete n) ACur.

Lemma crel_is : forall m n x y, crel m n x y -> c_is_absent x = a_is_absent y.
Proof. destruct 1; reflexivity. Qed.

Lemma crel_crash : forall m n x y, m <= n -> crel m n x y -> crel m (S n) x (relabel_crash y).
Proof.
  intros m n x y Hmn H. destruct H; simpl; try constructor; lia.
Qed.

Lemma crel_fin : forall m n x y, m <= n -> crel m n x y -> crel n (S n) x (relabel_fin y).
Proof.
  intros m n x y Hmn H. destruct H; simpl; try constructor; lia.
Qed.

Definition srel (st : hstate) (x : astate) : Prop :=
  Forall2 (crel (h_fin st) (h_next st)) (h_fs st) (fst x) /\
  snd x = negb (Nat.eqb (h_fin st) 0) /\
  h_fin st < h_next st.

Lemma run_sim : forall proto st x, srel st x ->
  Forall2 (Forall2 (crel (h_fin st) (h_next st)))
          (fst (crun (h_next st) proto (h_fs st))) (fst (arun proto (fst x))) /\
  snd (crun (h_next st) proto (h_fs st)) = aok proto x.
Proof.
  intros proto st x (Hfs & _ & _). unfold crun, arun, aok.
  apply (run_ops_rel cell acell Absent Partial c_is_absent AAbs APart a_is_absent
                     (crel (h_fin st) (h_next st))); try constructor.
  - apply crel_is.
  - exact Hfs.
Qed.

Lemma step_sim : forall proto st x a, srel st x ->
  exists y, In y (asucc proto x) /\ srel (step_attempt proto st a) y.
Proof.
  intros proto st x a Hrel.
  destruct (run_sim proto st x Hrel) as [Ht Hb].
  destruct Hrel as (Hfs & Hf & Hlt).
  unfold aok in Hb.
  (* the "did not return" successor, for any related pair of intermediate states *)
  assert (Crash : forall L L', Forall2 (crel (h_fin st) (h_next st)) L L' ->
                    In L' (fst x :: fst (arun proto (fst x))) ->
                    exists y, In y (asucc proto x) /\
                              srel (mk_hstate L (S (h_next st)) (h_fin st)) y).
  { intros L L' HL Hin. exists (map relabel_crash L', snd x). split.
    - unfold asucc. apply in_or_app. right.
      apply (in_map (fun y => (map relabel_crash y, snd x))). exact Hin.
    - split; [|split]; simpl; [|exact Hf|lia].
      eapply Forall2_map_r; [|exact HL]. intros c d Hcd. apply crel_crash; [lia|exact Hcd]. }
  destruct a as [c|].
  - (* killed after c actions *)
    unfold step_attempt.
    apply (Crash _ (last (firstn c (fst (arun proto (fst x)))) (fst x))).
    + apply Forall2_last; [apply Forall2_firstn; exact Ht|exact Hfs].
    + apply last_firstn_in.
  - unfold step_attempt.
    assert (HL : Forall2 (crel (h_fin st) (h_next st))
                   (last (fst (crun (h_next st) proto (h_fs st))) (h_fs st))
                   (last (fst (arun proto (fst x))) (fst x)))
      by (apply Forall2_last; assumption).
    destruct (snd (crun (h_next st) proto (h_fs st))) eqn:E.
    + exists (map relabel_fin (last (fst (arun proto (fst x))) (fst x)), true). split.
      * unfold asucc. rewrite <- Hb. left. reflexivity.
      * split; [|split]; simpl; [| |lia].
        -- eapply Forall2_map_r; [|exact HL]. intros c d Hcd. apply crel_fin with (m := h_fin st); [lia|exact Hcd].
        -- destruct (h_next st); [lia|reflexivity].
    + apply (Crash _ (last (fst (arun proto (fst x))) (fst x)) HL). apply last_in.
Qed.

(* boolean equalities *)
Lemma acell_eqb_eq : forall x y, acell_eqb x y = true -> x = y.
Proof. destruct x, y; simpl; intros H; try reflexivity; discriminate. Qed.

Lemma alist_eqb_eq : forall x y, alist_eqb x y = true -> x = y.
Proof.
  induction x as [|a x IH]; destruct y as [|b y]; simpl; intros H; try reflexivity; try discriminate.
  apply andb_true_iff in H. destruct H as [H1 H2].
  rewrite (acell_eqb_eq _ _ H1), (IH _ H2). reflexivity.
Qed.

Lemma astate_eqb_eq : forall x y, astate_eqb x y = true -> x = y.
Proof.
  intros [a f] [b g]. unfold astate_eqb. simpl. intros H.
  apply andb_true_iff in H. destruct H as [H1 H2].
  rewrite (alist_eqb_eq _ _ H1), (eqb_prop _ _ H2). reflexivity.
Qed.

Lemma amem_In : forall x l, amem x l = true -> In x l.
Proof.
  intros x l H. unfold amem in H. apply existsb_exists in H. destruct H as (y & Hy & E).
  rewrite (astate_eqb_eq _ _ E). exact Hy.
Qed.

Lemma init_srel : forall np, srel (init_state np) (ainit np).
Proof.
  intros np. split; [|split]; simpl; [|reflexivity|lia].
  induction np; simpl; constructor; [constructor|assumption].
Qed.

(* every history ends in a state described by a member of any closed candidate invariant *)
Lemma history_in_inv : forall proto np I, inv_closed proto np I = true ->
  forall h st x, In x I -> srel st x ->
  exists y, In y I /\ srel (run_history proto h st) y.
Proof.
  intros proto np I HI. unfold inv_closed in HI. apply andb_true_iff in HI. destruct HI as [_ Hcl].
  rewrite forallb_forall in Hcl.
  induction h as [|a h IH]; intros st x Hx Hrel.
  - exists x. split; assumption.
  - simpl. destruct (step_sim proto st x a Hrel) as (y & Hy & Hrel').
    apply (IH _ y); [|exact Hrel'].
    apply amem_In. specialize (Hcl x Hx). rewrite forallb_forall in Hcl. apply Hcl. exact Hy.
Qed.

Lemma history_in_inv0 : forall proto np I, inv_closed proto np I = true ->
  forall h, exists y, In y I /\ srel (run_history proto h (init_state np)) y.
Proof.
  intros proto np I HI h. apply (history_in_inv proto np I HI h _ (ainit np)).
  - unfold inv_closed in HI. apply andb_true_iff in HI. apply amem_In. apply HI.
  - apply init_srel.
Qed.

Lemma asafe_safe : forall W st x, srel st x -> asafe W x = true -> safe W st.
Proof.
  intros W st x (Hfs & Hf & Hlt) H. unfold asafe in H. apply orb_true_iff in H. destruct H as [H|H].
  - left. rewrite Hf in H. rewrite negb_involutive in H. apply Nat.eqb_eq. exact H.
  - right. apply existsb_exists in H. destruct H as (p & Hp & Hg).
    pose proof (get_rel cell acell Absent AAbs _ (cr_abs _ _) _ _ Hfs p) as Hc.
    remember (get Absent (h_fs st) p) as c eqn:Ec. remember (get AAbs (fst x) p) as d eqn:Ed.
    destruct Hc; try discriminate. exists p, k. auto.
Qed.

(* soundness of the model checker *)
Lemma check_safe_inv_sound : forall proto np W I, check_safe_inv proto np W I = true ->
  forall h, safe W (run_history proto h (init_state np)).
Proof.
  intros proto np W I H h. unfold check_safe_inv in H. apply andb_true_iff in H. destruct H as [Hc Hs].
  destruct (history_in_inv0 proto np I Hc h) as (y & Hy & Hrel).
  apply (asafe_safe W _ y Hrel). unfold inv_safe in Hs. rewrite forallb_forall in Hs. apply Hs. exact Hy.
Qed.

Lemma no_raise_from : forall proto np I, inv_closed proto np I = true -> inv_noraise proto I = true ->
  forall h st x, In x I -> srel st x -> no_raise proto h st = true.
Proof.
  intros proto np I HI Hok. pose proof HI as HI'.
  unfold inv_closed in HI. apply andb_true_iff in HI. destruct HI as [_ Hcl].
  rewrite forallb_forall in Hcl. unfold inv_noraise in Hok. rewrite forallb_forall in Hok.
  induction h as [|a h IH]; intros st x Hx Hrel; [reflexivity|].
  simpl. destruct (run_sim proto st x Hrel) as [_ Hb]. rewrite Hb, (Hok x Hx). simpl.
  destruct (step_sim proto st x a Hrel) as (y & Hy & Hrel').
  apply (IH _ y); [|exact Hrel'].
  apply amem_In. specialize (Hcl x Hx). rewrite forallb_forall in Hcl. apply Hcl. exact Hy.
Qed.

Lemma check_noraise_inv_sound : forall proto np I, check_noraise_inv proto np I = true ->
  forall h, no_raise proto h (init_state np) = true.
Proof.
  intros proto np I H h. unfold check_noraise_inv in H. apply andb_true_iff in H. destruct H as [Hc Hs].
  apply (no_raise_from proto np I Hc Hs h _ (ainit np)).
  - unfold inv_closed in Hc. apply andb_true_iff in Hc. apply amem_In. apply Hc.
  - apply init_srel.
Qed.

(* a job that is never killed before attempt j+1: counters *)
Lemma run_none_counters : forall proto j st, no_raise proto (repeat None j) st = true ->
  h_next (run_history proto (repeat None j) st) = j + h_next st /\
  (0 < j -> h_fin (run_history proto (repeat None j) st) = j + h_next st - 1).
Proof.
  intros proto. induction j as [|j IH]; intros st H.
  - simpl. split; [reflexivity|lia].
  - cbn [repeat no_raise] in H. apply andb_true_iff in H. destruct H as [Hb H].
    change (run_history proto (repeat None (S j)) st)
      with (run_history proto (repeat None j) (step_attempt proto st None)).
    destruct (IH _ H) as [Hn Hf].
    assert (En : h_next (step_attempt proto st None) = S (h_next st)) by reflexivity.
    assert (Ef : h_fin (step_attempt proto st None) = h_next st)
      by (unfold step_attempt; rewrite Hb; reflexivity).
    split; [rewrite Hn, En; lia|]. intros _.
    destruct j as [|j'].
    + cbn [repeat run_history fold_left]. rewrite Ef. lia.
    + rewrite Hf, En; lia.
Qed.

Lemma no_raise_app : forall proto h1 h2 st, no_raise proto (h1 ++ h2) st = true -> no_raise proto h1 st = true.
Proof.
  intros proto. induction h1 as [|a h1 IH]; intros h2 st H; [reflexivity|].
  simpl in *. apply andb_true_iff in H. destruct H as [Hb H]. rewrite Hb. simpl. eapply IH. exact H.
Qed.

Theorem single_run_sound : forall proto np W I,
  check_safe_inv proto np W I = true -> check_noraise_inv proto np I = true ->
  forall j c, 0 < j ->
    exists p k, In p W /\
      get Absent (h_fs (run_history proto (repeat None j ++ [Some c]) (init_state np))) p = Complete k /\
      (k = j \/ k = S j).
Proof.
  intros proto np W I Hs Hr j c Hj.
  pose proof (check_safe_inv_sound proto np W I Hs (repeat None j ++ [Some c])) as Hsafe.
  pose proof (check_noraise_inv_sound proto np I Hr (repeat None j ++ [Some c])) as Hnr.
  apply no_raise_app in Hnr.
  destruct (run_none_counters proto j _ Hnr) as [Hn Hf]. specialize (Hf Hj).
  unfold run_history, attempt in *. rewrite fold_left_app in Hsafe |- *. cbn [fold_left] in Hsafe |- *.
  remember (fold_left (step_attempt proto) (repeat None j) (init_state np)) as st eqn:Est. clear Est.
  cbn [init_state h_next] in Hn, Hf.
  unfold safe in Hsafe. cbn [step_attempt h_fs h_next h_fin] in Hsafe |- *.
  destruct Hsafe as [H0|(p & k & Hp & Hg & Hk)]; [lia|].
  exists p, k. split; [exact Hp|]. split; [exact Hg|]. lia.
Qed.

(* ------------------------------------------------------------------ Part 3: the generated protocols *)

Lemma protocols_checked :
  forallb (fun np => check_safe_inv (snd np) npaths watched (reach (snd np) npaths) &&
                     check_noraise_inv (snd np) npaths (reach (snd np) npaths)) protocols = true.
Proof. vm_compute. reflexivity. Qed.

Lemma protocols_nonempty : protocols <> [].
Proof. discriminate. Qed.

Theorem restart_safe_gen : forall name proto, In (name, proto) protocols ->
  forall h, safe watched (run_history proto h (init_state npaths)).
Proof.
  intros name proto Hin. pose proof protocols_checked as H. rewrite forallb_forall in H.
  specialize (H _ Hin). cbn beta iota delta [snd] in H. apply andb_true_iff in H.
  apply (check_safe_inv_sound proto npaths watched (reach proto npaths)). apply H.
Qed.

Theorem never_raises_gen : forall name proto, In (name, proto) protocols ->
  forall h, no_raise proto h (init_state npaths) = true.
Proof.
  intros name proto Hin. pose proof protocols_checked as H. rewrite forallb_forall in H.
  specialize (H _ Hin). cbn beta iota delta [snd] in H. apply andb_true_iff in H.
  apply (check_noraise_inv_sound proto npaths (reach proto npaths)). apply H.
Qed.

Theorem single_run_safe_gen : forall name proto, In (name, proto) protocols ->
  forall j c, 0 < j ->
    exists p k, In p watched /\
      get Absent (h_fs (run_history proto (repeat None j ++ [Some c]) (init_state npaths))) p = Complete k /\
      (k = j \/ k = S j).
Proof.
  intros name proto Hin. pose proof protocols_checked as H. rewrite forallb_forall in H.
  specialize (H _ Hin). cbn beta iota delta [snd] in H. apply andb_true_iff in H.
  apply (single_run_sound proto npaths watched (reach proto npaths)); apply H.
Qed.

(* safe_b reflects safe (used for the examples and by the harness) *)
Lemma safe_b_false : forall W st, safe_b W st = false -> ~ safe W st.
Proof.
  intros W st H Hs. unfold safe_b in H. apply orb_false_iff in H. destruct H as [H0 He].
  destruct Hs as [Hs|(p & k & Hp & Hg & Hk)].
  - apply Nat.eqb_neq in H0. contradiction.
  - assert (existsb (fun p => match get Absent (h_fs st) p with
                              | Complete k => Nat.leb (h_fin st) k && Nat.ltb k (h_next st)
                              | _ => false end) W = true).
    { apply existsb_exists. exists p. split; [exact Hp|]. rewrite Hg.
      apply andb_true_iff. split; [apply Nat.leb_le|apply Nat.ltb_lt]; lia. }
    congruence.
Qed.

(* The protocol of the snapshot before commit d93ad39 (np.savez directly onto the result file),
   written out by hand ONLY to show that the model separates it from the generated one. *)
Definition proto_inplace : list op :=
  [Makedirs; If (GExists 0) [If (GExists 1) [Remove 1]; Rename 0 1]; Write 0; If (GExists 1) [Remove 1]].

Theorem inplace_restart_refuted :
  exists h, ~ safe [0; 1] (run_history proto_inplace h (init_state 2)).
Proof. exists [None; Some 3; Some 2]. apply safe_b_false. vm_compute. reflexivity. Qed.

Theorem inplace_single_run_ok : check_safe proto_inplace 2 [0; 1] = false /\
  forall j c, j <= 6 -> c <= 8 ->
    safe_b [0; 1] (run_history proto_inplace (repeat None j ++ [Some c]) (init_state 2)) = true.
Proof.
  split; [vm_compute; reflexivity|].
  intros j c Hj Hc.
  assert (H : forallb (fun j => forallb (fun c =>
             safe_b [0; 1] (run_history proto_inplace (repeat None j ++ [Some c]) (init_state 2)))
             (seq 0 9)) (seq 0 7) = true) by (vm_compute; reflexivity).
  rewrite forallb_forall in H. specialize (H j). rewrite forallb_forall in H.
  apply H; apply in_seq; lia.
Qed.

(* ------------------------------------------------------------------ serialisation keys *)
From RV Require Import Gen.DumpKeys.

Lemma fam_covered_sound : forall ws r, fam_covered ws r = true ->
  forall n k, In k (expand n r) -> In k (keys n ws).
Proof.
  intros ws r H n k Hk. unfold keys. apply in_flat_map.
  destruct r as [s|p off]; simpl in H; apply existsb_exists in H; destruct H as (w & Hw & E).
  - destruct w as [s'|]; [|discriminate]. apply String.eqb_eq in E. subst s'.
    exists (FConst s). split; [exact Hw|exact Hk].
  - destruct w as [|p' off']; [discriminate|]. apply andb_true_iff in E. destruct E as [E1 E2].
    apply String.eqb_eq in E1. subst p'. apply Nat.leb_le in E2.
    exists (FIdx p off'). split; [exact Hw|]. simpl in *.
    apply in_map_iff in Hk. destruct Hk as (i & Hi & Hin). apply in_map_iff. exists i. split; [exact Hi|].
    apply in_seq in Hin. apply in_seq. lia.
Qed.

Lemma covers_sound : forall ws rs, covers ws rs = true ->
  forall n k, In k (keys n rs) -> In k (keys n ws).
Proof.
  intros ws rs H n k Hk. unfold covers in H. rewrite forallb_forall in H.
  unfold keys in Hk. apply in_flat_map in Hk. destruct Hk as (r & Hr & Hk).
  exact (fam_covered_sound ws r (H r Hr) n k Hk).
Qed.

Lemma kinds_checked : forallb kind_ok kinds = true.
Proof. vm_compute. reflexivity. Qed.

Theorem keys_cover_gen : forall kind ver ws rs, In (kind, ver, ws, rs) kinds ->
  exists rs', rs = Some rs' /\ forall n k, In k (keys n rs') -> In k (keys n ws).
Proof.
  intros kind ver ws rs Hin. pose proof kinds_checked as H. rewrite forallb_forall in H.
  specialize (H _ Hin). unfold kind_ok in H. cbn [fst snd] in H.
  destruct rs as [rs'|]; [|discriminate]. exists rs'. split; [reflexivity|]. apply covers_sound. exact H.
Qed.

(* ------------------------------------------------------------------ field-level round trip *)
Local Open Scope list_scope.
Section SerProofs.
  Variable P : Type.
  Notation value := (value P).
  Notation obj := (obj P).

  Lemma lookup_app : forall k (a b : list (key * value)),
    lookup k (a ++ b) = match lookup k b with Some x => Some x | None => lookup k a end.
  Proof.
    intros k a b. induction a as [|[k' v] a IH]; simpl.
    - destruct (lookup k b); reflexivity.
    - rewrite IH. destruct (lookup k b); [reflexivity|]. reflexivity.
  Qed.

  Lemma lookup_fam_gen : forall pre pre' i (l : list P) s,
    lookup (KIdx pre i) (map (fun ip => (KIdx pre' (fst ip), VPay (snd ip))) (combine (seq s (List.length l)) l)) =
    if String.eqb pre pre' then (if Nat.leb s i then option_map VPay (nth_error l (i - s)) else None) else None.
  Proof.
    intros pre pre' i l. induction l as [|x l IH]; intros s.
    - cbn [List.length seq combine map lookup]. destruct (String.eqb pre pre'); [|reflexivity].
      destruct (Nat.leb s i); [|reflexivity]. destruct (i - s); reflexivity.
    - cbn [List.length seq combine map lookup fst snd]. rewrite IH. cbn [key_eqb].
      destruct (String.eqb pre pre') eqn:E; cbn [andb]; [|reflexivity].
      destruct (Nat.leb_spec (S s) i) as [H1|H1]; destruct (Nat.leb_spec s i) as [H2|H2];
        destruct (Nat.eqb_spec i s) as [H3|H3]; try lia.
      + replace (i - s) with (S (i - S s)) by lia. cbn [nth_error].
        destruct (nth_error l (i - S s)); reflexivity.
      + subst i. rewrite Nat.sub_diag. reflexivity.
      + reflexivity.
  Qed.

  Lemma lookup_emit_fam : forall pre pre' i (l : list P),
    lookup (KIdx pre i) (emit_fam pre' l) = if String.eqb pre pre' then option_map VPay (nth_error l i) else None.
  Proof.
    intros. unfold emit_fam. rewrite lookup_fam_gen. simpl. rewrite Nat.sub_0_r. reflexivity.
  Qed.

  Lemma lookup_const_fam : forall k pre (l : list P), lookup (KConst k) (emit_fam pre l) = None.
  Proof.
    intros k pre l. unfold emit_fam. generalize (seq 0 (List.length l)). intros sq. revert sq.
    induction l as [|x l IH]; intros [|j sq]; simpl; try reflexivity. rewrite IH. reflexivity.
  Qed.

  Definition cval (m : obj) (e : dentry) : value :=
    match e with
    | DConstStr _ s => VStr s
    | DNSites _ => VNat (List.length (o_tensors m))
    | DScalar _ a => o_scalar m a
    | DLabelList _ => VList (o_labels m)
    | _ => VStr EmptyString
    end.

  Lemma lookup_const_emit : forall (m : obj) e k,
    lookup (KConst k) (emit m e) = if owns_const e k then Some (cval m e) else None.
  Proof.
    intros m e k. destruct e; simpl; try (destruct (String.eqb k k0); reflexivity);
      apply lookup_const_fam.
  Qed.

  Lemma lookup_const_dump : forall (m : obj) dm k,
    lookup (KConst k) (dump dm m) = option_map (cval m) (writer_const dm k).
  Proof.
    intros m dm k. induction dm as [|e dm IH]; [reflexivity|].
    unfold dump in *. cbn [flat_map writer_const]. rewrite lookup_app, IH.
    destruct (writer_const dm k); [reflexivity|]. simpl. rewrite lookup_const_emit.
    destruct (owns_const e k); reflexivity.
  Qed.

  Lemma lookup_idx_emit_other : forall (m : obj) e pre i, owns_fam e pre = false -> lookup (KIdx pre i) (emit m e) = None.
  Proof.
    intros m e pre i H. destruct e; simpl in *; try reflexivity; rewrite lookup_emit_fam, H; reflexivity.
  Qed.

  Lemma lookup_idx_dump_none : forall (m : obj) dm pre i, fam_writers dm pre = [] -> lookup (KIdx pre i) (dump dm m) = None.
  Proof.
    intros m dm pre i. induction dm as [|e dm IH]; intros H; [reflexivity|].
    unfold fam_writers in *. cbn [filter] in H. unfold dump in *. cbn [flat_map]. rewrite lookup_app.
    destruct (owns_fam e pre) eqn:E; [discriminate|]. rewrite (IH H). apply lookup_idx_emit_other. exact E.
  Qed.

  Lemma lookup_idx_dump : forall (m : obj) dm pre i w, fam_writers dm pre = [w] ->
    lookup (KIdx pre i) (dump dm m) = lookup (KIdx pre i) (emit m w).
  Proof.
    intros m dm pre i w. induction dm as [|e dm IH]; intros H; [discriminate|].
    unfold fam_writers in *. cbn [filter] in H. unfold dump in *. cbn [flat_map]. rewrite lookup_app.
    destruct (owns_fam e pre) eqn:E.
    - injection H as H1 H2. subst e. fold (fam_writers dm pre) in H2.
      pose proof (lookup_idx_dump_none m dm pre i H2) as Hn. unfold dump in Hn. rewrite Hn. reflexivity.
    - rewrite (IH H). rewrite (lookup_idx_emit_other m e pre i E).
      destruct (lookup (KIdx pre i) (emit m w)); reflexivity.
  Qed.

  Lemma mapM_seq : forall (f : nat -> option P) (l : list P) s,
    (forall i, i < List.length l -> f (s + i) = nth_error l i) -> mapM f (seq s (List.length l)) = Some l.
  Proof.
    intros f l. induction l as [|x l IH]; intros s H; [reflexivity|].
    simpl. pose proof (H 0 ltac:(simpl; lia)) as H0. rewrite Nat.add_0_r in H0. simpl in H0. rewrite H0. simpl.
    rewrite IH; [reflexivity|]. intros i Hi. replace (S s + i) with (s + S i) by lia. apply (H (S i)). simpl. lia.
  Qed.

  Definition wf (lm : list lentry) (loff : nat) (m : obj) : Prop :=
    List.length (o_labels m) = List.length (o_tensors m) + loff /\
    forall a k c, In (LScalar a k c) lm -> conv_apply c (o_scalar m a) = Some (o_scalar m a).

  Section Fixed.
    Variables (dm : list dentry) (lm0 : list lentry) (loff : nat) (m : obj).
    Hypothesis Hwf : wf lm0 loff m.

    Let d := dump dm m.
    Let n := List.length (o_tensors m).

    Lemma versions_ok_dump : forall lm, forallb (lentry_ok dm loff) lm = true -> versions_ok P lm d = true.
    Proof.
      induction lm as [|e lm IH]; intros H; [reflexivity|].
      cbn [forallb] in H. apply andb_true_iff in H. destruct H as [He H].
      destruct e; cbn [versions_ok]; try (apply IH; exact H).
      unfold d. rewrite lookup_const_dump. cbn [lentry_ok] in He.
      destruct (writer_const dm k) as [[]|]; try discriminate. simpl. rewrite He. simpl. apply IH. exact H.
    Qed.

    Lemma load_nsites_dump : forall lm, forallb (lentry_ok dm loff) lm = true -> has_nsites lm = true ->
      load_nsites P lm d = Some n.
    Proof.
      induction lm as [|e lm IH]; intros H Hh; [discriminate|].
      cbn [forallb] in H. apply andb_true_iff in H. destruct H as [He H].
      unfold has_nsites in *. cbn [existsb] in Hh.
      destruct e; cbn [load_nsites]; try (apply IH; [exact H|exact Hh]).
      unfold read, d. rewrite lookup_const_dump. cbn [lentry_ok] in He.
      destruct (writer_const dm k) as [[]|]; try discriminate. simpl. destruct c; try discriminate; reflexivity.
    Qed.

    Lemma load_tensors_dump : forall lm, forallb (lentry_ok dm loff) lm = true -> has_tensors lm = true ->
      load_tensors P lm d n = Some (o_tensors m).
    Proof.
      induction lm as [|e lm IH]; intros H Hh; [discriminate|].
      cbn [forallb] in H. apply andb_true_iff in H. destruct H as [He H].
      unfold has_tensors in *. cbn [existsb] in Hh.
      destruct e; cbn [load_tensors]; try (apply IH; [exact H|exact Hh]).
      cbn [lentry_ok] in He. destruct (fam_writers dm pre) as [|w [|w' ws]] eqn:Ew; try discriminate;
        destruct w; try discriminate.
      assert (Ep : pre0 = pre).
      { assert (Hin : In (DTensorFam pre0) (fam_writers dm pre)) by (rewrite Ew; left; reflexivity).
        unfold fam_writers in Hin. apply filter_In in Hin. destruct Hin as [_ Ho]. simpl in Ho.
        apply String.eqb_eq in Ho. symmetry. exact Ho. }
      subst pre0. unfold n. apply mapM_seq. intros i Hi. simpl.
      unfold d. rewrite (lookup_idx_dump m dm pre i _ Ew). cbn [emit]. rewrite lookup_emit_fam, String.eqb_refl.
      destruct (nth_error (o_tensors m) i); reflexivity. 
    Qed.

    Lemma firstn_labels : firstn (n + loff) (o_labels m) = o_labels m.
    Proof. destruct Hwf as [Hl _]. apply firstn_all2. unfold n. lia. Qed.

    Lemma load_labels_dump : forall lm, forallb (lentry_ok dm loff) lm = true -> has_labels lm = true ->
      load_labels P lm d n = Some (o_labels m).
    Proof.
      induction lm as [|e lm IH]; intros H Hh; [discriminate|].
      cbn [forallb] in H. apply andb_true_iff in H. destruct H as [He H].
      unfold has_labels in *. cbn [existsb] in Hh.
      destruct e; cbn [load_labels]; try (apply IH; [exact H|exact Hh]).
      - (* whole list under one key *)
        unfold read, d. rewrite lookup_const_dump. cbn [lentry_ok] in He.
        destruct (writer_const dm k) as [[]|]; try discriminate. simpl. destruct c; try discriminate. reflexivity.
      - (* one key per bond / node *)
        cbn [lentry_ok] in He. destruct (fam_writers dm pre) as [|w [|w' ws]] eqn:Ew; try discriminate;
          destruct w; try discriminate.
        apply andb_true_iff in He. destruct He as [He Hc]. apply andb_true_iff in He. destruct He as [E1 E2].
        apply Nat.eqb_eq in E1. apply Nat.eqb_eq in E2. subst off0. subst off.
        assert (Ep : pre0 = pre).
        { assert (Hin : In (DLabelFam pre0 loff) (fam_writers dm pre)) by (rewrite Ew; left; reflexivity).
          unfold fam_writers in Hin. apply filter_In in Hin. destruct Hin as [_ Ho]. simpl in Ho.
          apply String.eqb_eq in Ho. symmetry. exact Ho. }
        subst pre0. destruct Hwf as [Hl _]. fold n in Hl. rewrite <- Hl. apply mapM_seq. intros i Hi. simpl.
        unfold read, d. rewrite (lookup_idx_dump m dm pre i _ Ew). cbn [emit]. fold n. rewrite firstn_labels.
        rewrite lookup_emit_fam, String.eqb_refl.
        destruct (nth_error (o_labels m) i); [|reflexivity]. simpl. destruct c; try discriminate; reflexivity.
    Qed.

    Lemma load_scalars_dump : forall lm, forallb (lentry_ok dm loff) lm = true -> incl lm lm0 ->
      exists sc, load_scalars P lm d = Some sc /\ map fst sc = scalar_attrs lm /\
                 Forall (fun av => snd av = o_scalar m (fst av)) sc.
    Proof.
      induction lm as [|e lm IH]; intros H Hi.
      - exists []. repeat split; constructor.
      - cbn [forallb] in H. apply andb_true_iff in H. destruct H as [He H].
        assert (Hi' : incl lm lm0) by (intros x Hx; apply Hi; right; exact Hx).
        destruct (IH H Hi') as (sc & Hsc & Hf & Hv).
        destruct e; cbn [load_scalars scalar_attrs flat_map]; try (exists sc; repeat split; assumption).
        cbn [lentry_ok] in He. unfold read. replace (lookup (KConst k) d) with (option_map (cval m) (writer_const dm k))
          by (unfold d; symmetry; apply lookup_const_dump).
        destruct (writer_const dm k) as [[]|]; try discriminate.
        apply andb_true_iff in He. destruct He as [Ea Hc]. apply String.eqb_eq in Ea. subst a0.
        cbn [option_map bind cval]. destruct Hwf as [_ Hconv]. rewrite (Hconv a k c (Hi _ (or_introl eq_refl))).
        cbn [bind]. rewrite Hsc. cbn [bind].
        exists ((a, o_scalar m a) :: sc). split; [reflexivity|]. split; [simpl; rewrite Hf; reflexivity|].
        constructor; [reflexivity|exact Hv].
    Qed.
  End Fixed.

  Lemma assoc_found : forall (m : obj) sc a, In a (map fst sc) ->
    Forall (fun av : string * value => snd av = o_scalar m (fst av)) sc -> assoc P a sc = Some (o_scalar m a).
  Proof.
    intros m sc a. induction sc as [|[b v] sc IH]; intros Hin Hf; [contradiction|].
    inversion Hf as [|x l Hx Hl]; subst. simpl in *. destruct (String.eqb a b) eqn:E.
    - apply String.eqb_eq in E. subst b. rewrite Hx. reflexivity.
    - destruct Hin as [Hb|Hin]; [subst b; rewrite String.eqb_refl in E; discriminate|]. apply IH; assumption.
  Qed.

  Theorem load_dump_fields_gen : forall dm lm loff dflt, maps_ok dm lm loff = true ->
    forall m : obj, wf lm loff m ->
    exists m', load lm dflt (dump dm m) = Some m' /\
      o_tensors m' = o_tensors m /\ o_labels m' = o_labels m /\
      forall a, In a (scalar_attrs lm) -> o_scalar m' a = o_scalar m a.
  Proof.
    intros dm lm loff dflt Hok m Hwf. unfold maps_ok in Hok.
    repeat (apply andb_true_iff in Hok; destruct Hok as [Hok ?]).
    destruct (load_scalars_dump dm lm loff m Hwf lm Hok (incl_refl _)) as (sc & Hsc & Hf & Hv).
    eexists. unfold load.
    rewrite (versions_ok_dump dm loff m lm Hok).
    rewrite (load_nsites_dump dm loff m lm Hok) by assumption. cbn [bind].
    rewrite (load_tensors_dump dm loff m lm Hok) by assumption. cbn [bind].
    rewrite (load_labels_dump dm lm loff m Hwf lm Hok) by assumption. cbn [bind].
    rewrite Hsc. cbn [bind]. split; [reflexivity|]. cbn [o_tensors o_labels o_scalar].
    split; [reflexivity|]. split; [reflexivity|].
    intros a Ha. rewrite <- Hf in Ha. rewrite (assoc_found m sc a Ha Hv). reflexivity.
  Qed.
End SerProofs.

(* ------------------------------------------------------------------ generated field maps *)
Lemma field_kinds_checked :
  forallb (fun k => maps_ok (snd (fst (fst k))) (snd (fst k)) (snd k)) field_kinds = true.
Proof. vm_compute. reflexivity. Qed.

Theorem fields_roundtrip_gen : forall kind dm lm loff, In (kind, dm, lm, loff) field_kinds ->
  forall (P : Type) (dflt : string -> value P) (m : obj P), wf P lm loff m ->
  exists m', load lm dflt (dump dm m) = Some m' /\
    o_tensors m' = o_tensors m /\ o_labels m' = o_labels m /\
    forall a, In a (scalar_attrs lm) -> o_scalar m' a = o_scalar m a.
Proof.
  intros kind dm lm loff Hin P dflt m Hwf. pose proof field_kinds_checked as H. rewrite forallb_forall in H.
  specialize (H _ Hin). cbn [fst snd] in H. exact (load_dump_fields_gen P dm lm loff dflt H m Hwf).
Qed.

(* ------------------------------------------------------------------ side files *)
Lemma find_unsafe_sound : forall d proto W st h,
  find_unsafe d proto W st = Some h -> safe_b W (run_history proto h st) = false.
Proof.
  induction d as [|d IH]; intros proto W st h H; cbn [find_unsafe] in H;
    destruct (safe_b W st) eqn:E; cbn [negb] in H.
  - discriminate.
  - injection H as <-. exact E.
  - revert H. generalize (crash_points proto st). intros l. induction l as [|a l IHl]; intros H; [discriminate|].
    destruct (find_unsafe d proto W (step_attempt proto st a)) as [h'|] eqn:E'.
    + injection H as <-. change (run_history proto (a :: h') st) with (run_history proto h' (step_attempt proto st a)).
      apply IH. exact E'.
    + apply IHl. exact H.
  - injection H as <-. exact E.
Qed.

(* whatever the history, an un-killed dump leaves every side file holding the state of that very dump *)
Lemma post_inv_sound : forall proto np ps I, check_post_inv proto np ps I = true ->
  forall h p, In p ps ->
    let st := run_history proto h (init_state np) in
    cell_at Absent (h_fs (step_attempt proto st None)) p = Complete (h_next st).
Proof.
  intros proto np ps I H h p Hp st. unfold check_post_inv in H. apply andb_true_iff in H. destruct H as [Hc Hpost].
  destruct (history_in_inv0 proto np I Hc h) as (x & Hx & Hrel). fold st in Hrel.
  unfold inv_post in Hpost. rewrite forallb_forall in Hpost. specialize (Hpost x Hx). cbv zeta in Hpost.
  apply andb_true_iff in Hpost. destruct Hpost as [Hok Hcur]. rewrite forallb_forall in Hcur. specialize (Hcur p Hp).
  apply acell_eqb_eq in Hcur.
  destruct (run_sim proto st x Hrel) as [Ht _]. destruct Hrel as (Hfs & _ & _).
  assert (HL : Forall2 (crel (h_fin st) (h_next st))
                 (last (fst (crun (h_next st) proto (h_fs st))) (h_fs st))
                 (last (fst (arun proto (fst x))) (fst x))) by (apply Forall2_last; assumption).
  pose proof (get_rel cell acell Absent AAbs _ (cr_abs _ _) _ _ HL p) as Hc'.
  unfold cell_at in *. rewrite Hcur in Hc'. unfold step_attempt. cbn [h_fs].
  remember (get Absent (last (fst (crun (h_next st) proto (h_fs st))) (h_fs st)) p) as c eqn:Ec.
  remember ACur as a eqn:Ea. destruct Hc'; try discriminate. reflexivity.
Qed.

Lemma side_files_checked :
  forallb (fun s => check_post_inv (snd (fst s)) npaths (snd s) (reach (snd (fst s)) npaths)) side_files = true.
Proof. vm_compute. reflexivity. Qed.

Theorem side_file_current_after_return_gen : forall name proto ps, In (name, proto, ps) side_files ->
  forall h p, In p ps ->
    let st := run_history proto h (init_state npaths) in
    cell_at Absent (h_fs (step_attempt proto st None)) p = Complete (h_next st).
Proof.
  intros name proto ps Hin. pose proof side_files_checked as H. rewrite forallb_forall in H.
  specialize (H _ Hin). cbn [fst snd] in H. exact (post_inv_sound proto npaths ps _ H).
Qed.

(* ------------------------------------------------------------------ spill *)
Section SpillProofs.
  Variable P : Type.
  Variable nbytes : P -> nat.

  Lemma nth_set_slot_same : forall (l : list (slot P)) i s, i < List.length l -> nth_error (set_slot P l i s) i = Some s.
  Proof.
    induction l as [|x l IH]; intros [|i] s H; simpl in *; try lia; [reflexivity|]. apply IH. lia.
  Qed.

  Lemma nth_set_slot_other : forall (l : list (slot P)) i j s, i <> j -> nth_error (set_slot P l i s) j = nth_error l j.
  Proof.
    induction l as [|x l IH]; intros [|i] [|j] s H; simpl; try reflexivity; try lia. apply IH. lia.
  Qed.

  Lemma length_set_slot : forall (l : list (slot P)) i s, List.length (set_slot P l i s) = List.length l.
  Proof. induction l as [|x l IH]; intros [|i] s; simpl; try reflexivity. rewrite IH. reflexivity. Qed.

  (* reading back what was just stored, spilled or not *)
  Theorem spill_roundtrip_gen : forall limit key a (st : sstate P),
    key < List.length (s_slots st) -> getitem key (setitem nbytes limit key a st) = Some a.
  Proof.
    intros limit key a st H. unfold getitem, setitem, array2mt. cbn [s_slots s_disk].
    destruct (Nat.ltb limit (nbytes a)); cbn [fst snd]; rewrite nth_set_slot_same by exact H.
    - unfold disk_set. rewrite Nat.eqb_refl. reflexivity.
    - reflexivity.
  Qed.

  Theorem spill_inv_preserved : forall limit key a (st : sstate P),
    key < List.length (s_slots st) -> spill_inv st -> spill_inv (setitem nbytes limit key a st).
  Proof.
    intros limit key a st Hk [I1 I2].
    assert (Hold : forall f, nth_error (s_slots st) key = Some (OnDisk f) -> f = key) by (intros f Hf; apply (I1 key f Hf)).
    unfold setitem, array2mt. split; cbn [s_slots s_disk].
    - intros i f Hi. destruct (Nat.eq_dec key i) as [<-|Hne].
      + destruct (Nat.ltb limit (nbytes a)); cbn [fst snd] in *; rewrite nth_set_slot_same in Hi by exact Hk; [|discriminate].
        injection Hi as <-. split; [reflexivity|]. unfold disk_set. rewrite Nat.eqb_refl. discriminate.
      + assert (Hi' : nth_error (s_slots st) i = Some (OnDisk f)).
        { destruct (Nat.ltb limit (nbytes a)); cbn [fst snd] in Hi; rewrite nth_set_slot_other in Hi by exact Hne; exact Hi. }
        destruct (I1 i f Hi') as [-> Hd]. split; [reflexivity|].
        assert (Hd1 : (match nth_error (s_slots st) key with
                       | Some (OnDisk f0) => disk_set P (s_disk st) f0 None
                       | _ => s_disk st end) i <> None).
        { destruct (nth_error (s_slots st) key) as [[q|f0]|] eqn:Ek; try exact Hd.
          rewrite (Hold f0 eq_refl). unfold disk_set. destruct (Nat.eqb_spec i key); [lia|exact Hd]. }
        destruct (Nat.ltb limit (nbytes a)); cbn [fst snd]; [|exact Hd1].
        unfold disk_set at 1. destruct (Nat.eqb_spec i key); [lia|exact Hd1].
    - intros f Hf.
      assert (Hcase : f = key \/ (f <> key /\ s_disk st f <> None)).
      { destruct (Nat.eq_dec f key) as [->|Hne]; [left; reflexivity|right; split; [exact Hne|]].
        destruct (Nat.ltb limit (nbytes a)); cbn [fst snd] in Hf.
        - unfold disk_set at 1 in Hf. destruct (Nat.eqb_spec f key); [lia|].
          destruct (nth_error (s_slots st) key) as [[q|f0]|]; try exact Hf.
          unfold disk_set in Hf. destruct (Nat.eqb f f0); [contradiction|exact Hf].
        - destruct (nth_error (s_slots st) key) as [[q|f0]|]; try exact Hf.
          unfold disk_set in Hf. destruct (Nat.eqb f f0); [contradiction|exact Hf]. }
      destruct Hcase as [->|[Hne Hd]].
      + destruct (Nat.ltb limit (nbytes a)) eqn:El; cbn [fst snd] in *.
        * apply nth_set_slot_same. exact Hk.
        * exfalso. apply Hf. destruct (nth_error (s_slots st) key) as [[q|f0]|] eqn:Ek.
          -- destruct (s_disk st key) eqn:Ed; [|reflexivity]. assert (Hx : s_disk st key <> None) by (rewrite Ed; discriminate).
             rewrite (I2 key Hx) in Ek. discriminate.
          -- rewrite (Hold f0 eq_refl). unfold disk_set. rewrite Nat.eqb_refl. reflexivity.
          -- apply nth_error_None in Ek. lia.
      + destruct (Nat.ltb limit (nbytes a)); cbn [fst snd]; rewrite nth_set_slot_other by lia; apply I2; exact Hd.
  Qed.

  (* the other sites are not disturbed *)
  Theorem spill_other_sites_gen : forall limit key a (st : sstate P) j,
    spill_inv st -> j <> key -> getitem j (setitem nbytes limit key a st) = getitem j st.
  Proof.
    intros limit key a st j [I1 I2] Hne. unfold getitem, setitem, array2mt. cbn [s_slots s_disk].
    assert (E : forall s, nth_error (set_slot P (s_slots st) key s) j = nth_error (s_slots st) j)
      by (intros s; apply nth_set_slot_other; lia).
    destruct (Nat.ltb limit (nbytes a)); cbn [fst snd]; rewrite E;
      destruct (nth_error (s_slots st) j) as [[q|f]|] eqn:Ej; try reflexivity.
    - destruct (I1 j f Ej) as [-> _]. unfold disk_set at 1. destruct (Nat.eqb_spec j key); [lia|].
      destruct (nth_error (s_slots st) key) as [[q|f0]|] eqn:Ek; try reflexivity.
      destruct (I1 key f0 Ek) as [-> _]. unfold disk_set. destruct (Nat.eqb_spec j key); [lia|reflexivity].
    - destruct (I1 j f Ej) as [-> _].
      destruct (nth_error (s_slots st) key) as [[q|f0]|] eqn:Ek; try reflexivity.
      destruct (I1 key f0 Ek) as [-> _]. unfold disk_set. destruct (Nat.eqb_spec j key); [lia|reflexivity].
  Qed.

  (* a store leaves no superseded file behind: after storing a small tensor the site has no file *)
  Theorem spill_no_orphan_gen : forall limit key a (st : sstate P),
    key < List.length (s_slots st) -> spill_inv st -> nbytes a <= limit ->
    s_disk (setitem nbytes limit key a st) key = None.
  Proof.
    intros limit key a st Hk Hinv Hs.
    destruct (spill_inv_preserved limit key a st Hk Hinv) as [_ J2].
    destruct (s_disk (setitem nbytes limit key a st) key) eqn:E; [|reflexivity].
    assert (Hx : s_disk (setitem nbytes limit key a st) key <> None) by (rewrite E; discriminate).
    specialize (J2 key Hx). unfold setitem, array2mt in J2. cbn [s_slots] in J2.
    assert (El : Nat.ltb limit (nbytes a) = false) by (apply Nat.ltb_ge; exact Hs). rewrite El in J2. cbn [fst] in J2.
    rewrite nth_set_slot_same in J2 by exact Hk. discriminate.
  Qed.
End SpillProofs.
