(* C07 -- proofs about Model/FreqCache.v: the sorted plan is prefix closed for ALL operator lists, the
   dictionary construction never misses, the cached left part, the middle and the cached right part
   partition the chain, and the fast path returns the reference value at some cut. *)
From Coq Require Import List Arith ZArith Bool Lia Permutation Sorted.
Import ListNotations.
From RV Require Import Model.FreqCache.

Definition kdec := list_eq_dec Z.eq_dec.

Lemma key_eqb_spec a : forall b, reflect (a = b) (key_eqb a b).
Proof.
  induction a as [|x a IH]; intros [|y b]; cbn [key_eqb]; try (constructor; congruence).
  destruct (Z.eqb_spec x y) as [->|Hne]; cbn [andb].
  - destruct (IH b) as [->|Hne]; constructor; congruence.
  - constructor; congruence.
Qed.

Lemma key_eqb_refl a : key_eqb a a = true.
Proof. destruct (key_eqb_spec a a); congruence. Qed.

(* ------------------------------------------------------------------------------------ sorting *)
Definition kleP (x y : key * nat) : Prop := kle x y = true.

Lemma kle_total x y : kle x y = false -> kle y x = true.
Proof.
  unfold kle. destruct x as [kx cx], y as [ky cy]. cbn [fst snd].
  destruct (Nat.ltb_spec cy cx), (Nat.eqb_spec cx cy), (Nat.leb_spec (length kx) (length ky)); cbn [orb andb]; intros HH; try discriminate HH; clear HH;
  destruct (Nat.ltb_spec cx cy), (Nat.eqb_spec cy cx), (Nat.leb_spec (length ky) (length kx)); cbn [orb andb]; try reflexivity; lia.
Qed.

Lemma kle_trans x y z : kle x y = true -> kle y z = true -> kle x z = true.
Proof.
  unfold kle. destruct x as [kx cx], y as [ky cy], z as [kz cz]. cbn [fst snd].
  destruct (Nat.ltb_spec cy cx), (Nat.eqb_spec cx cy), (Nat.leb_spec (length kx) (length ky)); cbn [orb andb]; intros HH; try discriminate HH; clear HH;
  destruct (Nat.ltb_spec cz cy), (Nat.eqb_spec cy cz), (Nat.leb_spec (length ky) (length kz)); cbn [orb andb]; intros HH; try discriminate HH; clear HH;
  destruct (Nat.ltb_spec cz cx), (Nat.eqb_spec cx cz), (Nat.leb_spec (length kx) (length kz)); cbn [orb andb]; try reflexivity; lia.
Qed.

(* a key that is at least as frequent and strictly shorter sorts strictly in front *)
Lemma kle_strict k n p np : n <= np -> length p < length k -> kle (k, n) (p, np) = false.
Proof.
  intros H1 H2. unfold kle. cbn [fst snd].
  destruct (Nat.ltb_spec np n), (Nat.eqb_spec n np), (Nat.leb_spec (length k) (length p)); cbn [orb andb]; try reflexivity; lia.
Qed.

Lemma insert_perm x l : Permutation (insert x l) (x :: l).
Proof.
  induction l as [|y t IH]; cbn [insert]; [reflexivity|].
  destruct (kle x y); [reflexivity|]. rewrite IH. apply perm_swap.
Qed.

Lemma sort_perm l : Permutation (sort l) l.
Proof.
  induction l as [|x t IH]; cbn [sort fold_right]; [reflexivity|].
  fold (sort t). rewrite insert_perm. constructor. exact IH.
Qed.

Lemma insert_sorted x l : StronglySorted kleP l -> StronglySorted kleP (insert x l).
Proof.
  induction l as [|y t IH]; intros Hs; cbn [insert].
  - constructor; constructor.
  - apply StronglySorted_inv in Hs. destruct Hs as [Hst Hy].
    destruct (kle x y) eqn:Hxy.
    + constructor; [constructor; assumption|]. constructor; [exact Hxy|].
      rewrite Forall_forall in *. intros z Hz. apply (kle_trans x y z Hxy). apply Hy. exact Hz.
    + constructor; [apply IH; exact Hst|].
      rewrite Forall_forall in *. intros z Hz.
      apply (Permutation_in _ (insert_perm x t)) in Hz. destruct Hz as [<-|Hz].
      * apply kle_total. exact Hxy.
      * apply Hy. exact Hz.
Qed.

Lemma sort_sorted l : StronglySorted kleP (sort l).
Proof.
  induction l as [|x t IH]; cbn [sort fold_right]; [constructor|].
  apply insert_sorted. exact IH.
Qed.

Lemma sorted_app_r {A} (Rel : A -> A -> Prop) a b : StronglySorted Rel (a ++ b) -> StronglySorted Rel b.
Proof.
  induction a as [|x a IH]; cbn [app]; intros H; [exact H|].
  apply StronglySorted_inv in H. apply IH. apply H.
Qed.

(* ------------------------------------------------------------------------------------ the counter *)
Fixpoint getc (k : key) (c : list (key * nat)) : nat :=
  match c with [] => 0 | (k', n) :: r => if key_eqb k k' then n else getc k r end.

Lemma getc_bump_same k c : getc k (bump k c) = S (getc k c).
Proof.
  induction c as [|[k' n] r IH]; cbn [bump getc].
  - rewrite key_eqb_refl. reflexivity.
  - destruct (key_eqb k k') eqn:E; cbn [getc]; rewrite E; [reflexivity|exact IH].
Qed.

Lemma getc_bump_other k k' c : k <> k' -> getc k' (bump k c) = getc k' c.
Proof.
  intros Hne. induction c as [|[k2 n] r IH]; cbn [bump getc].
  - destruct (key_eqb_spec k' k); [congruence|reflexivity].
  - destruct (key_eqb_spec k k2) as [->|Hk]; cbn [getc].
    + destruct (key_eqb_spec k' k2); [congruence|reflexivity].
    + destruct (key_eqb k' k2); [reflexivity|exact IH].
Qed.

Lemma keys_bump k c k' : In k' (map fst (bump k c)) <-> k' = k \/ In k' (map fst c).
Proof.
  induction c as [|[k2 n] r IH]; cbn [bump map fst In].
  - intuition.
  - destruct (key_eqb_spec k k2) as [->|Hk]; cbn [map fst In].
    + intuition.
    + rewrite IH. intuition.
Qed.

Lemma nodup_bump k c : NoDup (map fst c) -> NoDup (map fst (bump k c)).
Proof.
  induction c as [|[k2 n] r IH]; cbn [bump map fst]; intros H.
  - constructor; [intros []|constructor].
  - inversion H as [|? ? Hni Hnd]; subst.
    destruct (key_eqb_spec k k2) as [->|Hk]; cbn [map fst].
    + constructor; assumption.
    + constructor; [|apply IH; exact Hnd]. rewrite keys_bump. intros [E|Hin]; [congruence|contradiction].
Qed.

Lemma pos_bump k c : Forall (fun kn => 1 <= snd kn) c -> Forall (fun kn => 1 <= snd kn) (bump k c).
Proof.
  induction c as [|[k2 n] r IH]; cbn [bump]; intros H.
  - constructor; [cbn; lia|constructor].
  - inversion H; subst. destruct (key_eqb k k2); constructor; cbn [snd] in *; try lia; auto.
Qed.

Lemma getc_in c : NoDup (map fst c) -> forall k n, In (k, n) c -> getc k c = n.
Proof.
  induction c as [|[k2 m] r IH]; intros Hnd k n Hin; [destruct Hin|].
  cbn [map fst] in Hnd. inversion Hnd as [|? ? Hni Hnd']; subst. cbn [getc].
  destruct Hin as [E|Hin].
  - inversion E; subst. rewrite key_eqb_refl. reflexivity.
  - destruct (key_eqb_spec k k2) as [->|Hk].
    + exfalso. apply Hni. apply (in_map fst) in Hin. exact Hin.
    + apply IH; assumption.
Qed.

Definition bumps (ks : list key) (c : list (key * nat)) := fold_left (fun c k => bump k c) ks c.

Lemma getc_bumps ks : forall c k, getc k (bumps ks c) = getc k c + count_occ kdec ks k.
Proof.
  induction ks as [|x ks IH]; intros c k; cbn [bumps fold_left count_occ]; [lia|].
  fold (bumps ks (bump x c)). rewrite IH.
  destruct (kdec x k) as [->|Hne].
  - rewrite getc_bump_same. lia.
  - rewrite (getc_bump_other x k c Hne). lia.
Qed.

Lemma nodup_bumps ks : forall c, NoDup (map fst c) -> NoDup (map fst (bumps ks c)).
Proof. induction ks as [|x ks IH]; intros c H; cbn [bumps fold_left]; [exact H|]. apply IH. apply nodup_bump. exact H. Qed.

Lemma pos_bumps ks : forall c, Forall (fun kn => 1 <= snd kn) c -> Forall (fun kn => 1 <= snd kn) (bumps ks c).
Proof. induction ks as [|x ks IH]; intros c H; cbn [bumps fold_left]; [exact H|]. apply IH. apply pos_bump. exact H. Qed.

Lemma keys_bumps ks : forall c k, In k (map fst (bumps ks c)) <-> In k ks \/ In k (map fst c).
Proof.
  induction ks as [|x ks IH]; intros c k; cbn [bumps fold_left In]; [intuition|].
  fold (bumps ks (bump x c)). rewrite IH, keys_bump. intuition.
Qed.

Lemma counter_nodup d ms : NoDup (map fst (counter d ms)).
Proof. apply (nodup_bumps _ []). constructor. Qed.

Lemma counter_count d ms k n : In (k, n) (counter d ms) ->
  n = count_occ kdec (flat_map (seqs d) ms) k /\ 1 <= n.
Proof.
  intros Hin. split.
  - rewrite <- (getc_in _ (counter_nodup d ms) k n Hin). unfold counter. fold (bumps (flat_map (seqs d) ms) []).
    rewrite getc_bumps. reflexivity.
  - pose proof (pos_bumps (flat_map (seqs d) ms) [] (Forall_nil _)) as H. rewrite Forall_forall in H.
    apply (H (k, n)). exact Hin.
Qed.

Lemma counter_complete d ms k : In k (flat_map (seqs d) ms) -> exists n, In (k, n) (counter d ms).
Proof.
  intros Hin. assert (H : In k (map fst (counter d ms))).
  { unfold counter. fold (bumps (flat_map (seqs d) ms) []). rewrite keys_bumps. left. exact Hin. }
  apply in_map_iff in H. destruct H as [[k' n] [E H]]. cbn in E. subst. exists n. exact H.
Qed.

Lemma counter_keys d ms k : In k (map fst (counter d ms)) -> In k (flat_map (seqs d) ms).
Proof.
  unfold counter. fold (bumps (flat_map (seqs d) ms) []). rewrite keys_bumps. intros [H|[]]. exact H.
Qed.

(* ------------------------------------------------------------------------------------ seqs *)
Lemma dir_length {A} d (m : list A) : length (dir d m) = length m.
Proof. destruct d; cbn [dir]; [reflexivity|apply rev_length]. Qed.

Lemma seqs_spec d m k : In k (seqs d m) <-> (1 <= length k <= length m /\ k = firstn (length k) (dir d m)).
Proof.
  unfold seqs. rewrite in_map_iff. split.
  - intros [i [E Hi]]. apply in_seq in Hi.
    assert (Hl : length k = i). { subst k. apply firstn_length_le. rewrite dir_length. lia. }
    rewrite Hl. split; [lia|]. symmetry. exact E.
  - intros [Hl E]. exists (length k). split; [symmetry; exact E|]. apply in_seq. lia.
Qed.

Lemma seqs_nodup d m : NoDup (seqs d m).
Proof.
  apply (NoDup_map_inv (@length Z)). unfold seqs. rewrite map_map.
  rewrite (map_ext_in _ (fun i => i)); [rewrite map_id; apply seq_NoDup|].
  intros i Hi. apply in_seq in Hi. apply firstn_length_le. rewrite dir_length. lia.
Qed.

Lemma seqs_prefix d m k j : In k (seqs d m) -> 0 < j < length k -> In (firstn j k) (seqs d m).
Proof.
  intros Hk Hj. apply seqs_spec in Hk. destruct Hk as [Hl E]. apply seqs_spec.
  assert (Hlen : length (firstn j k) = j) by (apply firstn_length_le; lia).
  rewrite Hlen. split; [lia|]. rewrite E at 1. rewrite firstn_firstn. f_equal. lia.
Qed.

Lemma count_seqs_mono d m k j : 0 < j < length k ->
  count_occ kdec (seqs d m) k <= count_occ kdec (seqs d m) (firstn j k).
Proof.
  intros Hj. pose proof (proj1 (NoDup_count_occ kdec (seqs d m)) (seqs_nodup d m) k) as H1.
  destruct (count_occ kdec (seqs d m) k) as [|c] eqn:E; [lia|].
  assert (Hin : In k (seqs d m)) by (apply (count_occ_In kdec); lia).
  apply (seqs_prefix d m k j Hin) in Hj. apply (count_occ_In kdec) in Hj. lia.
Qed.

Lemma count_flat_mono d ms k j : 0 < j < length k ->
  count_occ kdec (flat_map (seqs d) ms) k <= count_occ kdec (flat_map (seqs d) ms) (firstn j k).
Proof.
  intros Hj. induction ms as [|m ms IH]; [cbn [flat_map count_occ]; lia|].
  change (flat_map (seqs d) (m :: ms)) with (seqs d m ++ flat_map (seqs d) ms).
  rewrite !count_occ_app. apply Nat.add_le_mono; [apply count_seqs_mono; exact Hj|exact IH].
Qed.

Lemma flat_prefix d ms k j : In k (flat_map (seqs d) ms) -> 0 < j < length k -> In (firstn j k) (flat_map (seqs d) ms).
Proof.
  intros Hk Hj. apply in_flat_map in Hk. destruct Hk as [m [Hm Hk]]. apply in_flat_map. exists m. split; [exact Hm|].
  apply seqs_prefix; assumption.
Qed.

Lemma flat_nonempty d ms k : In k (flat_map (seqs d) ms) -> k <> [].
Proof.
  intros Hk. apply in_flat_map in Hk. destruct Hk as [m [_ Hk]]. apply seqs_spec in Hk.
  destruct k; [cbn in Hk; lia|discriminate].
Qed.

(* ------------------------------------------------------------------------- prefix closure of the plan *)
Definition prefix_closed (l : list key) : Prop :=
  forall l1 k l2, l = l1 ++ k :: l2 -> k <> [] /\ forall j, 0 < j < length k -> In (firstn j k) l1.

Theorem sorted_keys_prefix_closed d ms : prefix_closed (map fst (sort (counter d ms))).
Proof.
  intros l1 k l2 E.
  pose proof (sort_perm (counter d ms)) as Hperm.
  pose proof (sort_sorted (counter d ms)) as Hsrt.
  destruct (map_eq_app _ _ _ _ E) as [s1 [s2' [Es [E1 E2]]]].
  destruct (map_eq_cons _ _ E2) as [[k' n] [s2 [Es2 [Ek El2]]]]. cbn in Ek. subst k' s2'.
  assert (Hkin : In (k, n) (counter d ms)).
  { apply (Permutation_in _ Hperm). rewrite Es. apply in_or_app. right. left. reflexivity. }
  pose proof (counter_count d ms k n Hkin) as [Hn _].
  assert (Hkf : In k (flat_map (seqs d) ms)).
  { apply counter_keys. apply (in_map fst) in Hkin. exact Hkin. }
  split; [apply (flat_nonempty d ms k Hkf)|].
  intros j Hj. set (p := firstn j k).
  assert (Hlp : length p = j) by (apply firstn_length_le; lia).
  destruct (counter_complete d ms p (flat_prefix d ms k j Hkf Hj)) as [np Hp].
  pose proof (counter_count d ms p np Hp) as [Hnp _].
  assert (Hps : In (p, np) (sort (counter d ms))) by (apply (Permutation_in _ (Permutation_sym Hperm)); exact Hp).
  rewrite Es in Hps. apply in_app_or in Hps. destruct Hps as [Hps|[Hps|Hps]].
  - rewrite <- E1. apply (in_map fst) in Hps. exact Hps.
  - inversion Hps as [[Hkp Hnn]]. apply (f_equal (@length Z)) in Hkp. unfold key in *. lia.
  - exfalso. rewrite Es in Hsrt. apply sorted_app_r in Hsrt. apply StronglySorted_inv in Hsrt.
    destruct Hsrt as [_ Hall]. rewrite Forall_forall in Hall. specialize (Hall _ Hps). unfold kleP in Hall.
    rewrite kle_strict in Hall; [discriminate| |lia].
    rewrite Hn, Hnp. apply count_flat_mono. exact Hj.
Qed.

Theorem prefix_closed_firstn l m : prefix_closed l -> prefix_closed (firstn m l).
Proof.
  intros H l1 k l2 E. apply (H l1 k (l2 ++ skipn m l)).
  rewrite <- (firstn_skipn m l) at 1. rewrite E. rewrite <- app_assoc. reflexivity.
Qed.

Lemma plan_loop_trunc nmps srt : forall have, exists m, plan_loop nmps srt have = firstn m (map fst srt).
Proof.
  induction srt as [|[k n] r IH]; intros have; cbn [plan_loop map fst].
  - exists 0. reflexivity.
  - destruct (n =? 1); [exists 0; reflexivity|]. destruct (nmps <? have); [exists 0; reflexivity|].
    destruct (IH (S have)) as [m Hm]. exists (S m). cbn [firstn]. rewrite Hm. reflexivity.
Qed.

Theorem plan_is_truncation d ms nmps : exists m, plan d ms nmps = firstn m (map fst (sort (counter d ms))).
Proof. apply plan_loop_trunc. Qed.

Theorem freq_plan_prefix_closed d ms nmps : prefix_closed (plan d ms nmps).
Proof.
  destruct (plan_is_truncation d ms nmps) as [m ->]. apply prefix_closed_firstn. apply sorted_keys_prefix_closed.
Qed.

Lemma plan_loop_length nmps srt : forall have, length (plan_loop nmps srt have) <= S nmps - have.
Proof.
  induction srt as [|[k n] r IH]; intros have; cbn [plan_loop length]; [lia|].
  destruct (n =? 1); [cbn; lia|]. destruct (Nat.ltb_spec nmps have); [cbn; lia|].
  cbn [length]. specialize (IH (S have)). lia.
Qed.

Theorem plan_length d ms nmps : length (plan d ms nmps) <= S nmps.
Proof. pose proof (plan_loop_length nmps (sort (counter d ms)) 0). unfold plan. lia. Qed.

Lemma plan_loop_in nmps srt : forall have k, In k (plan_loop nmps srt have) -> exists n, In (k, n) srt /\ n <> 1.
Proof.
  induction srt as [|[k' n] r IH]; intros have k; cbn [plan_loop]; [intros []|].
  destruct (Nat.eqb_spec n 1); [intros []|]. destruct (nmps <? have); [intros []|].
  intros [<-|Hin].
  - exists n. split; [left; reflexivity|assumption].
  - destruct (IH _ _ Hin) as [n' [H1 H2]]. exists n'. split; [right; exact H1|exact H2].
Qed.

Theorem plan_count_ge2 d ms nmps k : In k (plan d ms nmps) -> 2 <= count_occ kdec (flat_map (seqs d) ms) k.
Proof.
  intros Hin. destruct (plan_loop_in _ _ _ _ Hin) as [n [H1 H2]].
  apply (Permutation_in _ (sort_perm _)) in H1. destruct (counter_count d ms k n H1) as [E Hpos]. lia.
Qed.

Theorem plan_keys d ms nmps k : In k (plan d ms nmps) ->
  exists m, In m ms /\ 1 <= length k <= length m /\ k = firstn (length k) (dir d m).
Proof.
  intros Hin. destruct (plan_loop_in _ _ _ _ Hin) as [n [H1 _]].
  apply (Permutation_in _ (sort_perm _)) in H1. apply (in_map fst) in H1. apply counter_keys in H1.
  apply in_flat_map in H1. destruct H1 as [m [Hm Hk]]. exists m. split; [exact Hm|]. apply seqs_spec. exact Hk.
Qed.

(* ============================================================================ the dictionary *)
Section DictProofs.
Variable E : Type.
Variable stepc : domain -> nat -> Z -> E -> E.
Variable init : E.

(* environment belonging to a key: its elements contracted one after the other; the element that makes the
   key j long is contracted at site  site_of d nmps j *)
Fixpoint envkey_from (d : domain) (nmps : nat) (have : nat) (k : key) (env : E) : E :=
  match k with
  | [] => env
  | h :: t => envkey_from d nmps (S have) t (stepc d (site_of d nmps (S have)) h env)
  end.
Definition envkey d nmps k := envkey_from d nmps 0 k init.

Lemma envkey_from_snoc d nmps k : forall have h env,
  envkey_from d nmps have (k ++ [h]) env =
  stepc d (site_of d nmps (S (have + length k))) h (envkey_from d nmps have k env).
Proof.
  induction k as [|x k IH]; intros have h env; cbn [app envkey_from length].
  - rewrite Nat.add_0_r. reflexivity.
  - rewrite IH. replace (S have + length k) with (have + S (length k)) by lia. reflexivity.
Qed.

Lemma envkey_last d nmps k : k <> [] ->
  envkey d nmps k = stepc d (site_of d nmps (length k)) (last k 0%Z) (envkey d nmps (removelast k)).
Proof.
  intros Hne. unfold envkey. rewrite (app_removelast_last 0%Z Hne) at 1.
  rewrite envkey_from_snoc. cbn [Nat.add]. f_equal. f_equal.
  rewrite (app_removelast_last 0%Z Hne) at 2. rewrite app_length. cbn [length]. lia.
Qed.

Notation lookupE := (lookup E).
Definition gk d nmps (k : key) : key * E := (k, envkey d nmps k).

Lemma lookup_hit d nmps l p : In p l -> lookupE p (map (gk d nmps) l) = Some (envkey d nmps p).
Proof.
  induction l as [|x l IH]; intros Hin; [destruct Hin|]. cbn [map gk lookup].
  destruct (key_eqb_spec p x) as [->|Hne]; [reflexivity|].
  destruct Hin as [E'|Hin]; [congruence|]. apply IH. exact Hin.
Qed.

Lemma lookup_res d nmps l p : p = [] \/ In p l ->
  lookupE p (([], init) :: map (gk d nmps) l) = Some (envkey d nmps p).
Proof.
  intros H. cbn [lookup]. destruct (key_eqb_spec p []) as [->|Hne]; [reflexivity|].
  destruct H as [H|H]; [congruence|]. apply lookup_hit. exact H.
Qed.

Lemma lookup_some d nmps l p v :
  lookupE p (([], init) :: map (gk d nmps) l) = Some v -> v = envkey d nmps p.
Proof.
  cbn [lookup]. destruct (key_eqb_spec p []) as [->|Hne]; [intros H; inversion H; subst; reflexivity|].
  induction l as [|x l IH]; cbn [map gk lookup]; [discriminate|].
  destruct (key_eqb_spec p x) as [->|Hne']; [intros H; inversion H; subst; reflexivity|exact IH].
Qed.

Lemma build_ok_gen d nmps pl : forall done, prefix_closed (done ++ pl) ->
  build E stepc d nmps pl (([], init) :: map (gk d nmps) done) =
  Some (([], init) :: map (gk d nmps) (done ++ pl)).
Proof.
  induction pl as [|k r IH]; intros done Hpc; cbn [build].
  - rewrite app_nil_r. reflexivity.
  - destruct (Hpc done k r eq_refl) as [Hne Hpre].
    assert (Hrl : removelast k = [] \/ In (removelast k) done).
    { rewrite removelast_firstn_len. destruct k as [|x [|y k']]; [congruence|left; reflexivity|right].
      apply Hpre. cbn [length Nat.pred]. lia. }
    rewrite (lookup_res d nmps done _ Hrl).
    rewrite <- (envkey_last d nmps k Hne).
    change (([], init) :: map (gk d nmps) done) with ([([], init)] ++ map (gk d nmps) done).
    rewrite <- app_assoc. change [(k, envkey d nmps k)] with (map (gk d nmps) [k]). rewrite <- map_app.
    cbn [app]. rewrite (IH (done ++ [k])).
    + rewrite <- app_assoc. reflexivity.
    + rewrite <- app_assoc. exact Hpc.
Qed.

Theorem build_ok d nmps pl : prefix_closed pl ->
  build E stepc d nmps pl [([], init)] = Some (([], init) :: map (fun k => (k, envkey d nmps k)) pl).
Proof. intros H. apply (build_ok_gen d nmps pl []). exact H. Qed.

Theorem construct_ok d ms nmps :
  construct E stepc init d ms nmps = Some (([], init) :: map (fun k => (k, envkey d nmps k)) (plan d ms nmps)).
Proof. apply build_ok. apply freq_plan_prefix_closed. Qed.

(* ------------------------------------------------------------------------------ the walk *)
Lemma walk_spec (res : list (key * E)) maxlen : forall it hashes,
  let k := walk E res maxlen it hashes in
  exists j, j <= length it /\ k = hashes ++ firstn j it /\
    (match maxlen with Some mx => length hashes <= mx -> length k <= mx | None => True end) /\
    (k = hashes \/ exists v, lookupE k res = Some v).
Proof.
  induction it as [|h t IH]; intros hashes; cbn [walk].
  - exists 0. cbn [firstn length]. rewrite app_nil_r. repeat split; try lia; [destruct maxlen; auto|left; reflexivity].
  - destruct (lookupE (hashes ++ [h]) res) as [v|] eqn:El; cbn [orb].
    2:{ exists 0. cbn [firstn]. rewrite app_nil_r. repeat split; try lia; [destruct maxlen; auto|left; reflexivity]. }
    destruct maxlen as [mx|].
    + destruct (Nat.ltb_spec mx (length (hashes ++ [h]))) as [Hlt|Hge].
      * exists 0. cbn [firstn]. rewrite app_nil_r. repeat split; try lia; auto.
      * destruct (IH (hashes ++ [h])) as [j [Hj [Ek [Hmx Hl]]]]. exists (S j). cbn [firstn length].
        split; [lia|]. split; [rewrite Ek, <- app_assoc; reflexivity|]. split.
        -- intros _. apply Hmx. exact Hge.
        -- right. destruct Hl as [Hl|Hl]; [rewrite Hl; exists v; exact El|exact Hl].
    + destruct (IH (hashes ++ [h])) as [j [Hj [Ek [_ Hl]]]]. exists (S j). cbn [firstn length].
      split; [lia|]. split; [rewrite Ek, <- app_assoc; reflexivity|]. split; [exact I|].
      right. destruct Hl as [Hl|Hl]; [rewrite Hl; exists v; exact El|exact Hl].
Qed.

Theorem get_key_spec (res : list (key * E)) d m maxlen :
  let k := get_key E res d m maxlen in
  k = firstn (length k) (dir d m) /\ length k <= length m /\
  (match maxlen with Some mx => length k <= mx | None => True end) /\
  (k = [] \/ exists v, lookupE k res = Some v).
Proof.
  unfold get_key. destruct (walk_spec res maxlen (dir d m) []) as [j [Hj [Ek [Hmx Hl]]]].
  cbn [app] in Ek. rewrite dir_length in Hj.
  assert (Hlen : length (walk E res maxlen (dir d m) []) = j).
  { rewrite Ek. apply firstn_length_le. rewrite dir_length. exact Hj. }
  cbn zeta. rewrite Hlen. repeat split.
  - exact Ek.
  - exact Hj.
  - destruct maxlen as [mx|]; [|exact I]. rewrite <- Hlen. apply Hmx. cbn [length]. lia.
  - exact Hl.
Qed.

Theorem freq_split_partition (lres rres : list (key * E)) (m : key) :
  let n := length m in
  let lk := get_key E lres DL m None in
  let l_idx := get_idx DL n lk in
  let rk := get_key E rres DR m (Some (Z.to_nat (Z.of_nat n - l_idx - 1))) in
  let r_idx := get_idx DR n rk in
  (0 <= l_idx + 1 <= r_idx)%Z /\ (r_idx <= Z.of_nat n)%Z /\
  length lk + Z.to_nat (r_idx - (l_idx + 1)) + length rk = n /\
  lk = firstn (length lk) m /\ rk = firstn (length rk) (rev m).
Proof.
  cbn zeta.
  destruct (get_key_spec lres DL m None) as [El [Hl _]].
  set (lk := get_key E lres DL m None) in *.
  destruct (get_key_spec rres DR m (Some (Z.to_nat (Z.of_nat (length m) - get_idx DL (length m) lk - 1)))) as [Er [Hr [Hmx _]]].
  set (rk := get_key E rres DR m _) in *.
  unfold get_idx in *. cbn [dir] in El, Er. repeat split; try assumption; lia.
Qed.

End DictProofs.

(* ============================================================================ the fast path *)
Section FastProofs.
Variables E Ob V : Type.
Variable stepo : domain -> nat -> Ob -> E -> E.
Variable init : E.
Variable dflt : Ob.
Variable dot : E -> E -> V.

Notation foldL' := (foldL E Ob stepo).
Notation foldR' := (foldR E Ob stepo).
Notation middle' := (middle E Ob stepo dflt).

Lemma first_obj_in h (tbl : list (Z * Ob)) o : In (h, o) tbl -> exists o', first_obj Ob h tbl = Some o' /\ In (h, o') tbl.
Proof.
  induction tbl as [|[h' o2] r IH]; intros Hin; [destruct Hin|]. cbn [first_obj].
  destruct (Z.eqb_spec h h') as [->|Hne].
  - exists o2. split; [reflexivity|left; reflexivity].
  - destruct Hin as [E'|Hin]; [congruence|]. destruct (IH Hin) as [o' [H1 H2]]. exists o'. split; [exact H1|right; exact H2].
Qed.

Section WithList.
Variable ms : list (hop Ob).
Variable nmps : nat.
Hypothesis Hinj : forall h o o', In (h, o) (concat ms) -> In (h, o') (concat ms) -> o = o'.

Notation stepc := (stepc_of E Ob stepo dflt ms).
Notation envkey' := (envkey E stepc init).
Notation envkey_from' := (envkey_from E stepc).

Lemma stepc_obj d i h o env : In (h, o) (concat ms) -> stepc d i h env = stepo d i o env.
Proof.
  intros Hin. unfold stepc_of, hash_to_obj. destruct (first_obj_in h (concat ms) o Hin) as [o' [-> Hin']].
  rewrite (Hinj h o' o Hin' Hin). reflexivity.
Qed.

(* L: the key of the first j sites is the fold of the objects of these sites *)
Lemma envkey_from_L (x : list (Z * Ob)) : forall have env,
  (forall ho, In ho x -> In ho (concat ms)) ->
  envkey_from' DL nmps have (map fst x) env = foldL' have (map snd x) env.
Proof.
  induction x as [|[h o] x IH]; intros have env Hsub; cbn [map fst snd envkey_from foldL]; [reflexivity|].
  rewrite (stepc_obj DL _ h o env) by (apply Hsub; left; reflexivity).
  cbn [site_of]. replace (S have - 1) with have by lia. apply IH. intros ho Hin. apply Hsub. right. exact Hin.
Qed.

(* R: a key lists the sites from the right end inwards *)
Lemma envkey_from_R (y : list (Z * Ob)) : forall have env,
  (forall ho, In ho y -> In ho (concat ms)) -> have + length y <= nmps ->
  envkey_from' DR nmps have (map fst y) env = foldR' (nmps - have - length y) (rev (map snd y)) env.
Proof.
  induction y as [|[h o] y IH] using rev_ind; intros have env Hsub Hlen.
  - cbn [map envkey_from length rev foldR]. reflexivity.
  - rewrite app_length in Hlen. cbn [length] in Hlen.
    rewrite !map_app. cbn [map fst snd]. rewrite envkey_from_snoc, rev_app_distr. cbn [rev app foldR].
    rewrite map_length, app_length. cbn [length site_of].
    rewrite (stepc_obj DR _ h o) by (apply Hsub; apply in_or_app; right; left; reflexivity).
    rewrite IH; [|intros ho Hin; apply Hsub; apply in_or_app; left; exact Hin|lia].
    replace (nmps - S (have + length y)) with (nmps - have - (length y + 1)) by lia.
    replace (S (nmps - have - (length y + 1))) with (nmps - have - length y) by lia. reflexivity.
Qed.

Lemma in_firstn {A} (l : list A) j x : In x (firstn j l) -> In x l.
Proof. intros H. rewrite <- (firstn_skipn j l). apply in_or_app. left. exact H. Qed.
Lemma in_skipn {A} (l : list A) j x : In x (skipn j l) -> In x l.
Proof. intros H. rewrite <- (firstn_skipn j l). apply in_or_app. right. exact H. Qed.

Lemma in_concat_of (m : hop Ob) ho : In m ms -> In ho m -> In ho (concat ms).
Proof. intros Hm Hho. apply in_concat. exists m. split; assumption. Qed.

Lemma envkey_L m j : In m ms ->
  envkey' DL nmps (firstn j (hashes_of Ob m)) = foldL' 0 (firstn j (map snd m)) init.
Proof.
  intros Hm. unfold envkey, hashes_of. rewrite !firstn_map. apply envkey_from_L.
  intros ho Hin. apply (in_concat_of m ho Hm). apply (in_firstn _ _ _ Hin).
Qed.

Lemma envkey_R m j : In m ms -> length m = nmps -> j <= nmps ->
  envkey' DR nmps (firstn j (rev (hashes_of Ob m))) = foldR' (nmps - j) (skipn (nmps - j) (map snd m)) init.
Proof.
  intros Hm Hlen Hj. unfold envkey, hashes_of. rewrite firstn_rev, map_length, Hlen.
  rewrite skipn_map, <- map_rev.
  rewrite (envkey_from_R (rev (skipn (nmps - j) m)) 0 init).
  - rewrite rev_length, skipn_length, Hlen. rewrite map_rev, rev_involutive, skipn_map.
    replace (nmps - 0 - (nmps - (nmps - j))) with (nmps - j) by lia. reflexivity.
  - intros ho Hin. apply in_rev in Hin. apply (in_concat_of m ho Hm). apply (in_skipn _ _ _ Hin).
  - rewrite rev_length, skipn_length, Hlen. lia.
Qed.

Lemma skipn_nth_cons {A} (l : list A) d : forall i, i < length l -> skipn i l = nth i l d :: skipn (S i) l.
Proof.
  induction l as [|x l IH]; intros i Hi; [cbn in Hi; lia|].
  destruct i as [|i]; [reflexivity|]. cbn [skipn nth]. cbn [length] in Hi. rewrite IH by lia. reflexivity.
Qed.

Lemma middle_foldL objs : forall cnt lo env, lo + cnt <= length objs ->
  middle' lo cnt objs env = foldL' lo (firstn cnt (skipn lo objs)) env.
Proof.
  induction cnt as [|c IH]; intros lo env Hl; cbn [middle]; [reflexivity|].
  rewrite IH by lia. rewrite (skipn_nth_cons objs dflt lo) by lia. reflexivity.
Qed.

Lemma foldL_app x : forall i y env, foldL' i (x ++ y) env = foldL' (i + length x) y (foldL' i x env).
Proof.
  induction x as [|o x IH]; intros i y env; cbn [app foldL length].
  - rewrite Nat.add_0_r. reflexivity.
  - rewrite IH. replace (S i + length x) with (i + S (length x)) by lia. reflexivity.
Qed.

Lemma firstn_plus {A} (l : list A) : forall a b, firstn (a + b) l = firstn a l ++ firstn b (skipn a l).
Proof.
  induction l as [|x l IH]; intros a b.
  - rewrite !firstn_nil, skipn_nil, firstn_nil. reflexivity.
  - destruct a as [|a]; [reflexivity|]. cbn [Nat.add firstn skipn app]. rewrite IH. reflexivity.
Qed.

Lemma Forall2_map_l {A B} (P : B -> A -> Prop) (f : A -> B) l : (forall x, In x l -> P (f x) x) -> Forall2 P (map f l) l.
Proof.
  induction l as [|x l IH]; intros H; cbn [map]; constructor.
  - apply H. left. reflexivity.
  - apply IH. intros y Hy. apply H. right. exact Hy.
Qed.

Lemma env_or_init_key d pl k :
  (k = [] \/ exists v, lookup E k (([], init) :: map (gk E stepc init d nmps) pl) = Some v) ->
  env_or_init E init (([], init) :: map (gk E stepc init d nmps) pl) k = envkey' d nmps k.
Proof.
  intros [->|[v Hv]]; unfold env_or_init.
  - reflexivity.
  - rewrite Hv. apply (lookup_some E stepc init d nmps pl k v Hv).
Qed.

Lemma fast_one_split (m : hop Ob) plL plR : In m ms -> length m = nmps ->
  exists k, k <= nmps /\
    fast_one E Ob V stepo init dflt dot
      (([], init) :: map (gk E stepc init DL nmps) plL) (([], init) :: map (gk E stepc init DR nmps) plR) m =
    split_value E Ob V stepo init dot k (map snd m).
Proof.
  intros Hm Hlen. unfold fast_one.
  set (lres := ([], init) :: map (gk E stepc init DL nmps) plL).
  set (rres := ([], init) :: map (gk E stepc init DR nmps) plR).
  set (hs := hashes_of Ob m).
  assert (Hhs : length hs = nmps) by (unfold hs, hashes_of; rewrite map_length; exact Hlen).
  pose proof (freq_split_partition E lres rres hs) as Hpart. cbn zeta in Hpart.
  destruct (get_key_spec E lres DL hs None) as [_ [_ [_ HlL]]].
  set (lk := get_key E lres DL hs None) in *.
  rewrite Hhs in *. rewrite Hlen.
  destruct (get_key_spec E rres DR hs (Some (Z.to_nat (Z.of_nat nmps - get_idx DL nmps lk - 1)))) as [_ [_ [_ HlR]]].
  set (rk := get_key E rres DR hs _) in *.
  destruct Hpart as [H1 [H2 [H3 [ElK ErK]]]].
  unfold get_idx in *.
  exists (nmps - length rk). split; [lia|].
  unfold split_value. f_equal.
  - unfold lres. rewrite (env_or_init_key DL plL lk HlL).
    assert (HeL : envkey' DL nmps lk = foldL' 0 (firstn (length lk) (map snd m)) init).
    { rewrite <- (envkey_L m _ Hm). f_equal. exact ElK. }
    rewrite HeL.
    rewrite middle_foldL by (rewrite map_length; lia).
    replace (Z.to_nat (Z.of_nat (length lk) - 1 + 1)) with (length lk) by lia.
    set (cnt := Z.to_nat (Z.of_nat nmps - Z.of_nat (length rk) - (Z.of_nat (length lk) - 1 + 1))).
    replace (nmps - length rk) with (length lk + cnt) by (unfold cnt; lia).
    rewrite firstn_plus, foldL_app. cbn [Nat.add].
    rewrite firstn_length_le by (rewrite map_length; lia). reflexivity.
  - unfold rres. rewrite (env_or_init_key DR plR rk HlR).
    rewrite <- (envkey_R m (length rk) Hm Hlen) by lia. f_equal. exact ErK.
Qed.

Theorem expectations_fast_split_aux :
  (forall m, In m ms -> length m = nmps) ->
  exists vs, expectations_fast E Ob V stepo init dflt dot nmps ms = Some vs /\
    Forall2 (fun v m => exists k, k <= nmps /\ v = split_value E Ob V stepo init dot k (map snd m)) vs ms.
Proof.
  intros Hlen. unfold expectations_fast. rewrite !construct_ok.
  eexists. split; [reflexivity|]. apply Forall2_map_l. intros m Hm.
  apply fast_one_split; [exact Hm|apply Hlen; exact Hm].
Qed.

End WithList.

Theorem expectations_fast_split nmps (ms : list (hop Ob)) :
  (forall m, In m ms -> length m = nmps) ->
  (forall h o o', In (h, o) (concat ms) -> In (h, o') (concat ms) -> o = o') ->      (* hash injectivity *)
  exists vs, expectations_fast E Ob V stepo init dflt dot nmps ms = Some vs /\
    Forall2 (fun v m => exists k, k <= nmps /\ v = split_value E Ob V stepo init dot k (map snd m)) vs ms.
Proof. intros Hlen Hinj. apply expectations_fast_split_aux; assumption. Qed.

End FastProofs.

Theorem plan_keys_count d ms nmps k : In k (plan d ms nmps) ->
  (exists m, In m ms /\ 1 <= length k <= length m /\ k = firstn (length k) (dir d m)) /\
  2 <= count_occ kdec (flat_map (seqs d) ms) k.
Proof. intros H. split; [exact (plan_keys d ms nmps k H)|exact (plan_count_ge2 d ms nmps k H)]. Qed.

(* ============================================================================ the caller's list *)
Section SymListProofs.
Variables E Ob V Sym Mdl St : Type.
Variable build : Mdl -> Sym -> hop Ob.
Variable stepo : St -> domain -> nat -> Ob -> E -> E.
Variable init : E.
Variable dflt : Ob.
Variable dot : E -> E -> V.
Notation call := (expectations_call E Ob V Sym Mdl St build stepo init dflt dot).
Notation conv := (convert Ob Sym Mdl build).

Theorem call_frame mdl st nmps lst : snd (call mdl st nmps lst) = lst.
Proof. reflexivity. Qed.

(* a second call with the same list gives what a call with a fresh copy of the list gives: nothing of the first
   call (its model, its state) survives in the list *)
Theorem two_calls_independent mA sA nA mB sB nB lst :
  two_calls E Ob V Sym Mdl St build stepo init dflt dot mA sA nA mB sB nB lst =
  (fst (call mA sA nA lst), fst (call mB sB nB lst), lst).
Proof. reflexivity. Qed.

Lemma Forall2_map_r {A B C} (P : A -> C -> Prop) (f : B -> C) vs l :
  Forall2 P vs (map f l) -> Forall2 (fun v x => P v (f x)) vs l.
Proof.
  revert vs. induction l as [|x l IH]; intros vs H; inversion H; subst; constructor; [assumption|]. apply IH. assumption.
Qed.

(* every value depends on (state, model, entry) only: it is the cut value of the operator built for THIS model *)
Theorem call_values mdl st nmps lst :
  (forall x, In x lst -> length (conv mdl x) = nmps) ->
  (forall h o o', In (h, o) (concat (map (conv mdl) lst)) -> In (h, o') (concat (map (conv mdl) lst)) -> o = o') ->
  exists vs, fst (call mdl st nmps lst) = Some vs /\
    Forall2 (fun v x => exists k, k <= nmps /\ v = split_value E Ob V (stepo st) init dot k (map snd (conv mdl x))) vs lst.
Proof.
  intros Hlen Hinj.
  destruct (expectations_fast_split E Ob V (stepo st) init dflt dot nmps (map (conv mdl) lst)) as [vs [H1 H2]].
  - intros m Hm. apply in_map_iff in Hm. destruct Hm as [x [<- Hx]]. apply Hlen. exact Hx.
  - exact Hinj.
  - exists vs. split; [exact H1|].
    apply (Forall2_map_r (fun v m => exists k, k <= nmps /\ v = split_value E Ob V (stepo st) init dot k (map snd m)) (conv mdl)).
    exact H2.
Qed.
End SymListProofs.
