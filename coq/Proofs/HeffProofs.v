(* C08 -- heff_is_projection: for a chain that is left-isometric before the centre and right-isometric after
   it, the one-site effective Hamiltonian contracted from the L/R environments is  P^dagger H P  (as a bilinear
   form on centre tensors) and  P^dagger P = I;  the quantum-number mask is a further coordinate projection.
   Uses the environment semantics of C07 (Model/Env.v, Proofs/EnvProofs.v: env_fold, cut, expectation = dense)
   and the isometry predicates of C04 (Model/Cano.v: left_iso, right_iso, prefixP, afterP).               *)
From Coq Require Import Ring List Arith Lia Bool.
Import ListNotations.
From Coq.micromega Require Import OrderedRing.
From RV Require Import Base.CRing Base.BigSum Model.Chain Proofs.ChainProofs Model.Env Proofs.EnvProofs
                       Model.Cano Model.Heff Base.Rayleigh Proofs.RayleighProofs.

Tactic Notation "under" integer(k) tactic3(tac) := do k (apply sumn_ext'; intro); tac.
(* transform the left-hand / right-hand side at depth k *)
Tactic Notation "lstep" integer(k) tactic3(tac) := etransitivity; [do k (apply sumn_ext'; intro); tac; reflexivity|].
Tactic Notation "rstep" integer(k) tactic3(tac) := symmetry; etransitivity; [do k (apply sumn_ext'; intro); tac; reflexivity|]; symmetry.

Section HeffProofs.
Variable R : CRing.
Add Ring RRh : (rth R).
Notation "0" := (r0 R).
Notation "1" := (r1 R).
Infix "+" := (radd R).
Infix "*" := (rmul R).
Notation cj := (rcj R).

(* ------------------------------------------------------------------ the einsum is the sandwich *)
Lemma heff1_sandwich da db p dr bo (L Rt : E3 R) (W : T4 R) (X Y : T3 R) :
  ipW3 da p dr X (heff1_apply da db p dr bo L Rt W Y) =
  dot3 dr bo dr (stepL3 da db da L (csite p dr bo W X Y)) Rt.
Proof.
  unfold ipW3, heff1_apply, dot3, stepL3, cos_L3, sum3, csite. cbn [p3 bra3 op3 ket3]. unfold cj3.
  (* left: push the bra factor inside *)
  lstep 3 (rewrite <- (sumn_scale_l R)).
  lstep 4 (rewrite <- (sumn_scale_l R)).
  lstep 5 (rewrite <- (sumn_scale_l R)).
  lstep 6 (rewrite <- (sumn_scale_l R)).
  lstep 7 (rewrite <- (sumn_scale_l R)).
  (* right: push the R factor inside *)
  rstep 3 (rewrite <- (sumn_scale_r R)).
  rstep 4 (rewrite <- (sumn_scale_r R)).
  rstep 5 (rewrite <- (sumn_scale_r R)).
  rstep 6 (rewrite <- (sumn_scale_r R)).
  rstep 7 (rewrite <- (sumn_scale_r R)).
  (* left order f a d g h c b e  ->  f g h a b c d e *)
  lstep 2 (rewrite (sumn_exchange R)).
  lstep 1 (rewrite (sumn_exchange R)).
  lstep 3 (rewrite (sumn_exchange R)).
  lstep 2 (rewrite (sumn_exchange R)).
  lstep 4 (rewrite (sumn_exchange R)).
  lstep 5 (rewrite (sumn_exchange R)).
  lstep 4 (rewrite (sumn_exchange R)).
  under 8 ring.
Qed.

(* get_ham_direct's matrix applied to a tensor is hop_expr's contraction *)
Lemma heff1_mat_apply da db p dr bo (L Rt : E3 R) (W : T4 R) (C : T3 R) a d f :
  matvec1 da p dr (heff1_mat db bo L Rt W) C a d f = heff1_apply da db p dr bo L Rt W C a d f.
Proof.
  unfold matvec1, heff1_mat, heff1_apply.
  lstep 3 (rewrite <- (sumn_scale_r R)).
  lstep 4 (rewrite <- (sumn_scale_r R)).
  (* c e h b g -> g c e h b -> g h c b e *)
  lstep 3 (rewrite (sumn_exchange R)).
  lstep 2 (rewrite (sumn_exchange R)).
  lstep 1 (rewrite (sumn_exchange R)).
  lstep 0 (rewrite (sumn_exchange R)).
  lstep 2 (rewrite (sumn_exchange R)).
  lstep 1 (rewrite (sumn_exchange R)).
  lstep 3 (rewrite (sumn_exchange R)).
  under 5 ring.
Qed.

(* ------------------------------------------------------------------ two sites = one merged site *)
Lemma divmod_merge p2 e h : (h < p2)%nat -> ((e * p2 + h) / p2 = e /\ (e * p2 + h) mod p2 = h)%nat.
Proof.
  intros H. split.
  - rewrite Nat.div_add_l by lia. rewrite Nat.div_small by exact H. lia.
  - rewrite Nat.add_comm, Nat.mod_add by lia. apply Nat.mod_small. exact H.
Qed.

Lemma heff2_merge da db p1 p2 dr b1 bo (L Rt : E3 R) (W1 W2 : T4 R) (C2 : nat -> nat -> nat -> nat -> R) a d g l :
  (g < p2)%nat ->
  heff2_apply da db p1 p2 dr b1 bo L Rt W1 W2 C2 a d g l =
  heff1_apply da db (p1 * p2) dr bo L Rt (merge_op p2 b1 W1 W2) (merge_c2 p2 C2) a (d * p2 + g)%nat l.
Proof.
  intros Hg. unfold heff2_apply, heff1_apply, merge_op, merge_c2.
  destruct (divmod_merge p2 d g Hg) as [E1 E2]. rewrite E1, E2.
  symmetry. lstep 4 (rewrite (sumn_prod R)).
  apply sumn_ext'; intro j. apply sumn_ext'; intro k. apply sumn_ext'; intro c. apply sumn_ext'; intro b.
  apply sumn_ext'; intro e. apply sumn_ext; intros h Hh.
  destruct (divmod_merge p2 e h Hh) as [F1 F2]. rewrite F1, F2.
  rewrite <- !sumn_scale_l. rewrite <- !sumn_scale_r. apply sumn_ext'; intro f. ring.
Qed.

Lemma chain3_merge p2 d1 d2 (t1 t2 : T3 R) ts x1 x2 s l r : (x2 < p2)%nat ->
  chain3 ((d1, t1) :: (d2, t2) :: ts) (x1 :: x2 :: s) l r =
  chain3 ((d2, merge_ket p2 d1 t1 t2) :: ts) ((x1 * p2 + x2)%nat :: s) l r.
Proof.
  intros H. cbn [chain3]. unfold merge_ket. destruct (divmod_merge p2 x1 x2 H) as [E1 E2]. rewrite E1, E2.
  lstep 1 (rewrite <- (sumn_scale_l R)).
  rewrite sumn_exchange. apply sumn_ext'; intro m'. rewrite <- sumn_scale_r. apply sumn_ext'; intro m. ring.
Qed.

Lemma chain4_merge p2 b1 b2 (W1 W2 : T4 R) ts u1 u2 su v1 v2 sd l r : (u2 < p2)%nat -> (v2 < p2)%nat ->
  chain4 ((b1, W1) :: (b2, W2) :: ts) (u1 :: u2 :: su) (v1 :: v2 :: sd) l r =
  chain4 ((b2, merge_op p2 b1 W1 W2) :: ts) ((u1 * p2 + u2)%nat :: su) ((v1 * p2 + v2)%nat :: sd) l r.
Proof.
  intros Hu Hv. cbn [chain4]. unfold merge_op.
  destruct (divmod_merge p2 u1 u2 Hu) as [E1 E2]. destruct (divmod_merge p2 v1 v2 Hv) as [F1 F2]. rewrite E1, E2, F1, F2.
  lstep 1 (rewrite <- (sumn_scale_l R)).
  rewrite sumn_exchange. apply sumn_ext'; intro m'. rewrite <- sumn_scale_r. apply sumn_ext'; intro m. ring.
Qed.

(* ------------------------------------------------------------------ blocks *)
Notation ksite := (nat * nat * T3 R)%type.
Notation osite := (nat * T4 R)%type.

Lemma bras3_hsand (ks : list ksite) : forall (os : list osite), length os = length ks ->
  bras3 (hsand ks os) = cjchain R ks.
Proof.
  induction ks as [|[[p d] t] ks IH]; intros [|[b o] os] H; try discriminate; [reflexivity|].
  cbn [hsand combine map hsite bras3 cjchain a3 bra3 fst snd]. f_equal. apply IH. cbn in H. congruence.
Qed.
Lemma kets3_hsand (ks : list ksite) : forall (os : list osite), length os = length ks ->
  kets3 (hsand ks os) = kchain R ks.
Proof.
  induction ks as [|[[p d] t] ks IH]; intros [|[b o] os] H; try discriminate; [reflexivity|].
  cbn [hsand combine map hsite kets3 kchain c3 ket3 fst snd]. f_equal. apply IH. cbn in H. congruence.
Qed.
Lemma ops3_hsand (ks : list ksite) : forall (os : list osite), length os = length ks ->
  ops3 (hsand ks os) = os.
Proof.
  induction ks as [|[[p d] t] ks IH]; intros [|[b o] os] H; try discriminate; [reflexivity|].
  cbn [hsand combine map hsite ops3 b3 op3]. f_equal. apply IH. cbn in H. congruence.
Qed.
Lemma p3_hsand (ks : list ksite) : forall (os : list osite), length os = length ks ->
  map (@p3 R) (hsand ks os) = kdims R ks.
Proof.
  induction ks as [|[[p d] t] ks IH]; intros [|[b o] os] H; try discriminate; [reflexivity|].
  cbn [hsand combine map hsite p3 kdims fst snd]. f_equal. apply IH. cbn in H. congruence.
Qed.

Lemma amp_cj (ks : list ksite) s : amp (cjchain R ks) s = cj (amp (kchain R ks) s).
Proof. unfold amp. apply chain3_cj. Qed.

(* the whole sandwich  left | centre | right *)
Definition whole (left : list ksite) (lo : list osite) p dr bo (W : T4 R) (X Y : T3 R) (right : list ksite) (ro : list osite) :=
  hsand left lo ++ csite p dr bo W X Y :: hsand right ro.

Lemma whole_bras left lo p dr bo W X Y right ro : length lo = length left -> length ro = length right ->
  bras3 (whole left lo p dr bo W X Y right ro) = cjchain R (left ++ (p, dr, X) :: right).
Proof.
  intros H1 H2. unfold whole, bras3, cjchain. rewrite !map_app. cbn [map csite a3 bra3 fst snd].
  fold (bras3 (hsand left lo)). fold (bras3 (hsand right ro)). rewrite !bras3_hsand by assumption. reflexivity.
Qed.
Lemma whole_kets left lo p dr bo W X Y right ro : length lo = length left -> length ro = length right ->
  kets3 (whole left lo p dr bo W X Y right ro) = kchain R (left ++ (p, dr, Y) :: right).
Proof.
  intros H1 H2. unfold whole, kets3, kchain. rewrite !map_app. cbn [map csite c3 ket3 fst snd].
  fold (kets3 (hsand left lo)). fold (kets3 (hsand right ro)). rewrite !kets3_hsand by assumption. reflexivity.
Qed.
Lemma whole_ops left lo p dr bo W X Y right ro : length lo = length left -> length ro = length right ->
  ops3 (whole left lo p dr bo W X Y right ro) = lo ++ (bo, W) :: ro.
Proof.
  intros H1 H2. unfold whole, ops3. rewrite !map_app. cbn [map csite b3 op3].
  fold (ops3 (hsand left lo)). fold (ops3 (hsand right ro)). rewrite !ops3_hsand by assumption. reflexivity.
Qed.
Lemma whole_dims left lo p dr bo W X Y right ro : length lo = length left -> length ro = length right ->
  map (@p3 R) (whole left lo p dr bo W X Y right ro) = kdims R left ++ p :: kdims R right.
Proof.
  intros H1 H2. unfold whole. rewrite map_app. cbn [map csite p3]. rewrite !p3_hsand by assumption. reflexivity.
Qed.

Lemma lastdim_kchain_indep (ks : list ksite) : forall d0 X p dr right,
  lastdim d0 (kchain R (ks ++ (p, dr, X) :: right)) = lastdim dr (kchain R right).
Proof.
  intros. unfold kchain. rewrite map_app, lastdim_app. reflexivity.
Qed.

(* heff_is_projection, one site.  ds = physical dimensions of the whole chain; the chain and the operator are
   closed (right-most bond dimensions 1). *)
Theorem heff1_is_projection left lo p dr bo (W : T4 R) right ro (X Y : T3 R) :
  length lo = length left -> length ro = length right ->
  lastdim dr (kchain R right) = 1%nat -> lastdim bo ro = 1%nat ->
  let da := lastdim 1 (kchain R left) in
  let db := lastdim 1 lo in
  let L := envL3 1 1 1 sentinel (hsand left lo) in
  let Rt := envR3 (hsand right ro) sentinel in
  let ds := kdims R left ++ p :: kdims R right in
  ipW3 da p dr X (heff1_apply da db p dr bo L Rt W Y) =
  ipV ds (Pvec left dr right X) (Hdense (lo ++ (bo, W) :: ro) ds (Pvec left dr right Y)).
Proof.
  intros H1 H2 Hk Ho da db L Rt ds. rewrite heff1_sandwich.
  set (hl := hsand left lo). set (cs := csite p dr bo W X Y). set (hr := hsand right ro).
  assert (EA : lastA3 R 1 hl = da) by (unfold lastA3, hl; rewrite bras3_hsand by assumption; apply lastdim_cj).
  assert (EB : lastB3 R 1 hl = db) by (unfold lastB3, hl; rewrite ops3_hsand by assumption; reflexivity).
  assert (EC : lastC3 R 1 hl = da) by (unfold lastC3, hl; rewrite kets3_hsand by assumption; reflexivity).
  assert (EL : envL3 1 1 1 sentinel (hl ++ [cs]) = stepL3 da db da L cs).
  { rewrite envL3_app, EA, EB, EC. reflexivity. }
  assert (FA : lastA3 R 1 (hl ++ [cs]) = dr) by (unfold lastA3, bras3; rewrite map_app, lastdim_app; reflexivity).
  assert (FB : lastB3 R 1 (hl ++ [cs]) = bo) by (unfold lastB3, ops3; rewrite map_app, lastdim_app; reflexivity).
  assert (FC : lastC3 R 1 (hl ++ [cs]) = dr) by (unfold lastC3, kets3; rewrite map_app, lastdim_app; reflexivity).
  assert (Hw : (hl ++ [cs]) ++ hr = whole left lo p dr bo W X Y right ro) by (unfold whole; rewrite <- app_assoc; reflexivity).
  assert (GA : lastA3 R 1 ((hl ++ [cs]) ++ hr) = 1%nat).
  { rewrite Hw. unfold lastA3. rewrite whole_bras by assumption. rewrite lastdim_cj, lastdim_kchain_indep. exact Hk. }
  assert (GB : lastB3 R 1 ((hl ++ [cs]) ++ hr) = 1%nat).
  { rewrite Hw. unfold lastB3. rewrite whole_ops by assumption. rewrite lastdim_app. exact Ho. }
  assert (GC : lastC3 R 1 ((hl ++ [cs]) ++ hr) = 1%nat).
  { rewrite Hw. unfold lastC3. rewrite whole_kets by assumption. rewrite lastdim_kchain_indep. exact Hk. }
  assert (Hne : (hl ++ [cs]) ++ hr <> []) by (destruct hl; discriminate).
  transitivity (dot3 (lastA3 R 1 (hl ++ [cs])) (lastB3 R 1 (hl ++ [cs])) (lastC3 R 1 (hl ++ [cs]))
                     (envL3 1 1 1 sentinel (hl ++ [cs])) (envR3 hr sentinel)).
  { rewrite FA, FB, FC, EL. reflexivity. }
  rewrite (cut3_expectation R (hl ++ [cs]) hr Hne GA GB GC).
  rewrite (expectation3_dense R _ Hne GA GB GC). rewrite Hw.
  unfold dense3. rewrite whole_bras, whole_kets, whole_ops, whole_dims by assumption. fold ds.
  unfold ipV, Hdense. apply sumcfg_ext'. intros s'. rewrite <- sumcfg_scale_l. apply sumcfg_ext'. intros s0.
  rewrite amp_cj. unfold Pvec, kchain_of, kchain. rewrite !map_app. cbn [map fst snd]. ring.
Qed.

(* ------------------------------------------------------------------ isometries make the environments trivial *)
Notation dl := (EnvProofs.dl R).

Lemma delta_dl a b : @Cano.delta R a b = dl a b.
Proof. reflexivity. Qed.
Lemma dl_sym a b : dl a b = dl b a.
Proof. unfold EnvProofs.dl. rewrite Nat.eqb_sym. reflexivity. Qed.
Lemma id_op_dl b x e g : @id_op R b x e g = dl x e.
Proof. reflexivity. Qed.

Lemma stepL_iso d0 (E : E3 R) p d (t : T3 R) :
  (forall a c, (a < d0)%nat -> (c < d0)%nat -> E a 0%nat c = dl a c) ->
  left_iso R 1 d0 p d t ->
  forall a c, (a < d)%nat -> (c < d)%nat -> stepL3 d0 1 d0 E (self_site (p, d, t)) a 0%nat c = dl a c.
Proof.
  intros HE Hiso a c Ha Hc. unfold stepL3, cos_L3, sum3. cbn [self_site p3 bra3 op3 ket3]. unfold cj3.
  transitivity (sumn d0 (fun a' => sumn p (fun x => cj (t a' x a) * t a' x c))).
  - apply sumn_ext. intros a' Ha'. rewrite sumn_1.
    rewrite (sumn_ext R d0 _ (fun c' => dl c' a' * sumn p (fun x => cj (t a' x a) * t c' x c))).
    + apply sumn_delta_l. exact Ha'.
    + intros c' Hc'. rewrite HE by assumption. rewrite <- sumn_scale_l. apply sumn_ext. intros x Hx.
      rewrite (sumn_ext R p _ (fun e => dl e x * (dl a' c' * cj (t a' x a) * t c' e c))).
      * rewrite sumn_delta_l by exact Hx. rewrite (dl_sym c' a'). ring.
      * intros e He. rewrite id_op_dl, (dl_sym x e). ring.
  - rewrite (Hiso a c Ha Hc). rewrite delta_dl. ring.
Qed.

Lemma envL_iso (ks : list ksite) : forall d0 (E : E3 R),
  (forall a c, (a < d0)%nat -> (c < d0)%nat -> E a 0%nat c = dl a c) ->
  allP R (left_iso R 1) d0 (kdims R ks) (kchain R ks) ->
  forall f h, (f < lastdim d0 (kchain R ks))%nat -> (h < lastdim d0 (kchain R ks))%nat ->
  envL3 d0 1 d0 E (self_sand ks) f 0%nat h = dl f h.
Proof.
  induction ks as [|[[p d] t] ks IH]; intros d0 E HE Hall f h Hf Hh.
  - cbn in *. apply HE; assumption.
  - cbn [self_sand map envL3 self_site a3 b3 c3]. cbn [kdims kchain map allP fst snd] in Hall. destruct Hall as [Hiso Hall].
    cbn [kchain map fst snd] in Hf, Hh. rewrite lastdim_cons in Hf, Hh.
    apply (IH d (stepL3 d0 1 d0 E (self_site (p, d, t)))); try assumption.
    intros a c Ha Hc. apply stepL_iso; assumption.
Qed.

Lemma stepR_iso (E : E3 R) d0 p d (t : T3 R) :
  (forall a c, (a < d)%nat -> (c < d)%nat -> E a 0%nat c = dl a c) ->
  right_iso R 1 d0 p d t ->
  forall a c, (a < d0)%nat -> (c < d0)%nat -> stepR3 (self_site (p, d, t)) E a 0%nat c = dl a c.
Proof.
  intros HE Hiso a c Ha Hc. unfold stepR3, cos_R3, sum3. cbn [self_site p3 a3 b3 c3 bra3 op3 ket3]. unfold cj3.
  transitivity (sumn d (fun r => sumn p (fun x => cj (t a x r) * t c x r))).
  - apply sumn_ext. intros r Hr. rewrite sumn_1.
    rewrite (sumn_ext R d _ (fun r' => dl r' r * sumn p (fun x => cj (t a x r) * t c x r'))).
    + apply sumn_delta_l. exact Hr.
    + intros r' Hr'. rewrite <- sumn_scale_l. apply sumn_ext. intros x Hx.
      rewrite (sumn_ext R p _ (fun e => dl e x * (dl r r' * cj (t a x r) * t c e r'))).
      * rewrite sumn_delta_l by exact Hx. rewrite (dl_sym r' r). ring.
      * intros e He. rewrite HE by assumption. rewrite id_op_dl, (dl_sym x e). ring.
  - rewrite sumn_exchange. rewrite (Hiso a c Ha Hc). rewrite delta_dl. ring.
Qed.

Lemma envR_iso (ks : list ksite) : forall d0,
  lastdim d0 (kchain R ks) = 1%nat ->
  allP R (right_iso R 1) d0 (kdims R ks) (kchain R ks) ->
  forall f h, (f < d0)%nat -> (h < d0)%nat ->
  envR3 (self_sand ks) sentinel f 0%nat h = dl f h.
Proof.
  induction ks as [|[[p d] t] ks IH]; intros d0 Hl Hall f h Hf Hh.
  - cbn in Hl. subst d0. assert (f = 0%nat) by lia. assert (h = 0%nat) by lia. subst. reflexivity.
  - cbn [self_sand map envR3]. cbn [kdims kchain map allP fst snd] in Hall. destruct Hall as [Hiso Hall].
    cbn [kchain map fst snd] in Hl. rewrite lastdim_cons in Hl.
    apply (stepR_iso _ d0 p d t); try assumption.
    intros a c Ha Hc. apply (IH d); assumption.
Qed.

(* ------------------------------------------------------------------ P^dagger P = I *)
Lemma hsand_id (ks : list ksite) : hsand ks (idchain R ks) = self_sand ks.
Proof. induction ks as [|[[p d] t] ks IH]; [reflexivity|]. cbn [hsand idchain map combine hsite self_sand self_site]. f_equal. exact IH. Qed.

Lemma ipW3_ext da p dr (X Y Y' : T3 R) :
  (forall a d f, (a < da)%nat -> (d < p)%nat -> (f < dr)%nat -> Y a d f = Y' a d f) ->
  ipW3 da p dr X Y = ipW3 da p dr X Y'.
Proof.
  intros H. unfold ipW3. apply sumn_ext. intros f Hf. apply sumn_ext. intros a Ha. apply sumn_ext. intros d Hd.
  rewrite H by assumption. reflexivity.
Qed.

Lemma idchain_app (a b : list ksite) x : idchain R a ++ (1%nat, @id_op R) :: idchain R b = idchain R (a ++ x :: b).
Proof. unfold idchain. rewrite map_app. reflexivity. Qed.

Lemma Hdense_id (ks : list ksite) (y : vec R) s' : Forall2 lt s' (kdims R ks) ->
  Hdense (idchain R ks) (kdims R ks) y s' = y s'.
Proof.
  intros Hs'. unfold Hdense, opamp.
  rewrite (sumcfg_ext_bound R (kdims R ks) _ (fun s => deltas R s' s * y s)).
  - apply sumcfg_deltas. exact Hs'.
  - intros s Hs. rewrite chain4_id; [reflexivity| |].
    + rewrite (Forall2_lt_length _ _ Hs'). unfold kdims. apply map_length.
    + rewrite (Forall2_lt_length _ _ Hs). unfold kdims. apply map_length.
Qed.

Theorem P1_isometry left p dr right (X Y : T3 R) :
  allP R (left_iso R 1) 1 (kdims R left) (kchain R left) ->
  allP R (right_iso R 1) dr (kdims R right) (kchain R right) ->
  lastdim dr (kchain R right) = 1%nat ->
  let da := lastdim 1 (kchain R left) in
  let ds := kdims R left ++ p :: kdims R right in
  ipV ds (Pvec left dr right X) (Pvec left dr right Y) = ipW3 da p dr X Y.
Proof.
  intros HL HR Hk da ds.
  pose proof (heff1_is_projection left (idchain R left) p dr 1 (@id_op R) right (idchain R right) X Y) as HP.
  assert (Li : forall ks : list ksite, length (idchain R ks) = length ks) by (intros; unfold idchain; apply map_length).
  specialize (HP (Li left) (Li right) Hk (lastdim_id R right)). cbv zeta in HP. fold da ds in HP.
  rewrite lastdim_id in HP. rewrite !hsand_id in HP.
  transitivity (ipV ds (Pvec left dr right X) (Hdense (idchain R left ++ (1%nat, @id_op R) :: idchain R right) ds (Pvec left dr right Y))).
  - unfold ipV. apply sumcfg_ext_bound. intros s' Hs'. f_equal.
    rewrite (idchain_app left right (p, dr, Y)).
    assert (E : ds = kdims R (left ++ (p, dr, Y) :: right)) by (unfold ds, kdims; rewrite map_app; reflexivity).
    rewrite E. symmetry. apply Hdense_id. rewrite <- E. exact Hs'.
  - rewrite <- HP. apply ipW3_ext. intros a d f Ha Hd Hf. unfold heff1_apply.
    rewrite sumn_1.
    rewrite (sumn_ext R dr _ (fun h => dl h f * Y a d h)).
    + apply sumn_delta_l. exact Hf.
    + intros h Hh.
      rewrite (sumn_ext R da _ (fun c => dl c a * (Y c d h * dl h f))).
      * rewrite sumn_delta_l by exact Ha. ring.
      * intros c Hc. rewrite sumn_1.
        rewrite (sumn_ext R p _ (fun e => dl e d * (dl c a * Y c e h * dl h f))).
        -- rewrite sumn_delta_l by exact Hd. ring.
        -- intros e He. rewrite id_op_dl.
           rewrite (envL_iso left 1 sentinel) by (try assumption; intros a0 c0 Ha0 Hc0; assert (a0 = 0%nat) by lia; assert (c0 = 0%nat) by lia; subst; reflexivity).
           rewrite (envR_iso right dr Hk HR f h Hf Hh).
           rewrite (dl_sym a c), (dl_sym d e), (dl_sym f h). ring.
Qed.

(* ------------------------------------------------------------------ the hypotheses in the form C04 provides them *)
Lemma prefixP_allP (P : nat -> nat -> nat -> T3 R -> Prop) (a : chain R) : forall dsa dl rest_ds rest,
  length dsa = length a -> prefixP R P (length a) dl (dsa ++ rest_ds) (a ++ rest) -> allP R P dl dsa a.
Proof.
  induction a as [|[d t] a IH]; intros [|dp dsa] dl rest_ds rest Hlen H; try discriminate; [exact I|].
  cbn [length app prefixP] in H. destruct H as [H1 H2]. cbn [allP]. split; [exact H1|].
  apply (IH dsa d rest_ds rest); [cbn in Hlen; congruence|exact H2].
Qed.

Lemma afterP_allP (Q : nat -> nat -> nat -> T3 R -> Prop) (a : chain R) : forall dsa dl p dsb x b,
  length dsa = length a -> afterP R Q (length a) dl (dsa ++ p :: dsb) (a ++ x :: b) -> allP R Q (fst x) dsb b.
Proof.
  induction a as [|[d t] a IH]; intros [|dp dsa] dl p dsb [dx tx] b Hlen H; try discriminate.
  - cbn in H. exact H.
  - cbn [length app afterP] in H. apply (IH dsa d p dsb (dx, tx) b); [cbn in Hlen; congruence|exact H].
Qed.

(* canonical around the centre, stated on the whole chain exactly as C04_cano_isometry states it *)
Definition canonical_around (left : list ksite) p dr (C : T3 R) (right : list ksite) : Prop :=
  let ts := kchain R left ++ (dr, C) :: kchain R right in
  let ds := kdims R left ++ p :: kdims R right in
  prefixP R (left_iso R 1) (length left) 1 ds ts /\ afterP R (right_iso R 1) (length left) 1 ds ts.

Lemma canonical_blocks left p dr C right : canonical_around left p dr C right ->
  allP R (left_iso R 1) 1 (kdims R left) (kchain R left) /\ allP R (right_iso R 1) dr (kdims R right) (kchain R right).
Proof.
  intros [H1 H2]. cbv zeta in H1, H2.
  assert (E : length left = length (kchain R left)) by (unfold kchain; rewrite map_length; reflexivity).
  assert (E' : length (kdims R left) = length (kchain R left)) by (unfold kdims, kchain; rewrite !map_length; reflexivity).
  rewrite E in H1, H2. split.
  - apply (prefixP_allP _ _ _ _ _ _ E' H1).
  - apply (afterP_allP _ _ _ _ _ _ (dr, C) _ E' H2).
Qed.

(* the isometry hypotheses do not mention the centre tensor *)
Lemma blocks_canonical (P Q : nat -> nat -> nat -> T3 R -> Prop) (a : chain R) : forall dl dsa p dsb x b,
  length dsa = length a -> allP R P dl dsa a -> allP R Q (fst x) dsb b ->
  prefixP R P (length a) dl (dsa ++ p :: dsb) (a ++ x :: b) /\ afterP R Q (length a) dl (dsa ++ p :: dsb) (a ++ x :: b).
Proof.
  induction a as [|[d t] a IH]; intros dl [|dp dsa] p dsb [dx tx] b Hlen HP HQ; try discriminate.
  - cbn. split; [exact I|exact HQ].
  - cbn [allP] in HP. destruct HP as [H1 H2]. cbn [length app prefixP afterP].
    destruct (IH d dsa p dsb (dx, tx) b ltac:(cbn in Hlen; congruence) H2 HQ) as [I1 I2]. repeat split; assumption.
Qed.

Lemma canonical_around_indep left p dr C C' right : canonical_around left p dr C right -> canonical_around left p dr C' right.
Proof.
  intros H. destruct (canonical_blocks _ _ _ _ _ H) as [HL HR]. unfold canonical_around. cbv zeta.
  assert (E : length left = length (kchain R left)) by (unfold kchain; rewrite map_length; reflexivity).
  assert (E' : length (kdims R left) = length (kchain R left)) by (unfold kdims, kchain; rewrite !map_length; reflexivity).
  rewrite E. apply (blocks_canonical _ _ _ 1%nat _ p _ (dr, C') _ E' HL HR).
Qed.

(* ------------------------------------------------------------------ the mask *)
Lemma ipW3_mask_l m da p dr (X Y : T3 R) : ipW3 da p dr (maskT m X) (maskT m Y) = ipW3 da p dr (maskT m X) Y.
Proof.
  unfold ipW3, maskT. apply sumn_ext'. intros f. apply sumn_ext'. intros a. apply sumn_ext'. intros d.
  destruct (m a d f); [reflexivity|]. rewrite rcj_0. ring.
Qed.

Lemma maskT_idem m (X : T3 R) a d f : maskT m (maskT m X) a d f = maskT m X a d f.
Proof. unfold maskT. destruct (m a d f); reflexivity. Qed.

(* the masked one-site problem as a quadratic form:  <M C, (M H_eff M) C> = <P M C, H P M C>,  <P M C, P M C> = <M C, M C> *)
Theorem heff1_masked_form m left lo p dr bo (W : T4 R) right ro (C : T3 R) :
  length lo = length left -> length ro = length right ->
  lastdim dr (kchain R right) = 1%nat -> lastdim bo ro = 1%nat ->
  let da := lastdim 1 (kchain R left) in
  let db := lastdim 1 lo in
  let L := envL3 1 1 1 sentinel (hsand left lo) in
  let Rt := envR3 (hsand right ro) sentinel in
  let ds := kdims R left ++ p :: kdims R right in
  ipW3 da p dr (maskT m C) (maskT m (heff1_masked m da db p dr bo L Rt W C)) =
  ipV ds (Pvec left dr right (maskT m C)) (Hdense (lo ++ (bo, W) :: ro) ds (Pvec left dr right (maskT m C))).
Proof.
  intros H1 H2 Hk Ho da db L Rt ds. unfold heff1_masked.
  rewrite !ipW3_mask_l. apply heff1_is_projection; assumption.
Qed.

(* ------------------------------------------------------------------ the bound, unconditionally for the chain *)
Section Bound.
Variables rle rlt : R -> R -> Prop.
Variable sor : SOR (r0 R) (r1 R) (radd R) (rmul R) (rsub R) (ropp R) (@eq R) rle rlt.

(* Every Rayleigh quotient e of the masked one-site effective Hamiltonian of a chain that is canonical around the
   centre is >= every lower bound lam of the Rayleigh quotients of the dense Hamiltonian on the sector S,
   provided the mask keeps P c in the sector. *)
Theorem chain_energy_bound m left lo p dr bo (W : T4 R) right ro (C0 : T3 R) (S : vec R -> Prop) (lam : R) :
  length lo = length left -> length ro = length right ->
  lastdim dr (kchain R right) = 1%nat -> lastdim bo ro = 1%nat ->
  canonical_around left p dr C0 right ->
  let da := lastdim 1 (kchain R left) in
  let db := lastdim 1 lo in
  let L := envL3 1 1 1 sentinel (hsand left lo) in
  let Rt := envR3 (hsand right ro) sentinel in
  let ds := kdims R left ++ p :: kdims R right in
  let ops := lo ++ (bo, W) :: ro in
  (forall C, S (Pvec left dr right (maskT m C))) ->
  (forall x, S x -> rle (lam * ipV ds x x) (ipV ds x (Hdense ops ds x))) ->
  forall (C : T3 R) (e : R),
  is_rayleigh R (r0 R) (rmul R) (@eq R) rlt e
    (ipW3 da p dr (maskT m C) (maskT m C))
    (ipW3 da p dr (maskT m C) (heff1_masked m da db p dr bo L Rt W C)) ->
  rle lam e.
Proof.
  intros H1 H2 Hk Ho Hcan da db L Rt ds ops Hrange Hlower C e Hray.
  destruct (canonical_blocks _ _ _ _ _ Hcan) as [HL HR].
  apply (variational_bound_forms R (r0 R) (r1 R) (radd R) (rmul R) (rsub R) (ropp R) (@eq R) rle rlt sor
           (vec R) (T3 R) (ipV ds) (fun X Y => ipW3 da p dr (maskT m X) (maskT m Y))
           (Hdense ops ds) (fun X => Pvec left dr right (maskT m X))
           (heff1_masked m da db p dr bo L Rt W) S) with (c := C).
  - intros X. apply heff1_masked_form; assumption.
  - intros X. apply P1_isometry; assumption.
  - exact Hrange.
  - exact Hlower.
  - destruct Hray as [Hp He]. split; [exact Hp|]. rewrite He. unfold heff1_masked. rewrite !ipW3_mask_l. reflexivity.
Qed.
End Bound.

End HeffProofs.
