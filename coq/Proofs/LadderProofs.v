(* C16 -- proofs about the truncated oscillator in the rational similarity picture (Model/Ladder.v)
   and about the table generated from BasisSHO.op_mat (Gen/ShoTable.v). *)
From Coq Require Import QArith ZArith List String Bool Arith Lia Qring.
Import ListNotations.
From RV Require Import Model.Ladder Gen.ShoTable.
Close Scope Q_scope.
Local Open Scope Q_scope.

(* ------------------------------------------------------------------ finite sums *)
Lemma qsum_ext K f g : (forall k, (k < K)%nat -> f k == g k) -> qsum K f == qsum K g.
Proof.
  induction K as [|K IH]; intros H; cbn [qsum]; [reflexivity|].
  rewrite IH by (intros; apply H; lia). rewrite (H K) by lia. reflexivity.
Qed.

Lemma qsum_zero K f : (forall k, (k < K)%nat -> f k == 0) -> qsum K f == 0.
Proof.
  induction K as [|K IH]; intros H; cbn [qsum]; [reflexivity|].
  rewrite IH by (intros; apply H; lia). rewrite (H K) by lia. ring.
Qed.

Lemma qsum_delta K f k0 :
  (forall k, (k < K)%nat -> k <> k0 -> f k == 0) ->
  qsum K f == if (k0 <? K)%nat then f k0 else 0.
Proof.
  induction K as [|K IH]; intros H; cbn [qsum].
  - reflexivity.
  - rewrite IH by (intros; apply H; lia).
    destruct (Nat.ltb_spec k0 K) as [Hlt|Hge].
    + destruct (Nat.ltb_spec k0 (S K)); [|lia]. rewrite (H K) by lia. ring.
    + destruct (Nat.ltb_spec k0 (S K)) as [Hlt'|Hge'].
      * assert (k0 = K) by lia. subst. ring.
      * rewrite (H K) by lia. ring.
Qed.

Lemma qsum_bilin3 K x1 x2 x3 y1 y2 y3 (f1 f2 f3 g1 g2 g3 : nat -> Q) :
  qsum K (fun k => (x1 * f1 k + x2 * f2 k + x3 * f3 k) * (y1 * g1 k + y2 * g2 k + y3 * g3 k)) ==
    x1 * y1 * qsum K (fun k => f1 k * g1 k) + x1 * y2 * qsum K (fun k => f1 k * g2 k) + x1 * y3 * qsum K (fun k => f1 k * g3 k)
  + x2 * y1 * qsum K (fun k => f2 k * g1 k) + x2 * y2 * qsum K (fun k => f2 k * g2 k) + x2 * y3 * qsum K (fun k => f2 k * g3 k)
  + x3 * y1 * qsum K (fun k => f3 k * g1 k) + x3 * y2 * qsum K (fun k => f3 k * g2 k) + x3 * y3 * qsum K (fun k => f3 k * g3 k).
Proof.
  induction K as [|K IH]; cbn [qsum]; [ring|]. rewrite IH. ring.
Qed.

Lemma mmul_ext K A A' B B' m n :
  (forall k, (k < K)%nat -> A m k == A' m k) -> (forall k, (k < K)%nat -> B k n == B' k n) ->
  mmul K A B m n == mmul K A' B' m n.
Proof.
  intros HA HB. unfold mmul. apply qsum_ext. intros k Hk. rewrite (HA k Hk), (HB k Hk). reflexivity.
Qed.

(* ------------------------------------------------------------------ qn *)
Lemma qn_S n : qn (n + 1) == qn n + 1.
Proof. unfold qn. rewrite Nat2Z.inj_add, inject_Z_plus. reflexivity. Qed.
Lemma qn_0 : qn 0 == 0.
Proof. reflexivity. Qed.

(* ------------------------------------------------------------------ products of the ladder monomials over K levels *)
Ltac eqbs :=
  repeat match goal with
         | |- context [(?a =? ?b)%nat] => destruct (Nat.eqb_spec a b)
         | |- context [(?a <? ?b)%nat] => destruct (Nat.ltb_spec a b)
         end.
Ltac fin := try (exfalso; lia); try ring.

Lemma prod_b_b K m n : (m < K)%nat -> (n < K)%nat ->
  qsum K (fun k => mono_inf Mb m k * mono_inf Mb k n) == mono_inf Mbb m n.
Proof.
  intros Hm Hn. rewrite (qsum_delta _ _ (m + 1)%nat).
  - cbn [mono_inf]. eqbs; fin.
    subst. replace (m + 1 + 1 - 1)%nat with (m + 1)%nat by lia. ring.
  - intros k Hk Hne. cbn [mono_inf]. eqbs; fin.
Qed.

Lemma prod_b_bd K m n : (m < K)%nat -> (n < K)%nat ->
  qsum K (fun k => mono_inf Mb m k * mono_inf Mbd k n) == if (m + 1 <? K)%nat then mono_inf Mbbd m n else 0.
Proof.
  intros Hm Hn. rewrite (qsum_delta _ _ (m + 1)%nat).
  - cbn [mono_inf]. eqbs; fin. subst. ring.
  - intros k Hk Hne. cbn [mono_inf]. eqbs; fin.
Qed.

Lemma prod_bd_b K m n : (m < K)%nat -> (n < K)%nat ->
  qsum K (fun k => mono_inf Mbd m k * mono_inf Mb k n) == mono_inf Mbdb m n.
Proof.
  intros Hm Hn. rewrite (qsum_delta _ _ (m - 1)%nat).
  - cbn [mono_inf]. eqbs; fin.
    assert (m = 0)%nat by lia. subst. rewrite qn_0. ring.
  - intros k Hk Hne. cbn [mono_inf]. eqbs; fin.
Qed.

Lemma prod_bd_bd K m n : (m < K)%nat -> (n < K)%nat ->
  qsum K (fun k => mono_inf Mbd m k * mono_inf Mbd k n) == mono_inf Mbdbd m n.
Proof.
  intros Hm Hn. rewrite (qsum_delta _ _ (m - 1)%nat).
  - cbn [mono_inf]. eqbs; fin.
  - intros k Hk Hne. cbn [mono_inf]. eqbs; fin.
Qed.

Lemma prod_I_l K (mo : mono) m n : (m < K)%nat -> (n < K)%nat ->
  qsum K (fun k => mono_inf MI m k * mono_inf mo k n) == mono_inf mo m n.
Proof.
  intros Hm Hn. rewrite (qsum_delta _ _ m).
  - destruct (Nat.ltb_spec m K); [|lia]. cbn [mono_inf]. rewrite Nat.eqb_refl. ring.
  - intros k Hk Hne. cbn [mono_inf]. destruct (Nat.eqb_spec m k); [congruence|]. ring.
Qed.

Lemma prod_I_r K (mo : mono) m n : (m < K)%nat -> (n < K)%nat ->
  qsum K (fun k => mono_inf mo m k * mono_inf MI k n) == mono_inf mo m n.
Proof.
  intros Hm Hn. rewrite (qsum_delta _ _ n).
  - destruct (Nat.ltb_spec n K); [|lia]. cbn [mono_inf]. rewrite Nat.eqb_refl. ring.
  - intros k Hk Hne. cbn [mono_inf]. destruct (Nat.eqb_spec k n); [congruence|]. ring.
Qed.

(* b b+ = b+ b + 1 *)
Lemma mono_bbd m n : mono_inf Mbbd m n == mono_inf Mbdb m n + mono_inf MI m n.
Proof. cbn [mono_inf]. destruct (Nat.eqb_spec m n); [rewrite qn_S|]; ring. Qed.

(* ------------------------------------------------------------------ normal-form vectors *)
Lemma comb_vsem c m n : comb_inf c m n == vsem (vec_of c) m n.
Proof.
  induction c as [|[q mo] r IH].
  - unfold vsem, vec_of. cbn [comb_inf coef]. ring.
  - cbn [comb_inf]. rewrite IH. unfold vsem, vec_of. cbn [coef].
    destruct mo; cbn [mono_eqb]; ring.
Qed.

Lemma vsem_vcanon v m n : vsem (vcanon v) m n == vsem v m n.
Proof. unfold vsem. cbn [vcanon]. rewrite (mono_bbd m n). ring. Qed.

Lemma veqb_sound u v : veqb u v = true -> forall m n, vsem u m n == vsem v m n.
Proof.
  unfold veqb, monos. cbn [forallb]. intros H m n.
  repeat (apply andb_true_iff in H; destruct H as [?H H]).
  repeat match goal with X : Qeq_bool _ _ = true |- _ => apply Qeq_bool_eq in X end.
  rewrite <- (vsem_vcanon u), <- (vsem_vcanon v). unfold vsem.
  repeat match goal with X : vcanon u _ == _ |- _ => rewrite X; clear X end. reflexivity.
Qed.

Lemma vsem_vscale c v m n : vsem (vscale c v) m n == c * vsem v m n.
Proof. unfold vsem, vscale. ring. Qed.
Lemma vsem_vadd u v m n : vsem (vadd u v) m n == vsem u m n + vsem v m n.
Proof. unfold vsem, vadd. ring. Qed.
Lemma vsem_vsub u v m n : vsem (vsub u v) m n == vsem u m n - vsem v m n.
Proof. unfold vsem, vsub. ring. Qed.
Lemma vsem_vunit m n : vsem vunit m n == mono_inf MI m n.
Proof. unfold vsem, vunit. ring. Qed.

Lemma deg1b_spec v : deg1b v = true -> v Mbb == 0 /\ v Mbdbd == 0 /\ v Mbdb == 0 /\ v Mbbd == 0.
Proof.
  unfold deg1b. intros H. repeat (apply andb_true_iff in H; destruct H as [H ?H]).
  repeat match goal with X : Qeq_bool _ _ = true |- _ => apply Qeq_bool_eq in X end. tauto.
Qed.

Lemma vsem_deg1 v m n : deg1b v = true ->
  vsem v m n == v Mb * mono_inf Mb m n + v Mbd * mono_inf Mbd m n + v MI * mono_inf MI m n.
Proof.
  intros H. destruct (deg1b_spec v H) as (H1 & H2 & H3 & H4). unfold vsem. rewrite H1, H2, H3, H4. ring.
Qed.

(* product of two combinations of degree <= 1 over K levels: the normal-form product, minus the one term that
   needs level m+1 when that level is not among the K *)
Lemma mmul_deg1 K a b m n : deg1b a = true -> deg1b b = true -> (m < K)%nat -> (n < K)%nat ->
  mmul K (vsem a) (vsem b) m n ==
    vsem (vmul1 a b) m n - (if (m + 1 <? K)%nat then 0 else a Mb * b Mbd * mono_inf Mbbd m n).
Proof.
  intros Ha Hb Hm Hn.
  rewrite (mmul_ext K (vsem a) (fun m k => a Mb * mono_inf Mb m k + a Mbd * mono_inf Mbd m k + a MI * mono_inf MI m k)
                      (vsem b) (fun k n => b Mb * mono_inf Mb k n + b Mbd * mono_inf Mbd k n + b MI * mono_inf MI k n))
    by (intros; apply vsem_deg1; assumption).
  unfold mmul. rewrite qsum_bilin3.
  rewrite (prod_b_b K m n Hm Hn), (prod_b_bd K m n Hm Hn), (prod_bd_b K m n Hm Hn), (prod_bd_bd K m n Hm Hn).
  rewrite !(prod_I_l K _ m n Hm Hn), !(prod_I_r K _ m n Hm Hn).
  unfold vsem. cbn [vmul1]. destruct (m + 1 <? K)%nat; ring.
Qed.

(* ------------------------------------------------------------------ scalars *)
Lemma key_eqb_eq a b : key_eqb a b = true -> a = b.
Proof.
  destruct a as [[a1 a2] a3], b as [[b1 b2] b3]. cbn [key_eqb]. intros H.
  repeat (apply andb_true_iff in H; destruct H as [H ?H]).
  apply Z.eqb_eq in H, H0, H1. congruence.
Qed.

(* the normal form (sc_rat, sc_key) and the product sc_mul agree with the arithmetic of Q(sqrt 2, i) at
   sqrt(omega) = 2/3 and 5, for all exponents  sw in [-4,4], s2 in [-5,5], si in [-6,6]  (bounded sweep) *)
Lemma scal_normal_form_partial : scal_nf_ok (2 # 3) = true /\ scal_nf_ok 5 = true.
Proof. vm_compute. split; reflexivity. Qed.

Lemma k4_units : k4_mul k4_t k4_t = k4_of 2 /\ k4_mul k4_i k4_i = k4_of (- (1)) /\
                 k4_mul k4_t k4_tinv = k4_of 1 /\ k4_mul k4_i k4_iinv = k4_of 1.
Proof. vm_compute. repeat split; reflexivity. Qed.

Lemma sc_rat_comm a b : sc_rat (sc_mul a b) == sc_rat (sc_mul b a).
Proof. unfold sc_rat, sc_mul. cbn [sq s2 si]. rewrite (Z.add_comm (s2 a)), (Z.add_comm (si a)). ring. Qed.

(* ------------------------------------------------------------------ table entries *)
Lemma rmat_vsem e m n : rmat e m n == vsem (vscale (sc_rat (fst e)) (vec_of (snd e))) m n.
Proof. unfold rmat. rewrite comb_vsem, vsem_vscale. reflexivity. Qed.

Definition corner (ea eb : entry) : Q :=
  sc_rat (sc_mul (fst ea) (fst eb)) * coef (snd ea) Mb * coef (snd eb) Mbd.

Lemma rprod_vsem K ea eb m n :
  deg1b (vec_of (snd ea)) = true -> deg1b (vec_of (snd eb)) = true -> (m < K)%nat -> (n < K)%nat ->
  rprod K ea eb m n ==
    vsem (vscale (sc_rat (sc_mul (fst ea) (fst eb))) (vmul1 (vec_of (snd ea)) (vec_of (snd eb)))) m n
    - (if (m + 1 <? K)%nat then 0 else corner ea eb * mono_inf Mbbd m n).
Proof.
  intros Ha Hb Hm Hn. unfold rprod, corner.
  rewrite (mmul_ext K _ (vsem (vec_of (snd ea))) _ (vsem (vec_of (snd eb)))) by (intros; apply comb_vsem).
  rewrite (mmul_deg1 K _ _ m n Ha Hb Hm Hn), vsem_vscale. unfold vec_of.
  destruct (m + 1 <? K)%nat; ring.
Qed.

(* the statement proved for each product symbol *)
Definition product_stmt (t : table) (p : string * string * string) : Prop :=
  let '(sab, sa, sb) := p in
  exists eab ea eb,
    lookup sab t = Some eab /\ lookup sa t = Some ea /\ lookup sb t = Some eb /\
    sc_key (fst eab) = sc_key (sc_mul (fst ea) (fst eb)) /\
    (* = product of the UNTRUNCATED factors (any K >= N+1 levels), restricted to N levels *)
    (forall N K m n, (m < N)%nat -> (n < N)%nat -> (N + 1 <= K)%nat -> rmat eab m n == rprod K ea eb m n) /\
    (* product of the factors TRUNCATED to N levels: differs in the single entry (N-1, N-1) *)
    (forall N m n, (m < N)%nat -> (n < N)%nat ->
       rmat eab m n == rprod N ea eb m n
                       + (if (m + 1 =? N)%nat && (n + 1 =? N)%nat then corner ea eb * qn N else 0)).

Lemma product_check_sound t p : product_check t p = true -> product_stmt t p.
Proof.
  destruct p as [[sab sa] sb]. unfold product_check, product_stmt.
  destruct (lookup sab t) as [eab|]; [|discriminate].
  destruct (lookup sa t) as [ea|]; [|discriminate].
  destruct (lookup sb t) as [eb|]; [|discriminate].
  intros H. apply andb_true_iff in H as [H H0]. apply andb_true_iff in H as [H H1]. apply andb_true_iff in H as [Hk H2].
  exists eab, ea, eb. repeat split; try reflexivity.
  - now apply key_eqb_eq.
  - intros N K m n Hm Hn HK. rewrite rmat_vsem, (veqb_sound _ _ H0 m n).
    rewrite rprod_vsem by (assumption || lia).
    destruct (Nat.ltb_spec (m + 1) K); [ring|lia].
  - intros N m n Hm Hn. rewrite rmat_vsem, (veqb_sound _ _ H0 m n).
    rewrite rprod_vsem by (assumption || lia). cbn [mono_inf].
    destruct (Nat.ltb_spec (m + 1) N), (Nat.eqb_spec (m + 1) N), (Nat.eqb_spec (n + 1) N), (Nat.eqb_spec m n);
      cbn [andb]; try (exfalso; lia); try ring.
    subst. replace (n + 1)%nat with (n + 1)%nat by reflexivity. ring.
Qed.

Lemma sho_products_checked : forallb (product_check sho_table) product_symbols = true.
Proof. vm_compute. reflexivity. Qed.

Theorem sho_product_symbols : forall p, In p product_symbols -> product_stmt sho_table p.
Proof.
  intros p Hin. apply product_check_sound.
  pose proof sho_products_checked as H. rewrite forallb_forall in H. now apply H.
Qed.

(* ------------------------------------------------------------------ sums and scalar multiples *)
Definition sum_stmt (t : table) (p : string * Q * string * string) : Prop :=
  let '(ss, sg, sa, sb) := p in
  exists es ea eb,
    lookup ss t = Some es /\ lookup sa t = Some ea /\ lookup sb t = Some eb /\
    sc_key (fst es) = sc_key (fst ea) /\ sc_key (fst es) = sc_key (fst eb) /\
    forall m n, rmat es m n == rmat ea m n + sg * rmat eb m n.

Lemma sum_check_sound t p : sum_check t p = true -> sum_stmt t p.
Proof.
  destruct p as [[[ss sg] sa] sb]. unfold sum_check, sum_stmt.
  destruct (lookup ss t) as [es|]; [|discriminate].
  destruct (lookup sa t) as [ea|]; [|discriminate].
  destruct (lookup sb t) as [eb|]; [|discriminate].
  intros H. apply andb_true_iff in H as [H H0]. apply andb_true_iff in H as [Hk1 Hk2].
  exists es, ea, eb. repeat split; try reflexivity; try (now apply key_eqb_eq).
  intros m n. rewrite rmat_vsem, (veqb_sound _ _ H0 m n), vsem_vadd, !vsem_vscale.
  unfold rmat. rewrite !comb_vsem. ring.
Qed.

Theorem sho_sum_symbols : forall p, In p sum_symbols -> sum_stmt sho_table p.
Proof.
  intros p Hin. apply sum_check_sound.
  assert (H : forallb (sum_check sho_table) sum_symbols = true) by (vm_compute; reflexivity).
  rewrite forallb_forall in H. now apply H.
Qed.

Definition scalar_stmt (t : table) (p : string * scal * string) : Prop :=
  let '(sa, c, sb) := p in
  exists ea eb,
    lookup sa t = Some ea /\ lookup sb t = Some eb /\
    sc_key (fst ea) = sc_key (sc_mul c (fst eb)) /\
    forall m n, rmat ea m n == sc_rat (sc_mul c (fst eb)) * comb_inf (snd eb) m n.

Lemma scalar_check_sound t p : scalar_check t p = true -> scalar_stmt t p.
Proof.
  destruct p as [[sa c] sb]. unfold scalar_check, scalar_stmt.
  destruct (lookup sa t) as [ea|]; [|discriminate].
  destruct (lookup sb t) as [eb|]; [|discriminate].
  intros H. apply andb_true_iff in H as [Hk H0].
  exists ea, eb. repeat split; try reflexivity; try (now apply key_eqb_eq).
  intros m n. rewrite rmat_vsem, (veqb_sound _ _ H0 m n), vsem_vscale, comb_vsem. reflexivity.
Qed.

Theorem sho_scalar_symbols : forall p, In p scalar_symbols -> scalar_stmt sho_table p.
Proof.
  intros p Hin. apply scalar_check_sound.
  assert (H : forallb (scalar_check sho_table) scalar_symbols = true) by (vm_compute; reflexivity).
  rewrite forallb_forall in H. now apply H.
Qed.

(* ------------------------------------------------------------------ canonical commutator *)
Definition commutator_stmt (t : table) : Prop :=
  exists exp epx ex ep,
    lookup "x p"%string t = Some exp /\ lookup "p x"%string t = Some epx /\
    lookup "x"%string t = Some ex /\ lookup "p"%string t = Some ep /\
    (* the prefactor of "x p", "p x" and of x times p is i times a rational *)
    sc_key (fst exp) = sc_key sc_i /\ sc_key (fst epx) = sc_key sc_i /\
    sc_key (sc_mul (fst ex) (fst ep)) = sc_key sc_i /\
    (* symbols: "x p" - "p x" = i 1 on all N levels *)
    (forall m n, rmat exp m n - rmat epx m n == if (m =? n)%nat then 1 else 0) /\
    (* truncated factors: x_N p_N - p_N x_N = i 1 on levels < N-1, and i (1 - N) at level N-1 *)
    (forall N m n, (m < N)%nat -> (n < N)%nat ->
       rprod N ex ep m n - rprod N ep ex m n ==
         if (m =? n)%nat then (if (m + 1 =? N)%nat then 1 - qn N else 1) else 0).

Lemma commutator_check_sound t : commutator_check t = true -> commutator_stmt t.
Proof.
  unfold commutator_check, commutator_stmt.
  destruct (lookup "x p"%string t) as [exp|]; [|discriminate].
  destruct (lookup "p x"%string t) as [epx|]; [|discriminate].
  destruct (lookup "x"%string t) as [ex|]; [|discriminate].
  destruct (lookup "p"%string t) as [ep|]; [|discriminate].
  intros H. apply andb_true_iff in H as [H H0]. apply andb_true_iff in H as [H H1]. apply andb_true_iff in H as [H Hdp].
  apply andb_true_iff in H as [H Hdx]. apply andb_true_iff in H as [H Hk3]. apply andb_true_iff in H as [H H5].
  apply andb_true_iff in H as [Hk1 Hk2].
  apply Qeq_bool_eq in H0.
  exists exp, epx, ex, ep. repeat split; try reflexivity; try (now apply key_eqb_eq).
  - intros m n. rewrite !rmat_vsem, <- vsem_vsub, (veqb_sound _ _ H5 m n), vsem_vunit. reflexivity.
  - intros N m n Hm Hn. rewrite !rprod_vsem by assumption.
    pose proof (sc_rat_comm (fst ep) (fst ex)) as Hr.
    pose proof (veqb_sound _ _ H1 m n) as Hv. rewrite vsem_vscale, vsem_vsub, vsem_vunit in Hv.
    rewrite !vsem_vscale. unfold corner.
    cbn [mono_inf] in *.
    destruct (Nat.ltb_spec (m + 1) N), (Nat.eqb_spec (m + 1) N), (Nat.eqb_spec m n); try (exfalso; lia); rewrite ?Hr.
    + etransitivity; [|exact Hv]. ring.
    + etransitivity; [|exact Hv]. ring.
    + subst n N.
      transitivity (sc_rat (sc_mul (fst ex) (fst ep))
                    * (vsem (vmul1 (vec_of (snd ex)) (vec_of (snd ep))) m m - vsem (vmul1 (vec_of (snd ep)) (vec_of (snd ex))) m m)
                    - (sc_rat (sc_mul (fst ex) (fst ep))
                       * (coef (snd ex) Mb * coef (snd ep) Mbd - coef (snd ep) Mb * coef (snd ex) Mbd)) * qn (m + 1)).
      { ring. }
      rewrite Hv, H0. ring.
    + etransitivity; [|exact Hv]. ring.
Qed.

Theorem sho_commutator : commutator_stmt sho_table.
Proof. apply commutator_check_sound. vm_compute. reflexivity. Qed.

(* ------------------------------------------------------------------ shifted origin *)
Definition term_stmt (t : table) (tm : nat * scal * comb) (sp : nat * Q * string) : Prop :=
  let '(e, s, c) := tm in let '(e', q, sym) := sp in
  exists en, lookup sym t = Some en /\ e = e' /\ sc_key s = sc_key (fst en) /\
             forall m n, sc_rat s * comb_inf c m n == q * rmat en m n.

Lemma term_matches_sound t tm sp : term_matches t tm sp = true -> term_stmt t tm sp.
Proof.
  destruct tm as [[e s] c], sp as [[e' q] sym]. unfold term_matches, term_stmt.
  destruct (lookup sym t) as [en|]; [|discriminate].
  intros H. apply andb_true_iff in H as [H H0]. apply andb_true_iff in H as [He Hk].
  exists en. repeat split; try reflexivity.
  - now apply Nat.eqb_eq.
  - now apply key_eqb_eq.
  - intros m n. rewrite comb_vsem, <- vsem_vscale, (veqb_sound _ _ H0 m n), vsem_vscale.
    unfold rmat. rewrite comb_vsem. ring.
Qed.

Lemma terms_match_sound t tms : forall sps, terms_match t tms sps = true -> Forall2 (term_stmt t) tms sps.
Proof.
  induction tms as [|tm r IH]; intros [|sp r'] H; cbn [terms_match] in H; try discriminate.
  - constructor.
  - apply andb_true_iff in H. destruct H as [H1 H2]. constructor; [now apply term_matches_sound|now apply IH].
Qed.

(* value(sym; x0) = sum over the specification's terms  x0^e * q * value(plain symbol; 0) *)
Definition shift_stmt (sym : string) : Prop :=
  exists tms sps, lookup sym sho_table_x0 = Some tms /\ lookup sym shift_spec = Some sps /\
                  Forall2 (term_stmt sho_table) tms sps.

Theorem sho_shifted_origin : forall sym, In sym shift_symbols -> shift_stmt sym.
Proof.
  intros sym Hin.
  assert (H : forallb (shift_check sho_table sho_table_x0) shift_symbols = true) by (vm_compute; reflexivity).
  rewrite forallb_forall in H. specialize (H sym Hin). unfold shift_check in H. unfold shift_stmt. unfold comb in *.
  destruct (lookup sym sho_table_x0) as [tms|]; [|discriminate H].
  destruct (lookup sym shift_spec) as [sps|]; [|discriminate H].
  exists tms, sps. repeat split. now apply terms_match_sound.
Qed.

(* DVR variant: every position/momentum symbol is returned in the DVR frame *)
Theorem sho_dvr_frame : forall s, In s dvr_frame_symbols ->
  exists k, lookup s sho_dvr = Some k /\ dvr_in_frame k = true.
Proof.
  intros s Hin.
  assert (H : forallb (dvr_check sho_dvr) dvr_frame_symbols = true) by (vm_compute; reflexivity).
  rewrite forallb_forall in H. specialize (H s Hin). unfold dvr_check in H.
  destruct (lookup s sho_dvr) as [k|]; [|discriminate H]. exists k. split; [reflexivity|exact H].
Qed.

(* the x0 = 0 table is the x0-power-0 part of the full table *)
Definition plain_part_ok (sym : string) : bool :=
  match lookup sym sho_table, lookup sym sho_table_x0 with
  | Some e, Some tms =>
      match filter (fun tm => (fst (fst tm) =? 0)%nat) tms with
      | [] => veqb (vec_of (snd e)) (fun _ => 0)
      | [(_, s, c)] => key_eqb (sc_key s) (sc_key (fst e)) && veqb (vscale (sc_rat s) (vec_of c)) (vscale (sc_rat (fst e)) (vec_of (snd e)))
      | _ => false
      end
  | _, _ => false
  end.
Lemma sho_tables_consistent : forallb plain_part_ok (map fst sho_table) = true /\ map fst sho_table = map fst sho_table_x0.
Proof. vm_compute. split; reflexivity. Qed.

(* ------------------------------------------------------------------ HOPS boson *)
Lemma hops_number N m n : (m < N)%nat -> (n < N)%nat ->
  mmul N hops_bd hops_b m n == if (m =? n)%nat then qn n else 0.
Proof.
  intros Hm Hn. unfold mmul. rewrite (qsum_delta _ _ (m - 1)%nat).
  - unfold hops_bd, hops_b. eqbs; fin; try (match goal with E : m = n |- _ => rewrite <- E end; ring).
    assert (m = 0)%nat by lia. subst. rewrite qn_0. ring.
  - intros k Hk Hne. unfold hops_bd, hops_b. eqbs; fin.
Qed.

Lemma hops_commutator N m n : (m < N)%nat -> (n < N)%nat ->
  mmul N hops_b hops_bd m n - mmul N hops_bd hops_b m n ==
    if (m =? n)%nat then (if (m + 1 =? N)%nat then 1 - qn N else 1) else 0.
Proof.
  intros Hm Hn. rewrite hops_number by assumption. unfold mmul. rewrite (qsum_delta _ _ (m + 1)%nat).
  - unfold hops_bd, hops_b. eqbs; fin; subst; rewrite qn_S; ring.
  - intros k Hk Hne. unfold hops_bd, hops_b. eqbs; fin.
Qed.

(* ------------------------------------------------------------------ general power formula, bounded sweep *)
Lemma nth_tab {A} K (f : nat -> A) (d : A) n : (n < K)%nat -> nth n (map f (seq 0 K)) d = f n.
Proof.
  intros H. rewrite (nth_indep _ d (f 0%nat)) by (rewrite map_length, seq_length; exact H).
  rewrite map_nth, seq_nth by exact H. reflexivity.
Qed.

Lemma memo_ok K A m n : (m < K)%nat -> (n < K)%nat -> memo K A m n == A m n.
Proof.
  intros Hm Hn. unfold memo, of_tab, tabulate.
  rewrite (nth_tab K (fun m => map (fun n => Qred (A m n)) (seq 0 K)) [] m Hm).
  rewrite (nth_tab K (fun n => Qred (A m n)) 0 n Hn). apply Qred_correct.
Qed.

Lemma mpow_memo_ok K A k : forall m n, (m < K)%nat -> (n < K)%nat -> mpow_memo K A k m n == mpow K A k m n.
Proof.
  induction k as [|k IH]; intros m n Hm Hn; cbn [mpow_memo mpow]; [reflexivity|].
  rewrite memo_ok by assumption. apply mmul_ext; intros; [apply IH; assumption|reflexivity].
Qed.

Lemma range_ok_spec f K A kmax mmax :
  range_ok f K A kmax mmax = true ->
  forall k m n, (k <= kmax)%nat -> (m <= mmax)%nat -> (n <= mmax)%nat -> f (mpow_memo K A k) k m n = true.
Proof.
  unfold range_ok. intros H k m n Hk Hm Hn.
  rewrite forallb_forall in H.
  assert (Hk' : In k (seq 0 (S kmax))) by (apply in_seq; lia).
  specialize (H k Hk'). cbv beta zeta in H.
  rewrite forallb_forall in H.
  assert (Hm' : In m (seq 0 (S mmax))) by (apply in_seq; lia).
  specialize (H m Hm'). rewrite forallb_forall in H. apply H. apply in_seq. lia.
Qed.

(* x_power_k: for k <= 8 and m, n <= 12 the closed formula equals the k-th power of b~ + b~+ taken over 24 levels
   (24 > 12 + 8, so no path of length k between levels <= 12 leaves the 24 levels: it is the untruncated power) *)
Theorem x_power_partial : forall k m n, (k <= 8)%nat -> (m <= 12)%nat -> (n <= 12)%nat ->
  xpow_rat k m n == mpow 24 Xr k m n.
Proof.
  intros k m n Hk Hm Hn.
  assert (H : range_ok xpow_ok 24 Xr 8 12 = true) by (vm_compute; reflexivity).
  pose proof (range_ok_spec _ _ _ _ _ H k m n Hk Hm Hn) as H1. unfold xpow_ok in H1.
  apply Qeq_bool_eq in H1. rewrite H1. apply mpow_memo_ok; lia.
Qed.

(* p_power_k = x_power_k * i^(m-n):  (b~+ - b~)^k [m,n] = (-1)^((k+n-m)/2) * (b~+ + b~)^k [m,n] *)
Theorem p_power_partial : forall k m n, (k <= 8)%nat -> (m <= 12)%nat -> (n <= 12)%nat ->
  mpow 24 Dr k m n == sign_pow ((k + n - m) / 2) * xpow_rat k m n.
Proof.
  intros k m n Hk Hm Hn.
  assert (H : range_ok ppow_ok 24 Dr 8 12 = true) by (vm_compute; reflexivity).
  pose proof (range_ok_spec _ _ _ _ _ H k m n Hk Hm Hn) as H1. unfold ppow_ok in H1.
  apply Qeq_bool_eq in H1. rewrite <- H1. symmetry. apply mpow_memo_ok; lia.
Qed.

(* ------------------------------------------------------------------ the quadratic monomials are the products *)
Theorem ladder_monomials N K m n : (m < N)%nat -> (n < N)%nat -> (N + 1 <= K)%nat ->
  mmul K (mono_inf Mb) (mono_inf Mb) m n == mono_inf Mbb m n /\
  mmul K (mono_inf Mbd) (mono_inf Mbd) m n == mono_inf Mbdbd m n /\
  mmul K (mono_inf Mbd) (mono_inf Mb) m n == mono_inf Mbdb m n /\
  mmul K (mono_inf Mb) (mono_inf Mbd) m n == mono_inf Mbbd m n.
Proof.
  intros Hm Hn HK. unfold mmul.
  rewrite prod_b_b, prod_bd_bd, prod_bd_b, prod_b_bd by lia.
  destruct (Nat.ltb_spec (m + 1) K); [|lia]. repeat split; reflexivity.
Qed.
