(* Labels on tree tensor networks: sector containment, preservation by TTNS.add / scale / TTNO.apply, soundness of the
   boolean checker.  Nested induction over Model/Ttns.v's trees (ttree_ind' of C11). *)
From Coq Require Import Ring List Arith Lia Bool ZArith.
Import ListNotations.
From RV Require Import Base.CRing Base.BigSum Model.Chain Proofs.ChainProofs Model.Ttns Proofs.TtnsProofs
  Model.Mp Model.Qn Proofs.QnProofs Model.TtnsQn.
Local Open Scope Z_scope.

Section TtnsQnProofs.
Variable R : CRing.
Add Ring RRt : (rth R).
Notation zero := (r0 R).
Notation "x *r y" := (rmul R x y) (at level 40, left associativity).
Notation "x +r y" := (radd R x y) (at level 50, left associativity).
Notation ttree := (ttree R).
Notation otree := (otree R).

Lemma tvalid_node sg ss l pd d T (cs : list ttree) q gs :
  tvalid (SNode sg ss) (TNode l pd d T cs) (QNode q gs) =
  (length q = d /\
   (forall ks ph p, all_lt (map (tdim R) cs) ks = true -> (p < d)%nat ->
      sumlab gs ks + sigsum sg ph <> nth p q 0 -> T ks ph p = zero) /\
   tvalids cs gs ss).
Proof. reflexivity. Qed.

Lemma ovalid_node sg ss pd d Ot (cs : list otree) q gs :
  ovalid (SNode sg ss) (ONode pd d Ot cs) (QNode q gs) =
  (length q = d /\
   (forall ks pu pdn p, all_lt (map (odim R) cs) ks = true -> (p < d)%nat ->
      sumlab gs ks + sigsum sg pu - sigsum sg pdn <> nth p q 0 -> Ot ks pu pdn p = zero) /\
   ovalids cs gs ss).
Proof. reflexivity. Qed.

Lemma tcharge_node sg ss l pd d T (cs : list ttree) ph rest :
  tcharge (SNode sg ss) (TNode l pd d T cs) (ph :: rest) = sigsum sg ph + tcharges cs ss rest.
Proof. reflexivity. Qed.

Lemma tvalid_length st (t : ttree) g : tvalid st t g -> length (qlab g) = tdim R t.
Proof. destruct t, g, st. rewrite tvalid_node. intros [H _]. exact H. Qed.

(* ------------------------------------------------------------------ sector containment *)
Lemma csum_match_zero : forall (cs : list ttree) gs ss rest (f : list nat -> R),
  Forall (fun c => forall st g, tvalid st c g -> forall s p, (p < tdim R c)%nat ->
            tcharge st c s <> nth p (qlab g) 0 -> tamp R c s p = zero) cs ->
  tvalids cs gs ss ->
  (forall ks, all_lt (map (tdim R) cs) ks = true -> sumlab gs ks = tcharges cs ss rest -> f ks = zero) ->
  csum R (camps R cs rest) f = zero.
Proof.
  intros cs gs ss rest f Hall. revert gs ss rest f.
  induction Hall as [|c cs Hc _ IH]; intros gs ss rest f Hv Hf.
  - destruct gs, ss; try contradiction. cbn [camps csum]. apply Hf; reflexivity.
  - destruct gs as [|g gs]; [contradiction|]. destruct ss as [|s1 ss]; [contradiction|].
    destruct Hv as [Hv1 Hvs]. cbn [camps csum]. apply sumn_0. intros k Hk.
    destruct (Z.eq_dec (tcharge s1 c (firstn (tsize R c) rest)) (nth k (qlab g) 0)) as [Heq|Hne].
    + rewrite (IH gs ss (skipn (tsize R c) rest) (fun ks => f (k :: ks)) Hvs); [ring|].
      intros ks Hks Hsum. apply Hf.
      * cbn [map all_lt]. rewrite Hks. apply Nat.ltb_lt in Hk. rewrite Hk. reflexivity.
      * cbn [sumlab tcharges]. rewrite Hsum, Heq. reflexivity.
    + rewrite (Hc s1 g Hv1 _ k Hk Hne). ring.
Qed.

(* the semantic core for trees: valid labels => no amplitude outside the sector named by the parent-bond label *)
Theorem tvalid_in_sector : forall (t : ttree) st g, tvalid st t g -> forall s p, (p < tdim R t)%nat ->
  tcharge st t s <> nth p (qlab g) 0 -> tamp R t s p = zero.
Proof.
  induction t as [l pd d T cs IH] using (ttree_ind' R). intros [sg ss] [q gs] Hv s p Hp Hne.
  rewrite tvalid_node in Hv. destruct Hv as [Hlen [Hnode Hch]].
  destruct s as [|ph rest]; [apply tamp_nil|].
  rewrite tamp_node. apply (csum_match_zero cs gs ss rest _ IH Hch).
  intros ks Hks Hsum. apply Hnode; [exact Hks|exact Hp|].
  rewrite tcharge_node in Hne. cbn [qlab] in Hne. lia.
Qed.

Theorem ttns_valid_in_sector_zero (t : ttree) st g qtot s :
  ttns_qn_valid st t g qtot -> tcharge st t s <> qtot -> tamp R t s O = zero.
Proof.
  intros [Hv [Hd Hq]] Hne. apply (tvalid_in_sector t st g Hv s O); [lia|]. rewrite Hq. exact Hne.
Qed.

Theorem ttns_valid_in_sector (t : ttree) st g qtot :
  ttns_qn_valid st t g qtot -> forall s, tamp R t s O <> zero -> tcharge st t s = qtot.
Proof.
  intros Hv s Hnz. destruct (Z.eq_dec (tcharge st t s) qtot) as [|Hne]; [assumption|].
  exfalso. apply Hnz. apply (ttns_valid_in_sector_zero t st g qtot s Hv Hne).
Qed.

(* ------------------------------------------------------------------ scale *)
Theorem tscale_valid c (t : ttree) st g : tvalid st t g -> tvalid st (tscale R c t) g.
Proof.
  destruct t as [l pd d T cs], st as [sg ss], g as [q gs]. cbn [tscale]. rewrite !tvalid_node.
  intros [Hl [Hn Hc]]. split; [exact Hl|]. split; [|exact Hc].
  intros ks ph p Hks Hp Hne. rewrite (Hn ks ph p Hks Hp Hne). ring.
Qed.

(* ------------------------------------------------------------------ add *)
Fixpoint qzipadd (ga gb : list (qtree Z)) : list (qtree Z) :=
  match ga, gb with x :: ga', y :: gb' => @qadd_gen ZLab false x y :: qzipadd ga' gb' | _, _ => [] end.
Lemma qadd_gen_node r qa ga qb gb :
  @qadd_gen ZLab r (QNode qa ga) (QNode qb gb) = QNode (if r then qa else qa ++ qb) (qzipadd ga gb).
Proof. reflexivity. Qed.
Lemma qlab_qadd_false a b : qlab (@qadd_gen ZLab false a b) = qlab a ++ qlab b.
Proof. destruct a, b. reflexivity. Qed.

Lemma tvalids_lengths : forall (cs : list ttree) gs ss, tvalids cs gs ss -> Forall2 (fun c g => length (qlab g) = tdim R c) cs gs.
Proof.
  induction cs as [|c cs IH]; intros [|g gs] [|s1 ss] H; try contradiction; [constructor|].
  destruct H as [H1 H2]. constructor; [apply (tvalid_length _ _ _ H1)|apply (IH gs ss H2)].
Qed.

Lemma F2_length {A B} (P : A -> B -> Prop) l l' : Forall2 P l l' -> length l = length l'.
Proof. induction 1; cbn [length]; [reflexivity|]. f_equal. assumption. Qed.

(* child indices entirely in the first / second block *)
Lemma sumlab_zip_lt : forall (ca cb : list ttree) ga gb ks,
  Forall2 (fun c g => length (qlab g) = tdim R c) ca ga -> length ga = length gb -> length ca = length cb ->
  all_lt (map (tdim R) ca) ks = true -> sumlab (qzipadd ga gb) ks = sumlab ga ks.
Proof.
  induction ca as [|x ca IH]; intros cb ga gb ks HF Hg Hc Hlt; inversion HF as [|? g ? ga' Hx HF']; subst.
  - reflexivity.
  - destruct gb as [|y gb]; [discriminate|]. destruct cb as [|z cb]; [discriminate|].
    destruct ks as [|k ks]; [discriminate|]. cbn [map all_lt] in Hlt. apply andb_prop in Hlt. destruct Hlt as [Hk Hks].
    apply Nat.ltb_lt in Hk. cbn [qzipadd sumlab]. rewrite qlab_qadd_false. cbn [lab ZLab].
    rewrite app_nth1 by (rewrite Hx; exact Hk). f_equal.
    apply (IH cb ga' gb ks HF'); [cbn in Hg; lia|cbn in Hc; lia|exact Hks].
Qed.

Lemma sumlab_zip_ge : forall (ca cb : list ttree) ga gb ks,
  Forall2 (fun c g => length (qlab g) = tdim R c) ca ga -> length ga = length gb -> map (tshape R) ca = map (tshape R) cb ->
  all_lt (map (tdim R) (zipadd R ca cb)) ks = true -> all_ge (map (tdim R) ca) ks = true ->
  all_lt (map (tdim R) cb) (shiftl (map (tdim R) ca) ks) = true /\
  sumlab (qzipadd ga gb) ks = sumlab gb (shiftl (map (tdim R) ca) ks).
Proof.
  induction ca as [|x ca IH]; intros cb ga gb ks HF Hg Hs Hlt Hge; inversion HF as [|? g ? ga' Hx HF']; subst.
  - destruct cb; [|discriminate]. destruct ks; [|discriminate]. destruct gb; [|discriminate]. split; reflexivity.
  - destruct gb as [|y gb]; [discriminate|]. destruct cb as [|z cb]; [discriminate|].
    cbn [map] in Hs. injection Hs as Hxz Hs.
    destruct ks as [|k ks]; [discriminate|]. cbn [zipadd map all_lt] in Hlt. cbn [map all_ge] in Hge.
    apply andb_prop in Hlt. destruct Hlt as [Hk Hks]. apply andb_prop in Hge. destruct Hge as [Hk2 Hks2].
    apply Nat.ltb_lt in Hk. apply Nat.leb_le in Hk2. rewrite tadd_dim_false in Hk.
    destruct (IH cb ga' gb ks HF' ltac:(cbn in Hg; lia) Hs Hks Hks2) as [E1 E2].
    cbn [map shiftl all_lt qzipadd sumlab]. rewrite E1, E2, qlab_qadd_false. cbn [lab ZLab].
    rewrite app_nth2 by (rewrite Hx; exact Hk2). rewrite Hx. split; [|reflexivity].
    rewrite andb_true_r. apply Nat.ltb_lt. lia.
Qed.

Lemma tadd_gen_valid : forall (a : ttree) r b st ga gb,
  tvalid st a ga -> tvalid st b gb -> tshape R a = tshape R b ->
  (r = true -> tdim R a = tdim R b /\ forall p, (p < tdim R a)%nat -> nth p (qlab ga) 0 = nth p (qlab gb) 0) ->
  tvalid st (tadd_gen R r a b) (@qadd_gen ZLab r ga gb).
Proof.
  induction a as [l pd da Ta ca IH] using (ttree_ind' R).
  intros r [l' pd' db Tb cb] [sg ss] [qa ga] [qb gb] Ha Hb Hs Hr.
  rewrite tadd_gen_node, qadd_gen_node. cbn [lab ZLab] in *. rewrite tvalid_node in Ha, Hb |- *.
  destruct Ha as [Hla [Hna Hca]]. destruct Hb as [Hlb [Hnb Hcb]].
  cbn [tshape] in Hs. injection Hs as Hs.
  pose proof (tvalids_lengths ca ga ss Hca) as HFa.
  assert (Hlg : length ga = length gb).
  { pose proof (F2_length _ _ _ HFa) as E1. pose proof (F2_length _ _ _ (tvalids_lengths cb gb ss Hcb)) as E2.
    apply (f_equal (@length _)) in Hs. rewrite !map_length in Hs. lia. }
  assert (Hlc : length ca = length cb) by (apply (f_equal (@length _)) in Hs; rewrite !map_length in Hs; exact Hs).
  split; [|split].
  - destruct r; [exact Hla|rewrite app_length; lia].
  - intros ks ph p Hks Hp Hne. unfold add_tens.
    assert (T1 : (if all_lt (map (tdim R) ca) ks && (r || (p <? da)%nat) then Ta ks ph p else zero) = zero).
    { destruct (all_lt (map (tdim R) ca) ks) eqn:Elt; [|reflexivity].
      destruct (r || (p <? da)%nat)%bool eqn:Ec; [|reflexivity]. cbn [andb].
      assert (Hpa : (p < da)%nat).
      { destruct r; [exact Hp|]. cbn [orb] in Ec. apply Nat.ltb_lt. exact Ec. }
      apply Hna; [exact Elt|exact Hpa|].
      rewrite <- (sumlab_zip_lt ca cb ga gb ks HFa Hlg Hlc Elt).
      replace (nth p qa 0) with (nth p (if r then qa else qa ++ qb) 0); [exact Hne|].
      destruct r; [reflexivity|]. apply app_nth1. rewrite Hla. exact Hpa. }
    assert (T2 : (if all_ge (map (tdim R) ca) ks && (r || (da <=? p)%nat)
                  then Tb (shiftl (map (tdim R) ca) ks) ph (if r then p else (p - da)%nat) else zero) = zero).
    { destruct (all_ge (map (tdim R) ca) ks) eqn:Ege; [|reflexivity].
      destruct (r || (da <=? p)%nat)%bool eqn:Ec; [|reflexivity]. cbn [andb].
      destruct (sumlab_zip_ge ca cb ga gb ks HFa Hlg Hs Hks Ege) as [E1 E2].
      destruct r.
      - destruct (Hr eq_refl) as [Hd Hq]. cbn [tdim qlab] in Hd, Hq.
        apply Hnb; [exact E1|lia|]. rewrite <- E2, <- (Hq p Hp). exact Hne.
      - cbn [orb] in Ec. apply Nat.leb_le in Ec.
        apply Hnb; [exact E1|lia|]. rewrite <- E2.
        replace (nth (p - da) qb 0) with (nth p (qa ++ qb) 0); [exact Hne|].
        rewrite app_nth2 by lia. rewrite Hla. reflexivity. }
    rewrite T1, T2. ring.
  - clear Hna Hnb Hr Hla Hlb HFa Hlg Hlc. revert cb ga gb ss Hs Hca Hcb.
    induction IH as [|x ca Hx _ IHl]; intros cb ga gb ss Hs Hca Hcb.
    + destruct cb; [|discriminate]. destruct ga, ss; try contradiction. destruct gb; [|contradiction]. exact I.
    + destruct cb as [|y cb]; [discriminate|]. cbn [map] in Hs. injection Hs as Hxy Hs.
      destruct ga as [|g1 ga]; [contradiction|]. destruct ss as [|s1 ss]; [contradiction|].
      destruct gb as [|g2 gb]; [contradiction|].
      destruct Hca as [Hv1 Hca]. destruct Hcb as [Hv2 Hcb].
      cbn [zipadd qzipadd tvalids]. split.
      * apply Hx; try assumption. intros; discriminate.
      * apply IHl; assumption.
Qed.

Theorem tadd_valid (a b : ttree) st ga gb qtot :
  ttns_qn_valid st a ga qtot -> ttns_qn_valid st b gb qtot -> tshape R a = tshape R b ->
  ttns_qn_valid st (tadd R a b) (@qadd ZLab ga gb) qtot.
Proof.
  intros [Ha [Hda Hqa]] [Hb [Hdb Hqb]] Hs. unfold ttns_qn_valid, tadd, qadd. split; [|split].
  - apply tadd_gen_valid; try assumption. intros _. split; [lia|]. intros p Hp. rewrite Hqa, Hqb. reflexivity.
  - destruct a, b. rewrite tadd_gen_node. exact Hda.
  - destruct ga, gb. rewrite qadd_gen_node. exact Hqa.
Qed.

(* TTNS.add with prefactors folded into the root tensor *)
Theorem tadd_coeff_valid ca cb (a b : ttree) st ga gb qtot :
  ttns_qn_valid st a ga qtot -> ttns_qn_valid st b gb qtot -> tshape R a = tshape R b ->
  ttns_qn_valid st (tadd_coeff R ca cb a b) (@qadd ZLab ga gb) qtot.
Proof.
  intros [Ha [Hda Hqa]] [Hb [Hdb Hqb]] Hs. unfold tadd_coeff. apply tadd_valid.
  - split; [apply tscale_valid; exact Ha|]. split; [destruct a; exact Hda|exact Hqa].
  - split; [apply tscale_valid; exact Hb|]. split; [destruct b; exact Hdb|exact Hqb].
  - rewrite !tscale_shape. exact Hs.
Qed.

(* ------------------------------------------------------------------ TTNO.apply *)
Fixpoint qzipapply (gs go : list (qtree Z)) : list (qtree Z) :=
  match gs, go with x :: gs', y :: go' => @qapply ZLab x y :: qzipapply gs' go' | _, _ => [] end.
Lemma qapply_node qs gs qo go :
  @qapply ZLab (QNode qs gs) (QNode qo go) = QNode (@outer ZLab qs qo) (qzipapply gs go).
Proof. reflexivity. Qed.
Lemma qlab_qapply a b : qlab (@qapply ZLab a b) = @outer ZLab (qlab a) (qlab b).
Proof. destruct a, b. reflexivity. Qed.

Lemma ovalid_length st (o : otree) g : ovalid st o g -> length (qlab g) = odim R o.
Proof. destruct o, g, st. rewrite ovalid_node. intros [H _]. exact H. Qed.
Lemma ovalids_lengths : forall (cs : list otree) gs ss, ovalids cs gs ss -> Forall2 (fun c g => length (qlab g) = odim R c) cs gs.
Proof.
  induction cs as [|c cs IH]; intros [|g gs] [|s1 ss] H; try contradiction; [constructor|].
  destruct H as [H1 H2]. constructor; [apply (ovalid_length _ _ _ H1)|apply (IH gs ss H2)].
Qed.

Lemma nth_outer_divmod (qs qo : list Z) K : (K < length qs * length qo)%nat ->
  nth K (@outer ZLab qs qo) 0 = nth (K / length qo) qs 0 + nth (K mod length qo) qo 0.
Proof.
  intros HK. assert (Hd : length qo <> O) by (intros E; rewrite E in HK; lia).
  pose proof (Nat.div_mod K (length qo) Hd) as E.
  assert (H1 : (K / length qo < length qs)%nat) by (apply Nat.div_lt_upper_bound; [exact Hd|lia]).
  assert (H2 : (K mod length qo < length qo)%nat) by (apply Nat.mod_upper_bound; exact Hd).
  rewrite E at 1. rewrite (Nat.mul_comm (length qo)). apply nth_outer_Z; assumption.
Qed.

Lemma apply_indices : forall (cs : list ttree) (co : list otree) gs go Ks,
  Forall2 (fun c g => length (qlab g) = tdim R c) cs gs -> Forall2 (fun c g => length (qlab g) = odim R c) co go ->
  length cs = length co ->
  all_lt (map (tdim R) (zipapply R co cs)) Ks = true ->
  all_lt (map (tdim R) cs) (divl Ks (map (odim R) co)) = true /\
  all_lt (map (odim R) co) (modl Ks (map (odim R) co)) = true /\
  sumlab (qzipapply gs go) Ks = sumlab gs (divl Ks (map (odim R) co)) + sumlab go (modl Ks (map (odim R) co)).
Proof.
  induction cs as [|c cs IH]; intros co gs go Ks HFs HFo Hl Hlt; inversion HFs as [|? g ? gs' Hc HFs']; subst.
  - destruct co; [|discriminate]. inversion HFo; subst. destruct Ks; [|discriminate]. repeat split; reflexivity.
  - destruct co as [|o co]; [discriminate|]. inversion HFo as [|? g2 ? go' Ho HFo']; subst.
    destruct Ks as [|K Ks]; [discriminate|]. cbn [zipapply map all_lt] in Hlt.
    apply andb_prop in Hlt. destruct Hlt as [HK HKs]. apply Nat.ltb_lt in HK. rewrite tapply_dim in HK.
    destruct (IH co gs' go' Ks HFs' HFo' ltac:(cbn in Hl; lia) HKs) as [E1 [E2 E3]].
    assert (Hd : odim R o <> O) by (intros E; rewrite E in HK; lia).
    cbn [map divl modl all_lt qzipapply sumlab]. rewrite E1, E2, E3, !andb_true_r.
    split; [apply Nat.ltb_lt; apply Nat.div_lt_upper_bound; [exact Hd|lia]|].
    split; [apply Nat.ltb_lt; apply Nat.mod_upper_bound; exact Hd|].
    rewrite qlab_qapply. cbn [lab ZLab]. rewrite nth_outer_divmod by (rewrite Hc, Ho; exact HK). rewrite Ho. lia.
Qed.

Lemma sumcfg_all_zero ds (f : list nat -> R) : (forall s, f s = zero) -> sumcfg ds f = zero.
Proof. intros H. rewrite (TtnsProofs.sumcfg_ext R ds f (fun _ => zero) H). apply TtnsProofs.sumcfg_0. Qed.

Theorem tapply_valid : forall (t : ttree) (o : otree) st g go,
  tvalid st t g -> ovalid st o go -> tshape R t = oshape R o ->
  tvalid st (tapply R o t) (@qapply ZLab g go).
Proof.
  induction t as [l pd ds T cs IH] using (ttree_ind' R).
  intros [pdo do Ot co] [sg ss] [qs gs] [qo go] Ht Ho Hs.
  rewrite tapply_node, qapply_node. cbn [lab ZLab] in *. rewrite tvalid_node in Ht |- *. rewrite ovalid_node in Ho.
  destruct Ht as [Hls [Hns Hcs]]. destruct Ho as [Hlo [Hno Hco]].
  cbn [tshape oshape] in Hs. injection Hs as Hs.
  pose proof (tvalids_lengths cs gs ss Hcs) as HFs. pose proof (ovalids_lengths co go ss Hco) as HFo.
  assert (Hlc : length cs = length co) by (apply (f_equal (@length _)) in Hs; rewrite !map_length in Hs; exact Hs).
  split; [|split].
  - rewrite length_outer. lia.
  - intros Ks pu P HKs HP Hne. unfold apply_tens.
    destruct (apply_indices cs co gs go Ks HFs HFo Hlc HKs) as [E1 [E2 E3]].
    assert (Hd : do <> O) by (intros E; rewrite E in HP; lia).
    assert (HP1 : (P / do < ds)%nat) by (apply Nat.div_lt_upper_bound; [exact Hd|lia]).
    assert (HP2 : (P mod do < do)%nat) by (apply Nat.mod_upper_bound; exact Hd).
    rewrite nth_outer_divmod in Hne by (rewrite Hls, Hlo; exact HP). rewrite Hlo in Hne.
    apply sumcfg_all_zero. intros pdn.
    destruct (Z.eq_dec (sumlab go (modl Ks (map (odim R) co)) + sigsum sg pu - sigsum sg pdn) (nth (P mod do) qo 0)) as [Heq|Hneq].
    + rewrite (Hns (divl Ks (map (odim R) co)) pdn (P / do)%nat E1 HP1); [ring|]. lia.
    + rewrite (Hno (modl Ks (map (odim R) co)) pu pdn (P mod do)%nat E2 HP2 Hneq). ring.
  - clear Hns Hno Hls Hlo HFs HFo Hlc. revert co gs go ss Hs Hcs Hco.
    induction IH as [|c cs Hc _ IHl]; intros co gs go ss Hs Hcs Hco.
    + destruct co; [|discriminate]. destruct gs, ss; try contradiction. destruct go; [|contradiction]. exact I.
    + destruct co as [|o1 co]; [discriminate|]. cbn [map] in Hs. injection Hs as Hco1 Hs.
      destruct gs as [|g1 gs]; [contradiction|]. destruct ss as [|s1 ss]; [contradiction|].
      destruct go as [|g2 go]; [contradiction|].
      destruct Hcs as [Hv1 Hcs]. destruct Hco as [Hv2 Hco].
      cbn [zipapply qzipapply tvalids]. split; [apply Hc; assumption|apply IHl; assumption].
Qed.

(* a tree operator of total charge q moves a state of sector Q exactly to sector Q + q *)
Theorem tapply_moves_sector (t : ttree) (o : otree) st g go qtot qop :
  ttns_qn_valid st t g qtot -> ovalid st o go -> odim R o = 1%nat -> qlab go = [qop] -> tshape R t = oshape R o ->
  ttns_qn_valid st (tapply R o t) (@qapply ZLab g go) (qtot + qop).
Proof.
  intros [Ht [Hd Hq]] Ho Hdo Hqo Hs. split; [apply tapply_valid; assumption|]. split.
  - rewrite tapply_dim, Hd, Hdo. reflexivity.
  - rewrite qlab_qapply. cbn [lab ZLab]. rewrite Hq, Hqo. reflexivity.
Qed.

(* ------------------------------------------------------------------ soundness of the checker *)
Lemma all_lt_len ds : forall ks, all_lt ds ks = true -> length ks = length ds.
Proof. induction ds as [|d ds IH]; intros [|k ks] H; try discriminate; [reflexivity|]. cbn in H. apply andb_prop in H. cbn [length]. f_equal. apply IH, H. Qed.

Theorem tvalidb_sound : forall (t : ttree) st g pt,
  tvalidb st g pt = true -> has_tsupport pt t -> dims_agree t g -> tvalid st t g.
Proof.
  induction t as [l pd d T cs IH] using (ttree_ind' R). intros [sg ss] [q gs] [supp ps] Hb Hsup Hdim.
  cbn [tvalidb] in Hb. repeat (apply andb_prop in Hb; let H := fresh "Hc" in destruct Hb as [Hb H]).
  cbn [has_tsupport] in Hsup. destruct Hsup as [Hsup Hsups]. cbn [dims_agree] in Hdim. destruct Hdim as [Hlen Hdims].
  fold (has_tsupports cs ps) in Hsups. fold (dims_agrees cs gs) in Hdims.
  apply Nat.eqb_eq in Hc1, Hc0.
  assert (Hlcs : length cs = length gs).
  { clear -Hdims. revert gs Hdims. induction cs as [|c cs IHc]; intros [|g gs] H; try contradiction; [reflexivity|].
    destruct H as [_ H]. cbn [length]. f_equal. apply IHc, H. }
  rewrite tvalid_node. split; [exact Hlen|]. split.
  - intros ks ph p Hks Hp Hne. apply Hsup. intros Hin.
    unfold node_okb in Hb. rewrite forallb_forall in Hb. pose proof (Hb _ Hin) as Hi.
    apply andb_prop in Hi. destruct Hi as [Hi1 Hi2]. apply Nat.eqb_eq in Hi1. apply Z.eqb_eq in Hi2.
    pose proof (all_lt_len _ _ Hks) as Hlk. rewrite map_length, Hlcs in Hlk.
    rewrite !app_length in Hi1. cbn [length] in Hi1.
    assert (Hlph : length ph = length sg) by lia.
    rewrite firstn_app_exact in Hi2 by exact Hlk. rewrite skipn_app_exact in Hi2 by exact Hlk.
    rewrite firstn_app_exact in Hi2 by exact Hlph.
    replace (nth (length gs + length sg) (ks ++ ph ++ [p]) O) with p in Hi2.
    2:{ rewrite app_nth2 by lia. rewrite app_nth2 by lia. replace (length gs + length sg - length ks - length ph)%nat with O by lia. reflexivity. }
    contradiction.
  - clear Hb Hsup Hlen. revert gs ss ps Hc Hsups Hdims Hc0 Hc1 Hlcs.
    induction IH as [|c cs Hcv _ IHl]; intros gs ss ps Hc Hsups Hdims Hc0 Hc1 Hlcs.
    + destruct ps; [|contradiction]. destruct gs; [|discriminate]. destruct ss; [|discriminate]. exact I.
    + destruct ps as [|p1 ps]; [contradiction|]. destruct gs as [|g1 gs]; [discriminate|]. destruct ss as [|s1 ss]; [discriminate|].
      apply andb_prop in Hc. destruct Hc as [Hc' Hc'']. destruct Hsups as [Hs1 Hsups]. destruct Hdims as [Hd1 Hdims].
      cbn [tvalids]. split; [apply (Hcv s1 g1 p1); assumption|].
      apply (IHl gs ss ps); try assumption; cbn [length] in *; lia.
Qed.

Theorem ttns_validb_sound (t : ttree) st g pt qtot :
  ttns_validb st g pt qtot = true -> has_tsupport pt t -> dims_agree t g -> tdim R t = 1%nat ->
  ttns_qn_valid st t g qtot.
Proof.
  unfold ttns_validb. intros Hb Hsup Hdim Hd. apply andb_prop in Hb. destruct Hb as [Hb Hq].
  split; [apply (tvalidb_sound t st g pt); assumption|]. split; [exact Hd|].
  destruct (qlab g) as [|x [|y r]]; try discriminate. apply Z.eqb_eq in Hq. rewrite Hq. reflexivity.
Qed.

Theorem ttns_validbV_sound (t : ttree) nc (st : stree (list Z)) (g : qtree (list Z)) pt qtot :
  ttns_validbV nc st g pt qtot = true -> has_tsupport pt t -> tdim R t = 1%nat ->
  forall k, (k < nc)%nat -> dims_agree t (qmap (comp k) g) ->
  ttns_qn_valid (smap (comp k) st) t (qmap (comp k) g) (comp k qtot).
Proof.
  unfold ttns_validbV. intros Hb Hsup Hd k Hk Hdim. rewrite forallb_forall in Hb.
  apply (ttns_validb_sound t _ _ pt); try assumption. apply Hb. apply in_seq. lia.
Qed.

End TtnsQnProofs.
