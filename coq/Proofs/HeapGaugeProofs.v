(* C13 -- a gauge rewrite (WGauge: canonicalise / ensure_*_canonical on an operand) replaces the contents of the
   site locations by contents with the same denotation.

   The algebraic core (two_r, two_l, push_r_chain, push_l_chain: only M = U.V of the kernel is used) is the
   schedule-independent part of C04's Proofs/CanoProofs.v (there: push_preserves_amp, the lemma behind
   C04_push_preserves_amp / C04_cano_dense), copied because C04's files import Gen/CanoSched.v and C13 must not
   depend on another property's generated file. *)
From Coq Require Import Ring List Arith Lia Bool.
Import ListNotations.
From RV Require Import Base.CRing Base.BigSum Model.Chain Proofs.ChainProofs Gen.EvolveEntry Model.Heap
                       Model.HeapGauge Proofs.HeapProofs.

Section Alg.
Variable R : CRing.
Add Ring RRg : (rth R).
Notation "0" := (r0 R).
Notation "1" := (r1 R).
Infix "+" := (radd R).
Infix "*" := (rmul R).

Lemma decode_div l dp p : p < dp -> ((l * dp + p) / dp = l)%nat.
Proof. intros H. symmetry. apply (Nat.div_unique _ _ _ p); [exact H|lia]. Qed.
Lemma decode_mod l dp p : p < dp -> ((l * dp + p) mod dp = p)%nat.
Proof. intros H. symmetry. apply (Nat.mod_unique _ _ l); [exact H|lia]. Qed.
Lemma flat_lt l dl p dp : l < dl -> p < dp -> (l * dp + p < dl * dp)%nat.
Proof. intros. nia. Qed.

Lemma mid_insert k dr d2 (U : nat -> R) (V : nat -> nat -> R) (T : nat -> nat -> R) (C : nat -> R) :
  sumn k (fun a => U a * sumn d2 (fun m => sumn dr (fun j => V a j * T j m) * C m)) =
  sumn dr (fun j => sumn k (fun a => U a * V a j) * sumn d2 (fun m => T j m * C m)).
Proof.
  transitivity (sumn k (fun a => sumn dr (fun j => U a * V a j * sumn d2 (fun m => T j m * C m)))).
  - apply sumn_ext. intros a _. rewrite <- sumn_scale_l.
    transitivity (sumn d2 (fun m => sumn dr (fun j => U a * (V a j * T j m * C m)))).
    + apply sumn_ext. intros m _. rewrite <- sumn_scale_r, <- sumn_scale_l. reflexivity.
    + rewrite sumn_exchange. apply sumn_ext. intros j _.
      rewrite <- sumn_scale_l. apply sumn_ext. intros m _. ring.
  - rewrite sumn_exchange. apply sumn_ext. intros j _. rewrite <- sumn_scale_r. reflexivity.
Qed.

Lemma mid_insert_l k dm dr (A : nat -> R) (U V : nat -> nat -> R) (C : nat -> R) :
  sumn k (fun a => sumn dm (fun j => A j * U j a) * sumn dr (fun m => V a m * C m)) =
  sumn dm (fun j => A j * sumn dr (fun m => sumn k (fun a => U j a * V a m) * C m)).
Proof.
  transitivity (sumn k (fun a => sumn dm (fun j => sumn dr (fun m => A j * (U j a * V a m * C m))))).
  - apply sumn_ext. intros a _. rewrite <- sumn_scale_r. apply sumn_ext. intros j _.
    rewrite <- sumn_scale_l. apply sumn_ext. intros m _. ring.
  - rewrite sumn_exchange. apply sumn_ext. intros j _.
    transitivity (sumn dr (fun m => sumn k (fun a => A j * (U j a * V a m * C m)))).
    + apply sumn_exchange.
    + rewrite <- sumn_scale_l. apply sumn_ext. intros m _.
      rewrite <- sumn_scale_r, <- sumn_scale_l. reflexivity.
Qed.

Section WithDec.
Variable dec : gkernel R.
Hypothesis Hfac : gdec_factor dec.

Lemma two_r gi dl dp dr t dr2 t2 b p s l r : l < dl -> p < dp ->
  let x := dec gi true (dl * dp)%nat dr (gmat_r R dp t) in
  chain3 ((gK R x, gsite_u R dp (gU R x)) :: (dr2, gabsorb_v R dr (gV R x) t2) :: b) (p :: s) l r =
  chain3 ((dr, t) :: (dr2, t2) :: b) (p :: s) l r.
Proof.
  intros Hl Hp x. destruct s as [|q s].
  - cbn [chain3]. rewrite !sumn_0; [reflexivity| |]; intros; ring.
  - cbn [chain3]. unfold gabsorb_v, gsite_u.
    rewrite (mid_insert (gK R x) dr dr2 (fun a => gU R x (l * dp + p)%nat a) (gV R x) (fun j m => t2 j q m)
                        (fun m => chain3 b s m r)).
    apply sumn_ext. intros j Hj. f_equal.
    pose proof (Hfac gi true (dl * dp)%nat dr (gmat_r R dp t) (l * dp + p)%nat j (flat_lt _ _ _ _ Hl Hp) Hj) as E.
    fold x in E. rewrite <- E. unfold gmat_r. rewrite decode_div, decode_mod by exact Hp. reflexivity.
Qed.

Lemma two_l gi dp dm t1 dr t b p0 p s l r : p < dp ->
  let x := dec gi false dm (dp * dr)%nat (gmat_l R dr t) in
  chain3 ((gK R x, gabsorb_u R dm t1 (gU R x)) :: (dr, gsite_v R dr (gV R x)) :: b) (p0 :: p :: s) l r =
  chain3 ((dm, t1) :: (dr, t) :: b) (p0 :: p :: s) l r.
Proof.
  intros Hp x. cbn [chain3]. unfold gabsorb_u, gsite_v.
  rewrite (mid_insert_l (gK R x) dm dr (fun j => t1 l p0 j) (gU R x) (fun a m => gV R x a (p * dr + m)%nat)
                        (fun m => chain3 b s m r)).
  apply sumn_ext. intros j Hj. f_equal. apply sumn_ext. intros m Hm. f_equal.
  pose proof (Hfac gi false dm (dp * dr)%nat (gmat_l R dr t) j (p * dr + m)%nat Hj (flat_lt _ _ _ _ Hp Hm)) as E.
  fold x in E. rewrite <- E. unfold gmat_l. rewrite decode_div, decode_mod by exact Hm. reflexivity.
Qed.

Lemma gpush_r_chain i : forall gi dl ds ts s l r, l < dl -> gcfg_ok ds s ->
  chain3 (gpush_r R dec gi dl ds ts i) s l r = chain3 ts s l r.
Proof.
  induction i as [|i IH]; intros gi dl ds ts s l r Hl Hs.
  - destruct ds as [|dp ds]; [reflexivity|]. destruct ts as [|[dr t] [|[dr2 t2] b]]; try reflexivity.
    inversion Hs as [|p dp' s' ds' Hp Hs']; subst. cbn [gpush_r]. apply two_r; assumption.
  - destruct ds as [|dp ds]; [destruct ts; reflexivity|]. destruct ts as [|[dr t] ts]; [reflexivity|].
    cbn [gpush_r]. inversion Hs as [|p dp' s' ds' Hp Hs']; subst. cbn [chain3].
    apply sumn_ext. intros m Hm. f_equal. apply IH; assumption.
Qed.

Lemma gpush_l_chain i : forall gi ds ts s l r, gcfg_ok ds s ->
  chain3 (gpush_l R dec gi ds ts i) s l r = chain3 ts s l r.
Proof.
  induction i as [|i IH]; intros gi ds ts s l r Hs.
  - destruct ds as [|d0 [|dp ds]]; try (destruct ts; reflexivity).
    destruct ts as [|[dm t1] [|[dr t] b]]; try reflexivity.
    inversion Hs as [|p0 d0' s' ds' Hp0 Hs']; subst. inversion Hs' as [|p dp' s'' ds'' Hp Hs'']; subst.
    cbn [gpush_l]. apply two_l; assumption.
  - destruct ds as [|dp ds]; [destruct ts; reflexivity|]. destruct ts as [|[dr t] ts]; [reflexivity|].
    cbn [gpush_l]. inversion Hs as [|p dp' s' ds' Hp Hs']; subst. cbn [chain3].
    apply sumn_ext. intros m Hm. f_equal. apply IH; assumption.
Qed.

(* one push step leaves the amplitude of every basis configuration unchanged *)
Lemma gpush_preserves_amp dir ds ts i s : gcfg_ok ds s -> amp (gpush dec dir ds ts i) s = amp ts s.
Proof.
  intros Hs. unfold amp, gpush. destruct dir.
  - apply gpush_r_chain; [lia|exact Hs].
  - destruct i; [reflexivity|]. apply gpush_l_chain. exact Hs.
Qed.

(* ... hence any schedule of push steps does *)
Lemma gsweep_preserves_amp ds tr : forall ts s, gcfg_ok ds s -> amp (gsweep dec ds tr ts) s = amp ts s.
Proof.
  induction tr as [|[d i] tr IH]; intros ts s Hs; [reflexivity|].
  unfold gsweep. cbn [fold_left fst snd]. fold (gsweep dec ds tr (gpush dec d ds ts i)).
  rewrite IH by exact Hs. apply gpush_preserves_amp. exact Hs.
Qed.

(* ---- the WGauge class of the heap model: the site locations of the operand (old or freshly allocated ones: the
   layout may change) now hold the swept chain, the prefactor cell is untouched: same denotation *)
Theorem gauge_write_preserves_den ds tr (lay lay' : layout) (h h' : loc -> cell R) :
  cell_sites (slots_of lay' h') = gsweep dec ds tr (cell_sites (slots_of lay h)) ->
  cell_coeff (slots_of lay' h') = cell_coeff (slots_of lay h) ->
  Deq_cfg ds (den chain_interp lay' h') (den chain_interp lay h).
Proof.
  intros Hs Hc s Hok. unfold den, chain_interp. fold (slots_of lay' h'). fold (slots_of lay h).
  rewrite Hs, Hc, gsweep_preserves_amp by exact Hok. reflexivity.
Qed.

(* exactly the clause that [step] demands of a rewritten operand of an instruction whose signature declares
   s_rewrite = gauge_fields (all TDVP evolution entries) *)
Corollary gauge_rewrite_admissible ds tr lo hi (lay lay' : layout) (h h' : loc -> cell R) :
  slots_ok gauge_fields lo hi lay lay' ->
  cell_sites (slots_of lay' h') = gsweep dec ds tr (cell_sites (slots_of lay h)) ->
  cell_coeff (slots_of lay' h') = cell_coeff (slots_of lay h) ->
  slots_ok gauge_fields lo hi lay lay' /\ Deq_cfg ds (den chain_interp lay' h') (den chain_interp lay h).
Proof. intros H1 H2 H3. split; [exact H1 | apply (gauge_write_preserves_den ds tr); assumption]. Qed.

End WithDec.

(* ---- the WFold class: site k scaled by the prefactor, prefactor cell reset to 1 *)
Theorem fold_write_preserves_den ds k (lay lay' : layout) (h h' : loc -> cell R) :
  k < length (cell_sites (slots_of lay h)) ->
  cell_sites (slots_of lay' h') = scale_at (scale3 R (cell_coeff (slots_of lay h))) k (cell_sites (slots_of lay h)) ->
  cell_coeff (slots_of lay' h') = 1 ->
  Deq_cfg ds (den chain_interp lay' h') (den chain_interp lay h).
Proof.
  intros Hk Hs Hc s _. unfold den, chain_interp. fold (slots_of lay' h'). fold (slots_of lay h).
  rewrite Hs, Hc. unfold amp. rewrite chain3_scale_at by exact Hk. ring.
Qed.

(* non-vacuity of the kernel contract: the factorisation M = 1 . M *)
Definition triv_dec : gkernel R :=
  fun _ _ rows _ M => (rows, (fun i a => if Nat.eqb a i then 1 else 0), M).
Lemma triv_dec_factor : gdec_factor triv_dec.
Proof.
  intros gi dir rows cols M i j Hi Hj. unfold triv_dec, gK, gU, gV. cbn [fst snd].
  rewrite (sumn_ext R rows _ (fun a => if Nat.eqb a i then M a j else 0)).
  - rewrite (sumn_delta R rows i (fun a => M a j) Hi). reflexivity.
  - intros a _. destruct (Nat.eqb a i); ring.
Qed.

Lemma Deq_cfg_refl ds (f : list nat -> R) : Deq_cfg ds f f.
Proof. intros s _. reflexivity. Qed.
Lemma Deq_cfg_trans ds (f g k : list nat -> R) : Deq_cfg ds f g -> Deq_cfg ds g k -> Deq_cfg ds f k.
Proof. intros H1 H2 s Hs. rewrite (H1 s Hs). apply H2. exact Hs. Qed.

(* the frame theorem for the chain instance: amplitudes x prefactor of every basis configuration *)
Theorem frame_chain ds (p : list instr) (s s' : state (cell R)) :
  wf s -> exec chain_interp (Deq_cfg ds) p s s' ->
  forall n lay, st_obj s n = Some lay -> ~ In n (targets p) ->
  exists lay', st_obj s' n = Some lay' /\
    forall cfg, gcfg_ok ds cfg -> den chain_interp lay' (st_heap s') cfg = den chain_interp lay (st_heap s) cfg.
Proof.
  intros W E n lay Hn Ht.
  destruct (frame (cell R) (list nat -> R) chain_interp (Deq_cfg ds) (Deq_cfg_refl ds) (Deq_cfg_trans ds)
                  p s s' W E n lay Hn Ht) as [lay' [H1 H2]].
  exists lay'. split; [exact H1 | exact H2].
Qed.

End Alg.
