(* C04: the number of columns kept by compress() under the `fixed` criterion is scale invariant.
   Gen/Trunc.v (tx/trunc.py, from utils/configs.py) gives the configured rule; Gen/CanoSched.v gives what compress()
   does with its value before handing it to _update_ms (nothing: compress_m_trunc_config is the identity, and the
   translator aborts if compress() post-processes m_trunc). *)
From Coq Require Import QArith ZArith List Lia.
From RV Require Import Gen.CanoSched.
From RV Require Model.Trunc Gen.Trunc.
Close Scope Q_scope.

(* the kept count depends only on (max_dims, bond, number of singular values) *)
Lemma fixed_kept_depends_on_length (cfg : Gen.Trunc.config) (sigma sigma' : list Q) idx left :
  Gen.Trunc.cfg_criteria cfg = Gen.Trunc.Fixed -> length sigma = length sigma' ->
  compress_m_trunc_config (Gen.Trunc.compute_m_trunc cfg sigma idx left) =
  compress_m_trunc_config (Gen.Trunc.compute_m_trunc cfg sigma' idx left).
Proof.
  intros Hc Hl. unfold compress_m_trunc_config, Gen.Trunc.compute_m_trunc. rewrite Hc.
  unfold Gen.Trunc.fixed_m_trunc, Model.Trunc.py_len. rewrite Hl. reflexivity.
Qed.

(* hence multiplying every singular value by any factor (the overall scale of the object) does not change it *)
Lemma fixed_kept_scale_invariant (cfg : Gen.Trunc.config) (sigma : list Q) (c : Q) idx left :
  Gen.Trunc.cfg_criteria cfg = Gen.Trunc.Fixed ->
  compress_m_trunc_config (Gen.Trunc.compute_m_trunc cfg (map (Qmult c) sigma) idx left) =
  compress_m_trunc_config (Gen.Trunc.compute_m_trunc cfg sigma idx left).
Proof. intros Hc. apply fixed_kept_depends_on_length; [exact Hc|apply map_length]. Qed.

(* with a limit not below the number of singular values nothing is cut *)
Lemma fixed_large_limit_keeps_all (cfg : Gen.Trunc.config) (sigma : list Q) (idx : Z) (left : bool) :
  Gen.Trunc.cfg_criteria cfg = Gen.Trunc.Fixed ->
  (Model.Trunc.py_len sigma <= Model.Trunc.py_index (Gen.Trunc.cfg_max_dims cfg) (if left then (idx + 1)%Z else idx))%Z ->
  compress_m_trunc_config (Gen.Trunc.compute_m_trunc cfg sigma idx left) = Model.Trunc.py_len sigma.
Proof.
  intros Hc Hle. unfold compress_m_trunc_config, Gen.Trunc.compute_m_trunc. rewrite Hc.
  unfold Gen.Trunc.fixed_m_trunc. cbv zeta. lia.
Qed.

(* explicit limit: min(limit, len sigma) -- also independent of the values *)
Lemma temp_kept_depends_on_length (limit : Z) (sigma sigma' : list Q) : length sigma = length sigma' ->
  compress_m_trunc_temp limit (Model.Trunc.py_len sigma) = compress_m_trunc_temp limit (Model.Trunc.py_len sigma').
Proof. intros H. unfold Model.Trunc.py_len. rewrite H. reflexivity. Qed.
