(* Proofs about Model/Krylov.v : buffer safety / termination of the Lanczos loop skeleton by invariant,
   and the algebraic exactness of the Krylov propagator on an invariant subspace. *)
From Coq Require Import List Arith Bool Lia Ring.
From RV Require Import Base.CRing Base.BigSum Model.Krylov Gen.KrylovSites Gen.KrylovNorm.
Import ListNotations.

(* ================================================================== Part 1: control skeleton *)
(* invariant at the head of the loop body *)
Definition Inv (n : nat) (s : st) : Prop :=
  lv s = la s /\ lb s + 1 = lv s /\ sj s < lv s /\ sj s < n.

Lemma forallb_app_true {X} (f : X -> bool) l l' : forallb f l = true -> forallb f l' = true -> forallb f (l ++ l') = true.
Proof. intros H1 H2. rewrite forallb_app, H1, H2. reflexivity. Qed.

Ltac acc_tac :=
  repeat match goal with
  | |- forallb acc_ok (_ ++ _) = true => apply forallb_app_true
  | |- forallb acc_ok (if ?c then _ else _) = true => destruct c
  end;
  cbn [forallb acc_ok slices sj lv la lb hasres];
  repeat rewrite andb_true_iff; repeat split; try reflexivity;
  try (apply Nat.ltb_lt; cbn [sj lv la lb]; lia); try (apply Nat.leb_le; cbn [sj lv la lb]; lia).

Lemma step_ok n bs brk conv s : 1 <= bs -> Inv n s ->
  let r := step n bs brk conv s in
  forallb acc_ok (snd r) = true /\
  match fst r with
  | inl (e, it, s') => it = sj s + 1 /\ it <= n /\ sj s' = sj s /\ lv s' = la s' /\ lb s' + 1 = lv s' /\ it <= lv s'
  | inr s' => Inv n s' /\ sj s' = sj s + 1
  end.
Proof.
  intros Hbs (I1 & I2 & I3 & I4). unfold step.
  destruct (Nat.eqb_spec (sj s) (n - 1)) as [E|E].
  - cbn [fst snd]. split; [acc_tac | repeat split; lia].
  - (* after the growth test the buffers have room for index j+1 *)
    set (s1 := if Nat.eqb (lv s) (sj s + 1)
               then {| sj := sj s; lv := lv s + bs; la := la s + bs; lb := lb s + bs; hasres := hasres s |} else s).
    assert (G : lv s1 = la s1 /\ lb s1 + 1 = lv s1 /\ sj s + 1 < lv s1 /\ sj s1 = sj s /\ hasres s1 = hasres s).
    { unfold s1. destruct (Nat.eqb_spec (lv s) (sj s + 1)); cbn [sj lv la lb hasres]; repeat split; lia. }
    destruct G as (G1 & G2 & G3 & G4 & G5).
    assert (L : forall x, Nat.ltb 0 (sj s) = x -> forallb acc_ok
              ([Rd BA (sj s) (la s1); Rd BV (sj s) (lv s1)] ++
               (if x then [Rd BB (sj s - 1) (lb s1); Rd BV (sj s - 1) (lv s1)] else []) ++
               [Wr BB (sj s) (lb s1); Rd BB (sj s) (lb s1)]) = true).
    { intros x Hx. destruct x; [apply Nat.ltb_lt in Hx|]; acc_tac. }
    specialize (L _ eq_refl).
    assert (SL : forallb acc_ok (slices s1) = true).
    { unfold slices. rewrite G4. acc_tac. }
    assert (E1 : forallb acc_ok [Rd BV (sj s) (lv s); Wr BA (sj s) (la s); Rd BV (sj s) (lv s)] = true) by acc_tac.
    destruct (brk (sj s)).
    + cbn [fst snd]. split; [|repeat split; lia].
      apply forallb_app_true; [exact E1 | apply forallb_app_true; [exact L | exact SL]].
    + set (check := Nat.ltb 3 (sj s) && Nat.even (sj s)).
      assert (E3 : forallb acc_ok (if check then slices s1 else []) = true) by (destruct check; [exact SL | reflexivity]).
      destruct (check && hasres s1 && conv (sj s)).
      * cbn [fst snd]. split; [|repeat split; lia].
        apply forallb_app_true; [exact E1 | apply forallb_app_true; [exact L | exact E3]].
      * cbn [fst snd]. split.
        -- apply forallb_app_true; [exact E1 | apply forallb_app_true; [exact L | apply forallb_app_true; [exact E3 | acc_tac]]].
        -- unfold Inv. cbn [sj lv la lb hasres]. repeat split; lia.
Qed.

Lemma loop_ok n bs brk conv : 1 <= bs -> forall fuel s, Inv n s -> fuel + sj s = n ->
  let r := loop fuel n bs brk conv s in
  forallb acc_ok (snd r) = true /\
  exists e it s', fst r = Some (e, it, s') /\ sj s < it /\ it <= n /\ it = sj s' + 1 /\
                  lv s' = la s' /\ lb s' + 1 = lv s' /\ it <= lv s'.
Proof.
  intros Hbs. induction fuel as [|f IH]; intros s HI Hf.
  - destruct HI as (_ & _ & _ & H). lia.
  - cbn [loop]. pose proof (step_ok n bs brk conv s Hbs HI) as Hs. cbn zeta in Hs.
    destruct (step n bs brk conv s) as [[[[e it] sf]|s'] ev]; cbn [fst snd] in *.
    + destruct Hs as (Ha & Hit & Hn & H1 & H2 & H3 & H4). split; [exact Ha|].
      exists e, it, sf. repeat split; try lia.
    + destruct Hs as (Ha & HI' & Hj). specialize (IH s' HI').
      assert (Hf' : f + sj s' = n) by lia. specialize (IH Hf'). cbn zeta in IH.
      destruct IH as (Hb & e & it & s'' & E & H1 & H2 & H3).
      split; [apply forallb_app_true; assumption|].
      exists e, it, s''. rewrite E. repeat split; try tauto; lia.
Qed.

(* for every vector length n >= 1, block size >= 1 (the property asks for >= 2) and every outcome of the
   two data-dependent tests: no access out of bounds, no silently truncated slice, the loop returns
   (never falls through) after 1 <= it <= n iterations, the buffers satisfy len(V) = len(alpha) = len(beta)+1 *)
Theorem krylov_buffers_safe n bs brk conv : 1 <= n -> 1 <= bs ->
  let r := run n bs brk conv in
  forallb acc_ok (snd r) = true /\
  exists e it s, fst r = Some (e, it, s) /\ 1 <= it /\ it <= n /\ it = sj s + 1 /\
                 lv s = la s /\ lb s + 1 = lv s /\ it <= lv s.
Proof.
  intros Hn Hbs. unfold run, init. cbn [fst snd].
  assert (HI : Inv n {| sj := 0; lv := bs; la := bs; lb := bs - 1; hasres := false |}).
  { unfold Inv. cbn. repeat split; lia. }
  pose proof (loop_ok n bs brk conv Hbs n _ HI) as H. cbn [sj] in H. specialize (H (Nat.add_0_r n)).
  cbn zeta in H. destruct H as (Ha & e & it & s & E & H1 & H2).
  split.
  - cbn [app forallb acc_ok]. rewrite Ha. replace (Nat.ltb 0 bs) with true; [reflexivity|].
    symmetry. apply Nat.ltb_lt. lia.
  - exists e, it, s. rewrite E. repeat split; try tauto; lia.
Qed.

(* the exit taken is the first one whose test fires: if neither data-dependent test ever fires the loop
   runs to the full space *)
Lemma loop_fullspace n bs : 1 <= bs -> forall fuel s, Inv n s -> fuel + sj s = n ->
  exists s', fst (loop fuel n bs (fun _ => false) (fun _ => false) s) = Some (FullSpace, n, s').
Proof.
  intros Hbs. induction fuel as [|f IH]; intros s HI Hf.
  - destruct HI as (_ & _ & _ & H). lia.
  - cbn [loop]. pose proof (step_ok n bs (fun _ => false) (fun _ => false) s Hbs HI) as Hs. cbn zeta in Hs.
    unfold step in *. destruct (Nat.eqb_spec (sj s) (n - 1)) as [E|E].
    + cbn [fst snd]. exists s. repeat f_equal. destruct HI as (_ & _ & _ & H). lia.
    + rewrite andb_false_r in *. cbn [fst snd] in *. destruct Hs as (_ & HI' & Hj).
      apply IH; [exact HI' | cbn [sj] in *; lia].
Qed.

Theorem krylov_no_test_full_space n bs : 1 <= n -> 1 <= bs ->
  exists s, fst (run n bs (fun _ => false) (fun _ => false)) = Some (FullSpace, n, s).
Proof.
  intros Hn Hbs. unfold run, init. cbn [fst snd].
  apply loop_fullspace; [exact Hbs | unfold Inv; cbn; repeat split; lia | cbn; lia].
Qed.

(* which test fired: the exit is the first one whose condition holds *)
Lemma step_exit n bs brk conv s :
  match fst (step n bs brk conv s) with
  | inl (e, it, _) => (e = FullSpace -> sj s = n - 1) /\ (e = Breakdown -> brk (sj s) = true)
  | inr _ => brk (sj s) = false
  end.
Proof.
  unfold step. destruct (Nat.eqb_spec (sj s) (n - 1)) as [E|E]; cbn [fst].
  - split; [auto | discriminate].
  - destruct (brk (sj s)) eqn:B; cbn [fst]; [split; [discriminate | auto]|].
    match goal with |- context [if ?c then _ else _] => destruct c end; cbn [fst]; [split; discriminate | reflexivity].
Qed.

Lemma loop_exit n bs brk conv : 1 <= bs -> forall fuel s, Inv n s -> fuel + sj s = n ->
  (forall j, j < sj s -> brk j = false) ->
  forall e it s', fst (loop fuel n bs brk conv s) = Some (e, it, s') ->
    (forall j, j + 1 < it -> brk j = false) /\ (e = Breakdown -> brk (it - 1) = true) /\ (e = FullSpace -> it = n).
Proof.
  intros Hbs. induction fuel as [|f IH]; intros s HI Hf Hb e it s' E.
  - cbn in E. discriminate.
  - cbn [loop] in E. pose proof (step_ok n bs brk conv s Hbs HI) as Hs. pose proof (step_exit n bs brk conv s) as Hx.
    cbn zeta in Hs. destruct (step n bs brk conv s) as [[[[e0 it0] sf]|s1] ev]; cbn [fst snd] in *.
    + injection E as -> -> ->. destruct Hs as (_ & Hit & Hn & _). destruct Hx as [X1 X2].
      split; [intros j Hj; apply Hb; lia|]. split.
      * intros He. replace (it - 1) with (sj s) by lia. auto.
      * intros He. specialize (X1 He). destruct HI as (_ & _ & _ & I4). lia.
    + destruct Hs as (_ & HI' & Hj). apply (IH s1 HI') with (s' := s'); [lia | | exact E].
      intros j Hlt. destruct (Nat.eq_dec j (sj s)) as [->|Hne]; [exact Hx | apply Hb; lia].
Qed.

Theorem krylov_exit_spec n bs brk conv : 1 <= n -> 1 <= bs ->
  forall e it s, fst (run n bs brk conv) = Some (e, it, s) ->
    1 <= it /\ it <= n /\ (forall j, j + 1 < it -> brk j = false) /\
    (e = Breakdown -> brk (it - 1) = true) /\ (e = FullSpace -> it = n).
Proof.
  intros Hn Hbs e it s E.
  destruct (krylov_buffers_safe n bs brk conv Hn Hbs) as (_ & e' & it' & s' & E' & H1 & H2 & _).
  rewrite E in E'. injection E' as <- <- <-.
  unfold run, init in E. cbn [fst snd] in E.
  assert (HI : Inv n {| sj := 0; lv := bs; la := bs; lb := bs - 1; hasres := false |}) by (unfold Inv; cbn; repeat split; lia).
  destruct (loop_exit n bs brk conv Hbs n _ HI (Nat.add_0_r n) (fun j (H : j < 0) => match Nat.nlt_0_r j H with end) e it s E)
    as (X1 & X2 & X3).
  repeat split; auto.
Qed.

(* ================================================================== Part 2: algebra *)
Section AlgebraProofs.
  Variable R : CRing.
  Add Ring RRk : (rth R).
  Notation "0" := (r0 R).
  Notation "1" := (r1 R).
  Infix "+" := (radd R).
  Infix "*" := (rmul R).

  Lemma mv_compat c (M : matx R) x y : veq R c x y -> forall i, mv R c M x i = mv R c M y i.
  Proof. intros H i. unfold mv. apply sumn_ext. intros l Hl. rewrite (H l Hl). reflexivity. Qed.

  Lemma mv_add c (M : matx R) x y i : mv R c M (fun l => x l + y l) i = mv R c M x i + mv R c M y i.
  Proof.
    unfold mv. rewrite <- sumn_add. apply sumn_ext. intros; ring.
  Qed.

  Lemma mv_scale c (M : matx R) a x i : mv R c M (fun l => a * x l) i = a * mv R c M x i.
  Proof.
    unfold mv. rewrite <- sumn_scale_l. apply sumn_ext. intros; ring.
  Qed.

  (* A V = V T as matrices  ==>  A (V x) = V (T x) for every coefficient vector x *)
  Lemma rel_vec N m (A V T : matx R) : lanczos_rel R N m A V T ->
    forall x, veq R N (mv R N A (mv R m V x)) (mv R m V (mv R m T x)).
  Proof.
    intros H x i Hi. unfold mv.
    (* lhs: sum_l A i l * sum_c V l c x c = sum_c (sum_l A i l V l c) x c *)
    rewrite (sumn_ext R N _ (fun l => sumn m (fun c => A i l * V l c * x c))).
    2:{ intros l _. rewrite <- sumn_scale_l. apply sumn_ext. intros; ring. }
    rewrite sumn_exchange.
    rewrite (sumn_ext R m _ (fun c => sumn m (fun d => V i d * T d c * x c))).
    2:{ intros c Hc. rewrite sumn_scale_r. rewrite (H i c Hi Hc). rewrite <- sumn_scale_r. reflexivity. }
    rewrite sumn_exchange. apply sumn_ext. intros d _.
    rewrite <- sumn_scale_l. apply sumn_ext. intros; ring.
  Qed.

  Lemma poly_compat d (M : matx R) q x y : veq R d x y -> veq R d (poly_apply R d M q x) (poly_apply R d M q y).
  Proof.
    intros H. induction q as [|c q IH]; intros i Hi; cbn [poly_apply]; [reflexivity|].
    rewrite (H i Hi). rewrite (mv_compat d M _ _ IH). reflexivity.
  Qed.

  Lemma poly_scale d (M : matx R) q a x : forall i, poly_apply R d M q (fun l => a * x l) i = a * poly_apply R d M q x i.
  Proof.
    induction q as [|c q IH]; intros i; cbn [poly_apply]; [ring|].
    rewrite (mv_compat d M _ (fun l => a * poly_apply R d M q x l)) by (intros l _; apply IH).
    rewrite mv_scale. ring.
  Qed.

  (* q(A) (V x) = V (q(T) x)  for every polynomial q *)
  Theorem poly_intertwine N m (A V T : matx R) : lanczos_rel R N m A V T ->
    forall q x, veq R N (poly_apply R N A q (mv R m V x)) (mv R m V (poly_apply R m T q x)).
  Proof.
    intros H q x. induction q as [|c q IH]; intros i Hi; cbn [poly_apply].
    - unfold mv. symmetry. apply sumn_0. intros; ring.
    - rewrite (mv_compat N A _ _ IH). rewrite (rel_vec N m A V T H _ i Hi).
      rewrite mv_add, mv_scale. reflexivity.
  Qed.

  Lemma mv_e1 m (V : matx R) a i : 1 <= m -> mv R m V (fun l => a * e1 R l) i = a * V i O.
  Proof.
    intros Hm. unfold mv, e1.
    rewrite (sumn_ext R m _ (fun l => if Nat.eqb l 0 then (fun l => V i l * a) l else 0)).
    - rewrite sumn_delta by lia. ring.
    - intros l _. destruct (Nat.eqb l 0); ring.
  Qed.

  (* the statement used by the method: v = ||v|| V e1  ==>  q(A) v = ||v|| V q(T) e1.
     Orthonormality of V is NOT needed for this identity; it is what makes T the compression V^dagger A V
     (lemma T_is_compression) and hence Hermitian tridiagonal for Hermitian A. *)
  Theorem krylov_poly_exact N m (A V T : matx R) (nrm : R) (v : vec R) : 1 <= m ->
    lanczos_rel R N m A V T -> (forall i, i < N -> v i = nrm * V i O) ->
    forall q, veq R N (poly_apply R N A q v) (fun i => nrm * mv R m V (poly_apply R m T q (e1 R)) i).
  Proof.
    intros Hm H Hv q i Hi.
    rewrite (poly_compat N A q v (mv R m V (fun l => nrm * e1 R l))) by
      (try exact Hi; intros l Hl; rewrite mv_e1 by exact Hm; apply Hv; exact Hl).
    rewrite (poly_intertwine N m A V T H q _ i Hi).
    rewrite (mv_compat m V _ (fun l => nrm * poly_apply R m T q (e1 R) l)) by (intros l _; apply poly_scale).
    apply mv_scale.
  Qed.

  (* with V^dagger V = I the small matrix is the compression of A *)
  Theorem T_is_compression N m (A V T : matx R) : lanczos_rel R N m A V T -> orthonormal R N m V ->
    forall c d, c < m -> d < m -> T c d = sumn N (fun i => rcj R (V i c) * sumn N (fun l => A i l * V l d)).
  Proof.
    intros H HO c d Hc Hd.
    rewrite (sumn_ext R N _ (fun i => sumn m (fun e => rcj R (V i c) * V i e * T e d))).
    2:{ intros i Hi. rewrite (H i d Hi Hd). rewrite <- sumn_scale_l. apply sumn_ext. intros; ring. }
    rewrite sumn_exchange.
    rewrite (sumn_ext R m _ (fun e => if Nat.eqb e c then (fun e => T e d) e else 0)).
    - rewrite sumn_delta by exact Hc. reflexivity.
    - intros e He. rewrite sumn_scale_r. rewrite (HO c e Hc He). rewrite (Nat.eqb_sym e c).
      destruct (Nat.eqb c e); ring.
  Qed.

  (* alpha[j] = vdot(w, V[j]).real : for Hermitian A the Rayleigh quotient <v, A v> is real, so nothing is
     lost; for anti-Hermitian A it is purely imaginary, so the code's alpha is 0 whatever A is *)
  Definition rayleigh N (A : matx R) (v : vec R) : R := sumn N (fun i => rcj R (v i) * sumn N (fun l => A i l * v l)).

  Lemma rayleigh_conj N (A : matx R) v :
    rcj R (rayleigh N A v) = sumn N (fun i => rcj R (v i) * sumn N (fun l => rcj R (A l i) * v l)).
  Proof.
    unfold rayleigh. rewrite sumn_cj.
    rewrite (sumn_ext R N _ (fun i => sumn N (fun l => v i * rcj R (A i l) * rcj R (v l)))).
    2:{ intros i _. rewrite rcj_mul, rcj_invol, sumn_cj, <- sumn_scale_l. apply sumn_ext.
        intros l _. rewrite rcj_mul. ring. }
    rewrite sumn_exchange. apply sumn_ext. intros l _. rewrite <- sumn_scale_l. apply sumn_ext. intros; ring.
  Qed.

  Theorem hermitian_rayleigh_real N (A : matx R) v : hermitian R N A -> rcj R (rayleigh N A v) = rayleigh N A v.
  Proof.
    intros H. rewrite rayleigh_conj. unfold rayleigh. apply sumn_ext. intros i Hi. f_equal.
    apply sumn_ext. intros l Hl. rewrite <- (H i l Hi Hl). reflexivity.
  Qed.

  Theorem antihermitian_rayleigh_imag N (A : matx R) v :
    (forall i l, i < N -> l < N -> A i l = ropp R (rcj R (A l i))) ->
    rcj R (rayleigh N A v) = ropp R (rayleigh N A v).
  Proof.
    intros H. rewrite rayleigh_conj. unfold rayleigh. rewrite <- sumn_opp. apply sumn_ext. intros i Hi.
    rewrite (sumn_ext R N (fun l => A i l * v l) (fun l => ropp R (rcj R (A l i) * v l))).
    - rewrite sumn_opp. ring.
    - intros l Hl. rewrite (H i l Hi Hl). ring.
  Qed.
End AlgebraProofs.

(* ================================================================== Part 3: call sites (generated table) *)
(* every call site passes a Hermitian operator: the effective Hamiltonian built by hop_expr*, or that operator
   divided by a real coefficient, or (H_eff/c)*c with the cancellation verified and 1/c moved into dt.
   (Finite domain: the generated table; vm_compute.) *)
Lemma sites_hermitian_b : forallb site_ok sites = true.
Proof. vm_compute. reflexivity. Qed.

Lemma sites_hermitian : forall s, In s sites -> site_ok s = true.
Proof. intros s Hs. pose proof sites_hermitian_b as H. rewrite forallb_forall in H. apply H. exact Hs. Qed.

(* ================================================================== Part 4: the loop with its data *)
Section DataProofs.
  Variable R : CRing.
  Add Ring RRd : (rth R).
  Notation "0" := (r0 R).
  Notation "1" := (r1 R).
  Infix "+" := (radd R).
  Infix "*" := (rmul R).
  Infix "-" := (rsub R).

  Variable N : nat.
  Variable A : matx R.
  Variable inv : R -> R.
  Variable nrm : vec R -> R.
  Variable rpart : R -> R.
  Variable isz : R -> bool.
  Variable v0 : vec R.

  (* contracts of the abstract operations *)
  Hypothesis inv_ok : forall x, isz x = false -> x * inv x = 1.                       (* x / x = 1 unless "zero" *)
  Hypothesis nrm_zero : forall w, isz (nrm w) = true -> forall i, i < N -> w i = 0.   (* exact breakdown: ||w|| = 0 -> w = 0 *)

  Notation Vk := (Vk R N A inv nrm rpart v0).
  Notation alpha := (alpha R N A inv nrm rpart v0).
  Notation beta := (beta R N A inv nrm rpart v0).
  Notation resid := (resid R N A inv nrm rpart v0).
  Notation Vmat := (Vmat R N A inv nrm rpart v0).
  Notation Tmat := (Tmat R N A inv nrm rpart v0).

  (* (beta[k-1], V[k-1]) with the convention of the source for k = 0 *)
  Definition bprev (k : nat) : R := match k with O => 0 | S k' => beta k' end.
  Definition vprev (k : nat) : vec R := match k with O => (fun _ => 0) | S k' => Vk k' end.

  Lemma lz_S k : lz R N A inv nrm rpart v0 (S k) = (Vk k, beta k, fun i => resid k i * inv (beta k)).
  Proof.
    unfold Krylov.Vk, Krylov.beta, Krylov.resid. cbn [lz].
    destruct (lz R N A inv nrm rpart v0 k) as [[vp bp] v]. reflexivity.
  Qed.

  Lemma lz_prev k : lz R N A inv nrm rpart v0 k = (vprev k, bprev k, Vk k).
  Proof. destruct k as [|k]; [reflexivity|]. rewrite lz_S. unfold Krylov.Vk. rewrite lz_S. reflexivity. Qed.

  Lemma Vk_S k i : Vk (S k) i = resid k i * inv (beta k).
  Proof. unfold Krylov.Vk. rewrite lz_S. reflexivity. Qed.

  Lemma resid_eq k i : resid k i = mv R N A (Vk k) i - (alpha k * Vk k i + bprev k * vprev k i).
  Proof. unfold Krylov.resid. rewrite lz_prev. reflexivity. Qed.

  (* the three-term recurrence holds by construction (no assumption on A) *)
  Lemma three_term k i : isz (beta k) = false ->
    mv R N A (Vk k) i = bprev k * vprev k i + alpha k * Vk k i + beta k * Vk (S k) i.
  Proof.
    intros Hb. rewrite Vk_S. pose proof (inv_ok _ Hb) as Hi. pose proof (resid_eq k i) as Hr.
    transitivity (resid k i + (alpha k * Vk k i + bprev k * vprev k i)); [rewrite Hr; ring|].
    transitivity (bprev k * vprev k i + alpha k * Vk k i + resid k i * (beta k * inv (beta k))); [rewrite Hi; ring | ring].
  Qed.

  Lemma last_term k i : resid k i = 0 ->
    mv R N A (Vk k) i = bprev k * vprev k i + alpha k * Vk k i.
  Proof.
    intros Hz. pose proof (resid_eq k i) as Hr. rewrite Hz in Hr.
    transitivity (0 + (alpha k * Vk k i + bprev k * vprev k i)); [rewrite Hr; ring | ring].
  Qed.

  (* one column of V T for the tridiagonal T *)
  Lemma Tmat_split d c :
    Tmat d c = (if Nat.eqb d c then alpha c else 0) + (if Nat.eqb (S d) c then beta d else 0)
               + (if Nat.eqb d (S c) then beta c else 0).
  Proof.
    unfold Krylov.Tmat.
    destruct (Nat.eqb_spec d c); destruct (Nat.eqb_spec (S d) c); destruct (Nat.eqb_spec d (S c)); try lia; ring.
  Qed.

  Lemma VT_column m i c : c < m ->
    sumn m (fun d => Vmat i d * Tmat d c)
    = bprev c * vprev c i + alpha c * Vk c i + (if Nat.ltb (S c) m then beta c * Vk (S c) i else 0).
  Proof.
    intros Hc.
    rewrite (sumn_ext R m _ (fun d => (if Nat.eqb d c then (fun d => Vmat i d * alpha c) d else 0)
                                      + (if Nat.eqb (S d) c then Vmat i d * beta d else 0)
                                      + (if Nat.eqb d (S c) then (fun d => Vmat i d * beta c) d else 0))).
    2:{ intros d _. rewrite Tmat_split.
        destruct (Nat.eqb d c); destruct (Nat.eqb (S d) c); destruct (Nat.eqb d (S c)); ring. }
    rewrite !sumn_add. rewrite sumn_delta by exact Hc.
    assert (E2 : sumn m (fun d => if Nat.eqb (S d) c then Vmat i d * beta d else 0) = bprev c * vprev c i).
    { destruct c as [|c'].
      - cbn [bprev vprev]. rewrite sumn_0; [ring | intros; reflexivity].
      - rewrite (sumn_ext R m _ (fun d => if Nat.eqb d c' then (fun d => Vmat i d * beta d) d else 0)) by (intros; reflexivity).
        rewrite sumn_delta by lia. cbn [bprev vprev]. unfold Krylov.Vmat. ring. }
    rewrite E2.
    destruct (Nat.ltb_spec (S c) m) as [H|H].
    - rewrite sumn_delta by exact H. unfold Krylov.Vmat. ring.
    - rewrite (sumn_0 R m (fun d => if Nat.eqb d (S c) then _ else 0)).
      + unfold Krylov.Vmat. ring.
      + intros d Hd. destruct (Nat.eqb_spec d (S c)); [lia | reflexivity].
  Qed.

  (* A V = V T for the first j+1 Lanczos vectors as soon as the residual of step j vanishes *)
  Theorem lanczos_relation_exact j :
    (forall k, k < j -> isz (beta k) = false) -> (forall i, i < N -> resid j i = 0) ->
    lanczos_rel R N (S j) A Vmat Tmat.
  Proof.
    intros Hnb Hz i c Hi Hc. rewrite (VT_column (S j) i c Hc).
    change (sumn N (fun l => A i l * Vmat l c)) with (mv R N A (Vk c) i).
    destruct (Nat.ltb_spec (S c) (S j)) as [H|H].
    - apply three_term. apply Hnb. lia.
    - assert (c = j) by lia. subst c. rewrite (last_term j i (Hz i Hi)). ring.
  Qed.

  (* ---- the value returned by the loop ---- *)
  Variable expT : nat -> matx R.        (* kernel of _expm_krylov: expT m stands for exp(dt * T_m) *)
  Variable nrm0 : R.                    (* ||vstart|| *)
  Variable v : vec R.                   (* vstart *)
  Hypothesis v_norm : forall i, i < N -> v i = nrm0 * v0 i.     (* vstart = nrmv * (vstart / nrmv) *)

  (* whatever the exit: the returned vector is nrmv * V[:it].T * E * e1 with E the kernel's matrix for the exact T of the
     state at the exit; and if A V = V T holds there, it is q(A) v whenever the kernel evaluates the polynomial q *)
  Lemma ret_poly m q : 1 <= m -> lanczos_rel R N m A Vmat Tmat ->
    (forall c, c < m -> mv R m (expT m) (e1 R) c = poly_apply R m Tmat q (e1 R) c) ->
    veq R N (ret_vec R N A inv nrm rpart v0 nrm0 (expT m) m) (poly_apply R N A q v).
  Proof.
    intros Hm Hrel HE i Hi. unfold ret_vec.
    rewrite (mv_compat R m Vmat _ (poly_apply R m Tmat q (e1 R))) by exact HE.
    symmetry. apply (krylov_poly_exact R N m A Vmat Tmat nrm0 v Hm Hrel); [|exact Hi].
    intros l Hl. rewrite (v_norm l Hl). reflexivity.
  Qed.

  (* BREAKDOWN exit of the loop *)
  Theorem krylov_return_breakdown bs conv it r : 1 <= N -> 1 <= bs ->
    krylov_return R N A inv nrm rpart isz bs conv v0 nrm0 expT = Some (Breakdown, it, r) ->
    r = ret_vec R N A inv nrm rpart v0 nrm0 (expT it) it /\ 1 <= it /\ it <= N /\
    lanczos_rel R N it A Vmat Tmat /\
    forall q, (forall c, c < it -> mv R it (expT it) (e1 R) c = poly_apply R it Tmat q (e1 R) c) ->
              veq R N r (poly_apply R N A q v).
  Proof.
    intros HN Hbs E. unfold krylov_return in E.
    destruct (fst (run N bs (fun j => isz (beta j)) conv)) as [[[e it'] s]|] eqn:Er; [|discriminate].
    injection E as -> -> <-.
    destruct (krylov_exit_spec N bs _ conv HN Hbs _ _ _ Er) as (H1 & H2 & Hnb & Hb & _).
    specialize (Hb eq_refl).
    assert (Hrel : lanczos_rel R N it A Vmat Tmat).
    { replace it with (S (it - 1)%nat) by lia. apply lanczos_relation_exact.
      - intros k Hk. apply Hnb. lia.
      - apply nrm_zero. exact Hb. }
    repeat split; auto. intros q HE. apply ret_poly; auto.
  Qed.

  (* FULL-SPACE exit: needs what exact Lanczos on a Hermitian matrix provides -- an orthonormal, complete set of N
     vectors -- stated as hypotheses (checked numerically on the logged V), plus: beta and alpha are real *)
  Hypothesis A_herm : hermitian R N A.
  Hypothesis V_orth : orthonormal R N N Vmat.
  Hypothesis V_complete : forall i l, i < N -> l < N ->
    sumn N (fun k => Vmat i k * rcj R (Vmat l k)) = if Nat.eqb i l then 1 else 0.
  Hypothesis nrm_real : forall w, rcj R (nrm w) = nrm w.
  Hypothesis rpart_real : forall x, rcj R x = x -> rpart x = x.

  Notation vdot := (vdot R N).

  Lemma vdot_orth a b : a < N -> b < N -> vdot (Vk a) (Vk b) = if Nat.eqb a b then 1 else 0.
  Proof. intros Ha Hb. exact (V_orth a b Ha Hb). Qed.

  Lemma vdot_ext x y y' : (forall i, i < N -> y i = y' i) -> vdot x y = vdot x y'.
  Proof. intros H. unfold Krylov.vdot. apply sumn_ext. intros i Hi. rewrite (H i Hi). reflexivity. Qed.

  Lemma vdot_ext_l x x' y : (forall i, i < N -> x i = x' i) -> vdot x y = vdot x' y.
  Proof. intros H. unfold Krylov.vdot. apply sumn_ext. intros i Hi. rewrite (H i Hi). reflexivity. Qed.

  Lemma vdot_lin3 x a b c p q : vdot x (fun i => a i - (p * b i + q * c i)) = vdot x a - (p * vdot x b + q * vdot x c).
  Proof.
    unfold Krylov.vdot.
    transitivity (sumn N (fun i => rcj R (x i) * a i) + (ropp R 1) * (p * sumn N (fun i => rcj R (x i) * b i) + q * sumn N (fun i => rcj R (x i) * c i))); [|ring].
    rewrite <- !sumn_scale_l, <- !sumn_add. rewrite <- sumn_scale_l, <- sumn_add.
    apply sumn_ext. intros; ring.
  Qed.

  Lemma vdot_clin3 a b c p q t y :
    vdot (fun i => p * a i + q * b i + t * c i) y = rcj R p * vdot a y + rcj R q * vdot b y + rcj R t * vdot c y.
  Proof.
    unfold Krylov.vdot. rewrite <- !sumn_scale_l, <- !sumn_add.
    apply sumn_ext. intros i _. rewrite !rcj_add, !rcj_mul. ring.
  Qed.

  (* <x, A y> = <A x, y> for Hermitian A *)
  Lemma herm_adjoint x y : vdot x (mv R N A y) = vdot (mv R N A x) y.
  Proof.
    unfold Krylov.vdot, mv.
    rewrite (sumn_ext R N _ (fun i => sumn N (fun l => rcj R (x i) * A i l * y l))).
    2:{ intros i _. rewrite <- sumn_scale_l. apply sumn_ext. intros; ring. }
    rewrite sumn_exchange. apply sumn_ext. intros l Hl.
    rewrite sumn_cj, <- sumn_scale_r. apply sumn_ext. intros i Hi.
    rewrite rcj_mul. rewrite (A_herm i l Hi Hl). ring.
  Qed.

  Lemma vprev_orth k b : k < N -> b < N -> bprev k * vdot (vprev k) (Vk b) = bprev k * (if Nat.eqb (S b) k then 1 else 0).
  Proof.
    intros Hk Hb. destruct k as [|k']; cbn [bprev vprev]; [ring|].
    rewrite vdot_orth by lia. rewrite (Nat.eqb_sym k' b). reflexivity.
  Qed.

  (* the residual of the last step is orthogonal to every Lanczos vector ... *)
  Lemma resid_last_orth : (forall k, k + 1 < N -> isz (beta k) = false) ->
    forall k, k < N -> vdot (Vk k) (resid (N - 1)%nat) = 0.
  Proof.
    intros Hnb k Hk. set (j := (N - 1)%nat). assert (Hj : j < N) by lia.
    rewrite (vdot_ext _ _ (fun i => mv R N A (Vk j) i - (alpha j * Vk j i + bprev j * vprev j i))) by (intros; apply resid_eq).
    rewrite vdot_lin3. rewrite herm_adjoint.
    destruct (Nat.eq_dec k j) as [->|Hne].
    - (* k = j: <v_j, A v_j> is real, so alpha_j equals it *)
      rewrite vdot_orth by lia. rewrite Nat.eqb_refl.
      assert (Ea : alpha j = vdot (mv R N A (Vk j)) (Vk j)).
      { unfold Krylov.alpha, lz_alpha. apply rpart_real. rewrite <- herm_adjoint.
        exact (hermitian_rayleigh_real R N A (Vk j) A_herm). }
      assert (Ep : bprev j * vdot (Vk j) (vprev j) = 0).
      { destruct j as [|j']; cbn [bprev vprev].
        - ring.
        - rewrite vdot_orth by lia. destruct (Nat.eqb_spec (S j') j'); [lia | ring]. }
      rewrite Ep, <- Ea. ring.
    - (* k < j: expand A v_k by the three-term recurrence *)
      assert (Hkj : k < j) by lia.
      rewrite (vdot_ext_l _ (fun i => bprev k * vprev k i + alpha k * Vk k i + beta k * Vk (S k) i)) by
        (intros i _; apply three_term; apply Hnb; lia).
      rewrite vdot_clin3. rewrite !vdot_orth by lia.
      assert (E1 : rcj R (bprev k) * vdot (vprev k) (Vk j) = 0).
      { destruct k as [|k']; cbn [bprev vprev]; [rewrite rcj_0; ring|].
        rewrite vdot_orth by lia. destruct (Nat.eqb_spec k' j); [lia | ring]. }
      rewrite E1.
      assert (E2 : bprev j * vdot (Vk k) (vprev j) = bprev j * (if Nat.eqb (S k) j then 1 else 0)).
      { destruct j as [|j']; cbn [bprev vprev]; [ring|].
        rewrite vdot_orth by lia. destruct (Nat.eqb_spec k j'); destruct (Nat.eqb_spec (S k) (S j')); try lia; reflexivity. }
      rewrite E2.
      destruct (Nat.eqb_spec k j) as [|_]; [lia|].
      destruct (Nat.eqb_spec (S k) j) as [E|_].
      + (* k + 1 = j : beta_k (real) cancels *)
        subst j. rewrite <- E. cbn [bprev]. unfold Krylov.beta at 1. rewrite nrm_real. fold (beta k). ring.
      + ring.
  Qed.

  (* ... and the Lanczos vectors are complete, so it vanishes *)
  Lemma resid_last_zero : (forall k, k + 1 < N -> isz (beta k) = false) ->
    forall i, i < N -> resid (N - 1)%nat i = 0.
  Proof.
    intros Hnb i Hi. set (r := resid (N - 1)%nat).
    transitivity (sumn N (fun l => (if Nat.eqb i l then 1 else 0) * r l)).
    { rewrite (sumn_ext R N _ (fun l => if Nat.eqb l i then r l else 0)).
      - rewrite sumn_delta by exact Hi. reflexivity.
      - intros l _. rewrite (Nat.eqb_sym i l). destruct (Nat.eqb l i); ring. }
    rewrite (sumn_ext R N _ (fun l => sumn N (fun k => Vmat i k * (rcj R (Vmat l k) * r l)))).
    2:{ intros l Hl. rewrite <- (V_complete i l Hi Hl). rewrite <- sumn_scale_r. apply sumn_ext. intros; ring. }
    rewrite sumn_exchange. apply sumn_0. intros k Hk.
    rewrite sumn_scale_l. change (sumn N (fun l => rcj R (Vmat l k) * r l)) with (vdot (Vk k) r).
    unfold r. rewrite (resid_last_orth Hnb k Hk). ring.
  Qed.

  Theorem krylov_return_fullspace bs conv it r : 1 <= N -> 1 <= bs ->
    krylov_return R N A inv nrm rpart isz bs conv v0 nrm0 expT = Some (FullSpace, it, r) ->
    r = ret_vec R N A inv nrm rpart v0 nrm0 (expT it) it /\ it = N /\
    lanczos_rel R N it A Vmat Tmat /\
    forall q, (forall c, c < it -> mv R it (expT it) (e1 R) c = poly_apply R it Tmat q (e1 R) c) ->
              veq R N r (poly_apply R N A q v).
  Proof.
    intros HN Hbs E. unfold krylov_return in E.
    destruct (fst (run N bs (fun j => isz (beta j)) conv)) as [[[e it'] s]|] eqn:Er; [|discriminate].
    injection E as -> -> <-.
    destruct (krylov_exit_spec N bs _ conv HN Hbs _ _ _ Er) as (H1 & H2 & Hnb & _ & Hf).
    specialize (Hf eq_refl). subst it.
    assert (Hrel : lanczos_rel R N N A Vmat Tmat).
    { replace N with (S (N - 1)%nat) at 2 by lia. apply lanczos_relation_exact.
      - intros k Hk. apply Hnb. lia.
      - apply resid_last_zero. intros k Hk. apply Hnb. exact Hk. }
    repeat split; auto. intros q HE. apply ret_poly; auto.
  Qed.
End DataProofs.

(* ================================================================== a concrete instance of the data model
   The field with three elements (a commutative ring with trivial involution in which 1/x exists and
   x^2 + y^2 = 0 forces x = y = 0), N = 2: all contracts of Part 4 hold, and both exact exits occur. *)
Module KEx.
  Inductive f3 := a0 | a1 | a2.
  Definition add (x y : f3) : f3 :=
    match x, y with a0, z | z, a0 => z | a1, a1 => a2 | a1, a2 | a2, a1 => a0 | a2, a2 => a1 end.
  Definition mul (x y : f3) : f3 :=
    match x, y with a0, _ | _, a0 => a0 | a1, z | z, a1 => z | a2, a2 => a1 end.
  Definition opp (x : f3) : f3 := match x with a0 => a0 | a1 => a2 | a2 => a1 end.
  Definition sub (x y : f3) : f3 := add x (opp y).

  Lemma f3_th : ring_theory a0 a1 add mul sub opp (@eq f3).
  Proof. constructor; intros; repeat match goal with x : f3 |- _ => destruct x end; reflexivity. Qed.

  Definition F3 : CRing.
  Proof.
    refine {| car := f3; r0 := a0; r1 := a1; radd := add; rmul := mul; rsub := sub; ropp := opp;
              rcj := fun x => x; rth := f3_th |}; intros; reflexivity.
  Defined.

  Definition inv (x : f3) : f3 := x.                                  (* 1/1 = 1, 1/2 = 2 *)
  Definition isz (x : f3) : bool := match x with a0 => true | _ => false end.
  Definition nrm (w : vec F3) : f3 := add (mul (w 0) (w 0)) (mul (w 1) (w 1)).
  Definition rpart (x : f3) : f3 := x.
  Definition diagA : matx F3 := fun i l => match i, l with 0, 0 => a1 | 1, 1 => a2 | _, _ => a0 end.
  Definition flipA : matx F3 := fun i l => match i, l with 0, 1 => a1 | 1, 0 => a1 | _, _ => a0 end.
  Definition ve0 : vec F3 := fun i => match i with 0 => a1 | _ => a0 end.
  Definition idE : nat -> matx F3 := fun _ i l => if Nat.eqb i l then a1 else a0.

  Lemma inv_ok : forall x, isz x = false -> mul x (inv x) = a1.
  Proof. intros [| |]; cbn; intros; try reflexivity; discriminate. Qed.

  Lemma nrm_zero : forall w : vec F3, isz (nrm w) = true -> forall i, i < 2 -> w i = a0.
  Proof.
    intros w H i Hi. unfold nrm in H.
    destruct i as [|[|i]]; [| |lia]; destruct (w 0), (w 1); cbn in H; try reflexivity; discriminate.
  Qed.

  (* an eigenvector as start vector: breakdown at the first iteration *)
  Lemma breakdown_run :
    exists r, krylov_return F3 2 diagA inv nrm rpart isz 2 (fun _ => false) ve0 a1 idE = Some (Breakdown, 1, r).
  Proof. eexists. vm_compute. reflexivity. Qed.

  (* the flip matrix: the Krylov space is the full space, V = identity is orthonormal and complete *)
  Lemma fullspace_run :
    exists r, krylov_return F3 2 flipA inv nrm rpart isz 2 (fun _ => false) ve0 a1 idE = Some (FullSpace, 2, r).
  Proof. eexists. vm_compute. reflexivity. Qed.

  Ltac two := intros;
    repeat match goal with H : _ < _ |- _ => vm_compute in H end;
    repeat match goal with
    | H : S _ <= 0 |- _ => exfalso; inversion H
    | H : S ?a <= S ?n |- _ => is_var a; destruct a as [|a]; [clear H | apply le_S_n in H]
    end; vm_compute; reflexivity.

  Lemma fullspace_hyps :
    hermitian F3 2 flipA /\ orthonormal F3 2 2 (Vmat F3 2 flipA inv nrm rpart ve0) /\
    (forall i l, i < 2 -> l < 2 ->
       @sumn F3 2 (fun k => rmul F3 (Vmat F3 2 flipA inv nrm rpart ve0 i k) (rcj F3 (Vmat F3 2 flipA inv nrm rpart ve0 l k)))
       = if Nat.eqb i l then r1 F3 else r0 F3) /\
    (forall w : vec F3, rcj F3 (nrm w) = nrm w) /\ (forall x : F3, rcj F3 x = x -> rpart x = x).
  Proof.
    split; [unfold hermitian; two|]. split; [unfold orthonormal; two|]. split; [two|]. split; reflexivity.
  Qed.
End KEx.

(* ================================================================== Part 5: normalise, run, scale: homogeneity *)
Lemma norm_shape_ok : src_norm = ref_norm.
Proof. reflexivity. Qed.

Section WrapperProofs.
  Variable R : CRing.
  Add Ring RRw : (rth R).
  Infix "*" := (rmul R).
  Variable nrmf : vec R -> R.
  Variable inv : R -> R.
  Variable close1 : R -> bool.
  Variable core : vec R -> vec R.
  (* the Lanczos run only looks at the entries of its first basis vector *)
  Hypothesis core_ext : forall x y, (forall i, x i = y i) -> forall i, core x i = core y i.

  (* unconditional normalisation: the returned vector is homogeneous of degree 1 in the start vector, for every factor c
     by which the norm scales (c > 0 for a norm) and which has an inverse *)
  Theorem wrapper_homogeneous (c : R) (v : vec R) :
    nrmf (fun i => c * v i) = c * nrmf v ->
    c * inv c = r1 R -> inv (c * nrmf v) = inv c * inv (nrmf v) ->
    forall i, expm_wrapper R nrmf inv close1 core ref_norm (fun l => c * v l) i
              = c * expm_wrapper R nrmf inv close1 core ref_norm v i.
  Proof.
    intros Hn Hc Hi i. unfold expm_wrapper, start_of. cbn [ref_norm ns_unconditional orb]. rewrite Hn.
    rewrite (core_ext (fun l => c * v l * inv (c * nrmf v)) (fun l => v l * inv (nrmf v))).
    - ring.
    - intros l. rewrite Hi.
      transitivity (v l * inv (nrmf v) * (c * inv c)); [ring | rewrite Hc; ring].
  Qed.
End WrapperProofs.

Theorem wrapper_homogeneous_src (R : CRing) (nrmf : vec R -> R) (inv : R -> R) (close1 : R -> bool) (core : vec R -> vec R) :
  (forall x y, (forall i, x i = y i) -> forall i, core x i = core y i) ->
  forall (c : R) (v : vec R),
  nrmf (fun i => rmul R c (v i)) = rmul R c (nrmf v) ->
  rmul R c (inv c) = r1 R -> inv (rmul R c (nrmf v)) = rmul R (inv c) (inv (nrmf v)) ->
  forall i, expm_wrapper R nrmf inv close1 core src_norm (fun l => rmul R c (v l)) i
            = rmul R c (expm_wrapper R nrmf inv close1 core src_norm v i).
Proof. rewrite norm_shape_ok. exact (wrapper_homogeneous R nrmf inv close1 core). Qed.

(* the data model of Part 4: two start vectors nrm0 * v0 and (c * nrm0) * v0 sharing the unit first basis vector v0 take the
   same exit after the same number of iterations, and the returned vectors differ by the factor c *)
Theorem krylov_return_homogeneous (R : CRing) N (A : matx R) inv nrm rpart (isz : R -> bool) bs conv v0 (nrm0 c : R) expT e it r :
  krylov_return R N A inv nrm rpart isz bs conv v0 nrm0 expT = Some (e, it, r) ->
  exists r', krylov_return R N A inv nrm rpart isz bs conv v0 (rmul R c nrm0) expT = Some (e, it, r') /\
             forall i, r' i = rmul R c (r i).
Proof.
  unfold krylov_return. destruct (fst (run N bs (fun j => isz (beta R N A inv nrm rpart v0 j)) conv)) as [[[e' it'] s]|]; [|discriminate].
  intros H. injection H as <- <- <-. eexists. split; [reflexivity|].
  intros i. unfold ret_vec. pose proof (rth R) as T. destruct T. rewrite Rmul_assoc. reflexivity.
Qed.

(* a guarded normalisation is NOT homogeneous: the field with three elements, norm := first entry, guard "n = 2",
   core := identity; v = (2, 0), c = 2 *)
Lemma guarded_normalisation_refuted :
  let sh := {| ns_two_norm := true; ns_unconditional := false; ns_out_of_place := true; ns_first_row := true;
               ns_scale_once := true; ns_atol_scaled := true; ns_fallback_consistent := true |} in
  let nrmf := fun w : vec KEx.F3 => w 0 in
  let close1 := fun x : KEx.f3 => match x with KEx.a2 => true | _ => false end in
  let v : vec KEx.F3 := fun i => match i with 0 => KEx.a2 | _ => KEx.a0 end in
  let c := KEx.a2 in
  nrmf (fun i => KEx.mul c (v i)) = KEx.mul c (nrmf v) /\ KEx.mul c (KEx.inv c) = KEx.a1 /\
  expm_wrapper KEx.F3 nrmf KEx.inv close1 (fun x => x) sh (fun l => KEx.mul c (v l)) 0
  <> KEx.mul c (expm_wrapper KEx.F3 nrmf KEx.inv close1 (fun x => x) sh v 0).
Proof. vm_compute. repeat split; discriminate. Qed.
