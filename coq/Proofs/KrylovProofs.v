(* Proofs about Model/Krylov.v : buffer safety / termination of the Lanczos loop skeleton by invariant,
   and the algebraic exactness of the Krylov propagator on an invariant subspace. *)
From Coq Require Import List Arith Bool Lia Ring.
From RV Require Import Base.CRing Base.BigSum Model.Krylov Gen.KrylovSites.
Import ListNotations.

(* ================================================================== Part 1: control skeleton *)
(* invariant at the head of the loop body *)
Definition Inv (n : nat) (s : st) : Prop :=
  lv s = la s /\ lb s + 1 = lv s /\ sj s < lv s /\ sj s < n.

Lemma forallb_app_true {X} (f : X -> bool) l l' : forallb f l = true -> forallb f l' = true -> forallb f (l ++ l') = true.
Proof. intros H1 H2. rewrite forallb_app, H1, H2. reflexivity. Qed.

Ltac acc_tac :=
  repeat match goal with
  | |- forallb acc_ok (_ ++ _) = true => apply forallb_app_true
  | |- forallb acc_ok (if ?c then _ else _) = true => destruct c
  end;
  cbn [forallb acc_ok slices sj lv la lb hasres];
  repeat rewrite andb_true_iff; repeat split; try reflexivity;
  try (apply Nat.ltb_lt; cbn [sj lv la lb]; lia); try (apply Nat.leb_le; cbn [sj lv la lb]; lia).

Lemma step_ok n bs brk conv s : 1 <= bs -> Inv n s ->
  let r := step n bs brk conv s in
  forallb acc_ok (snd r) = true /\
  match fst r with
  | inl (e, it, s') => it = sj s + 1 /\ it <= n /\ sj s' = sj s /\ lv s' = la s' /\ lb s' + 1 = lv s' /\ it <= lv s'
  | inr s' => Inv n s' /\ sj s' = sj s + 1
  end.
Proof.
  intros Hbs (I1 & I2 & I3 & I4). unfold step.
  destruct (Nat.eqb_spec (sj s) (n - 1)) as [E|E].
  - cbn [fst snd]. split; [acc_tac | repeat split; lia].
  - (* after the growth test the buffers have room for index j+1 *)
    set (s1 := if Nat.eqb (lv s) (sj s + 1)
               then {| sj := sj s; lv := lv s + bs; la := la s + bs; lb := lb s + bs; hasres := hasres s |} else s).
    assert (G : lv s1 = la s1 /\ lb s1 + 1 = lv s1 /\ sj s + 1 < lv s1 /\ sj s1 = sj s /\ hasres s1 = hasres s).
    { unfold s1. destruct (Nat.eqb_spec (lv s) (sj s + 1)); cbn [sj lv la lb hasres]; repeat split; lia. }
    destruct G as (G1 & G2 & G3 & G4 & G5).
    assert (L : forall x, Nat.ltb 0 (sj s) = x -> forallb acc_ok
              ([Rd BA (sj s) (la s1); Rd BV (sj s) (lv s1)] ++
               (if x then [Rd BB (sj s - 1) (lb s1); Rd BV (sj s - 1) (lv s1)] else []) ++
               [Wr BB (sj s) (lb s1); Rd BB (sj s) (lb s1)]) = true).
    { intros x Hx. destruct x; [apply Nat.ltb_lt in Hx|]; acc_tac. }
    specialize (L _ eq_refl).
    assert (SL : forallb acc_ok (slices s1) = true).
    { unfold slices. rewrite G4. acc_tac. }
    assert (E1 : forallb acc_ok [Rd BV (sj s) (lv s); Wr BA (sj s) (la s); Rd BV (sj s) (lv s)] = true) by acc_tac.
    destruct (brk (sj s)).
    + cbn [fst snd]. split; [|repeat split; lia].
      apply forallb_app_true; [exact E1 | apply forallb_app_true; [exact L | exact SL]].
    + set (check := Nat.ltb 3 (sj s) && Nat.even (sj s)).
      assert (E3 : forallb acc_ok (if check then slices s1 else []) = true) by (destruct check; [exact SL | reflexivity]).
      destruct (check && hasres s1 && conv (sj s)).
      * cbn [fst snd]. split; [|repeat split; lia].
        apply forallb_app_true; [exact E1 | apply forallb_app_true; [exact L | exact E3]].
      * cbn [fst snd]. split.
        -- apply forallb_app_true; [exact E1 | apply forallb_app_true; [exact L | apply forallb_app_true; [exact E3 | acc_tac]]].
        -- unfold Inv. cbn [sj lv la lb hasres]. repeat split; lia.
Qed.

Lemma loop_ok n bs brk conv : 1 <= bs -> forall fuel s, Inv n s -> fuel + sj s = n ->
  let r := loop fuel n bs brk conv s in
  forallb acc_ok (snd r) = true /\
  exists e it s', fst r = Some (e, it, s') /\ sj s < it /\ it <= n /\ it = sj s' + 1 /\
                  lv s' = la s' /\ lb s' + 1 = lv s' /\ it <= lv s'.
Proof.
  intros Hbs. induction fuel as [|f IH]; intros s HI Hf.
  - destruct HI as (_ & _ & _ & H). lia.
  - cbn [loop]. pose proof (step_ok n bs brk conv s Hbs HI) as Hs. cbn zeta in Hs.
    destruct (step n bs brk conv s) as [[[[e it] sf]|s'] ev]; cbn [fst snd] in *.
    + destruct Hs as (Ha & Hit & Hn & H1 & H2 & H3 & H4). split; [exact Ha|].
      exists e, it, sf. repeat split; try lia.
    + destruct Hs as (Ha & HI' & Hj). specialize (IH s' HI').
      assert (Hf' : f + sj s' = n) by lia. specialize (IH Hf'). cbn zeta in IH.
      destruct IH as (Hb & e & it & s'' & E & H1 & H2 & H3).
      split; [apply forallb_app_true; assumption|].
      exists e, it, s''. rewrite E. repeat split; try tauto; lia.
Qed.

(* for every vector length n >= 1, block size >= 1 (the property asks for >= 2) and every outcome of the
   two data-dependent tests: no access out of bounds, no silently truncated slice, the loop returns
   (never falls through) after 1 <= it <= n iterations, the buffers satisfy len(V) = len(alpha) = len(beta)+1 *)
Theorem krylov_buffers_safe n bs brk conv : 1 <= n -> 1 <= bs ->
  let r := run n bs brk conv in
  forallb acc_ok (snd r) = true /\
  exists e it s, fst r = Some (e, it, s) /\ 1 <= it /\ it <= n /\ it = sj s + 1 /\
                 lv s = la s /\ lb s + 1 = lv s /\ it <= lv s.
Proof.
  intros Hn Hbs. unfold run, init. cbn [fst snd].
  assert (HI : Inv n {| sj := 0; lv := bs; la := bs; lb := bs - 1; hasres := false |}).
  { unfold Inv. cbn. repeat split; lia. }
  pose proof (loop_ok n bs brk conv Hbs n _ HI) as H. cbn [sj] in H. specialize (H (Nat.add_0_r n)).
  cbn zeta in H. destruct H as (Ha & e & it & s & E & H1 & H2).
  split.
  - cbn [app forallb acc_ok]. rewrite Ha. replace (Nat.ltb 0 bs) with true; [reflexivity|].
    symmetry. apply Nat.ltb_lt. lia.
  - exists e, it, s. rewrite E. repeat split; try tauto; lia.
Qed.

(* the exit taken is the first one whose test fires: if neither data-dependent test ever fires the loop
   runs to the full space *)
Lemma loop_fullspace n bs : 1 <= bs -> forall fuel s, Inv n s -> fuel + sj s = n ->
  exists s', fst (loop fuel n bs (fun _ => false) (fun _ => false) s) = Some (FullSpace, n, s').
Proof.
  intros Hbs. induction fuel as [|f IH]; intros s HI Hf.
  - destruct HI as (_ & _ & _ & H). lia.
  - cbn [loop]. pose proof (step_ok n bs (fun _ => false) (fun _ => false) s Hbs HI) as Hs. cbn zeta in Hs.
    unfold step in *. destruct (Nat.eqb_spec (sj s) (n - 1)) as [E|E].
    + cbn [fst snd]. exists s. repeat f_equal. destruct HI as (_ & _ & _ & H). lia.
    + rewrite andb_false_r in *. cbn [fst snd] in *. destruct Hs as (_ & HI' & Hj).
      apply IH; [exact HI' | cbn [sj] in *; lia].
Qed.

Theorem krylov_no_test_full_space n bs : 1 <= n -> 1 <= bs ->
  exists s, fst (run n bs (fun _ => false) (fun _ => false)) = Some (FullSpace, n, s).
Proof.
  intros Hn Hbs. unfold run, init. cbn [fst snd].
  apply loop_fullspace; [exact Hbs | unfold Inv; cbn; repeat split; lia | cbn; lia].
Qed.

(* ================================================================== Part 2: algebra *)
Section AlgebraProofs.
  Variable R : CRing.
  Add Ring RRk : (rth R).
  Notation "0" := (r0 R).
  Notation "1" := (r1 R).
  Infix "+" := (radd R).
  Infix "*" := (rmul R).

  Lemma mv_compat c (M : matx R) x y : veq R c x y -> forall i, mv R c M x i = mv R c M y i.
  Proof. intros H i. unfold mv. apply sumn_ext. intros l Hl. rewrite (H l Hl). reflexivity. Qed.

  Lemma mv_add c (M : matx R) x y i : mv R c M (fun l => x l + y l) i = mv R c M x i + mv R c M y i.
  Proof.
    unfold mv. rewrite <- sumn_add. apply sumn_ext. intros; ring.
  Qed.

  Lemma mv_scale c (M : matx R) a x i : mv R c M (fun l => a * x l) i = a * mv R c M x i.
  Proof.
    unfold mv. rewrite <- sumn_scale_l. apply sumn_ext. intros; ring.
  Qed.

  (* A V = V T as matrices  ==>  A (V x) = V (T x) for every coefficient vector x *)
  Lemma rel_vec N m (A V T : matx R) : lanczos_rel R N m A V T ->
    forall x, veq R N (mv R N A (mv R m V x)) (mv R m V (mv R m T x)).
  Proof.
    intros H x i Hi. unfold mv.
    (* lhs: sum_l A i l * sum_c V l c x c = sum_c (sum_l A i l V l c) x c *)
    rewrite (sumn_ext R N _ (fun l => sumn m (fun c => A i l * V l c * x c))).
    2:{ intros l _. rewrite <- sumn_scale_l. apply sumn_ext. intros; ring. }
    rewrite sumn_exchange.
    rewrite (sumn_ext R m _ (fun c => sumn m (fun d => V i d * T d c * x c))).
    2:{ intros c Hc. rewrite sumn_scale_r. rewrite (H i c Hi Hc). rewrite <- sumn_scale_r. reflexivity. }
    rewrite sumn_exchange. apply sumn_ext. intros d _.
    rewrite <- sumn_scale_l. apply sumn_ext. intros; ring.
  Qed.

  Lemma poly_compat d (M : matx R) q x y : veq R d x y -> veq R d (poly_apply R d M q x) (poly_apply R d M q y).
  Proof.
    intros H. induction q as [|c q IH]; intros i Hi; cbn [poly_apply]; [reflexivity|].
    rewrite (H i Hi). rewrite (mv_compat d M _ _ IH). reflexivity.
  Qed.

  Lemma poly_scale d (M : matx R) q a x : forall i, poly_apply R d M q (fun l => a * x l) i = a * poly_apply R d M q x i.
  Proof.
    induction q as [|c q IH]; intros i; cbn [poly_apply]; [ring|].
    rewrite (mv_compat d M _ (fun l => a * poly_apply R d M q x l)) by (intros l _; apply IH).
    rewrite mv_scale. ring.
  Qed.

  (* q(A) (V x) = V (q(T) x)  for every polynomial q *)
  Theorem poly_intertwine N m (A V T : matx R) : lanczos_rel R N m A V T ->
    forall q x, veq R N (poly_apply R N A q (mv R m V x)) (mv R m V (poly_apply R m T q x)).
  Proof.
    intros H q x. induction q as [|c q IH]; intros i Hi; cbn [poly_apply].
    - unfold mv. symmetry. apply sumn_0. intros; ring.
    - rewrite (mv_compat N A _ _ IH). rewrite (rel_vec N m A V T H _ i Hi).
      rewrite mv_add, mv_scale. reflexivity.
  Qed.

  Lemma mv_e1 m (V : matx R) a i : 1 <= m -> mv R m V (fun l => a * e1 R l) i = a * V i O.
  Proof.
    intros Hm. unfold mv, e1.
    rewrite (sumn_ext R m _ (fun l => if Nat.eqb l 0 then (fun l => V i l * a) l else 0)).
    - rewrite sumn_delta by lia. ring.
    - intros l _. destruct (Nat.eqb l 0); ring.
  Qed.

  (* the statement used by the method: v = ||v|| V e1  ==>  q(A) v = ||v|| V q(T) e1.
     Orthonormality of V is NOT needed for this identity; it is what makes T the compression V^dagger A V
     (lemma T_is_compression) and hence Hermitian tridiagonal for Hermitian A. *)
  Theorem krylov_poly_exact N m (A V T : matx R) (nrm : R) (v : vec R) : 1 <= m ->
    lanczos_rel R N m A V T -> (forall i, i < N -> v i = nrm * V i O) ->
    forall q, veq R N (poly_apply R N A q v) (fun i => nrm * mv R m V (poly_apply R m T q (e1 R)) i).
  Proof.
    intros Hm H Hv q i Hi.
    rewrite (poly_compat N A q v (mv R m V (fun l => nrm * e1 R l))) by
      (try exact Hi; intros l Hl; rewrite mv_e1 by exact Hm; apply Hv; exact Hl).
    rewrite (poly_intertwine N m A V T H q _ i Hi).
    rewrite (mv_compat m V _ (fun l => nrm * poly_apply R m T q (e1 R) l)) by (intros l _; apply poly_scale).
    apply mv_scale.
  Qed.

  (* with V^dagger V = I the small matrix is the compression of A *)
  Theorem T_is_compression N m (A V T : matx R) : lanczos_rel R N m A V T -> orthonormal R N m V ->
    forall c d, c < m -> d < m -> T c d = sumn N (fun i => rcj R (V i c) * sumn N (fun l => A i l * V l d)).
  Proof.
    intros H HO c d Hc Hd.
    rewrite (sumn_ext R N _ (fun i => sumn m (fun e => rcj R (V i c) * V i e * T e d))).
    2:{ intros i Hi. rewrite (H i d Hi Hd). rewrite <- sumn_scale_l. apply sumn_ext. intros; ring. }
    rewrite sumn_exchange.
    rewrite (sumn_ext R m _ (fun e => if Nat.eqb e c then (fun e => T e d) e else 0)).
    - rewrite sumn_delta by exact Hc. reflexivity.
    - intros e He. rewrite sumn_scale_r. rewrite (HO c e Hc He). rewrite (Nat.eqb_sym e c).
      destruct (Nat.eqb c e); ring.
  Qed.

  (* alpha[j] = vdot(w, V[j]).real : for Hermitian A the Rayleigh quotient <v, A v> is real, so nothing is
     lost; for anti-Hermitian A it is purely imaginary, so the code's alpha is 0 whatever A is *)
  Definition rayleigh N (A : matx R) (v : vec R) : R := sumn N (fun i => rcj R (v i) * sumn N (fun l => A i l * v l)).

  Lemma rayleigh_conj N (A : matx R) v :
    rcj R (rayleigh N A v) = sumn N (fun i => rcj R (v i) * sumn N (fun l => rcj R (A l i) * v l)).
  Proof.
    unfold rayleigh. rewrite sumn_cj.
    rewrite (sumn_ext R N _ (fun i => sumn N (fun l => v i * rcj R (A i l) * rcj R (v l)))).
    2:{ intros i _. rewrite rcj_mul, rcj_invol, sumn_cj, <- sumn_scale_l. apply sumn_ext.
        intros l _. rewrite rcj_mul. ring. }
    rewrite sumn_exchange. apply sumn_ext. intros l _. rewrite <- sumn_scale_l. apply sumn_ext. intros; ring.
  Qed.

  Theorem hermitian_rayleigh_real N (A : matx R) v : hermitian R N A -> rcj R (rayleigh N A v) = rayleigh N A v.
  Proof.
    intros H. rewrite rayleigh_conj. unfold rayleigh. apply sumn_ext. intros i Hi. f_equal.
    apply sumn_ext. intros l Hl. rewrite <- (H i l Hi Hl). reflexivity.
  Qed.

  Theorem antihermitian_rayleigh_imag N (A : matx R) v :
    (forall i l, i < N -> l < N -> A i l = ropp R (rcj R (A l i))) ->
    rcj R (rayleigh N A v) = ropp R (rayleigh N A v).
  Proof.
    intros H. rewrite rayleigh_conj. unfold rayleigh. rewrite <- sumn_opp. apply sumn_ext. intros i Hi.
    rewrite (sumn_ext R N (fun l => A i l * v l) (fun l => ropp R (rcj R (A l i) * v l))).
    - rewrite sumn_opp. ring.
    - intros l Hl. rewrite (H i l Hi Hl). ring.
  Qed.
End AlgebraProofs.

(* ================================================================== Part 3: call sites (generated table) *)
(* every call site passes a Hermitian operator: the effective Hamiltonian built by hop_expr*, or that operator
   divided by a real coefficient, or (H_eff/c)*c with the cancellation verified and 1/c moved into dt.
   (Finite domain: the generated table; vm_compute.) *)
Lemma sites_hermitian_b : forallb site_ok sites = true.
Proof. vm_compute. reflexivity. Qed.

Lemma sites_hermitian : forall s, In s sites -> site_ok s = true.
Proof. intros s Hs. pose proof sites_hermitian_b as H. rewrite forallb_forall in H. apply H. exact Hs. Qed.
