(* C08 -- the variational (Rayleigh-Ritz) bound, abstractly.

   R     : any strict ordered ring (SOR); the values of <x,y> (for complex spaces: Re<x,y>, which is a real
           inner product on the realification; H Hermitian makes Re<x,Hy> a symmetric form)
   V     : the symmetry sector of the many-body space, ipV its inner product, H the Hamiltonian on it
   W     : the space of centre coefficients (the entries of the centre tensor allowed by the qn mask)
   P     : W -> V, "insert the centre into the frozen environment";  Pd : V -> W its adjoint
   Everything is a Section variable / hypothesis: the theorems hold for every instance.
   No linearity of P or H is needed for the ground-state bound.                                          *)
From Coq Require Import Setoid Morphisms Ring Arith Lia.
From Coq.micromega Require Import OrderedRing.
From RV Require Import Base.Rayleigh.

Section Variational.
Variable R : Type.
Variable (rO rI : R) (rplus rtimes rminus : R -> R -> R) (ropp : R -> R).
Variable req rle rlt : R -> R -> Prop.
Variable sor : SOR rO rI rplus rtimes rminus ropp req rle rlt.

Notation "0" := rO.
Notation "1" := rI.
Notation "x + y" := (rplus x y).
Notation "x * y " := (rtimes x y).
Notation "x - y " := (rminus x y).
Notation "- x" := (ropp x).
Notation "x == y" := (req x y) (at level 70, no associativity).
Notation "x ~= y" := (~ req x y) (at level 70, no associativity).
Notation "x <= y" := (rle x y).
Notation "x < y" := (rlt x y).

Add Relation R req
  reflexivity proved by (@Equivalence_Reflexive _ _ (SORsetoid sor))
  symmetry proved by (@Equivalence_Symmetric _ _ (SORsetoid sor))
  transitivity proved by (@Equivalence_Transitive _ _ (SORsetoid sor))
as rp_setoid.
Add Morphism rplus with signature req ==> req ==> req as rp_plus_morph. Proof. exact (SORplus_wd sor). Qed.
Add Morphism rtimes with signature req ==> req ==> req as rp_times_morph. Proof. exact (SORtimes_wd sor). Qed.
Add Morphism ropp with signature req ==> req as rp_opp_morph. Proof. exact (SORopp_wd sor). Qed.
Add Morphism rle with signature req ==> req ==> iff as rp_le_morph. Proof. exact (SORle_wd sor). Qed.
Add Morphism rlt with signature req ==> req ==> iff as rp_lt_morph. Proof. exact (SORlt_wd sor). Qed.
Add Ring RpRing : (SORrt sor).
Add Morphism rminus with signature req ==> req ==> req as rp_minus_morph.
Proof. exact (rminus_morph sor). Qed.

Notation rayleigh := (is_rayleigh R rO rtimes req rlt).

(* ------------------------------------------------------------------ ground state *)
Section Ground.
Variables V W : Type.
Variable ipV : V -> V -> R.
Variable ipW : W -> W -> R.
Variable H : V -> V.
Variable P : W -> V.
Variable Pd : V -> W.
Hypothesis adjoint : forall c x, ipW c (Pd x) == ipV (P c) x.          (* <c, P† x> = <P c, x> *)
Hypothesis isometry : forall c c', ipW c (Pd (P c')) == ipW c c'.       (* P† P = I *)

Definition Heff (c : W) : W := Pd (H (P c)).                             (* P† H P *)

Lemma heff_form c : ipW c (Heff c) == ipV (P c) (H (P c)).
Proof. unfold Heff. apply adjoint. Qed.

Lemma norm_preserved c : ipV (P c) (P c) == ipW c c.
Proof. rewrite <- adjoint. apply isometry. Qed.

Variable lam : R.
Hypothesis lower : forall x, lam * ipV x x <= ipV x (H x).              (* lam <= every Rayleigh quotient of H on the sector *)

Theorem projected_form_bound c : lam * ipW c c <= ipW c (Heff c).
Proof. rewrite heff_form, <- norm_preserved. apply lower. Qed.

(* every Rayleigh quotient of the projected operator is >= lam *)
Theorem variational_bound c e : rayleigh e (ipW c c) (ipW c (Heff c)) -> lam <= e.
Proof.
  intros [Hpos He]. apply (sor_mul_le_cancel_r R rO rI rplus rtimes rminus ropp req rle rlt sor lam e (ipW c c) Hpos).
  rewrite He. apply projected_form_bound.
Qed.

(* the same with "c <> 0" and a division, for rings that have them *)
Variable zeroW : W.
Hypothesis posdef : forall c, c <> zeroW -> 0 < ipW c c.
Variable rdiv : R -> R -> R.
Hypothesis rdiv_spec : forall a b, b ~= 0 -> rdiv a b * b == a.

Theorem variational_bound_quotient c : c <> zeroW -> lam <= rdiv (ipW c (Heff c)) (ipW c c).
Proof.
  intros Hc. apply (variational_bound c).
  apply (rayleigh_div R rO rI rplus rtimes rminus ropp req rle rlt sor rdiv rdiv_spec). apply posdef. exact Hc.
Qed.

(* the reported energy is also the energy of the state P c that is returned *)
Theorem reported_is_state_energy c e :
  rayleigh e (ipW c c) (ipW c (Heff c)) -> rayleigh e (ipV (P c) (P c)) (ipV (P c) (H (P c))).
Proof. intros [Hp He]. split; [rewrite norm_preserved; exact Hp|]. rewrite norm_preserved, <- heff_form. exact He. Qed.

End Ground.

(* the same from the two quadratic-form identities alone (what Proofs/HeffProofs.v establishes for the chain:
   <c, H_eff c> = <P c, H P c>  and  <P c, P c> = <c, c>), with the lower bound required only on a subset S of V
   (the symmetry sector) that contains the range of P *)
Section Forms.
Variables V W : Type.
Variable ipV : V -> V -> R.
Variable ipW : W -> W -> R.
Variable H : V -> V.
Variable P : W -> V.
Variable Heff : W -> W.
Variable S : V -> Prop.
Hypothesis form : forall c, ipW c (Heff c) == ipV (P c) (H (P c)).
Hypothesis norm : forall c, ipV (P c) (P c) == ipW c c.
Hypothesis range : forall c, S (P c).
Variable lam : R.
Hypothesis lower : forall x, S x -> lam * ipV x x <= ipV x (H x).

Theorem variational_bound_forms c e : rayleigh e (ipW c c) (ipW c (Heff c)) -> lam <= e.
Proof.
  intros [Hpos He]. apply (sor_mul_le_cancel_r R rO rI rplus rtimes rminus ropp req rle rlt sor lam e (ipW c c) Hpos).
  rewrite He, form, <- norm. apply lower. apply range.
Qed.
End Forms.

(* ------------------------------------------------------------------ shifted target (H - omega)^2 *)
Section Shifted.
Variables V W : Type.
Variable ipV : V -> V -> R.
Variable ipW : W -> W -> R.
Variable H : V -> V.
Variable vsub : V -> V -> V.
Variable vscale : R -> V -> V.
Variable P : W -> V.
Variable Pd : V -> W.
Hypothesis adjoint : forall c x, ipW c (Pd x) == ipV (P c) x.
Hypothesis isometry : forall c c', ipW c (Pd (P c')) == ipW c c'.
Hypothesis ip_sym : forall x y, ipV x y == ipV y x.
Hypothesis ip_sub_r : forall x y z, ipV x (vsub y z) == ipV x y - ipV x z.
Hypothesis ip_scale_r : forall x a y, ipV x (vscale a y) == a * ipV x y.
Hypothesis ip_nonneg : forall x, 0 <= ipV x x.
Hypothesis H_sym : forall x y, ipV x (H y) == ipV (H x) y.               (* H Hermitian *)
Variable omega : R.

Definition Hs (x : V) : V := vsub (H x) (vscale omega x).                 (* H - omega *)
Definition A (x : V) : V := Hs (Hs x).                                    (* (H - omega)^2, as the two-layer contraction does *)
Definition Heff2 (c : W) : W := Pd (A (P c)).

Lemma Hs_sym x y : ipV x (Hs y) == ipV (Hs x) y.
Proof.
  unfold Hs. rewrite ip_sub_r, ip_scale_r. rewrite (ip_sym (vsub (H x) (vscale omega x)) y).
  rewrite ip_sub_r, ip_scale_r. rewrite H_sym. rewrite (ip_sym y (H x)), (ip_sym y x). reflexivity.
Qed.

Lemma shifted_form c : ipW c (Heff2 c) == ipV (Hs (P c)) (Hs (P c)).
Proof. unfold Heff2, A. rewrite adjoint. apply Hs_sym. Qed.

Theorem shifted_nonneg c e : rayleigh e (ipW c c) (ipW c (Heff2 c)) -> 0 <= e.
Proof.
  intros [Hp He]. apply (sor_mul_le_cancel_r R rO rI rplus rtimes rminus ropp req rle rlt sor 0 e (ipW c c) Hp).
  rewrite He, shifted_form. assert (E : 0 * ipW c c == 0) by ring. rewrite E. apply ip_nonneg.
Qed.

(* mu = min over the sector of the Rayleigh quotient of (H-omega)^2, i.e. min_j (lambda_j - omega)^2 *)
Variable mu : R.
Hypothesis lower2 : forall x, mu * ipV x x <= ipV (Hs x) (Hs x).

Theorem shifted_bound c e : rayleigh e (ipW c c) (ipW c (Heff2 c)) -> mu <= e.
Proof.
  intros Hr.
  apply (variational_bound V W ipV ipW A P Pd adjoint isometry mu) with (c := c); [|exact Hr].
  intros x. unfold A. rewrite Hs_sym. apply lower2.
Qed.

(* at an eigenvector of H (weakly: <y, H v> = lam <y, v> for all y) the quotient of (H-omega)^2 is (lam-omega)^2 *)
Theorem shifted_at_eigenvector v lam :
  (forall y, ipV y (H v) == lam * ipV y v) ->
  ipV (Hs v) (Hs v) == (lam - omega) * (lam - omega) * ipV v v.
Proof.
  intros Hv.
  assert (E : forall y, ipV y (Hs v) == (lam - omega) * ipV y v).
  { intros y. unfold Hs. rewrite ip_sub_r, ip_scale_r, Hv. ring. }
  rewrite E. rewrite (ip_sym (Hs v) v), E. ring.
Qed.

End Shifted.

(* ------------------------------------------------------------------ several roots (min-max) *)
Section Roots.
Variable V : Type.
Variable ipV : V -> V -> R.
Variable H : V -> V.
Variable vadd : V -> V -> V.
Variable vscale : R -> V -> V.
Hypothesis ip_sym : forall x y, ipV x y == ipV y x.
Hypothesis ip_add_r : forall x y z, ipV x (vadd y z) == ipV x y + ipV x z.
Hypothesis ip_scale_r : forall x a y, ipV x (vscale a y) == a * ipV x y.
Hypothesis H_sym : forall x y, ipV x (H y) == ipV (H x) y.
Hypothesis H_add : forall z x y, ipV z (H (vadd x y)) == ipV z (H x) + ipV z (H y).
Hypothesis H_scale : forall z a x, ipV z (H (vscale a x)) == a * ipV z (H x).

(* general k, abstract form.  Orth x: x is orthogonal to the k-1 lowest exact eigenvectors.
   (i) on the Ritz subspace S the form of H is bounded by the top Ritz value theta,
   (ii) S contains a non-zero vector orthogonal to them (dimension count: dim S = k > k-1),
   (iii) on the orthogonal complement H >= lam_k (spectral theorem).                                  *)
Theorem roots_minmax_partial (S Orth : V -> Prop) (theta lamk : R) :
  (forall x, S x -> ipV x (H x) <= theta * ipV x x) ->
  (exists x, S x /\ Orth x /\ 0 < ipV x x) ->
  (forall x, Orth x -> lamk * ipV x x <= ipV x (H x)) ->
  lamk <= theta.
Proof.
  intros Hi [x [Hs [Ho Hp]]] Hiii.
  apply (sor_mul_le_cancel_r R rO rI rplus rtimes rminus ropp req rle rlt sor lamk theta (ipV x x) Hp).
  apply (Rle_trans sor _ (ipV x (H x))); [apply Hiii; exact Ho|apply Hi; exact Hs].
Qed.

(* k = 2 in full: two orthonormal Ritz vectors y1 y2 (Ritz values th1 <= th2), v1 the exact ground state *)
Variables y1 y2 v1 : V.
Variables th1 th2 lam2 : R.
Hypothesis y11 : ipV y1 y1 == 1.
Hypothesis y22 : ipV y2 y2 == 1.
Hypothesis y12 : ipV y1 y2 == 0.
Hypothesis r11 : ipV y1 (H y1) == th1.
Hypothesis r22 : ipV y2 (H y2) == th2.
Hypothesis r12 : ipV y1 (H y2) == 0.
Hypothesis th_le : th1 <= th2.
Hypothesis spectral2 : forall x, ipV v1 x == 0 -> lam2 * ipV x x <= ipV x (H x).

Definition comb (a b : R) : V := vadd (vscale a y1) (vscale b y2).

Lemma comb_l z a b : ipV z (comb a b) == a * ipV z y1 + b * ipV z y2.
Proof. unfold comb. rewrite ip_add_r, !ip_scale_r. reflexivity. Qed.

Lemma comb_H z a b : ipV z (H (comb a b)) == a * ipV z (H y1) + b * ipV z (H y2).
Proof. unfold comb. rewrite H_add, !H_scale. reflexivity. Qed.

Lemma y21 : ipV y2 y1 == 0.
Proof. rewrite ip_sym. exact y12. Qed.
Lemma r21 : ipV y2 (H y1) == 0.
Proof. rewrite H_sym, ip_sym. exact r12. Qed.

Lemma comb_norm a b : ipV (comb a b) (comb a b) == a * a + b * b.
Proof.
  rewrite comb_l. rewrite (ip_sym (comb a b) y1), (ip_sym (comb a b) y2), !comb_l.
  rewrite y11, y22, y12, y21. ring.
Qed.

Lemma comb_energy a b : ipV (comb a b) (H (comb a b)) == th1 * (a * a) + th2 * (b * b).
Proof.
  rewrite comb_H. rewrite !H_sym. rewrite (ip_sym (H (comb a b)) y1), (ip_sym (H (comb a b)) y2).
  rewrite !comb_H. rewrite r11, r22, r12, r21. ring.
Qed.

Theorem second_root_bound : lam2 <= th2.
Proof.
  set (u1 := ipV v1 y1). set (u2 := ipV v1 y2).
  apply (roots_minmax_partial (fun x => exists a b, x = comb a b) (fun x => ipV v1 x == 0) th2 lam2).
  - intros x [a [b ->]]. rewrite comb_energy, comb_norm.
    assert (E : th2 * (a * a + b * b) == th2 * (a * a) + th2 * (b * b)) by ring. rewrite E.
    apply (Rplus_le_mono_r sor).
    apply (sor_mul_le_mono_nonneg_r R rO rI rplus rtimes rminus ropp req rle rlt sor); [exact th_le|apply (Rtimes_square_nonneg sor)].
  - destruct (Req_em sor u1 0) as [E1|N1].
    + destruct (Req_em sor u2 0) as [E2|N2].
      * exists (comb 0 1). split; [exists 0, 1; reflexivity|]. split.
        -- rewrite comb_l. fold u1 u2. rewrite E1, E2. ring.
        -- rewrite comb_norm. assert (E : 0 * 0 + 1 * 1 == 1) by ring. rewrite E. apply (Rlt_0_1 sor).
      * exists (comb u2 (- u1)). split; [exists u2, (- u1); reflexivity|]. split.
        -- rewrite comb_l. fold u1 u2. ring.
        -- rewrite comb_norm. assert (E : u2 * u2 + - u1 * - u1 == u2 * u2 + u1 * u1) by ring. rewrite E.
           apply (sor_sq_sum_pos R rO rI rplus rtimes rminus ropp req rle rlt sor). left. exact N2.
    + exists (comb u2 (- u1)). split; [exists u2, (- u1); reflexivity|]. split.
      * rewrite comb_l. fold u1 u2. ring.
      * rewrite comb_norm. assert (E : u2 * u2 + - u1 * - u1 == u2 * u2 + u1 * u1) by ring. rewrite E.
        apply (sor_sq_sum_pos R rO rI rplus rtimes rminus ropp req rle rlt sor). right. exact N1.
  - exact spectral2.
Qed.

End Roots.
(* ------------------------------------------------------------------ several roots, general k (min-max) *)
Section FiniteSums.

Fixpoint rsum (n : nat) (f : nat -> R) : R := match n with O => 0 | S k => rsum k f + f k end.

Lemma rsum_ext n f g : (forall i, (i < n)%nat -> f i == g i) -> rsum n f == rsum n g.
Proof.
  induction n as [|n IH]; intros H; cbn [rsum]; [reflexivity|].
  rewrite IH by (intros i Hi; apply H; lia). rewrite (H n) by lia. reflexivity.
Qed.
Lemma rsum_zero n f : (forall i, (i < n)%nat -> f i == 0) -> rsum n f == 0.
Proof.
  induction n as [|n IH]; intros H; cbn [rsum]; [reflexivity|].
  rewrite IH by (intros i Hi; apply H; lia). rewrite (H n) by lia. ring.
Qed.
Lemma rsum_add n f g : rsum n (fun i => f i + g i) == rsum n f + rsum n g.
Proof. induction n as [|n IH]; cbn [rsum]; [ring|]. rewrite IH. ring. Qed.
Lemma rsum_scale_l n c f : rsum n (fun i => c * f i) == c * rsum n f.
Proof. induction n as [|n IH]; cbn [rsum]; [ring|]. rewrite IH. ring. Qed.
Lemma rsum_opp n f : rsum n (fun i => - f i) == - rsum n f.
Proof. induction n as [|n IH]; cbn [rsum]; [ring|]. rewrite IH. ring. Qed.

Definition kd (i j : nat) : R := if Nat.eqb i j then 1 else 0.

Lemma rsum_delta n i a : (i < n)%nat -> rsum n (fun j => a j * kd i j) == a i.
Proof.
  induction n as [|n IH]; intros Hi; [lia|]. cbn [rsum]. unfold kd at 2.
  destruct (Nat.eqb_spec i n) as [->|Hne].
  - rewrite rsum_zero; [ring|]. intros j Hj. unfold kd. destruct (Nat.eqb_spec n j) as [E|_]; [lia|ring].
  - rewrite IH by lia. ring.
Qed.

Lemma rsum_le n f g : (forall i, (i < n)%nat -> f i <= g i) -> rsum n f <= rsum n g.
Proof.
  induction n as [|n IH]; intros H; cbn [rsum]; [apply (Rle_refl sor)|].
  apply (Rplus_le_mono sor); [apply IH; intros i Hi; apply H; lia|apply H; lia].
Qed.
Lemma rsum_nonneg n f : (forall i, (i < n)%nat -> 0 <= f i) -> 0 <= rsum n f.
Proof.
  intros H. assert (E : 0 == rsum n (fun _ => 0)) by (symmetry; apply rsum_zero; reflexivity). rewrite E. apply rsum_le. exact H.
Qed.
Lemma rsum_pos n f : (forall i, (i < n)%nat -> 0 <= f i) -> (exists i, (i < n)%nat /\ 0 < f i) -> 0 < rsum n f.
Proof.
  induction n as [|n IH]; intros Hn [i [Hi Hp]]; [lia|]. cbn [rsum].
  destruct (Nat.eq_dec i n) as [->|Hne].
  - apply (Rplus_nonneg_pos sor); [|exact Hp]. apply rsum_nonneg. intros j Hj. apply Hn. lia.
  - apply (Rplus_pos_nonneg sor); [|apply Hn; lia].
    apply IH; [intros j Hj; apply Hn; lia|exists i; split; [lia|exact Hp]].
Qed.

(* remove index p from 0..n:  skip p enumerates the others *)
Definition skip (p i : nat) : nat := if Nat.ltb i p then i else S i.

Lemma rsum_split_at n f p : (p <= n)%nat -> rsum (S n) f == f p + rsum n (fun i => f (skip p i)).
Proof.
  induction n as [|n IH]; intros Hp.
  - assert (p = 0%nat) by lia. subst. cbn. ring.
  - destruct (Nat.eq_dec p (S n)) as [->|Hne].
    + cbn [rsum]. rewrite (rsum_ext (S n) (fun i => f (skip (S n) i)) f).
      * cbn [rsum]. ring.
      * intros i Hi. unfold skip. destruct (Nat.ltb_spec i (S n)) as [_|H]; [reflexivity|lia].
    + assert (Hp' : (p <= n)%nat) by lia. cbn [rsum] in *. rewrite (IH Hp').
      assert (E : skip p n = S n) by (unfold skip; destruct (Nat.ltb_spec n p) as [H|H]; [lia|reflexivity]).
      rewrite E. ring.
Qed.

Lemma skip_neq p i : skip p i <> p.
Proof. unfold skip. destruct (Nat.ltb_spec i p) as [H|H]; lia. Qed.
Lemma skip_lt p i n : (i < n)%nat -> (skip p i < S n)%nat.
Proof. intros H. unfold skip. destruct (Nat.ltb i p); lia. Qed.
Definition unskip (p i : nat) : nat := if Nat.ltb i p then i else Nat.pred i.
Lemma unskip_skip p i : unskip p (skip p i) = i.
Proof.
  unfold unskip, skip. destruct (Nat.ltb_spec i p) as [H|H].
  - destruct (Nat.ltb_spec i p) as [_|H']; [reflexivity|lia].
  - destruct (Nat.ltb_spec (S i) p) as [H'|_]; [lia|reflexivity].
Qed.

Lemma zero_row_or_pivot n (r : nat -> R) : (forall i, (i < n)%nat -> r i == 0) \/ (exists p, (p < n)%nat /\ r p ~= 0).
Proof.
  induction n as [|n IH]; [left; intros i Hi; lia|].
  destruct IH as [Hz|[p [Hp Hnz]]].
  - destruct (Req_em sor (r n) 0) as [E|N].
    + left. intros i Hi. destruct (Nat.eq_dec i n) as [->|Hne]; [exact E|apply Hz; lia].
    + right. exists n. split; [lia|exact N].
  - right. exists p. split; [lia|exact Hnz].
Qed.

(* m homogeneous linear equations in n > m unknowns over an ordered ring have a non-trivial solution *)
Lemma homogeneous_solution : forall m n (M : nat -> nat -> R), (m < n)%nat ->
  exists a : nat -> R, (exists i, (i < n)%nat /\ a i ~= 0) /\
                       forall j, (j < m)%nat -> rsum n (fun i => M j i * a i) == 0.
Proof.
  induction m as [|m IH]; intros n M Hmn.
  - exists (fun i => kd 0 i). split.
    + exists 0%nat. split; [exact Hmn|]. unfold kd. cbn. intros E. apply (Rneq_0_1 sor). symmetry. exact E.
    + intros j Hj. lia.
  - destruct n as [|n]; [lia|]. assert (Hmn' : (m < n)%nat) by lia.
    destruct (zero_row_or_pivot (S n) (M m)) as [Hz|[p [Hp Hnz]]].
    + destruct (IH (S n) M ltac:(lia)) as [a [Ha Hs]]. exists a. split; [exact Ha|].
      intros j Hj. destruct (Nat.eq_dec j m) as [->|Hne]; [|apply Hs; lia].
      apply rsum_zero. intros i Hi. rewrite (Hz i Hi). ring.
    + assert (Hp' : (p <= n)%nat) by lia.
      set (M' := fun j i => M j (skip p i) * M m p - M j p * M m (skip p i)).
      destruct (IH n M' Hmn') as [b [[i0 [Hi0 Hb0]] Hs]].
      set (S0 := rsum n (fun i' => M m (skip p i') * b i')).
      set (a := fun i => if Nat.eqb i p then - S0 else M m p * b (unskip p i)).
      assert (Ea : forall i', a (skip p i') == M m p * b i').
      { intros i'. unfold a. destruct (Nat.eqb_spec (skip p i') p) as [E|_]; [exfalso; exact (skip_neq p i' E)|]. rewrite unskip_skip. reflexivity. }
      assert (Ep : a p == - S0) by (unfold a; rewrite Nat.eqb_refl; reflexivity).
      exists a. split.
      * exists (skip p i0). split; [apply skip_lt; exact Hi0|]. rewrite Ea. apply (Rtimes_neq_0 sor). split; assumption.
      * intros j Hj. rewrite (rsum_split_at n _ p Hp'). rewrite Ep.
        rewrite (rsum_ext n (fun i => M j (skip p i) * a (skip p i)) (fun i => M m p * (M j (skip p i) * b i)))
          by (intros i _; rewrite Ea; ring).
        rewrite rsum_scale_l.
        destruct (Nat.eq_dec j m) as [->|Hne].
        -- fold S0. ring.
        -- assert (Hj' : (j < m)%nat) by lia. specialize (Hs j Hj'). unfold M' in Hs.
           rewrite (rsum_ext n _ (fun i => M m p * (M j (skip p i) * b i) + - (M j p * (M m (skip p i) * b i)))) in Hs
             by (intros i _; ring).
           rewrite rsum_add, rsum_opp, !rsum_scale_l in Hs. fold S0 in Hs.
           assert (E : M j p * - S0 + M m p * rsum n (fun i => M j (skip p i) * b i)
                       == M m p * rsum n (fun i => M j (skip p i) * b i) + - (M j p * S0)) by ring.
           rewrite E. exact Hs.
Qed.

End FiniteSums.

Section RootsGeneral.
Variable V : Type.
Variable ipV : V -> V -> R.
Variable H : V -> V.
Variable vzero : V.
Variable vadd : V -> V -> V.
Variable vscale : R -> V -> V.
Hypothesis ip_sym : forall x y, ipV x y == ipV y x.
Hypothesis ip_zero_r : forall x, ipV x vzero == 0.
Hypothesis ip_add_r : forall x y z, ipV x (vadd y z) == ipV x y + ipV x z.
Hypothesis ip_scale_r : forall x a y, ipV x (vscale a y) == a * ipV x y.
Hypothesis H_sym : forall x y, ipV x (H y) == ipV (H x) y.
Hypothesis H_zero : forall z, ipV z (H vzero) == 0.
Hypothesis H_add : forall z x y, ipV z (H (vadd x y)) == ipV z (H x) + ipV z (H y).
Hypothesis H_scale : forall z a x, ipV z (H (vscale a x)) == a * ipV z (H x).

Fixpoint lincomb (n : nat) (a : nat -> R) (y : nat -> V) : V :=
  match n with O => vzero | S k => vadd (lincomb k a y) (vscale (a k) (y k)) end.

Lemma lincomb_ip z n a y : ipV z (lincomb n a y) == rsum n (fun i => a i * ipV z (y i)).
Proof. induction n as [|n IH]; cbn [lincomb rsum]; [apply ip_zero_r|]. rewrite ip_add_r, ip_scale_r, IH. reflexivity. Qed.
Lemma lincomb_H z n a y : ipV z (H (lincomb n a y)) == rsum n (fun i => a i * ipV z (H (y i))).
Proof. induction n as [|n IH]; cbn [lincomb rsum]; [apply H_zero|]. rewrite H_add, H_scale, IH. reflexivity. Qed.

(* k orthonormal Ritz vectors y_0..y_{k-1} with Ritz values theta_i <= top; v_0..v_{k-2} the lowest exact
   eigenvectors (only "H >= lamk on their orthogonal complement" is used) *)
Variable k : nat.
Variable y : nat -> V.
Variable theta : nat -> R.
Variable top : R.
Hypothesis orthonormal : forall i j, (i < k)%nat -> (j < k)%nat -> ipV (y i) (y j) == kd i j.
Hypothesis ritz : forall i j, (i < k)%nat -> (j < k)%nat -> ipV (y i) (H (y j)) == theta i * kd i j.
Hypothesis theta_top : forall i, (i < k)%nat -> theta i <= top.
Variable v : nat -> V.
Variable lamk : R.
Hypothesis spectral : forall x, (forall j, (S j < k)%nat -> ipV (v j) x == 0) -> lamk * ipV x x <= ipV x (H x).
Hypothesis kpos : (0 < k)%nat.

Lemma comb_norm_k a : ipV (lincomb k a y) (lincomb k a y) == rsum k (fun i => a i * a i).
Proof.
  rewrite lincomb_ip. apply rsum_ext. intros i Hi. rewrite (ip_sym (lincomb k a y) (y i)), lincomb_ip.
  rewrite (rsum_ext k _ (fun j => a j * kd i j)) by (intros j Hj; rewrite orthonormal by assumption; reflexivity).
  rewrite rsum_delta by exact Hi. reflexivity.
Qed.
Lemma comb_energy_k a : ipV (lincomb k a y) (H (lincomb k a y)) == rsum k (fun i => theta i * (a i * a i)).
Proof.
  rewrite lincomb_H. apply rsum_ext. intros i Hi.
  rewrite H_sym, (ip_sym (H (lincomb k a y)) (y i)), lincomb_H.
  rewrite (rsum_ext k _ (fun j => (a j * theta i) * kd i j)) by (intros j Hj; rewrite ritz by assumption; ring).
  rewrite rsum_delta by exact Hi. ring.
Qed.

Theorem roots_minmax : lamk <= top.
Proof.
  destruct (homogeneous_solution (Nat.pred k) k (fun j i => ipV (v j) (y i)) ltac:(lia)) as [a [[i0 [Hi0 Ha0]] Hs]].
  set (x := lincomb k a y).
  assert (Hn : ipV x x == rsum k (fun i => a i * a i)) by (unfold x; apply comb_norm_k).
  assert (He : ipV x (H x) == rsum k (fun i => theta i * (a i * a i))) by (unfold x; apply comb_energy_k).
  assert (Hpos : 0 < ipV x x).
  { rewrite Hn. apply rsum_pos; [intros i _; apply (Rtimes_square_nonneg sor)|].
    exists i0. split; [exact Hi0|]. apply (sor_sq_pos R rO rI rplus rtimes rminus ropp req rle rlt sor). exact Ha0. }
  apply (sor_mul_le_cancel_r R rO rI rplus rtimes rminus ropp req rle rlt sor lamk top (ipV x x) Hpos).
  apply (Rle_trans sor _ (ipV x (H x))).
  - apply spectral. intros j Hj. assert (Hj' : (j < Nat.pred k)%nat) by lia. unfold x. rewrite lincomb_ip.
    rewrite (rsum_ext k _ (fun i => ipV (v j) (y i) * a i)) by (intros; ring). apply Hs. exact Hj'.
  - rewrite He, Hn, <- rsum_scale_l. apply rsum_le. intros i Hi.
    apply (sor_mul_le_mono_nonneg_r R rO rI rplus rtimes rminus ropp req rle rlt sor); [apply theta_top; exact Hi|apply (Rtimes_square_nonneg sor)].
Qed.

End RootsGeneral.

End Variational.
