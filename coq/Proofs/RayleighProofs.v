(* C08 -- the variational (Rayleigh-Ritz) bound, abstractly.

   R     : any strict ordered ring (SOR); the values of <x,y> (for complex spaces: Re<x,y>, which is a real
           inner product on the realification; H Hermitian makes Re<x,Hy> a symmetric form)
   V     : the symmetry sector of the many-body space, ipV its inner product, H the Hamiltonian on it
   W     : the space of centre coefficients (the entries of the centre tensor allowed by the qn mask)
   P     : W -> V, "insert the centre into the frozen environment";  Pd : V -> W its adjoint
   Everything is a Section variable / hypothesis: the theorems hold for every instance.
   No linearity of P or H is needed for the ground-state bound.                                          *)
From Coq Require Import Setoid Morphisms Ring.
From Coq.micromega Require Import OrderedRing.
From RV Require Import Base.Rayleigh.

Section Variational.
Variable R : Type.
Variable (rO rI : R) (rplus rtimes rminus : R -> R -> R) (ropp : R -> R).
Variable req rle rlt : R -> R -> Prop.
Variable sor : SOR rO rI rplus rtimes rminus ropp req rle rlt.

Notation "0" := rO.
Notation "1" := rI.
Notation "x + y" := (rplus x y).
Notation "x * y " := (rtimes x y).
Notation "x - y " := (rminus x y).
Notation "- x" := (ropp x).
Notation "x == y" := (req x y) (at level 70, no associativity).
Notation "x ~= y" := (~ req x y) (at level 70, no associativity).
Notation "x <= y" := (rle x y).
Notation "x < y" := (rlt x y).

Add Relation R req
  reflexivity proved by (@Equivalence_Reflexive _ _ (SORsetoid sor))
  symmetry proved by (@Equivalence_Symmetric _ _ (SORsetoid sor))
  transitivity proved by (@Equivalence_Transitive _ _ (SORsetoid sor))
as rp_setoid.
Add Morphism rplus with signature req ==> req ==> req as rp_plus_morph. Proof. exact (SORplus_wd sor). Qed.
Add Morphism rtimes with signature req ==> req ==> req as rp_times_morph. Proof. exact (SORtimes_wd sor). Qed.
Add Morphism ropp with signature req ==> req as rp_opp_morph. Proof. exact (SORopp_wd sor). Qed.
Add Morphism rle with signature req ==> req ==> iff as rp_le_morph. Proof. exact (SORle_wd sor). Qed.
Add Morphism rlt with signature req ==> req ==> iff as rp_lt_morph. Proof. exact (SORlt_wd sor). Qed.
Add Ring RpRing : (SORrt sor).
Add Morphism rminus with signature req ==> req ==> req as rp_minus_morph.
Proof. exact (rminus_morph sor). Qed.

Notation rayleigh := (is_rayleigh R rO rtimes req rlt).

(* ------------------------------------------------------------------ ground state *)
Section Ground.
Variables V W : Type.
Variable ipV : V -> V -> R.
Variable ipW : W -> W -> R.
Variable H : V -> V.
Variable P : W -> V.
Variable Pd : V -> W.
Hypothesis adjoint : forall c x, ipW c (Pd x) == ipV (P c) x.          (* <c, P† x> = <P c, x> *)
Hypothesis isometry : forall c c', ipW c (Pd (P c')) == ipW c c'.       (* P† P = I *)

Definition Heff (c : W) : W := Pd (H (P c)).                             (* P† H P *)

Lemma heff_form c : ipW c (Heff c) == ipV (P c) (H (P c)).
Proof. unfold Heff. apply adjoint. Qed.

Lemma norm_preserved c : ipV (P c) (P c) == ipW c c.
Proof. rewrite <- adjoint. apply isometry. Qed.

Variable lam : R.
Hypothesis lower : forall x, lam * ipV x x <= ipV x (H x).              (* lam <= every Rayleigh quotient of H on the sector *)

Theorem projected_form_bound c : lam * ipW c c <= ipW c (Heff c).
Proof. rewrite heff_form, <- norm_preserved. apply lower. Qed.

(* every Rayleigh quotient of the projected operator is >= lam *)
Theorem variational_bound c e : rayleigh e (ipW c c) (ipW c (Heff c)) -> lam <= e.
Proof.
  intros [Hpos He]. apply (sor_mul_le_cancel_r R rO rI rplus rtimes rminus ropp req rle rlt sor lam e (ipW c c) Hpos).
  rewrite He. apply projected_form_bound.
Qed.

(* the same with "c <> 0" and a division, for rings that have them *)
Variable zeroW : W.
Hypothesis posdef : forall c, c <> zeroW -> 0 < ipW c c.
Variable rdiv : R -> R -> R.
Hypothesis rdiv_spec : forall a b, b ~= 0 -> rdiv a b * b == a.

Theorem variational_bound_quotient c : c <> zeroW -> lam <= rdiv (ipW c (Heff c)) (ipW c c).
Proof.
  intros Hc. apply (variational_bound c).
  apply (rayleigh_div R rO rI rplus rtimes rminus ropp req rle rlt sor rdiv rdiv_spec). apply posdef. exact Hc.
Qed.

(* the reported energy is also the energy of the state P c that is returned *)
Theorem reported_is_state_energy c e :
  rayleigh e (ipW c c) (ipW c (Heff c)) -> rayleigh e (ipV (P c) (P c)) (ipV (P c) (H (P c))).
Proof. intros [Hp He]. split; [rewrite norm_preserved; exact Hp|]. rewrite norm_preserved, <- heff_form. exact He. Qed.

End Ground.

(* ------------------------------------------------------------------ shifted target (H - omega)^2 *)
Section Shifted.
Variables V W : Type.
Variable ipV : V -> V -> R.
Variable ipW : W -> W -> R.
Variable H : V -> V.
Variable vsub : V -> V -> V.
Variable vscale : R -> V -> V.
Variable P : W -> V.
Variable Pd : V -> W.
Hypothesis adjoint : forall c x, ipW c (Pd x) == ipV (P c) x.
Hypothesis isometry : forall c c', ipW c (Pd (P c')) == ipW c c'.
Hypothesis ip_sym : forall x y, ipV x y == ipV y x.
Hypothesis ip_sub_r : forall x y z, ipV x (vsub y z) == ipV x y - ipV x z.
Hypothesis ip_scale_r : forall x a y, ipV x (vscale a y) == a * ipV x y.
Hypothesis ip_nonneg : forall x, 0 <= ipV x x.
Hypothesis H_sym : forall x y, ipV x (H y) == ipV (H x) y.               (* H Hermitian *)
Variable omega : R.

Definition Hs (x : V) : V := vsub (H x) (vscale omega x).                 (* H - omega *)
Definition A (x : V) : V := Hs (Hs x).                                    (* (H - omega)^2, as the two-layer contraction does *)
Definition Heff2 (c : W) : W := Pd (A (P c)).

Lemma Hs_sym x y : ipV x (Hs y) == ipV (Hs x) y.
Proof.
  unfold Hs. rewrite ip_sub_r, ip_scale_r. rewrite (ip_sym (vsub (H x) (vscale omega x)) y).
  rewrite ip_sub_r, ip_scale_r. rewrite H_sym. rewrite (ip_sym y (H x)), (ip_sym y x). reflexivity.
Qed.

Lemma shifted_form c : ipW c (Heff2 c) == ipV (Hs (P c)) (Hs (P c)).
Proof. unfold Heff2, A. rewrite adjoint. apply Hs_sym. Qed.

Theorem shifted_nonneg c e : rayleigh e (ipW c c) (ipW c (Heff2 c)) -> 0 <= e.
Proof.
  intros [Hp He]. apply (sor_mul_le_cancel_r R rO rI rplus rtimes rminus ropp req rle rlt sor 0 e (ipW c c) Hp).
  rewrite He, shifted_form. assert (E : 0 * ipW c c == 0) by ring. rewrite E. apply ip_nonneg.
Qed.

(* mu = min over the sector of the Rayleigh quotient of (H-omega)^2, i.e. min_j (lambda_j - omega)^2 *)
Variable mu : R.
Hypothesis lower2 : forall x, mu * ipV x x <= ipV (Hs x) (Hs x).

Theorem shifted_bound c e : rayleigh e (ipW c c) (ipW c (Heff2 c)) -> mu <= e.
Proof.
  intros Hr.
  apply (variational_bound V W ipV ipW A P Pd adjoint isometry mu) with (c := c); [|exact Hr].
  intros x. unfold A. rewrite Hs_sym. apply lower2.
Qed.

(* at an eigenvector of H (weakly: <y, H v> = lam <y, v> for all y) the quotient of (H-omega)^2 is (lam-omega)^2 *)
Theorem shifted_at_eigenvector v lam :
  (forall y, ipV y (H v) == lam * ipV y v) ->
  ipV (Hs v) (Hs v) == (lam - omega) * (lam - omega) * ipV v v.
Proof.
  intros Hv.
  assert (E : forall y, ipV y (Hs v) == (lam - omega) * ipV y v).
  { intros y. unfold Hs. rewrite ip_sub_r, ip_scale_r, Hv. ring. }
  rewrite E. rewrite (ip_sym (Hs v) v), E. ring.
Qed.

End Shifted.

(* ------------------------------------------------------------------ several roots (min-max) *)
Section Roots.
Variable V : Type.
Variable ipV : V -> V -> R.
Variable H : V -> V.
Variable vadd : V -> V -> V.
Variable vscale : R -> V -> V.
Hypothesis ip_sym : forall x y, ipV x y == ipV y x.
Hypothesis ip_add_r : forall x y z, ipV x (vadd y z) == ipV x y + ipV x z.
Hypothesis ip_scale_r : forall x a y, ipV x (vscale a y) == a * ipV x y.
Hypothesis H_sym : forall x y, ipV x (H y) == ipV (H x) y.
Hypothesis H_add : forall z x y, ipV z (H (vadd x y)) == ipV z (H x) + ipV z (H y).
Hypothesis H_scale : forall z a x, ipV z (H (vscale a x)) == a * ipV z (H x).

(* general k, abstract form.  Orth x: x is orthogonal to the k-1 lowest exact eigenvectors.
   (i) on the Ritz subspace S the form of H is bounded by the top Ritz value theta,
   (ii) S contains a non-zero vector orthogonal to them (dimension count: dim S = k > k-1),
   (iii) on the orthogonal complement H >= lam_k (spectral theorem).                                  *)
Theorem roots_minmax_partial (S Orth : V -> Prop) (theta lamk : R) :
  (forall x, S x -> ipV x (H x) <= theta * ipV x x) ->
  (exists x, S x /\ Orth x /\ 0 < ipV x x) ->
  (forall x, Orth x -> lamk * ipV x x <= ipV x (H x)) ->
  lamk <= theta.
Proof.
  intros Hi [x [Hs [Ho Hp]]] Hiii.
  apply (sor_mul_le_cancel_r R rO rI rplus rtimes rminus ropp req rle rlt sor lamk theta (ipV x x) Hp).
  apply (Rle_trans sor _ (ipV x (H x))); [apply Hiii; exact Ho|apply Hi; exact Hs].
Qed.

(* k = 2 in full: two orthonormal Ritz vectors y1 y2 (Ritz values th1 <= th2), v1 the exact ground state *)
Variables y1 y2 v1 : V.
Variables th1 th2 lam2 : R.
Hypothesis y11 : ipV y1 y1 == 1.
Hypothesis y22 : ipV y2 y2 == 1.
Hypothesis y12 : ipV y1 y2 == 0.
Hypothesis r11 : ipV y1 (H y1) == th1.
Hypothesis r22 : ipV y2 (H y2) == th2.
Hypothesis r12 : ipV y1 (H y2) == 0.
Hypothesis th_le : th1 <= th2.
Hypothesis spectral2 : forall x, ipV v1 x == 0 -> lam2 * ipV x x <= ipV x (H x).

Definition comb (a b : R) : V := vadd (vscale a y1) (vscale b y2).

Lemma comb_l z a b : ipV z (comb a b) == a * ipV z y1 + b * ipV z y2.
Proof. unfold comb. rewrite ip_add_r, !ip_scale_r. reflexivity. Qed.

Lemma comb_H z a b : ipV z (H (comb a b)) == a * ipV z (H y1) + b * ipV z (H y2).
Proof. unfold comb. rewrite H_add, !H_scale. reflexivity. Qed.

Lemma y21 : ipV y2 y1 == 0.
Proof. rewrite ip_sym. exact y12. Qed.
Lemma r21 : ipV y2 (H y1) == 0.
Proof. rewrite H_sym, ip_sym. exact r12. Qed.

Lemma comb_norm a b : ipV (comb a b) (comb a b) == a * a + b * b.
Proof.
  rewrite comb_l. rewrite (ip_sym (comb a b) y1), (ip_sym (comb a b) y2), !comb_l.
  rewrite y11, y22, y12, y21. ring.
Qed.

Lemma comb_energy a b : ipV (comb a b) (H (comb a b)) == th1 * (a * a) + th2 * (b * b).
Proof.
  rewrite comb_H. rewrite !H_sym. rewrite (ip_sym (H (comb a b)) y1), (ip_sym (H (comb a b)) y2).
  rewrite !comb_H. rewrite r11, r22, r12, r21. ring.
Qed.

Theorem second_root_bound : lam2 <= th2.
Proof.
  set (u1 := ipV v1 y1). set (u2 := ipV v1 y2).
  apply (roots_minmax_partial (fun x => exists a b, x = comb a b) (fun x => ipV v1 x == 0) th2 lam2).
  - intros x [a [b ->]]. rewrite comb_energy, comb_norm.
    assert (E : th2 * (a * a + b * b) == th2 * (a * a) + th2 * (b * b)) by ring. rewrite E.
    apply (Rplus_le_mono_r sor).
    apply (sor_mul_le_mono_nonneg_r R rO rI rplus rtimes rminus ropp req rle rlt sor); [exact th_le|apply (Rtimes_square_nonneg sor)].
  - destruct (Req_em sor u1 0) as [E1|N1].
    + destruct (Req_em sor u2 0) as [E2|N2].
      * exists (comb 0 1). split; [exists 0, 1; reflexivity|]. split.
        -- rewrite comb_l. fold u1 u2. rewrite E1, E2. ring.
        -- rewrite comb_norm. assert (E : 0 * 0 + 1 * 1 == 1) by ring. rewrite E. apply (Rlt_0_1 sor).
      * exists (comb u2 (- u1)). split; [exists u2, (- u1); reflexivity|]. split.
        -- rewrite comb_l. fold u1 u2. ring.
        -- rewrite comb_norm. assert (E : u2 * u2 + - u1 * - u1 == u2 * u2 + u1 * u1) by ring. rewrite E.
           apply (sor_sq_sum_pos R rO rI rplus rtimes rminus ropp req rle rlt sor). left. exact N2.
    + exists (comb u2 (- u1)). split; [exists u2, (- u1); reflexivity|]. split.
      * rewrite comb_l. fold u1 u2. ring.
      * rewrite comb_norm. assert (E : u2 * u2 + - u1 * - u1 == u2 * u2 + u1 * u1) by ring. rewrite E.
        apply (sor_sq_sum_pos R rO rI rplus rtimes rminus ropp req rle rlt sor). right. exact N1.
  - exact spectral2.
Qed.

End Roots.
End Variational.
