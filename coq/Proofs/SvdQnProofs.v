(* Proofs about Model/SvdQn.v : block partition, soundness of the blocked SVD / QR / eigh given
   valid per-block witnesses, label propagation, economic-mode sort. *)
From Coq Require Import List ZArith Arith Bool Lia Ring Permutation.
From RV Require Import Base.CRing Base.BigSum Model.SvdQn Gen.SvdQnShape.
Import ListNotations.

(* ================================================================== labels *)
Lemma label_eqb_eq a b : label_eqb a b = true <-> a = b.
Proof.
  revert b; induction a as [|x a IH]; destruct b as [|y b]; cbn; try (split; congruence).
  rewrite andb_true_iff, Z.eqb_eq, IH. split; [intros [-> ->]; reflexivity | intros H; injection H; auto].
Qed.

Lemma label_eqb_refl a : label_eqb a a = true.
Proof. apply label_eqb_eq; reflexivity. Qed.

Lemma label_eqb_neq a b : label_eqb a b = false <-> a <> b.
Proof.
  split; intros H.
  - intros E. apply label_eqb_eq in E. congruence.
  - destruct (label_eqb a b) eqn:E; [apply label_eqb_eq in E; contradiction | reflexivity].
Qed.

Lemma label_eq_dec (a b : label) : {a = b} + {a <> b}.
Proof. apply (list_eq_dec Z.eq_dec). Qed.

Lemma mem_label_In l ls : mem_label l ls = true <-> In l ls.
Proof.
  induction ls as [|x t IH]; cbn; [split; [discriminate | tauto]|].
  rewrite orb_true_iff, label_eqb_eq, IH. tauto.
Qed.

Lemma nodup_labels_NoDup ls : nodup_labels ls = true -> NoDup ls.
Proof.
  induction ls as [|x t IH]; cbn; [constructor|].
  rewrite andb_true_iff, negb_true_iff. intros [H1 H2]. constructor; auto.
  intros Hin. apply mem_label_In in Hin. congruence.
Qed.

Lemma order_okb_ok order qnl : order_okb order qnl = true -> order_ok order qnl.
Proof.
  unfold order_okb, order_ok. rewrite !andb_true_iff, !forallb_forall. intros [[H1 H2] H3].
  split; [apply nodup_labels_NoDup; exact H1|].
  intros l; split; intros H; apply mem_label_In; auto.
Qed.

Lemma wf_labelsb_ok qntot qn : wf_labelsb qntot qn = true -> wf_labels qntot qn.
Proof.
  unfold wf_labelsb, wf_labels. rewrite forallb_forall, Forall_forall.
  intros H l Hl. apply Nat.eqb_eq. auto.
Qed.

(* nr = qntot - nl  <->  nl + nr = qntot   (all labels have qn_size components) *)
Lemma lsub_ladd (t a b : label) :
  length a = length t -> length b = length t -> (b = lsub t a <-> ladd a b = t).
Proof.
  revert a b; induction t as [|z t IH]; intros [|x a] [|y b]; cbn; try discriminate; try tauto.
  intros Ha Hb. injection Ha as Ha. injection Hb as Hb. specialize (IH a b Ha Hb).
  unfold lsub, ladd in *. split; intros H; injection H as H1 H2.
  - f_equal; [lia | apply IH; exact H2].
  - f_equal; [lia | apply IH; exact H2].
Qed.

Lemma nth_wf qntot qn i : wf_labels qntot qn -> i < length qn -> length (nth i qn []) = length qntot.
Proof. intros H Hi. unfold wf_labels in H. rewrite Forall_forall in H. apply H. apply nth_In. exact Hi. Qed.

(* ================================================================== idxs / pos *)
Lemma idxs_In qn l i : In i (idxs qn l) <-> i < length qn /\ nth i qn [] = l.
Proof.
  unfold idxs. rewrite filter_In, in_seq, label_eqb_eq. split; intros [H1 H2]; split; auto; lia.
Qed.

Lemma idxs_NoDup qn l : NoDup (idxs qn l).
Proof. unfold idxs. apply NoDup_filter. apply seq_NoDup. Qed.

Lemma pos_Some i l a : pos i l = Some a -> a < length l /\ nth a l 0 = i.
Proof.
  revert a; induction l as [|x t IH]; cbn; [discriminate|]. intros a.
  destruct (Nat.eqb_spec x i) as [->|Hne].
  - intros H; injection H as <-. split; [lia | reflexivity].
  - destruct (pos i t) as [a'|]; cbn; [|discriminate]. intros H; injection H as <-.
    destruct (IH a' eq_refl) as [H1 H2]. split; [lia | exact H2].
Qed.

Lemma pos_None i l : pos i l = None <-> ~ In i l.
Proof.
  induction l as [|x t IH]; cbn; [tauto|].
  destruct (Nat.eqb_spec x i) as [->|Hne].
  - split; [discriminate | intros H; exfalso; apply H; left; reflexivity].
  - destruct (pos i t) as [a'|]; cbn.
    + split; [discriminate|]. intros H. exfalso. apply H. right.
      destruct IH as [_ IH]. destruct (in_dec Nat.eq_dec i t) as [Hin|Hn]; [exact Hin | specialize (IH Hn); discriminate].
    + split; [|reflexivity]. intros _ [H|H]; [congruence | apply IH in H; [exact H | reflexivity]].
Qed.

Lemma pos_In i l : In i l -> exists a, pos i l = Some a.
Proof.
  intros H. destruct (pos i l) as [a|] eqn:E; [eauto|]. apply pos_None in E. contradiction.
Qed.

Lemma memn_In i l : memn i l = true <-> In i l.
Proof.
  unfold memn. destruct (pos i l) as [a|] eqn:E.
  - split; [|reflexivity]. intros _. apply pos_Some in E. destruct E as [H1 <-]. apply nth_In. exact H1.
  - apply pos_None in E. split; [discriminate | contradiction].
Qed.

Lemma pos_nth l a : NoDup l -> a < length l -> pos (nth a l 0) l = Some a.
Proof.
  revert a; induction l as [|x t IH]; cbn; intros a Hnd Ha; [lia|].
  inversion Hnd as [|? ? Hx Ht]; subst. destruct a as [|a].
  - rewrite Nat.eqb_refl. reflexivity.
  - destruct (Nat.eqb_spec x (nth a t 0)) as [E|_].
    + exfalso. apply Hx. rewrite E. apply nth_In. lia.
    + rewrite IH by (auto; lia). reflexivity.
Qed.

(* the flat index of ravel().take(l * ncols + r) addresses entry (l, r) *)
Lemma gather_entry (R : CRing) ncols (A : mat R) ls rs a b :
  nth b rs 0 < ncols -> gather R ncols A ls rs a b = A (nth a ls 0) (nth b rs 0).
Proof.
  intros H. unfold gather, ravel.
  assert (Hn : ncols <> 0) by lia.
  assert (E1 : (nth a ls 0 * ncols + nth b rs 0) / ncols = nth a ls 0).
  { rewrite Nat.div_add_l by exact Hn. rewrite Nat.div_small by exact H. lia. }
  assert (E2 : (nth a ls 0 * ncols + nth b rs 0) mod ncols = nth b rs 0).
  { rewrite Nat.add_comm, Nat.mod_add by exact Hn. apply Nat.mod_small. exact H. }
  rewrite E1, E2. reflexivity.
Qed.

(* ================================================================== block partition *)
Section Partition.
  Variables (qnl qnr : list label) (qntot : label) (order : list label).
  Hypothesis Hwl : wf_labels qntot qnl.
  Hypothesis Hwr : wf_labels qntot qnr.
  Hypothesis Hord : order_ok order qnl.

  Let keys := bkeys (svd_present qnr qntot) order.
  Let in_block (i j : nat) (nl : label) : bool :=
    memn i (lset qnl nl) && memn j (rset qnr (svd_rkey qntot) nl).

  Lemma keys_NoDup : NoDup keys.
  Proof. unfold keys, bkeys. apply NoDup_filter. apply Hord. Qed.

  Lemma in_block_iff i j nl :
    in_block i j nl = true <->
    i < length qnl /\ j < length qnr /\ nth i qnl [] = nl /\ nth j qnr [] = lsub qntot nl.
  Proof.
    unfold in_block, lset, rset, svd_rkey. rewrite andb_true_iff, !memn_In, !idxs_In. tauto.
  Qed.

  Lemma allowed_iff i j : i < length qnl -> j < length qnr ->
    (allowed qnl qnr qntot i j = true <-> nth j qnr [] = lsub qntot (nth i qnl [])).
  Proof.
    intros Hi Hj. unfold allowed. rewrite label_eqb_eq. symmetry. apply lsub_ladd.
    - apply nth_wf; assumption.
    - apply nth_wf; assumption.
  Qed.

  Lemma key_of_allowed i j : i < length qnl -> j < length qnr -> allowed qnl qnr qntot i j = true ->
    In (nth i qnl []) keys.
  Proof.
    intros Hi Hj Hal. unfold keys, bkeys. apply filter_In. split.
    - apply Hord. apply nth_In. exact Hi.
    - unfold svd_present. apply allowed_iff in Hal; auto.
      destruct (idxs qnr (lsub qntot (nth i qnl []))) eqn:E; [|reflexivity].
      assert (Hin : In j (idxs qnr (lsub qntot (nth i qnl [])))) by (apply idxs_In; auto).
      rewrite E in Hin. destruct Hin.
  Qed.

  (* number of blocks containing the pair (i, j) *)
  Definition nblocks (i j : nat) : nat := length (filter (in_block i j) keys).

  Lemma count_one (l : list label) (f : label -> bool) (x : label) :
    NoDup l -> In x l -> (forall y, f y = true -> y = x) -> f x = true -> length (filter f l) = 1.
  Proof.
    induction l as [|y t IH]; intros Hnd Hin Hu Hx; [destruct Hin|].
    inversion Hnd as [|? ? Hy Ht]; subst. cbn. destruct Hin as [->|Hin].
    - rewrite Hx. cbn. f_equal.
      rewrite (proj2 (length_zero_iff_nil _)); [reflexivity|].
      destruct (filter f t) as [|z r] eqn:E; [reflexivity|].
      assert (Hz : In z (filter f t)) by (rewrite E; left; reflexivity).
      apply filter_In in Hz. destruct Hz as [Hz1 Hz2]. apply Hu in Hz2. subst. contradiction.
    - destruct (f y) eqn:Ey.
      + apply Hu in Ey. subst. contradiction.
      + apply IH; auto.
  Qed.

  Lemma count_zero (l : list label) (f : label -> bool) :
    (forall y, In y l -> f y = false) -> length (filter f l) = 0.
  Proof.
    induction l as [|y t IH]; intros H; [reflexivity|]. cbn.
    rewrite (H y) by (left; reflexivity). apply IH. intros z Hz. apply H. right. exact Hz.
  Qed.

  Theorem block_partition_count i j : i < length qnl -> j < length qnr ->
    nblocks i j = if allowed qnl qnr qntot i j then 1 else 0.
  Proof.
    intros Hi Hj. unfold nblocks. destruct (allowed qnl qnr qntot i j) eqn:Hal.
    - apply count_one with (x := nth i qnl []).
      + apply keys_NoDup.
      + apply (key_of_allowed i j); assumption.
      + intros y Hy. apply in_block_iff in Hy. symmetry. tauto.
      + apply in_block_iff. apply allowed_iff in Hal; auto.
    - apply count_zero. intros y _. destruct (in_block i j y) eqn:E; [|reflexivity].
      apply in_block_iff in E. destruct E as (_ & _ & E1 & E2). subst y.
      apply allowed_iff in E2; auto. congruence.
  Qed.

  (* the same in relational form *)
  Theorem block_partition_rel i j : i < length qnl -> j < length qnr ->
    (allowed qnl qnr qntot i j = true ->
       exists nl, In nl keys /\ In i (lset qnl nl) /\ In j (rset qnr (svd_rkey qntot) nl) /\
                  forall nl', In nl' keys -> In i (lset qnl nl') -> In j (rset qnr (svd_rkey qntot) nl') -> nl' = nl) /\
    (allowed qnl qnr qntot i j = false ->
       forall nl, In nl keys -> ~ (In i (lset qnl nl) /\ In j (rset qnr (svd_rkey qntot) nl))).
  Proof.
    intros Hi Hj. split.
    - intros Hal. exists (nth i qnl []). split; [apply (key_of_allowed i j); assumption|].
      apply allowed_iff in Hal; auto. unfold lset, rset, svd_rkey. rewrite !idxs_In.
      repeat split; auto. intros nl' _ H1 _. apply idxs_In in H1. symmetry. tauto.
    - intros Hal nl _ [H1 H2]. unfold lset, rset, svd_rkey in *. apply idxs_In in H1. apply idxs_In in H2.
      destruct H1 as [_ H1]. destruct H2 as [_ H2]. subst nl. apply allowed_iff in H2; auto. congruence.
  Qed.
End Partition.

(* ================================================================== finite sums over lists *)
Section Sums.
  Variable R : CRing.
  Add Ring RRs : (rth R).
  Notation "0" := (r0 R).
  Notation "1" := (r1 R).
  Infix "+" := (radd R).
  Infix "*" := (rmul R).

  Fixpoint sumL {X : Type} (l : list X) (f : X -> R) : R :=
    match l with [] => 0 | x :: t => f x + sumL t f end.

  Lemma sumL_app {X} (l l' : list X) f : sumL (l ++ l') f = sumL l f + sumL l' f.
  Proof. induction l as [|x t IH]; cbn; [ring | rewrite IH; ring]. Qed.

  Lemma sumL_ext {X} (l : list X) f g : (forall x, In x l -> f x = g x) -> sumL l f = sumL l g.
  Proof.
    induction l as [|x t IH]; cbn; intros H; [reflexivity|].
    rewrite (H x) by (left; reflexivity). rewrite IH; [reflexivity|]. intros y Hy. apply H. right. exact Hy.
  Qed.

  Lemma sumL_zero {X} (l : list X) f : (forall x, In x l -> f x = 0) -> sumL l f = 0.
  Proof.
    induction l as [|x t IH]; cbn; intros H; [reflexivity|].
    rewrite (H x) by (left; reflexivity). rewrite IH; [ring|]. intros y Hy. apply H. right. exact Hy.
  Qed.

  Lemma sumL_map {X Y} (g : X -> Y) (l : list X) f : sumL (map g l) f = sumL l (fun x => f (g x)).
  Proof. induction l as [|x t IH]; cbn; [reflexivity | rewrite IH; reflexivity]. Qed.

  Lemma sumL_flat_map {X Y} (g : X -> list Y) (l : list X) f :
    sumL (flat_map g l) f = sumL l (fun x => sumL (g x) f).
  Proof. induction l as [|x t IH]; cbn; [reflexivity | rewrite sumL_app, IH; reflexivity]. Qed.

  Lemma sumL_scale_r {X} (l : list X) f c : sumL l (fun x => f x * c) = sumL l f * c.
  Proof. induction l as [|x t IH]; cbn; [ring | rewrite IH; ring]. Qed.

  Lemma sumL_perm {X} (l l' : list X) f : Permutation l l' -> sumL l f = sumL l' f.
  Proof.
    induction 1; cbn; try ring.
    - rewrite IHPermutation. reflexivity.
    - rewrite IHPermutation1. exact IHPermutation2.
  Qed.

  Lemma sumn_nth {X} (l : list X) (d : X) f : sumn (length l) (fun k => f (nth k l d)) = sumL l f.
  Proof.
    induction l as [|x l IH] using rev_ind; [reflexivity|].
    rewrite app_length. cbn [length]. rewrite Nat.add_1_r. cbn [sumn].
    rewrite (sumn_ext R (length l) _ (fun k => f (nth k l d))).
    - rewrite IH, sumL_app. rewrite nth_middle. cbn. ring.
    - intros i Hi. rewrite app_nth1 by exact Hi. reflexivity.
  Qed.

  Lemma sumn_seq n f : sumn n f = sumL (seq 0 n) f.
  Proof.
    rewrite <- (sumn_nth (seq 0 n) O f). rewrite seq_length. apply sumn_ext.
    intros i Hi. rewrite seq_nth by exact Hi. reflexivity.
  Qed.

  Lemma sumn_shift n (h : nat -> R) : sumn (S n) h = h O + sumn n (fun a => h (S a)).
  Proof.
    induction n as [|n IH]; [cbn; ring|].
    change (sumn (S (S n)) h) with (sumn (S n) h + h (S n)). rewrite IH. cbn [sumn]. ring.
  Qed.

  (* sum over a range with a window [s, s+l) splits as the code splits block columns at dim *)
  Lemma sumL_seq_split s l1 l2 f : sumL (seq s (l1 + l2)) f = sumL (seq s l1) f + sumL (seq (s + l1)%nat l2) f.
  Proof. rewrite seq_app, sumL_app. reflexivity. Qed.

  (* re-indexing the rows of a scattered block: summing over all rows i of the big matrix a quantity
     that lives on the rows listed in ls is summing over the block's own rows *)
  Lemma sumn_pos (m : nat) (ls : list nat) (h : nat -> R) :
    NoDup ls -> (forall x, In x ls -> (x < m)%nat) ->
    sumn m (fun i => match pos i ls with Some a => h a | None => 0 end) = sumn (length ls) h.
  Proof.
    revert h; induction ls as [|x t IH]; intros h Hnd Hlt.
    - cbn. apply sumn_0. reflexivity.
    - inversion Hnd as [|? ? Hx Ht]; subst.
      rewrite (sumn_ext R m _ (fun i => (if Nat.eqb i x then (fun _ => h O) i else 0)
                                        + match pos i t with Some a => h (S a) | None => 0 end)).
      + rewrite sumn_add, sumn_delta by (apply Hlt; left; reflexivity).
        rewrite (IH (fun a => h (S a))) by (auto; intros; apply Hlt; right; assumption).
        cbn [length]. rewrite sumn_shift. reflexivity.
      + intros i _. cbn [pos]. rewrite (Nat.eqb_sym i x). destruct (Nat.eqb_spec x i) as [->|Hne].
        * assert (E : pos i t = None) by (apply pos_None; exact Hx). rewrite E. ring.
        * destruct (pos i t); cbn; ring.
  Qed.

  (* picking the single matching key out of a duplicate-free list *)
  Lemma sumL_pick (l : list label) (x : label) (g : label -> R) : NoDup l ->
    sumL l (fun y => if label_eqb y x then g y else 0) = if mem_label x l then g x else 0.
  Proof.
    induction l as [|y t IH]; intros Hnd; [reflexivity|].
    inversion Hnd as [|? ? Hy Ht]; subst. cbn. rewrite IH by exact Ht.
    destruct (label_eqb y x) eqn:E.
    - apply label_eqb_eq in E. subst y. cbn.
      destruct (mem_label x t) eqn:Em; [apply mem_label_In in Em; contradiction | ring].
    - cbn. ring.
  Qed.
End Sums.
Arguments sumL {R X} l f.

(* ================================================================== column descriptors *)
Lemma cols_of_In present order f nl c :
  In (nl, c) (cols_of present order f) <-> In nl (@bkeys present order) /\ In c (f nl).
Proof.
  unfold cols_of. rewrite in_flat_map. split.
  - intros [x [Hx H]]. apply in_map_iff in H. destruct H as [c' [E Hc]]. injection E as -> ->. tauto.
  - intros [H1 H2]. exists nl. split; [exact H1|]. apply in_map_iff. exists c. tauto.
Qed.

Lemma NoDup_app_intro {X} (l l' : list X) :
  NoDup l -> NoDup l' -> (forall x, In x l -> ~ In x l') -> NoDup (l ++ l').
Proof.
  induction l as [|x t IH]; cbn; intros H1 H2 H3; [exact H2|].
  inversion H1 as [|? ? Hx Ht]; subst. constructor.
  - rewrite in_app_iff. intros [H|H]; [contradiction | apply (H3 x); auto].
  - apply IH; auto.
Qed.

Lemma cols_of_NoDup present order f :
  NoDup (@bkeys present order) -> (forall nl, NoDup (f nl)) -> NoDup (cols_of present order f).
Proof.
  unfold cols_of. generalize (@bkeys present order) as keys.
  induction keys as [|k t IH]; cbn; intros Hnd Hf; [constructor|].
  inversion Hnd as [|? ? Hk Ht]; subst. apply NoDup_app_intro.
  - apply FinFun.Injective_map_NoDup; [|apply Hf]. intros a b E. injection E. auto.
  - apply IH; auto.
  - intros [nl c] H1 H2. apply in_map_iff in H1. destruct H1 as [c' [E _]]. injection E as <- _.
    apply in_flat_map in H2. destruct H2 as [x [Hx H2]]. apply in_map_iff in H2.
    destruct H2 as [c'' [E _]]. injection E as -> _. contradiction.
Qed.

Lemma cols_main_extra_NoDup present order dimf kf :
  NoDup (@bkeys present order) ->
  NoDup (cols_main present order dimf ++ cols_extra present order dimf kf).
Proof.
  intros Hnd. apply NoDup_app_intro.
  - apply cols_of_NoDup; [exact Hnd | intros; apply seq_NoDup].
  - apply cols_of_NoDup; [exact Hnd | intros; apply seq_NoDup].
  - intros [nl c] H1 H2. apply cols_of_In in H1. apply cols_of_In in H2.
    destruct H1 as [_ H1]. destruct H2 as [_ H2]. apply in_seq in H1. apply in_seq in H2. lia.
Qed.

(* ================================================================== one side of the assembled factors *)
Section Side.
  Variable R : CRing.
  Add Ring RRside : (rth R).
  Notation "0" := (r0 R).
  Notation "1" := (r1 R).
  Infix "+" := (radd R).
  Infix "*" := (rmul R).

  Variable m : nat.                                 (* number of rows of the big factor *)
  Variable keys : list label.
  Variable sets : label -> list nat.                (* lset or rset *)
  Variable M : label -> mat R.                      (* block factor of each key *)
  Variable kf : label -> nat.                       (* its number of columns *)

  Hypothesis sets_NoDup : forall nl, NoDup (sets nl).
  Hypothesis sets_lt : forall nl x, In x (sets nl) -> x < m.
  Hypothesis sets_disj : forall nl nl' i, In nl keys -> In nl' keys -> In i (sets nl) -> In i (sets nl') -> nl = nl'.
  Hypothesis M_orth : forall nl, In nl keys -> orthonormal_cols R (length (sets nl)) (kf nl) (M nl).

  Definition Fd (d : coldesc) : nat -> R := fun i => scatter R (sets (fst d)) (M (fst d)) i (snd d).

  Lemma Fd_support d i : ~ In i (sets (fst d)) -> Fd d i = 0.
  Proof. intros H. unfold Fd, scatter. apply pos_None in H. rewrite H. reflexivity. Qed.

  Lemma Fd_orth d d' : In (fst d) keys -> In (fst d') keys -> snd d < kf (fst d) -> snd d' < kf (fst d') ->
    sumn m (fun i => rcj R (Fd d i) * Fd d' i) = if label_eqb (fst d) (fst d') then delta R (snd d) (snd d') else 0.
  Proof.
    intros Hk Hk' Hc Hc'. destruct d as [nl c], d' as [nl' c']. cbn [fst snd] in *.
    destruct (label_eqb nl nl') eqn:E.
    - apply label_eqb_eq in E. subst nl'.
      rewrite <- (M_orth nl Hk c c' Hc Hc').
      rewrite <- (sumn_pos R m (sets nl) (fun a => rcj R (M nl a c) * M nl a c')) by (auto; apply sets_lt).
      apply sumn_ext. intros i _. unfold Fd, scatter. cbn [fst snd].
      destruct (pos i (sets nl)); [reflexivity|]. rewrite rcj_0. ring.
    - apply label_eqb_neq in E. apply sumn_0. intros i _. unfold Fd, scatter. cbn [fst snd].
      destruct (pos i (sets nl)) as [a|] eqn:E1; [|rewrite rcj_0; ring].
      destruct (pos i (sets nl')) as [b|] eqn:E2; [|ring].
      exfalso. apply E. apply (sets_disj nl nl' i Hk Hk').
      + apply pos_Some in E1. destruct E1 as [H1 <-]. apply nth_In. exact H1.
      + apply pos_Some in E2. destruct E2 as [H1 <-]. apply nth_In. exact H1.
  Qed.

  (* columns listed by a duplicate-free list of valid descriptors are orthonormal *)
  Lemma asm_orth (cols : list coldesc) : NoDup cols ->
    (forall d, In d cols -> In (fst d) keys /\ snd d < kf (fst d)) ->
    orthonormal_cols R m (length cols) (asm R cols Fd).
  Proof.
    intros Hnd Hv k k' Hk Hk'. unfold asm.
    pose proof (nth_In cols d0 Hk) as Hd. pose proof (nth_In cols d0 Hk') as Hd'.
    destruct (Hv _ Hd) as [V1 V2]. destruct (Hv _ Hd') as [V1' V2'].
    rewrite Fd_orth by assumption. unfold delta.
    destruct (Nat.eqb_spec k k') as [->|Hne].
    - rewrite label_eqb_refl, Nat.eqb_refl. reflexivity.
    - destruct (label_eqb (fst (nth k cols d0)) (fst (nth k' cols d0))) eqn:E; [|reflexivity].
      destruct (Nat.eqb_spec (snd (nth k cols d0)) (snd (nth k' cols d0))) as [E2|_]; [|reflexivity].
      exfalso. apply Hne. apply label_eqb_eq in E.
      apply (proj1 (NoDup_nth cols d0) Hnd k k' Hk Hk').
      destruct (nth k cols d0), (nth k' cols d0). cbn in *. congruence.
  Qed.
End Side.

(* ================================================================== product of the assembled factors *)
Section Product.
  Variable R : CRing.
  Add Ring RRprod : (rth R).
  Notation "0" := (r0 R).
  Notation "1" := (r1 R).
  Infix "+" := (radd R).
  Infix "*" := (rmul R).

  Variables (qnl qnr : list label) (rkey : label -> label) (present : label -> bool) (order : list label).
  Variable W : label -> bfac R.
  Variable A : mat R.
  Let keys := @bkeys present order.
  Hypothesis keys_nd : NoDup keys.

  Let inb (i j : nat) (nl : label) : bool := memn i (lset qnl nl) && memn j (rset qnr rkey nl).

  (* sum over the columns f(nl) of every block of  U[i,k] * w[k] * V[j,k]  *)
  Lemma product_blocks (f : label -> list nat) (wt : coldesc -> R) (blockval : label -> nat -> nat -> R) i j :
    (forall nl a b, In nl keys -> pos i (lset qnl nl) = Some a -> pos j (rset qnr rkey nl) = Some b ->
        sumL (f nl) (fun c => bu (W nl) a c * wt (nl, c) * bv (W nl) b c) = blockval nl a b) ->
    sumL (cols_of present order f) (fun d => Ud R qnl W d i * wt d * Vd R qnr rkey W d j)
    = sumL keys (fun nl => match pos i (lset qnl nl), pos j (rset qnr rkey nl) with
                           | Some a, Some b => blockval nl a b | _, _ => 0 end).
  Proof.
    intros H. unfold cols_of. rewrite sumL_flat_map. fold keys. apply sumL_ext. intros nl Hnl.
    rewrite sumL_map. unfold Ud, Vd, scatter. cbn [fst snd].
    destruct (pos i (lset qnl nl)) as [a|] eqn:E1.
    - destruct (pos j (rset qnr rkey nl)) as [b|] eqn:E2.
      + apply H; assumption.
      + apply sumL_zero. intros; ring.
    - apply sumL_zero. intros; ring.
  Qed.

  (* if every block restores the gathered entries, the blocks together restore the entries lying in
     some block and give zero elsewhere *)
  Lemma product_mask (f : label -> list nat) (wt : coldesc -> R) i j :
    i < length qnl -> j < length qnr ->
    (forall nl a b, In nl keys -> a < length (lset qnl nl) -> b < length (rset qnr rkey nl) ->
        sumL (f nl) (fun c => bu (W nl) a c * wt (nl, c) * bv (W nl) b c)
        = A (nth a (lset qnl nl) O) (nth b (rset qnr rkey nl) O)) ->
    sumL (cols_of present order f) (fun d => Ud R qnl W d i * wt d * Vd R qnr rkey W d j)
    = if mem_label (nth i qnl []) keys && label_eqb (nth j qnr []) (rkey (nth i qnl [])) then A i j else 0.
  Proof.
    intros Hi Hj H.
    rewrite (product_blocks f wt (fun nl a b => A (nth a (lset qnl nl) O) (nth b (rset qnr rkey nl) O))).
    2:{ intros nl a b Hnl E1 E2. apply H; [exact Hnl | apply pos_Some in E1; tauto | apply pos_Some in E2; tauto]. }
    rewrite (sumL_ext R keys _ (fun nl => if label_eqb nl (nth i qnl [])
                  then (fun nl => if label_eqb (nth j qnr []) (rkey nl) then A i j else 0) nl else 0)).
    - rewrite sumL_pick by exact keys_nd. destruct (mem_label (nth i qnl []) keys); reflexivity.
    - intros nl Hnl. destruct (pos i (lset qnl nl)) as [a|] eqn:E1.
      + pose proof (pos_Some _ _ _ E1) as [Ha Hia].
        assert (Hin : In i (lset qnl nl)) by (rewrite <- Hia; apply nth_In; exact Ha).
        apply idxs_In in Hin. destruct Hin as [_ Hin]. subst nl. rewrite label_eqb_refl.
        destruct (pos j (rset qnr rkey (nth i qnl []))) as [b|] eqn:E2.
        * pose proof (pos_Some _ _ _ E2) as [Hb Hjb].
          assert (Hin2 : In j (rset qnr rkey (nth i qnl []))) by (rewrite <- Hjb; apply nth_In; exact Hb).
          apply idxs_In in Hin2. destruct Hin2 as [_ Hin2]. rewrite Hin2, label_eqb_refl.
          rewrite Hia, Hjb. reflexivity.
        * apply pos_None in E2. destruct (label_eqb (nth j qnr []) (rkey (nth i qnl []))) eqn:E3; [|reflexivity].
          exfalso. apply E2. apply idxs_In. apply label_eqb_eq in E3. auto.
      + apply pos_None in E1. destruct (label_eqb nl (nth i qnl [])) eqn:E3; [|reflexivity].
        exfalso. apply E1. apply idxs_In. apply label_eqb_eq in E3. auto.
  Qed.
End Product.

(* ================================================================== small list facts *)
Lemma lzip_length f a b : length a = length b -> length (lzip f a b) = length a.
Proof.
  revert b; induction a as [|x a IH]; intros [|y b]; cbn; try discriminate; auto.
Qed.

Lemma lsub_inj (t a b : label) : length a = length t -> length b = length t -> lsub t a = lsub t b -> a = b.
Proof.
  revert a b; induction t as [|z t IH]; intros [|x a] [|y b]; cbn; try discriminate; auto.
  intros Ha Hb H. injection Ha as Ha. injection Hb as Hb. unfold lsub in *. injection H as H1 H2.
  f_equal; [lia | apply IH; auto].
Qed.

Lemma ladd_lsub (t a : label) : length a = length t -> ladd a (lsub t a) = t.
Proof.
  intros H. apply (lsub_ladd t a (lsub t a)); auto.
  unfold lsub. rewrite lzip_length; auto.
Qed.

Lemma flat_map_nil {X Y} (g : X -> list Y) (l : list X) : (forall x, In x l -> g x = []) -> flat_map g l = [].
Proof.
  induction l as [|x t IH]; cbn; intros H; [reflexivity|].
  rewrite (H x) by (left; reflexivity). apply IH. intros y Hy. apply H. right. exact Hy.
Qed.

Lemma flat_map_ext_in {X Y} (g h : X -> list Y) (l : list X) :
  (forall x, In x l -> g x = h x) -> flat_map g l = flat_map h l.
Proof.
  induction l as [|x t IH]; cbn; intros H; [reflexivity|].
  rewrite (H x) by (left; reflexivity). f_equal. apply IH. intros y Hy. apply H. right. exact Hy.
Qed.

(* ================================================================== svd_qn, full_matrices = True (and the state before the sort) *)
Section SvdSound.
  Variable R : CRing.
  Add Ring RRsvd : (rth R).
  Notation "0" := (r0 R).
  Notation "1" := (r1 R).
  Infix "+" := (radd R).
  Infix "*" := (rmul R).

  Variables (qnl qnr : list label) (qntot : label) (order : list label).
  Variable A : mat R.
  Variable W : label -> bfac R.
  Variable full : bool.
  Hypothesis Hwl : wf_labels qntot qnl.
  Hypothesis Hwr : wf_labels qntot qnr.
  Hypothesis Hord : order_ok order qnl.
  Hypothesis HW : svd_witness_ok R full qnl qnr qntot order A W.

  Let pr := svd_present qnr qntot.
  Let rk := svd_rkey qntot.
  Let dimf := svd_dim qnl qnr qntot.
  Let keys := @bkeys pr order.
  Let main := cols_main pr order dimf.
  Let cu := main ++ cols_extra pr order dimf (fun nl => ku (W nl)).
  Let cv := main ++ cols_extra pr order dimf (fun nl => kv (W nl)).
  Let o := svd_qn_pre R qnl qnr qntot order W.
  Let m := length qnl.
  Let n := length qnr.

  Lemma sv_keys_nd : NoDup keys.
  Proof. apply (keys_NoDup qnl qnr qntot order Hord). Qed.

  Lemma sv_key_len nl : In nl keys -> length nl = length qntot.
  Proof.
    intros H. unfold keys, bkeys in H. apply filter_In in H. destruct H as [H _].
    apply Hord in H. unfold wf_labels in Hwl. rewrite Forall_forall in Hwl. auto.
  Qed.

  Lemma sv_block nl : In nl keys ->
    svd_block_ok R full (gather R n A (lset qnl nl) (rset qnr rk nl))
                 (length (lset qnl nl)) (length (rset qnr rk nl)) (W nl).
  Proof. intros H. apply HW. exact H. Qed.

  Lemma sv_main_valid d : In d main -> In (fst d) keys /\ snd d < dimf (fst d).
  Proof.
    destruct d as [nl c]. intros H. apply cols_of_In in H. destruct H as [H1 H2].
    apply in_seq in H2. cbn. split; [exact H1 | lia].
  Qed.

  Lemma sv_cu_valid d : In d cu -> In (fst d) keys /\ snd d < ku (W (fst d)).
  Proof.
    unfold cu. rewrite in_app_iff. intros [H|H].
    - apply sv_main_valid in H. destruct H as [H1 H2]. split; [exact H1|].
      destruct (sv_block _ H1) as (D1 & _). fold (dimf (fst d)) in D1. unfold dimf, svd_dim in *. fold rk in H2. lia.
    - destruct d as [nl c]. apply cols_of_In in H. destruct H as [H1 H2]. apply in_seq in H2. cbn.
      split; [exact H1|]. destruct (sv_block _ H1) as (D1 & _). unfold dimf, svd_dim in H2. fold rk in H2. lia.
  Qed.

  Lemma sv_cv_valid d : In d cv -> In (fst d) keys /\ snd d < kv (W (fst d)).
  Proof.
    unfold cv. rewrite in_app_iff. intros [H|H].
    - apply sv_main_valid in H. destruct H as [H1 H2]. split; [exact H1|].
      destruct (sv_block _ H1) as (_ & D2 & _). unfold dimf, svd_dim in *. fold rk in H2. lia.
    - destruct d as [nl c]. apply cols_of_In in H. destruct H as [H1 H2]. apply in_seq in H2. cbn.
      split; [exact H1|]. destruct (sv_block _ H1) as (_ & D2 & _). unfold dimf, svd_dim in H2. fold rk in H2. lia.
  Qed.

  (* (1) the paired columns restore exactly the symmetry-allowed part of A *)
  Theorem svd_product i j : i < m -> j < n ->
    sumn (oKmain o) (fun k => oU o i k * oSu o k * oV o j k)
    = if allowed qnl qnr qntot i j then A i j else 0.
  Proof.
    intros Hi Hj. cbn [o svd_qn_pre oKmain oU oSu oV]. fold pr rk dimf main.
    set (g := fun d : coldesc => Ud R qnl W d i * Sd R W d * Vd R qnr rk W d j).
    rewrite (sumn_ext R (length main) _ (fun k => g (nth k main d0))).
    2:{ intros k Hk. unfold asm, g. rewrite !app_nth1 by exact Hk.
        destruct (Nat.ltb_spec k (length main)); [reflexivity | lia]. }
    rewrite (sumn_nth R main d0 g). unfold g, main, cols_main.
    rewrite (product_mask R qnl qnr rk pr order W A sv_keys_nd (fun nl => seq 0 (dimf nl)) (Sd R W) i j Hi Hj).
    - fold keys. destruct (allowed qnl qnr qntot i j) eqn:Hal.
      + pose proof (key_of_allowed qnl qnr qntot order Hwl Hwr Hord i j Hi Hj Hal) as Hk.
        apply mem_label_In in Hk. fold pr keys in Hk. rewrite Hk.
        apply (allowed_iff qnl qnr qntot Hwl Hwr i j Hi Hj) in Hal. unfold rk, svd_rkey. rewrite <- Hal, label_eqb_refl.
        reflexivity.
      + destruct (label_eqb (nth j qnr []) (rk (nth i qnl []))) eqn:E; [|rewrite andb_false_r; reflexivity].
        apply label_eqb_eq in E. apply (allowed_iff qnl qnr qntot Hwl Hwr i j Hi Hj) in E. congruence.
    - intros nl a b Hnl Ha Hb. destruct (sv_block nl Hnl) as (_ & _ & _ & P & _).
      specialize (P a b Ha Hb). rewrite sumn_seq in P. unfold Sd. cbn [fst snd].
      unfold dimf, svd_dim. fold rk. rewrite P. apply gather_entry.
      assert (Hin : In (nth b (rset qnr rk nl) O) (rset qnr rk nl)) by (apply nth_In; exact Hb).
      apply idxs_In in Hin. unfold n. tauto.
  Qed.

  (* (2) all columns of U are orthonormal (paired and zero-singular-value ones alike) *)
  Theorem svd_U_orth : orthonormal_cols R m (oKu o) (oU o).
  Proof.
    cbn [o svd_qn_pre oKu oU]. fold pr rk dimf main cu.
    apply (asm_orth R m keys (lset qnl) (fun nl => bu (W nl)) (fun nl => ku (W nl))).
    - intros nl. apply idxs_NoDup.
    - intros nl x H. apply idxs_In in H. unfold m. tauto.
    - intros nl nl' i _ _ H1 H2. apply idxs_In in H1. apply idxs_In in H2. destruct H1, H2. congruence.
    - intros nl Hnl. destruct (sv_block nl Hnl) as (_ & _ & _ & _ & OU & _). exact OU.
    - apply cols_main_extra_NoDup. exact sv_keys_nd.
    - exact sv_cu_valid.
  Qed.

  (* (3) the same for V *)
  Theorem svd_V_orth : orthonormal_cols R n (oKv o) (oV o).
  Proof.
    cbn [o svd_qn_pre oKv oV]. fold pr rk dimf main cv.
    apply (asm_orth R n keys (rset qnr rk) (fun nl => bv (W nl)) (fun nl => kv (W nl))).
    - intros nl. apply idxs_NoDup.
    - intros nl x H. apply idxs_In in H. unfold n. tauto.
    - intros nl nl' i K1 K2 H1 H2. apply idxs_In in H1. apply idxs_In in H2. destruct H1 as [_ H1], H2 as [_ H2].
      apply (lsub_inj qntot); [apply sv_key_len; exact K1 | apply sv_key_len; exact K2|].
      unfold rk, svd_rkey in *. congruence.
    - intros nl Hnl. destruct (sv_block nl Hnl) as (_ & _ & _ & _ & _ & OV). exact OV.
    - apply cols_main_extra_NoDup. exact sv_keys_nd.
    - exact sv_cv_valid.
  Qed.

  (* (4) paired columns carry labels summing to qntot *)
  Theorem svd_labels_paired k : k < oKmain o -> ladd (nth k (oQl o) []) (nth k (oQr o) []) = qntot.
  Proof.
    cbn [o svd_qn_pre oKmain oQl oQr]. fold pr rk dimf main. intros Hk.
    rewrite !map_app, !app_nth1 by (rewrite map_length; exact Hk).
    change (@nil Z) with (fst d0) at 1. rewrite map_nth.
    assert (E : nth k (map (fun d : coldesc => rk (fst d)) main) [] = rk (fst (nth k main d0))).
    { etransitivity; [apply nth_indep; rewrite map_length; exact Hk
                     | exact (map_nth (fun d : coldesc => rk (fst d)) main d0 k)]. }
    etransitivity; [apply (f_equal (ladd _)); exact E|].
    apply ladd_lsub. apply sv_key_len. apply (sv_main_valid (nth k main d0)). apply nth_In. exact Hk.
  Qed.

  (* (5) a column lives on the rows that carry its label: correct labelling *)
  Theorem svd_U_label i k : k < oKu o -> nth i qnl [] <> nth k (oQl o) [] -> oU o i k = 0.
  Proof.
    cbn [o svd_qn_pre oKu oU oQl]. fold pr rk dimf main cu. intros Hk Hne.
    change (@nil Z) with (fst d0) in Hne at 2. rewrite map_nth in Hne.
    unfold asm. apply (Fd_support R (lset qnl) (fun nl => bu (W nl))).
    intros Hin. apply idxs_In in Hin. destruct Hin as [_ Hin]. contradiction.
  Qed.

  Theorem svd_V_label j k : k < oKv o -> nth j qnr [] <> nth k (oQr o) [] -> oV o j k = 0.
  Proof.
    cbn [o svd_qn_pre oKv oV oQr]. fold pr rk dimf main cv. intros Hk Hne.
    assert (E : nth k (map (fun d : coldesc => rk (fst d)) cv) [] = rk (fst (nth k cv d0))).
    { etransitivity; [apply nth_indep; rewrite map_length; exact Hk
                     | exact (map_nth (fun d : coldesc => rk (fst d)) cv d0 k)]. }
    assert (Hne' : nth j qnr [] <> rk (fst (nth k cv d0))) by (intros X; apply Hne; etransitivity; [exact X | symmetry; exact E]).
    clear Hne.
    unfold asm. apply (Fd_support R (rset qnr rk) (fun nl => bv (W nl))).
    intros Hin. apply idxs_In in Hin. destruct Hin as [_ Hin]. apply Hne'. exact Hin.
  Qed.

  (* (6) shapes, (7) the additional columns have singular value zero *)
  Theorem svd_shapes :
    length (oQl o) = oKu o /\ length (oQr o) = oKv o /\ oKmain o <= oKu o /\ oKmain o <= oKv o /\
    (forall k, oKmain o <= k -> oSu o k = 0 /\ oSv o k = 0) /\ (forall k, oSu o k = oSv o k).
  Proof.
    cbn [o svd_qn_pre oKmain oQl oQr oKu oKv oSu oSv]. rewrite !map_length, !app_length.
    repeat split; try lia; destruct (Nat.ltb_spec k (length (cols_main (svd_present qnr qntot) order (svd_dim qnl qnr qntot)))); try reflexivity; lia.
  Qed.

  (* economic mode: no additional columns at all *)
  Lemma svd_econ_no_extra : full = false -> oKu o = oKmain o /\ oKv o = oKmain o.
  Proof.
    intros Hf. cbn [o svd_qn_pre oKmain oKu oKv]. rewrite !app_length. fold pr rk dimf main.
    assert (E : forall sel : bfac R -> nat, (forall nl, In nl keys -> sel (W nl) = dimf nl) ->
                cols_extra pr order dimf (fun nl => sel (W nl)) = []).
    { intros sel Hs. unfold cols_extra, cols_of. apply flat_map_nil. intros nl Hnl.
      rewrite (Hs nl Hnl), Nat.sub_diag. reflexivity. }
    rewrite (E (@ku R)), (E (@kv R)); cbn; try lia.
    - intros nl Hnl. destruct (sv_block nl Hnl) as (_ & _ & D & _). destruct (D Hf) as [_ D2]. exact D2.
    - intros nl Hnl. destruct (sv_block nl Hnl) as (_ & _ & D & _). destruct (D Hf) as [D1 _]. exact D1.
  Qed.
End SvdSound.

(* ================================================================== the economic-mode sort *)
Lemma perm_okb_Permutation p K : perm_okb p K = true -> Permutation (seq 0 K) p.
Proof.
  unfold perm_okb. rewrite andb_true_iff, Nat.eqb_eq, forallb_forall. intros [Hl Hin].
  apply NoDup_Permutation_bis.
  - apply seq_NoDup.
  - rewrite seq_length. lia.
  - intros k Hk. apply memn_In. apply Hin. exact Hk.
Qed.

Lemma perm_facts p K : perm_okb p K = true ->
  length p = K /\ NoDup p /\ forall k, k < K -> nth k p 0 < K.
Proof.
  intros H. pose proof (perm_okb_Permutation p K H) as P.
  unfold perm_okb in H. rewrite andb_true_iff, Nat.eqb_eq in H. destruct H as [Hl _].
  split; [exact Hl|]. split.
  - apply (Permutation_NoDup P). apply seq_NoDup.
  - intros k Hk. assert (Hin : In (nth k p 0) p) by (apply nth_In; lia).
    apply (Permutation_in _ (Permutation_sym P)) in Hin. apply in_seq in Hin. lia.
Qed.

Section Econ.
  Variable R : CRing.
  Add Ring RRecon : (rth R).
  Notation "0" := (r0 R).
  Infix "*" := (rmul R).

  Lemma permute_sum (p : list nat) K (g : nat -> R) : perm_okb p K = true ->
    sumn (length p) (fun k => g (nth k p O)) = sumn K g.
  Proof.
    intros H. rewrite (sumn_nth R p O g), sumn_seq. symmetry. apply sumL_perm.
    apply perm_okb_Permutation. exact H.
  Qed.

  Lemma permute_orth (p : list nat) K rows (M : mat R) : perm_okb p K = true ->
    orthonormal_cols R rows K M -> orthonormal_cols R rows (length p) (fun i k => M i (nth k p O)).
  Proof.
    intros H HO k k' Hk Hk'. destruct (perm_facts p K H) as (Hl & Hnd & Hlt).
    rewrite HO by (apply Hlt; lia). unfold delta.
    destruct (Nat.eqb_spec k k') as [->|Hne]; [rewrite Nat.eqb_refl; reflexivity|].
    destruct (Nat.eqb_spec (nth k p O) (nth k' p O)) as [E|_]; [|reflexivity].
    exfalso. apply Hne. apply (proj1 (NoDup_nth p O) Hnd); auto.
  Qed.

  Lemma permute_label (p : list nat) K (q : list label) k : perm_okb p K = true -> k < length p ->
    nth k (map (fun k => nth k q []) p) [] = nth (nth k p O) q [].
  Proof.
    intros H Hk. etransitivity; [apply nth_indep; rewrite map_length; exact Hk
                                | exact (map_nth (fun k => nth k q []) p O k)].
  Qed.

  (* a chain of adjacent comparisons orders all pairs *)
  Lemma desc_sorted_global (le : R -> R -> Prop) (le_trans : forall x y z, le x y -> le y z -> le x z)
        K (s : nat -> R) : desc_sorted R le K s -> forall k k', k < k' -> k' < K -> le (s k') (s k).
  Proof.
    intros H k k' Hlt. induction Hlt as [|k' Hlt IH]; intros HK.
    - apply H. exact HK.
    - apply le_trans with (y := s k'); [apply H; exact HK | apply IH; lia].
  Qed.
End Econ.

(* ================================================================== packaged statements for svd_qn (SVD) *)
Definition masked (R : CRing) (qnl qnr : list label) (qntot : label) (A : mat R) : mat R :=
  fun i j => if allowed qnl qnr qntot i j then A i j else r0 R.

Theorem svd_qn_full_sound (R : CRing) qnl qnr qntot order (A : mat R) (W : label -> bfac R) p :
  wf_labels qntot qnl -> wf_labels qntot qnr -> order_ok order qnl ->
  svd_witness_ok R true qnl qnr qntot order A W ->
  let o := svd_qn R true qnl qnr qntot order W p in
  let m := length qnl in let n := length qnr in
  (forall i j, i < m -> j < n ->
     sumn (oKmain o) (fun k => rmul R (rmul R (oU o i k) (oSu o k)) (oV o j k)) = masked R qnl qnr qntot A i j) /\
  orthonormal_cols R m (oKu o) (oU o) /\ orthonormal_cols R n (oKv o) (oV o) /\
  (forall k, k < oKmain o -> ladd (nth k (oQl o) []) (nth k (oQr o) []) = qntot) /\
  (forall i k, k < oKu o -> nth i qnl [] <> nth k (oQl o) [] -> oU o i k = r0 R) /\
  (forall j k, k < oKv o -> nth j qnr [] <> nth k (oQr o) [] -> oV o j k = r0 R) /\
  length (oQl o) = oKu o /\ length (oQr o) = oKv o /\ oKmain o <= oKu o /\ oKmain o <= oKv o /\
  (forall k, oKmain o <= k -> oSu o k = r0 R /\ oSv o k = r0 R).
Proof.
  intros Hwl Hwr Hord HW. cbn zeta. unfold svd_qn.
  pose proof (svd_shapes R qnl qnr qntot order W) as (S1 & S2 & S3 & S4 & S5 & _).
  split; [intros i j Hi Hj; eapply svd_product; eassumption|].
  split; [eapply svd_U_orth; eassumption|].
  split; [eapply svd_V_orth; eassumption|].
  split; [intros k; apply svd_labels_paired; assumption|].
  split; [intros i k; apply (svd_U_label R qnl qnr qntot order W i k)|].
  split; [intros j k; apply (svd_V_label R qnl qnr qntot order W j k)|].
  repeat split; auto; apply S5; assumption.
Qed.

Theorem svd_qn_econ_sound (R : CRing) qnl qnr qntot order (A : mat R) (W : label -> bfac R) p :
  wf_labels qntot qnl -> wf_labels qntot qnr -> order_ok order qnl ->
  svd_witness_ok R false qnl qnr qntot order A W ->
  perm_okb p (oKmain (svd_qn_pre R qnl qnr qntot order W)) = true ->
  let o := svd_qn R false qnl qnr qntot order W p in
  let m := length qnl in let n := length qnr in
  oKu o = oKmain o /\ oKv o = oKmain o /\ length (oQl o) = oKu o /\ length (oQr o) = oKv o /\
  (forall i j, i < m -> j < n ->
     sumn (oKmain o) (fun k => rmul R (rmul R (oU o i k) (oSu o k)) (oV o j k)) = masked R qnl qnr qntot A i j) /\
  orthonormal_cols R m (oKu o) (oU o) /\ orthonormal_cols R n (oKv o) (oV o) /\
  (forall k, k < oKmain o -> ladd (nth k (oQl o) []) (nth k (oQr o) []) = qntot) /\
  (forall i k, k < oKu o -> nth i qnl [] <> nth k (oQl o) [] -> oU o i k = r0 R) /\
  (forall j k, k < oKv o -> nth j qnr [] <> nth k (oQr o) [] -> oV o j k = r0 R) /\
  (forall k, oSu o k = oSv o k) /\
  (forall (le : R -> R -> Prop), (forall x y z, le x y -> le y z -> le x z) ->
     desc_sorted R le (oKmain o) (oSu o) -> forall k k', k < k' -> k' < oKmain o -> le (oSu o k') (oSu o k)).
Proof.
  intros Hwl Hwr Hord HW Hp. cbn zeta. unfold svd_qn.
  set (o := svd_qn_pre R qnl qnr qntot order W) in *.
  destruct (svd_econ_no_extra R qnl qnr qntot order A W false HW eq_refl) as [EU EV]. fold o in EU, EV.
  destruct (perm_facts p _ Hp) as (Hl & Hnd & Hlt).
  pose proof (svd_shapes R qnl qnr qntot order W) as (S1 & S2 & _ & _ & _ & S6). fold o in S1, S2, S6.
  cbn [permute oKu oKv oKmain oQl oQr oU oV oSu oSv]. rewrite !map_length.
  split; [reflexivity|]. split; [reflexivity|]. split; [reflexivity|]. split; [reflexivity|].
  split.
  { intros i j Hi Hj.
    rewrite (permute_sum R p (oKmain o) (fun k => rmul R (rmul R (oU o i k) (oSu o k)) (oV o j k)) Hp).
    eapply svd_product; eassumption. }
  split.
  { apply (permute_orth R p (oKmain o)); [exact Hp|]. rewrite <- EU.
    eapply svd_U_orth; eassumption. }
  split.
  { apply (permute_orth R p (oKmain o)); [exact Hp|]. rewrite <- EV.
    eapply svd_V_orth; eassumption. }
  split.
  { intros k Hk. rewrite !(permute_label p (oKmain o)) by assumption.
    apply svd_labels_paired; [assumption | assumption |]. apply Hlt. lia. }
  split.
  { intros i k Hk. rewrite (permute_label p (oKmain o)) by assumption.
    apply (svd_U_label R qnl qnr qntot order W). fold o. rewrite EU. apply Hlt. lia. }
  split.
  { intros j k Hk. rewrite (permute_label p (oKmain o)) by assumption.
    apply (svd_V_label R qnl qnr qntot order W). fold o. rewrite EV. apply Hlt. lia. }
  split; [intros k; apply S6|].
  intros le le_trans Hs k k'. apply (desc_sorted_global R le le_trans (length p) _ Hs).
Qed.

(* ================================================================== svd_qn with QR=True (qr for system L, rq for system R) *)
Lemma mask_allowed qnl qnr qntot order :
  wf_labels qntot qnl -> wf_labels qntot qnr -> order_ok order qnl ->
  forall i j, i < length qnl -> j < length qnr ->
  mem_label (nth i qnl []) (@bkeys (svd_present qnr qntot) order)
    && label_eqb (nth j qnr []) (svd_rkey qntot (nth i qnl [])) = allowed qnl qnr qntot i j.
Proof.
  intros Hwl Hwr Hord i j Hi Hj. destruct (allowed qnl qnr qntot i j) eqn:Hal.
  - pose proof (key_of_allowed qnl qnr qntot order Hwl Hwr Hord i j Hi Hj Hal) as Hk.
    apply mem_label_In in Hk. rewrite Hk.
    apply (allowed_iff qnl qnr qntot Hwl Hwr i j Hi Hj) in Hal. unfold svd_rkey. rewrite <- Hal, label_eqb_refl.
    reflexivity.
  - destruct (label_eqb (nth j qnr []) (svd_rkey qntot (nth i qnl []))) eqn:E; [|rewrite andb_false_r; reflexivity].
    apply label_eqb_eq in E. apply (allowed_iff qnl qnr qntot Hwl Hwr i j Hi Hj) in E. congruence.
Qed.

Section QrSound.
  Variable R : CRing.
  Add Ring RRqr : (rth R).
  Notation "0" := (r0 R).
  Notation "1" := (r1 R).
  Infix "+" := (radd R).
  Infix "*" := (rmul R).

  Variables (qnl qnr : list label) (qntot : label) (order : list label).
  Variable A : mat R.
  Variable W : label -> bfac R.
  Variable sy : side.
  Hypothesis Hwl : wf_labels qntot qnl.
  Hypothesis Hwr : wf_labels qntot qnr.
  Hypothesis Hord : order_ok order qnl.
  Hypothesis HW : qr_witness_ok R sy qnl qnr qntot order A W.

  Let pr := svd_present qnr qntot.
  Let rk := svd_rkey qntot.
  Let dimf := svd_dim qnl qnr qntot.
  Let keys := @bkeys pr order.
  Let main := cols_main pr order dimf.
  Let cu := main ++ cols_extra pr order dimf (fun nl => ku (W nl)).
  Let cv := main ++ cols_extra pr order dimf (fun nl => kv (W nl)).
  Let o := svd_qn_pre R qnl qnr qntot order W.
  Let m := length qnl.
  Let n := length qnr.

  Lemma qr_keys_nd : NoDup keys.
  Proof. apply (keys_NoDup qnl qnr qntot order Hord). Qed.

  Lemma qr_key_len nl : In nl keys -> length nl = length qntot.
  Proof.
    intros H. unfold keys, bkeys in H. apply filter_In in H. destruct H as [H _].
    apply Hord in H. unfold wf_labels in Hwl. rewrite Forall_forall in Hwl. auto.
  Qed.

  Lemma qr_block nl : In nl keys ->
    qr_block_ok R sy (gather R n A (lset qnl nl) (rset qnr rk nl))
                (length (lset qnl nl)) (length (rset qnr rk nl)) (W nl).
  Proof. intros H. apply HW. exact H. Qed.

  Lemma qr_cv_cu : cv = cu.
  Proof.
    unfold cv, cu. f_equal. unfold cols_extra, cols_of. apply flat_map_ext_in. intros nl Hnl.
    destruct (qr_block nl Hnl) as (_ & E & _). rewrite E. reflexivity.
  Qed.

  Lemma qr_cu_valid d : In d cu -> In (fst d) keys /\ snd d < ku (W (fst d)).
  Proof.
    unfold cu. rewrite in_app_iff. destruct d as [nl c]. cbn [fst snd].
    intros [H|H]; apply cols_of_In in H; destruct H as [H1 H2]; apply in_seq in H2;
      (split; [exact H1|]); destruct (qr_block nl H1) as (D1 & _); unfold dimf, svd_dim in H2; fold rk in H2; lia.
  Qed.

  Lemma sumL_add {X} (l : list X) (f g : X -> R) : sumL l f + sumL l g = sumL l (fun x => f x + g x).
  Proof. induction l as [|x t IH]; cbn; [ring | rewrite <- IH; ring]. Qed.

  (* Q.R over ALL columns (first the [:dim] parts of every block, then the [dim:] parts) restores mask o A *)
  Theorem qr_product i j : i < m -> j < n ->
    sumn (oKu o) (fun k => oU o i k * oV o j k) = masked R qnl qnr qntot A i j.
  Proof.
    intros Hi Hj. cbn [o svd_qn_pre oKu oU oV]. fold pr rk dimf main cu cv. rewrite qr_cv_cu.
    set (g := fun d : coldesc => Ud R qnl W d i * 1 * Vd R qnr rk W d j).
    rewrite (sumn_ext R (length cu) _ (fun k => g (nth k cu d0))) by (intros k Hk; unfold asm, g; ring).
    rewrite (sumn_nth R cu d0 g). unfold cu. rewrite sumL_app. unfold main, cols_main, cols_extra, cols_of.
    rewrite !sumL_flat_map, sumL_add. fold keys.
    rewrite (sumL_ext R keys _ (fun nl => sumL (map (pair nl) (seq 0 (ku (W nl)))) g)).
    2:{ intros nl Hnl. rewrite <- sumL_app, <- map_app. destruct (qr_block nl Hnl) as (D1 & _).
        unfold dimf, svd_dim. fold rk.
        set (d := Nat.min (length (lset qnl nl)) (length (rset qnr rk nl))) in *.
        replace (ku (W nl)) with (d + (ku (W nl) - d))%nat at 2 by lia. rewrite seq_app. reflexivity. }
    rewrite <- sumL_flat_map.
    etransitivity.
    { apply (product_mask R qnl qnr rk pr order W A qr_keys_nd (fun nl => seq 0 (ku (W nl))) (fun _ => 1) i j Hi Hj).
      intros nl a b Hnl Ha Hb. destruct (qr_block nl Hnl) as (_ & _ & P & _).
      specialize (P a b Ha Hb). rewrite sumn_seq in P.
      rewrite (sumL_ext R _ _ (fun c => bu (W nl) a c * bv (W nl) b c)) by (intros; ring).
      rewrite P. apply gather_entry.
      assert (Hin : In (nth b (rset qnr rk nl) O) (rset qnr rk nl)) by (apply nth_In; exact Hb).
      apply idxs_In in Hin. unfold n. tauto. }
    unfold masked. unfold pr, rk. rewrite mask_allowed by assumption. reflexivity.
  Qed.

  Theorem qr_U_orth : sy = SysL -> orthonormal_cols R m (oKu o) (oU o).
  Proof.
    intros Hs. cbn [o svd_qn_pre oKu oU]. fold pr rk dimf main cu.
    apply (asm_orth R m keys (lset qnl) (fun nl => bu (W nl)) (fun nl => ku (W nl))).
    - intros nl. apply idxs_NoDup.
    - intros nl x H. apply idxs_In in H. unfold m. tauto.
    - intros nl nl' i _ _ H1 H2. apply idxs_In in H1. apply idxs_In in H2. destruct H1, H2. congruence.
    - intros nl Hnl. destruct (qr_block nl Hnl) as (_ & _ & _ & OU). rewrite Hs in OU. exact OU.
    - apply cols_main_extra_NoDup. exact qr_keys_nd.
    - exact qr_cu_valid.
  Qed.

  Theorem qr_V_orth : sy = SysR -> orthonormal_cols R n (oKv o) (oV o).
  Proof.
    intros Hs. cbn [o svd_qn_pre oKv oV]. fold pr rk dimf main cv.
    apply (asm_orth R n keys (rset qnr rk) (fun nl => bv (W nl)) (fun nl => kv (W nl))).
    - intros nl. apply idxs_NoDup.
    - intros nl x H. apply idxs_In in H. unfold n. tauto.
    - intros nl nl' i K1 K2 H1 H2. apply idxs_In in H1. apply idxs_In in H2. destruct H1 as [_ H1], H2 as [_ H2].
      apply (lsub_inj qntot); [apply qr_key_len; exact K1 | apply qr_key_len; exact K2|].
      unfold rk, svd_rkey in *. congruence.
    - intros nl Hnl. destruct (qr_block nl Hnl) as (_ & _ & _ & OV). rewrite Hs in OV. exact OV.
    - apply cols_main_extra_NoDup. exact qr_keys_nd.
    - rewrite qr_cv_cu. intros d Hd. destruct (qr_cu_valid d Hd) as [V1 V2]. split; [exact V1|].
      destruct (qr_block _ V1) as (_ & E & _). rewrite E. exact V2.
  Qed.

  (* with QR every column k of U is paired with column k of V: the labels of ALL columns sum to qntot *)
  Theorem qr_labels_paired k : k < oKu o -> oKv o = oKu o /\ ladd (nth k (oQl o) []) (nth k (oQr o) []) = qntot.
  Proof.
    cbn [o svd_qn_pre oKu oKv oQl oQr]. fold pr rk dimf main cu cv. rewrite qr_cv_cu. intros Hk.
    split; [reflexivity|].
    assert (E : nth k (map (fun d : coldesc => rk (fst d)) cu) [] = rk (fst (nth k cu d0))).
    { etransitivity; [apply nth_indep; rewrite map_length; exact Hk
                     | exact (map_nth (fun d : coldesc => rk (fst d)) cu d0 k)]. }
    assert (E2 : nth k (map fst cu) [] = fst (nth k cu d0)) by exact (map_nth fst cu d0 k).
    etransitivity; [apply (f_equal (ladd _)); exact E|]. rewrite E2.
    apply ladd_lsub. apply qr_key_len. apply (qr_cu_valid (nth k cu d0)). apply nth_In. exact Hk.
  Qed.
End QrSound.

(* ================================================================== eigh_qn *)
Section EighSound.
  Variable R : CRing.
  Add Ring RReigh : (rth R).
  Notation "0" := (r0 R).
  Notation "1" := (r1 R).
  Infix "+" := (radd R).
  Infix "*" := (rmul R).

  Variables (qn comp : list label) (qntot : label) (order : list label).
  Variable A : mat R.
  Variable W : label -> bfac R.
  Hypothesis Hord : order_ok order qn.
  Hypothesis HW : eigh_witness_ok R qn comp qntot order A W.

  Let pr := eigh_present comp qntot.
  Let keys := @bkeys pr order.
  Let dimf := fun nl => length (lset qn nl).
  Let main := cols_main pr order dimf.
  Let o := eigh_qn R qn comp qntot order W.
  Let m := length qn.
  Let W' := fun nl => {| bu := bu (W nl); bs := bs (W nl); bv := fun b c => rcj R (bu (W nl) b c);
                         ku := ku (W nl); kv := ku (W nl) |}.

  Lemma eg_keys_nd : NoDup keys.
  Proof. unfold keys, bkeys. apply NoDup_filter. apply Hord. Qed.

  Lemma eg_main_valid d : In d main -> In (fst d) keys /\ snd d < dimf (fst d).
  Proof.
    destruct d as [nl c]. intros H. apply cols_of_In in H. destruct H as [H1 H2].
    apply in_seq in H2. cbn. split; [exact H1 | lia].
  Qed.

  (* U diag(lambda) U^dagger restores the blocks of the density matrix whose sector is present *)
  Theorem eigh_product i j : i < m -> j < m ->
    sumn (eK o) (fun k => eU o i k * eL o k * rcj R (eU o j k))
    = if pr (nth i qn []) && label_eqb (nth j qn []) (nth i qn []) then A i j else 0.
  Proof.
    intros Hi Hj. cbn [o eigh_qn eK eU eL]. fold pr dimf main.
    set (g := fun d : coldesc => Ud R qn W' d i * Sd R W' d * Vd R qn (fun x => x) W' d j).
    rewrite (sumn_ext R (length main) _ (fun k => g (nth k main d0))).
    2:{ intros k Hk. unfold asm, g, Ud, Vd, Sd, scatter, rset, lset. cbn [W' bu bs bv].
        destruct (pos j (idxs qn (fst (nth k main d0)))); [reflexivity | rewrite rcj_0; reflexivity]. }
    rewrite (sumn_nth R main d0 g). unfold g, main, cols_main.
    rewrite (product_mask R qn qn (fun x => x) pr order W' A eg_keys_nd (fun nl => seq 0 (dimf nl)) (Sd R W') i j Hi Hj).
    - fold keys. replace (mem_label (nth i qn []) keys) with (pr (nth i qn [])); [reflexivity|].
      destruct (pr (nth i qn [])) eqn:E; symmetry.
      + apply mem_label_In. unfold keys, bkeys. apply filter_In. split; [|exact E].
        apply Hord. apply nth_In. exact Hi.
      + destruct (mem_label (nth i qn []) keys) eqn:E2; [|reflexivity].
        apply mem_label_In in E2. unfold keys, bkeys in E2. apply filter_In in E2. destruct E2. congruence.
    - intros nl a b Hnl Ha Hb. destruct (HW nl Hnl) as (_ & P & _).
      specialize (P a b Ha Hb). rewrite sumn_seq in P. unfold Sd. cbn [fst snd W' bu bs bv].
      unfold dimf. rewrite P. apply gather_entry.
      assert (Hin : In (nth b (lset qn nl) O) (lset qn nl)) by (apply nth_In; exact Hb).
      apply idxs_In in Hin. tauto.
  Qed.

  Theorem eigh_orth : orthonormal_cols R m (eK o) (eU o).
  Proof.
    cbn [o eigh_qn eK eU]. fold pr dimf main.
    apply (asm_orth R m keys (lset qn) (fun nl => bu (W nl)) dimf).
    - intros nl. apply idxs_NoDup.
    - intros nl x H. apply idxs_In in H. unfold m. tauto.
    - intros nl nl' i _ _ H1 H2. apply idxs_In in H1. apply idxs_In in H2. destruct H1, H2. congruence.
    - intros nl Hnl. destruct (HW nl Hnl) as (_ & _ & OU). exact OU.
    - apply cols_of_NoDup; [exact eg_keys_nd | intros; apply seq_NoDup].
    - exact eg_main_valid.
  Qed.

  Theorem eigh_label i k : k < eK o -> nth i qn [] <> nth k (eQ o) [] -> eU o i k = 0.
  Proof.
    cbn [o eigh_qn eK eU eQ]. fold pr dimf main. intros Hk Hne.
    change (@nil Z) with (fst d0) in Hne at 2. rewrite map_nth in Hne.
    unfold asm. apply (Fd_support R (lset qn) (fun nl => bu (W nl))).
    intros Hin. apply idxs_In in Hin. destruct Hin as [_ Hin]. contradiction.
  Qed.

  Theorem eigh_shape : length (eQ o) = eK o.
  Proof. cbn [o eigh_qn eK eQ]. apply map_length. Qed.
End EighSound.

(* ================================================================== a concrete instance (non-vacuity of the hypotheses)
   4 x 4 integer matrix, one-component labels, qntot = 1.  Sector nl=1: rows {1,3} x cols {1} (2 x 1 block),
   sector nl=0: rows {0,2} x cols {0,2,3} (2 x 3 block).  Entries (0,1) and (1,0) are symmetry-forbidden.
   Integer SVD factors (signed permutations) make the contract checkable exactly over Z. *)
Module Ex.
  Definition qnl : list label := [[0%Z]; [1%Z]; [0%Z]; [1%Z]].
  Definition qnr : list label := [[1%Z]; [0%Z]; [1%Z]; [1%Z]].
  Definition qntot : label := [1%Z].
  Definition order : list label := [[1%Z]; [0%Z]].
  Definition A : mat ZRing := fun i j =>
    match i, j with
    | 0, 2 => 3%Z | 2, 0 => 2%Z | 1, 1 => 5%Z | 0, 1 => 7%Z | 1, 0 => 9%Z | _, _ => 0%Z
    end.
  Definition idm : mat ZRing := fun a c => if Nat.eqb a c then 1%Z else 0%Z.
  Definition swp : mat ZRing := fun a c => if Nat.eqb (a + c) 1 then 1%Z else 0%Z.
  (* full_matrices=True: U is (mb x mb), V is (nb x nb) *)
  Definition Wfull (nl : label) : bfac ZRing :=
    if label_eqb nl [0%Z]
    then {| bu := swp; bs := fun c => if Nat.eqb c 0 then 2%Z else 3%Z; bv := idm; ku := 2; kv := 3 |}
    else {| bu := idm; bs := fun _ => 5%Z; bv := idm; ku := 2; kv := 1 |}.
  (* full_matrices=False *)
  Definition Wecon (nl : label) : bfac ZRing :=
    if label_eqb nl [0%Z]
    then {| bu := swp; bs := fun c => if Nat.eqb c 0 then 2%Z else 3%Z; bv := idm; ku := 2; kv := 2 |}
    else {| bu := idm; bs := fun _ => 5%Z; bv := idm; ku := 1; kv := 1 |}.
  Definition p : list nat := [0; 2; 1].        (* argsort(su)[::-1] of su = [5; 2; 3] *)

  Ltac cases_lt :=
    repeat match goal with
    | H : S _ <= 0 |- _ => exfalso; inversion H
    | H : S ?a <= S ?n |- _ => is_var a; destruct a as [|a]; [clear H | apply le_S_n in H]
    end.
  Ltac small :=
    intros;
    repeat match goal with H : _ < _ |- _ => vm_compute in H end;
    cases_lt; vm_compute; reflexivity.

  Lemma wf : wf_labels qntot qnl /\ wf_labels qntot qnr /\ order_ok order qnl.
  Proof.
    split; [apply wf_labelsb_ok; reflexivity|]. split; [apply wf_labelsb_ok; reflexivity|].
    apply order_okb_ok. reflexivity.
  Qed.

  Lemma block_ok (full : bool) (W : label -> bfac ZRing) :
    (forall nl, W nl = if full then Wfull nl else Wecon nl) ->
    svd_witness_ok ZRing full qnl qnr qntot order A W.
  Proof.
    intros HW nl H. vm_compute in H. rewrite HW.
    destruct H as [<-|[<-|[]]]; destruct full; unfold svd_block_ok; cbv zeta;
      (split; [vm_compute; lia|]); (split; [vm_compute; lia|]);
      (split; [try discriminate; intros _; vm_compute; split; reflexivity|]);
      (split; [small|]); split; unfold orthonormal_cols; small.
  Qed.

  Lemma full_ok : svd_witness_ok ZRing true qnl qnr qntot order A Wfull.
  Proof. apply block_ok. reflexivity. Qed.
  Lemma econ_ok : svd_witness_ok ZRing false qnl qnr qntot order A Wecon.
  Proof. apply block_ok. reflexivity. Qed.

  (* full mode: three paired columns; U and V have one additional column each, both labelled 1:
     they are NOT paired (1 + 1 <> qntot) *)
  Lemma full_shape :
    let o := svd_qn ZRing true qnl qnr qntot order Wfull [] in
    oKmain o = 3 /\ oKu o = 4 /\ oKv o = 4 /\ oQl o = [[1]; [0]; [0]; [1]]%Z /\ oQr o = [[0]; [1]; [1]; [1]]%Z /\
    ladd (nth 3 (oQl o) []) (nth 3 (oQr o) []) <> qntot.
  Proof. vm_compute. repeat split; try reflexivity. discriminate. Qed.

  Lemma econ_shape :
    let o := svd_qn ZRing false qnl qnr qntot order Wecon p in
    perm_okb p (oKmain (svd_qn_pre ZRing qnl qnr qntot order Wecon)) = true /\
    map (oSu o) [0; 1; 2] = [5; 3; 2]%Z /\ desc_sorted ZRing Z.le (oKmain o) (oSu o) /\
    oQl o = [[1]; [0]; [0]]%Z /\ oQr o = [[0]; [1]; [1]]%Z.
  Proof.
    vm_compute. repeat split; try reflexivity.
    intros k Hk. do 3 (destruct k as [|k]; [vm_compute; try discriminate; lia|]). lia.
  Qed.
End Ex.

(* ================================================================== packaged statements: QR / RQ and eigh *)
Theorem qr_qn_sound (R : CRing) qnl qnr qntot order (A : mat R) (W : label -> bfac R) sy :
  wf_labels qntot qnl -> wf_labels qntot qnr -> order_ok order qnl ->
  qr_witness_ok R sy qnl qnr qntot order A W ->
  let o := svd_qn_pre R qnl qnr qntot order W in
  let m := length qnl in let n := length qnr in
  oKv o = oKu o /\ length (oQl o) = oKu o /\ length (oQr o) = oKv o /\
  (forall i j, i < m -> j < n -> sumn (oKu o) (fun k => rmul R (oU o i k) (oV o j k)) = masked R qnl qnr qntot A i j) /\
  (sy = SysL -> orthonormal_cols R m (oKu o) (oU o)) /\
  (sy = SysR -> orthonormal_cols R n (oKv o) (oV o)) /\
  (forall k, k < oKu o -> ladd (nth k (oQl o) []) (nth k (oQr o) []) = qntot) /\
  (forall i k, k < oKu o -> nth i qnl [] <> nth k (oQl o) [] -> oU o i k = r0 R) /\
  (forall j k, k < oKv o -> nth j qnr [] <> nth k (oQr o) [] -> oV o j k = r0 R).
Proof.
  intros Hwl Hwr Hord HW. cbn zeta.
  pose proof (svd_shapes R qnl qnr qntot order W) as (S1 & S2 & _).
  assert (EK : oKv (svd_qn_pre R qnl qnr qntot order W) = oKu (svd_qn_pre R qnl qnr qntot order W)).
  { cbn [svd_qn_pre oKu oKv]. rewrite (qr_cv_cu R qnl qnr qntot order A W sy HW). reflexivity. }
  split; [exact EK|]. split; [exact S1|]. split; [exact S2|].
  split; [intros i j Hi Hj; eapply qr_product; eassumption|].
  split; [intros Hs; eapply qr_U_orth; eassumption|].
  split; [intros Hs; eapply qr_V_orth; eassumption|].
  split; [intros k Hk; eapply qr_labels_paired; eassumption|].
  split; [intros i k; apply svd_U_label | intros j k; apply svd_V_label].
Qed.

Theorem eigh_qn_sound (R : CRing) qn comp qntot order (A : mat R) (W : label -> bfac R) :
  order_ok order qn -> eigh_witness_ok R qn comp qntot order A W ->
  let o := eigh_qn R qn comp qntot order W in
  let m := length qn in
  length (eQ o) = eK o /\
  (forall i j, i < m -> j < m ->
     sumn (eK o) (fun k => rmul R (rmul R (eU o i k) (eL o k)) (rcj R (eU o j k)))
     = if eigh_present comp qntot (nth i qn []) && label_eqb (nth j qn []) (nth i qn []) then A i j else r0 R) /\
  orthonormal_cols R m (eK o) (eU o) /\
  (forall i k, k < eK o -> nth i qn [] <> nth k (eQ o) [] -> eU o i k = r0 R).
Proof.
  intros Hord HW. cbn zeta.
  split; [apply eigh_shape|].
  split; [intros i j Hi Hj; eapply eigh_product; eassumption|].
  split; [eapply eigh_orth; eassumption|].
  intros i k. apply eigh_label.
Qed.

(* ================================================================== eigh_qn: the returned values  sqrt(max(lambda, 0)) *)
Section EighPost.
  Variable R : CRing.
  Add Ring RRpost : (rth R).
  Notation "0" := (r0 R).
  Infix "*" := (rmul R).

  Variable neg : R -> bool.                 (* x < 0 *)
  Variable sqrtw : R -> R.                  (* np.sqrt *)
  Hypothesis neg_0 : neg 0 = false.
  Hypothesis sqrt_ok : forall x, neg x = false -> sqrtw x * sqrtw x = x.

  Definition clip (x : R) : R := if neg x then 0 else x.

  Lemma eigh_post_sq x : eigh_post R ref_shape neg sqrtw x * eigh_post R ref_shape neg sqrtw x = clip x.
  Proof.
    unfold eigh_post, clip. cbn [ref_shape sh_eigh_clip_negative sh_eigh_sqrt].
    destruct (neg x) eqn:E; apply sqrt_ok; assumption.
  Qed.

  (* what is guaranteed about (U, s): s_k^2 is the eigenvalue clipped at 0; U diag(s^2) U^dagger is the masked density
     matrix with the negative eigenvalues of its blocks removed, and the masked density matrix itself when no block
     eigenvalue is negative (the clipping only absorbs round-off of a positive semi-definite input) *)
  Theorem eigh_qn_values_sound qn comp qntot order (A : mat R) (W : label -> bfac R) :
    order_ok order qn -> eigh_witness_ok R qn comp qntot order A W ->
    let o := eigh_qn R qn comp qntot order W in
    let s := eS R ref_shape neg sqrtw o in
    let m := length qn in
    (forall k, s k * s k = clip (eL o k)) /\
    (forall i j, sumn (eK o) (fun k => eU o i k * (s k * s k) * rcj R (eU o j k))
                 = sumn (eK o) (fun k => eU o i k * clip (eL o k) * rcj R (eU o j k))) /\
    ((forall k, k < eK o -> neg (eL o k) = false) ->
     forall i j, i < m -> j < m ->
       sumn (eK o) (fun k => eU o i k * (s k * s k) * rcj R (eU o j k))
       = if eigh_present comp qntot (nth i qn []) && label_eqb (nth j qn []) (nth i qn []) then A i j else 0).
  Proof.
    intros Hord HW. cbn zeta.
    assert (H1 : forall k, eS R ref_shape neg sqrtw (eigh_qn R qn comp qntot order W) k
                           * eS R ref_shape neg sqrtw (eigh_qn R qn comp qntot order W) k
                           = clip (eL (eigh_qn R qn comp qntot order W) k)).
    { intros k. unfold eS. apply eigh_post_sq. }
    split; [exact H1|]. split.
    - intros i j. apply sumn_ext. intros k _. rewrite H1. reflexivity.
    - intros Hpos i j Hi Hj.
      rewrite <- (eigh_product R qn comp qntot order A W Hord HW i j Hi Hj).
      apply sumn_ext. intros k Hk. rewrite H1. unfold clip. rewrite (Hpos k Hk). reflexivity.
  Qed.
End EighPost.

(* ================================================================== the model instantiated with the source's shape
   Gen.SvdQnShape.src_shape is regenerated from renormalizer/mps/svd_qn.py on every run.  Everything above is proved
   for ref_shape; shape_ok transports it to the generated constants.  If an edit of the source changes one of the
   extracted facts (e.g. eigh_qn no longer skipping sectors without partner), shape_ok stops compiling and with it
   every theorem below. *)
Lemma shape_ok : src_shape = ref_shape.
Proof. reflexivity. Qed.

Definition nblocks_s (sh : shape) (qnl qnr : list label) (qntot : label) (order : list label) (i j : nat) : nat :=
  length (filter (fun nl => memn i (lset qnl nl) && memn j (rset qnr (svd_rkey qntot) nl))
                 (bkeys (svd_present_s sh qnr qntot) order)).

Theorem block_partition_src :
  forall qnl qnr qntot order,
  wf_labels qntot qnl -> wf_labels qntot qnr -> order_ok order qnl ->
  forall i j, i < length qnl -> j < length qnr ->
  nblocks_s src_shape qnl qnr qntot order i j = if allowed qnl qnr qntot i j then 1 else 0.
Proof. rewrite shape_ok. exact block_partition_count. Qed.

Theorem svd_qn_full_sound_src (R : CRing) qnl qnr qntot order (A : mat R) (W : label -> bfac R) p :
  wf_labels qntot qnl -> wf_labels qntot qnr -> order_ok order qnl ->
  svd_witness_ok_s R src_shape true qnl qnr qntot order A W ->
  let o := svd_qn_s R src_shape true qnl qnr qntot order W p in
  let m := length qnl in let n := length qnr in
  (forall i j, i < m -> j < n ->
     sumn (oKmain o) (fun k => rmul R (rmul R (oU o i k) (oSu o k)) (oV o j k)) = masked R qnl qnr qntot A i j) /\
  orthonormal_cols R m (oKu o) (oU o) /\ orthonormal_cols R n (oKv o) (oV o) /\
  (forall k, k < oKmain o -> ladd (nth k (oQl o) []) (nth k (oQr o) []) = qntot) /\
  (forall i k, k < oKu o -> nth i qnl [] <> nth k (oQl o) [] -> oU o i k = r0 R) /\
  (forall j k, k < oKv o -> nth j qnr [] <> nth k (oQr o) [] -> oV o j k = r0 R) /\
  length (oQl o) = oKu o /\ length (oQr o) = oKv o /\ oKmain o <= oKu o /\ oKmain o <= oKv o /\
  (forall k, oKmain o <= k -> oSu o k = r0 R /\ oSv o k = r0 R).
Proof. rewrite shape_ok. exact (svd_qn_full_sound R qnl qnr qntot order A W p). Qed.

Theorem svd_qn_econ_sound_src (R : CRing) qnl qnr qntot order (A : mat R) (W : label -> bfac R) p :
  wf_labels qntot qnl -> wf_labels qntot qnr -> order_ok order qnl ->
  svd_witness_ok_s R src_shape false qnl qnr qntot order A W ->
  perm_okb p (oKmain (svd_qn_pre_s R src_shape qnl qnr qntot order W)) = true ->
  let o := svd_qn_s R src_shape false qnl qnr qntot order W p in
  let m := length qnl in let n := length qnr in
  oKu o = oKmain o /\ oKv o = oKmain o /\ length (oQl o) = oKu o /\ length (oQr o) = oKv o /\
  (forall i j, i < m -> j < n ->
     sumn (oKmain o) (fun k => rmul R (rmul R (oU o i k) (oSu o k)) (oV o j k)) = masked R qnl qnr qntot A i j) /\
  orthonormal_cols R m (oKu o) (oU o) /\ orthonormal_cols R n (oKv o) (oV o) /\
  (forall k, k < oKmain o -> ladd (nth k (oQl o) []) (nth k (oQr o) []) = qntot) /\
  (forall i k, k < oKu o -> nth i qnl [] <> nth k (oQl o) [] -> oU o i k = r0 R) /\
  (forall j k, k < oKv o -> nth j qnr [] <> nth k (oQr o) [] -> oV o j k = r0 R) /\
  (forall k, oSu o k = oSv o k) /\
  (forall (le : R -> R -> Prop), (forall x y z, le x y -> le y z -> le x z) ->
     desc_sorted R le (oKmain o) (oSu o) -> forall k k', k < k' -> k' < oKmain o -> le (oSu o k') (oSu o k)).
Proof. rewrite shape_ok. exact (svd_qn_econ_sound R qnl qnr qntot order A W p). Qed.

Theorem qr_qn_sound_src (R : CRing) qnl qnr qntot order (A : mat R) (W : label -> bfac R) sy :
  wf_labels qntot qnl -> wf_labels qntot qnr -> order_ok order qnl ->
  qr_witness_ok_s R src_shape sy qnl qnr qntot order A W ->
  let o := svd_qn_pre_s R src_shape qnl qnr qntot order W in
  let m := length qnl in let n := length qnr in
  oKv o = oKu o /\ length (oQl o) = oKu o /\ length (oQr o) = oKv o /\
  (forall i j, i < m -> j < n -> sumn (oKu o) (fun k => rmul R (oU o i k) (oV o j k)) = masked R qnl qnr qntot A i j) /\
  (sy = SysL -> orthonormal_cols R m (oKu o) (oU o)) /\
  (sy = SysR -> orthonormal_cols R n (oKv o) (oV o)) /\
  (forall k, k < oKu o -> ladd (nth k (oQl o) []) (nth k (oQr o) []) = qntot) /\
  (forall i k, k < oKu o -> nth i qnl [] <> nth k (oQl o) [] -> oU o i k = r0 R) /\
  (forall j k, k < oKv o -> nth j qnr [] <> nth k (oQr o) [] -> oV o j k = r0 R).
Proof. rewrite shape_ok. exact (qr_qn_sound R qnl qnr qntot order A W sy). Qed.

Theorem eigh_qn_sound_src (R : CRing) qn comp qntot order (A : mat R) (W : label -> bfac R) :
  order_ok order qn -> eigh_witness_ok_s R src_shape qn comp qntot order A W ->
  let o := eigh_qn_s R src_shape qn comp qntot order W in
  let m := length qn in
  length (eQ o) = eK o /\
  (forall i j, i < m -> j < m ->
     sumn (eK o) (fun k => rmul R (rmul R (eU o i k) (eL o k)) (rcj R (eU o j k)))
     = if eigh_present_s src_shape comp qntot (nth i qn []) && label_eqb (nth j qn []) (nth i qn []) then A i j else r0 R) /\
  orthonormal_cols R m (eK o) (eU o) /\
  (forall i k, k < eK o -> nth i qn [] <> nth k (eQ o) [] -> eU o i k = r0 R).
Proof. rewrite shape_ok. exact (eigh_qn_sound R qn comp qntot order A W). Qed.

Theorem eigh_qn_values_sound_src (R : CRing) (neg : R -> bool) (sqrtw : R -> R) :
  neg (r0 R) = false -> (forall x, neg x = false -> rmul R (sqrtw x) (sqrtw x) = x) ->
  forall qn comp qntot order (A : mat R) (W : label -> bfac R),
  order_ok order qn -> eigh_witness_ok_s R src_shape qn comp qntot order A W ->
  let o := eigh_qn_s R src_shape qn comp qntot order W in
  let s := eS R src_shape neg sqrtw o in
  let m := length qn in
  (forall k, rmul R (s k) (s k) = clip R neg (eL o k)) /\
  (forall i j, sumn (eK o) (fun k => rmul R (rmul R (eU o i k) (rmul R (s k) (s k))) (rcj R (eU o j k)))
               = sumn (eK o) (fun k => rmul R (rmul R (eU o i k) (clip R neg (eL o k))) (rcj R (eU o j k)))) /\
  ((forall k, k < eK o -> neg (eL o k) = false) ->
   forall i j, i < m -> j < m ->
     sumn (eK o) (fun k => rmul R (rmul R (eU o i k) (rmul R (s k) (s k))) (rcj R (eU o j k)))
     = if eigh_present_s src_shape comp qntot (nth i qn []) && label_eqb (nth j qn []) (nth i qn []) then A i j else r0 R).
Proof. rewrite shape_ok. intros H0 Hs. exact (eigh_qn_values_sound R neg sqrtw H0 Hs). Qed.
