(* Third wave for C06 on trees: label part of the gauge moves (push_cano_to_parent / push_cano_to_child), of
   update_2site, of masked one-site updates; lifting from a sub-tree to the whole tree; masks; components. *)
From Coq Require Import Ring List Arith Lia Bool ZArith.
Import ListNotations.
From RV Require Import Base.CRing Base.BigSum Model.Chain Proofs.ChainProofs Model.Ttns Proofs.TtnsProofs
  Model.Mp Model.Qn Proofs.QnProofs Model.QnMask Proofs.QnMaskProofs Model.TtnsQn Proofs.TtnsQnProofs.
Local Open Scope Z_scope.

(* ------------------------------------------------------------------ list helpers *)
Lemma sumlab_replace : forall i gs ks g0 g', nth_error gs i = Some g0 -> length ks = length gs ->
  sumlab (replace_nth i g' gs) ks = sumlab gs ks - nth (nth i ks O) (qlab g0) 0 + nth (nth i ks O) (qlab g') 0.
Proof.
  induction i as [|i IH]; intros [|g gs] [|k ks] g0 g' Hn Hl; try discriminate.
  - cbn in Hn. injection Hn as ->. cbn [replace_nth sumlab nth]. lia.
  - cbn [nth_error] in Hn. cbn [replace_nth sumlab nth]. rewrite (IH gs ks g0 g' Hn) by (cbn in Hl; lia). lia.
Qed.

Lemma sumlab_set_nth : forall i gs ks g0 a, nth_error gs i = Some g0 -> length ks = length gs ->
  sumlab gs (set_nth i a ks) = sumlab gs ks - nth (nth i ks O) (qlab g0) 0 + nth a (qlab g0) 0.
Proof.
  induction i as [|i IH]; intros [|g gs] [|k ks] g0 a Hn Hl; try discriminate.
  - cbn in Hn. injection Hn as ->. cbn [set_nth sumlab nth]. lia.
  - cbn [nth_error] in Hn. cbn [set_nth sumlab nth]. rewrite (IH gs ks g0 a Hn) by (cbn in Hl; lia). lia.
Qed.

Section Moves.
Variable R : CRing.
Add Ring RRmv : (rth R).
Notation zero := (r0 R).
Notation ttree := (ttree R).
Notation tens := (tens R).

Lemma all_lt_replace : forall i (cs : list ttree) c c' ks, nth_error cs i = Some c ->
  all_lt (map (tdim R) (replace_nth i c' cs)) ks = true ->
  length ks = length cs /\ (nth i ks O < tdim R c')%nat /\
  forall a, (a < tdim R c)%nat -> all_lt (map (tdim R) cs) (set_nth i a ks) = true.
Proof.
  induction i as [|i IH]; intros [|x cs] c c' [|k ks] Hn Hlt; try discriminate.
  - cbn in Hn. injection Hn as ->. cbn [replace_nth map all_lt] in Hlt. apply andb_prop in Hlt. destruct Hlt as [Hk Hks].
    split; [cbn [length]; f_equal; rewrite <- (map_length (tdim R) cs); apply all_lt_len; exact Hks|].
    split; [apply Nat.ltb_lt; exact Hk|]. intros a Ha. cbn [set_nth map all_lt]. rewrite Hks. apply Nat.ltb_lt in Ha. rewrite Ha. reflexivity.
  - cbn [nth_error] in Hn. cbn [replace_nth map all_lt] in Hlt. apply andb_prop in Hlt. destruct Hlt as [Hk Hks].
    destruct (IH cs c c' ks Hn Hks) as [H1 [H2 H3]].
    split; [cbn [length]; lia|]. split; [exact H2|]. intros a Ha. cbn [set_nth map all_lt]. rewrite Hk, (H3 a Ha). reflexivity.
Qed.

Lemma tvalids_nth : forall i (cs : list ttree) gs ss c, tvalids cs gs ss -> nth_error cs i = Some c ->
  exists g0 s0, nth_error gs i = Some g0 /\ nth_error ss i = Some s0 /\ tvalid s0 c g0.
Proof.
  induction i as [|i IH]; intros [|x cs] [|g gs] [|s ss] c Hv Hn; try discriminate; try contradiction.
  - cbn in Hn. injection Hn as ->. destruct Hv as [Hv _]. exists g, s. repeat split; try reflexivity. exact Hv.
  - destruct Hv as [_ Hv]. apply (IH cs gs ss c Hv Hn).
Qed.

Lemma tvalids_replace : forall i (cs : list ttree) gs ss c' g', tvalids cs gs ss ->
  (forall s0, nth_error ss i = Some s0 -> tvalid s0 c' g') ->
  (i < length cs)%nat -> tvalids (replace_nth i c' cs) (replace_nth i g' gs) ss.
Proof.
  induction i as [|i IH]; intros [|x cs] [|g gs] [|s ss] c' g' Hv Hc Hi; try contradiction; try (cbn in Hi; lia).
  - destruct Hv as [_ Hv]. cbn [replace_nth tvalids]. split; [apply Hc; reflexivity|exact Hv].
  - destruct Hv as [Hv1 Hv]. cbn [replace_nth tvalids]. split; [exact Hv1|]. apply IH; [exact Hv| |cbn in Hi; lia].
    intros s0 Hs. apply Hc. exact Hs.
Qed.

Lemma tvalids_len : forall (cs : list ttree) gs ss, tvalids cs gs ss -> length gs = length cs /\ length ss = length cs.
Proof.
  induction cs as [|c cs IH]; intros [|g gs] [|s ss] H; try contradiction; [split; reflexivity|].
  destruct H as [_ H]. destruct (IH gs ss H). cbn [length]. lia.
Qed.

Lemma map_tdim_replace_tensor : forall i (cs : list ttree) lc pdc m (X Y : tens) ccs,
  map (tdim R) (replace_nth i (TNode lc pdc m X ccs) cs) = map (tdim R) (replace_nth i (TNode lc pdc m Y ccs) cs).
Proof.
  induction i as [|i IH]; intros [|x cs] lc pdc m X Y ccs; try reflexivity.
  cbn [replace_nth map]. f_equal. apply IH.
Qed.

(* ------------------------------------------------------------------ the general statement: a node and its i-th child get
   new tensors and the bond between them new labels; if both new tensors obey the label equation, validity is kept *)
Lemma two_node_valid sg ss l pd d (T T' : tens) (cs : list ttree) q gs i lc pdc dc (Tc N' : tens) ccs qc gcs sgc ssc qnew m :
  tvalid (SNode sg ss) (TNode l pd d T cs) (QNode q gs) ->
  nth_error cs i = Some (TNode lc pdc dc Tc ccs) -> nth_error gs i = Some (QNode qc gcs) -> nth_error ss i = Some (SNode sgc ssc) ->
  length qnew = m ->
  (forall ks ph j, all_lt (map (tdim R) ccs) ks = true -> (j < m)%nat ->
     sumlab gcs ks + sigsum sgc ph <> nth j qnew 0 -> N' ks ph j = zero) ->
  (forall ks ph p, all_lt (map (tdim R) (replace_nth i (TNode lc pdc m N' ccs) cs)) ks = true -> (p < d)%nat ->
     sumlab (replace_nth i (QNode qnew gcs) gs) ks + sigsum sg ph <> nth p q 0 -> T' ks ph p = zero) ->
  tvalid (SNode sg ss) (TNode l pd d T' (replace_nth i (TNode lc pdc m N' ccs) cs)) (QNode q (replace_nth i (QNode qnew gcs) gs)).
Proof.
  intros Hv Hc Hg Hs Hlen HN HT. rewrite tvalid_node in Hv |- *. destruct Hv as [Hl [_ Hch]].
  split; [exact Hl|]. split; [exact HT|].
  apply tvalids_replace; [exact Hch| |apply nth_error_Some; rewrite Hc; discriminate].
  intros s0 Hs0. rewrite Hs in Hs0. injection Hs0 as <-.
  destruct (tvalids_nth i cs gs ss _ Hch Hc) as [g0 [s0 [Hg0 [Hs0 Hvc]]]].
  rewrite Hg in Hg0. injection Hg0 as <-. rewrite Hs in Hs0. injection Hs0 as <-.
  rewrite tvalid_node in Hvc |- *. destruct Hvc as [_ [_ Hcc]]. split; [exact Hlen|]. split; [exact HN|exact Hcc].
Qed.

(* ------------------------------------------------------------------ push_cano_to_parent:
   child.tensor.reshape(-1, dc) = Q . V^T by svd_qn(QR, system "L"): child <- Q, child.qn <- qnlnew, parent absorbs V.
   Block contract: column j of Q lives in the block whose left label (children + physical of the child) is qnew[j];
   V[a, j] only connects an old bond index a with the same label. *)
Theorem push_parent_valid st (t : ttree) g i m (Q : tens) (V : nat -> nat -> R) (qnew : list Z)
    lc pdc dc Tc ccs qc gcs sgc ssc :
  tvalid st t g ->
  nth_error (tch R t) i = Some (TNode lc pdc dc Tc ccs) -> nth_error (qch g) i = Some (QNode qc gcs) ->
  nth_error (sch st) i = Some (SNode sgc ssc) -> length qnew = m ->
  (forall ks ph j, all_lt (map (tdim R) ccs) ks = true -> (j < m)%nat ->
     sumlab gcs ks + sigsum sgc ph <> nth j qnew 0 -> Q ks ph j = zero) ->
  (forall a j, (a < dc)%nat -> (j < m)%nat -> nth a qc 0 <> nth j qnew 0 -> V a j = zero) ->
  tvalid st (push_parent R i m Q V t) (qset_child i qnew g).
Proof.
  destruct t as [l pd d T cs], g as [q gs], st as [sg ss]. cbn [tch qch sch].
  intros Hv Hc Hg Hs Hlen HQ HV. unfold push_parent, qset_child. rewrite Hc, Hg.
  apply (two_node_valid sg ss l pd d T _ cs q gs i lc pdc dc Tc Q ccs qc gcs sgc ssc qnew m Hv Hc Hg Hs Hlen HQ).
  intros ks ph p Hks Hp Hne. pose proof Hv as Hv'. rewrite tvalid_node in Hv'. destruct Hv' as [_ [Hnode Hch]].
  destruct (all_lt_replace i cs _ _ ks Hc Hks) as [Hlk [Hj Hset]]. cbn [tdim] in Hj, Hset.
  destruct (tvalids_len cs gs ss Hch) as [Hlg _].
  apply sumn_0. intros a Ha.
  destruct (Z.eq_dec (nth a qc 0) (nth (nth i ks O) qnew 0)) as [Heq|Hneq].
  - rewrite (Hnode (set_nth i a ks) ph p (Hset a Ha) Hp); [ring|].
    rewrite (sumlab_set_nth i gs ks _ a Hg) by lia.
    rewrite (sumlab_replace i gs ks _ (QNode qnew gcs) Hg) in Hne by lia. cbn [qlab] in *. lia.
  - rewrite (HV a (nth i ks O) Ha Hj Hneq). ring.
Qed.

(* ------------------------------------------------------------------ push_cano_to_child / compress_node:
   moveaxis(node.tensor, i, -1).reshape(-1, d_i) = U . V^T with qnbigl = other children + physical + (qntot - node.qn),
   qnbigr = child.qn: node <- U, child absorbs V, child.qn <- qnr.  Block contract: a row of U and its column j satisfy
   (row label) + (column label) = qntot with column label qnew[j]; V[a, j] only connects equal labels. *)
Theorem push_child_valid st (t : ttree) g i m (U : list nat -> R) (V : nat -> nat -> R) (qnew : list Z) qtot
    lc pdc dc Tc ccs qc gcs sgc ssc :
  tvalid st t g ->
  nth_error (tch R t) i = Some (TNode lc pdc dc Tc ccs) -> nth_error (qch g) i = Some (QNode qc gcs) ->
  nth_error (sch st) i = Some (SNode sgc ssc) -> length qnew = m ->
  (forall ks ph p, all_lt (map (tdim R) (replace_nth i (TNode lc pdc m Tc ccs) (tch R t))) ks = true -> (p < tdim R t)%nat ->
     (* row label: other children + physical + (qntot - node label);  column label: qnew *)
     (sumlab (replace_nth i (QNode qnew gcs) (qch g)) ks - nth (nth i ks O) qnew 0)
       + sigsum (match st with SNode sg _ => sg end) ph + (qtot - nth p (qlab g) 0) <> qtot - nth (nth i ks O) qnew 0 ->
     U (move_to_end i (ks ++ ph ++ [p])) = zero) ->
  (forall a j, (a < dc)%nat -> (j < m)%nat -> nth a qc 0 <> nth j qnew 0 -> V a j = zero) ->
  tvalid st (push_child R i m U V t) (qset_child i qnew g).
Proof.
  destruct t as [l pd d T cs], g as [q gs], st as [sg ss]. cbn [tch qch sch tdim qlab].
  intros Hv Hc Hg Hs Hlen HU HV. unfold push_child, qset_child. rewrite Hc, Hg.
  pose proof Hv as Hv'. rewrite tvalid_node in Hv'. destruct Hv' as [_ [_ Hch]].
  destruct (tvalids_nth i cs gs ss _ Hch Hc) as [g0 [s0 [Hg0 [Hs0 Hvc]]]].
  rewrite Hg in Hg0. injection Hg0 as <-. rewrite Hs in Hs0. injection Hs0 as <-.
  rewrite tvalid_node in Hvc. destruct Hvc as [_ [Hcnode _]].
  apply (two_node_valid sg ss l pd d T _ cs q gs i lc pdc dc Tc _ ccs qc gcs sgc ssc qnew m Hv Hc Hg Hs Hlen).
  - intros ks ph j Hks Hj Hne. apply sumn_0. intros a Ha.
    destruct (Z.eq_dec (nth a qc 0) (nth j qnew 0)) as [Heq|Hneq].
    + rewrite (Hcnode ks ph a Hks Ha); [ring|]. lia.
    + rewrite (HV a j Ha Hj Hneq). ring.
  - intros ks ph p Hks Hp Hne. apply HU; [|exact Hp|lia].
    rewrite (map_tdim_replace_tensor i cs lc pdc m Tc (fun ks0 ph0 j => sumn dc (fun a => rmul R (Tc ks0 ph0 a) (V a j))) ccs). exact Hks.
Qed.

(* ------------------------------------------------------------------ update_2site (fixed a4feae3), both cano_parent cases:
   the 2-site tensor (rows = node's children + physical, columns = parent's other children + physical + parent bond) is
   split by svd_qn and select_basis; the bond gets msqn (cano_parent) or qntot - msqn. *)
Theorem update_2site_valid st (t : ttree) g i m (Nn Pn : tens) (cano : bool) (msqn : list Z) qtot
    lc pdc dc Tc ccs qc gcs sgc ssc :
  tvalid st t g ->
  nth_error (tch R t) i = Some (TNode lc pdc dc Tc ccs) -> nth_error (qch g) i = Some (QNode qc gcs) ->
  nth_error (sch st) i = Some (SNode sgc ssc) -> length msqn = m ->
  forall qnew, qnew = (if cano then msqn else map (fun x => qtot - x) msqn) ->
  (* m_node: left label (children + physical of the node) of column j *)
  (forall ks ph j, all_lt (map (tdim R) ccs) ks = true -> (j < m)%nat ->
     sumlab gcs ks + sigsum sgc ph <> (if cano then nth j msqn 0 else qtot - nth j msqn 0) -> Nn ks ph j = zero) ->
  (* m_parent: right label (other children + physical of the parent + (qntot - parent label)) of row j *)
  (forall ks ph p, all_lt (map (tdim R) (replace_nth i (TNode lc pdc m Nn ccs) (tch R t))) ks = true -> (p < tdim R t)%nat ->
     (sumlab (replace_nth i (QNode qnew gcs) (qch g)) ks - nth (nth i ks O) qnew 0)
       + sigsum (match st with SNode sg _ => sg end) ph + (qtot - nth p (qlab g) 0)
     <> (if cano then qtot - nth (nth i ks O) msqn 0 else nth (nth i ks O) msqn 0) ->
     Pn ks ph p = zero) ->
  tvalid st (update_2site i m Nn Pn t) (qset_child i qnew g).
Proof.
  destruct t as [l pd d T cs], g as [q gs], st as [sg ss]. cbn [tch qch sch tdim qlab].
  intros Hv Hc Hg Hs Hlen qnew Eq HN HP. unfold update_2site, qset_child. rewrite Hc, Hg.
  assert (Hq : forall j, (j < m)%nat -> nth j qnew 0 = if cano then nth j msqn 0 else qtot - nth j msqn 0).
  { intros j Hj. rewrite Eq. destruct cano; [reflexivity|].
    rewrite (nth_indep _ 0 ((fun x => qtot - x) 0)) by (rewrite map_length; lia). apply (List.map_nth (fun x => qtot - x)). }
  assert (Hlq : length qnew = m) by (rewrite Eq; destruct cano; [exact Hlen|rewrite map_length; exact Hlen]).
  apply (two_node_valid sg ss l pd d T Pn cs q gs i lc pdc dc Tc Nn ccs qc gcs sgc ssc qnew m Hv Hc Hg Hs Hlq).
  - intros ks ph j Hks Hj Hne. apply HN; try assumption. rewrite <- (Hq j Hj). exact Hne.
  - intros ks ph p Hks Hp Hne. apply HP; try assumption.
    destruct (all_lt_replace i cs _ _ ks Hc Hks) as [_ [Hj _]]. cbn [tdim] in Hj.
    rewrite (Hq _ Hj) in *. destruct cano; lia.
Qed.

(* ------------------------------------------------------------------ one-site (masked) update *)
Lemma sumlabL_Z gs ks : @sumlabL ZLab 0 gs ks = sumlab gs ks.
Proof. revert ks. induction gs as [|g gs IH]; intros [|k ks]; cbn [sumlabL sumlab]; try reflexivity. rewrite IH. reflexivity. Qed.
Lemma sigsumL_Z sg ph : @sigsumL ZLab 0 sg ph = sigsum sg ph.
Proof. revert ph. induction sg as [|s sg IH]; intros [|p ph]; cbn [sigsumL sigsum]; try reflexivity. rewrite IH. reflexivity. Qed.

Theorem tmask1_meaning (qtot : Z) sg (q : list Z) gs ks ph p :
  @tmask1 ZLab qtot sg q gs ks ph p = true <-> sumlab gs ks + sigsum sg ph = nth p q 0.
Proof.
  unfold tmask1. cbn [lab ZLab ladd lsub leqb lzero_like]. rewrite sumlabL_Z, sigsumL_Z, Z.eqb_eq. lia.
Qed.

Theorem tmask2_meaning (qtot : Z) sgn gsn sgp (qp : list Z) gso ksn phn kso php pp :
  @tmask2 ZLab qtot sgn gsn sgp qp gso ksn phn kso php pp = true <->
  (sumlab gsn ksn + sigsum sgn phn) + (sumlab gso kso + sigsum sgp php) = nth pp qp 0.
Proof.
  unfold tmask2. cbn [lab ZLab ladd lsub leqb lzero_like]. rewrite !sumlabL_Z, !sigsumL_Z, Z.eqb_eq. lia.
Qed.

(* writing ANY tensor that vanishes outside the one-site mask keeps the labels valid (tree DMRG one-site / VMF) *)
Theorem tmask_update_valid st (t : ttree) g (T' : tens) qtot :
  tvalid st t g ->
  (forall ks ph p, @tmask1 ZLab qtot (match st with SNode sg _ => sg end) (qlab g) (qch g) ks ph p = false -> T' ks ph p = zero) ->
  tvalid st (set_tensor T' t) g.
Proof.
  destruct t as [l pd d T cs], g as [q gs], st as [sg ss]. cbn [qlab qch set_tensor]. intros Hv Hm.
  rewrite tvalid_node in Hv |- *. destruct Hv as [Hl [_ Hch]]. split; [exact Hl|]. split; [|exact Hch].
  intros ks ph p _ _ Hne. apply Hm. destruct (@tmask1 ZLab qtot sg q gs ks ph p) eqn:E; [|reflexivity].
  exfalso. apply Hne. apply (tmask1_meaning qtot sg q gs ks ph p). exact E.
Qed.

(* ------------------------------------------------------------------ from a sub-tree to the whole tree *)
Lemma map_nth_replace {A} (h : A -> A) : forall i (l : list A) x, nth_error l i = Some x -> map_nth i h l = replace_nth i (h x) l.
Proof.
  induction i as [|i IH]; intros [|y l] x H; try discriminate.
  - cbn in H. injection H as ->. reflexivity.
  - cbn [nth_error] in H. cbn [map_nth replace_nth]. rewrite (IH l x H). reflexivity.
Qed.
Lemma map_nth_none {A} (h : A -> A) : forall i (l : list A), nth_error l i = None -> map_nth i h l = l.
Proof.
  induction i as [|i IH]; intros [|y l] H; try reflexivity; try discriminate.
  cbn [nth_error] in H. cbn [map_nth]. rewrite (IH l H). reflexivity.
Qed.
Lemma map_tdim_replace : forall i (cs : list ttree) c c', nth_error cs i = Some c -> tdim R c' = tdim R c ->
  map (tdim R) (replace_nth i c' cs) = map (tdim R) cs.
Proof.
  induction i as [|i IH]; intros [|x cs] c c' H Hd; try discriminate.
  - cbn in H. injection H as ->. cbn [replace_nth map]. rewrite Hd. reflexivity.
  - cbn [nth_error] in H. cbn [replace_nth map]. rewrite (IH cs c c' H Hd). reflexivity.
Qed.

Theorem at_path_valid : forall path (t : ttree) g st (f : ttree -> ttree) (fq : qtree Z -> qtree Z),
  tvalid st t g ->
  (forall u gu su, subtree R path t = Some u -> qsubtree path g = Some gu -> ssubtree path st = Some su -> tvalid su u gu ->
     tvalid su (f u) (fq gu) /\ tdim R (f u) = tdim R u /\ qlab (fq gu) = qlab gu) ->
  tvalid st (at_path R path f t) (qat_path path fq g) /\ tdim R (at_path R path f t) = tdim R t /\ qlab (qat_path path fq g) = qlab g.
Proof.
  induction path as [|i path IH]; intros t g st f fq Hv Hf.
  - cbn [at_path qat_path]. apply Hf; try reflexivity. exact Hv.
  - destruct t as [l pd d T cs], g as [q gs], st as [sg ss]. cbn [at_path qat_path tdim qlab].
    split; [|split; reflexivity].
    pose proof Hv as Hv'. rewrite tvalid_node in Hv'. destruct Hv' as [Hl [Hnode Hch]].
    destruct (nth_error cs i) as [c|] eqn:Ec.
    + destruct (tvalids_nth i cs gs ss c Hch Ec) as [g0 [s0 [Hg0 [Hs0 Hvc]]]].
      assert (Hsub : forall u gu su, subtree R path c = Some u -> qsubtree path g0 = Some gu -> ssubtree path s0 = Some su -> tvalid su u gu ->
                tvalid su (f u) (fq gu) /\ tdim R (f u) = tdim R u /\ qlab (fq gu) = qlab gu).
      { intros u gu su H1 H2 H3 H4. apply Hf; try assumption; cbn [subtree qsubtree ssubtree tch qch sch]; [rewrite Ec|rewrite Hg0|rewrite Hs0]; assumption. }
      destruct (IH c g0 s0 f fq Hvc Hsub) as [Hv2 [Hd2 Hq2]].
      rewrite (map_nth_replace _ i cs c Ec), (map_nth_replace _ i gs g0 Hg0).
      rewrite tvalid_node. split; [exact Hl|]. split.
      * intros ks ph p Hks Hp Hne. rewrite (map_tdim_replace i cs c _ Ec Hd2) in Hks.
        apply Hnode; try assumption.
        destruct (tvalids_len cs gs ss Hch) as [Hlg _].
        rewrite (sumlab_replace i gs ks g0 _ Hg0) in Hne by (rewrite (all_lt_len _ _ Hks), map_length; lia).
        rewrite Hq2 in Hne. lia.
      * apply tvalids_replace; [exact Hch| |apply nth_error_Some; rewrite Ec; discriminate].
        intros s1 Hs1. rewrite Hs0 in Hs1. injection Hs1 as <-. exact Hv2.
    + destruct (tvalids_len cs gs ss Hch) as [Hlg _].
      assert (Eg : nth_error gs i = None) by (apply nth_error_None; apply nth_error_None in Ec; lia).
      rewrite (map_nth_none _ i cs Ec), (map_nth_none _ i gs Eg). exact Hv.
Qed.

(* whole-tree form: a valid TTNS stays valid under a label-respecting move of any of its sub-trees *)
Corollary at_path_ttns_valid path (t : ttree) g st qtot f fq :
  ttns_qn_valid st t g qtot ->
  (forall u gu su, subtree R path t = Some u -> qsubtree path g = Some gu -> ssubtree path st = Some su -> tvalid su u gu ->
     tvalid su (f u) (fq gu) /\ tdim R (f u) = tdim R u /\ qlab (fq gu) = qlab gu) ->
  ttns_qn_valid st (at_path R path f t) (qat_path path fq g) qtot.
Proof.
  intros [Hv [Hd Hq]] Hf. destruct (at_path_valid path t g st f fq Hv Hf) as [H1 [H2 H3]].
  split; [exact H1|]. split; [rewrite H2; exact Hd|rewrite H3; exact Hq].
Qed.

(* ------------------------------------------------------------------ whole-tree forms of the moves (Ttns.run_step uses at_path) *)
Theorem ttns_push_parent_valid path i m (Q : tens) V qnew (t : ttree) g st qtot u gu su lc pdc dc Tc ccs qc gcs sgc ssc :
  ttns_qn_valid st t g qtot ->
  subtree R path t = Some u -> qsubtree path g = Some gu -> ssubtree path st = Some su ->
  nth_error (tch R u) i = Some (TNode lc pdc dc Tc ccs) -> nth_error (qch gu) i = Some (QNode qc gcs) ->
  nth_error (sch su) i = Some (SNode sgc ssc) -> length qnew = m ->
  (forall ks ph j, all_lt (map (tdim R) ccs) ks = true -> (j < m)%nat ->
     sumlab gcs ks + sigsum sgc ph <> nth j qnew 0 -> Q ks ph j = zero) ->
  (forall a j, (a < dc)%nat -> (j < m)%nat -> nth a qc 0 <> nth j qnew 0 -> V a j = zero) ->
  ttns_qn_valid st (at_path R path (push_parent R i m Q V) t) (qat_path path (qset_child i qnew) g) qtot.
Proof.
  intros Hv Hu Hgu Hsu Hc Hg Hs Hlen HQ HV. apply at_path_ttns_valid; [exact Hv|].
  intros u' gu' su' H1 H2 H3 Hvu. rewrite Hu in H1. injection H1 as <-. rewrite Hgu in H2. injection H2 as <-.
  rewrite Hsu in H3. injection H3 as <-.
  split; [apply (push_parent_valid su u gu i m Q V qnew lc pdc dc Tc ccs qc gcs sgc ssc); assumption|].
  destruct u as [l pd d T cs], gu as [q gs]. cbn [tch qch] in Hc, Hg. unfold push_parent, qset_child. rewrite Hc, Hg. split; reflexivity.
Qed.

Theorem ttns_push_child_valid path i m (U : list nat -> R) V qnew (t : ttree) g st qtot u gu su lc pdc dc Tc ccs qc gcs sgc ssc :
  ttns_qn_valid st t g qtot ->
  subtree R path t = Some u -> qsubtree path g = Some gu -> ssubtree path st = Some su ->
  nth_error (tch R u) i = Some (TNode lc pdc dc Tc ccs) -> nth_error (qch gu) i = Some (QNode qc gcs) ->
  nth_error (sch su) i = Some (SNode sgc ssc) -> length qnew = m ->
  (forall ks ph p, all_lt (map (tdim R) (replace_nth i (TNode lc pdc m Tc ccs) (tch R u))) ks = true -> (p < tdim R u)%nat ->
     (sumlab (replace_nth i (QNode qnew gcs) (qch gu)) ks - nth (nth i ks O) qnew 0)
       + sigsum (match su with SNode sg _ => sg end) ph + (qtot - nth p (qlab gu) 0) <> qtot - nth (nth i ks O) qnew 0 ->
     U (move_to_end i (ks ++ ph ++ [p])) = zero) ->
  (forall a j, (a < dc)%nat -> (j < m)%nat -> nth a qc 0 <> nth j qnew 0 -> V a j = zero) ->
  ttns_qn_valid st (at_path R path (push_child R i m U V) t) (qat_path path (qset_child i qnew) g) qtot.
Proof.
  intros Hv Hu Hgu Hsu Hc Hg Hs Hlen HU HV. apply at_path_ttns_valid; [exact Hv|].
  intros u' gu' su' H1 H2 H3 Hvu. rewrite Hu in H1. injection H1 as <-. rewrite Hgu in H2. injection H2 as <-.
  rewrite Hsu in H3. injection H3 as <-.
  split; [apply (push_child_valid su u gu i m U V qnew qtot lc pdc dc Tc ccs qc gcs sgc ssc); assumption|].
  destruct u as [l pd d T cs], gu as [q gs]. cbn [tch qch] in Hc, Hg. unfold push_child, qset_child. rewrite Hc, Hg. split; reflexivity.
Qed.

Theorem ttns_two_site_update_valid path i m (Nn Pn : tens) (cano : bool) (msqn : list Z) qnew (t : ttree) g st qtot u gu su lc pdc dc Tc ccs qc gcs sgc ssc :
  ttns_qn_valid st t g qtot ->
  subtree R path t = Some u -> qsubtree path g = Some gu -> ssubtree path st = Some su ->
  nth_error (tch R u) i = Some (TNode lc pdc dc Tc ccs) -> nth_error (qch gu) i = Some (QNode qc gcs) ->
  nth_error (sch su) i = Some (SNode sgc ssc) -> length msqn = m ->
  qnew = (if cano then msqn else map (fun x => qtot - x) msqn) ->
  (forall ks ph j, all_lt (map (tdim R) ccs) ks = true -> (j < m)%nat ->
     sumlab gcs ks + sigsum sgc ph <> (if cano then nth j msqn 0 else qtot - nth j msqn 0) -> Nn ks ph j = zero) ->
  (forall ks ph p, all_lt (map (tdim R) (replace_nth i (TNode lc pdc m Nn ccs) (tch R u))) ks = true -> (p < tdim R u)%nat ->
     (sumlab (replace_nth i (QNode qnew gcs) (qch gu)) ks - nth (nth i ks O) qnew 0)
       + sigsum (match su with SNode sg _ => sg end) ph + (qtot - nth p (qlab gu) 0)
     <> (if cano then qtot - nth (nth i ks O) msqn 0 else nth (nth i ks O) msqn 0) ->
     Pn ks ph p = zero) ->
  ttns_qn_valid st (at_path R path (update_2site i m Nn Pn) t) (qat_path path (qset_child i qnew) g) qtot.
Proof.
  intros Hv Hu Hgu Hsu Hc Hg Hs Hlen Eq HN HP. apply at_path_ttns_valid; [exact Hv|].
  intros u' gu' su' H1 H2 H3 Hvu. rewrite Hu in H1. injection H1 as <-. rewrite Hgu in H2. injection H2 as <-.
  rewrite Hsu in H3. injection H3 as <-.
  split; [apply (update_2site_valid su u gu i m Nn Pn cano msqn qtot lc pdc dc Tc ccs qc gcs sgc ssc); assumption|].
  destruct u as [l pd d T cs], gu as [q gs]. cbn [tch qch] in Hc, Hg. unfold update_2site, qset_child. rewrite Hc, Hg. split; reflexivity.
Qed.

Theorem ttns_mask_update_valid path (T' : tens) (t : ttree) g st qtot u gu su :
  ttns_qn_valid st t g qtot ->
  subtree R path t = Some u -> qsubtree path g = Some gu -> ssubtree path st = Some su ->
  (forall ks ph p, @tmask1 ZLab qtot (match su with SNode sg _ => sg end) (qlab gu) (qch gu) ks ph p = false -> T' ks ph p = zero) ->
  ttns_qn_valid st (at_path R path (set_tensor T') t) (qat_path path (fun x => x) g) qtot.
Proof.
  intros Hv Hu Hgu Hsu Hm. apply at_path_ttns_valid; [exact Hv|].
  intros u' gu' su' H1 H2 H3 Hvu. rewrite Hu in H1. injection H1 as <-. rewrite Hgu in H2. injection H2 as <-.
  rewrite Hsu in H3. injection H3 as <-.
  split; [apply (tmask_update_valid su u gu T' qtot); assumption|]. destruct u. split; reflexivity.
Qed.

End Moves.

(* ------------------------------------------------------------------ vector labels: components *)
Section QInd.
Variable A : Type.
Variable P : qtree A -> Prop.
Hypothesis H : forall q gs, Forall P gs -> P (QNode q gs).
Fixpoint qtree_ind' (g : qtree A) : P g :=
  match g with
  | QNode q gs =>
    H q gs ((fix go (gs : list (qtree A)) : Forall P gs :=
               match gs with [] => Forall_nil P | x :: gs' => Forall_cons x (qtree_ind' x) (go gs') end) gs)
  end.
End QInd.

Lemma qlab_qmap {A B} (f : A -> B) g : qlab (qmap f g) = map f (qlab g).
Proof. destruct g. reflexivity. Qed.

Section ZipL.
Variable L : LabOps.
Fixpoint qzipaddL (ga gb : list (qtree (lab L))) : list (qtree (lab L)) :=
  match ga, gb with x :: ga', y :: gb' => @qadd_gen L false x y :: qzipaddL ga' gb' | _, _ => [] end.
Lemma qadd_gen_nodeL r qa ga qb gb :
  @qadd_gen L r (QNode qa ga) (QNode qb gb) = QNode (if r then qa else qa ++ qb) (qzipaddL ga gb).
Proof. reflexivity. Qed.
Fixpoint qzipapplyL (gs go : list (qtree (lab L))) : list (qtree (lab L)) :=
  match gs, go with x :: gs', y :: go' => @qapply L x y :: qzipapplyL gs' go' | _, _ => [] end.
Lemma qapply_nodeL qs gs qo go :
  @qapply L (QNode qs gs) (QNode qo go) = QNode (@outer L qs qo) (qzipapplyL gs go).
Proof. reflexivity. Qed.
End ZipL.

Lemma qmap_qadd k : forall (a : qtree (list Z)) r b,
  qmap (comp k) (@qadd_gen VLab r a b) = @qadd_gen ZLab r (qmap (comp k) a) (qmap (comp k) b).
Proof.
  induction a as [qa ga IH] using qtree_ind'. intros r [qb gb].
  rewrite (qadd_gen_nodeL VLab). cbn [qmap]. rewrite (qadd_gen_nodeL ZLab).
  assert (Hch : map (qmap (comp k)) (qzipaddL VLab ga gb) = qzipaddL ZLab (map (qmap (comp k)) ga) (map (qmap (comp k)) gb)).
  { revert gb. induction IH as [|x ga Hx _ IHl]; intros [|y gb]; cbn [map qzipaddL]; try reflexivity.
    rewrite (Hx false y). apply f_equal. apply IHl. }
  rewrite Hch. destruct r; [reflexivity|]. cbn [lab VLab ZLab]. rewrite map_app. reflexivity.
Qed.

Lemma qmap_qapply k : forall (s o : qtree (list Z)),
  qmap (comp k) (@qapply VLab s o) = @qapply ZLab (qmap (comp k) s) (qmap (comp k) o).
Proof.
  induction s as [qs gs IH] using qtree_ind'. intros [qo go].
  rewrite (qapply_nodeL VLab). cbn [qmap]. rewrite (qapply_nodeL ZLab).
  assert (Hch : map (qmap (comp k)) (qzipapplyL VLab gs go) = qzipapplyL ZLab (map (qmap (comp k)) gs) (map (qmap (comp k)) go)).
  { revert go. induction IH as [|x gs Hx _ IHl]; intros [|y go]; cbn [map qzipapplyL]; try reflexivity.
    rewrite (Hx y). apply f_equal. apply IHl. }
  rewrite Hch. rewrite (proj_outer k qs qo). reflexivity.
Qed.

Section MovesV.
Variable R : CRing.
Notation ttree := (ttree R).
Notation otree := (otree R).

Theorem tadd_validV nc ca cb (a b : ttree) st ga gb qtot :
  ttns_qn_validV nc st a ga qtot -> ttns_qn_validV nc st b gb qtot -> tshape R a = tshape R b ->
  ttns_qn_validV nc st (tadd_coeff R ca cb a b) (@qadd VLab ga gb) qtot.
Proof.
  intros Ha Hb Hs k Hk. unfold qadd. rewrite qmap_qadd. apply tadd_coeff_valid; [apply Ha|apply Hb|]; assumption.
Qed.

Theorem tscale_validV nc c (t : ttree) st g qtot :
  ttns_qn_validV nc st t g qtot -> ttns_qn_validV nc st (tscale R c t) g qtot.
Proof.
  intros H k Hk. destruct (H k Hk) as [Hv [Hd Hq]]. split; [apply tscale_valid; exact Hv|]. split; [destruct t; exact Hd|exact Hq].
Qed.

Theorem tapply_moves_sectorV nc (t : ttree) (o : otree) st g go qtot qop :
  ttns_qn_validV nc st t g qtot -> ovalidV nc st o go -> odim R o = 1%nat -> qlab go = [qop] -> tshape R t = oshape R o ->
  ttns_qn_validV nc st (tapply R o t) (@qapply VLab g go) (zipz Z.add qtot qop).
Proof.
  intros Ht Ho Hd Hq Hs k Hk. rewrite qmap_qapply, (comp_zipz Z.add eq_refl).
  apply tapply_moves_sector; try assumption; [apply Ht; exact Hk|apply Ho; exact Hk|].
  rewrite qlab_qmap, Hq. reflexivity.
Qed.

End MovesV.

(* the code's tree masks imply the mask of every component *)
Lemma comp_sumlabL k z : forall gs ks,
  comp k (@sumlabL VLab (map (fun _ : Z => 0) z) gs ks) = @sumlabL ZLab 0 (map (qmap (comp k)) gs) ks.
Proof.
  induction gs as [|g gs IH]; intros [|x ks]; cbn [sumlabL map]; try apply comp_zero_like.
  cbn [ladd VLab ZLab]. rewrite (comp_zipz Z.add eq_refl), IH, qlab_qmap.
  f_equal. transitivity (nth x (map (comp k) (qlab g)) (comp k (map (fun _ : Z => 0) z))).
  - symmetry. apply (List.map_nth (comp k)).
  - rewrite comp_zero_like. reflexivity.
Qed.
Lemma comp_sigsumL k z : forall sg ph,
  comp k (@sigsumL VLab (map (fun _ : Z => 0) z) sg ph) = @sigsumL ZLab 0 (map (map (comp k)) sg) ph.
Proof.
  induction sg as [|s sg IH]; intros [|p ph]; cbn [sigsumL map]; try apply comp_zero_like.
  cbn [ladd VLab ZLab]. rewrite (comp_zipz Z.add eq_refl), IH.
  f_equal. transitivity (nth p (map (comp k) s) (comp k (map (fun _ : Z => 0) z))).
  - symmetry. apply (List.map_nth (comp k)).
  - rewrite comp_zero_like. reflexivity.
Qed.

Theorem tmask1_comp k (qtot : list Z) sg q gs ks ph p :
  @tmask1 VLab qtot sg q gs ks ph p = true ->
  @tmask1 ZLab (comp k qtot) (map (map (comp k)) sg) (map (comp k) q) (map (qmap (comp k)) gs) ks ph p = true.
Proof.
  unfold tmask1. cbn [lab VLab ZLab ladd lsub leqb lzero_like]. intros H. apply QnMaskProofs.veqb_comp with (k := k) in H.
  rewrite !(comp_zipz Z.add eq_refl), (comp_zipz Z.sub eq_refl), comp_sumlabL, comp_sigsumL in H.
  rewrite (QnMaskProofs.nth_proj_sig k q p qtot) in H. apply Z.eqb_eq. exact H.
Qed.
