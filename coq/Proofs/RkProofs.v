From Coq Require Import QArith ZArith List Arith Bool Lia Setoid.
Import ListNotations.
From RV Require Import Gen.RkTableaux Model.Rk.
Close Scope Q_scope.

Lemma nth_skipn' {A} (d : A) : forall k l n, nth n (skipn k l) d = nth (k + n) l d.
Proof. induction k as [|k IH]; intros [|x l] n; cbn; auto. now destruct n. Qed.

Lemma qm_ok x y : (qm x y == x * y)%Q.  Proof. apply Qred_correct. Qed.
Lemma qa_ok x y : (qa x y == x + y)%Q.  Proof. apply Qred_correct. Qed.

Lemma order_pos t : 1 <= order t.
Proof. induction t as [|u IHu v IHv]; cbn [order]; lia. Qed.

Lemma all_bt_fuel_complete f : forall t, order t <= f -> In t (all_bt_fuel f (order t)).
Proof.
  induction f as [|f IH]; intros t Hf.
  - pose proof (order_pos t); lia.
  - destruct t as [|u v]; cbn [all_bt_fuel order].
    + cbn. now left.
    + pose proof (order_pos u) as Hu. pose proof (order_pos v) as Hv.
      cbn [order] in Hf.
      destruct (Nat.eqb_spec (order u + order v) 1) as [E|_]; [lia|].
      apply in_flat_map. exists (order u). split.
      * apply in_seq. lia.
      * apply in_flat_map. exists u. split.
        -- apply IH. lia.
        -- apply in_map. replace (order u + order v - order u) with (order v) by lia.
           apply IH. lia.
Qed.

Lemma all_bt_complete t : In t (all_bt (order t)).
Proof. apply all_bt_fuel_complete. lia. Qed.

Lemma all_upto_complete n t : order t <= n -> In t (all_upto n).
Proof.
  intros H. unfold all_upto. apply in_flat_map. exists (order t). split.
  - apply in_seq. pose proof (order_pos t). lia.
  - apply all_bt_complete.
Qed.

Lemma tableau_ok_spec t :
  tableau_ok t = true ->
  forall b p tr, In (b, p) (rows t) -> order tr <= p ->
    (dotq b (Phi (t_a t) tr) * gamma tr == 1)%Q.
Proof.
  unfold tableau_ok, row_ok. intros H b p tr Hin Hord.
  rewrite forallb_forall in H. specialize (H _ Hin). cbn [fst snd] in H.
  rewrite forallb_forall in H. specialize (H tr (all_upto_complete _ _ Hord)).
  unfold cond in H. now apply Qeq_bool_eq.
Qed.

Lemma methods_tableau_ok : forallb tableau_ok methods = true.
Proof. vm_compute. reflexivity. Qed.
Lemma methods_row_sums_ok : forallb row_sums_ok methods = true.
Proof. vm_compute. reflexivity. Qed.
Lemma methods_explicit_ok : forallb explicit_ok methods = true.
Proof. vm_compute. reflexivity. Qed.
Lemma methods_ti_ok : forallb ti_ok methods = true.
Proof. vm_compute. reflexivity. Qed.
Lemma methods_gap_ok : forallb embedded_gap_ok methods = true.
Proof. vm_compute. reflexivity. Qed.

Lemma order_conditions_all :
  forall t, In t methods ->
  forall b p tr, In (b, p) (rows t) -> order tr <= p ->
    (dotq b (Phi (t_a t) tr) * gamma tr == 1)%Q.
Proof.
  intros t Ht. apply tableau_ok_spec.
  pose proof methods_tableau_ok as H. rewrite forallb_forall in H. now apply H.
Qed.

Lemma row_sums_all : forall t, In t methods -> row_sums_ok t = true.
Proof. intros t Ht. pose proof methods_row_sums_ok as H. rewrite forallb_forall in H. now apply H. Qed.

Lemma nodes_are_row_sums_all :
  forall t, In t methods -> forall i, i < t_stage t ->
    (qsum (nth i (t_a t) []) == nth i (t_c t) 0)%Q.
Proof.
  intros t Ht i Hi. pose proof (row_sums_all t Ht) as H. unfold row_sums_ok in H.
  repeat rewrite andb_true_iff in H. destruct H as [[[[[H1 H2] H3] _] _] _].
  apply Nat.eqb_eq in H2. apply Nat.eqb_eq in H3.
  rewrite forallb_forall in H1.
  assert (Hin : In (nth i (t_a t) [], nth i (t_c t) 0%Q) (combine (t_a t) (t_c t))).
  { rewrite <- combine_nth by lia. apply nth_In. rewrite combine_length. lia. }
  specialize (H1 _ Hin). cbn [fst snd] in H1. now apply Qeq_bool_eq.
Qed.

Lemma explicit_all :
  forall t, In t methods -> forall i j, i < length (t_a t) -> i <= j ->
    (nth j (nth i (t_a t) []) 0 == 0)%Q.
Proof.
  intros t Ht i j Hi Hij.
  pose proof methods_explicit_ok as H. rewrite forallb_forall in H. specialize (H t Ht).
  unfold explicit_ok in H. rewrite forallb_forall in H.
  assert (Hin : In (i, nth i (t_a t) []) (combine (seq 0 (length (t_a t))) (t_a t))).
  { replace i with (nth i (seq 0 (length (t_a t))) 0) at 1 by (rewrite seq_nth; lia).
    rewrite <- combine_nth by (rewrite seq_length; lia). apply nth_In.
    rewrite combine_length, seq_length. lia. }
  specialize (H _ Hin). cbn [fst snd] in H. rewrite forallb_forall in H.
  destruct (Nat.lt_ge_cases j (length (nth i (t_a t) []))) as [Hj|Hj].
  - assert (Hx : In (nth j (nth i (t_a t) []) 0%Q) (skipn i (nth i (t_a t) []))).
    { replace j with (i + (j - i)) by lia. rewrite <- nth_skipn'. apply nth_In.
      rewrite skipn_length. lia. }
    specialize (H _ Hx). now apply Qeq_bool_eq.
  - rewrite nth_overflow by lia. reflexivity.
Qed.

Lemma ti_coeff_taylor_all :
  forall t, In t methods ->
  forall row p, In (row, p) (combine (ti_coeff t) (t_order t)) ->
  forall k, k <= p -> (nth k row 0 * qfact k == 1)%Q.
Proof.
  intros t Ht row p Hin k Hk.
  pose proof methods_ti_ok as H. rewrite forallb_forall in H. specialize (H t Ht).
  unfold ti_ok in H. rewrite forallb_forall in H. specialize (H _ Hin).
  unfold ti_row_ok in H. cbn [fst snd] in H. rewrite forallb_forall in H.
  apply Qeq_bool_eq. apply H. apply in_seq. lia.
Qed.

Lemma taylor_coeff_exact : forall k, (taylor_coeff k * qfact k == 1)%Q.
Proof.
  intros k. unfold taylor_coeff, qfact.
  assert (Hne : ~ (inject_Z (Z.of_nat (fact k)) == 0)%Q).
  { unfold Qeq. cbn. pose proof (lt_O_fact k). lia. }
  field. exact Hne.
Qed.

Lemma embedded_gap_all : forall t, In t methods -> embedded_gap_ok t = true.
Proof. intros t Ht. pose proof methods_gap_ok as H. rewrite forallb_forall in H. now apply H. Qed.

(* ---- ti_coeff = tall-tree elementary weights (finite domain: the shipped methods, k <= stage) ---- *)
Lemma methods_ti_tall_ok : forallb ti_tall_ok methods = true.
Proof. vm_compute. reflexivity. Qed.

Lemma tall_order k : 1 <= k -> order (tall k) = k.
Proof.
  induction k as [|k IH]; intros Hk; [lia|].
  destruct k as [|k']; [reflexivity|].
  change (tall (S (S k'))) with (Gr Tau (tall (S k'))).
  cbn [order]. rewrite IH by lia. reflexivity.
Qed.

Lemma ti_coeff_tall_all :
  forall t, In t methods ->
  length (ti_coeff t) = length (t_b t) /\
  forall b row, In (b, row) (combine (t_b t) (ti_coeff t)) ->
    length row = S (t_stage t) /\
    forall k, 1 <= k <= t_stage t -> (nth k row 0 == dotq b (Phi (t_a t) (tall k)))%Q.
Proof.
  intros t Ht. pose proof methods_ti_tall_ok as H. rewrite forallb_forall in H.
  specialize (H t Ht). unfold ti_tall_ok in H. apply andb_prop in H. destruct H as [Hl Hr].
  split; [now apply Nat.eqb_eq|].
  intros b row Hin. rewrite forallb_forall in Hr. specialize (Hr _ Hin).
  unfold ti_tall_row_ok in Hr. cbn [fst snd] in Hr. apply andb_prop in Hr. destruct Hr as [Hlen Hk].
  split; [now apply Nat.eqb_eq|].
  intros k Hkr. rewrite forallb_forall in Hk. apply Qeq_bool_eq. apply Hk. apply in_seq. lia.
Qed.

(* ---- unbounded: density of the tall tree, and the Taylor property derived from the conditions ---- *)
Lemma tall_gamma k : 1 <= k -> (gamma (tall k) == qfact k)%Q.
Proof.
  induction k as [|k IH]; intros Hk; [lia|].
  destruct k as [|k']; [vm_compute; reflexivity|].
  change (tall (S (S k'))) with (Gr Tau (tall (S k'))).
  unfold gamma at 1. cbn [cprod].
  change (qm (inject_Z (Z.of_nat (order (tall (S k'))))) (cprod (tall (S k')))) with (gamma (tall (S k'))).
  rewrite !qm_ok. rewrite IH by lia.
  cbn [order]. rewrite tall_order by lia.
  unfold qfact. change (fact (S (S k'))) with (S (S k') * fact (S k')).
  rewrite Nat2Z.inj_mul, inject_Z_mult. change (1 + S k') with (S (S k')).
  change (cprod Tau) with 1%Q. ring.
Qed.

(* the Taylor property of the constant-coefficient expansion is a consequence of the Butcher conditions on
   tall trees: derived, not assumed *)
Lemma ti_coeff_taylor_from_conditions :
  forall t, In t methods ->
  forall b row p, In (b, row) (combine (t_b t) (ti_coeff t)) -> In (b, p) (rows t) ->
  forall k, 1 <= k <= t_stage t -> k <= p -> (nth k row 0 * qfact k == 1)%Q.
Proof.
  intros t Ht b row p Hin Hrow k Hk Hp.
  destruct (ti_coeff_tall_all t Ht) as [_ H]. destruct (H b row Hin) as [_ Hw].
  rewrite (Hw k Hk). rewrite <- (tall_gamma k) by lia.
  apply (order_conditions_all t Ht b p (tall k) Hrow). rewrite tall_order by lia. exact Hp.
Qed.

(* ---- child order is irrelevant (unbounded, every tableau) ---- *)
Lemma qsum_eqv x y : Forall2 Qeq x y -> (qsum x == qsum y)%Q.
Proof.
  induction 1 as [|p q x y Hpq _ IH]; [reflexivity|].
  cbn [qsum fold_right]. rewrite !qa_ok. fold (qsum x). fold (qsum y). rewrite Hpq, IH. reflexivity.
Qed.

Lemma dotq_eqv_r b x y : Forall2 Qeq x y -> (dotq b x == dotq b y)%Q.
Proof.
  intros H. unfold dotq. apply qsum_eqv. revert b.
  induction H as [|p q x y Hpq _ IH]; intros [|b0 b]; cbn [combine map]; try constructor.
  - cbn [fst snd]. rewrite !qm_ok, Hpq. reflexivity.
  - apply IH.
Qed.

Lemma graft_swap_pointwise (f g : list Q -> Q) : forall (l : list (list Q)) (pu : list Q),
  Forall2 Qeq
    (map (fun p => qm (fst p) (g (snd p))) (combine (map (fun p => qm (fst p) (f (snd p))) (combine pu l)) l))
    (map (fun p => qm (fst p) (f (snd p))) (combine (map (fun p => qm (fst p) (g (snd p))) (combine pu l)) l)).
Proof.
  induction l as [|r l IH]; intros [|p pu]; cbn [combine map]; try constructor.
  - cbn [fst snd]. rewrite !qm_ok. ring.
  - apply IH.
Qed.

(* the order in which children are grafted onto a root does not matter: elementary weights, density and
   order of  u[v][w]  and  u[w][v]  coincide, so the Butcher-product terms [bt] quantify over rooted
   trees as unordered objects and the 23 product terms of order <= 5 cover the 17 rooted trees *)
Lemma Phi_graft_swap a u v w : Forall2 Qeq (Phi a (Gr (Gr u v) w)) (Phi a (Gr (Gr u w) v)).
Proof.
  cbn [Phi].
  exact (graft_swap_pointwise (fun r => dotq r (Phi a v)) (fun r => dotq r (Phi a w)) a (Phi a u)).
Qed.

Lemma gamma_graft_swap u v w : (gamma (Gr (Gr u v) w) == gamma (Gr (Gr u w) v))%Q.
Proof.
  unfold gamma. cbn [cprod order]. rewrite !qm_ok.
  rewrite !Nat2Z.inj_add, !inject_Z_plus. ring.
Qed.

Lemma order_graft_swap u v w : order (Gr (Gr u v) w) = order (Gr (Gr u w) v).
Proof. cbn [order]. lia. Qed.

Lemma cond_graft_swap a b u v w :
  (dotq b (Phi a (Gr (Gr u v) w)) * gamma (Gr (Gr u v) w) ==
   dotq b (Phi a (Gr (Gr u w) v)) * gamma (Gr (Gr u w) v))%Q.
Proof. rewrite (dotq_eqv_r b _ _ (Phi_graft_swap a u v w)), gamma_graft_swap. reflexivity. Qed.

(* ---- quadrature conditions on the stored nodes (finite domain: shipped methods, k <= order) ---- *)
Lemma methods_quad_ok : forallb quad_ok methods = true.
Proof. vm_compute. reflexivity. Qed.

Lemma quadrature_all :
  forall t, In t methods -> forall b p, In (b, p) (rows t) -> forall k, 1 <= k <= p ->
    (dotq b (map (fun x => qpow x (k - 1)) (t_c t)) * inject_Z (Z.of_nat k) == 1)%Q.
Proof.
  intros t Ht b p Hin k Hk. pose proof methods_quad_ok as H. rewrite forallb_forall in H.
  specialize (H t Ht). unfold quad_ok in H. rewrite forallb_forall in H. specialize (H _ Hin).
  unfold quad_row_ok in H. cbn [fst snd] in H. rewrite forallb_forall in H.
  apply Qeq_bool_eq. apply H. apply in_seq. lia.
Qed.

(* ---- bushy trees: elementary weight = power of the row sum (unbounded, every matrix) ---- *)
Lemma Forall2_Qeq_refl l : Forall2 Qeq l l.
Proof. induction l; constructor; [reflexivity|assumption]. Qed.

Lemma graft_leaf_pointwise (f g : list Q -> Q) : forall (a : list (list Q)) (x : list Q),
  Forall2 Qeq x (map f a) ->
  Forall2 Qeq (map (fun p => qm (fst p) (g (snd p))) (combine x a)) (map (fun r => qm (g r) (f r)) a).
Proof.
  induction a as [|r a IH]; intros x Hx; inversion Hx as [|x0 y0 xs ys Hxy Hrest]; subst; cbn [combine map].
  - constructor.
  - constructor; [cbn [fst snd]; rewrite !qm_ok, Hxy; ring | apply IH; assumption].
Qed.

Lemma bushy_order n : order (bushy n) = S n.
Proof. induction n as [|n IH]; cbn [bushy order]; [reflexivity|lia]. Qed.

Lemma bushy_cprod n : (cprod (bushy n) == 1)%Q.
Proof.
  induction n as [|n IH]; cbn [bushy cprod order]; [reflexivity|].
  rewrite !qm_ok, IH. reflexivity.
Qed.

Lemma bushy_gamma n : (gamma (bushy n) == inject_Z (Z.of_nat (S n)))%Q.
Proof. unfold gamma. rewrite qm_ok, bushy_cprod, bushy_order. ring. Qed.

Lemma bushy_Phi a n :
  Forall2 Qeq (Phi a (bushy n)) (map (fun r => qpow (dotq r (ones a)) n) a).
Proof.
  induction n as [|n IH].
  - cbn [bushy Phi qpow]. apply Forall2_Qeq_refl.
  - cbn [bushy Phi qpow].
    exact (graft_leaf_pointwise (fun r => qpow (dotq r (ones a)) n) (fun r => dotq r (Phi a Tau)) a _ IH).
Qed.
