(* Proofs about Model/Prop.v: the propagate-and-compress schemes are polynomials in the step operator. *)
From Coq Require Import QArith ZArith List Arith Bool Lia Ring Qcanon.
Import ListNotations.
From RV Require Import Base.CRing Gen.RkTableaux Model.Rk Proofs.RkProofs Model.Prop.
Close Scope Q_scope.
Close Scope Qc_scope.
Module P := RV.Model.Prop.

Section PropProofs.
Variable K : CRing.
Add Ring KR : (rth K).
Variable inj : Q -> K.
Variable V : Type.
Variable mzero : V.
Variable madd : V -> V -> V.
Variable mscale : K -> V -> V.
Variable H : K -> V -> V.
Variable mi : K.

Notation "0" := (r0 K).
Notation "1" := (r1 K).
Infix "+" := (radd K).
Infix "*" := (rmul K).
Notation "- x" := (ropp K x).
Infix "+v" := madd (at level 50, left associativity).
Infix "*v" := mscale (at level 40, left associativity).

(* inj is a ring homomorphism from the rationals *)
Hypothesis inj_eq : forall a b : Q, (a == b)%Q -> inj a = inj b.
Hypothesis inj_add : forall a b : Q, inj (a + b)%Q = inj a + inj b.
Hypothesis inj_mul : forall a b : Q, inj (a * b)%Q = inj a * inj b.
Hypothesis inj_1 : inj 1%Q = 1.
(* K-module laws *)
Hypothesis madd_comm : forall u v, u +v v = v +v u.
Hypothesis madd_assoc : forall u v w, (u +v v) +v w = u +v (v +v w).
Hypothesis madd_0_r : forall u, u +v mzero = u.
Hypothesis mscale_add_r : forall a u v, a *v (u +v v) = a *v u +v a *v v.
Hypothesis mscale_add_l : forall a b u, (a + b) *v u = a *v u +v b *v u.
Hypothesis mscale_mul : forall a b u, (a * b) *v u = a *v (b *v u).
Hypothesis mscale_1 : forall u, 1 *v u = u.
Hypothesis mscale_0 : forall u, 0 *v u = mzero.

Lemma inj_0 : inj 0%Q = 0.
Proof.
  assert (E : inj 0%Q + inj 0%Q = inj 0%Q) by (rewrite <- inj_add; apply inj_eq; reflexivity).
  assert (E2 : inj 0%Q = inj 0%Q + inj 0%Q + - inj 0%Q) by ring.
  rewrite E in E2. rewrite E2. ring.
Qed.

Lemma ring_mul_comm_k (a b : K) : a * b = b * a.
Proof. ring. Qed.

Lemma madd_0_l u : mzero +v u = u.
Proof. rewrite madd_comm. apply madd_0_r. Qed.

Lemma mscale_zero a : a *v mzero = mzero.
Proof. rewrite <- (mscale_0 mzero), <- mscale_mul. replace (a * 0) with 0 by ring. reflexivity. Qed.

Local Notation bigsum := (bigsum V mzero madd).
Local Notation vsum1 := (vsum1 V madd).
Local Notation csum_fuel := (csum_fuel V madd).
Local Notation csum := (csum V madd).
Local Notation csumT := (csumT V mzero madd).
Local Notation pev := (pev K inj V mzero madd mscale).
Local Notation rk_terms := (rk_terms K inj V mscale).
Local Notation rk_stages := (rk_stages K inj V mzero madd mscale H mi).
Local Notation rk_klist := (rk_klist K inj V mzero madd mscale H mi).
Local Notation rk_row := (rk_row K inj V mzero madd mscale H mi).
Local Notation rk_step := (rk_step K inj V mzero madd mscale H mi).
Local Notation rk_error := (rk_error K inj V mzero madd mscale H mi).
Local Notation tdrk4 := (tdrk4 K inj V mzero madd mscale H mi).
Local Notation stepop := (stepop K V mscale mi).
Local Notation termlist := (termlist V).
Local Notation taylor_terms := (taylor_terms V).
Local Notation taylor_scaled := (taylor_scaled K inj V mscale mi).
Local Notation taylor_step := (taylor_step K inj V mzero madd mscale mi).
Local Notation taylor_pair := (taylor_pair K inj V mzero madd mscale mi).
Local Notation rpow := (rpow K).

(* ------------------------------------------------------------------ sums ------------------- *)
Lemma bigsum_app q1 q2 : bigsum (q1 ++ q2) = bigsum q1 +v bigsum q2.
Proof.
  induction q1 as [|x q1 IH]; cbn [app P.bigsum fold_right].
  - now rewrite madd_0_l.
  - fold (bigsum (q1 ++ q2)). fold (bigsum q1). rewrite IH, madd_assoc. reflexivity.
Qed.

Lemma vsum1_bigsum h t : vsum1 h t = bigsum (h :: t).
Proof.
  unfold P.vsum1. revert h. induction t as [|x t IH]; intros h; cbn [fold_left].
  - cbn. now rewrite madd_0_r.
  - rewrite IH. cbn [P.bigsum fold_right]. now rewrite madd_assoc.
Qed.

(* compressed_sum is the plain sum for every batch size >= 2 and every non-empty list, whatever the
   order in which the queue regroups the terms *)
Lemma csum_fuel_sum b : 2 <= b -> forall fuel q, q <> [] -> length q <= fuel ->
  csum_fuel fuel b q = Some (bigsum q).
Proof.
  intros Hb. induction fuel as [|f IH]; intros q Hq Hl.
  - destruct q; [congruence|cbn in Hl; lia].
  - destruct q as [|x [|x2 q]]; [congruence| |].
    + cbn. now rewrite madd_0_r.
    + cbn [P.csum_fuel].
      set (qq := x :: x2 :: q) in *.
      assert (Hn : 2 <= Nat.min b (length qq)) by (subst qq; cbn [length]; lia).
      set (n := Nat.min b (length qq)) in *.
      assert (Hn2 : n <= length qq) by (subst n; lia).
      pose proof (firstn_skipn n qq) as Hfs.
      pose proof (firstn_length_le qq Hn2) as Hfl.
      destruct (firstn n qq) as [|h t] eqn:Ef; [cbn in Hfl; lia|].
      rewrite IH.
      * f_equal. rewrite bigsum_app, vsum1_bigsum.
        change (bigsum [bigsum (h :: t)]) with (bigsum (h :: t) +v mzero).
        rewrite madd_0_r, madd_comm, <- bigsum_app, Hfs. reflexivity.
      * intros E. apply app_eq_nil in E. destruct E; discriminate.
      * rewrite app_length, skipn_length. cbn [length] in *. lia.
Qed.

Lemma csum_sum b q : 2 <= b -> q <> [] -> csum b q = Some (bigsum q).
Proof. intros. unfold P.csum. apply csum_fuel_sum; auto. Qed.

Lemma csumT_sum b q : 2 <= b -> q <> [] -> csumT b q = bigsum q.
Proof. intros Hb Hq. unfold P.csumT. fold (csum b q). now rewrite csum_sum. Qed.

(* batch size one never finishes on two or more terms (the model runs out of any fuel) *)
Lemma csum_fuel_batch1_diverges : forall fuel q, 2 <= length q -> csum_fuel fuel 1 q = None.
Proof.
  induction fuel as [|f IH]; intros q Hl; [reflexivity|].
  destruct q as [|x [|x2 q]]; cbn in Hl; try lia.
  cbn [P.csum_fuel length Nat.min firstn skipn]. apply IH.
  rewrite app_length. cbn. lia.
Qed.

(* ------------------------------------------------------------------ pev -------------------- *)
Section WithX.
Variable X : V -> V.
Hypothesis X_add : forall u v, X (u +v v) = X u +v X v.
Hypothesis X_scale : forall a u, X (a *v u) = a *v X u.

Lemma X_zero : X mzero = mzero.
Proof. transitivity (X (0 *v mzero)); [now rewrite mscale_0|]. rewrite X_scale. apply mscale_0. Qed.

Lemma pev_X p : forall w, X (pev X p w) = pev X p (X w).
Proof.
  induction p as [|c p IH]; intros w; cbn [P.pev].
  - apply X_zero.
  - rewrite X_add, X_scale, IH. reflexivity.
Qed.

Lemma pev_ext p p' : Forall2 Qeq p p' -> forall w, pev X p w = pev X p' w.
Proof.
  induction 1 as [|c c' p p' Hc Hp IH]; intros w; cbn [P.pev]; [reflexivity|].
  rewrite (inj_eq _ _ Hc), IH. reflexivity.
Qed.

Lemma pev_zeros n : forall w, pev X (zeros n) w = mzero.
Proof.
  induction n as [|n IH]; intros w; cbn [zeros repeat P.pev]; [reflexivity|].
  fold (zeros n). rewrite IH, inj_0, mscale_0. apply madd_0_r.
Qed.

Lemma madd_swap4 a b c d : (a +v b) +v (c +v d) = (a +v c) +v (b +v d).
Proof.
  rewrite madd_assoc, <- (madd_assoc b c d), (madd_comm b c), madd_assoc, <- madd_assoc. reflexivity.
Qed.

Lemma pev_vadd p : forall q w, length p = length q ->
  pev X (Rk.vadd p q) w = pev X p w +v pev X q w.
Proof.
  induction p as [|c p IH]; intros [|d q] w Hl; cbn in Hl; try discriminate.
  - cbn. now rewrite madd_0_r.
  - unfold Rk.vadd. cbn [combine map fst snd P.pev]. fold (Rk.vadd p q).
    rewrite (inj_eq _ _ (qa_ok c d)), inj_add, mscale_add_l, IH by lia.
    apply madd_swap4.
Qed.

Lemma pev_vscale a p : forall w, pev X (Rk.vscale a p) w = inj a *v pev X p w.
Proof.
  induction p as [|c p IH]; intros w; unfold Rk.vscale; cbn [map P.pev].
  - now rewrite mscale_zero.
  - fold (Rk.vscale a p). rewrite (inj_eq _ _ (qm_ok a c)), inj_mul, IH, mscale_add_r, mscale_mul. reflexivity.
Qed.

Lemma vadd_length p q : length (Rk.vadd p q) = Nat.min (length p) (length q).
Proof. unfold Rk.vadd. now rewrite map_length, combine_length. Qed.
Lemma vscale_length a p : length (Rk.vscale a p) = length p.
Proof. unfold Rk.vscale. now rewrite map_length. Qed.
Lemma zeros_length n : length (zeros n) = n.
Proof. apply repeat_length. Qed.

(* weighted sums of coefficient rows: [ps] is the list of (weight, row) pairs *)
Definition lc (n : nat) (ps : list (Q * list Q)) : list Q :=
  fold_right Rk.vadd (zeros n) (map (fun p => Rk.vscale (fst p) (snd p)) ps).

Lemma lincomb_lc n w rws : lincomb n w rws = lc n (combine w rws).
Proof. reflexivity. Qed.

Lemma lc_length n ps : Forall (fun p => length (snd p) = n) ps -> length (lc n ps) = n.
Proof.
  induction 1 as [|p ps Hp _ IH]; cbn [lc map fold_right]; [apply zeros_length|].
  fold (lc n ps). rewrite vadd_length, vscale_length, IH, Hp. lia.
Qed.

Lemma pev_lc n ps : Forall (fun p => length (snd p) = n) ps -> forall w,
  pev X (lc n ps) w = P.bigsum V mzero madd (map (fun p => inj (fst p) *v pev X (snd p) w) ps).
Proof.
  induction 1 as [|p ps Hp Hps IH]; intros w; cbn [lc map fold_right P.bigsum].
  - apply pev_zeros.
  - fold (lc n ps). rewrite pev_vadd, pev_vscale, IH; [reflexivity|].
    rewrite vscale_length, lc_length; auto.
Qed.

(* coefficients vanishing from index d on *)
Definition zfrom (d : nat) (l : list Q) : Prop := forall m, d <= m -> (nth m l 0 == 0)%Q.

Lemma zfrom_mono d d' l : d <= d' -> zfrom d l -> zfrom d' l.
Proof. intros Hd Hz m Hm. apply Hz. lia. Qed.

Lemma nth_vscale a l m : (nth m (Rk.vscale a l) 0 == a * nth m l 0)%Q.
Proof.
  unfold Rk.vscale. revert m. induction l as [|c l IH]; intros [|m]; cbn [map nth].
  - ring. - ring.
  - apply qm_ok.
  - apply IH.
Qed.

Lemma nth_vadd p : forall q m, length p = length q ->
  (nth m (Rk.vadd p q) 0 == nth m p 0 + nth m q 0)%Q.
Proof.
  unfold Rk.vadd. induction p as [|c p IH]; intros [|d q] m Hl; cbn in Hl; try discriminate.
  - destruct m; cbn; ring.
  - destruct m as [|m]; cbn [combine map nth fst snd].
    + apply qa_ok.
    + apply IH. lia.
Qed.

Lemma nth_zeros n m : nth m (zeros n) 0%Q = 0%Q.
Proof. unfold zeros. revert m. induction n; intros [|m]; cbn; auto. Qed.

Lemma zfrom_lc d n ps : Forall (fun p => length (snd p) = n) ps ->
  Forall (fun p => zfrom d (snd p)) ps -> zfrom d (lc n ps).
Proof.
  intros Hl. induction Hl as [|p ps Hp Hps IH]; intros Hz m Hm; cbn [lc map fold_right].
  - now rewrite nth_zeros.
  - fold (lc n ps). inversion Hz as [|? ? Hz1 Hz2]; subst.
    rewrite nth_vadd by (rewrite vscale_length, lc_length; auto).
    rewrite nth_vscale, (Hz1 m Hm), (IH Hz2 m Hm). ring.
Qed.

Lemma pev_removelast l : forall w, (nth (length l - 1) l 0 == 0)%Q -> pev X (removelast l) w = pev X l w.
Proof.
  induction l as [|c l IH]; intros w Hz; [reflexivity|].
  destruct l as [|c2 l].
  - cbn in Hz. cbn [removelast P.pev]. rewrite (inj_eq _ _ Hz), inj_0, mscale_0. now rewrite madd_0_r.
  - change (removelast (c :: c2 :: l)) with (c :: removelast (c2 :: l)).
    change (pev X (c :: removelast (c2 :: l)) w) with (inj c *v w +v pev X (removelast (c2 :: l)) (X w)).
    change (pev X (c :: c2 :: l) w) with (inj c *v w +v pev X (c2 :: l) (X w)).
    f_equal. apply IH.
    cbn [length] in *. replace (S (S (length l)) - 1) with (S (length l)) in Hz by lia.
    replace (S (length l) - 1) with (length l) by lia. exact Hz.
Qed.

Lemma removelast_length {A} (l : list A) : length (removelast l) = length l - 1.
Proof.
  induction l as [|c l IH]; [reflexivity|]. destruct l as [|c2 l]; [reflexivity|].
  change (removelast (c :: c2 :: l)) with (c :: removelast (c2 :: l)).
  cbn [length] in *. rewrite IH. lia.
Qed.

Lemma nth_removelast (l : list Q) m : m < length l - 1 -> nth m (removelast l) 0%Q = nth m l 0%Q.
Proof.
  revert m. induction l as [|c l IH]; intros m Hm; [reflexivity|].
  destruct l as [|c2 l]; [cbn in Hm; lia|].
  change (removelast (c :: c2 :: l)) with (c :: removelast (c2 :: l)).
  destruct m as [|m]; [reflexivity|]. cbn [nth]. apply IH. cbn [length] in *. lia.
Qed.

End WithX.

(* ------------------------------------------------------------------ RK stage loop ---------- *)
Lemma bigsum_rk_terms tau coef ks :
  bigsum (rk_terms tau coef ks) =
  bigsum (map (fun p => inj (fst p) *v (tau *v snd p)) (combine coef ks)).
Proof.
  unfold P.rk_terms. induction (combine coef ks) as [|[c k] ps IH]; [reflexivity|].
  cbn [flat_map map fst snd]. rewrite bigsum_app, IH.
  cbn [P.bigsum fold_right]. f_equal.
  destruct (Qeq_bool c 0) eqn:E.
  - apply Qeq_bool_eq in E. rewrite (inj_eq _ _ E), inj_0, mscale_0. reflexivity.
  - cbn [P.bigsum fold_right]. rewrite madd_0_r, mscale_mul. reflexivity.
Qed.

Lemma csumT_y_terms y tau coef ks :
  csumT 6 (y :: rk_terms tau coef ks) =
  y +v bigsum (map (fun p => inj (fst p) *v (tau *v snd p)) (combine coef ks)).
Proof.
  rewrite csumT_sum by (try lia; discriminate).
  cbn [P.bigsum fold_right]. fold (bigsum (rk_terms tau coef ks)). now rewrite bigsum_rk_terms.
Qed.

Section TimeIndependent.
Variable H0 : V -> V.
Hypothesis H_ti : forall t v, H t v = H0 v.
Hypothesis H0_add : forall u v, H0 (u +v v) = H0 u +v H0 v.
Hypothesis H0_scale : forall a u, H0 (a *v u) = a *v H0 u.

Variable tau : K.
Notation X := (stepop H0 tau).

Lemma X_add u v : X (u +v v) = X u +v X v.
Proof. unfold P.stepop. now rewrite H0_add, mscale_add_r. Qed.
Lemma X_scale a u : X (a *v u) = a *v X u.
Proof.
  unfold P.stepop. rewrite H0_scale, <- !mscale_mul. f_equal. ring.
Qed.

Lemma X_bigsum q : X (bigsum q) = bigsum (map X q).
Proof.
  induction q as [|x q IH]; cbn [P.bigsum fold_right map].
  - apply (X_zero X X_scale).
  - fold (bigsum q). fold (bigsum (map X q)). now rewrite X_add, IH.
Qed.

(* tau . ( mi . H (arg) ) = X arg *)
Lemma tau_k t arg : tau *v (mi *v H t arg) = X arg.
Proof. unfold P.stepop. rewrite H_ti, <- mscale_mul. f_equal. ring. Qed.

Lemma combine_app_eq {A B} (l1 l2 : list A) (r1 r2 : list B) :
  length l1 = length r1 -> combine (l1 ++ l2) (r1 ++ r2) = combine l1 r1 ++ combine l2 r2.
Proof.
  revert r1. induction l1 as [|a l1 IH]; intros [|b r1] Hl; cbn in Hl; try discriminate; [reflexivity|].
  cbn. f_equal. apply IH. lia.
Qed.

Lemma combine_firstn_l {A B} (l : list A) (r : list B) :
  combine l r = combine (firstn (length r) l) r.
Proof.
  revert r. induction l as [|a l IH]; intros [|b r]; cbn; auto. f_equal. apply IH.
Qed.

Lemma bigsum_zero_terms {A} (f : A -> V) (l : list A) :
  (forall x, In x l -> f x = mzero) -> bigsum (map f l) = mzero.
Proof.
  induction l as [|x l IH]; intros Hf; [reflexivity|].
  cbn [map P.bigsum fold_right]. fold (bigsum (map f l)).
  rewrite Hf by (now left). rewrite IH by (intros; apply Hf; now right). apply madd_0_r.
Qed.

Lemma bigsum_map_ext {A} (f g : A -> V) (l : list A) :
  (forall x, In x l -> f x = g x) -> bigsum (map f l) = bigsum (map g l).
Proof.
  induction l as [|x l IH]; intros Hf; [reflexivity|].
  cbn [map P.bigsum fold_right]. fold (bigsum (map f l)). fold (bigsum (map g l)).
  rewrite Hf by (now left). rewrite IH by (intros; apply Hf; now right). reflexivity.
Qed.

(* sum over pairs (coefficient, stage vector) versus (coefficient, coefficient row), when each scaled
   stage vector tau.k_j is the evaluation of row j *)
Lemma pairs_sum (w : V) : forall (coef : list Q) (ks : list V) (rows : list (list Q)),
  Forall2 (fun k row => tau *v k = pev X row w) ks rows ->
  bigsum (map (fun p => inj (fst p) *v (tau *v snd p)) (combine coef ks)) =
  bigsum (map (fun p => inj (fst p) *v pev X (snd p) w) (combine coef rows)).
Proof.
  intros coef ks rows HF. revert coef. induction HF as [|k row ks rows Hk HF IH]; intros [|c coef]; try reflexivity.
  cbn [combine map fst snd P.bigsum fold_right].
  fold (bigsum (map (fun p => inj (fst p) *v (tau *v snd p)) (combine coef ks))).
  fold (bigsum (map (fun p => inj (fst p) *v pev X (snd p) w) (combine coef rows))).
  rewrite Hk, IH. reflexivity.
Qed.

(* the invariant of the stage loop against Rk.ti_rows *)
Lemma rk_stages_ti_rows (ns : nat) (t0 : K) (y : V) :
  forall (arows : list (list Q)) (cs : list Q) (ks : list V) (done : list (list Q)),
  Forall (fun r => length r = ns) arows ->
  (length done + length arows = ns)%nat ->
  Forall2 (fun k row => tau *v k = pev X row (X y)) ks done ->
  Forall (fun r => length r = ns) done ->
  Forall (zfrom (length done)) done ->
  Forall2 (fun k row => tau *v k = pev X row (X y)) (rk_stages tau t0 y arows cs ks) (ti_rows ns arows done)
  /\ Forall (fun r => length r = ns) (ti_rows ns arows done).
Proof.
  induction arows as [|ai rest IH]; intros cs ks done Ha Hlen HF Hdl Hz; cbn [P.rk_stages ti_rows].
  - split; assumption.
  - pose proof (Forall_inv Ha) as Hai. pose proof (Forall_inv_tail Ha) as Hrest. cbn beta in Hai.
    cbn [length] in Hlen.
    set (i := length done) in *.
    set (padded := done ++ repeat (zeros ns) (ns - i)).
    set (v := lincomb ns ai padded).
    set (newrow := (1%Q :: removelast v)).
    set (arg := csumT 6 (y :: rk_terms tau ai ks)).
    set (k := mi *v H (inj (hd 0%Q cs) * tau + t0) arg).
    assert (Hpl : Forall (fun p : Q * list Q => length (snd p) = ns) (combine ai padded)).
    { apply Forall_forall. intros [c r] Hin. apply in_combine_r in Hin. cbn [snd].
      unfold padded in Hin. apply in_app_or in Hin. destruct Hin as [Hin|Hin].
      - rewrite Forall_forall in Hdl. now apply Hdl.
      - apply repeat_spec in Hin. subst r. apply zeros_length. }
    assert (Hvl : length v = ns).
    { unfold v. rewrite lincomb_lc. now apply lc_length. }
    assert (Hvz : zfrom i v).
    { unfold v. rewrite lincomb_lc. apply zfrom_lc; [exact Hpl|].
      apply Forall_forall. intros [c r] Hin. apply in_combine_r in Hin. cbn [snd].
      unfold padded in Hin. apply in_app_or in Hin. destruct Hin as [Hin|Hin].
      - rewrite Forall_forall in Hz. now apply Hz.
      - apply repeat_spec in Hin. subst r. intros m _. now rewrite nth_zeros. }
    assert (Hk : tau *v k = pev X newrow (X y)).
    { unfold k. rewrite tau_k. unfold arg. rewrite csumT_y_terms.
      rewrite (pairs_sum (X y) ai ks done HF). rewrite X_add.
      unfold newrow. cbn [P.pev]. rewrite inj_1, mscale_1. f_equal.
      rewrite (pev_removelast X) by (rewrite Hvl; apply Hvz; lia).
      rewrite <- (pev_X X X_add X_scale). f_equal.
      unfold v. rewrite lincomb_lc, (pev_lc X _ _ Hpl).
      unfold padded.
      rewrite <- (firstn_skipn i ai) at 2.
      rewrite combine_app_eq by (rewrite firstn_length; lia).
      rewrite map_app, bigsum_app.
      rewrite (bigsum_zero_terms _ (combine (skipn i ai) _)).
      2:{ intros [c r] Hin. apply in_combine_r in Hin. apply repeat_spec in Hin. cbn [fst snd]. subst r.
          rewrite (pev_zeros X), mscale_zero. reflexivity. }
      rewrite madd_0_r. rewrite (combine_firstn_l ai done). reflexivity. }
    apply IH.
    + exact Hrest.
    + rewrite app_length. cbn [length]. lia.
    + apply Forall2_app; [exact HF|]. constructor; [exact Hk|constructor].
    + apply Forall_app. split; [exact Hdl|]. constructor; [|constructor].
      unfold newrow. cbn [length]. rewrite removelast_length, Hvl. lia.
    + rewrite app_length. cbn [length]. apply Forall_app. split.
      * eapply Forall_impl; [|exact Hz]. intros r Hr. eapply zfrom_mono; [|exact Hr]. lia.
      * constructor; [|constructor]. intros m Hm. unfold newrow.
        destruct m as [|m]; [lia|]. cbn [nth].
        destruct (Nat.lt_ge_cases m (length v - 1)) as [Hlt|Hge].
        -- rewrite nth_removelast by exact Hlt. apply Hvz. lia.
        -- rewrite nth_overflow by (rewrite removelast_length; lia). reflexivity.
Qed.

Lemma nth_map_default {A B} (f : A -> B) (l : list A) (d : A) (d' : B) n :
  (n < length l)%nat -> nth n (map f l) d' = f (nth n l d).
Proof. intros Hn. rewrite (nth_indep _ d' (f d)) by (now rewrite map_length). apply map_nth. Qed.

Lemma shape_ok_spec t : shape_ok t = true ->
  length (t_a t) = t_stage t /\ Forall (fun r => length r = t_stage t) (t_a t)
  /\ Forall (fun r => length r = t_stage t) (t_b t) /\ (1 <= length (t_b t))%nat.
Proof.
  unfold shape_ok. rewrite !andb_true_iff. intros [[[H1 H2] H3] H4].
  apply Nat.eqb_eq in H1. apply Nat.leb_le in H4. rewrite forallb_forall in H2, H3.
  repeat split; auto; apply Forall_forall; intros r Hr; apply Nat.eqb_eq; auto.
Qed.

(* every row r of b (r = 0: the propagated solution): the stage loop returns the polynomial whose
   coefficients are row r of Rk.ti_coeff, evaluated in the step operator X = (mi*tau).H0 *)
Lemma rk_row_poly t r t0 y : shape_ok t = true -> (r < length (t_b t))%nat ->
  rk_row t r tau t0 y = pev X (nth r (ti_coeff t) []) y.
Proof.
  intros Hs Hr. destruct (shape_ok_spec t Hs) as (Ha & Har & Hbr & Hb1).
  unfold P.rk_row, P.rk_klist, ti_coeff.
  rewrite (nth_map_default _ _ []) by exact Hr.
  destruct (rk_stages_ti_rows (t_stage t) t0 y (t_a t) (t_c t) [] []) as [HF Hl];
    try solve [constructor]; [exact Har|cbn [length]; lia|].
  set (sub := ti_rows (t_stage t) (t_a t) []) in *.
  set (b := nth r (t_b t) []).
  rewrite csumT_y_terms, (pairs_sum (X y) b _ sub HF).
  cbn [P.pev]. rewrite inj_1, mscale_1. f_equal.
  rewrite lincomb_lc, (pev_lc X); [reflexivity|].
  apply Forall_forall. intros [c row] Hin. apply in_combine_r in Hin. cbn [snd].
  rewrite Forall_forall in Hl. now apply Hl.
Qed.

Lemma rk_ti_poly_ti t t0 y : shape_ok t = true ->
  rk_step t tau t0 y = pev X (nth 0 (ti_coeff t) []) y.
Proof.
  intros Hs. apply rk_row_poly; [exact Hs|]. destruct (shape_ok_spec t Hs) as (_ & _ & _ & Hb1). lia.
Qed.

End TimeIndependent.
(* ------------------------------------------------------------------ embedded pair ---------- *)
Lemma diff_sum : forall (b0 b1 : list Q) (ks : list V), length b0 = length b1 ->
  bigsum (map (fun p => inj (fst p) *v (snd p)) (combine (map (fun p => (fst p - snd p)%Q) (combine b0 b1)) ks))
  +v bigsum (map (fun p => inj (fst p) *v (snd p)) (combine b1 ks))
  = bigsum (map (fun p => inj (fst p) *v (snd p)) (combine b0 ks)).
Proof.
  induction b0 as [|x b0 IH]; intros [|z b1] ks Hl; cbn in Hl; try discriminate.
  - cbn. apply madd_0_r.
  - destruct ks as [|k ks]; [cbn; apply madd_0_r|].
    cbn [combine map fst snd P.bigsum fold_right].
    set (A := bigsum (map (fun p => inj (fst p) *v snd p) (combine (map (fun p => (fst p - snd p)%Q) (combine b0 b1)) ks))).
    set (B := bigsum (map (fun p => inj (fst p) *v snd p) (combine b1 ks))).
    fold (bigsum (map (fun p => inj (fst p) *v snd p) (combine b0 ks))).
    rewrite madd_swap4. rewrite <- (IH b1 ks) by lia. fold A B. f_equal.
    rewrite <- mscale_add_l, <- inj_add. f_equal. apply inj_eq. ring.
Qed.

Lemma combine_map_tau tau (ks : list V) : forall c : list Q,
  map (fun p => inj (fst p) *v snd p) (combine c (map (fun k => tau *v k) ks))
  = map (fun p => inj (fst p) *v (tau *v snd p)) (combine c ks).
Proof.
  induction ks as [|k ks0 IHk]; intros [|c0 c]; try reflexivity.
  cbn [map combine fst snd]. f_equal. apply IHk.
Qed.

(* error vector + embedded (row 1) solution = propagated (row 0) solution; no hypothesis on H *)
Lemma rk_error_embedded t tau t0 y :
  length (nth 0 (t_b t) []) = length (nth 1 (t_b t) []) ->
  rk_error t tau t0 y +v rk_row t 1 tau t0 y = rk_row t 0 tau t0 y.
Proof.
  intros Hl. unfold P.rk_error, P.rk_row.
  set (ks := rk_klist t tau t0 y). set (b0 := nth 0 (t_b t) []) in *. set (b1 := nth 1 (t_b t) []) in *.
  set (diff := map (fun p => (fst p - snd p)%Q) (combine b0 b1)).
  assert (E : match rk_terms tau diff ks with [] => mzero | h :: tl_ => vsum1 h tl_ end = bigsum (rk_terms tau diff ks)).
  { destruct (rk_terms tau diff ks); [reflexivity|apply vsum1_bigsum]. }
  rewrite E, bigsum_rk_terms, !csumT_y_terms.
  rewrite <- madd_assoc, (madd_comm _ y), madd_assoc. f_equal.
  pose proof (diff_sum b0 b1 (map (fun k => tau *v k) ks) Hl) as D.
  pose proof (combine_map_tau tau ks) as M.
  rewrite !M in D. exact D.
Qed.

(* ------------------------------------------------------------------ hard-coded RK4 ---------- *)
Section Tdrk4.
(* time-DEPENDENT operator: no hypothesis on H at all is needed for this equality *)
Lemma tdrk4_is_rk_step_tab5 dt y : tdrk4 dt y = rk_step tab_5 dt 0 y.
Proof.
  unfold P.tdrk4, P.rk_step, P.rk_row, P.rk_klist.
  cbn.
  assert (E0 : inj 0%Q * dt + 0 = 0) by (rewrite inj_0; ring).
  assert (Eh : inj (1 # 2) * dt + 0 = inj (1 # 2) * dt) by ring.
  assert (E1 : inj 1%Q * dt + 0 = dt) by (rewrite inj_1; ring).
  assert (E1' : inj 1%Q * dt = dt) by (rewrite inj_1; ring).
  assert (E26 : inj (2 # 6) = inj (1 # 3)) by (apply inj_eq; reflexivity).
  rewrite E0, Eh, E1, E1', E26. reflexivity.
Qed.
End Tdrk4.

(* ------------------------------------------------------------------ Taylor ----------------- *)
Section Taylor.
Variable H0 : V -> V.
Hypothesis H0_scale : forall a u, H0 (a *v u) = a *v H0 u.
Variable dt : K.
Notation X := (stepop H0 dt).
Notation s := (mi * dt).

Lemma taylor_sum_gen (c : nat -> Q) : forall n a w,
  bigsum (map (fun p => (rpow s (fst p) * inj (c (fst p))) *v snd p)
              (combine (seq a (S n)) (w :: termlist H0 n w)))
  = pev X (map c (seq a (S n))) (rpow s a *v w).
Proof.
  induction n as [|n IH]; intros a w.
  - cbn [seq P.termlist combine map P.bigsum fold_right fst snd P.pev].
    rewrite !madd_0_r, (ring_mul_comm_k (rpow s a)), mscale_mul. reflexivity.
  - change (seq a (S (S n))) with (a :: seq (S a) (S n)).
    change (termlist H0 (S n) w) with (H0 w :: termlist H0 n (H0 w)).
    cbn [combine map P.bigsum fold_right fst snd P.pev].
    fold (bigsum (map (fun p => (rpow s (fst p) * inj (c (fst p))) *v snd p)
                      (combine (seq (S a) (S n)) (H0 w :: termlist H0 n (H0 w))))).
    rewrite IH. f_equal.
    + rewrite (ring_mul_comm_k (rpow s a)), mscale_mul. reflexivity.
    + f_equal. unfold P.stepop. rewrite H0_scale, <- mscale_mul. reflexivity.
Qed.

Lemma taylor_scaled_ne N y : taylor_scaled H0 dt N y <> [].
Proof. unfold P.taylor_scaled, P.taylor_terms. cbn [seq combine map]. discriminate. Qed.

(* the Taylor scheme returns sum_{k<=N} taylor_coeff k . X^k y *)
Lemma taylor_poly_ti N y : taylor_step H0 dt N y = pev X (tcoefs N) y.
Proof.
  unfold P.taylor_step. rewrite csumT_sum by (try lia; apply taylor_scaled_ne).
  unfold P.taylor_scaled, P.taylor_terms, tcoefs. rewrite (taylor_sum_gen taylor_coeff N 0 y).
  cbn [P.rpow]. now rewrite mscale_1.
Qed.

Lemma iter_succ_r {A} (f : A -> A) n x : Nat.iter (S n) f x = Nat.iter n f (f x).
Proof. induction n as [|n IH]; [reflexivity|]. cbn [Nat.iter nat_rect] in *. now rewrite IH. Qed.

Lemma termlist_snoc : forall n w, termlist H0 (S n) w = termlist H0 n w ++ [Nat.iter (S n) H0 w].
Proof.
  induction n as [|n IH]; intros w; [reflexivity|].
  change (termlist H0 (S (S n)) w) with (H0 w :: termlist H0 (S n) (H0 w)).
  rewrite IH. change (termlist H0 (S n) w) with (H0 w :: termlist H0 n (H0 w)).
  cbn [app]. do 3 f_equal. rewrite <- !iter_succ_r. reflexivity.
Qed.

Lemma termlist_length : forall n w, length (termlist H0 n w) = n.
Proof. induction n as [|n IH]; intros w; cbn [P.termlist length]; [reflexivity|]. now rewrite IH. Qed.

Lemma taylor_scaled_snoc N y : exists x,
  taylor_scaled H0 dt (S N) y = taylor_scaled H0 dt N y ++ [x].
Proof.
  unfold P.taylor_scaled, P.taylor_terms. rewrite termlist_snoc.
  rewrite (seq_S (S N) 0). change (y :: termlist H0 N y ++ [Nat.iter (S N) H0 y])
    with ((y :: termlist H0 N y) ++ [Nat.iter (S N) H0 y]).
  rewrite combine_app_eq by (cbn [length]; rewrite seq_length, termlist_length; reflexivity).
  rewrite map_app. eexists. reflexivity.
Qed.

(* the adaptive branch: new_mps2 is the order-(N+1) polynomial, new_mps1 the order-N one *)
Lemma taylor_pair_poly N y :
  taylor_pair H0 dt (S N) y = (pev X (tcoefs N) y, pev X (tcoefs (S N)) y).
Proof.
  unfold P.taylor_pair. destruct (taylor_scaled_snoc N y) as [x Hx].
  pose proof (taylor_poly_ti (S N) y) as E2. unfold P.taylor_step in E2.
  rewrite Hx in *. rewrite removelast_last, last_last.
  pose proof (taylor_poly_ti N y) as E1. unfold P.taylor_step in E1.
  rewrite E1. f_equal. rewrite <- E2, <- E1.
  rewrite !csumT_sum; try lia; try discriminate; try apply taylor_scaled_ne;
    try (intros E; apply app_eq_nil in E; destruct E; discriminate).
  rewrite bigsum_app. reflexivity.
Qed.
End Taylor.

(* ------------------------------------------------------------------ imaginary time --------- *)
Lemma pev_ext_fun (X X' : V -> V) : (forall v, X v = X' v) -> forall p w, pev X p w = pev X' p w.
Proof.
  intros HX. induction p as [|c p IH]; intros w; cbn [P.pev]; [reflexivity|]. now rewrite IH, HX.
Qed.

(* evolve_dt = -i tau together with .scale(-1j):  (-i)(-i tau) = -tau *)
Lemma stepop_imag (H0 : V -> V) tau : mi * mi = ropp K 1 -> forall v, stepop H0 (mi * tau) v = (- tau) *v H0 v.
Proof. intros Hm v. unfold P.stepop. f_equal. transitivity (mi * mi * tau); [ring|]. rewrite Hm. ring. Qed.

End PropProofs.


(* ================================================================== closed statements ======= *)
Lemma qeq_list_spec : forall a b, qeq_list a b = true -> Forall2 Qeq a b.
Proof.
  induction a as [|x a IH]; intros [|y b] Hq; cbn in Hq; try discriminate; constructor.
  - apply andb_true_iff in Hq. apply Qeq_bool_eq. tauto.
  - apply IH. apply andb_true_iff in Hq. tauto.
Qed.

Lemma methods_shape_ok : forallb shape_ok methods = true.
Proof. vm_compute. reflexivity. Qed.
Lemma methods_order_prefix_ok :
  forallb (fun t => forallb (order_prefix_ok t) (seq 0 (length (t_b t)))) methods = true.
Proof. vm_compute. reflexivity. Qed.
Lemma methods_embedded_len :
  forallb (fun t => Nat.eqb (length (nth 0 (t_b t) [])) (length (nth 1 (t_b t) []))
                    || Nat.eqb (length (t_b t)) 1) methods = true.
Proof. vm_compute. reflexivity. Qed.

Section Closed.
Variable K : CRing.
Variable inj : Q -> K.
Variable V : Type.
Variable mzero : V.
Variable madd : V -> V -> V.
Variable mscale : K -> V -> V.
Variable mi : K.
Hypothesis IH : inj_hom K inj.
Hypothesis ML : module_laws K V mzero madd mscale.

Ltac laws := pose proof (ih_eq K inj IH); pose proof (ih_add K inj IH); pose proof (ih_mul K inj IH);
  pose proof (ih_1 K inj IH); pose proof (ml_comm _ _ _ _ _ ML); pose proof (ml_assoc _ _ _ _ _ ML);
  pose proof (ml_0_r _ _ _ _ _ ML); pose proof (ml_add_r _ _ _ _ _ ML); pose proof (ml_add_l _ _ _ _ _ ML);
  pose proof (ml_mul _ _ _ _ _ ML); pose proof (ml_1 _ _ _ _ _ ML); pose proof (ml_0 _ _ _ _ _ ML).

(* compressed_sum = plain sum, any batch size >= 2 *)
Theorem compressed_sum_is_sum (b : nat) (q : list V) : 2 <= b -> q <> [] ->
  csum V madd b q = Some (bigsum V mzero madd q).
Proof. laws. eapply csum_sum; eassumption. Qed.

Theorem compressed_sum_batch1_diverges (fuel : nat) (q : list V) : 2 <= length q ->
  csum_fuel V madd fuel 1 q = None.
Proof. apply csum_fuel_batch1_diverges. Qed.

Section WithH.
Variable H : K -> V -> V.

(* the general stage loop, time-independent linear generator *)
Theorem rk_ti_poly (H0 : V -> V) : linear K V madd mscale H0 -> (forall t v, H t v = H0 v) ->
  forall t, shape_ok t = true -> forall tau t0 y,
  rk_step K inj V mzero madd mscale H mi t tau t0 y
  = pev K inj V mzero madd mscale (stepop K V mscale mi H0 tau) (nth 0 (ti_coeff t) []) y.
Proof.
  intros [La Ls] Hti t Hs tau t0 y.
  laws. eapply rk_ti_poly_ti; eassumption.
Qed.

Theorem rk_row_ti_poly (H0 : V -> V) : linear K V madd mscale H0 -> (forall t v, H t v = H0 v) ->
  forall t r, shape_ok t = true -> r < length (t_b t) -> forall tau t0 y,
  rk_row K inj V mzero madd mscale H mi t r tau t0 y
  = pev K inj V mzero madd mscale (stepop K V mscale mi H0 tau) (nth r (ti_coeff t) []) y.
Proof.
  intros [La Ls] Hti t r Hs Hr tau t0 y.
  laws. eapply rk_row_poly; eassumption.
Qed.

(* the scheme's own error order, exactly: for each shipped method and each row r of b with advertised
   order p the result is  sum_{k<=p} X^k y / k!  +  sum_{k>p} d_k X^k y *)
Theorem rk_error_order (H0 : V -> V) : linear K V madd mscale H0 -> (forall t v, H t v = H0 v) ->
  forall t, In t methods -> forall r, r < length (t_b t) -> forall tau t0 y,
  rk_row K inj V mzero madd mscale H mi t r tau t0 y
  = pev K inj V mzero madd mscale (stepop K V mscale mi H0 tau)
        (tcoefs (nth r (t_order t) 0) ++ skipn (S (nth r (t_order t) 0)) (nth r (ti_coeff t) [])) y.
Proof.
  intros L Hti t Ht r Hr tau t0 y.
  pose proof methods_shape_ok as Hs. rewrite forallb_forall in Hs. specialize (Hs t Ht).
  rewrite (rk_row_ti_poly H0 L Hti t r Hs Hr).
  laws. eapply pev_ext; [eassumption|].
  apply qeq_list_spec.
  pose proof methods_order_prefix_ok as Ho. rewrite forallb_forall in Ho. specialize (Ho t Ht).
  rewrite forallb_forall in Ho. apply Ho. apply in_seq. lia.
Qed.

Theorem tdrk4_is_C_RK4 : forall dt y,
  tdrk4 K inj V mzero madd mscale H mi dt y = rk_step K inj V mzero madd mscale H mi tab_5 dt (r0 K) y.
Proof.
  intros. laws. eapply tdrk4_is_rk_step_tab5; eassumption.
Qed.

Theorem rk_embedded_pair : forall t, In t methods -> length (t_b t) = 2 -> forall tau t0 y,
  madd (rk_error K inj V mzero madd mscale H mi t tau t0 y) (rk_row K inj V mzero madd mscale H mi t 1 tau t0 y)
  = rk_row K inj V mzero madd mscale H mi t 0 tau t0 y.
Proof.
  intros t Ht H2 tau t0 y.
  laws. eapply rk_error_embedded; try eassumption.
  pose proof methods_embedded_len as He. rewrite forallb_forall in He. specialize (He t Ht).
  apply orb_true_iff in He. destruct He as [He|He]; apply Nat.eqb_eq in He; [exact He|lia].
Qed.
End WithH.

(* Taylor *)
Theorem taylor_poly (H0 : V -> V) : linear K V madd mscale H0 -> forall dt N y,
  taylor_step K inj V mzero madd mscale mi H0 dt N y
  = pev K inj V mzero madd mscale (stepop K V mscale mi H0 dt) (tcoefs N) y.
Proof.
  intros [La Ls] dt N y.
  laws. eapply taylor_poly_ti; eassumption.
Qed.

Theorem taylor_adaptive_pair (H0 : V -> V) : linear K V madd mscale H0 -> forall dt N y,
  taylor_pair K inj V mzero madd mscale mi H0 dt (S N) y
  = (pev K inj V mzero madd mscale (stepop K V mscale mi H0 dt) (tcoefs N) y,
     pev K inj V mzero madd mscale (stepop K V mscale mi H0 dt) (tcoefs (S N)) y).
Proof.
  intros [La Ls] dt N y.
  laws. eapply taylor_pair_poly; eassumption.
Qed.

(* imaginary time *)
Theorem imag_stepop (H0 : V -> V) tau : rmul K mi mi = ropp K (r1 K) ->
  forall v, stepop K V mscale mi H0 (rmul K mi tau) v = mscale (ropp K tau) (H0 v).
Proof. intros Hm v. now apply stepop_imag. Qed.

Theorem imag_rk_poly (H : K -> V -> V) (H0 : V -> V) : linear K V madd mscale H0 -> (forall t v, H t v = H0 v) ->
  rmul K mi mi = ropp K (r1 K) ->
  forall t, shape_ok t = true -> forall tau t0 y,
  rk_step K inj V mzero madd mscale H mi t (rmul K mi tau) t0 y
  = pev K inj V mzero madd mscale (fun v => mscale (ropp K tau) (H0 v)) (nth 0 (ti_coeff t) []) y.
Proof.
  intros L Hti Hm t Hs tau t0 y. rewrite (rk_ti_poly H H0 L Hti t Hs).
  apply pev_ext_fun. intros v. now apply imag_stepop.
Qed.

Theorem imag_taylor_poly (H0 : V -> V) : linear K V madd mscale H0 ->
  rmul K mi mi = ropp K (r1 K) -> forall tau N y,
  taylor_step K inj V mzero madd mscale mi H0 (rmul K mi tau) N y
  = pev K inj V mzero madd mscale (fun v => mscale (ropp K tau) (H0 v)) (tcoefs N) y.
Proof.
  intros L Hm tau N y. rewrite (taylor_poly H0 L).
  apply pev_ext_fun. intros v. now apply imag_stepop.
Qed.

End Closed.

(* ================================================================== a concrete instance ====== *)
(* scalars: Gaussian rationals; vectors: pairs of scalars; generator: the swap (u,v) |-> (v,u) *)
Definition v2 := (gq * gq)%type.
Definition v2_zero : v2 := (r0 GqRing, r0 GqRing).
Definition v2_add (x y : v2) : v2 := (gq_add (fst x) (fst y), gq_add (snd x) (snd y)).
Definition v2_scale (a : gq) (x : v2) : v2 := (gq_mul a (fst x), gq_mul a (snd x)).
Definition v2_swap (x : v2) : v2 := (snd x, fst x).

Lemma gq_inj_hom : inj_hom GqRing gq_inj.
Proof.
  constructor; unfold gq_inj; cbn.
  - intros a b Hab. f_equal. now apply Q2Qc_eq_iff.
  - intros a b. unfold gq_add. cbn [fst snd]. apply pair_equal_spec. split; [|ring].
    unfold Qcplus. apply Q2Qc_eq_iff. cbn [this Q2Qc]. now rewrite !Qred_correct.
  - intros a b. unfold gq_mul. cbn [fst snd]. apply pair_equal_spec. split; [|ring].
    transitivity (Q2Qc a * Q2Qc b)%Qc; [|ring].
    unfold Qcmult. apply Q2Qc_eq_iff. cbn [this Q2Qc]. now rewrite !Qred_correct.
  - reflexivity.
Qed.

Lemma v2_module : module_laws GqRing v2 v2_zero v2_add v2_scale.
Proof.
  constructor; intros;
    repeat match goal with x : v2 |- _ => destruct x | x : gq |- _ => destruct x | x : car GqRing |- _ => destruct x
                          | x : (_ * _)%type |- _ => destruct x end;
    unfold v2_add, v2_scale, v2_zero, gq_add, gq_mul; cbn; unfold gq_add, gq_mul; cbn [fst snd];
    repeat (apply pair_equal_spec; split); ring.
Qed.

Lemma v2_swap_linear : linear GqRing v2 v2_add v2_scale v2_swap.
Proof. constructor; intros; reflexivity. Qed.

Lemma gq_mi_sq : rmul GqRing gq_mi gq_mi = ropp GqRing (r1 GqRing).
Proof. cbn. unfold gq_mul, gq_opp, gq_mi. cbn [fst snd]. apply pair_equal_spec. split; ring. Qed.

(* ================================================================== C10: closed-form propagator ==== *)
From RV Require Import Base.BigSum Model.Chain.

Section ExactPropProofs.
Variable K : CRing.
Add Ring KR2 : (rth K).
Variable expo : K -> K.
Hypothesis expo_add : forall a b, expo (radd K a b) = rmul K (expo a) (expo b).
Hypothesis expo_0 : expo (r0 K) = r1 K.

Notation "0" := (r0 K).
Notation "1" := (r1 K).
Infix "+" := (radd K).
Infix "*" := (rmul K).

Lemma cfg_eqb_refl s : cfg_eqb s s = true.
Proof. induction s as [|x s IH]; [reflexivity|]. cbn. now rewrite Nat.eqb_refl. Qed.

Lemma cfg_eqb_eq a : forall b, cfg_eqb a b = true -> a = b.
Proof.
  induction a as [|x a IH]; intros [|y b] Hq; cbn in Hq; try discriminate; [reflexivity|].
  apply andb_true_iff in Hq. destruct Hq as [H1 H2]. apply Nat.eqb_eq in H1. f_equal; auto.
Qed.

Lemma local_diag_val x w pu pd l r :
  local_diag K expo x w l pu pd r
  = if Nat.eqb pu pd then expo (x * match w with None => 0 | Some om => om * nk K pu end) else 0.
Proof.
  unfold local_diag. destruct (Nat.eqb pu pd); [|reflexivity]. destruct w as [om|].
  - f_equal. ring.
  - replace (x * 0) with 0 by ring. now rewrite expo_0.
Qed.

Lemma chain4_ep x c : forall ws su sd, ws <> [] -> length su = length ws -> length sd = length ws ->
  chain4 (ep_sites K expo x c ws) su sd 0%nat 0%nat
  = if cfg_eqb su sd then c * expo (x * vib_energy K ws su) else 0.
Proof.
  induction ws as [|w ws IH]; intros su sd Hne Hu Hd; [congruence|].
  destruct su as [|pu su]; [discriminate|]. destruct sd as [|pd sd]; [discriminate|].
  cbn [length] in Hu, Hd.
  destruct ws as [|w2 ws].
  - destruct su; [|discriminate]. destruct sd; [|discriminate].
    cbn [ep_sites chain4 sumn cfg_eqb vib_energy Nat.eqb]. unfold scaleT. rewrite local_diag_val.
    rewrite andb_true_r. destruct (Nat.eqb pu pd).
    + transitivity (c * expo (x * match w with None => 0 | Some om => om * nk K pu end)); [ring|].
      f_equal. f_equal. destruct w; ring.
    + ring.
  - change (ep_sites K expo x c (w :: w2 :: ws)) with ((1%nat, local_diag K expo x w) :: ep_sites K expo x c (w2 :: ws)).
    cbn [chain4 sumn cfg_eqb]. rewrite IH by (try discriminate; lia). rewrite local_diag_val.
    destruct (Nat.eqb pu pd); cbn [andb].
    + destruct (cfg_eqb su sd); [|ring].
      change (vib_energy K (w :: w2 :: ws) (pu :: su))
        with (match w with None => 0 | Some om => om * nk K pu end + vib_energy K (w2 :: ws) su).
      set (e1 := match w with None => 0 | Some om => om * nk K pu end). set (e2 := vib_energy K (w2 :: ws) su).
      transitivity (c * (expo (x * e1) * expo (x * e2))); [ring|].
      rewrite <- expo_add. f_equal. f_equal. ring.
    + ring.
Qed.

(* dense(exact_propagator(x, shift)) [s, s'] = [s = s'] . exp(x . (shift + sum_k omega_k n_k)), any number of sites *)
Theorem exact_prop_dense_gen x shift ws su sd : ws <> [] -> length su = length ws -> length sd = length ws ->
  opamp (exact_prop K expo x shift ws) su sd
  = if cfg_eqb su sd then expo (x * (shift + vib_energy K ws su)) else 0.
Proof.
  intros Hne Hu Hd. unfold opamp, exact_prop. rewrite chain4_ep by assumption.
  destruct (cfg_eqb su sd); [|reflexivity]. rewrite <- expo_add. f_equal. ring.
Qed.

(* phase bookkeeping of evolve_exact: tensors carry exp(-i dt (E - offset)), the prefactor exp(-i offset dt) *)
Lemma phase_offset_cancels (mi dt off E : K) :
  expo ((mi * dt) * (ropp K off + E)) * expo (mi * off * dt) = expo (mi * dt * E).
Proof. rewrite <- expo_add. f_equal. ring. Qed.
End ExactPropProofs.

Section EvolveExactProofs.
Variable K : CRing.
Variable V : Type.

(* HEAD (phase on the result): the input object is unchanged, the result carries the phase *)
Theorem evolve_exact_model_total (papply : V -> V) (phase : K) (self : obj K V) :
  let r := evolve_exact_model K V true papply phase self in
  snd r = self /\ coeff K V (fst r) = rmul K (coeff K V self) phase /\ vec K V (fst r) = papply (vec K V self).
Proof. cbn. repeat split. Qed.

(* the pre-02a52ae variant (phase on the input): the input is changed and the result lacks the phase *)
Theorem evolve_exact_model_on_input (papply : V -> V) (phase : K) (self : obj K V) :
  rmul K (coeff K V self) phase <> coeff K V self ->
  let r := evolve_exact_model K V false papply phase self in
  snd r <> self /\ coeff K V (fst r) = coeff K V self.
Proof.
  intros Hne. cbn. split; [|reflexivity]. intros E. apply Hne. destruct self as [c v]. cbn in *. congruence.
Qed.
End EvolveExactProofs.

(* ================================================================== C10: thermal loop =============== *)
Section ThermalProofs.
Variable K : CRing.
Variable V : Type.
Variable mscale : K -> V -> V.
Variable A N : V -> V.
Variable pos : K -> Prop.
Hypothesis A_scale : forall c v, A (mscale c v) = mscale c (A v).
Hypothesis N_scale : forall c v, pos c -> N (mscale c v) = N v.
Hypothesis N_is_scale : forall v, exists c, pos c /\ N v = mscale c v.

Lemma iter_succ_r' {T} (f : T -> T) n x : Nat.iter (S n) f x = Nat.iter n f (f x).
Proof. induction n as [|n IH]; [reflexivity|]. cbn [Nat.iter nat_rect] in *. now rewrite IH. Qed.

Lemma thermal_from_normalised : forall fs psi0, Forall pos fs ->
  thermal_loop K V mscale A N fs (N psi0) = N (Nat.iter (length fs) A psi0).
Proof.
  induction fs as [|f fs IH]; intros psi0 Hp; [reflexivity|].
  inversion Hp as [|? ? Hf Hrest]; subst. cbn [thermal_loop length].
  destruct (N_is_scale psi0) as (c & Hc & Ec). rewrite Ec, A_scale, (N_scale f _ Hf), (N_scale c _ Hc).
  rewrite IH by exact Hrest. now rewrite iter_succ_r'.
Qed.

(* normalising after every step, with an arbitrary positive re-offset factor per step, gives the
   normalised n-fold step applied to the initial vector (which need not be normalised) *)
Theorem thermal_steps_compose_gen : forall f fs psi0, Forall pos (f :: fs) ->
  thermal_loop K V mscale A N (f :: fs) psi0 = N (Nat.iter (S (length fs)) A psi0).
Proof.
  intros f fs psi0 Hp. inversion Hp as [|? ? Hf Hrest]; subst. cbn [thermal_loop].
  rewrite (N_scale f _ Hf), thermal_from_normalised by exact Hrest. now rewrite iter_succ_r'.
Qed.

(* with a semigroup E of un-normalised propagators, A = E tau:  A^n = E (n tau) *)
Variable T : Type.
Variable tadd : T -> T -> T.
Variable tzero : T.
Variable E : T -> V -> V.
Hypothesis E_add : forall s t v, E (tadd s t) v = E s (E t v).
Hypothesis E_zero : forall v, E tzero v = v.
Fixpoint tmul (n : nat) (tau : T) : T := match n with O => tzero | S m => tadd tau (tmul m tau) end.
Lemma iter_semigroup tau : forall n v, Nat.iter n (E tau) v = E (tmul n tau) v.
Proof.
  induction n as [|n IH]; intros v; cbn [Nat.iter nat_rect tmul]; [now rewrite E_zero|].
  rewrite E_add. f_equal. apply IH.
Qed.
End ThermalProofs.

Theorem thermal_steps_compose (K : CRing) (V : Type) (mscale : K -> V -> V) (N : V -> V) (pos : K -> Prop)
  (T : Type) (tadd : T -> T -> T) (tzero : T) (E : T -> V -> V) (tau : T) :
  (forall c v, E tau (mscale c v) = mscale c (E tau v)) ->
  (forall c v, pos c -> N (mscale c v) = N v) ->
  (forall v, exists c, pos c /\ N v = mscale c v) ->
  (forall s t v, E (tadd s t) v = E s (E t v)) -> (forall v, E tzero v = v) ->
  forall f fs psi0, Forall pos (f :: fs) ->
  thermal_loop K V mscale (E tau) N (f :: fs) psi0 = N (E (tmul T tadd tzero (S (length fs)) tau) psi0).
Proof.
  intros HA HN1 HN2 HE1 HE0 f fs psi0 Hp.
  rewrite (thermal_steps_compose_gen K V mscale (E tau) N pos HA HN1 HN2 f fs psi0 Hp).
  f_equal. apply iter_semigroup; assumption.
Qed.

(* ================================================================== C10: purified density operators ======== *)
From RV Require Import Model.Env Proofs.EnvProofs.

Section PurifiedProofs.
Variable K : CRing.
Add Ring KR3 : (rth K).
Notation "0" := (r0 K).
Notation "1" := (r1 K).
Infix "+" := (radd K).
Infix "*" := (rmul K).

Lemma sumn_if_zero n (f : nat -> K) : sumn n (fun m => 0 * f m) = 0.
Proof. apply sumn_0. intros. ring. Qed.

(* dense(MpDm.from_mps(psi))[s, s'] = [s = s'] psi(s), any bond dimensions *)
Lemma from_mps_chain : forall (ts : list (nat * T3 K)) su sd l r,
  chain4 (from_mps K ts) su sd l r = if cfg_eqb su sd then chain3 ts su l r else 0.
Proof.
  induction ts as [|[d t] ts IH]; intros su sd l r.
  - destruct su, sd; cbn; try reflexivity. match goal with |- _ = if ?c then _ else _ => destruct c end; reflexivity.
  - destruct su as [|pu su], sd as [|pd sd]; try reflexivity.
    + cbn [from_mps map chain4 chain3 fst snd cfg_eqb]. fold (from_mps K ts).
      unfold from_mps_site. destruct (Nat.eqb pu pd); cbn [andb].
      * destruct (cfg_eqb su sd) eqn:E.
        -- apply sumn_ext. intros m _. rewrite IH, E. reflexivity.
        -- apply sumn_0. intros m _. rewrite IH, E. ring.
      * apply sumn_0. intros m _. ring.
Qed.

Theorem from_mps_dense (ts : list (nat * T3 K)) su sd :
  opamp (from_mps K ts) su sd = if cfg_eqb su sd then amp ts su else 0.
Proof. apply from_mps_chain. Qed.

Lemma me_chain : forall ws s, length s = length ws ->
  chain3 (max_entangled_gs_mps K ws) s 0%nat 0%nat = me_weight K ws s.
Proof.
  induction ws as [|w ws IH]; intros [|p s] Hl; try discriminate; [reflexivity|].
  cbn [max_entangled_gs_mps map chain3 sumn me_weight]. fold (max_entangled_gs_mps K ws).
  rewrite IH by (cbn in Hl; lia). unfold me_site. ring.
Qed.

(* dense(max_entangled_gs) = [s = s'] . (product of the vibrational entries) . [electrons in |0>]: a multiple of the
   identity on the vibrational sites, for any number of sites and levels *)
Theorem max_entangled_identity_gen ws su sd : length su = length ws ->
  opamp (max_entangled_gs K ws) su sd = if cfg_eqb su sd then me_weight K ws su else 0.
Proof.
  intros Hl. unfold max_entangled_gs. rewrite from_mps_dense. destruct (cfg_eqb su sd); [|reflexivity].
  unfold amp. now apply me_chain.
Qed.

(* on configurations whose electronic indices are 0 the weight does not depend on the vibrational indices *)
Lemma me_weight_const : forall ws s s', length s = length ws -> length s' = length ws ->
  (forall k, nth k ws None = None -> nth k s 0%nat = 0%nat /\ nth k s' 0%nat = 0%nat) ->
  me_weight K ws s = me_weight K ws s'.
Proof.
  induction ws as [|w ws IH]; intros [|p s] [|p' s'] H1 H2 He; try discriminate; [reflexivity|].
  cbn [me_weight]. rewrite (IH s s') by (try (cbn in *; lia); intros k Hk; apply (He (S k)); exact Hk).
  destruct w as [c|]; [reflexivity|]. destruct (He 0%nat eq_refl) as [E1 E2]. cbn in E1, E2. subst. reflexivity.
Qed.

(* ---- the expectation path of a purified state: Tr(O rho rho^+) with the auxiliary index traced ---- *)
Lemma chain4_cj : forall (ts : list (nat * T4 K)) su sd l r,
  chain4 (map (fun dt => (fst dt, cj4 (snd dt))) ts) su sd l r = rcj K (chain4 ts su sd l r).
Proof.
  induction ts as [|[d t] ts IH]; intros su sd l r.
  - destruct su, sd; cbn; try (now rewrite rcj_0). destruct (Nat.eqb l r); [now rewrite rcj_1|now rewrite rcj_0].
  - destruct su as [|pu su], sd as [|pd sd]; cbn [map chain4 fst snd]; try (now rewrite rcj_0).
    rewrite sumn_cj. apply sumn_ext. intros m _. rewrite rcj_mul, IH. reflexivity.
Qed.

Definition purified (ss : list (site4 K)) : Prop := Forall (fun s => bra4 s = cj4 (ket4 s) /\ a4 s = c4 s) ss.

Lemma purified_bras ss : purified ss -> bras4 ss = map (fun dt => (fst dt, cj4 (snd dt))) (kets4 ss).
Proof.
  induction 1 as [|s ss [Hb Ha] _ IH]; [reflexivity|].
  unfold bras4, kets4 in *. cbn [map fst snd]. rewrite IH, Hb, Ha. reflexivity.
Qed.

(* MpDm._expectation_path with bra = conj(ket):  <rho|O|rho> = sum_{s',s} O[s',s] R[s,s'],  R[s,s'] = sum_t rho[s,t] conj(rho[s',t])
   i.e. Tr(O R) with R = rho rho^+ = the physical density operator obtained by tracing the auxiliary index t *)
Theorem purification_expectation_gen (ss : list (site4 K)) :
  ss <> [] -> lastA K 1 ss = 1%nat -> lastB K 1 ss = 1%nat -> lastC K 1 ss = 1%nat -> purified ss ->
  expectation4 ss =
  sumcfg (map (@p4 K) ss) (fun s' => sumcfg (map (@p4 K) ss) (fun s =>
    opamp (ops4 ss) s' s *
    sumcfg (map (@q4 K) ss) (fun t => opamp (kets4 ss) s t * rcj K (opamp (kets4 ss) s' t)))).
Proof.
  intros Hne HA HB HC Hp. rewrite (expectation4_dense K ss Hne HA HB HC). unfold dense4.
  rewrite (purified_bras ss Hp).
  apply sumcfg_ext'. intros s'. apply sumcfg_ext'. intros s.
  rewrite <- sumcfg_scale_l. apply sumcfg_ext'. intros t.
  rewrite chain4_cj. unfold opamp. ring.
Qed.
End PurifiedProofs.
