(* C16 -- the generated term-generation functions (Gen/Builders.v) against the documented Hamiltonians
   (Model/Builders.v), for all sizes and all parameter values. *)
From Coq Require Import QArith ZArith List String Bool Arith Lia Qring Sorted.
Import ListNotations.
From RV Require Import Model.Builders Gen.Builders.
Close Scope Q_scope.
Local Open Scope Z_scope.

(* ------------------------------------------------------------------ lists *)
Lemma in_zrange0 n i : In i (zrange0 n) <-> 0 <= i < n.
Proof.
  unfold zrange0. rewrite in_map_iff. split.
  - intros (k & <- & Hk). apply in_seq in Hk. lia.
  - intros H. exists (Z.to_nat i). split; [lia|]. apply in_seq. lia.
Qed.

Lemma flat_map_single {A B} (f : A -> B) l : flat_map (fun x => [f x]) l = map f l.
Proof. induction l as [|x l IH]; cbn; [reflexivity|]. now rewrite IH. Qed.

Lemma flat_map_ext_in {A B} (f g : A -> list B) l : (forall x, In x l -> f x = g x) -> flat_map f l = flat_map g l.
Proof.
  induction l as [|x l IH]; intros H; cbn; [reflexivity|].
  rewrite (H x) by now left. rewrite IH; [reflexivity|]. intros y Hy. apply H. now right.
Qed.

Lemma Forall2_flat_map {A B C} (R : B -> C -> Prop) (f : A -> list B) (g : A -> list C) l :
  (forall x, In x l -> Forall2 R (f x) (g x)) -> Forall2 R (flat_map f l) (flat_map g l).
Proof.
  induction l as [|x l IH]; intros H; cbn; [constructor|].
  apply Forall2_app; [apply H; now left|apply IH; intros y Hy; apply H; now right].
Qed.

Lemma length_flat_map_const {A B} (f : A -> list B) l k : (forall x, In x l -> List.length (f x) = k) ->
  List.length (flat_map f l) = (List.length l * k)%nat.
Proof.
  induction l as [|x l IH]; intros H; cbn; [reflexivity|].
  rewrite app_length, (H x) by now left. rewrite IH; [lia|]. intros y Hy. apply H. now right.
Qed.

Lemma length_zrange0 n : List.length (zrange0 n) = Z.to_nat n.
Proof. unfold zrange0. now rewrite map_length, seq_length. Qed.

(* ------------------------------------------------------------------ TI1DModel *)
Theorem ti1d_terms_spec ncell local nonlocal : ti1d_terms ncell local nonlocal = ti1d_spec ncell local nonlocal.
Proof.
  unfold ti1d_terms, ti1d_spec, ti1d_cell. apply flat_map_ext_in. intros i _. cbv zeta.
  rewrite !flat_map_single. apply f_equal2; [reflexivity|].
  apply map_ext. intros o. now rewrite flat_map_single.
Qed.

(* every generated cell index is in range *)
Theorem ti1d_in_range ncell local nonlocal : 0 < ncell ->
  forall t, In t (ti1d_terms ncell local nonlocal) -> forall c d, In (c, d) (snd t) -> 0 <= c < ncell.
Proof.
  intros Hn t Ht c d Hcd. rewrite ti1d_terms_spec in Ht. unfold ti1d_spec in Ht.
  apply in_flat_map in Ht. destruct Ht as (i & Hi & Ht). apply in_zrange0 in Hi.
  unfold ti1d_cell in Ht. apply in_app_or in Ht. destruct Ht as [Ht|Ht]; apply in_map_iff in Ht; destruct Ht as (o & <- & _); cbn [snd] in Hcd;
    apply in_map_iff in Hcd; destruct Hcd as (x & E & _); inversion E; subst.
  - lia.
  - apply Z.mod_pos_bound. lia.
Qed.

(* each input term is instantiated exactly once per cell *)
Theorem ti1d_count ncell local nonlocal :
  List.length (ti1d_terms ncell local nonlocal) = (Z.to_nat ncell * (List.length local + List.length nonlocal))%nat.
Proof.
  rewrite ti1d_terms_spec. unfold ti1d_spec.
  rewrite (length_flat_map_const _ _ (List.length local + List.length nonlocal)%nat).
  - now rewrite length_zrange0.
  - intros i _. unfold ti1d_cell. now rewrite app_length, !map_length.
Qed.

(* translation invariance: the terms of cell i are those of cell 0 moved by i (mod ncell) *)
Definition shift_gop (ncell k : Z) (t : gop) : gop := (fst t, map (fun cd => ((fst cd + k) mod ncell, snd cd)) (snd t)).
Theorem ti1d_translation ncell i local nonlocal : 0 <= i < ncell ->
  ti1d_cell ncell i local nonlocal = map (shift_gop ncell i) (ti1d_cell ncell 0 local nonlocal).
Proof.
  intros Hi. unfold ti1d_cell. rewrite map_app, !map_map. f_equal; apply map_ext; intros o; unfold shift_gop; cbn [fst snd];
    f_equal; rewrite map_map; apply map_ext; intros x; cbn [fst snd]; f_equal.
  - rewrite Z.add_0_l. symmetry. apply Z.mod_small. lia.
  - rewrite Z.add_0_l, Zplus_mod_idemp_l. f_equal. lia.
Qed.

(* ------------------------------------------------------------------ construct_j_matrix *)
Local Open Scope Q_scope.
Ltac bd :=
  repeat match goal with
         | |- context [(?a =? ?b)%Z] => destruct (Z.eqb_spec a b)
         | |- context [(?a <? ?b)%Z] => destruct (Z.ltb_spec a b)
         | |- context [(?a <=? ?b)%Z] => destruct (Z.leb_spec a b)
         end.

Ltac zres :=
  repeat match goal with
         | |- context [(?a =? ?b)%Z] =>
             first [ replace (a =? b)%Z with true by (symmetry; apply Z.eqb_eq; lia)
                   | replace (a =? b)%Z with false by (symmetry; apply Z.eqb_neq; lia) ]
         | |- context [(?a <? ?b)%Z] =>
             first [ replace (a <? b)%Z with true by (symmetry; apply Z.ltb_lt; lia)
                   | replace (a <? b)%Z with false by (symmetry; apply Z.ltb_ge; lia) ]
         | |- context [(?a <=? ?b)%Z] =>
             first [ replace (a <=? b)%Z with true by (symmetry; apply Z.leb_le; lia)
                   | replace (a <=? b)%Z with false by (symmetry; apply Z.leb_gt; lia) ]
         end.

Theorem j_matrix_spec n J periodic i j : (1 <= n)%Z -> (0 <= i < n)%Z -> (0 <= j < n)%Z ->
  construct_j_matrix n J periodic i j == j_matrix_spec_fn n periodic J i j.
Proof.
  intros Hn Hi Hj. unfold construct_j_matrix, j_matrix_spec_fn. cbv zeta.
  unfold mat_set, mat_add, np_diag, vec_scale, np_vec, py_idx. cbn [Z.ltb Z.compare].
  replace (n - 1 + 1)%Z with n by lia.
  destruct (Z.eq_dec j (i + 1)), (Z.eq_dec j (i - 1)), (Z.eq_dec i 0), (Z.eq_dec j 0), (Z.eq_dec i (n - 1)), (Z.eq_dec j (n - 1));
    try (exfalso; lia); destruct periodic; zres; cbn [andb orb]; ring.
Qed.

Theorem j_matrix_symmetric n J periodic i j : j_matrix_spec_fn n periodic J i j == j_matrix_spec_fn n periodic J j i.
Proof.
  unfold j_matrix_spec_fn. destruct periodic; cbn [andb orb]; bd; cbn [andb orb]; try (exfalso; lia); reflexivity.
Qed.

(* zero diagonal, except for the degenerate single periodic site, where the source writes J at (0,0)
   (that entry is never used by HolsteinModel: its diagonal terms take elocalex + e0) *)
Theorem j_matrix_diagonal n J periodic i : (0 <= i < n)%Z ->
  j_matrix_spec_fn n periodic J i i == (if periodic && (n =? 1)%Z then J else 0).
Proof.
  intros Hi. unfold j_matrix_spec_fn. destruct periodic; cbn [andb orb]; bd; cbn [andb orb]; try (exfalso; lia); reflexivity.
Qed.

(* nearest neighbours on a ring for n >= 3, on a chain otherwise *)
Theorem j_matrix_pattern n J periodic i j : (0 <= i < n)%Z -> (0 <= j < n)%Z -> i <> j ->
  j_matrix_spec_fn n periodic J i j ==
    (if ((i - j =? 1) || (j - i =? 1) || (periodic && ((i - j =? n - 1) || (j - i =? n - 1))))%Z then J else 0).
Proof.
  intros Hi Hj Hne. unfold j_matrix_spec_fn. destruct periodic; cbn [andb orb]; bd; cbn [andb orb]; try (exfalso; lia); reflexivity.
Qed.

(* ------------------------------------------------------------------ heisenberg_ops *)
Theorem heisenberg_terms_spec nspin : heisenberg_terms nspin = heisenberg_spec nspin.
Proof. reflexivity. Qed.

(* ------------------------------------------------------------------ Holstein / spin-boson terms *)
Lemma qsumz_ext n f g : (forall l, f l == g l) -> qsumz n f == qsumz n g.
Proof.
  intros H. unfold qsumz. induction (zrange0 n) as [|x l IH]; cbn; [reflexivity|]. now rewrite H, IH.
Qed.

Ltac teq := split; [reflexivity|split; [reflexivity|cbn; try ring]].
Ltac f2 := repeat (first [ apply Forall2_nil | apply Forall2_cons; [teq|] ]).

Theorem holstein_terms_spec P : (forall i l, dis_g P i l == 0) ->
  Forall2 term_eqv (holstein_ham P) (holstein_spec P).
Proof.
  intros H0. unfold holstein_ham, holstein_spec. cbv zeta.
  repeat apply Forall2_app.
  - apply Forall2_flat_map. intros i _. apply Forall2_flat_map. intros j _. apply Forall2_cons; [|apply Forall2_nil].
    teq. destruct (i =? j)%Z; [|reflexivity].
    apply Qplus_comp; [reflexivity|]. apply qsumz_ext. intros l. unfold reorg. rewrite (H0 i l). ring.
  - apply Forall2_flat_map. intros i _. apply Forall2_flat_map. intros l _. f2.
  - apply Forall2_flat_map. intros i _. apply Forall2_flat_map. intros l _.
    destruct (same_freq P i l); cbn [app]; f2.
Qed.

(* the term left out when np.allclose(omega_g, omega_e) has a vanishing coefficient *)
Lemma holstein_same_freq_term (wg we : Q) : wg == we -> (1 # 2) * (we * we - wg * wg) == 0.
Proof. intros H. rewrite H. ring. Qed.

(* the documented displaced-oscillator potential, expanded (x commutes with the numbers) *)
Lemma displaced_oscillator_expansion (we wg d x : Q) :
  (1 # 2) * (we * we) * ((x - d) * (x - d)) - (1 # 2) * (wg * wg) * (x * x) ==
  (1 # 2) * (we * we - wg * wg) * (x * x) + - (we * we * d) * x + (1 # 2) * (we * we) * (d * d).
Proof. ring. Qed.

Theorem spinboson_terms_spec S : Forall2 term_eqv (spinboson_ham S) (spinboson_spec S).
Proof.
  unfold spinboson_ham, spinboson_spec. apply Forall2_app.
  - f2.
  - apply Forall2_flat_map. intros i _. cbn [app]. f2.
Qed.

Theorem spinboson_sites S : spinboson_basis S = spinboson_sites_spec S.
Proof. unfold spinboson_basis, spinboson_sites_spec. cbn [app]. now rewrite flat_map_single. Qed.

(* ------------------------------------------------------------------ Holstein site orders *)
Local Open Scope Z_scope.

Lemma insert_at_len {A} (a b : list A) x : insert_at (Z.of_nat (List.length a)) x (a ++ b) = a ++ x :: b.
Proof.
  unfold insert_at. rewrite Nat2Z.id, firstn_app, skipn_app, Nat.sub_diag, firstn_all, skipn_all. cbn. now rewrite app_nil_r.
Qed.

Lemma insert_at_app {A} (a b : list A) x m :
  insert_at (Z.of_nat (List.length a + m)) x (a ++ b) = a ++ insert_at (Z.of_nat m) x b.
Proof.
  unfold insert_at. rewrite !Nat2Z.id, firstn_app_2, <- app_assoc. f_equal. f_equal. f_equal.
  rewrite skipn_app. replace (List.length a + m - List.length a)%nat with m by lia.
  rewrite skipn_all2 by lia. reflexivity.
Qed.

Lemma sorted_zrange0 n : StronglySorted Z.lt (zrange0 n).
Proof.
  unfold zrange0. generalize 0%nat. induction (Z.to_nat n) as [|k IH]; intros s; cbn; constructor.
  - apply IH.
  - apply Forall_forall. intros y Hy. apply in_map_iff in Hy. destruct Hy as (m & <- & Hm). apply in_seq in Hm. lia.
Qed.

(* the counter loop + insert of scheme 4 on any strictly increasing list of molecule indices *)
Lemma scheme4_split {B} (A : Z -> list B) (modes : Z -> list Z) (k : Z) (X : B) (l : list Z) :
  StronglySorted Z.lt l -> (forall i, List.length (A i) = List.length (modes i)) ->
  insert_at (Z.of_nat (List.length (flat_map (fun i => flat_map (fun _ => if i <? k then [tt] else []) (modes i)) l)))
            X (flat_map A l)
  = flat_map A (filter (fun i => i <? k) l) ++ X :: flat_map A (filter (fun i => negb (i <? k)) l).
Proof.
  intros Hs HA. induction l as [|x l IH]; [reflexivity|].
  inversion Hs as [|? ? Hs' Hall]; subst. cbn [flat_map filter].
  destruct (Z.ltb_spec x k) as [Hlt|Hge]; cbn [negb].
  - cbn [flat_map]. rewrite app_length, <- app_assoc, <- IH by assumption.
    replace (List.length (flat_map (fun _ : Z => [tt]) (modes x))) with (List.length (A x))
      by (rewrite HA; clear; induction (modes x); cbn; auto).
    apply insert_at_app.
  - (* x >= k: nothing later is < k *)
    assert (Hnone : forall y, In y l -> (y <? k) = false).
    { intros y Hy. rewrite Forall_forall in Hall. specialize (Hall y Hy). apply Z.ltb_ge. lia. }
    assert (E1 : flat_map (fun i => flat_map (fun _ => if i <? k then [tt] else []) (modes i)) l = []).
    { clear - Hnone. induction l as [|y l IH]; [reflexivity|]. cbn [flat_map].
      rewrite (Hnone y) by now left. rewrite IH by (intros; apply Hnone; now right).
      rewrite app_nil_r. clear. induction (modes y); cbn; auto. }
    assert (E2 : filter (fun i => i <? k) l = []).
    { clear - Hnone. induction l as [|y l IH]; [reflexivity|]. cbn. rewrite (Hnone y) by now left. apply IH. intros; apply Hnone; now right. }
    assert (E3 : filter (fun i => negb (i <? k)) l = l).
    { clear - Hnone. induction l as [|y l IH]; [reflexivity|]. cbn. rewrite (Hnone y) by now left. cbn. f_equal. apply IH. intros; apply Hnone; now right. }
    replace (flat_map (fun _ : Z => @nil unit) (modes x)) with (@nil unit) by (clear; induction (modes x); cbn; auto).
    rewrite E1, E2, E3. reflexivity.
Qed.

Theorem holstein_sites scheme P : holstein_basis scheme P = holstein_sites_spec scheme P.
Proof.
  unfold holstein_basis, holstein_sites_spec, vib_sites.
  destruct (scheme <? 4).
  - apply flat_map_ext_in. intros i _. cbn [app]. now rewrite flat_map_single.
  - destruct (scheme =? 4); [|reflexivity]. cbv zeta.
    rewrite (flat_map_ext_in (fun imol => flat_map (fun iph => [SVib imol iph (omega_g P imol iph) (nlev P imol iph)]) (zrange0 (nmodes P imol)))
                             (fun i => map (fun l => SVib i l (omega_g P i l) (nlev P i l)) (zrange0 (nmodes P i))))
      by (intros; apply flat_map_single).
    apply (scheme4_split (fun i => map (fun l => SVib i l (omega_g P i l) (nlev P i l)) (zrange0 (nmodes P i)))
                         (fun i => zrange0 (nmodes P i)) (nmol P / 2)).
    + apply sorted_zrange0.
    + intros i. now rewrite map_length.
Qed.

(* every dof has exactly one site, for every scheme: the schemes differ by a permutation of the vibrational sites
   and by merging the electronic sites into one *)
Definition site_vibs (s : site) : list (Z * Z) := match s with SVib i l _ _ => [(i, l)] | _ => [] end.
Definition site_elecs (s : site) : list Z := match s with SElec i => [i] | SMultiVac ds => ds | _ => [] end.

Lemma filter_split_flat {B} (A : Z -> list B) (p : Z -> bool) l : StronglySorted Z.lt l -> (forall x y, In x l -> In y l -> x < y -> p y = true -> p x = true) ->
  flat_map A (filter p l) ++ flat_map A (filter (fun i => negb (p i)) l) = flat_map A l.
Proof.
  intros Hs Hm. induction l as [|x l IH]; [reflexivity|]. inversion Hs as [|? ? Hs' Hall]; subst. cbn [filter flat_map].
  assert (IH' := IH Hs' (fun a b Ha Hb => Hm a b (or_intror Ha) (or_intror Hb))).
  destruct (p x) eqn:E; cbn [negb flat_map].
  - now rewrite <- app_assoc, IH'.
  - assert (Hnone : filter p l = []).
    { clear - Hm Hall E. induction l as [|y l IH]; [reflexivity|]. cbn.
      destruct (p y) eqn:Ey.
      - exfalso. rewrite Forall_forall in Hall. assert (x < y) by (apply Hall; now left).
        rewrite (Hm x y) in E; [discriminate|now left|right; now left|assumption|assumption].
      - apply IH; [intros a b Ha Hb; apply Hm; (destruct Ha; [now left|right; now right]) || idtac|now inversion Hall].
        destruct Hb; [now left|right; now right]. }
    rewrite Hnone in *. cbn [flat_map app] in *. now rewrite IH'.
Qed.

Definition all_vibs (P : hpar) (l : list Z) : list (Z * Z) :=
  flat_map (fun i => map (fun m => (i, m)) (zrange0 (nmodes P i))) l.

Lemma vibs_of_vib_sites P l : flat_map site_vibs (flat_map (vib_sites P) l) = all_vibs P l.
Proof.
  unfold all_vibs. induction l as [|x l IH]; [reflexivity|]. cbn [flat_map]. rewrite flat_map_app, IH. f_equal.
  unfold vib_sites. induction (zrange0 (nmodes P x)); cbn; [reflexivity|]. now f_equal.
Qed.

Lemma elecs_of_vib_sites P l : flat_map site_elecs (flat_map (vib_sites P) l) = [].
Proof.
  induction l as [|x l IH]; [reflexivity|]. cbn [flat_map]. rewrite flat_map_app, IH, app_nil_r.
  unfold vib_sites. induction (zrange0 (nmodes P x)); cbn; auto.
Qed.

(* for every scheme each electronic dof and each vibrational dof has exactly one site, the vibrational dofs in the
   same (imol, iph) order; the schemes differ only in where the electronic dofs sit (one site each after their own
   vibrations' predecessor for schemes 1-3, a single site after the vibrations of the first nmol/2 molecules for 4) *)
Theorem holstein_sites_dofs scheme P : scheme <= 4 ->
  flat_map site_elecs (holstein_basis scheme P) = zrange0 (nmol P) /\
  flat_map site_vibs (holstein_basis scheme P) = all_vibs P (zrange0 (nmol P)).
Proof.
  intros Hs. rewrite holstein_sites. unfold holstein_sites_spec.
  destruct (Z.ltb_spec scheme 4) as [Hlt|Hge].
  - split.
    + induction (zrange0 (nmol P)) as [|x l IH]; [reflexivity|]. cbn [flat_map]. rewrite flat_map_app. cbn [flat_map site_elecs app].
      rewrite IH. replace (flat_map site_elecs (vib_sites P x)) with (@nil Z); [reflexivity|].
      unfold vib_sites. induction (zrange0 (nmodes P x)); cbn; auto.
    + unfold all_vibs. induction (zrange0 (nmol P)) as [|x l IH]; [reflexivity|]. cbn [flat_map]. rewrite flat_map_app. cbn [flat_map site_vibs app].
      rewrite IH. f_equal. unfold vib_sites. induction (zrange0 (nmodes P x)); cbn; [reflexivity|]. now f_equal.
  - assert (scheme = 4) by lia. subst. cbn [Z.eqb Pos.eqb]. split.
    + rewrite flat_map_app. cbn [flat_map site_elecs]. rewrite !elecs_of_vib_sites. cbn. now rewrite app_nil_r.
    + rewrite flat_map_app. cbn [flat_map site_vibs app]. rewrite !vibs_of_vib_sites. unfold all_vibs.
      apply (filter_split_flat (fun i => map (fun m => (i, m)) (zrange0 (nmodes P i))) (fun i => i <? nmol P / 2)).
      * apply sorted_zrange0.
      * intros x y _ _ Hxy Hy. apply Z.ltb_lt in Hy. apply Z.ltb_lt. lia.
Qed.
