(* C04 -- proofs about the generated schedule (Gen/CanoSched.v) and the push/sweep model (Model/Cano.v) *)
From Coq Require Import Ring List Arith ZArith Lia Bool.
Import ListNotations.
From RV Require Import Base.CRing Base.BigSum Model.Chain Proofs.ChainProofs Gen.CanoSched Model.Cano.

(* ================================================================================================ *)
(* Part 1: the generated bookkeeping code                                                           *)
(* ================================================================================================ *)
Section Sched.
Local Open Scope Z_scope.

Definition zup (a : Z) (n : nat) : list Z := map (fun i => a + Z.of_nat i) (seq 0 n).
Definition zdown (a : Z) (n : nat) : list Z := map (fun i => a - Z.of_nat i) (seq 0 n).

Lemma zup_S a n : zup a (S n) = a :: zup (a + 1) n.
Proof.
  unfold zup. cbn [seq map]. f_equal; [lia|].
  rewrite <- seq_shift, map_map. apply map_ext. intros. lia.
Qed.
Lemma zdown_S a n : zdown a (S n) = a :: zdown (a - 1) n.
Proof.
  unfold zdown. cbn [seq map]. f_equal; [lia|].
  rewrite <- seq_shift, map_map. apply map_ext. intros. lia.
Qed.

Lemma py_range_up a b : py_range a b true = zup a (Z.to_nat (b - a)).
Proof. reflexivity. Qed.
Lemma py_range_down a b : py_range a b false = zdown a (Z.to_nat (a - b)).
Proof. reflexivity. Qed.

Lemma push_all_None l : push_all push_cano l = fun s => push_all push_cano l s.
Proof. reflexivity. Qed.

Lemma fold_None (l : list Z) :
  fold_left (fun acc i => match acc with Some s => push_cano s i | None => None end) l None = None.
Proof. induction l; cbn; auto. Qed.

Lemma push_all_cons x l s :
  push_all push_cano (x :: l) s = match push_cano s x with Some s' => push_all push_cano l s' | None => None end.
Proof. unfold push_all. cbn [fold_left]. destruct (push_cano s x); [reflexivity|apply fold_None]. Qed.

Lemma push_all_up n : forall s, to_right s = true ->
  push_all push_cano (zup (qnidx s) n) s = Some (set_qnidx s (qnidx s + Z.of_nat n)).
Proof.
  induction n as [|n IH]; intros s Hd.
  - cbn. destruct s; cbn in *. unfold set_qnidx; cbn. do 2 f_equal. lia.
  - rewrite zup_S, push_all_cons. unfold push_cano. cbn [existsb]. rewrite Z.eqb_refl, Hd. cbn [orb].
    replace (qnidx s + 1) with (qnidx (set_qnidx s (qnidx s + 1))) at 1 by reflexivity.
    rewrite IH by (destruct s; exact Hd). unfold set_qnidx; cbn. do 2 f_equal. lia.
Qed.

Lemma push_all_down n : forall s, to_right s = false ->
  push_all push_cano (zdown (qnidx s) n) s = Some (set_qnidx s (qnidx s - Z.of_nat n)).
Proof.
  induction n as [|n IH]; intros s Hd.
  - cbn. destruct s; cbn in *. unfold set_qnidx; cbn. do 2 f_equal. lia.
  - rewrite zdown_S, push_all_cons. unfold push_cano. cbn [existsb]. rewrite Z.eqb_refl, Hd. cbn [orb].
    replace (qnidx s - 1) with (qnidx (set_qnidx s (qnidx s - 1))) at 1 by reflexivity.
    rewrite IH by (destruct s; exact Hd). unfold set_qnidx; cbn. do 2 f_equal. lia.
Qed.

Lemma pv_last_app v l x : pv_last v (l ++ [x]) = VInt x.
Proof. unfold pv_last. rewrite fold_left_app. reflexivity. Qed.

Lemma zup_snoc a n : zup a (S n) = zup a n ++ [a + Z.of_nat n].
Proof. unfold zup. rewrite seq_S, map_app. reflexivity. Qed.
Lemma zdown_snoc a n : zdown a (S n) = zdown a n ++ [a - Z.of_nat n].
Proof. unfold zdown. rewrite seq_S, map_app. reflexivity. Qed.

Lemma pv_last_zup v a n : pv_last v (zup a n) = match n with O => v | S m => VInt (a + Z.of_nat m) end.
Proof. destruct n; [reflexivity|]. rewrite zup_snoc. apply pv_last_app. Qed.
Lemma pv_last_zdown v a n : pv_last v (zdown a n) = match n with O => v | S m => VInt (a - Z.of_nat m) end.
Proof. destruct n; [reflexivity|]. rewrite zdown_snoc. apply pv_last_app. Qed.

(* ---- specification vocabulary ---- *)
(* what canonicalise / compress assert on entry *)
Definition entry_ok (s : sst) : Prop :=
  1 <= site_num s /\ qnidx s = (if to_right s then 0 else site_num s - 1).
Definition stop_ok (s : sst) (stop : option Z) : Prop :=
  match stop with None => True | Some k => 0 <= k <= site_num s - 1 end.
Definition far_end (s : sst) : Z := if to_right s then site_num s - 1 else 0.
Definition target (s : sst) (stop : option Z) : Z := match stop with Some k => k | None => far_end s end.
(* the direction is switched iff the sweep reached the far end by at least one push, or a full sweep was
   requested (stop = None) *)
Definition flips (s : sst) (stop : option Z) : bool :=
  match stop with None => true | Some k => (k =? far_end s) && negb (k =? qnidx s) end.
(* the sites strictly between the centre c (inclusive) and the target t (exclusive), in sweep order *)
Definition sites_between (up : bool) (c t : Z) : list Z :=
  if up then map Z.of_nat (seq (Z.to_nat c) (Z.to_nat (t - c)))
  else rev (map Z.of_nat (seq (Z.to_nat t + 1) (Z.to_nat (c - t)))).

Lemma zup_sites c n : 0 <= c -> zup c n = map Z.of_nat (seq (Z.to_nat c) n).
Proof.
  revert c. induction n as [|n IH]; intros c Hc; [reflexivity|].
  rewrite zup_S. cbn [seq map]. f_equal; [lia|].
  rewrite IH by lia. replace (Z.to_nat (c + 1)) with (S (Z.to_nat c)) by lia. reflexivity.
Qed.

Lemma zdown_sites c n : Z.of_nat n <= c + 1 ->
  zdown c n = rev (map Z.of_nat (seq (Z.to_nat (c - Z.of_nat n + 1)) n)).
Proof.
  revert c. induction n as [|n IH]; intros c Hc; [reflexivity|].
  rewrite zdown_snoc. rewrite IH by lia.
  cbn [seq map rev]. f_equal.
  - f_equal. f_equal. replace (Z.to_nat (c - Z.of_nat n + 1)) with (S (Z.to_nat (c - Z.of_nat (S n) + 1))) by lia. reflexivity.
  - f_equal. lia.
Qed.

(* iter_idx_list(full=False, stop_idx) enumerates exactly the sites from the centre (inclusive) up to the
   target (exclusive) in sweep order -- for ANY centre, not only the entry configuration *)
Lemma iter_idx_list_spec s stop :
  0 <= qnidx s <= site_num s - 1 -> stop_ok s stop ->
  (if to_right s then qnidx s <= target s stop else target s stop <= qnidx s) ->
  iter_idx_list s false stop = sites_between (to_right s) (qnidx s) (target s stop).
Proof.
  intros Hc Hs Ht. unfold iter_idx_list, sites_between, target, far_end in *.
  destruct (to_right s); destruct stop as [k|]; cbn [stop_ok] in *;
    rewrite ?py_range_up, ?py_range_down.
  - apply zup_sites. lia.
  - apply zup_sites. lia.
  - rewrite zdown_sites by lia. do 3 f_equal. lia.
  - rewrite zdown_sites by lia. do 3 f_equal. lia.
Qed.

(* iter_idx_list(full=True): every site from the centre to the end of the chain, inclusive *)
Lemma iter_idx_list_full_spec s :
  0 <= qnidx s <= site_num s - 1 ->
  iter_idx_list s true None =
    if to_right s then map Z.of_nat (seq (Z.to_nat (qnidx s)) (Z.to_nat (site_num s - qnidx s)))
    else rev (map Z.of_nat (seq 0 (Z.to_nat (qnidx s + 1)))).
Proof.
  intros Hc. unfold iter_idx_list. destruct (to_right s); rewrite ?py_range_up, ?py_range_down.
  - apply zup_sites. lia.
  - rewrite zdown_sites by lia. do 3 f_equal. lia.
Qed.

Lemma switch_spec s :
  _switch_direction s = Some {| site_num := site_num s; qnidx := (if to_right s then site_num s - 1 else 0);
                                to_right := negb (to_right s) |}.
Proof. unfold _switch_direction. destruct s as [n c d]; destruct d; reflexivity. Qed.

Lemma loop_ok s stop : entry_ok s -> stop_ok s stop ->
  push_all push_cano (iter_idx_list s false stop) s = Some (set_qnidx s (target s stop)).
Proof.
  intros [Hn Hc] Hs. unfold iter_idx_list, target, far_end.
  destruct (to_right s) eqn:Hd; destruct stop as [k|]; cbn [stop_ok] in Hs;
    rewrite ?py_range_up, ?py_range_down.
  - rewrite push_all_up by exact Hd. do 2 f_equal. lia.
  - rewrite push_all_up by exact Hd. do 2 f_equal. lia.
  - rewrite push_all_down by exact Hd. do 2 f_equal. lia.
  - rewrite push_all_down by exact Hd. do 2 f_equal. lia.
Qed.

Lemma last_idx s stop v : entry_ok s -> stop_ok s stop ->
  pv_last v (iter_idx_list s false stop) =
    if target s stop =? qnidx s then v
    else VInt (if to_right s then target s stop - 1 else target s stop + 1).
Proof.
  intros [Hn Hc] Hs. unfold iter_idx_list, target, far_end.
  destruct (to_right s) eqn:Hd; destruct stop as [k|]; cbn [stop_ok] in Hs;
    rewrite ?py_range_up, ?py_range_down, ?pv_last_zup, ?pv_last_zdown.
  - destruct (Z.to_nat (k - qnidx s)) eqn:E; destruct (Z.eqb_spec k (qnidx s)); try reflexivity; try lia. f_equal; lia.
  - destruct (Z.to_nat (site_num s - 1 - qnidx s)) eqn:E; destruct (Z.eqb_spec (site_num s - 1) (qnidx s)); try reflexivity; try lia. f_equal; lia.
  - destruct (Z.to_nat (qnidx s - k)) eqn:E; destruct (Z.eqb_spec k (qnidx s)); try reflexivity; try lia. f_equal; lia.
  - destruct (Z.to_nat (qnidx s - 0)) eqn:E; destruct (Z.eqb_spec 0 (qnidx s)); try reflexivity; try lia. f_equal; lia.
Qed.

(* canonicalise never raises on an input satisfying its asserts -- for every chain length >= 1, both
   directions, every stop index including the current centre -- executes exactly the pushes listed by
   iter_idx_list, each at the current centre, and ends with the centre at the target and the direction
   switched iff [flips].  (On the code before 699bc0f the tail test reads the unbound loop variable
   after an empty sweep: the generated term evaluates to None there and this lemma does not hold.) *)
Lemma canonicalise_sched_spec s stop : entry_ok s -> stop_ok s stop ->
  canonicalise s stop =
    Some (iter_idx_list s false stop,
          {| site_num := site_num s; qnidx := target s stop;
             to_right := if flips s stop then negb (to_right s) else to_right s |}).
Proof.
  intros He Hs. pose proof (loop_ok s stop He Hs) as HL. pose proof (last_idx s stop VNone He Hs) as HI.
  destruct He as [Hn Hc]. unfold canonicalise. rewrite Hc.
  destruct (to_right s) eqn:Hd.
  - rewrite Z.eqb_refl. cbv zeta. rewrite HL, HI. cbn [app].
    unfold target, far_end, flips, far_end in *. rewrite Hd in *.
    destruct stop as [k|]; cbn [stop_ok] in Hs.
    + rewrite Hc. destruct (Z.eqb_spec k 0) as [->|Hk0].
      * cbn [pv_is_none]. unfold set_qnidx; cbn. rewrite Hd, andb_false_r. reflexivity.
      * cbn [pv_is_none pv_eqb]. unfold set_qnidx at 1 2 3 4; cbn [to_right site_num qnidx]. rewrite Hd.
        cbn [negb ob_and ob_or]. rewrite andb_true_r.
        destruct (Z.eqb_spec (k - 1) (site_num s - 2)); destruct (Z.eqb_spec k (site_num s - 1)); try lia.
        -- rewrite switch_spec. cbn. subst k. reflexivity.
        -- unfold set_qnidx; cbn. rewrite ?Hd. reflexivity.
    + rewrite Hc. destruct (Z.eqb_spec (site_num s - 1) 0) as [E|E].
      * cbn [pv_is_none]. rewrite switch_spec. cbn. rewrite ?Hd. reflexivity.
      * cbn [pv_is_none pv_eqb]. unfold set_qnidx at 1 2 3 4; cbn [to_right site_num qnidx]. rewrite Hd.
        cbn [negb ob_and ob_or].
        replace (site_num s - 1 - 1 =? site_num s - 2) with true by (symmetry; apply Z.eqb_eq; lia).
        rewrite switch_spec. cbn. rewrite ?Hd. reflexivity.
  - rewrite Z.eqb_refl. cbv zeta. rewrite HL, HI. cbn [app].
    unfold target, far_end, flips, far_end in *. rewrite Hd in *.
    destruct stop as [k|]; cbn [stop_ok] in Hs.
    + rewrite Hc. destruct (Z.eqb_spec k (site_num s - 1)) as [->|Hk0].
      * cbn [pv_is_none]. unfold set_qnidx; cbn. rewrite Hd, andb_false_r. reflexivity.
      * cbn [pv_is_none pv_eqb]. unfold set_qnidx at 1 2 3 4; cbn [to_right site_num qnidx]. rewrite Hd.
        cbn [negb ob_and ob_or]. rewrite andb_true_r.
        destruct (Z.eqb_spec (k + 1) 1); destruct (Z.eqb_spec k 0); try lia.
        -- rewrite switch_spec. cbn. subst k. rewrite ?Hd. reflexivity.
        -- unfold set_qnidx; cbn. rewrite ?Hd. reflexivity.
    + rewrite Hc. destruct (Z.eqb_spec 0 (site_num s - 1)) as [E|E].
      * cbn [pv_is_none]. rewrite switch_spec. cbn. rewrite ?Hd. reflexivity.
      * cbn [pv_is_none pv_eqb]. unfold set_qnidx at 1 2 3 4; cbn [to_right site_num qnidx]. rewrite Hd.
        cbn [negb ob_and ob_or]. rewrite switch_spec. cbn. rewrite ?Hd. reflexivity.
Qed.

End Sched.

Section Sched2.
Local Open Scope Z_scope.

Lemma compress_sched_spec s : entry_ok s ->
  compress s = Some (iter_idx_list s false None,
                     {| site_num := site_num s; qnidx := far_end s; to_right := negb (to_right s) |}).
Proof.
  intros He. pose proof (loop_ok s None He I) as HL. destruct He as [Hn Hc].
  unfold compress. rewrite Hc. unfold target, far_end in *.
  destruct (to_right s) eqn:Hd; rewrite Z.eqb_refl; cbv zeta; rewrite HL; cbn [app];
    rewrite switch_spec; cbn; rewrite ?Hd; reflexivity.
Qed.

(* ensure_left_canonical: whatever the state, it ends left-canonical as advertised (centre on the last
   site, direction "to the left"); the sweep (if the guard fires) is the full right-moving one *)
Lemma ensure_left_spec s chk : 1 <= site_num s ->
  ensure_left_canonical s chk =
    Some ((if to_right s || negb (qnidx s =? site_num s - 1) || negb chk
           then sites_between true 0 (site_num s - 1) else []),
          {| site_num := site_num s; qnidx := site_num s - 1; to_right := false |}).
Proof.
  intros Hn. unfold ensure_left_canonical.
  destruct (to_right s || negb (qnidx s =? site_num s - 1) || negb chk) eqn:G.
  - cbv zeta. unfold move_qnidx. cbv zeta.
    set (s1 := set_to_right (set_qnidx s 0) true).
    assert (He : entry_ok s1) by (split; [exact Hn|reflexivity]).
    rewrite (canonicalise_sched_spec s1 None He I). cbn [run_then app].
    rewrite (iter_idx_list_spec s1 None); [|cbn; lia|exact I|cbn; lia]. reflexivity.
  - apply orb_false_elim in G. destruct G as [G G3]. apply orb_false_elim in G. destruct G as [G1 G2].
    apply negb_false_iff in G2. apply Z.eqb_eq in G2. destruct s as [n c d]. cbn in *. subst. reflexivity.
Qed.

Lemma ensure_right_spec s chk : 1 <= site_num s ->
  ensure_right_canonical s chk =
    Some ((if negb (to_right s) || negb (qnidx s =? 0) || negb chk
           then sites_between false (site_num s - 1) 0 else []),
          {| site_num := site_num s; qnidx := 0; to_right := true |}).
Proof.
  intros Hn. unfold ensure_right_canonical.
  destruct (negb (to_right s) || negb (qnidx s =? 0) || negb chk) eqn:G.
  - cbv zeta. unfold move_qnidx. cbv zeta.
    set (s1 := set_to_right (set_qnidx s (site_num s - 1)) false).
    assert (He : entry_ok s1) by (split; [exact Hn|reflexivity]).
    rewrite (canonicalise_sched_spec s1 None He I). cbn [run_then app].
    rewrite (iter_idx_list_spec s1 None); [|cbn; lia|exact I|cbn; lia]. reflexivity.
  - apply orb_false_elim in G. destruct G as [G G3]. apply orb_false_elim in G. destruct G as [G1 G2].
    apply negb_false_iff in G1, G2. apply Z.eqb_eq in G2. destruct s as [n c d]. cbn in *. subst. reflexivity.
Qed.

(* the variational sweep header: every site once, centre to the far end, then the direction switches *)
Lemma variational_sweep_spec s : entry_ok s ->
  variational_sweep s =
    Some ((if to_right s then map Z.of_nat (seq 0 (Z.to_nat (site_num s)))
           else rev (map Z.of_nat (seq 0 (Z.to_nat (site_num s))))),
          {| site_num := site_num s; qnidx := far_end s; to_right := negb (to_right s) |}).
Proof.
  intros [Hn Hc]. unfold variational_sweep. rewrite switch_spec.
  rewrite iter_idx_list_full_spec by (destruct (to_right s); lia).
  unfold far_end. destruct (to_right s); rewrite Hc; do 3 f_equal.
  - f_equal. lia.
  - do 3 f_equal. lia.
Qed.

End Sched2.

(* ================================================================================================ *)
(* Part 2: one push step and the sweep                                                              *)
(* ================================================================================================ *)
Section Alg.
Variable R : CRing.
Add Ring RR2 : (rth R).
Notation "0" := (r0 R).
Notation "1" := (r1 R).
Infix "+" := (radd R).
Infix "*" := (rmul R).

Lemma decode_div l dp p : p < dp -> ((l * dp + p) / dp = l)%nat.
Proof. intros H. symmetry. apply (Nat.div_unique _ _ _ p); [exact H|lia]. Qed.
Lemma decode_mod l dp p : p < dp -> ((l * dp + p) mod dp = p)%nat.
Proof. intros H. symmetry. apply (Nat.mod_unique _ _ l); [exact H|lia]. Qed.
Lemma flat_lt l dl p dp : l < dl -> p < dp -> (l * dp + p < dl * dp)%nat.
Proof. intros. nia. Qed.

(* sum_a U a * (sum_m (sum_j V a j * T j m) * C m)  =  sum_j (sum_a U a * V a j) * (sum_m T j m * C m) *)
Lemma mid_insert k dr d2 (U : nat -> R) (V : nat -> nat -> R) (T : nat -> nat -> R) (C : nat -> R) :
  sumn k (fun a => U a * sumn d2 (fun m => sumn dr (fun j => V a j * T j m) * C m)) =
  sumn dr (fun j => sumn k (fun a => U a * V a j) * sumn d2 (fun m => T j m * C m)).
Proof.
  transitivity (sumn k (fun a => sumn dr (fun j => U a * V a j * sumn d2 (fun m => T j m * C m)))).
  - apply sumn_ext. intros a _. rewrite <- sumn_scale_l.
    transitivity (sumn d2 (fun m => sumn dr (fun j => U a * (V a j * T j m * C m)))).
    + apply sumn_ext. intros m _. rewrite <- sumn_scale_r, <- sumn_scale_l. reflexivity.
    + rewrite sumn_exchange. apply sumn_ext. intros j _.
      rewrite <- sumn_scale_l. apply sumn_ext. intros m _. ring.
  - rewrite sumn_exchange. apply sumn_ext. intros j _. rewrite <- sumn_scale_r. reflexivity.
Qed.

(* sum_a (sum_j A j * U j a) * (sum_m V a m * C m)  =  sum_j A j * sum_m (sum_a U j a * V a m) * C m *)
Lemma mid_insert_l k dm dr (A : nat -> R) (U V : nat -> nat -> R) (C : nat -> R) :
  sumn k (fun a => sumn dm (fun j => A j * U j a) * sumn dr (fun m => V a m * C m)) =
  sumn dm (fun j => A j * sumn dr (fun m => sumn k (fun a => U j a * V a m) * C m)).
Proof.
  transitivity (sumn k (fun a => sumn dm (fun j => sumn dr (fun m => A j * (U j a * V a m * C m))))).
  - apply sumn_ext. intros a _. rewrite <- sumn_scale_r. apply sumn_ext. intros j _.
    rewrite <- sumn_scale_l. apply sumn_ext. intros m _. ring.
  - rewrite sumn_exchange. apply sumn_ext. intros j _.
    transitivity (sumn dr (fun m => sumn k (fun a => A j * (U j a * V a m * C m)))).
    + apply sumn_exchange.
    + rewrite <- sumn_scale_l. apply sumn_ext. intros m _.
      rewrite <- sumn_scale_r, <- sumn_scale_l. reflexivity.
Qed.

Section WithDec.
Variable dec : kernel R.
Hypothesis Hfac : dec_factor R dec.

(* the two-site identities: only M = U.V is used *)
Lemma two_r gi dl dp dr t dr2 t2 b p s l r : l < dl -> p < dp ->
  let x := dec gi true (dl * dp)%nat dr (mat_r R dp t) in
  chain3 ((dK x, site_u R dp (dU x)) :: (dr2, absorb_v R dr (dV x) t2) :: b) (p :: s) l r =
  chain3 ((dr, t) :: (dr2, t2) :: b) (p :: s) l r.
Proof.
  intros Hl Hp x. destruct s as [|q s].
  - cbn [chain3]. rewrite !sumn_0; [reflexivity| |]; intros; ring.
  - cbn [chain3]. unfold absorb_v, site_u.
    rewrite (mid_insert (dK x) dr dr2 (fun a => dU x (l * dp + p)%nat a) (dV x) (fun j m => t2 j q m)
                        (fun m => chain3 b s m r)).
    apply sumn_ext. intros j Hj. f_equal.
    pose proof (Hfac gi true (dl * dp)%nat dr (mat_r R dp t) (l * dp + p)%nat j (flat_lt _ _ _ _ Hl Hp) Hj) as E.
    fold x in E. rewrite <- E. unfold mat_r. rewrite decode_div, decode_mod by exact Hp. reflexivity.
Qed.

Lemma two_l gi dp dm t1 dr t b p0 p s l r : p < dp ->
  let x := dec gi false dm (dp * dr)%nat (mat_l R dr t) in
  chain3 ((dK x, absorb_u R dm t1 (dU x)) :: (dr, site_v R dr (dV x)) :: b) (p0 :: p :: s) l r =
  chain3 ((dm, t1) :: (dr, t) :: b) (p0 :: p :: s) l r.
Proof.
  intros Hp x. cbn [chain3]. unfold absorb_u, site_v.
  rewrite (mid_insert_l (dK x) dm dr (fun j => t1 l p0 j) (dU x) (fun a m => dV x a (p * dr + m)%nat)
                        (fun m => chain3 b s m r)).
  apply sumn_ext. intros j Hj. f_equal. apply sumn_ext. intros m Hm. f_equal.
  pose proof (Hfac gi false dm (dp * dr)%nat (mat_l R dr t) j (p * dr + m)%nat Hj (flat_lt _ _ _ _ Hp Hm)) as E.
  fold x in E. rewrite <- E. unfold mat_l. rewrite decode_div, decode_mod by exact Hm. reflexivity.
Qed.

Lemma push_r_chain i : forall gi dl ds ts s l r, l < dl -> cfg_ok ds s ->
  chain3 (push_r R dec gi dl ds ts i) s l r = chain3 ts s l r.
Proof.
  induction i as [|i IH]; intros gi dl ds ts s l r Hl Hs.
  - destruct ds as [|dp ds]; [reflexivity|]. destruct ts as [|[dr t] [|[dr2 t2] b]]; try reflexivity.
    inversion Hs as [|p dp' s' ds' Hp Hs']; subst. cbn [push_r]. apply two_r; assumption.
  - destruct ds as [|dp ds]; [destruct ts; reflexivity|]. destruct ts as [|[dr t] ts]; [reflexivity|].
    cbn [push_r]. inversion Hs as [|p dp' s' ds' Hp Hs']; subst. cbn [chain3].
    apply sumn_ext. intros m Hm. f_equal. apply IH; assumption.
Qed.

Lemma push_l_chain i : forall gi ds ts s l r, cfg_ok ds s ->
  chain3 (push_l R dec gi ds ts i) s l r = chain3 ts s l r.
Proof.
  induction i as [|i IH]; intros gi ds ts s l r Hs.
  - destruct ds as [|d0 [|dp ds]]; try (destruct ts; reflexivity).
    destruct ts as [|[dm t1] [|[dr t] b]]; try reflexivity.
    inversion Hs as [|p0 d0' s' ds' Hp0 Hs']; subst. inversion Hs' as [|p dp' s'' ds'' Hp Hs'']; subst.
    cbn [push_l]. apply two_l; assumption.
  - destruct ds as [|dp ds]; [destruct ts; reflexivity|]. destruct ts as [|[dr t] ts]; [reflexivity|].
    cbn [push_l]. inversion Hs as [|p dp' s' ds' Hp Hs']; subst. cbn [chain3].
    apply sumn_ext. intros m Hm. f_equal. apply IH; assumption.
Qed.

(* one push step leaves the amplitude of every basis configuration unchanged *)
Lemma push_preserves_amp dir ds ts i s : cfg_ok ds s ->
  amp (push R dec dir ds ts i) s = amp ts s.
Proof.
  intros Hs. unfold amp, push. destruct dir.
  - apply push_r_chain; [lia|exact Hs].
  - destruct i; [reflexivity|]. apply push_l_chain. exact Hs.
Qed.

Lemma sweep_preserves_amp dir ds tr : forall ts s, cfg_ok ds s ->
  amp (sweep R dec dir ds tr ts) s = amp ts s.
Proof.
  induction tr as [|i tr IH]; intros ts s Hs; [reflexivity|].
  cbn [sweep fold_left]. fold (sweep R dec dir ds tr (push R dec dir ds ts (Z.to_nat i))).
  rewrite IH by exact Hs. apply push_preserves_amp. exact Hs.
Qed.

End WithDec.
End Alg.

(* ================================================================================================ *)
(* Part 3: isometries, bond dimensions                                                              *)
(* ================================================================================================ *)
Section Struct.
Variable R : CRing.
Variable dec : kernel R.

Lemma push_r_length i : forall gi dl ds ts, length (push_r R dec gi dl ds ts i) = length ts.
Proof.
  induction i as [|i IH]; intros gi dl ds ts.
  - destruct ds as [|dp ds]; [reflexivity|]. destruct ts as [|[dr t] [|[dr2 t2] b]]; reflexivity.
  - destruct ds as [|dp ds]; [destruct ts; reflexivity|]. destruct ts as [|[dr t] ts]; [reflexivity|].
    cbn [push_r length]. rewrite IH. reflexivity.
Qed.
Lemma push_l_length i : forall gi ds ts, length (push_l R dec gi ds ts i) = length ts.
Proof.
  induction i as [|i IH]; intros gi ds ts.
  - destruct ds as [|d0 [|dp ds]]; try (destruct ts; reflexivity).
    destruct ts as [|[dm t1] [|[dr t] b]]; reflexivity.
  - destruct ds as [|dp ds]; [destruct ts; reflexivity|]. destruct ts as [|[dr t] ts]; [reflexivity|].
    cbn [push_l length]. rewrite IH. reflexivity.
Qed.
Lemma push_length dir ds ts i : length (push R dec dir ds ts i) = length ts.
Proof. unfold push. destruct dir; [apply push_r_length|]. destruct i; [reflexivity|apply push_l_length]. Qed.
Lemma sweep_length dir ds tr : forall ts, length (sweep R dec dir ds tr ts) = length ts.
Proof.
  induction tr as [|i tr IH]; intros ts; [reflexivity|]. cbn [sweep fold_left].
  fold (sweep R dec dir ds tr (push R dec dir ds ts (Z.to_nat i))). rewrite IH. apply push_length.
Qed.

Lemma sweep_snoc dir ds tr i ts :
  sweep R dec dir ds (tr ++ [i]) ts = push R dec dir ds (sweep R dec dir ds tr ts) (Z.to_nat i).
Proof. unfold sweep. rewrite fold_left_app. reflexivity. Qed.

(* ---- generic: a right push establishes P at the centre and keeps it on the sites before ---- *)
Section Prefix.
Variable P : nat -> nat -> nat -> T3 R -> Prop.
Hypothesis Pest : forall gi dl dp dr t,
  P dl dp (dK (dec gi true (dl * dp) dr (mat_r R dp t))) (site_u R dp (dU (dec gi true (dl * dp) dr (mat_r R dp t)))).

Lemma push_r_prefix c : forall gi dl ds ts, length ds = length ts -> c + 1 < length ts ->
  prefixP R P c dl ds ts -> prefixP R P (S c) dl ds (push_r R dec gi dl ds ts c).
Proof.
  induction c as [|c IH]; intros gi dl ds ts Hlen Hc Hp.
  - destruct ds as [|dp [|dp2 ds]]; destruct ts as [|[dr t] [|[dr2 t2] b]]; cbn in Hlen, Hc; try lia.
    cbn [push_r prefixP]. split; [apply Pest|exact I].
  - destruct ds as [|dp ds]; destruct ts as [|[dr t] ts]; cbn in Hlen, Hc; try lia.
    cbn [prefixP] in Hp. destruct Hp as [Hp0 Hp]. cbn [push_r]. cbn [prefixP]. split; [exact Hp0|].
    apply IH; [lia|lia|exact Hp].
Qed.

Lemma sweep_r_prefix c : forall ds ts, length ds = length ts -> c < length ts ->
  prefixP R P c 1 ds (sweep R dec true ds (zup 0 c) ts).
Proof.
  induction c as [|c IH]; intros ds ts Hlen Hc; [exact I|].
  rewrite zup_snoc, sweep_snoc. replace (Z.to_nat (0 + Z.of_nat c)) with c by lia.
  unfold push. apply push_r_prefix.
  - rewrite sweep_length. exact Hlen.
  - rewrite sweep_length. lia.
  - apply IH; [exact Hlen|lia].
Qed.
End Prefix.

(* ---- generic: a left push establishes Q at the centre and keeps it on the sites after ---- *)
Section After.
Variable Q : nat -> nat -> nat -> T3 R -> Prop.
Hypothesis Qest : forall gi dm dp dr t,
  Q (dK (dec gi false dm (dp * dr) (mat_l R dr t))) dp dr (site_v R dr (dV (dec gi false dm (dp * dr) (mat_l R dr t)))).

Lemma push_l_after i : forall gi dl ds ts, length ds = length ts -> S i < length ts ->
  afterP R Q (S i) dl ds ts -> afterP R Q i dl ds (push_l R dec gi ds ts i).
Proof.
  induction i as [|i IH]; intros gi dl ds ts Hlen Hc Hp.
  - destruct ds as [|d0 [|dp ds]]; destruct ts as [|[dm t1] [|[dr t] b]]; cbn in Hlen, Hc; try lia.
    cbn [afterP] in Hp. cbn [push_l afterP allP]. split; [apply Qest|exact Hp].
  - destruct ds as [|dp ds]; destruct ts as [|[dr t] ts]; cbn in Hlen, Hc; try lia.
    cbn [afterP] in Hp. cbn [push_l]. cbn [afterP]. apply IH; [lia|lia|exact Hp].
Qed.

Lemma afterP_last : forall ts ds dl, length ds = length ts -> ts <> [] ->
  afterP R Q (length ts - 1) dl ds ts.
Proof.
  induction ts as [|[d t] ts IH]; intros ds dl Hlen Hne; [congruence|].
  destruct ds as [|dp ds]; [discriminate|]. cbn in Hlen.
  destruct ts as [|y ts'].
  - destruct ds; [|discriminate]. cbn. exact I.
  - cbn [length afterP]. replace (S (S (length ts')) - 1) with (S (length ts')) by lia.
    specialize (IH ds d). cbn [length] in IH. replace (S (length ts') - 1) with (length ts') in IH by lia.
    apply IH; [cbn [length] in Hlen; lia|discriminate].
Qed.

Lemma sweep_l_after k : forall ds ts, length ds = length ts -> k < length ts ->
  afterP R Q (length ts - 1 - k) 1 ds (sweep R dec false ds (zdown (Z.of_nat (length ts) - 1) k) ts).
Proof.
  induction k as [|k IH]; intros ds ts Hlen Hk.
  - cbn [zdown seq map sweep fold_left]. rewrite Nat.sub_0_r. apply afterP_last; [exact Hlen|].
    destruct ts; [cbn in Hk; lia|discriminate].
  - rewrite zdown_snoc, sweep_snoc.
    replace (Z.to_nat (Z.of_nat (length ts) - 1 - Z.of_nat k)) with (S (length ts - 1 - S k)) by lia.
    unfold push. apply push_l_after.
    + rewrite sweep_length. exact Hlen.
    + rewrite sweep_length. lia.
    + replace (S (length ts - 1 - S k)) with (length ts - 1 - k) by lia. apply IH; [exact Hlen|lia].
Qed.
End After.

End Struct.

Section Iso.
Variable R : CRing.

Lemma ucols_left_iso w dl dp k (U : mat R) :
  ucols_orth R w (dl * dp) k U -> left_iso R w dl dp k (site_u R dp U).
Proof.
  intros H a b Ha Hb. unfold site_u. rewrite <- (H a b Ha Hb).
  rewrite (sumn_prod R dl dp (fun x => rmul R (rcj R (U x a)) (U x b))). reflexivity.
Qed.

Lemma vrows_right_iso w k dp dr (V : mat R) :
  vrows_orth R w (dp * dr) k V -> right_iso R w k dp dr (site_v R dr V).
Proof.
  intros H a b Ha Hb. unfold site_v. rewrite <- (H a b Ha Hb).
  rewrite (sumn_prod R dp dr (fun y => rmul R (rcj R (V a y)) (V b y))). reflexivity.
Qed.

(* rescaling the two factors by cu, cv with cu*cv = 1 keeps M = U.V and the bound, and turns an
   isometry into an isometry up to the weight rcj(c)*c *)
Lemma rescale_factor sc dec : scale_ok R sc -> dec_factor R dec -> dec_factor R (rescale R sc dec).
Proof.
  intros Hs Hf gi dir rows cols M i j Hi Hj. unfold rescale, dK, dU, dV. cbn [fst snd].
  rewrite (Hf gi dir rows cols M i j Hi Hj). apply sumn_ext. intros a _.
  pose proof (Hs gi dir rows cols M) as E. unfold dU, dV.
  transitivity (rmul R (rmul R (fst (sc gi dir rows cols M)) (snd (sc gi dir rows cols M)))
                       (rmul R (snd (fst (dec gi dir rows cols M)) i a) (snd (dec gi dir rows cols M) a j))).
  - rewrite E. generalize (rth R). intros T. rewrite (Rmul_1_l T). reflexivity.
  - generalize (rth R). intros T.
    set (c1 := fst (sc gi dir rows cols M)). set (c2 := snd (sc gi dir rows cols M)).
    set (u := snd (fst (dec gi dir rows cols M)) i a). set (v := snd (dec gi dir rows cols M) a j).
    rewrite <- (Rmul_assoc T c1 u (rmul R c2 v)). rewrite <- (Rmul_assoc T c1 c2 (rmul R u v)).
    f_equal. rewrite (Rmul_assoc T u c2 v), (Rmul_comm T u c2), <- (Rmul_assoc T c2 u v). reflexivity.
Qed.

Lemma rescale_bound sc dec : dec_bound R dec -> dec_bound R (rescale R sc dec).
Proof. intros Hb gi dir rows cols M. unfold rescale, dK. cbn [fst]. apply Hb. Qed.

End Iso.

Section Iso2.
Variable R : CRing.
Add Ring RR3 : (rth R).

Lemma rescale_iso_scaled sc dec : dec_iso R dec -> dec_iso_scaled R (rescale R sc dec).
Proof.
  intros Hi gi rows cols M. destruct (Hi gi rows cols M) as [HU HV]. split.
  - exists (rmul R (rcj R (fst (sc gi true rows cols M))) (fst (sc gi true rows cols M))).
    intros a b Ha Hb. unfold rescale, dK, dU, dV in *. cbn [fst snd] in *.
    rewrite (sumn_ext R rows _ (fun i => rmul R (rmul R (rcj R (fst (sc gi true rows cols M))) (fst (sc gi true rows cols M)))
                (rmul R (rcj R (snd (fst (dec gi true rows cols M)) i a)) (snd (fst (dec gi true rows cols M)) i b)))).
    + rewrite sumn_scale_l. rewrite (HU a b Ha Hb). ring.
    + intros i _. rewrite rcj_mul. ring.
  - exists (rmul R (rcj R (snd (sc gi false rows cols M))) (snd (sc gi false rows cols M))).
    intros a b Ha Hb. unfold rescale, dK, dU, dV in *. cbn [fst snd] in *.
    rewrite (sumn_ext R cols _ (fun j => rmul R (rmul R (rcj R (snd (sc gi false rows cols M))) (snd (sc gi false rows cols M)))
                (rmul R (rcj R (snd (dec gi false rows cols M) a j)) (snd (dec gi false rows cols M) b j)))).
    + rewrite sumn_scale_l. rewrite (HV a b Ha Hb). ring.
    + intros j _. rewrite rcj_mul. ring.
Qed.

Lemma sumn_trunc m k (f : nat -> R) : m <= k -> (forall a, m <= a -> a < k -> f a = r0 R) -> sumn k f = sumn m f.
Proof.
  intros Hm Hz. replace k with (m + (k - m)) by lia. rewrite sumn_split.
  rewrite (sumn_0 R (k - m)); [ring|]. intros i Hi. apply Hz; lia.
Qed.

(* truncation that cuts only zero columns keeps M = U.V *)
Lemma trunc_factor mt dec : lossless R mt dec -> dec_factor R dec -> dec_factor R (trunc R mt dec).
Proof.
  intros Hl Hf gi dir rows cols M i j Hi Hj. unfold trunc, dK, dU, dV. cbn [fst snd].
  rewrite (Hf gi dir rows cols M i j Hi Hj). unfold dK, dU, dV.
  apply sumn_trunc; [apply Nat.le_min_r|].
  intros a Ha Hk.
  assert (Ha' : mt gi (dK (dec gi dir rows cols M)) <= a).
  { unfold dK. destruct (Nat.min_spec (mt gi (fst (fst (dec gi dir rows cols M)))) (fst (fst (dec gi dir rows cols M)))) as [[_ E]|[_ E]]; rewrite E in Ha; [exact Ha|lia]. }
  destruct (Hl gi dir rows cols M a Ha' Hk) as [Z|Z]; unfold dU, dV in Z.
  - rewrite (Z i Hi). ring.
  - rewrite (Z j Hj). ring.
Qed.

Lemma trunc_bound mt dec : dec_bound R dec -> dec_bound R (trunc R mt dec).
Proof.
  intros Hb gi dir rows cols M. unfold trunc, dK. cbn [fst].
  etransitivity; [apply Nat.le_min_r|apply Hb].
Qed.

Lemma trunc_iso mt dec : dec_iso R dec -> dec_iso R (trunc R mt dec).
Proof.
  intros Hi gi rows cols M. destruct (Hi gi rows cols M) as [HU HV].
  split; intros a b Ha Hb; unfold trunc, dK, dU, dV in *; cbn [fst snd] in *.
  - apply HU; eapply Nat.lt_le_trans; try eassumption; apply Nat.le_min_r.
  - apply HV; eapply Nat.lt_le_trans; try eassumption; apply Nat.le_min_r.
Qed.

End Iso2.

Section Dims.
Variable R : CRing.
Variable dec : kernel R.
Hypothesis Hb : dec_bound R dec.

Definition le_list (a b : list nat) : Prop := Forall2 le a b.
Lemma le_list_refl a : le_list a a.
Proof. induction a; constructor; auto. Qed.
Lemma le_list_trans a b c : le_list a b -> le_list b c -> le_list a c.
Proof.
  intros H; revert c. induction H; intros c Hc; inversion Hc; subst; constructor; [lia|].
  apply IHForall2. assumption.
Qed.

Lemma push_r_dims i : forall gi dl ds ts, le_list (dims R (push_r R dec gi dl ds ts i)) (dims R ts).
Proof.
  induction i as [|i IH]; intros gi dl ds ts.
  - destruct ds as [|dp ds]; [apply le_list_refl|]. destruct ts as [|[dr t] [|[dr2 t2] b]]; try apply le_list_refl.
    cbn [push_r dims map fst]. constructor.
    + pose proof (Hb gi true (dl * dp) dr (mat_r R dp t)). lia.
    + apply le_list_refl.
  - destruct ds as [|dp ds]; [destruct ts; apply le_list_refl|]. destruct ts as [|[dr t] ts]; [apply le_list_refl|].
    cbn [push_r dims map fst]. constructor; [lia|apply IH].
Qed.
Lemma push_l_dims i : forall gi ds ts, le_list (dims R (push_l R dec gi ds ts i)) (dims R ts).
Proof.
  induction i as [|i IH]; intros gi ds ts.
  - destruct ds as [|d0 [|dp ds]]; try (destruct ts; apply le_list_refl).
    destruct ts as [|[dm t1] [|[dr t] b]]; try apply le_list_refl.
    cbn [push_l dims map fst]. constructor.
    + pose proof (Hb gi false dm (dp * dr) (mat_l R dr t)). lia.
    + apply le_list_refl.
  - destruct ds as [|dp ds]; [destruct ts; apply le_list_refl|]. destruct ts as [|[dr t] ts]; [apply le_list_refl|].
    cbn [push_l dims map fst]. constructor; [lia|apply IH].
Qed.
Lemma push_dims dir ds ts i : le_list (dims R (push R dec dir ds ts i)) (dims R ts).
Proof. unfold push. destruct dir; [apply push_r_dims|]. destruct i; [apply le_list_refl|apply push_l_dims]. Qed.

(* no bond dimension grows, whatever the schedule *)
Lemma sweep_dims dir ds tr : forall ts, le_list (dims R (sweep R dec dir ds tr ts)) (dims R ts).
Proof.
  induction tr as [|i tr IH]; intros ts; [apply le_list_refl|]. cbn [sweep fold_left].
  fold (sweep R dec dir ds tr (push R dec dir ds ts (Z.to_nat i))).
  eapply le_list_trans; [apply IH|apply push_dims].
Qed.

Lemma le_list_nth a b : le_list a b -> forall j, nth j a 0 <= nth j b 0.
Proof. intros H. induction H; intros [|j]; cbn; auto. Qed.

Lemma le_list_lastdim : forall (a b : chain R) dl, le_list (dims R a) (dims R b) -> lastdim dl a <= lastdim dl b.
Proof.
  induction a as [|[d t] a IH]; intros b dl H; destruct b as [|[d' t'] b]; inversion H; subst.
  - cbn. lia.
  - rewrite !lastdim_cons. destruct a as [|x a]; destruct b as [|y b].
    + cbn. assumption.
    + inversion H5.
    + inversion H5.
    + transitivity (lastdim d' (x :: a)).
      * destruct x. rewrite !lastdim_cons. lia.
      * apply IH. assumption.
Qed.

(* local bounds *)
Definition Pbound (dl dp d : nat) (_ : T3 R) : Prop := d <= dl * dp.
Definition Qbound (dl dp d : nat) (_ : T3 R) : Prop := dl <= dp * d.

Lemma Pbound_est gi dl dp dr t :
  Pbound dl dp (dK (dec gi true (dl * dp) dr (mat_r R dp t))) (site_u R dp (dU (dec gi true (dl * dp) dr (mat_r R dp t)))).
Proof. unfold Pbound. pose proof (Hb gi true (dl * dp) dr (mat_r R dp t)). lia. Qed.
Lemma Qbound_est gi dm dp dr t :
  Qbound (dK (dec gi false dm (dp * dr) (mat_l R dr t))) dp dr (site_v R dr (dV (dec gi false dm (dp * dr) (mat_l R dr t)))).
Proof. unfold Qbound. pose proof (Hb gi false dm (dp * dr) (mat_l R dr t)). lia. Qed.

(* from local to global *)
Lemma prefix_bound_global c : forall dl ds ts, prefixP R Pbound c dl ds ts ->
  forall j, j < c -> nth j (dims R ts) 0 <= dl * prod (firstn (S j) ds).
Proof.
  induction c as [|c IH]; intros dl ds ts Hp j Hj; [lia|].
  destruct ds as [|dp ds]; destruct ts as [|[d t] ts]; cbn [prefixP] in Hp; try contradiction.
  destruct Hp as [H0 Hp]. unfold Pbound in H0. destruct j as [|j].
  - cbn. lia.
  - cbn [dims map nth fst]. specialize (IH d ds ts Hp j ltac:(lia)).
    change (firstn (S (S j)) (dp :: ds)) with (dp :: firstn (S j) ds). cbn [prod fold_right].
    fold (prod (firstn (S j) ds)). unfold dims in IH. nia.
Qed.

Lemma all_bound_global : forall ts ds dl, allP R Qbound dl ds ts -> dl <= prod ds * lastdim dl ts.
Proof.
  induction ts as [|[d t] ts IH]; intros ds dl H; destruct ds as [|dp ds]; cbn [allP] in H; try contradiction.
  - cbn. lia.
  - destruct H as [H0 H]. unfold Qbound in H0. specialize (IH ds d H). rewrite lastdim_cons.
    cbn [prod fold_right]. fold (prod ds). nia.
Qed.

Lemma allP_skip Q : forall ts ds dl, allP R Q dl ds ts -> forall j, j < length ts ->
  allP R Q (nth j (dims R ts) 0) (skipn (S j) ds) (skipn (S j) ts).
Proof.
  induction ts as [|[d t] ts IH]; intros ds dl H j Hj; [cbn in Hj; lia|].
  destruct ds as [|dp ds]; cbn [allP] in H; try contradiction. destruct H as [_ H].
  destruct j as [|j]; [exact H|]. cbn [dims map nth fst skipn]. apply (IH ds d H j). cbn in Hj. lia.
Qed.

Lemma lastdim_skipn : forall (ts : chain R) dl j, j < length ts ->
  lastdim (nth j (dims R ts) 0) (skipn (S j) ts) = lastdim dl ts.
Proof.
  induction ts as [|[d t] ts IH]; intros dl j Hj; [cbn in Hj; lia|].
  destruct j as [|j]; [reflexivity|]. cbn [dims map nth fst skipn]. rewrite lastdim_cons.
  apply IH. cbn in Hj. lia.
Qed.

Lemma after0_bound_global dl ds ts : afterP R Qbound 0 dl ds ts ->
  forall j, S j < length ts -> nth j (dims R ts) 0 <= prod (skipn (S j) ds) * lastdim dl ts.
Proof.
  intros H j Hj. destruct ds as [|dp ds]; destruct ts as [|[d t] ts]; cbn [afterP] in H; try contradiction.
  cbn [length] in Hj. rewrite lastdim_cons.
  destruct j as [|j].
  - cbn [dims map nth fst skipn]. apply all_bound_global. exact H.
  - cbn [dims map nth fst]. change (skipn (S (S j)) (dp :: ds)) with (skipn (S j) ds).
    pose proof (allP_skip Qbound ts ds d H j ltac:(lia)) as H1.
    apply all_bound_global in H1. rewrite (lastdim_skipn ts d j ltac:(lia)) in H1. exact H1.
Qed.

End Dims.

Section Sched3.
Local Open Scope Z_scope.
Lemma iter_idx_list_entry s stop : entry_ok s -> stop_ok s stop ->
  iter_idx_list s false stop =
    if to_right s then zup 0 (Z.to_nat (target s stop))
    else zdown (site_num s - 1) (Z.to_nat (site_num s - 1 - target s stop)).
Proof.
  intros [Hn Hc] Hs. unfold iter_idx_list, target, far_end.
  destruct (to_right s) eqn:Hd; destruct stop as [k|]; cbn [stop_ok] in Hs;
    rewrite ?py_range_up, ?py_range_down, Hc; f_equal; lia.
Qed.
End Sched3.

(* ================================================================================================ *)
(* Part 4: the property theorems                                                                    *)
(* ================================================================================================ *)
Section Main.
Variable R : CRing.

(* the chain has one tensor per site of the schedule state and one physical dimension per site *)
Definition wf (ds : list nat) (m : mp R) : Prop :=
  length ds = length (m_chain m) /\ Z.of_nat (length (m_chain m)) = site_num (m_st m).

Definition final_st (s : sst) (stop : option Z) : sst :=
  {| site_num := site_num s; qnidx := target s stop;
     to_right := if flips s stop then negb (to_right s) else to_right s |}.

Lemma canonicalise_mp_eq dec ds (m : mp R) stop : entry_ok (m_st m) -> stop_ok (m_st m) stop ->
  canonicalise_mp R dec ds m stop =
    Some {| m_chain := sweep R dec (to_right (m_st m)) ds (iter_idx_list (m_st m) false stop) (m_chain m);
            m_coeff := m_coeff m; m_st := final_st (m_st m) stop |}.
Proof.
  intros He Hs. unfold canonicalise_mp, run. rewrite (canonicalise_sched_spec _ _ He Hs). reflexivity.
Qed.

(* canonicalise: never raises, prefactor untouched, every amplitude unchanged, centre/direction as advertised *)
Theorem cano_dense dec : dec_factor R dec ->
  forall ds (m : mp R) stop, entry_ok (m_st m) -> stop_ok (m_st m) stop ->
  exists m', canonicalise_mp R dec ds m stop = Some m' /\
             m_coeff m' = m_coeff m /\
             (forall s, cfg_ok ds s -> amp (m_chain m') s = amp (m_chain m) s) /\
             m_st m' = final_st (m_st m) stop.
Proof.
  intros Hf ds m stop He Hs. eexists. split; [apply canonicalise_mp_eq; assumption|].
  cbn. split; [reflexivity|]. split; [|reflexivity].
  intros s Hc. apply sweep_preserves_amp; assumption.
Qed.

Theorem dims_monotone dec : dec_bound R dec ->
  forall ds (m m' : mp R) stop, canonicalise_mp R dec ds m stop = Some m' ->
  le_list (dims R (m_chain m')) (dims R (m_chain m)).
Proof.
  intros Hb ds m m' stop H. unfold canonicalise_mp, run in H.
  destruct (canonicalise (m_st m) stop) as [[tr s']|]; [|discriminate].
  inversion H; subst. cbn. apply sweep_dims. exact Hb.
Qed.

(* generic: after canonicalise, P holds on every site before the final centre (right-moving) /
   Q on every site after it (left-moving) *)
Lemma cano_prefix_generic dec (P : nat -> nat -> nat -> T3 R -> Prop)
  (Pest : forall gi dl dp dr t,
     P dl dp (dK (dec gi true (dl * dp)%nat dr (mat_r R dp t))) (site_u R dp (dU (dec gi true (dl * dp)%nat dr (mat_r R dp t))))) :
  forall ds (m m' : mp R) stop, wf ds m -> entry_ok (m_st m) -> stop_ok (m_st m) stop ->
  to_right (m_st m) = true -> canonicalise_mp R dec ds m stop = Some m' ->
  prefixP R P (Z.to_nat (target (m_st m) stop)) 1 ds (m_chain m').
Proof.
  intros ds m m' stop [Hl Hn] He Hs Hd H. rewrite canonicalise_mp_eq in H by assumption.
  inversion H; subst; clear H. cbn [m_chain]. rewrite iter_idx_list_entry by assumption. rewrite Hd.
  apply sweep_r_prefix; [exact Pest|exact Hl|].
  destruct He as [He1 He2]. unfold target, far_end. rewrite Hd. destruct stop as [k|]; cbn [stop_ok] in Hs; lia.
Qed.

Lemma cano_after_generic dec (Q : nat -> nat -> nat -> T3 R -> Prop)
  (Qest : forall gi dm dp dr t,
     Q (dK (dec gi false dm (dp * dr)%nat (mat_l R dr t))) dp dr (site_v R dr (dV (dec gi false dm (dp * dr)%nat (mat_l R dr t))))) :
  forall ds (m m' : mp R) stop, wf ds m -> entry_ok (m_st m) -> stop_ok (m_st m) stop ->
  to_right (m_st m) = false -> canonicalise_mp R dec ds m stop = Some m' ->
  afterP R Q (Z.to_nat (target (m_st m) stop)) 1 ds (m_chain m').
Proof.
  intros ds m m' stop [Hl Hn] He Hs Hd H. rewrite canonicalise_mp_eq in H by assumption.
  inversion H; subst; clear H. cbn [m_chain]. rewrite iter_idx_list_entry by assumption. rewrite Hd.
  assert (Ht : (0 <= target (m_st m) stop <= site_num (m_st m) - 1)%Z).
  { destruct He as [He1 He2]. unfold target, far_end. rewrite Hd. destruct stop as [k|]; cbn [stop_ok] in Hs; lia. }
  rewrite <- Hn.
  replace (Z.to_nat (target (m_st m) stop)) with
    (length (m_chain m) - 1 - Z.to_nat (Z.of_nat (length (m_chain m)) - 1 - target (m_st m) stop))%nat by lia.
  apply sweep_l_after; [exact Qest|exact Hl|lia].
Qed.

(* states / density operators: the sites away from the centre are isometries *)
Theorem cano_isometry dec : dec_iso R dec ->
  forall ds (m m' : mp R) stop, wf ds m -> entry_ok (m_st m) -> stop_ok (m_st m) stop ->
  canonicalise_mp R dec ds m stop = Some m' ->
  if to_right (m_st m)
  then prefixP R (left_iso R (r1 R)) (Z.to_nat (target (m_st m) stop)) 1 ds (m_chain m')
  else afterP R (right_iso R (r1 R)) (Z.to_nat (target (m_st m) stop)) 1 ds (m_chain m').
Proof.
  intros Hi ds m m' stop Hw He Hs H. destruct (to_right (m_st m)) eqn:Hd.
  - eapply cano_prefix_generic; try eassumption.
    intros. apply ucols_left_iso. apply (proj1 (Hi gi (dl * dp)%nat dr (mat_r R dp t))).
  - eapply cano_after_generic; try eassumption.
    intros. apply vrows_right_iso. apply (proj2 (Hi gi dm (dp * dr)%nat (mat_l R dr t))).
Qed.

(* operators (Mpo): _update_ms rescales the two factors, the sites are isometries up to a weight *)
Definition left_iso_w dl dp d t : Prop := exists w, left_iso R w dl dp d t.
Definition right_iso_w dl dp d t : Prop := exists w, right_iso R w dl dp d t.
Theorem cano_isometry_scaled dec : dec_iso_scaled R dec ->
  forall ds (m m' : mp R) stop, wf ds m -> entry_ok (m_st m) -> stop_ok (m_st m) stop ->
  canonicalise_mp R dec ds m stop = Some m' ->
  if to_right (m_st m)
  then prefixP R left_iso_w (Z.to_nat (target (m_st m) stop)) 1 ds (m_chain m')
  else afterP R right_iso_w (Z.to_nat (target (m_st m) stop)) 1 ds (m_chain m').
Proof.
  intros Hi ds m m' stop Hw He Hs H. destruct (to_right (m_st m)) eqn:Hd.
  - eapply cano_prefix_generic; try eassumption.
    intros. destruct (proj1 (Hi gi (dl * dp)%nat dr (mat_r R dp t))) as [w Hwt]. exists w. apply ucols_left_iso. exact Hwt.
  - eapply cano_after_generic; try eassumption.
    intros. destruct (proj2 (Hi gi dm (dp * dr)%nat (mat_l R dr t))) as [w Hwt]. exists w. apply vrows_right_iso. exact Hwt.
Qed.

Theorem cano_operator sc dec : scale_ok R sc -> dec_ok R dec ->
  dec_factor R (rescale R sc dec) /\ dec_bound R (rescale R sc dec) /\ dec_iso_scaled R (rescale R sc dec).
Proof.
  intros Hs [Hf [Hb Hi]]. split; [apply rescale_factor; assumption|].
  split; [apply rescale_bound; assumption|apply rescale_iso_scaled; assumption].
Qed.

End Main.

Section Main2.
Variable R : CRing.

(* ---- two opposite full sweeps: every inner bond is bounded by the physical dimensions on both sides ---- *)
Lemma rsweep_lbound dec : dec_bound R dec -> forall ds (ts : chain R), length ds = length ts ->
  forall j, S j < length ts ->
  nth j (dims R (sweep R dec true ds (zup 0 (length ts - 1)) ts)) 0 <= prod (firstn (S j) ds).
Proof.
  intros Hb ds ts Hl j Hj.
  pose proof (sweep_r_prefix R dec (Pbound R) (Pbound_est R dec Hb) (length ts - 1) ds ts Hl ltac:(lia)) as Hp.
  pose proof (prefix_bound_global R _ _ _ _ Hp j ltac:(lia)). lia.
Qed.

Lemma lsweep_rbound dec : dec_bound R dec -> forall ds (ts : chain R), length ds = length ts ->
  forall j, S j < length ts ->
  nth j (dims R (sweep R dec false ds (zdown (Z.of_nat (length ts) - 1) (length ts - 1)) ts)) 0
    <= prod (skipn (S j) ds) * lastdim 1 ts.
Proof.
  intros Hb ds ts Hl j Hj.
  pose proof (sweep_l_after R dec (Qbound R) (Qbound_est R dec Hb) (length ts - 1) ds ts Hl ltac:(lia)) as Hp.
  replace (length ts - 1 - (length ts - 1)) with 0 in Hp by lia.
  pose proof (after0_bound_global R _ _ _ Hp j) as H1. rewrite sweep_length in H1. specialize (H1 Hj).
  etransitivity; [exact H1|]. apply Nat.mul_le_mono_l.
  apply le_list_lastdim. apply sweep_dims. exact Hb.
Qed.

Theorem two_sweeps_exact dec : dec_bound R dec ->
  forall ds (m m1 m2 : mp R), wf R ds m -> lastdim 1 (m_chain m) = 1 -> entry_ok (m_st m) ->
  canonicalise_mp R dec ds m None = Some m1 -> canonicalise_mp R dec ds m1 None = Some m2 ->
  forall j, S j < length ds ->
    nth j (dims R (m_chain m2)) 0 <= Nat.min (prod (firstn (S j) ds)) (prod (skipn (S j) ds)).
Proof.
  intros Hb ds m m1 m2 [Hl Hn] Hlast He H1 H2 j Hj.
  rewrite canonicalise_mp_eq in H1 by (assumption || exact I).
  inversion H1; subst m1; clear H1.
  assert (He1 : entry_ok (final_st (m_st m) None)).
  { destruct He as [Ha Hc]. split; [exact Ha|]. cbn. unfold far_end. destruct (to_right (m_st m)); reflexivity. }
  rewrite canonicalise_mp_eq in H2 by (cbn [m_st]; assumption || exact I).
  inversion H2; subst m2; clear H2. cbn [m_chain m_st].
  set (ts := m_chain m) in *. set (n := length ts) in *.
  assert (Hsn : site_num (m_st m) = Z.of_nat n) by lia.
  assert (Tr1 : iter_idx_list (m_st m) false None =
                if to_right (m_st m) then zup 0 (n - 1) else zdown (Z.of_nat n - 1) (n - 1)).
  { rewrite iter_idx_list_entry by (assumption || exact I). unfold target, far_end.
    destruct (to_right (m_st m)); rewrite Hsn; f_equal; lia. }
  assert (Tr2 : iter_idx_list (final_st (m_st m) None) false None =
                if to_right (m_st m) then zdown (Z.of_nat n - 1) (n - 1) else zup 0 (n - 1)).
  { rewrite iter_idx_list_entry by (assumption || exact I). unfold target, far_end, final_st, flips.
    cbn [to_right site_num]. destruct (to_right (m_st m)); cbn [negb]; rewrite Hsn; f_equal; lia. }
  rewrite Tr1, Tr2.
  destruct (to_right (m_st m)) eqn:Hd; cbn [negb].
  - (* right then left *)
    set (ts1 := sweep R dec true ds (zup 0 (n - 1)) ts).
    assert (L1 : length ts1 = n) by (unfold ts1; apply sweep_length).
    apply Nat.min_glb.
    + etransitivity; [apply le_list_nth; apply sweep_dims; exact Hb|].
      apply rsweep_lbound; [exact Hb|exact Hl|fold n; lia].
    + pose proof (lsweep_rbound dec Hb ds ts1 ltac:(lia) j ltac:(lia)) as B. rewrite L1 in B.
      etransitivity; [exact B|].
      assert (lastdim 1 ts1 <= lastdim 1 ts) by (apply le_list_lastdim; apply sweep_dims; exact Hb).
      nia.
  - (* left then right *)
    set (ts1 := sweep R dec false ds (zdown (Z.of_nat n - 1) (n - 1)) ts).
    assert (L1 : length ts1 = n) by (unfold ts1; apply sweep_length).
    apply Nat.min_glb.
    + pose proof (rsweep_lbound dec Hb ds ts1 ltac:(lia) j ltac:(lia)) as B. rewrite L1 in B. exact B.
    + etransitivity; [apply le_list_nth; apply sweep_dims; exact Hb|].
      pose proof (lsweep_rbound dec Hb ds ts Hl j ltac:(fold n; lia)) as B. fold n in B. fold ts1 in B.
      rewrite Hlast in B. lia.
Qed.

(* ---- compress with "nothing non-zero is cut" ---- *)
Lemma compress_mp_eq dec mt ds (m : mp R) : entry_ok (m_st m) ->
  compress_mp R dec mt ds m =
    Some {| m_chain := sweep R (trunc R mt dec) (to_right (m_st m)) ds (iter_idx_list (m_st m) false None) (m_chain m);
            m_coeff := m_coeff m; m_st := final_st (m_st m) None |}.
Proof.
  intros He. unfold compress_mp, run. rewrite (compress_sched_spec _ He). reflexivity.
Qed.

Theorem compress_lossless_dense dec mt : dec_factor R dec -> lossless R mt dec ->
  forall ds (m : mp R), entry_ok (m_st m) ->
  exists m', compress_mp R dec mt ds m = Some m' /\
             m_coeff m' = m_coeff m /\
             (forall s, cfg_ok ds s -> amp (m_chain m') s = amp (m_chain m) s) /\
             m_st m' = final_st (m_st m) None.
Proof.
  intros Hf Hl ds m He. eexists. split; [apply compress_mp_eq; assumption|].
  cbn. split; [reflexivity|]. split; [|reflexivity].
  intros s Hc. apply sweep_preserves_amp; [apply trunc_factor; assumption|assumption].
Qed.

(* a compress sweep equals a canonicalise sweep with the truncated kernel: isometry and dimension
   statements transfer *)
Lemma compress_as_cano dec mt ds (m : mp R) : entry_ok (m_st m) ->
  compress_mp R dec mt ds m = canonicalise_mp R (trunc R mt dec) ds m None.
Proof.
  intros He. rewrite compress_mp_eq by assumption. rewrite canonicalise_mp_eq by (assumption || exact I). reflexivity.
Qed.

Theorem compress_isometry dec mt : dec_iso R dec ->
  forall ds (m m' : mp R), wf R ds m -> entry_ok (m_st m) -> compress_mp R dec mt ds m = Some m' ->
  if to_right (m_st m)
  then prefixP R (left_iso R (r1 R)) (Z.to_nat (far_end (m_st m))) 1 ds (m_chain m')
  else afterP R (right_iso R (r1 R)) (Z.to_nat (far_end (m_st m))) 1 ds (m_chain m').
Proof.
  intros Hi ds m m' Hw He H. rewrite compress_as_cano in H by assumption.
  apply (cano_isometry R (trunc R mt dec) (trunc_iso R mt dec Hi) ds m m' None Hw He I H).
Qed.

Theorem compress_dims dec mt : dec_bound R dec ->
  forall ds (m m' : mp R), entry_ok (m_st m) -> compress_mp R dec mt ds m = Some m' ->
  le_list (dims R (m_chain m')) (dims R (m_chain m)).
Proof.
  intros Hb ds m m' He H. rewrite compress_as_cano in H by assumption.
  eapply dims_monotone; [apply trunc_bound; exact Hb|exact H].
Qed.

(* ---- readable form of prefixP / afterP ---- *)
Lemma prefixP_nth (P : nat -> nat -> nat -> T3 R -> Prop) dflt c : forall dl ds (ts : chain R),
  prefixP R P c dl ds ts -> forall j, j < c ->
  P (lastdim dl (firstn j ts)) (nth j ds 0) (fst (nth j ts dflt)) (snd (nth j ts dflt)).
Proof.
  induction c as [|c IH]; intros dl ds ts Hp j Hj; [lia|].
  destruct ds as [|dp ds]; destruct ts as [|[d t] ts]; cbn [prefixP] in Hp; try contradiction.
  destruct Hp as [H0 Hp]. destruct j as [|j]; [exact H0|].
  cbn [firstn nth]. rewrite lastdim_cons. apply IH; [exact Hp|lia].
Qed.

Lemma allP_nth (Q : nat -> nat -> nat -> T3 R -> Prop) dflt : forall (ts : chain R) dl ds,
  allP R Q dl ds ts -> forall j, j < length ts ->
  Q (lastdim dl (firstn j ts)) (nth j ds 0) (fst (nth j ts dflt)) (snd (nth j ts dflt)).
Proof.
  induction ts as [|[d t] ts IH]; intros dl ds H j Hj; [cbn in Hj; lia|].
  destruct ds as [|dp ds]; cbn [allP] in H; try contradiction. destruct H as [H0 H].
  destruct j as [|j]; [exact H0|]. cbn [firstn nth]. rewrite lastdim_cons. apply IH; [exact H|cbn in Hj; lia].
Qed.

Lemma afterP_nth (Q : nat -> nat -> nat -> T3 R -> Prop) dflt c : forall dl ds (ts : chain R),
  afterP R Q c dl ds ts -> forall j, c < j -> j < length ts ->
  Q (lastdim dl (firstn j ts)) (nth j ds 0) (fst (nth j ts dflt)) (snd (nth j ts dflt)).
Proof.
  induction c as [|c IH]; intros dl ds ts Hp j Hc Hj;
    destruct ds as [|dp ds]; destruct ts as [|[d t] ts]; cbn [afterP] in Hp; try contradiction;
    (destruct j as [|j]; [lia|]); cbn [firstn nth]; rewrite lastdim_cons; cbn [length] in Hj.
  - apply allP_nth; [exact Hp|lia].
  - apply IH; [exact Hp|lia|lia].
Qed.

End Main2.

(* ---- operators / density operators: the rank-4 chain is the rank-3 chain with fused physical index ---- *)
Section Fuse.
Variable R : CRing.
Fixpoint fuse_chain (dds : list nat) (ts : list (nat * T4 R)) : chain R :=
  match dds, ts with
  | dd :: dds', (d, t) :: ts' => (d, fuse4 R dd t) :: fuse_chain dds' ts'
  | _, _ => []
  end.
Fixpoint fuse_cfg (dds su sd : list nat) : list nat :=
  match dds, su, sd with
  | dd :: dds', pu :: su', pd :: sd' => (pu * dd + pd) :: fuse_cfg dds' su' sd'
  | _, _, _ => []
  end.

Lemma chain4_fuse : forall (ts : list (nat * T4 R)) dds su sd l r,
  length dds = length ts -> length su = length ts -> Forall2 lt sd dds ->
  chain4 ts su sd l r = chain3 (fuse_chain dds ts) (fuse_cfg dds su sd) l r.
Proof.
  induction ts as [|[d t] ts IH]; intros dds su sd l r H1 H2 H3.
  - destruct dds; [|discriminate]. destruct su; [|discriminate]. inversion H3; subst. reflexivity.
  - destruct dds as [|dd dds]; [discriminate|]. destruct su as [|pu su]; [discriminate|].
    inversion H3 as [|pd dd' sd' dds' Hp H3']; subst. cbn [chain4 fuse_chain fuse_cfg chain3].
    apply sumn_ext. intros m _. unfold fuse4. rewrite decode_div, decode_mod by exact Hp.
    f_equal. apply IH; [cbn in H1; lia|cbn in H2; lia|exact H3'].
Qed.

Lemma fuse_cfg_ok : forall dds dus su sd, Forall2 lt su dus -> Forall2 lt sd dds ->
  cfg_ok (map (fun x => fst x * snd x) (combine dus dds)) (fuse_cfg dds su sd).
Proof.
  induction dds as [|dd dds IH]; intros dus su sd Hu Hd.
  - inversion Hd; subst. destruct dus; cbn; [|]; destruct su; constructor.
  - inversion Hd as [|pd dd' sd' dds' Hp Hd']; subst.
    inversion Hu as [|pu du su' dus' Hq Hu']; subst; cbn; [constructor|].
    constructor; [nia|]. apply IH; assumption.
Qed.
End Fuse.

(* ---- a concrete kernel over Z used by the non-vacuity Examples of Props/C04.v ---- *)
Definition idm : mat ZRing := fun i a => if Nat.eqb i a then 1%Z else 0%Z.
Definition idk : kernel ZRing := fun _ _ rows cols M =>
  if Nat.leb rows cols then (rows, idm, M) else (cols, M, idm).

Lemma sumz_delta_l n i (f : nat -> Z) : i < n ->
  sumn (R := ZRing) n (fun a => (idm i a * f a)%Z) = f i.
Proof.
  intros Hi. rewrite (sumn_ext ZRing n _ (fun a => if Nat.eqb a i then f a else 0%Z)).
  - apply (sumn_delta ZRing n i f Hi).
  - intros a _. unfold idm. rewrite (Nat.eqb_sym i a). destruct (Nat.eqb a i); cbv beta iota; lia.
Qed.
Lemma sumz_delta_r n j (f : nat -> Z) : j < n ->
  sumn (R := ZRing) n (fun a => (f a * idm a j)%Z) = f j.
Proof.
  intros Hj. rewrite (sumn_ext ZRing n _ (fun a => if Nat.eqb a j then f a else 0%Z)).
  - apply (sumn_delta ZRing n j f Hj).
  - intros a _. unfold idm. destruct (Nat.eqb a j); cbv beta iota; lia.
Qed.

Lemma idk_contract : dec_factor ZRing idk /\ dec_bound ZRing idk.
Proof.
  split.
  - intros gi dir rows cols M i j Hi Hj. unfold idk. destruct (Nat.leb rows cols); unfold dK, dU, dV; cbn [fst snd].
    + symmetry. apply (sumz_delta_l rows i (fun a => M a j) Hi).
    + symmetry. apply (sumz_delta_r cols j (fun a => M i a) Hj).
  - intros gi dir rows cols M. unfold idk. destruct (Nat.leb_spec rows cols); unfold dK; cbn [fst]; lia.
Qed.


(* ---- check_left/right_canonical test every site except the centre the guards of ensure_* pair them with ---- *)
Section Checks.
Local Open Scope Z_scope.
Lemma in_zup a n i : In i (zup a n) <-> a <= i < a + Z.of_nat n.
Proof.
  unfold zup. rewrite in_map_iff. split.
  - intros [k [E Hk]]. apply in_seq in Hk. lia.
  - intros H. exists (Z.to_nat (i - a)). split; [lia|]. apply in_seq. lia.
Qed.
(* ensure_right_canonical returns the object untouched only if to_right, qnidx = 0 and check_right_canonical():
   the latter must test every site but the centre 0 *)
Lemma check_right_covers s i : In i (check_right_sites s) <-> (0 <= i <= site_num s - 1 /\ i <> 0).
Proof. unfold check_right_sites. rewrite py_range_up, in_zup. lia. Qed.
(* ensure_left_canonical: not to_right, qnidx = site_num - 1, check_left_canonical(): every site but the last *)
Lemma check_left_covers s i : In i (check_left_sites s) <-> (0 <= i <= site_num s - 1 /\ i <> site_num s - 1).
Proof. unfold check_left_sites. rewrite py_range_up, in_zup. lia. Qed.
End Checks.

(* ---- the one-site tests use the documented tolerances symmetrically ---- *)
Lemma ortho_tolerances_symmetric (A : Type) (rtol atol : A) :
  lortho_tol rtol atol = (rtol, atol) /\ rortho_tol rtol atol = (rtol, atol).
Proof. split; reflexivity. Qed.

(* ---- variational compression: the convergence test must see a snapshot of the previous sweep ---- *)
(* generated: variational_old prev cur = the operand `mps_old` of `mps.distance(mps_old)`.  With
   `mps_old = mps.copy()` it is the previous sweep's state; with an alias (`mps_old = mps`) it is the current
   object, the distance is that of the object to itself and the test is vacuous (next lemma). *)
Lemma variational_old_is_snapshot (A : Type) (prev cur : A) : variational_old prev cur = prev.
Proof. reflexivity. Qed.

Lemma alias_test_vacuous (A D : Type) (dist : A -> A -> D) (z : D) :
  (forall x, dist x x = z) -> forall prev cur : A, dist cur (if false then prev else cur) = z.
Proof. intros H prev cur. apply H. Qed.

(* ---- variational compression: the stopping test is scale invariant ---- *)
(* syntactically: the generated measure is homogeneous of degree 0 in the scale of the object *)
Lemma variational_error_degree_zero : hdeg2 variational_error_expr = Some 0%Z.
Proof. reflexivity. Qed.

(* semantically, in any structure with a multiplication, division and square root obeying the two laws of the
   positive reals used here: replacing the object by c times itself (distance -> c*D, squared norm -> c*c*S) does
   not change the measure, hence not the decision `error < vrtol` *)
Lemma variational_error_scale_invariant (K : Type) (kmul kdiv : K -> K -> K) (ksqrt : K -> K) :
  (forall c x, ksqrt (kmul (kmul c c) x) = kmul c (ksqrt x)) ->
  (forall c a b, kdiv (kmul c a) (kmul c b) = kdiv a b) ->
  forall c dist normsq,
    heval kdiv ksqrt (kmul c dist) (kmul (kmul c c) normsq) variational_error_expr =
    heval kdiv ksqrt dist normsq variational_error_expr.
Proof. intros H1 H2 c dist normsq. cbn [variational_error_expr heval]. rewrite H1, H2. reflexivity. Qed.
