(* C11 -- proofs about Model/Ttns.v: dense semantics of add / scale / apply / gauge moves / child order /
   from_mps / einsum index names, for all trees (nested induction). *)
From Coq Require Import Ring List Arith Bool Lia Permutation.
Import ListNotations.
From RV Require Import Base.CRing Base.BigSum Model.Chain Proofs.ChainProofs Model.Ttns.

Section TtnsProofs.
Variable R : CRing.
Add Ring RR : (rth R).
Notation "0" := (r0 R).
Notation "1" := (r1 R).
Infix "+" := (radd R).
Infix "*" := (rmul R).
Notation ttree := (ttree R).
Notation otree := (otree R).
Notation tens := (tens R).
Notation csum := (csum R).
Notation tamp := (tamp R).
Notation camps := (camps R).
Notation tdim := (tdim R).
Notation tsize := (tsize R).
Notation tshape := (tshape R).

(* ------------------------------------------------------------------ nested induction principle *)
Section Ind.
Variable P : ttree -> Prop.
Hypothesis H : forall l pd d T cs, Forall P cs -> P (TNode l pd d T cs).
Fixpoint ttree_ind' (t : ttree) : P t :=
  match t with
  | TNode l pd d T cs =>
    H l pd d T cs ((fix go (cs : list ttree) : Forall P cs :=
                      match cs with
                      | [] => Forall_nil P
                      | c :: cs' => Forall_cons c (ttree_ind' c) (go cs')
                      end) cs)
  end.
End Ind.

Lemma list_sum_cons a l : list_sum (a :: l) = (a + list_sum l)%nat.
Proof. reflexivity. Qed.

(* ------------------------------------------------------------------ csum *)
Lemma csum_ext A : forall f g, (forall ks, f ks = g ks) -> csum A f = csum A g.
Proof.
  induction A as [|[d a] A IH]; intros f g H; cbn [Ttns.csum]; [apply H|].
  apply sumn_ext. intros k _. f_equal. apply IH. intros ks. apply H.
Qed.

Lemma csum_ext_in A : forall f g,
  (forall ks, all_lt (map fst A) ks = true -> f ks = g ks) -> csum A f = csum A g.
Proof.
  induction A as [|[d a] A IH]; intros f g H; cbn [Ttns.csum]; [apply H; reflexivity|].
  apply sumn_ext. intros k Hk. f_equal. apply IH. intros ks Hks. apply H.
  cbn [map fst all_lt]. rewrite Hks. apply Nat.ltb_lt in Hk. rewrite Hk. reflexivity.
Qed.

(* the amplitudes only matter inside the bond range *)
Lemma csum_extA A B : forall f,
  Forall2 (fun x y => fst x = fst y /\ forall k, k < fst x -> snd x k = snd y k) A B ->
  csum A f = csum B f.
Proof.
  intros f H. revert f. induction H as [|[d a] [d' b] A B [Hd Hab] _ IH]; intros f; [reflexivity|].
  cbn [fst snd] in *. subst d'. cbn [Ttns.csum]. apply sumn_ext. intros k Hk.
  rewrite Hab by exact Hk. f_equal. apply IH.
Qed.

Lemma csum_zero A : csum A (fun _ => 0) = 0.
Proof.
  induction A as [|[d a] A IH]; cbn [Ttns.csum]; [reflexivity|].
  apply sumn_0. intros k _. rewrite IH. ring.
Qed.

Lemma csum_add A : forall f g, csum A (fun ks => f ks + g ks) = csum A f + csum A g.
Proof.
  induction A as [|[d a] A IH]; intros f g; cbn [Ttns.csum]; [reflexivity|].
  rewrite <- sumn_add. apply sumn_ext. intros k _. rewrite IH. ring.
Qed.

Lemma csum_scale A : forall c f, csum A (fun ks => c * f ks) = c * csum A f.
Proof.
  induction A as [|[d a] A IH]; intros c f; cbn [Ttns.csum]; [reflexivity|].
  rewrite <- sumn_scale_l. apply sumn_ext. intros k _. rewrite IH. ring.
Qed.

Lemma csum_scale_r A c f : csum A (fun ks => f ks * c) = csum A f * c.
Proof.
  rewrite (csum_ext A _ (fun ks => c * f ks)) by (intros; ring). rewrite csum_scale. ring.
Qed.

Lemma csum_sumn A : forall n (f : nat -> list nat -> R),
  csum A (fun ks => sumn n (fun j => f j ks)) = sumn n (fun j => csum A (f j)).
Proof.
  intros n f. induction n as [|n IH]; cbn [sumn]; [apply csum_zero|].
  rewrite csum_add, IH. reflexivity.
Qed.

Lemma csum_app A1 : forall A2 f,
  csum (A1 ++ A2) f = csum A1 (fun k1 => csum A2 (fun k2 => f (k1 ++ k2))).
Proof.
  induction A1 as [|[d a] A1 IH]; intros A2 f; cbn [app Ttns.csum]; [reflexivity|].
  apply sumn_ext. intros k _. f_equal. rewrite IH. reflexivity.
Qed.

(* ------------------------------------------------------------------ unfolding, sizes, shapes *)
Lemma tamp_node l pd d T cs ph rest p :
  tamp (TNode l pd d T cs) (ph :: rest) p = csum (camps cs rest) (fun ks => T ks ph p).
Proof. reflexivity. Qed.

Lemma tamp_nil t p : tamp t [] p = 0.
Proof. destruct t; reflexivity. Qed.

Lemma camps_dims cs : forall rest, map fst (camps cs rest) = map tdim cs.
Proof. induction cs as [|c cs IH]; intros rest; cbn [Ttns.camps map fst]; [reflexivity|]. rewrite IH. reflexivity. Qed.

Lemma tsize_shape t : tsize t = ssize (tshape t).
Proof.
  induction t as [l pd d T cs IH] using ttree_ind'. cbn [Ttns.tsize Ttns.tshape ssize]. f_equal.
  rewrite map_map. induction IH as [|c cs Hc _ IHl]; cbn [map]; [reflexivity|]. rewrite !list_sum_cons, Hc, IHl. reflexivity.
Qed.

Lemma tsize_eq a b : tshape a = tshape b -> tsize a = tsize b.
Proof. intros H. rewrite !tsize_shape, H. reflexivity. Qed.

Lemma tlabels_length t : length (tlabels R t) = tsize t.
Proof.
  induction t as [l pd d T cs IH] using ttree_ind'. cbn [tlabels Ttns.tsize length]. f_equal.
  induction IH as [|c cs Hc _ IHl]; cbn [flat_map map]; [reflexivity|].
  rewrite app_length, list_sum_cons, Hc, IHl. reflexivity.
Qed.

Lemma tpdims_length t : length (tpdims R t) = tsize t.
Proof.
  induction t as [l pd d T cs IH] using ttree_ind'. cbn [tpdims Ttns.tsize length]. f_equal.
  induction IH as [|c cs Hc _ IHl]; cbn [flat_map map]; [reflexivity|].
  rewrite app_length, list_sum_cons, Hc, IHl. reflexivity.
Qed.

(* ------------------------------------------------------------------ scale *)
Lemma ttns_scale_dense c t s p : tamp (tscale R c t) s p = c * tamp t s p.
Proof.
  destruct t as [l pd d T cs]. destruct s as [|ph rest]; cbn [tscale].
  - rewrite !tamp_nil. ring.
  - rewrite !tamp_node. apply csum_scale.
Qed.

(* ------------------------------------------------------------------ add *)
Lemma tadd_gen_node r l pd da Ta ca l' pd' db Tb cb :
  tadd_gen R r (TNode l pd da Ta ca) (TNode l' pd' db Tb cb) =
  TNode l pd (if r then da else (da + db)%nat) (add_tens R r (map tdim ca) da Ta Tb) (zipadd R ca cb).
Proof.
  reflexivity.
Qed.

Lemma tadd_dim_false a b : tdim (tadd_gen R false a b) = (tdim a + tdim b)%nat.
Proof. destruct a, b. rewrite tadd_gen_node. reflexivity. Qed.

Lemma tadd_shape r a : forall b, tshape a = tshape b -> tshape (tadd_gen R r a b) = tshape a.
Proof.
  revert r. induction a as [l pd da Ta ca IH] using ttree_ind'. intros r [l' pd' db Tb cb] Hs.
  rewrite tadd_gen_node. cbn [Ttns.tshape] in *. f_equal. injection Hs as Hs.
  revert cb Hs. induction IH as [|x ca Hx _ IHl]; intros [|y cb] Hs; cbn [zipadd map] in *; try reflexivity; try discriminate.
  injection Hs as Hxy Hs. rewrite (Hx false y Hxy), (IHl cb Hs). reflexivity.
Qed.

(* the direct sum over a list of children, each of which already satisfies the block statement *)
Lemma csum_dsum (ca : list ttree) :
  Forall (fun a => forall b, tshape a = tshape b -> forall s p,
            tamp (tadd_gen R false a b) s p = if p <? tdim a then tamp a s p else tamp b s (p - tdim a)) ca ->
  forall cb, map tshape ca = map tshape cb -> forall rest fa fb,
  csum (camps (zipadd R ca cb) rest)
       (fun ks => (if all_lt (map tdim ca) ks then fa ks else 0)
                  + (if all_ge (map tdim ca) ks then fb (shiftl (map tdim ca) ks) else 0))
  = csum (camps ca rest) fa + csum (camps cb rest) fb.
Proof.
  induction 1 as [|x ca Hx _ IH]; intros [|y cb] Hs rest fa fb; cbn [map] in Hs; try discriminate.
  - cbn [zipadd Ttns.camps Ttns.csum map all_lt all_ge shiftl]. reflexivity.
  - injection Hs as Hxy Hs. cbn [zipadd Ttns.camps Ttns.csum map].
    rewrite tadd_dim_false. rewrite (tsize_eq _ x) by (apply tadd_shape; exact Hxy).
    rewrite <- (tsize_eq x y Hxy).
    set (r1 := firstn (tsize x) rest). set (r2 := skipn (tsize x) rest).
    rewrite sumn_split. f_equal.
    + apply sumn_ext. intros k Hk. rewrite (Hx y Hxy).
      assert (Hlt : (k <? tdim x) = true) by (apply Nat.ltb_lt; exact Hk). rewrite Hlt. f_equal.
      transitivity (csum (camps ca r2) (fun ks => fa (k :: ks)) + csum (camps cb r2) (fun _ => 0)).
      * rewrite <- (IH cb Hs r2 (fun ks => fa (k :: ks)) (fun _ => 0)). apply csum_ext.
        intros ks. cbn [all_lt all_ge shiftl]. rewrite Hlt.
        assert (Hge : (tdim x <=? k) = false) by (apply Nat.leb_gt; exact Hk). rewrite Hge. cbn [andb].
        destruct (all_ge (map tdim ca) ks); ring.
      * rewrite csum_zero. ring.
    + apply sumn_ext. intros j Hj. rewrite (Hx y Hxy).
      assert (Hlt : (tdim x + j <? tdim x) = false) by (apply Nat.ltb_ge; lia). rewrite Hlt.
      replace (tdim x + j - tdim x)%nat with j by lia. f_equal.
      transitivity (csum (camps ca r2) (fun _ => 0) + csum (camps cb r2) (fun q => fb (j :: q))).
      * rewrite <- (IH cb Hs r2 (fun _ => 0) (fun q => fb (j :: q))). apply csum_ext.
        intros ks. cbn [all_lt all_ge shiftl]. rewrite Hlt.
        assert (Hge : (tdim x <=? tdim x + j) = true) by (apply Nat.leb_le; lia). rewrite Hge. cbn [andb].
        replace (tdim x + j - tdim x)%nat with j by lia.
        destruct (all_lt (map tdim ca) ks); ring.
      * rewrite csum_zero. ring.
Qed.

Lemma tadd_false_block a : forall b, tshape a = tshape b -> forall s p,
  tamp (tadd_gen R false a b) s p = if p <? tdim a then tamp a s p else tamp b s (p - tdim a).
Proof.
  induction a as [l pd da Ta ca IH] using ttree_ind'. intros [l' pd' db Tb cb] Hs s p.
  rewrite tadd_gen_node. destruct s as [|ph rest].
  - rewrite !tamp_nil. destruct (p <? _); reflexivity.
  - rewrite !tamp_node. cbn [Ttns.tdim]. cbn [Ttns.tshape] in Hs. injection Hs as Hs.
    transitivity (csum (camps ca rest) (fun q => if p <? da then Ta q ph p else 0)
                  + csum (camps cb rest) (fun q => if da <=? p then Tb q ph (p - da) else 0)).
    + rewrite <- (csum_dsum ca IH cb Hs rest (fun q => if p <? da then Ta q ph p else 0)
                                             (fun q => if da <=? p then Tb q ph (p - da) else 0)).
      apply csum_ext. intros ks. unfold add_tens. cbn [orb].
      destruct (all_ge (map tdim ca) ks), (all_lt (map tdim ca) ks), (da <=? p), (p <? da); cbn [andb]; ring.
    + destruct (Nat.ltb_spec p da) as [Hp|Hp].
      * assert (Hge : (da <=? p) = false) by (apply Nat.leb_gt; exact Hp). rewrite Hge. rewrite csum_zero. ring.
      * assert (Hge : (da <=? p) = true) by (apply Nat.leb_le; exact Hp). rewrite Hge. rewrite csum_zero. ring.
Qed.

(* TTNS.add is the sum of the dense vectors, for every tree (one-node trees included) *)
Lemma ttns_add_dense a b : tshape a = tshape b -> forall s p,
  tamp (tadd R a b) s p = tamp a s p + tamp b s p.
Proof.
  destruct a as [l pd da Ta ca], b as [l' pd' db Tb cb]. intros Hs s p. unfold tadd.
  rewrite tadd_gen_node. destruct s as [|ph rest].
  - rewrite !tamp_nil. ring.
  - rewrite !tamp_node. cbn [Ttns.tshape] in Hs. injection Hs as Hs.
    rewrite <- (csum_dsum ca (proj2 (Forall_forall _ ca) (fun x _ => tadd_false_block x)) cb Hs rest
                          (fun q => Ta q ph p) (fun q => Tb q ph p)).
    apply csum_ext. intros ks. unfold add_tens. cbn [orb andb]. rewrite !andb_true_r. reflexivity.
Qed.

Lemma tscale_shape c t : tshape (tscale R c t) = tshape t.
Proof. destruct t; reflexivity. Qed.

Lemma ttns_add_coeff_dense ca cb a b : tshape a = tshape b -> forall s p,
  tamp (tadd_coeff R ca cb a b) s p = ca * tamp a s p + cb * tamp b s p.
Proof.
  intros Hs s p. unfold tadd_coeff. rewrite ttns_add_dense by (rewrite !tscale_shape; exact Hs).
  rewrite !ttns_scale_dense. reflexivity.
Qed.

(* the represented vector coeff' * tamp' is  ca * A + cb * B  in both branches of TTNS.add *)
Lemma ttns_add_state_dense ceq ca cb a b : (ceq ca cb = true -> ca = cb) -> tshape a = tshape b -> forall s p,
  fst (tadd_state R ceq ca cb a b) * tamp (snd (tadd_state R ceq ca cb a b)) s p = ca * tamp a s p + cb * tamp b s p.
Proof.
  intros Hceq Hs s p. unfold tadd_state. destruct (ceq ca cb) eqn:E; cbn [fst snd].
  - rewrite <- (Hceq eq_refl). rewrite (ttns_add_dense a b Hs). ring.
  - rewrite (ttns_add_coeff_dense ca cb a b Hs). ring.
Qed.

(* ------------------------------------------------------------------ congruence *)
(* everything the amplitude of a parent sees of a child *)
Definition tequiv (t t' : ttree) : Prop :=
  tdim t = tdim t' /\ tsize t = tsize t' /\ forall s p, tamp t s p = tamp t' s p.

Lemma tequiv_refl t : tequiv t t.
Proof. repeat split. Qed.

Lemma tequiv_trans a b c : tequiv a b -> tequiv b c -> tequiv a c.
Proof.
  intros (H1 & H2 & H3) (G1 & G2 & G3). split; [congruence|split; [congruence|]]. intros s p. rewrite H3. apply G3.
Qed.

Lemma camps_congr cs cs' : Forall2 tequiv cs cs' -> forall rest f, csum (camps cs rest) f = csum (camps cs' rest) f.
Proof.
  induction 1 as [|c c' cs cs' (Hd & Hs & Ha) _ IH]; intros rest f; [reflexivity|].
  cbn [Ttns.camps Ttns.csum]. rewrite Hd, Hs. apply sumn_ext. intros k _. rewrite Ha. f_equal. apply IH.
Qed.

Lemma sizes_congr cs cs' : Forall2 tequiv cs cs' -> list_sum (map tsize cs) = list_sum (map tsize cs').
Proof.
  induction 1 as [|c c' cs cs' (Hd & Hs & Ha) _ IH]; [reflexivity|]. cbn [map]. rewrite !list_sum_cons. congruence.
Qed.

Lemma node_congr l pd d T cs cs' : Forall2 tequiv cs cs' -> tequiv (TNode l pd d T cs) (TNode l pd d T cs').
Proof.
  intros H. repeat split.
  - cbn [Ttns.tsize]. f_equal. apply sizes_congr. exact H.
  - intros [|ph rest] p; [reflexivity|]. rewrite !tamp_node. apply camps_congr. exact H.
Qed.

Lemma Forall2_tequiv_refl cs : Forall2 tequiv cs cs.
Proof. induction cs; constructor; [apply tequiv_refl|assumption]. Qed.

Lemma map_nth_equiv (g : ttree -> ttree) : forall cs i,
  (forall c, nth_error cs i = Some c -> tequiv c (g c)) -> Forall2 tequiv cs (map_nth i g cs).
Proof.
  induction cs as [|c cs IH]; intros [|i] H; cbn [map_nth]; try constructor.
  - apply H. reflexivity.
  - apply Forall2_tequiv_refl.
  - apply tequiv_refl.
  - apply IH. intros c0 Hc0. apply H. exact Hc0.
Qed.

Lemma at_path_equiv f : forall path t,
  (forall u, subtree R path t = Some u -> tequiv u (f u)) -> tequiv t (at_path R path f t).
Proof.
  induction path as [|i path IH]; intros t H; cbn [at_path].
  - apply H. reflexivity.
  - destruct t as [l pd d T cs]. apply node_congr. apply map_nth_equiv. intros c Hc. apply IH.
    intros u Hu. apply H. cbn [subtree tch]. rewrite Hc. exact Hu.
Qed.

(* ------------------------------------------------------------------ list facts *)
Lemma all_lt_length ds : forall ks, all_lt ds ks = true -> length ks = length ds.
Proof.
  induction ds as [|d ds IH]; intros [|k ks] H; cbn [all_lt] in H; try discriminate; [reflexivity|].
  apply andb_true_iff in H as [_ H]. cbn [length]. f_equal. apply IH. exact H.
Qed.

Lemma set_nth_nth : forall i ks, i < length ks -> set_nth i (nth i ks O) ks = ks.
Proof.
  induction i as [|i IH]; intros [|k ks] H; cbn [length] in H; try lia; cbn [set_nth nth]; [reflexivity|].
  f_equal. apply IH. lia.
Qed.

Lemma move_to_end_set : forall i ks j rest, i < length ks ->
  move_to_end i (set_nth i j ks ++ rest) = remove_nth i ks ++ rest ++ [j].
Proof.
  unfold move_to_end, remove_nth.
  induction i as [|i IH]; intros [|k ks] j rest H; cbn [length] in H; try lia.
  - cbn [set_nth app firstn skipn nth]. rewrite <- app_assoc. reflexivity.
  - cbn [set_nth app firstn skipn nth]. f_equal. apply IH. lia.
Qed.

Lemma move_from_to_end : forall i l, i < length l -> move_from_end i (move_to_end i l) = l.
Proof.
  intros i l H. unfold move_from_end, move_to_end.
  rewrite removelast_last, last_last. unfold remove_nth.
  rewrite firstn_app, firstn_firstn, Nat.min_id, firstn_length_le by lia.
  replace (i - i)%nat with O by lia. cbn [firstn]. rewrite app_nil_r.
  rewrite skipn_app, firstn_length_le by lia. replace (i - i)%nat with O by lia. cbn [skipn].
  rewrite (skipn_all2 (firstn i l)) by (rewrite firstn_length_le; lia). cbn [app].
  rewrite <- (firstn_skipn i l) at 4. f_equal.
  rewrite <- (firstn_skipn 1 (skipn i l)) at 1.
  assert (Hs : skipn 1 (skipn i l) = skipn (S i) l).
  { clear H. revert l. induction i as [|i IHi]; intros [|x l]; cbn [skipn]; try reflexivity. apply IHi. }
  rewrite Hs. f_equal.
  clear Hs. revert l H. induction i as [|i IHi]; intros [|x l] H; cbn [length] in H; try lia; cbn [skipn nth firstn].
  - reflexivity.
  - apply IHi. lia.
Qed.

Lemma replace_nth_app {A} (c1 : list A) c c' c2 : replace_nth (length c1) c' (c1 ++ c :: c2) = c1 ++ c' :: c2.
Proof. induction c1 as [|x c1 IH]; cbn [length app replace_nth]; [reflexivity|]. f_equal. exact IH. Qed.

Lemma firstn_app_exact {A} (l1 l2 : list A) n : length l1 = n -> firstn n (l1 ++ l2) = l1.
Proof. intros <-. rewrite firstn_app, firstn_all, Nat.sub_diag. cbn [firstn]. apply app_nil_r. Qed.

Lemma skipn_app_exact {A} (l1 l2 : list A) n : length l1 = n -> skipn n (l1 ++ l2) = l2.
Proof. intros <-. rewrite skipn_app, skipn_all, Nat.sub_diag. reflexivity. Qed.

Lemma skipn_add {A} n : forall m (l : list A), skipn n (skipn m l) = skipn (m + n) l.
Proof.
  intros m. induction m as [|m IH]; intros l; cbn [skipn Nat.add]; [reflexivity|].
  destruct l as [|x l]; [destruct n; reflexivity|]. apply IH.
Qed.

Lemma camps_app c1 : forall c2 rest,
  camps (c1 ++ c2) rest = camps c1 rest ++ camps c2 (skipn (list_sum (map tsize c1)) rest).
Proof.
  induction c1 as [|c c1 IH]; intros c2 rest; cbn [app Ttns.camps map]; [reflexivity|].
  rewrite list_sum_cons. f_equal. rewrite IH. f_equal. f_equal.
  rewrite skipn_add. reflexivity.
Qed.

Lemma camps_length cs rest : length (camps cs rest) = length cs.
Proof. revert rest. induction cs as [|c cs IH]; intros rest; cbn [Ttns.camps length]; [reflexivity|]. f_equal. apply IH. Qed.

(* ------------------------------------------------------------------ gauge moves on one bond *)
(* child amplitude c = c' . V^T, parent tensor contracted with V *)
Lemma csum_gauge A1 : forall A2 d m (c c' : nat -> R) (V : nat -> nat -> R) f,
  (forall a, a < d -> c a = sumn m (fun j => c' j * V a j)) ->
  csum (A1 ++ (d, c) :: A2) f =
  csum (A1 ++ (m, c') :: A2)
       (fun ks => sumn d (fun a => f (set_nth (length A1) a ks) * V a (nth (length A1) ks O))).
Proof.
  induction A1 as [|[d0 c0] A1 IH]; intros A2 d m c c' V f Hc; cbn [app Ttns.csum length].
  - cbn [set_nth nth].
    rewrite (sumn_ext R d _ (fun a => sumn m (fun j => c' j * (V a j * csum A2 (fun ks => f (a :: ks)))))).
    2:{ intros a Ha. rewrite (Hc a Ha). rewrite <- sumn_scale_r. apply sumn_ext. intros j _. ring. }
    rewrite sumn_exchange. apply sumn_ext. intros j _. rewrite csum_sumn. rewrite <- sumn_scale_l.
    apply sumn_ext. intros a _. rewrite csum_scale_r. ring.
  - apply sumn_ext. intros k _. f_equal. rewrite (IH A2 d m c c' V (fun ks => f (k :: ks)) Hc).
    apply csum_ext. intros ks. reflexivity.
Qed.

(* parent tensor T = T' . V^T on axis n, child amplitude contracted with V *)
Lemma csum_gauge2 A1 : forall A2 d m (c c' : nat -> R) (V : nat -> nat -> R) f',
  (forall j, c' j = sumn d (fun a => c a * V a j)) ->
  csum (A1 ++ (d, c) :: A2)
       (fun ks => sumn m (fun j => f' (set_nth (length A1) j ks) * V (nth (length A1) ks O) j)) =
  csum (A1 ++ (m, c') :: A2) f'.
Proof.
  induction A1 as [|[d0 c0] A1 IH]; intros A2 d m c c' V f' Hc; cbn [app Ttns.csum length].
  - cbn [set_nth nth].
    rewrite (sumn_ext R d _ (fun a => sumn m (fun j => (c a * V a j) * csum A2 (fun ks => f' (j :: ks))))).
    2:{ intros a _. rewrite csum_sumn. rewrite <- sumn_scale_l. apply sumn_ext. intros j _.
        rewrite csum_scale_r. ring. }
    rewrite sumn_exchange. apply sumn_ext. intros j _. rewrite Hc. rewrite <- sumn_scale_r. reflexivity.
  - apply sumn_ext. intros k _. f_equal.
    rewrite <- (IH A2 d m c c' V (fun ks => f' (k :: ks)) Hc). apply csum_ext. intros ks. reflexivity.
Qed.

Lemma push_parent_equiv t i m Q V : qr_ok R t i m Q V -> tequiv t (push_parent R i m Q V t).
Proof.
  destruct t as [l pd d T cs]. unfold qr_ok, push_parent. cbn [tch].
  destruct (nth_error cs i) as [[lc pdc dc Tc ccs]|] eqn:E; [|intros _; apply tequiv_refl].
  cbn [tch Ttns.tdim ttens]. intros Hqr.
  apply nth_error_split in E as (c1 & c2 & -> & <-). rewrite replace_nth_app.
  repeat split.
  - cbn [Ttns.tsize]. f_equal. rewrite !map_app. cbn [map Ttns.tsize]. reflexivity.
  - intros [|ph rest] p; [reflexivity|]. rewrite !tamp_node. rewrite !camps_app. cbn [Ttns.camps Ttns.tsize Ttns.tdim].
    set (r1 := skipn (list_sum (map tsize c1)) rest).
    rewrite (csum_gauge (camps c1 rest) _ dc m _ (tamp (TNode lc pdc m Q ccs) (firstn (S (list_sum (map tsize ccs))) r1)) V).
    + rewrite camps_length. reflexivity.
    + intros a Ha. destruct (firstn (S (list_sum (map tsize ccs))) r1) as [|phc rc].
      * rewrite tamp_nil. symmetry. apply sumn_0. intros j _. rewrite tamp_nil. ring.
      * rewrite tamp_node.
        rewrite (csum_ext_in _ _ (fun ks => sumn m (fun j => Q ks phc j * V a j))).
        2:{ intros ks Hks. rewrite camps_dims in Hks. apply Hqr; assumption. }
        rewrite csum_sumn. apply sumn_ext. intros j _. rewrite tamp_node. rewrite csum_scale_r. reflexivity.
Qed.

Lemma push_child_equiv t i m U V : i < length (tch R t) -> uv_ok R t i m U V -> tequiv t (push_child R i m U V t).
Proof.
  destruct t as [l pd d T cs]. unfold uv_ok, push_child. cbn [tch ttens]. intros Hi Huv.
  destruct (nth_error cs i) as [[lc pdc dc Tc ccs]|] eqn:E; [|apply tequiv_refl].
  apply nth_error_split in E as (c1 & c2 & -> & <-). rewrite replace_nth_app.
  repeat split.
  - cbn [Ttns.tsize]. f_equal. rewrite !map_app. cbn [map Ttns.tsize]. reflexivity.
  - intros [|ph rest] p; [reflexivity|]. rewrite !tamp_node. rewrite !camps_app. cbn [Ttns.camps Ttns.tsize Ttns.tdim].
    set (r1 := skipn (list_sum (map tsize c1)) rest).
    set (T' := fun ks ph p => U (move_to_end (length c1) (ks ++ ph ++ [p]))).
    rewrite (csum_ext_in _ _ (fun ks => sumn m (fun j => (fun q => T' q ph p) (set_nth (length (camps c1 rest)) j ks)
                                                          * V (nth (length (camps c1 rest)) ks O) j))).
    + apply (csum_gauge2 (camps c1 rest) _ dc m _ _ V (fun q => T' q ph p)).
      intros j. destruct (firstn (S (list_sum (map tsize ccs))) r1) as [|phc rc].
      * rewrite tamp_nil. symmetry. apply sumn_0. intros a _. rewrite tamp_nil. ring.
      * rewrite tamp_node. rewrite csum_sumn. apply sumn_ext. intros a _. rewrite tamp_node. rewrite csum_scale_r. reflexivity.
    + intros ks Hks. rewrite camps_length.
      rewrite map_app, !camps_dims in Hks. cbn [map fst] in Hks. rewrite camps_dims in Hks.
      assert (Hin : all_lt (map tdim (c1 ++ TNode lc pdc dc Tc ccs :: c2)) ks = true).
      { rewrite map_app. cbn [map Ttns.tdim]. exact Hks. }
      assert (Hlen : length c1 < length ks).
      { rewrite (all_lt_length _ _ Hin), map_length, app_length. cbn [length]. lia. }
      rewrite <- (set_nth_nth (length c1) ks Hlen) at 1.
      rewrite (Huv ks ph p (nth (length c1) ks O) Hin).
      apply sumn_ext. intros j _. unfold T'. rewrite app_assoc. rewrite move_to_end_set by exact Hlen.
      rewrite <- !app_assoc. reflexivity.
Qed.

Lemma step_equiv st t : step_ok R st t -> tequiv t (run_step R st t).
Proof.
  destruct st as [path i m Q V|path i m U V]; cbn [step_ok run_step]; intros H; apply at_path_equiv; intros u Hu;
    rewrite Hu in H.
  - apply push_parent_equiv. exact H.
  - destruct H as [H1 H2]. apply push_child_equiv; assumption.
Qed.

Lemma steps_equiv sts : forall t, steps_ok R sts t -> tequiv t (run_steps R sts t).
Proof.
  induction sts as [|st sts IH]; intros t H; cbn [run_steps steps_ok] in *; [apply tequiv_refl|].
  destruct H as [H1 H2]. eapply tequiv_trans; [apply step_equiv; exact H1|apply IH; exact H2].
Qed.

(* one push_cano_to_parent step anywhere in the tree, any factorisation M = Q . V^T *)
Lemma ttns_push_preserves path i m Q V t :
  step_ok R (GParent R path i m Q V) t ->
  forall s p, tamp (run_step R (GParent R path i m Q V) t) s p = tamp t s p.
Proof. intros H s p. symmetry. apply (step_equiv _ _ H). Qed.

Lemma ttns_push_child_preserves path i m U V t :
  step_ok R (GChild R path i m U V) t ->
  forall s p, tamp (run_step R (GChild R path i m U V) t) s p = tamp t s p.
Proof. intros H s p. symmetry. apply (step_equiv _ _ H). Qed.

Lemma ttns_gauge_seq_dense sts t : steps_ok R sts t -> forall s p, tamp (run_steps R sts t) s p = tamp t s p.
Proof. intros H s p. symmetry. apply (steps_equiv _ _ H). Qed.

(* canonicalise(): the post-order schedule of push_cano_to_parent steps *)
Lemma ttns_cano_dense sts t :
  map (step_pos R) sts = cano_sched R t -> forallb (is_parent_step R) sts = true -> steps_ok R sts t ->
  forall s p, tamp (run_steps R sts t) s p = tamp t s p.
Proof. intros _ _. apply ttns_gauge_seq_dense. Qed.


(* ------------------------------------------------------------------ child order *)
Notation tampL := (tampL R).

Lemma csum_swap A1 : forall x y A2 f,
  csum (A1 ++ x :: y :: A2) f = csum (A1 ++ y :: x :: A2) (fun ks => f (swap_at (length A1) ks)).
Proof.
  induction A1 as [|[d0 c0] A1 IH]; intros [dx x] [dy y] A2 f; cbn [app Ttns.csum length].
  - cbn [swap_at].
    rewrite (sumn_ext R dx _ (fun i => sumn dy (fun j => x i * (y j * csum A2 (fun ks => f (i :: j :: ks)))))).
    2:{ intros i _. rewrite <- sumn_scale_l. reflexivity. }
    rewrite sumn_exchange. apply sumn_ext. intros j _. rewrite <- sumn_scale_l. apply sumn_ext. intros i _. ring.
  - apply sumn_ext. intros k _. f_equal. rewrite IH. apply csum_ext. intros ks. reflexivity.
Qed.

Lemma tampL_node l pd d T cs sg p :
  tampL (TNode l pd d T cs) sg p = csum (map (fun c => (tdim c, tampL c sg)) cs) (fun ks => T ks (sg l) p).
Proof. reflexivity. Qed.

Lemma csum_mid A1 : forall d (a a' : nat -> R) A2 f, (forall k, a k = a' k) ->
  csum (A1 ++ (d, a) :: A2) f = csum (A1 ++ (d, a') :: A2) f.
Proof.
  induction A1 as [|[d0 c0] A1 IH]; intros d a a' A2 f H; cbn [app Ttns.csum].
  - apply sumn_ext. intros k _. rewrite H. reflexivity.
  - apply sumn_ext. intros k _. f_equal. apply IH. exact H.
Qed.

Lemma tperm_dense t t' : tperm R t t' -> tdim t = tdim t' /\ forall sg p, tampL t sg p = tampL t' sg p.
Proof.
  induction 1 as [t|l pd d T c1 x y c2|l pd d T c1 c c' c2 Hc [IHd IHa]|t1 t2 t3 _ [IH1d IH1a] _ [IH2d IH2a]].
  - split; reflexivity.
  - split; [reflexivity|]. intros sg p. rewrite !tampL_node. rewrite !map_app. cbn [map].
    rewrite csum_swap. rewrite map_length. reflexivity.
  - split; [reflexivity|]. intros sg p. rewrite !tampL_node. rewrite !map_app. cbn [map]. rewrite IHd.
    apply csum_mid. intros k. apply IHa.
  - split; [congruence|]. intros sg p. rewrite IH1a. apply IH2a.
Qed.

Lemma camps_cfg sg cs :
  Forall (fun c => forall p, tamp c (cfg_of R c sg) p = tampL c sg p) cs ->
  forall extra f,
  csum (camps cs (map sg (flat_map (tlabels R) cs) ++ extra)) f = csum (map (fun c => (tdim c, tampL c sg)) cs) f.
Proof.
  induction 1 as [|c cs Hc _ IH]; intros extra f; [reflexivity|].
  cbn [flat_map Ttns.camps map Ttns.csum]. rewrite map_app, <- app_assoc.
  rewrite firstn_app_exact by (rewrite map_length; apply tlabels_length).
  rewrite skipn_app_exact by (rewrite map_length; apply tlabels_length).
  apply sumn_ext. intros k _. unfold cfg_of in Hc. rewrite Hc. f_equal. apply IH.
Qed.

Lemma tamp_cfg_of t sg : forall p, tamp t (cfg_of R t sg) p = tampL t sg p.
Proof.
  induction t as [l pd d T cs IH] using ttree_ind'. intros p. unfold cfg_of. cbn [tlabels map].
  rewrite tamp_node, tampL_node. rewrite <- (app_nil_r (map sg (flat_map (tlabels R) cs))).
  apply camps_cfg. exact IH.
Qed.

(* re-listing children (tensor axes following) changes no amplitude of any configuration of the DoFs *)
Lemma child_order_irrelevant t t' : tperm R t t' ->
  forall sg p, tamp t (cfg_of R t sg) p = tamp t' (cfg_of R t' sg) p.
Proof. intros H sg p. rewrite !tamp_cfg_of. apply (tperm_dense _ _ H). Qed.

(* every permutation of the children of a node is reached *)
Lemma tperm_of_permutation l pd d cs cs' : Permutation cs cs' ->
  forall c0 T, exists T', tperm R (TNode l pd d T (c0 ++ cs)) (TNode l pd d T' (c0 ++ cs')).
Proof.
  induction 1 as [|x cs cs' _ IH|x y cs|cs1 cs2 cs3 _ IH1 _ IH2]; intros c0 T.
  - exists T. apply tp_refl.
  - destruct (IH (c0 ++ [x]) T) as [T' HT']. exists T'. rewrite <- !app_assoc in HT'. exact HT'.
  - eexists. apply tp_swap.
  - destruct (IH1 c0 T) as [T1 H1]. destruct (IH2 c0 T1) as [T2 H2]. exists T2. eapply tp_trans; eassumption.
Qed.

Lemma child_order_irrelevant_perm l pd d T cs cs' : Permutation cs cs' ->
  exists T', tperm R (TNode l pd d T cs) (TNode l pd d T' cs') /\
    forall sg p, tamp (TNode l pd d T cs) (cfg_of R (TNode l pd d T cs) sg) p
               = tamp (TNode l pd d T' cs') (cfg_of R (TNode l pd d T' cs') sg) p.
Proof.
  intros H. destruct (tperm_of_permutation l pd d cs cs' H [] T) as [T' HT']. exists T'. split; [exact HT'|].
  apply child_order_irrelevant. exact HT'.
Qed.

(* ------------------------------------------------------------------ einsum index names *)
Lemma names_bond_ends par l pd d T cs i c : nth_error cs i = Some c ->
  nth_error (node_names R par (TNode l pd d T cs)) i = Some (NBond (Some l) (tlbl R c)) /\
  last (node_names R (Some l) c) (NPhys O O) = NBond (Some l) (tlbl R c).
Proof.
  intros H. split.
  - cbn [node_names]. rewrite nth_error_app1 by (rewrite map_length; apply nth_error_Some; congruence).
    rewrite nth_error_map, H. reflexivity.
  - destruct c as [lc pdc dc Tc ccs]. cbn [node_names tlbl]. rewrite app_assoc. apply last_last.
Qed.

Lemma child_names_parent_names t : forall par, child_names R t = tl (parent_names R par t).
Proof.
  induction t as [l pd d T cs IH] using ttree_ind'. intros par. cbn [child_names parent_names tl].
  induction IH as [|c cs Hc _ IHl]; cbn [flat_map]; [reflexivity|]. rewrite IHl. f_equal.
  rewrite (Hc (Some l)). destruct c; reflexivity.
Qed.

Definition bond_child (n : iname) : nat := match n with NBond _ c => c | NPhys _ _ => O end.

Lemma parent_names_labels t : forall par, map bond_child (parent_names R par t) = tlabels R t.
Proof.
  induction t as [l pd d T cs IH] using ttree_ind'. intros par. cbn [parent_names tlabels map bond_child]. f_equal.
  induction IH as [|c cs Hc _ IHl]; cbn [flat_map]; [reflexivity|]. rewrite map_app, Hc, IHl. reflexivity.
Qed.

(* distinct bonds (= distinct non-root nodes, plus the root's dangling bond) get distinct names *)
Lemma names_injective t par : NoDup (tlabels R t) -> NoDup (parent_names R par t).
Proof.
  intros H. apply (NoDup_map_inv bond_child). rewrite parent_names_labels. exact H.
Qed.

Lemma parent_names_bond t : forall par x, In x (parent_names R par t) -> exists a b, x = NBond a b.
Proof.
  induction t as [l pd d T cs IH] using ttree_ind'. intros par x. cbn [parent_names In]. intros [<-|H]; [eauto|].
  apply in_flat_map in H as (c & Hc & Hx). rewrite Forall_forall in IH. eapply IH; eassumption.
Qed.

Lemma phys_names_phys t : forall x, In x (phys_names R t) -> exists a b, x = NPhys a b.
Proof.
  induction t as [l pd d T cs IH] using ttree_ind'. intros x. cbn [phys_names]. rewrite in_app_iff. intros [H|H].
  - apply in_map_iff in H as (j & <- & _). eauto.
  - apply in_flat_map in H as (c & Hc & Hx). rewrite Forall_forall in IH. eapply IH; eassumption.
Qed.

Lemma names_phys_bond_disjoint t par x : In x (phys_names R t) -> In x (parent_names R par t) -> False.
Proof.
  intros H1 H2. apply phys_names_phys in H1 as (a & b & ->). apply parent_names_bond in H2 as (a' & b' & H). discriminate.
Qed.

(* ------------------------------------------------------------------ from_mps *)
Lemma mps_wraps_amp : forall ts pds acc l s sa r,
  length s = length ts -> length pds = length ts -> length sa = tsize acc -> r < lastdim (tdim acc) ts ->
  tamp (mps_wraps R acc l pds ts) (map (fun x => [x]) (rev s) ++ sa) r =
  sumn (tdim acc) (fun m => tamp acc sa m * chain3 ts s m r).
Proof.
  induction ts as [|[d t] ts IH]; intros pds acc l s sa r Hs Hp Hsa Hr.
  - destruct s; [|discriminate]. cbn [mps_wraps rev map app chain3]. cbn [lastdim fold_left] in Hr.
    rewrite (sumn_ext R _ _ (fun m => if Nat.eqb m r then tamp acc sa m else 0)).
    + rewrite (sumn_delta R _ r (fun m => tamp acc sa m) Hr). reflexivity.
    + intros m _. destruct (Nat.eqb m r); ring.
  - destruct s as [|x s]; [discriminate|]. destruct pds as [|pd pds]; [discriminate|].
    cbn [length] in Hs, Hp. cbn [mps_wraps rev]. rewrite map_app. cbn [map]. rewrite <- app_assoc. cbn [app].
    rewrite lastdim_cons in Hr.
    rewrite (IH pds (mps_wrap R l pd (d, t) acc) (S l) s ([x] :: sa) r); try lia.
    + unfold mps_wrap. cbn [fst snd Ttns.tdim]. cbn [chain3].
      rewrite (sumn_ext R d _ (fun m' => sumn (tdim acc) (fun k => tamp acc sa k * (t k x m' * chain3 ts s m' r)))).
      2:{ intros m' _. rewrite tamp_node. cbn [Ttns.camps Ttns.csum hd]. rewrite firstn_all2 by lia.
          rewrite <- sumn_scale_r. apply sumn_ext. intros k _. ring. }
      rewrite sumn_exchange. apply sumn_ext. intros k _. rewrite <- sumn_scale_l. reflexivity.
    + unfold mps_wrap. cbn [Ttns.tsize map length]. rewrite list_sum_cons. cbn [list_sum fold_right]. lia.
    + unfold mps_wrap. cbn [fst Ttns.tdim]. exact Hr.
Qed.

(* the chain amplitude equals the tree amplitude of the converted linear tree (node_list is the reversed
   chain; whole states: r = 0 and the last bond has dimension 1) *)
Lemma from_mps_dense pds ts tr s r :
  from_mps R pds ts = Some tr -> length s = length ts -> length pds = length ts ->
  r < lastdim 1 ts ->
  tamp tr (map (fun x => [x]) (rev s)) r = chain3 ts s O r.
Proof.
  destruct ts as [|[d t] ts]; [discriminate|]. destruct pds as [|pd pds]; [discriminate|].
  cbn [from_mps]. intros [= <-] Hs Hp Hr. destruct s as [|x s]; [discriminate|]. cbn [length] in Hs, Hp.
  cbn [rev]. rewrite map_app. cbn [map]. rewrite lastdim_cons in Hr.
  rewrite (mps_wraps_amp ts pds (mps_leaf R O pd (d, t)) 1 s [[x]] r); try lia.
  - unfold mps_leaf. cbn [fst snd Ttns.tdim chain3]. apply sumn_ext. intros m _. rewrite tamp_node. reflexivity.
  - reflexivity.
  - unfold mps_leaf. cbn [fst Ttns.tdim]. exact Hr.
Qed.


(* ------------------------------------------------------------------ sums over configurations *)
Notation sumcfgs := (sumcfgs R).
Notation oamp := (oamp R).
Notation ocamps := (ocamps R).
Notation odim := (odim R).
Notation osize := (osize R).
Notation oshape := (oshape R).

Lemma sumcfg_ext ds : forall (f g : list nat -> R), (forall s, f s = g s) -> sumcfg ds f = sumcfg ds g.
Proof.
  induction ds as [|d ds IH]; intros f g H; cbn [sumcfg]; [apply H|].
  apply sumn_ext. intros p _. apply IH. intros s. apply H.
Qed.

Lemma sumcfg_0 ds : sumcfg ds (fun _ => 0) = 0 :> R.
Proof. induction ds as [|d ds IH]; cbn [sumcfg]; [reflexivity|]. apply sumn_0. intros p _. apply IH. Qed.

Lemma sumcfg_add ds : forall (f g : list nat -> R), sumcfg ds (fun s => f s + g s) = sumcfg ds f + sumcfg ds g.
Proof.
  induction ds as [|d ds IH]; intros f g; cbn [sumcfg]; [reflexivity|].
  rewrite <- sumn_add. apply sumn_ext. intros p _. apply IH.
Qed.

Lemma sumcfg_scale_l ds : forall c (f : list nat -> R), sumcfg ds (fun s => c * f s) = c * sumcfg ds f.
Proof.
  induction ds as [|d ds IH]; intros c f; cbn [sumcfg]; [reflexivity|].
  rewrite <- sumn_scale_l. apply sumn_ext. intros p _. apply IH.
Qed.

Lemma sumcfg_sumn ds n (f : nat -> list nat -> R) :
  sumcfg ds (fun s => sumn n (fun j => f j s)) = sumn n (fun j => sumcfg ds (f j)).
Proof.
  induction n as [|n IH]; cbn [sumn]; [apply sumcfg_0|]. rewrite sumcfg_add, IH. reflexivity.
Qed.

Lemma csum_sumcfg A pd : forall (g : list nat -> list nat -> R),
  csum A (fun ks => sumcfg pd (fun x => g ks x)) = sumcfg pd (fun x => csum A (fun ks => g ks x)).
Proof.
  induction pd as [|d pd IH]; intros g; cbn [sumcfg]; [reflexivity|].
  rewrite csum_sumn. apply sumn_ext. intros p _. apply (IH (fun ks s => g ks (p :: s))).
Qed.

Lemma sumcfgs_ext_len dd : forall F G, (forall s, length s = length dd -> F s = G s) -> sumcfgs dd F = sumcfgs dd G.
Proof.
  induction dd as [|d dd IH]; intros F G H; cbn [Ttns.sumcfgs]; [apply H; reflexivity|].
  apply sumcfg_ext. intros ph. apply IH. intros s Hs. apply H. cbn [length]. f_equal. exact Hs.
Qed.

Lemma sumcfgs_ext dd F G : (forall s, F s = G s) -> sumcfgs dd F = sumcfgs dd G.
Proof. intros H. apply sumcfgs_ext_len. intros s _. apply H. Qed.

Lemma sumcfgs_0 dd : sumcfgs dd (fun _ => 0) = 0.
Proof.
  induction dd as [|d dd IH]; cbn [Ttns.sumcfgs]; [reflexivity|].
  rewrite (sumcfg_ext d _ (fun _ => 0)); [apply sumcfg_0|]. intros ph. apply IH.
Qed.

Lemma sumcfgs_add dd : forall F G, sumcfgs dd (fun s => F s + G s) = sumcfgs dd F + sumcfgs dd G.
Proof.
  induction dd as [|d dd IH]; intros F G; cbn [Ttns.sumcfgs]; [reflexivity|].
  rewrite <- sumcfg_add. apply sumcfg_ext. intros ph. apply IH.
Qed.

Lemma sumcfgs_scale_l dd : forall c F, sumcfgs dd (fun s => c * F s) = c * sumcfgs dd F.
Proof.
  induction dd as [|d dd IH]; intros c F; cbn [Ttns.sumcfgs]; [reflexivity|].
  rewrite <- sumcfg_scale_l. apply sumcfg_ext. intros ph. apply IH.
Qed.

Lemma sumcfgs_scale_r dd c F : sumcfgs dd (fun s => F s * c) = sumcfgs dd F * c.
Proof.
  rewrite (sumcfgs_ext dd _ (fun s => c * F s)) by (intros; ring). rewrite sumcfgs_scale_l. ring.
Qed.

Lemma sumcfgs_sumn dd n (f : nat -> list (list nat) -> R) :
  sumcfgs dd (fun s => sumn n (fun j => f j s)) = sumn n (fun j => sumcfgs dd (f j)).
Proof.
  induction n as [|n IH]; cbn [sumn]; [apply sumcfgs_0|]. rewrite sumcfgs_add, IH. reflexivity.
Qed.

Lemma sumcfgs_app d1 : forall d2 F,
  sumcfgs (d1 ++ d2) F = sumcfgs d1 (fun s1 => sumcfgs d2 (fun s2 => F (s1 ++ s2))).
Proof.
  induction d1 as [|d d1 IH]; intros d2 F; cbn [app Ttns.sumcfgs]; [reflexivity|].
  apply sumcfg_ext. intros ph. rewrite IH. reflexivity.
Qed.

Lemma sumn_mul n m (a b : nat -> R) :
  sumn n a * sumn m b = sumn m (fun k => sumn n (fun q => a q * b k)).
Proof.
  rewrite <- sumn_scale_l. apply sumn_ext. intros k _. rewrite <- sumn_scale_r. reflexivity.
Qed.

Lemma bilinear_core d1 d2 dc do (oa ta : list (list nat) -> nat -> R) (X Y : nat -> list (list nat) -> R) :
  sumn dc (fun k => sumn do (fun q =>
     sumcfgs d1 (fun s1 => oa s1 q * ta s1 k) * sumcfgs d2 (fun s2 => X q s2 * Y k s2)))
  = sumcfgs d1 (fun s1 => sumcfgs d2 (fun s2 =>
     sumn do (fun q => oa s1 q * X q s2) * sumn dc (fun k => ta s1 k * Y k s2))).
Proof.
  symmetry.
  rewrite (sumcfgs_ext d1 _ (fun s1 => sumn dc (fun k => sumn do (fun q =>
              sumcfgs d2 (fun s2 => (oa s1 q * ta s1 k) * (X q s2 * Y k s2)))))).
  2:{ intros s1. rewrite (sumcfgs_ext d2 _ (fun s2 => sumn dc (fun k => sumn do (fun q =>
              (oa s1 q * ta s1 k) * (X q s2 * Y k s2))))).
      - rewrite sumcfgs_sumn. apply sumn_ext. intros k _. apply sumcfgs_sumn.
      - intros s2. rewrite sumn_mul. apply sumn_ext. intros k _. apply sumn_ext. intros q _. ring. }
  rewrite sumcfgs_sumn. apply sumn_ext. intros k _. rewrite sumcfgs_sumn. apply sumn_ext. intros q _.
  rewrite <- sumcfgs_scale_r. apply sumcfgs_ext. intros s1. rewrite sumcfgs_scale_l. reflexivity.
Qed.

(* ------------------------------------------------------------------ operator trees *)
Section OInd.
Variable P : otree -> Prop.
Hypothesis H : forall pd d Ot cs, Forall P cs -> P (ONode pd d Ot cs).
Fixpoint otree_ind' (o : otree) : P o :=
  match o with
  | ONode pd d Ot cs =>
    H pd d Ot cs ((fix go (cs : list otree) : Forall P cs :=
                     match cs with
                     | [] => Forall_nil P
                     | c :: cs' => Forall_cons c (otree_ind' c) (go cs')
                     end) cs)
  end.
End OInd.

Lemma osize_shape o : osize o = ssize (oshape o).
Proof.
  induction o as [pd d Ot cs IH] using otree_ind'. cbn [Ttns.osize Ttns.oshape ssize]. f_equal.
  rewrite map_map. induction IH as [|c cs Hc _ IHl]; cbn [map]; [reflexivity|]. rewrite !list_sum_cons, Hc, IHl. reflexivity.
Qed.

Lemma oamp_node pd d Ot cs pu ru pdn rd p :
  oamp (ONode pd d Ot cs) (pu :: ru) (pdn :: rd) p = csum (ocamps cs ru rd) (fun ks => Ot ks pu pdn p).
Proof. reflexivity. Qed.

Lemma oamp_nil_l o sd p : oamp o [] sd p = 0.
Proof. destruct o; reflexivity. Qed.

Lemma tapply_node pdo do Ot co l pd ds T cs :
  tapply R (ONode pdo do Ot co) (TNode l pd ds T cs) =
  TNode l pd (ds * do) (apply_tens R pd (map odim co) do T Ot) (zipapply R co cs).
Proof.
  cbn [tapply]. f_equal. revert co. induction cs as [|c cs IHc]; intros [|o1 co]; cbn [zipapply]; try reflexivity.
  f_equal. apply IHc.
Qed.

Lemma tapply_dim o t : tdim (tapply R o t) = (tdim t * odim o)%nat.
Proof. destruct o, t. reflexivity. Qed.

Lemma tapply_shape t : forall o, tshape t = oshape o -> tshape (tapply R o t) = tshape t.
Proof.
  induction t as [l pd ds T cs IH] using ttree_ind'. intros [pdo do Ot co] Hs.
  rewrite tapply_node. cbn [Ttns.tshape Ttns.oshape] in *. f_equal. injection Hs as Hs.
  revert co Hs. induction IH as [|c cs Hc _ IHl]; intros [|o1 co] Hs; cbn [zipapply map] in *; try reflexivity; try discriminate.
  injection Hs as H1 Hs. rewrite (Hc o1 H1), (IHl co Hs). reflexivity.
Qed.

Lemma apply_children cs :
  Forall (fun t => forall o, tshape t = oshape o -> forall su P,
            tamp (tapply R o t) su P =
            sumcfgs (tpdims R t) (fun sd => oamp o su sd (P mod odim o) * tamp t sd (P / odim o))) cs ->
  forall co, map tshape cs = map oshape co -> forall ru (fo ft : list nat -> R),
  csum (camps (zipapply R co cs) ru) (fun Ks => fo (modl Ks (map odim co)) * ft (divl Ks (map odim co)))
  = sumcfgs (flat_map (tpdims R) cs) (fun rd => csum (ocamps co ru rd) fo * csum (camps cs rd) ft).
Proof.
  induction 1 as [|c cs Hc _ IH]; intros [|o1 co] Hs ru fo ft; cbn [map] in Hs; try discriminate.
  - reflexivity.
  - injection Hs as H1 Hs.
    cbn [zipapply Ttns.camps Ttns.csum map flat_map].
    rewrite tapply_dim. rewrite (tsize_eq _ c (tapply_shape c o1 H1)).
    set (n1 := tsize c). set (ru1 := firstn n1 ru). set (ru2 := skipn n1 ru).
    assert (Hos : osize o1 = n1). { unfold n1. rewrite osize_shape, tsize_shape, H1. reflexivity. }
    (* left-hand side *)
    rewrite sumn_prod.
    rewrite (sumn_ext R (tdim c) _ (fun k => sumn (odim o1) (fun q =>
               sumcfgs (tpdims R c) (fun s1 => oamp o1 ru1 s1 q * tamp c s1 k)
               * sumcfgs (flat_map (tpdims R) cs)
                   (fun s2 => csum (ocamps co ru2 s2) (fun z => fo (q :: z)) * csum (camps cs s2) (fun z => ft (k :: z)))))).
    2:{ intros k _. apply sumn_ext. intros q Hq.
        assert (Hm : ((k * odim o1 + q) mod odim o1 = q)%nat).
        { rewrite Nat.add_comm, Nat.mod_add by lia. apply Nat.mod_small. exact Hq. }
        assert (Hd : ((k * odim o1 + q) / odim o1 = k)%nat).
        { rewrite Nat.add_comm, Nat.div_add by lia. rewrite Nat.div_small by exact Hq. reflexivity. }
        rewrite (Hc o1 H1). rewrite Hm, Hd. f_equal.
        rewrite <- (IH co Hs ru2 (fun z => fo (q :: z)) (fun z => ft (k :: z))).
        apply csum_ext. intros Ks. cbn [modl divl]. rewrite Hm, Hd. reflexivity. }
    rewrite bilinear_core.
    (* right-hand side *)
    rewrite sumcfgs_app. apply sumcfgs_ext_len. intros s1 Hs1. apply sumcfgs_ext. intros s2.
    rewrite tpdims_length in Hs1. fold n1 in Hs1.
    cbn [Ttns.ocamps Ttns.camps Ttns.csum]. rewrite Hos. fold n1.
    rewrite !firstn_app_exact by exact Hs1. rewrite !skipn_app_exact by exact Hs1. reflexivity.
Qed.

(* TTNO.apply: the combined-bond tree is the dense operator applied to the dense vector *)
Lemma ttno_apply_dense t : forall o, tshape t = oshape o -> forall su P,
  tamp (tapply R o t) su P =
  sumcfgs (tpdims R t) (fun sd => oamp o su sd (P mod odim o) * tamp t sd (P / odim o)).
Proof.
  induction t as [l pd ds T cs IH] using ttree_ind'. intros [pdo do Ot co] Hs su P.
  rewrite tapply_node. cbn [Ttns.tshape Ttns.oshape] in Hs. injection Hs as Hs. cbn [Ttns.odim tpdims].
  destruct su as [|pu ru].
  - rewrite tamp_nil. symmetry. rewrite (sumcfgs_ext _ _ (fun _ => 0)); [apply sumcfgs_0|].
    intros sd. rewrite oamp_nil_l. ring.
  - rewrite tamp_node. cbn [Ttns.sumcfgs]. unfold apply_tens.
    rewrite (csum_sumcfg _ pd (fun Ks pdn => Ot (modl Ks (map odim co)) pu pdn (P mod do) * T (divl Ks (map odim co)) pdn (P / do))).
    apply sumcfg_ext. intros pdn.
    rewrite (apply_children cs IH co Hs ru (fun ko => Ot ko pu pdn (P mod do)) (fun ks => T ks pdn (P / do))).
    apply sumcfgs_ext. intros rd. rewrite oamp_node, tamp_node. reflexivity.
Qed.


(* whole states and operators: dangling bonds of dimension 1 *)
Lemma ttno_apply_dense_whole t o : tshape t = oshape o -> odim o = 1%nat -> forall su,
  tamp (tapply R o t) su O = sumcfgs (tpdims R t) (fun sd => oamp o su sd O * tamp t sd O).
Proof. intros Hs Hd su. rewrite (ttno_apply_dense t o Hs su O), Hd. reflexivity. Qed.

End TtnsProofs.
