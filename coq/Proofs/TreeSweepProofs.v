(* C12 -- proofs about the tree sweep schedules of Model/TreeSweep.v *)
From Coq Require Import List ZArith Arith Bool Lia Permutation.
Import ListNotations.
From RV Require Import Model.TreeSweep.
Local Open Scope Z_scope.

(* ------------------------------------------------------------------ induction on nested trees *)
Section TreeInd.
  Variable P : tree -> Prop.
  Hypothesis HN : forall n ch, Forall P ch -> P (Node n ch).
  Fixpoint tree_ind' (t : tree) : P t :=
    match t with
    | Node n ch =>
      HN n ch ((fix go (l : list tree) : Forall P l :=
                  match l with
                  | [] => Forall_nil P
                  | c :: l' => Forall_cons c (tree_ind' c) (go l')
                  end) ch)
    end.
End TreeInd.

(* ------------------------------------------------------------------ top-level names for the nested loops *)
Fixpoint fwd_kids (tau : Z) (n i : nat) (l : list tree) : list event :=
  match l with
  | [] => []
  | c :: l' => PushToChild n i (tid c) ++ [EnvParent n i (tid c)] ++ fwd tau (Some n) c ++ fwd_kids tau n (S i) l'
  end.
Definition bwd_blk (tau : Z) (n i : nat) (c : tree) : list event :=
  [QRDown n i (tid c); EnvParent n i (tid c); Evolve0 (tid c) (- tau); AbsorbDown n i (tid c)] ++ bwd tau (Some n) c.
Fixpoint bwd_kids (tau : Z) (n i : nat) (l : list tree) : list event :=
  match l with
  | [] => []
  | c :: l' => bwd_kids tau n (S i) l' ++ bwd_blk tau n i c
  end.

Lemma fwd_eq : forall tau par n ch,
  fwd tau par (Node n ch) = fwd_kids tau n 0 ch ++ [Evolve1 n tau] ++ up_fwd tau n par.
Proof.
  intros. cbn [fwd]. f_equal. generalize 0%nat. induction ch as [|c l IH]; intros i; [reflexivity|].
  cbn [fwd_kids]. rewrite <- IH. reflexivity.
Qed.
Lemma bwd_eq : forall tau par n ch,
  bwd tau par (Node n ch) = [Evolve1 n tau] ++ bwd_kids tau n 0 ch ++ up_bwd n par.
Proof.
  intros. cbn [bwd]. f_equal. f_equal. generalize 0%nat. induction ch as [|c l IH]; intros i; [reflexivity|].
  cbn [bwd_kids]. rewrite <- IH. unfold bwd_blk. reflexivity.
Qed.
Lemma bwd_kids_snoc : forall tau n l c i,
  bwd_kids tau n i (l ++ [c]) = bwd_blk tau n (i + length l) c ++ bwd_kids tau n i l.
Proof.
  intros tau n l c. induction l as [|d l IH]; intros i.
  - cbn [app bwd_kids length]. rewrite Nat.add_0_r, app_nil_r. reflexivity.
  - cbn [app bwd_kids length]. rewrite IH. rewrite app_assoc. f_equal. f_equal. f_equal. lia.
Qed.
Lemma fwd_par : forall tau p t, fwd tau (Some p) t = fwd tau None t ++ up_fwd tau (tid t) (Some p).
Proof. intros tau p [n ch]. rewrite !fwd_eq. cbn [up_fwd tid]. rewrite !app_assoc, app_nil_r. reflexivity. Qed.
Lemma bwd_par : forall tau p t, bwd tau (Some p) t = bwd tau None t ++ up_bwd (tid t) (Some p).
Proof.
  intros tau p [n ch]. rewrite !bwd_eq. cbn [up_bwd tid]. rewrite app_nil_r.
  rewrite <- !app_assoc. reflexivity.
Qed.

(* ------------------------------------------------------------------ sizes *)
Definition iters_kids (l : list tree) : nat := list_sum (map (fun c => S (iters c)) l).

Lemma size_pos : forall t, (1 <= size t)%nat.
Proof. intros [n ch]. cbn. lia. Qed.

Lemma list_sum_cons : forall a l, list_sum (a :: l) = (a + list_sum l)%nat.
Proof. reflexivity. Qed.
Lemma iters_kids_nil : iters_kids [] = 0%nat.
Proof. reflexivity. Qed.
Lemma iters_kids_cons : forall c l, iters_kids (c :: l) = (S (iters c) + iters_kids l)%nat.
Proof. reflexivity. Qed.

Lemma iters_node : forall n ch, iters (Node n ch) = S (iters_kids ch).
Proof.
  intros.
  assert (E : forall l, iters_kids l = (2 * list_sum (map size l))%nat).
  { induction l as [|c l IH]; [reflexivity|]. rewrite iters_kids_cons, map_cons, list_sum_cons, IH.
    unfold iters, edges. pose proof (size_pos c). lia. }
  rewrite E. unfold iters, edges. cbn [size]. lia.
Qed.

(* ------------------------------------------------------------------ the stack machines compute fwd / bwd *)
Lemma run_step : forall step k s, stk s <> [] -> run step (S k) s = run step k (step s).
Proof. intros step k s H. cbn [run]. destruct (stk s); [contradiction|reflexivity]. Qed.

Lemma run_done : forall step k s, stk s = [] -> run step k s = Some s.
Proof. intros step k s H. destruct k; cbn [run]; rewrite H; reflexivity. Qed.

Lemma child_at_app : forall done c todo,
  child_at (done ++ c :: todo) (Z.of_nat (length done) - 1 + 1) = Some c.
Proof.
  intros. unfold child_at. replace (Z.of_nat (length done) - 1 + 1) with (Z.of_nat (length done)) by lia.
  destruct (Z.ltb_spec (Z.of_nat (length done)) 0); [lia|].
  rewrite Nat2Z.id. rewrite nth_error_app2 by lia. rewrite Nat.sub_diag. reflexivity.
Qed.

Definition root_err (par : option nat) (rest : list frame) : bool :=
  match par with None => negb (is_nil rest) | Some _ => false end.

Lemma fwd_step_last : forall tau par n ch rest o e,
  fwd_step tau (mkS (mkF par (Node n ch) (Z.of_nat (length ch) - 1) :: rest) o e)
  = mkS rest (o ++ [Evolve1 n tau] ++ up_fwd tau n par) (e || root_err par rest).
Proof.
  intros. unfold fwd_step. cbn [stk f_node f_i f_par tid tch out err].
  rewrite Z.eqb_refl, orb_true_r. destruct par as [p|]; cbn [up_fwd root_err].
  - rewrite orb_false_r. reflexivity.
  - reflexivity.
Qed.

Lemma fwd_step_desc : forall tau par n done c todo rest o e,
  fwd_step tau (mkS (mkF par (Node n (done ++ c :: todo)) (Z.of_nat (length done) - 1) :: rest) o e)
  = mkS (mkF (Some n) c (-1) :: mkF par (Node n (done ++ c :: todo)) (Z.of_nat (length done)) :: rest)
        (o ++ PushToChild n (length done) (tid c) ++ [EnvParent n (length done) (tid c)]) e.
Proof.
  intros. unfold fwd_step. cbn [stk f_node f_i f_par tid tch out err].
  assert (N : is_nil (done ++ c :: todo) = false) by (destruct done; reflexivity).
  rewrite N. cbn [orb].
  assert (L : (Z.of_nat (length done) - 1 =? Z.of_nat (length (done ++ c :: todo)) - 1) = false).
  { apply Z.eqb_neq. rewrite app_length. cbn [length]. lia. }
  rewrite L. rewrite child_at_app.
  replace (Z.of_nat (length done) - 1 + 1) with (Z.of_nat (length done)) by lia.
  rewrite Nat2Z.id. reflexivity.
Qed.

Definition fwd_node_ok (tau : Z) (t : tree) : Prop :=
  forall par rest o e k,
    run (fwd_step tau) (iters t + k) (mkS (mkF par t (-1) :: rest) o e)
    = run (fwd_step tau) k (mkS rest (o ++ fwd tau par t) (e || root_err par rest)).

Lemma fwd_loop : forall tau n par todo,
  Forall (fwd_node_ok tau) todo ->
  forall done rest o e k,
    run (fwd_step tau) (S (iters_kids todo) + k)
        (mkS (mkF par (Node n (done ++ todo)) (Z.of_nat (length done) - 1) :: rest) o e)
    = run (fwd_step tau) k
        (mkS rest (o ++ fwd_kids tau n (length done) todo ++ [Evolve1 n tau] ++ up_fwd tau n par)
             (e || root_err par rest)).
Proof.
  intros tau n par todo HF. induction HF as [|c todo Hc HF IH]; intros done rest o e k.
  - rewrite iters_kids_nil. cbn [plus]. rewrite run_step by (cbn; discriminate).
    rewrite app_nil_r. rewrite fwd_step_last. reflexivity.
  - rewrite iters_kids_cons.
    replace (S (S (iters c) + iters_kids todo) + k)%nat with (S (iters c + (S (iters_kids todo) + k)))%nat by lia.
    rewrite run_step by (cbn; discriminate).
    rewrite fwd_step_desc. rewrite Hc. cbn [root_err]. rewrite orb_false_r.
    specialize (IH (done ++ [c]) rest).
    rewrite <- app_assoc in IH. cbn [app] in IH.
    rewrite app_length in IH. cbn [length] in IH.
    replace (Z.of_nat (length done + 1) - 1) with (Z.of_nat (length done)) in IH by lia.
    rewrite IH. f_equal. f_equal.
    cbn [fwd_kids]. replace (length done + 1)%nat with (S (length done)) by lia.
    rewrite <- !app_assoc. reflexivity.
Qed.

Lemma fwd_machine_node : forall tau t, fwd_node_ok tau t.
Proof.
  intros tau. apply tree_ind'. intros n ch HF par rest o e k.
  rewrite iters_node. pose proof (fwd_loop tau n par ch HF [] rest o e k) as L.
  cbn [app length] in L. change (Z.of_nat 0 - 1) with (-1) in L. rewrite L. rewrite fwd_eq. reflexivity.
Qed.

Lemma bwd_step_first_last : forall tau par n rest o e,
  bwd_step tau (mkS (mkF par (Node n []) (-1) :: rest) o e)
  = mkS rest (o ++ [Evolve1 n tau] ++ up_bwd n par) e.
Proof. intros. unfold bwd_step. cbn. destruct par; reflexivity. Qed.

Lemma bwd_step_last : forall tau par n ch rest o e, ch <> [] ->
  bwd_step tau (mkS (mkF par (Node n ch) (Z.of_nat (length ch) - 1) :: rest) o e)
  = mkS rest (o ++ up_bwd n par) e.
Proof.
  intros. unfold bwd_step. cbn [stk f_node f_i f_par tid tch out err].
  assert (L : (Z.of_nat (length ch) - 1 =? -1) = false).
  { apply Z.eqb_neq. destruct ch; [contradiction|]. cbn [length]. lia. }
  rewrite L, Z.eqb_refl. destruct par; reflexivity.
Qed.

Lemma child_at_rev : forall pre c post,
  child_at (pre ++ c :: post) (Z.of_nat (length (pre ++ c :: post)) - 1 - (Z.of_nat (length post) - 1 + 1)) = Some c.
Proof.
  intros. unfold child_at. rewrite app_length. cbn [length].
  replace (Z.of_nat (length pre + S (length post)) - 1 - (Z.of_nat (length post) - 1 + 1)) with (Z.of_nat (length pre)) by lia.
  destruct (Z.ltb_spec (Z.of_nat (length pre)) 0); [lia|].
  rewrite Nat2Z.id. rewrite nth_error_app2 by lia. rewrite Nat.sub_diag. reflexivity.
Qed.

Lemma bwd_step_desc : forall tau par n pre c post rest o e,
  bwd_step tau (mkS (mkF par (Node n (pre ++ c :: post)) (Z.of_nat (length post) - 1) :: rest) o e)
  = mkS (mkF (Some n) c (-1) :: mkF par (Node n (pre ++ c :: post)) (Z.of_nat (length post)) :: rest)
        (o ++ (if is_nil post then [Evolve1 n tau] else [])
           ++ [QRDown n (length pre) (tid c); EnvParent n (length pre) (tid c);
               Evolve0 (tid c) (- tau); AbsorbDown n (length pre) (tid c)]) e.
Proof.
  intros. unfold bwd_step. cbn [stk f_node f_i f_par tid tch out err].
  assert (L : (Z.of_nat (length post) - 1 =? Z.of_nat (length (pre ++ c :: post)) - 1) = false).
  { apply Z.eqb_neq. rewrite app_length. cbn [length]. lia. }
  rewrite L. rewrite child_at_rev.
  replace (Z.of_nat (length post) - 1 + 1) with (Z.of_nat (length post)) by lia.
  replace (Z.of_nat (length (pre ++ c :: post)) - 1 - Z.of_nat (length post)) with (Z.of_nat (length pre))
    by (rewrite app_length; cbn [length]; lia).
  rewrite Nat2Z.id.
  assert (E : (Z.of_nat (length post) - 1 =? -1) = is_nil post).
  { destruct post; cbn [length is_nil]; [reflexivity|]. apply Z.eqb_neq. lia. }
  rewrite E. reflexivity.
Qed.

Definition bwd_node_ok (tau : Z) (t : tree) : Prop :=
  forall par rest o e k,
    run (bwd_step tau) (iters t + k) (mkS (mkF par t (-1) :: rest) o e)
    = run (bwd_step tau) k (mkS rest (o ++ bwd tau par t) e).

Lemma iters_kids_app : forall a b, iters_kids (a ++ b) = (iters_kids a + iters_kids b)%nat.
Proof. intros. unfold iters_kids. rewrite map_app, list_sum_app. reflexivity. Qed.

(* the children still to be visited are a prefix [pre]; they are visited last-to-first *)
Lemma bwd_loop : forall tau n par pre,
  Forall (bwd_node_ok tau) pre ->
  forall post rest o e k, post <> [] ->
    run (bwd_step tau) (S (iters_kids pre) + k)
        (mkS (mkF par (Node n (pre ++ post)) (Z.of_nat (length post) - 1) :: rest) o e)
    = run (bwd_step tau) k
        (mkS rest (o ++ bwd_kids tau n 0 pre ++ up_bwd n par) e).
Proof.
  intros tau n par pre. induction pre as [|c pre IH] using rev_ind; intros HF post rest o e k NP.
  - rewrite iters_kids_nil. cbn [plus app]. rewrite run_step by (cbn; discriminate).
    cbn [bwd_kids app]. apply f_equal.
    unfold bwd_step. cbn [stk f_node f_i f_par tid tch out err].
    assert (L : (Z.of_nat (length post) - 1 =? -1) = false).
    { apply Z.eqb_neq. destruct post; [contradiction|]. cbn [length]. lia. }
    rewrite L, Z.eqb_refl. destruct par; reflexivity.
  - apply Forall_app in HF. destruct HF as [HF Hc]. inversion Hc as [|? ? Hc' _]; subst.
    rewrite iters_kids_app, iters_kids_cons, iters_kids_nil.
    replace (S (iters_kids pre + (S (iters c) + 0)) + k)%nat with (S (iters c + (S (iters_kids pre) + k)))%nat by lia.
    rewrite run_step by (cbn; discriminate).
    rewrite <- app_assoc. cbn [app]. rewrite bwd_step_desc. rewrite Hc'.
    destruct post as [|p0 post']; [contradiction|]. cbn [is_nil app].
    specialize (IH HF (c :: p0 :: post') rest).
    cbn [length] in IH. replace (Z.of_nat (S (S (length post'))) - 1) with (Z.of_nat (length (p0 :: post'))) in IH
      by (cbn [length]; lia).
    rewrite IH by discriminate. f_equal. f_equal.
    rewrite bwd_kids_snoc. cbn [plus]. unfold bwd_blk. rewrite <- !app_assoc. reflexivity.
Qed.

Lemma bwd_machine_node : forall tau t, bwd_node_ok tau t.
Proof.
  intros tau. apply tree_ind'. intros n ch HF par rest o e k.
  rewrite iters_node. rewrite bwd_eq. destruct ch as [|c0 ch0] eqn:Ech using rev_ind.
  - rewrite iters_kids_nil. cbn [plus]. rewrite run_step by (cbn; discriminate).
    rewrite bwd_step_first_last. reflexivity.
  - clear IHch0. apply Forall_app in HF. destruct HF as [HF Hc]. inversion Hc as [|? ? Hc' _]; subst.
    rewrite iters_kids_app, iters_kids_cons, iters_kids_nil.
    replace (S (iters_kids ch0 + (S (iters c0) + 0)) + k)%nat with (S (iters c0 + (S (iters_kids ch0) + k)))%nat by lia.
    rewrite run_step by (cbn; discriminate).
    pose proof (bwd_step_desc tau par n ch0 c0 [] rest o e) as D. cbn [length is_nil] in D.
    change (Z.of_nat 0 - 1) with (-1) in D. rewrite D. rewrite Hc'.
    pose proof (bwd_loop tau n par ch0 HF [c0] rest) as L. cbn [length] in L.
    change (Z.of_nat 1 - 1) with 0 in L. change (Z.of_nat 0) with 0.
    rewrite L by discriminate. f_equal. f_equal.
    rewrite bwd_kids_snoc. cbn [plus]. unfold bwd_blk. rewrite <- !app_assoc. reflexivity.
Qed.

(* fuel: exactly iters t iterations are executed; any larger fuel gives the same answer *)
Theorem ps_forward_run : forall tau t fuel, (iters t <= fuel)%nat ->
  ps_forward fuel tau t = Some (mkS [] (fwd tau None t) false).
Proof.
  intros tau t fuel H. unfold ps_forward, init.
  replace fuel with (iters t + (fuel - iters t))%nat by lia.
  rewrite fwd_machine_node. cbn [root_err is_nil negb orb app]. apply run_done. reflexivity.
Qed.

Theorem ps_backward_run : forall tau t fuel, (iters t <= fuel)%nat ->
  ps_backward fuel tau t = Some (mkS [] (bwd tau None t) false).
Proof.
  intros tau t fuel H. unfold ps_backward, init.
  replace fuel with (iters t + (fuel - iters t))%nat by lia.
  rewrite bwd_machine_node. cbn [app]. apply run_done. reflexivity.
Qed.

Lemma iters_le_bound : forall t, (iters t <= fuel_bound t)%nat.
Proof. intros. unfold iters, fuel_bound. lia. Qed.

(* with less fuel than iters t the loop has not finished *)
Lemma run_mono_none : forall step k s, run step (S k) s = None -> run step k s = None.
Proof.
  intros step k. induction k as [|k IH]; intros s H.
  - cbn [run] in *. destruct (stk s); [discriminate|reflexivity].
  - cbn [run] in H. cbn [run]. destruct (stk s) eqn:E; [discriminate|].
    apply IH. cbn [run]. exact H.
Qed.

Theorem ps_step_machine_run : forall h t fuel, (iters t <= fuel)%nat ->
  ps_step_machine fuel h t = Some (ps_step h t, false).
Proof.
  intros. unfold ps_step_machine. rewrite ps_forward_run, ps_backward_run by assumption.
  reflexivity.
Qed.

(* ------------------------------------------------------------------ coverage: which objects are evolved, in which order *)
Lemma ev1_app : forall a b, ev1_of (a ++ b) = ev1_of a ++ ev1_of b.
Proof. intros. unfold ev1_of. apply flat_map_app. Qed.
Lemma ev0_app : forall a b, ev0_of (a ++ b) = ev0_of a ++ ev0_of b.
Proof. intros. unfold ev0_of. apply flat_map_app. Qed.

Definition tag (s : Z) (l : list nat) : list (nat * Z) := map (fun n => (n, s)) l.
Lemma tag_app : forall s a b, tag s (a ++ b) = tag s a ++ tag s b.
Proof. intros. unfold tag. apply map_app. Qed.

Lemma ev1_up_fwd : forall tau n par, ev1_of (up_fwd tau n par) = [].
Proof. intros. destruct par; reflexivity. Qed.
Lemma ev1_up_bwd : forall n par, ev1_of (up_bwd n par) = [].
Proof. intros. destruct par; reflexivity. Qed.
Lemma ev0_up_fwd : forall tau n par,
  ev0_of (up_fwd tau n par) = match par with Some _ => [(n, - tau)] | None => [] end.
Proof. intros. destruct par; reflexivity. Qed.
Lemma ev0_up_bwd : forall n par, ev0_of (up_bwd n par) = [].
Proof. intros. destruct par; reflexivity. Qed.

(* forward sweep: one-site steps in post-order *)
Lemma fwd_ev1 : forall tau t par, ev1_of (fwd tau par t) = tag tau (postorder t).
Proof.
  intros tau. apply (tree_ind' (fun t => forall par, ev1_of (fwd tau par t) = tag tau (postorder t))).
  intros n ch HF par. rewrite fwd_eq, !ev1_app, ev1_up_fwd, app_nil_r. cbn [postorder].
  rewrite tag_app. f_equal.
  generalize 0%nat. induction HF as [|c l Hc HF IH]; intros i; [reflexivity|].
  cbn [fwd_kids flat_map]. rewrite !ev1_app, tag_app, Hc, IH. reflexivity.
Qed.

(* forward sweep: bond steps; every node with a parent, in post-order *)
Lemma fwd_ev0 : forall tau t par,
  ev0_of (fwd tau par t)
  = tag (- tau) (match par with Some _ => postorder t | None => flat_map postorder (tch t) end).
Proof.
  intros tau.
  apply (tree_ind' (fun t => forall par, ev0_of (fwd tau par t)
      = tag (- tau) (match par with Some _ => postorder t | None => flat_map postorder (tch t) end))).
  intros n ch HF par. rewrite fwd_eq, !ev0_app, ev0_up_fwd. cbn [postorder tch].
  assert (K : forall i, ev0_of (fwd_kids tau n i ch) = tag (- tau) (flat_map postorder ch)).
  { induction HF as [|c l Hc HF IH]; intros i; [reflexivity|].
    cbn [fwd_kids flat_map]. rewrite !ev0_app, tag_app, (Hc (Some n)), IH. reflexivity. }
  rewrite K. destruct par; cbn [ev0_of flat_map app]; rewrite ?tag_app, ?app_nil_r; reflexivity.
Qed.

Lemma tid_rev_children : forall t, tid (rev_children t) = tid t.
Proof. intros [n ch]. reflexivity. Qed.
Lemma ids_edge_rc : forall c, ids (rev_children c) = tid c :: edge_ids (rev_children c).
Proof. intros [n ch]. reflexivity. Qed.

(* backward sweep: one-site steps in pre-order of the child-reversed tree (= reverse post-order), bond steps likewise *)
Lemma bwd_ev1 : forall tau t par, ev1_of (bwd tau par t) = tag tau (ids (rev_children t)).
Proof.
  intros tau. apply (tree_ind' (fun t => forall par, ev1_of (bwd tau par t) = tag tau (ids (rev_children t)))).
  intros n ch HF par. rewrite bwd_eq, !ev1_app, ev1_up_bwd, app_nil_r. cbn [rev_children ids].
  change (tag tau (n :: flat_map ids (rev (map rev_children ch))))
    with ((n, tau) :: tag tau (flat_map ids (rev (map rev_children ch)))).
  cbn [ev1_of flat_map app]. f_equal.
  generalize 0%nat. induction HF as [|c l Hc HF IH]; intros i; [reflexivity|].
  cbn [bwd_kids map rev]. unfold bwd_blk. rewrite !ev1_app, flat_map_app, tag_app, Hc, IH.
  cbn [ev1_of flat_map app]. rewrite app_nil_r. reflexivity.
Qed.

Lemma bwd_ev0 : forall tau t par, ev0_of (bwd tau par t) = tag (- tau) (edge_ids (rev_children t)).
Proof.
  intros tau. apply (tree_ind' (fun t => forall par, ev0_of (bwd tau par t) = tag (- tau) (edge_ids (rev_children t)))).
  intros n ch HF par. rewrite bwd_eq, !ev0_app, ev0_up_bwd, app_nil_r. unfold edge_ids. cbn [rev_children tch].
  cbn [ev0_of flat_map app].
  generalize 0%nat. induction HF as [|c l Hc HF IH]; intros i; [reflexivity|].
  cbn [bwd_kids map rev]. unfold bwd_blk. rewrite !ev0_app, flat_map_app, tag_app, (Hc (Some n)), IH.
  cbn [ev0_of flat_map app]. rewrite app_nil_r. f_equal.
  rewrite (ids_edge_rc c). reflexivity.
Qed.

(* post-order and pre-order enumerate the same nodes *)
Lemma flat_map_perm : forall (f g : tree -> list nat) l,
  Forall (fun c => Permutation (f c) (g c)) l -> Permutation (flat_map f l) (flat_map g l).
Proof.
  intros f g l H. induction H as [|c l Hc H IH]; [constructor|].
  cbn [flat_map]. apply Permutation_app; assumption.
Qed.
Lemma postorder_perm : forall t, Permutation (postorder t) (ids t).
Proof.
  apply tree_ind'. intros n ch HF. cbn [postorder ids].
  eapply Permutation_trans; [apply Permutation_app_comm|]. cbn [app].
  constructor. apply flat_map_perm. exact HF.
Qed.
Lemma postorder_kids_perm : forall t, Permutation (flat_map postorder (tch t)) (edge_ids t).
Proof.
  intros [n ch]. unfold edge_ids. cbn [tch]. apply flat_map_perm.
  rewrite Forall_forall. intros c _. apply postorder_perm.
Qed.
Lemma ids_edge : forall t, ids t = tid t :: edge_ids t.
Proof. intros [n ch]. reflexivity. Qed.
Lemma rev_postorder : forall t, rev (postorder t) = ids (rev_children t).
Proof.
  apply tree_ind'. intros n ch HF. cbn [postorder rev_children ids].
  rewrite rev_app_distr. cbn [rev app]. f_equal.
  induction HF as [|c l Hc HF IH]; [reflexivity|].
  cbn [flat_map map rev]. rewrite rev_app_distr, flat_map_app, IH, Hc. cbn [flat_map]. rewrite app_nil_r. reflexivity.
Qed.

Lemma ids_rc_perm : forall t, Permutation (ids (rev_children t)) (ids t).
Proof.
  intros t. rewrite <- rev_postorder. eapply Permutation_trans; [apply Permutation_sym, Permutation_rev|apply postorder_perm].
Qed.
Lemma rev_postorder_kids : forall t, rev (flat_map postorder (tch t)) = edge_ids (rev_children t).
Proof.
  intros [n ch]. pose proof (rev_postorder (Node n ch)) as R. cbn [postorder rev_children ids] in R.
  rewrite rev_app_distr in R. cbn [rev app] in R. injection R as R. unfold edge_ids. cbn [tch rev_children]. exact R.
Qed.
Lemma edge_ids_rc_perm : forall t, Permutation (edge_ids (rev_children t)) (edge_ids t).
Proof.
  intros t. pose proof (ids_rc_perm t) as P. rewrite (ids_edge_rc t), ids_edge in P.
  eapply Permutation_cons_inv. exact P.
Qed.

(* "exactly one event for object n, and it has duration s" *)
Definition exactly_once (l : list (nat * Z)) (n : nat) (s : Z) : Prop :=
  exists l1 l2, l = l1 ++ (n, s) :: l2 /\ forall x, In x (l1 ++ l2) -> fst x <> n.

Lemma tag_fst : forall s l, map fst (tag s l) = l.
Proof. intros. unfold tag. rewrite map_map. cbn. apply map_id. Qed.

Lemma exactly_once_tag : forall s l n, NoDup l -> In n l -> exactly_once (tag s l) n s.
Proof.
  intros s l n ND HI. apply in_split in HI. destruct HI as [a [b E]]. subst l.
  exists (tag s a), (tag s b). split.
  - rewrite tag_app. reflexivity.
  - intros x Hx. apply NoDup_remove_2 in ND. intros F. apply ND.
    rewrite <- tag_app in Hx. unfold tag in Hx. apply in_map_iff in Hx.
    destruct Hx as [m [E Hm]]. subst x. cbn in F. subst m. exact Hm.
Qed.

Lemma time_at_app : forall n a b, time_at n (a ++ b) = time_at n a + time_at n b.
Proof.
  intros n a b. induction a as [|x a IH]; [reflexivity|].
  cbn [app time_at fold_right]. fold (time_at n (a ++ b)). fold (time_at n a). rewrite IH.
  destruct (fst x =? n)%nat; lia.
Qed.
Lemma time_at_tag_notin : forall s l n, ~ In n l -> time_at n (tag s l) = 0.
Proof.
  intros s l n. induction l as [|x l IH]; intros H; [reflexivity|].
  cbn [tag map time_at fold_right]. fold (tag s l). fold (time_at n (tag s l)). cbn [fst snd].
  destruct (Nat.eqb_spec x n) as [E|E].
  - exfalso. apply H. left. exact E.
  - apply IH. intros F. apply H. right. exact F.
Qed.
Lemma time_at_tag : forall s l n, NoDup l -> In n l -> time_at n (tag s l) = s.
Proof.
  intros s l n ND. induction ND as [|x l Hx ND IH]; intros HI; [destruct HI|].
  cbn [tag map time_at fold_right]. fold (tag s l). fold (time_at n (tag s l)). cbn [fst snd].
  destruct (Nat.eqb_spec x n) as [E|E].
  - subst x. rewrite time_at_tag_notin by assumption. lia.
  - destruct HI as [HI|HI]; [contradiction|]. apply IH. exact HI.
Qed.

Lemma NoDup_edge_ids : forall t, NoDup (ids t) -> NoDup (edge_ids t).
Proof. intros t H. rewrite ids_edge in H. inversion H; assumption. Qed.

(* ------------------------------------------------------------------ the centre is on the evolved object *)
Lemma loc_eqb_refl : forall l, loc_eqb l l = true.
Proof. intros [n|n]; cbn; apply Nat.eqb_refl. Qed.

Lemma centre_run_app : forall a b l,
  centre_run l (a ++ b) = match centre_run l a with Some l' => centre_run l' b | None => None end.
Proof.
  induction a as [|e a IH]; intros b l; [reflexivity|].
  cbn [app centre_run]. destruct (cstep_loc l e); [apply IH|reflexivity].
Qed.

Definition after_up (n : nat) (par : option nat) : loc :=
  match par with Some p => AtNode p | None => AtNode n end.

Lemma centre_up_fwd : forall tau n par, centre_run (AtNode n) (up_fwd tau n par) = Some (after_up n par).
Proof.
  intros. destruct par; [|reflexivity].
  repeat (cbn [up_fwd centre_run cstep_loc PushToParent app after_up]; rewrite ?loc_eqb_refl). reflexivity.
Qed.
Lemma centre_up_bwd : forall n par, centre_run (AtNode n) (up_bwd n par) = Some (after_up n par).
Proof.
  intros. destruct par; [|reflexivity].
  repeat (cbn [up_bwd centre_run cstep_loc PushToParent app after_up]; rewrite ?loc_eqb_refl). reflexivity.
Qed.

Lemma fwd_centre : forall tau t par,
  centre_run (AtNode (tid t)) (fwd tau par t) = Some (after_up (tid t) par).
Proof.
  intros tau.
  apply (tree_ind' (fun t => forall par, centre_run (AtNode (tid t)) (fwd tau par t) = Some (after_up (tid t) par))).
  intros n ch HF par. cbn [tid]. rewrite fwd_eq, centre_run_app.
  assert (K : forall i, centre_run (AtNode n) (fwd_kids tau n i ch) = Some (AtNode n)).
  { induction HF as [|c l Hc HF IH]; intros i; [reflexivity|].
    cbn [fwd_kids PushToChild app].
    repeat (cbn [centre_run cstep_loc]; rewrite ?loc_eqb_refl).
    rewrite centre_run_app, (Hc (Some n)). cbn [after_up]. apply IH. }
  rewrite K. cbn [app centre_run cstep_loc]. rewrite loc_eqb_refl. apply centre_up_fwd.
Qed.

Lemma bwd_centre : forall tau t par,
  centre_run (AtNode (tid t)) (bwd tau par t) = Some (after_up (tid t) par).
Proof.
  intros tau.
  apply (tree_ind' (fun t => forall par, centre_run (AtNode (tid t)) (bwd tau par t) = Some (after_up (tid t) par))).
  intros n ch HF par. cbn [tid]. rewrite bwd_eq.
  cbn [app centre_run cstep_loc]. rewrite loc_eqb_refl. rewrite centre_run_app.
  assert (K : forall i, centre_run (AtNode n) (bwd_kids tau n i ch) = Some (AtNode n)).
  { induction HF as [|c l Hc HF IH]; intros i; [reflexivity|].
    cbn [bwd_kids]. rewrite centre_run_app, IH. unfold bwd_blk. cbn [app].
    repeat (cbn [centre_run cstep_loc]; rewrite ?loc_eqb_refl).
    rewrite (Hc (Some n)). reflexivity. }
  rewrite K. apply centre_up_bwd.
Qed.

Theorem ps_step_centre : forall h t, centre_run (AtNode (tid t)) (ps_step h t) = Some (AtNode (tid t)).
Proof.
  intros. unfold ps_step. rewrite centre_run_app, fwd_centre. cbn [after_up]. apply bwd_centre.
Qed.

(* ------------------------------------------------------------------ backward = time reverse of forward on the child-reversed tree *)
Lemma phys_app : forall a b, phys (a ++ b) = phys a ++ phys b.
Proof. intros. unfold phys. apply flat_map_app. Qed.

Lemma rev_flat_map_rev : forall (A B : Type) (f : A -> list B) l,
  rev (flat_map f (rev l)) = flat_map (fun x => rev (f x)) l.
Proof.
  intros A B f l. induction l as [|x l IH]; [reflexivity|].
  cbn [rev flat_map]. rewrite flat_map_app, rev_app_distr. cbn [flat_map]. rewrite app_nil_r, IH. reflexivity.
Qed.

Lemma flat_map_ext_in' : forall (A B : Type) (f g : A -> list B) l,
  (forall x, In x l -> f x = g x) -> flat_map f l = flat_map g l.
Proof.
  intros A B f g l H. induction l as [|x l IH]; [reflexivity|].
  cbn [flat_map]. rewrite H by (left; reflexivity). rewrite IH; [reflexivity|]. intros y Hy. apply H. right. exact Hy.
Qed.
Lemma rev_flat_map : forall (A B : Type) (f : A -> list B) l,
  rev (flat_map f l) = flat_map (fun x => rev (f x)) (rev l).
Proof.
  intros A B f l. induction l as [|x l IH]; [reflexivity|].
  cbn [flat_map rev]. rewrite rev_app_distr, IH, flat_map_app. cbn [flat_map]. rewrite app_nil_r. reflexivity.
Qed.
Lemma map_flat_map : forall (A B C : Type) (g : B -> C) (f : A -> list B) l,
  map g (flat_map f l) = flat_map (fun x => map g (f x)) l.
Proof. intros. induction l as [|x l IH]; [reflexivity|]. cbn [flat_map]. rewrite map_app, IH. reflexivity. Qed.
Lemma flat_map_map : forall (A B C : Type) (g : A -> B) (f : B -> list C) l,
  flat_map f (map g l) = flat_map (fun x => f (g x)) l.
Proof. intros. induction l as [|x l IH]; [reflexivity|]. cbn [map flat_map]. rewrite IH. reflexivity. Qed.

Definition pf_kid (tau : Z) (n : nat) (c : tree) : list pevent :=
  [PSplitDown n (tid c); PJoinDown n (tid c)] ++ phys (fwd tau (Some n) c).
Definition pb_kid (tau : Z) (n : nat) (c : tree) : list pevent :=
  [PSplitDown n (tid c); PE0 (tid c) (- tau); PJoinDown n (tid c)] ++ phys (bwd tau (Some n) c).

Lemma phys_fwd_kids : forall tau n l i, phys (fwd_kids tau n i l) = flat_map (pf_kid tau n) l.
Proof.
  intros tau n l. induction l as [|c l IH]; intros i; [reflexivity|].
  cbn [fwd_kids flat_map]. rewrite !phys_app, IH. reflexivity.
Qed.
Lemma phys_bwd_kids : forall tau n l i, phys (bwd_kids tau n i l) = flat_map (pb_kid tau n) (rev l).
Proof.
  intros tau n l. induction l as [|c l IH]; intros i; [reflexivity|].
  cbn [bwd_kids rev]. unfold bwd_blk. rewrite !phys_app, IH, flat_map_app. cbn [flat_map]. rewrite app_nil_r. reflexivity.
Qed.

(* since fix 036c1e3 the backward sweep is the exact time reverse of the forward sweep, on EVERY tree *)
Theorem ps_symmetric_all : forall tau t,
  phys (bwd tau None t) = map mirror (rev (phys (fwd tau None t))).
Proof.
  intros tau. apply tree_ind'. intros n ch HF.
  rewrite bwd_eq, fwd_eq. cbn [up_fwd up_bwd]. rewrite !app_nil_r.
  rewrite !phys_app, phys_fwd_kids, phys_bwd_kids.
  rewrite rev_app_distr. cbn [phys flat_map phys1 app rev map]. f_equal.
  rewrite rev_flat_map, map_flat_map.
  apply flat_map_ext_in'. intros c Hc'. apply in_rev in Hc'.
  rewrite Forall_forall in HF. pose proof (HF c Hc') as Hc.
  unfold pb_kid, pf_kid.
  rewrite fwd_par, bwd_par, !phys_app.
  cbn [up_fwd up_bwd PushToParent phys flat_map phys1 app].
  cbn [rev]. rewrite rev_app_distr. cbn [rev app]. cbn [map mirror]. rewrite !map_app. cbn [map mirror].
  rewrite <- Hc. rewrite <- !app_assoc. reflexivity.
Qed.

(* documentation of the defect repaired by 036c1e3: with the children visited in increasing index in BOTH sweeps
   (bwd_inc) the step was not time-symmetric on a branching tree *)
Lemma ps_old_order_not_symmetric_example :
  let t := Node 0 [Node 1 []; Node 2 []] in
  phys (bwd_inc 1 None t) <> map mirror (rev (phys (fwd 1 None t))).
Proof. cbv. discriminate. Qed.

(* ------------------------------------------------------------------ linear tree = chain *)
Lemma chain_app : forall n a b, flat_map (to_chain n) (a ++ b) = flat_map (to_chain n) a ++ flat_map (to_chain n) b.
Proof. intros. apply flat_map_app. Qed.

Definition cr (h : Z) (i : nat) : list cevent := [CE1 i h; CE0 i (- h)].
Definition cl (h : Z) (i : nat) : list cevent := CE1 i h :: (if (0 <? i)%nat then [CE0 (i - 1) (- h)] else []).

Lemma lin_fwd_chain : forall h N m k p, (k + m = N - 1)%nat ->
  flat_map (to_chain N) (fwd h (Some p) (lin k m)) = flat_map (cr h) (seq 0 (S m)).
Proof.
  intros h N m. induction m as [|m IH]; intros k p E.
  - cbn [lin]. rewrite fwd_eq. cbn [fwd_kids up_fwd app flat_map to_chain seq cr].
    replace (N - 1 - k)%nat with 0%nat by lia. reflexivity.
  - cbn [lin]. rewrite fwd_eq. cbn [fwd_kids PushToChild]. rewrite !chain_app.
    rewrite (IH (S k) k) by lia.
    cbn [up_fwd app flat_map to_chain]. rewrite (seq_S (S m) 0), flat_map_app. cbn [plus flat_map cr].
    replace (N - 1 - k)%nat with (S m) by lia. rewrite !app_nil_r. reflexivity.
Qed.

Lemma lin_bwd_chain : forall h N m k par, (k + m = N - 1)%nat ->
  flat_map (to_chain N) (bwd h par (lin k m)) = flat_map (cl h) (rev (seq 0 (S m))).
Proof.
  intros h N m. induction m as [|m IH]; intros k par E.
  - cbn [lin]. rewrite bwd_eq. cbn [bwd_kids]. rewrite !chain_app.
    assert (U : flat_map (to_chain N) (up_bwd k par) = []) by (destruct par; reflexivity).
    rewrite U. cbn [app flat_map to_chain seq rev cl Nat.ltb Nat.leb].
    replace (N - 1 - k)%nat with 0%nat by lia. reflexivity.
  - cbn [lin]. rewrite bwd_eq. cbn [bwd_kids]. unfold bwd_blk. rewrite !chain_app.
    assert (U : flat_map (to_chain N) (up_bwd k par) = []) by (destruct par; reflexivity).
    rewrite U, (IH (S k) (Some k)) by lia.
    rewrite (seq_S (S m) 0). rewrite rev_app_distr. cbn [plus rev app flat_map to_chain cl tid lin].
    replace (N - 1 - k)%nat with (S m) by lia.
    assert (T : tid (lin (S k) m) = S k) by (destruct m; reflexivity).
    rewrite T. replace (N - 1 - S k)%nat with m by lia.
    cbn [Nat.ltb Nat.leb]. replace (S m - 1)%nat with m by lia.
    rewrite !app_nil_r. reflexivity.
Qed.

Lemma flat_map_ext_seq : forall (B : Type) (f g : nat -> list B) a n,
  (forall i, (a <= i < a + n)%nat -> f i = g i) -> flat_map f (seq a n) = flat_map g (seq a n).
Proof.
  intros B f g a n. revert a. induction n as [|n IH]; intros a H; [reflexivity|].
  cbn [seq flat_map]. rewrite H by lia. rewrite IH; [reflexivity|]. intros i Hi. apply H. lia.
Qed.

Theorem linear_matches_chain : forall h n, (1 <= n)%nat ->
  flat_map (to_chain n) (ps_step h (linear n)) = chain_ps n 0 true h.
Proof.
  intros h n Hn. unfold ps_step, linear, chain_ps. rewrite chain_app. cbn [negb]. f_equal.
  - unfold chain_sweep. cbn [negb andb]. rewrite Nat.sub_0_r.
    destruct n as [|[|m]]; [lia| reflexivity |].
    replace (S (S m) - 1)%nat with (S m) by lia. cbn [lin]. rewrite fwd_eq.
    cbn [fwd_kids PushToChild]. rewrite !chain_app, (lin_fwd_chain h (S (S m)) m 1 0) by lia.
    cbn [up_fwd app flat_map to_chain]. rewrite app_nil_r.
    rewrite (seq_S (S m) 0), flat_map_app. cbn [plus flat_map]. rewrite !app_nil_r.
    replace (S (S m) - 1 - 0)%nat with (S m) by lia. rewrite Nat.eqb_refl. cbn [negb app].
    f_equal. apply flat_map_ext_seq. intros i Hi. unfold cr.
    destruct (Nat.eqb_spec i (S m)); [lia|]. reflexivity.
  - unfold chain_sweep. cbn [negb andb].
    rewrite (lin_bwd_chain h n (n - 1) 0 None) by lia.
    replace (S (n - 1)) with n by lia.
    assert (G : forall l, flat_map (cl h) l =
                flat_map (fun imps => CE1 imps h :: (if negb (imps =? 0)%nat then [CE0 (imps - 1) (- h)] else [])) l).
    { induction l as [|i l IH]; [reflexivity|]. cbn [flat_map]. rewrite IH. f_equal. unfold cl.
      destruct i; reflexivity. }
    rewrite G. reflexivity.
Qed.

(* ------------------------------------------------------------------ propagate-and-compress: 4th-order Taylor polynomial *)
Section TDRK4Proofs.
  Variables (K V : Type).
  Variables (kmul : K -> K -> K) (k1 : K).
  Variables (vadd : V -> V -> V) (v0 : V) (smul : K -> V -> V).
  Variable H : V -> V.
  Variable w : nat -> K.
  Hypothesis kmul_comm : forall a b, kmul a b = kmul b a.
  Hypothesis kmul_assoc : forall a b c, kmul a (kmul b c) = kmul (kmul a b) c.
  Hypothesis smul_smul : forall a b v, smul a (smul b v) = smul (kmul a b) v.
  Hypothesis smul_1 : forall v, smul k1 v = v.
  Hypothesis H_homog : forall a v, H (smul a v) = smul a (H v).

  Lemma iter_scaled : forall c tau i y,
    iterV V (fun v => smul tau (smul c (H v))) i y = smul (kpow K kmul k1 (kmul c tau) i) (iterV V H i y).
  Proof.
    intros c tau i y. induction i as [|i IH]; cbn [iterV kpow].
    - symmetry. apply smul_1.
    - rewrite IH, H_homog, !smul_smul. f_equal. rewrite (kmul_comm tau c). reflexivity.
  Qed.

  Theorem tdrk4_is_taylor4 : forall c tau y,
    tdrk4 K V kmul k1 vadd v0 smul H w c tau y = taylor4 K V vadd v0 smul H w c tau y.
  Proof.
    intros c tau y. unfold tdrk4, taylor4.
    cbn [termlist app last scaled seq map vsum fold_right].
    rewrite !iter_scaled, !smul_smul.
    rewrite !(kmul_comm (w _) (kpow K kmul k1 (kmul c tau) _)). reflexivity.
  Qed.
End TDRK4Proofs.

(* ------------------------------------------------------------------ norm conservation from the centre discipline *)
Section NormConserved.
  Variables (S N : Type).
  Variable nrm : S -> N.                 (* norm of the represented vector *)
  Variable act : event -> S -> S.        (* what an event does to the network *)
  (* contract: an event applied at the orthogonality centre keeps the norm -- the local propagators are
     unitary on the centre tensor / bond matrix (real time, Hermitian effective Hamiltonian), the gauge
     moves QR/absorb keep the represented vector, environment builds do not touch the state *)
  Hypothesis at_centre_isometric :
    forall l e l' s, cstep_loc l e = Some l' -> nrm (act e s) = nrm s.

  Definition apply_events (es : list event) (s : S) : S := fold_left (fun s e => act e s) es s.

  Lemma norm_along : forall es l l' s, centre_run l es = Some l' -> nrm (apply_events es s) = nrm s.
  Proof.
    induction es as [|e es IH]; intros l l' s R; [reflexivity|].
    cbn [centre_run] in R. destruct (cstep_loc l e) as [l1|] eqn:E; [|discriminate].
    cbn [apply_events fold_left]. fold (apply_events es (act e s)).
    rewrite (IH l1 l' _ R). eapply at_centre_isometric. exact E.
  Qed.

  Theorem ps_norm_conserved : forall h t s, nrm (apply_events (ps_step h t) s) = nrm s.
  Proof. intros. eapply norm_along. apply ps_step_centre. Qed.
End NormConserved.

(* ------------------------------------------------------------------ packaged statements used by Props/C12.v *)
Definition covered (l : list (nat * Z)) (objs : list nat) (s : Z) : Prop :=
  (forall n, In n objs -> exactly_once l n s) /\ (forall x, In x l -> In (fst x) objs /\ snd x = s).

Lemma covered_tag : forall s l objs, NoDup objs -> Permutation l objs -> covered (tag s l) objs s.
Proof.
  intros s l objs ND P. split.
  - intros n Hn. apply exactly_once_tag.
    + eapply Permutation_NoDup; [apply Permutation_sym; exact P|exact ND].
    + eapply Permutation_in; [apply Permutation_sym; exact P|exact Hn].
  - intros x Hx. unfold tag in Hx. apply in_map_iff in Hx. destruct Hx as [n [E Hn]]. subst x. cbn. split; [|reflexivity].
    eapply Permutation_in; [exact P|exact Hn].
Qed.

Theorem ps_forward_coverage_all : forall t h fuel,
  NoDup (ids t) -> (fuel_bound t <= fuel)%nat ->
  exists evs,
    ps_forward fuel h t = Some (mkS [] evs false)
    /\ evs = fwd h None t
    /\ ev1_of evs = tag h (postorder t)
    /\ ev0_of evs = tag (- h) (flat_map postorder (tch t))
    /\ covered (ev1_of evs) (ids t) h
    /\ covered (ev0_of evs) (edge_ids t) (- h)
    /\ centre_run (AtNode (tid t)) evs = Some (AtNode (tid t)).
Proof.
  intros t h fuel ND HF. exists (fwd h None t).
  pose proof (iters_le_bound t).
  split; [apply ps_forward_run; lia|]. split; [reflexivity|].
  rewrite fwd_ev1, fwd_ev0. split; [reflexivity|]. split; [reflexivity|].
  split; [apply covered_tag; [exact ND|apply postorder_perm]|].
  split; [apply covered_tag; [apply NoDup_edge_ids; exact ND|apply postorder_kids_perm]|].
  apply (fwd_centre h t None).
Qed.

Theorem ps_backward_coverage_all : forall t h fuel,
  NoDup (ids t) -> (fuel_bound t <= fuel)%nat ->
  exists evs,
    ps_backward fuel h t = Some (mkS [] evs false)
    /\ evs = bwd h None t
    /\ ev1_of evs = tag h (rev (postorder t))
    /\ ev0_of evs = tag (- h) (rev (flat_map postorder (tch t)))
    /\ covered (ev1_of evs) (ids t) h
    /\ covered (ev0_of evs) (edge_ids t) (- h)
    /\ centre_run (AtNode (tid t)) evs = Some (AtNode (tid t)).
Proof.
  intros t h fuel ND HF. exists (bwd h None t).
  pose proof (iters_le_bound t).
  split; [apply ps_backward_run; lia|]. split; [reflexivity|].
  rewrite bwd_ev1, bwd_ev0. split; [rewrite rev_postorder; reflexivity|]. split; [rewrite rev_postorder_kids; reflexivity|].
  split; [apply covered_tag; [exact ND|apply ids_rc_perm]|].
  split; [apply covered_tag; [apply NoDup_edge_ids; exact ND|apply edge_ids_rc_perm]|].
  apply (bwd_centre h t None).
Qed.

(* over the whole step every node is propagated forward for 2h = tau and every bond backward for tau *)
Theorem ps_step_times_all : forall t h, NoDup (ids t) ->
  (forall n, In n (ids t) -> time_at n (ev1_of (ps_step h t)) = 2 * h)
  /\ (forall c, In c (edge_ids t) -> time_at c (ev0_of (ps_step h t)) = - (2 * h))
  /\ (forall n, ~ In n (ids t) -> time_at n (ev1_of (ps_step h t)) = 0)
  /\ (forall c, ~ In c (edge_ids t) -> time_at c (ev0_of (ps_step h t)) = 0).
Proof.
  intros t h ND. unfold ps_step.
  pose proof (NoDup_edge_ids t ND) as NDE.
  assert (NDP : NoDup (postorder t)).
  { eapply Permutation_NoDup; [apply Permutation_sym, postorder_perm|exact ND]. }
  assert (NDK : NoDup (flat_map postorder (tch t))).
  { eapply Permutation_NoDup; [apply Permutation_sym, postorder_kids_perm|exact NDE]. }
  assert (NDR : NoDup (ids (rev_children t))).
  { eapply Permutation_NoDup; [apply Permutation_sym, ids_rc_perm|exact ND]. }
  assert (NDRE : NoDup (edge_ids (rev_children t))).
  { eapply Permutation_NoDup; [apply Permutation_sym, edge_ids_rc_perm|exact NDE]. }
  repeat split; intros x Hx; rewrite ?ev1_app, ?ev0_app, time_at_app,
    ?fwd_ev1, ?bwd_ev1, ?fwd_ev0, ?bwd_ev0.
  - rewrite !time_at_tag; try assumption; [lia| |].
    + eapply Permutation_in; [apply Permutation_sym, ids_rc_perm|exact Hx].
    + eapply Permutation_in; [apply Permutation_sym, postorder_perm|exact Hx].
  - rewrite !time_at_tag; try assumption; [lia| |].
    + eapply Permutation_in; [apply Permutation_sym, edge_ids_rc_perm|exact Hx].
    + eapply Permutation_in; [apply Permutation_sym, postorder_kids_perm|exact Hx].
  - rewrite !time_at_tag_notin; [lia| |].
    + intros F. apply Hx. eapply Permutation_in; [apply ids_rc_perm|exact F].
    + intros F. apply Hx. eapply Permutation_in; [apply postorder_perm|exact F].
  - rewrite !time_at_tag_notin; [lia| |].
    + intros F. apply Hx. eapply Permutation_in; [apply edge_ids_rc_perm|exact F].
    + intros F. apply Hx. eapply Permutation_in; [apply postorder_kids_perm|exact F].
Qed.

(* ------------------------------------------------------------------ two-site scheme *)
Definition tail1 (tau : Z) (isroot : bool) (n : nat) (kn : list nat) (len i : nat) : list event :=
  if isroot && (S i =? len)%nat then [] else Evolve1 n (- tau) :: upd_1site n kn.

Fixpoint fwd2_kids (tau : Z) (isroot : bool) (n : nat) (kn : list nat) (len i : nat) (l : list tree) : list event :=
  match l with
  | [] => []
  | c :: l' =>
    (match tch c with
     | [] => []
     | _ :: _ => PushToChild n i (tid c) ++ upd_1bond (tid c) n i ++ fwd2 tau false c
     end)
    ++ [Evolve2 (tid c) n tau; Split2 (tid c) n true] ++ upd_2site (tid c) (map tid (tch c)) n kn
    ++ tail1 tau isroot n kn len i
    ++ fwd2_kids tau isroot n kn len (S i) l'
  end.
Fixpoint bwd2_kids (tau : Z) (isroot : bool) (n : nat) (kn : list nat) (len i : nat) (l : list tree) : list event :=
  match l with
  | [] => []
  | c :: l' =>
    bwd2_kids tau isroot n kn len (S i) l' ++
    tail1 tau isroot n kn len i
    ++ [Evolve2 (tid c) n tau; Split2 (tid c) n (is_nil (tch c))] ++ upd_2site (tid c) (map tid (tch c)) n kn
    ++ (match tch c with
        | [] => []
        | _ :: _ => bwd2 tau false c ++ PushToParent (tid c) n ++ upd_1bond (tid c) n i
        end)
  end.

Lemma fwd2_eq : forall tau r n ch,
  fwd2 tau r (Node n ch) = fwd2_kids tau r n (map tid ch) (length ch) 0 ch.
Proof.
  intros. cbn [fwd2]. set (len := length ch). set (kn := map tid ch). clearbody len kn.
  generalize 0%nat. induction ch as [|c l IH]; intros i; [reflexivity|].
  cbn [fwd2_kids]. unfold tail1. rewrite <- IH. reflexivity.
Qed.
Lemma bwd2_eq : forall tau r n ch,
  bwd2 tau r (Node n ch) = bwd2_kids tau r n (map tid ch) (length ch) 0 ch.
Proof.
  intros. cbn [bwd2]. set (len := length ch). set (kn := map tid ch). clearbody len kn.
  generalize 0%nat. induction ch as [|c l IH]; intros i; [reflexivity|].
  cbn [bwd2_kids]. unfold tail1. rewrite <- IH. reflexivity.
Qed.

Lemma ev2_app : forall a b, ev2_of (a ++ b) = ev2_of a ++ ev2_of b.
Proof. intros. unfold ev2_of. apply flat_map_app. Qed.
Lemma ev2_envparents : forall p i k, ev2_of (envparents p i k) = [].
Proof. intros p i k. revert i. induction k as [|c k IH]; intros i; [reflexivity|]. cbn [envparents]. apply (IH (S i)). Qed.
Lemma ev2_upd2 : forall c kc p kp, ev2_of (upd_2site c kc p kp) = [].
Proof. intros. unfold upd_2site. rewrite !ev2_app, !ev2_envparents. reflexivity. Qed.
Lemma ev2_tail1 : forall tau r n kn len i, ev2_of (tail1 tau r n kn len i) = [].
Proof.
  intros. unfold tail1. destruct (r && (S i =? len)%nat); [reflexivity|].
  unfold upd_1site. cbn [ev2_of flat_map app]. apply ev2_envparents.
Qed.

(* every bond (named by its child end) gets exactly one two-site step per sweep: forward sweep in post-order *)
Lemma fwd2_ev2 : forall tau t r, ev2_of (fwd2 tau r t) = tag tau (flat_map postorder (tch t)).
Proof.
  intros tau. apply (tree_ind' (fun t => forall r, ev2_of (fwd2 tau r t) = tag tau (flat_map postorder (tch t)))).
  intros n ch HF r. rewrite fwd2_eq. cbn [tch].
  generalize (map tid ch) (length ch) 0%nat.
  induction HF as [|c l Hc HF IH]; intros kn len i; [reflexivity|].
  cbn [fwd2_kids flat_map]. rewrite !ev2_app, ev2_upd2, ev2_tail1, IH, tag_app.
  destruct c as [m chc]. cbn [tch tid postorder]. rewrite tag_app.
  change (tag tau [m]) with [(m, tau)]. rewrite <- app_assoc. cbn [ev2_of flat_map app].
  f_equal.
  destruct chc as [|d chc].
  - reflexivity.
  - rewrite !ev2_app. rewrite (Hc false). cbn [tch]. reflexivity.
Qed.

Lemma evolves_app : forall a b, evolves (a ++ b) = evolves a ++ evolves b.
Proof. intros. unfold evolves. apply filter_app. Qed.
Lemma evolves_envparents : forall p i k, evolves (envparents p i k) = [].
Proof. intros p i k. revert i. induction k as [|c k IH]; intros i; [reflexivity|]. cbn [envparents]. apply (IH (S i)). Qed.
Lemma evolves_upd2 : forall c kc p kp, evolves (upd_2site c kc p kp) = [].
Proof. intros. unfold upd_2site. rewrite !evolves_app, !evolves_envparents. reflexivity. Qed.
Definition etail1 (tau : Z) (r : bool) (n len i : nat) : list event :=
  if r && (S i =? len)%nat then [] else [Evolve1 n (- tau)].
Lemma evolves_tail1 : forall tau r n kn len i, evolves (tail1 tau r n kn len i) = etail1 tau r n len i.
Proof.
  intros. unfold tail1, etail1. destruct (r && (S i =? len)%nat); [reflexivity|].
  unfold upd_1site. cbn [evolves filter is_evolve]. f_equal. apply evolves_envparents.
Qed.
Lemma rev_etail1 : forall tau r n len i, rev (etail1 tau r n len i) = etail1 tau r n len i.
Proof. intros. unfold etail1. destruct (r && (S i =? len)%nat); reflexivity. Qed.

(* the two-site step IS time-symmetric on every tree: the backward recursion iterates `reversed(children)` *)
Theorem ps2_symmetric_all : forall tau t r, evolves (bwd2 tau r t) = rev (evolves (fwd2 tau r t)).
Proof.
  intros tau. apply (tree_ind' (fun t => forall r, evolves (bwd2 tau r t) = rev (evolves (fwd2 tau r t)))).
  intros n ch HF r. rewrite fwd2_eq, bwd2_eq.
  generalize (map tid ch) (length ch) 0%nat.
  induction HF as [|c l Hc HF IH]; intros kn len i; [reflexivity|].
  cbn [fwd2_kids bwd2_kids]. rewrite !evolves_app, !evolves_upd2, !evolves_tail1, IH.
  rewrite !rev_app_distr, rev_etail1. cbn [evolves filter is_evolve app rev].
  rewrite <- !app_assoc. f_equal. f_equal. cbn [app]. f_equal.
  destruct c as [m [|d chc]]; cbn [tch]; [reflexivity|].
  rewrite !evolves_app, (Hc false). cbn [evolves filter is_evolve PushToChild PushToParent upd_1bond app].
  rewrite app_nil_r. reflexivity.
Qed.

(* ------------------------------------------------------------------ environments are up to date: structure of id-labelled trees *)
Inductive subt : tree -> tree -> Prop :=
| subt_refl : forall t, subt t t
| subt_child : forall s n ch c, In c ch -> subt s c -> subt s (Node n ch).

Lemma subt_trans : forall a b c, subt a b -> subt b c -> subt a c.
Proof.
  intros a b c Hab Hbc. induction Hbc as [t|s n ch c' Hin Hs IH]; [exact Hab|].
  eapply subt_child; [exact Hin|]. apply IH. exact Hab.
Qed.

Lemma in_flat_map_ids : forall c ch x, In c ch -> In x (ids c) -> In x (flat_map ids ch).
Proof. intros. apply in_flat_map. exists c. split; assumption. Qed.

Lemma tid_in_ids : forall t, In (tid t) (ids t).
Proof. intros [n ch]. left. reflexivity. Qed.

Lemma subt_ids : forall s t, subt s t -> incl (ids s) (ids t).
Proof.
  intros s t H. induction H as [t|s n ch c Hin Hs IH]; [apply incl_refl|].
  intros x Hx. cbn [ids]. right. eapply in_flat_map_ids; [exact Hin|]. apply IH. exact Hx.
Qed.

Lemma in_ids_subt : forall t d, In d (ids t) -> exists s, subt s t /\ tid s = d.
Proof.
  apply (tree_ind' (fun t => forall d, In d (ids t) -> exists s, subt s t /\ tid s = d)).
  intros n ch HF d Hd. cbn [ids] in Hd. destruct Hd as [E|Hd].
  - exists (Node n ch). split; [apply subt_refl|exact E].
  - apply in_flat_map in Hd. destruct Hd as [c [Hc Hd]].
    rewrite Forall_forall in HF. destruct (HF c Hc d Hd) as [s [Hs E]].
    exists s. split; [eapply subt_child; eassumption|exact E].
Qed.

Fixpoint find_list (m : nat) (l : list tree) : option tree :=
  match l with
  | [] => None
  | c :: l' => match find_sub m c with Some r => Some r | None => find_list m l' end
  end.
Lemma find_sub_eq : forall m n ch,
  find_sub m (Node n ch) = if (m =? n)%nat then Some (Node n ch) else find_list m ch.
Proof.
  intros. cbn [find_sub]. destruct (m =? n)%nat; [reflexivity|].
  induction ch as [|c l IH]; [reflexivity|]. cbn [find_list]. rewrite <- IH. reflexivity.
Qed.

Lemma find_sub_notin : forall t m, ~ In m (ids t) -> find_sub m t = None.
Proof.
  apply (tree_ind' (fun t => forall m, ~ In m (ids t) -> find_sub m t = None)).
  intros n ch HF m H. rewrite find_sub_eq. cbn [ids] in H.
  destruct (Nat.eqb_spec m n) as [E|E]; [exfalso; apply H; left; symmetry; exact E|].
  assert (H' : ~ In m (flat_map ids ch)) by (intros F; apply H; right; exact F).
  clear H. induction HF as [|c l Hc HF IH]; [reflexivity|].
  cbn [find_list]. rewrite Hc.
  - apply IH. intros F. apply H'. cbn [flat_map]. apply in_or_app. right. exact F.
  - intros F. apply H'. cbn [flat_map]. apply in_or_app. left. exact F.
Qed.

Lemma NoDup_app_l : forall (A : Type) (a b : list A), NoDup (a ++ b) -> NoDup a.
Proof. intros A a b H. induction a as [|x a IH]; [constructor|]. inversion H; subst. constructor; [intros F; apply H2; apply in_or_app; left; exact F|apply IH; assumption]. Qed.
Lemma NoDup_app_r : forall (A : Type) (a b : list A), NoDup (a ++ b) -> NoDup b.
Proof. intros A a b H. induction a as [|x a IH]; [exact H|]. inversion H; subst. apply IH. assumption. Qed.
Lemma NoDup_app_disj : forall (A : Type) (a b : list A) x, NoDup (a ++ b) -> In x a -> In x b -> False.
Proof.
  intros A a b x H. induction a as [|y a IH]; intros Ha Hb; [destruct Ha|].
  inversion H; subst. destruct Ha as [E|Ha].
  - subst y. apply H2. apply in_or_app. right. exact Hb.
  - apply IH; assumption.
Qed.

Lemma NoDup_child : forall ch c, NoDup (flat_map ids ch) -> In c ch -> NoDup (ids c).
Proof.
  induction ch as [|c0 l IH]; intros c H Hin; [destruct Hin|].
  cbn [flat_map] in H. destruct Hin as [E|Hin].
  - subst c0. eapply NoDup_app_l. exact H.
  - apply IH; [eapply NoDup_app_r; exact H|exact Hin].
Qed.

(* two different positions of a child list have disjoint ids *)
Lemma NoDup_siblings : forall done c todo x,
  NoDup (flat_map ids (done ++ c :: todo)) -> In x (ids c) ->
  ~ In x (flat_map ids done) /\ ~ In x (flat_map ids todo).
Proof.
  intros done c todo x H Hx. rewrite flat_map_app in H. cbn [flat_map] in H. split; intros F.
  - eapply NoDup_app_disj; [exact H|exact F|]. apply in_or_app. left. exact Hx.
  - apply NoDup_app_r in H. eapply NoDup_app_disj; [exact H|exact Hx|exact F].
Qed.

Lemma subt_NoDup : forall s t, subt s t -> NoDup (ids t) -> NoDup (ids s).
Proof.
  intros s t H. induction H as [t|s n ch c Hin Hs IH]; intros ND; [exact ND|].
  apply IH. cbn [ids] in ND. inversion ND; subst. eapply NoDup_child; eassumption.
Qed.

Lemma find_list_in : forall ch c m s, NoDup (flat_map ids ch) -> In c ch -> In m (ids c) ->
  find_sub m c = Some s -> find_list m ch = Some s.
Proof.
  induction ch as [|c0 l IH]; intros c m s ND Hin Hm Hf; [destruct Hin|].
  cbn [find_list]. cbn [flat_map] in ND. destruct Hin as [E|Hin].
  - subst c0. rewrite Hf. reflexivity.
  - rewrite (find_sub_notin c0 m).
    + eapply IH; [eapply NoDup_app_r; exact ND|exact Hin|exact Hm|exact Hf].
    + intros F. eapply NoDup_app_disj; [exact ND|exact F|]. eapply in_flat_map_ids; eassumption.
Qed.

Lemma find_sub_subt : forall s t, subt s t -> NoDup (ids t) -> find_sub (tid s) t = Some s.
Proof.
  intros s t H. induction H as [[n ch]|s n ch c Hin Hs IH]; intros ND.
  - rewrite find_sub_eq. cbn [tid]. rewrite Nat.eqb_refl. reflexivity.
  - rewrite find_sub_eq. cbn [ids] in ND. inversion ND as [|x l Hn ND']; subst.
    assert (Hm : In (tid s) (ids c)) by (apply (subt_ids s c Hs), tid_in_ids).
    destruct (Nat.eqb_spec (tid s) n) as [E|E].
    + exfalso. apply Hn. rewrite <- E. eapply in_flat_map_ids; eassumption.
    + eapply find_list_in; [exact ND'|exact Hin|exact Hm|]. apply IH. eapply NoDup_child; eassumption.
Qed.

Lemma memn_in : forall x l, memn x l = true <-> In x l.
Proof.
  intros x l. unfold memn. rewrite existsb_exists. split.
  - intros [y [Hy E]]. apply Nat.eqb_eq in E. subst y. exact Hy.
  - intros H. exists x. split; [exact H|apply Nat.eqb_refl].
Qed.
Lemma memn_notin : forall x l, ~ In x l -> memn x l = false.
Proof. intros x l H. destruct (memn x l) eqn:E; [|reflexivity]. apply memn_in in E. contradiction. Qed.

Lemma child_edge : forall tp t T, subt tp T -> In t (tch tp) -> In (tid t) (edge_ids T).
Proof.
  intros tp t T H. induction H as [[n ch]|s n ch c Hin Hs IH]; intros Ht.
  - unfold edge_ids. cbn [tch] in *. eapply in_flat_map_ids; [exact Ht|apply tid_in_ids].
  - unfold edge_ids. cbn [tch]. eapply in_flat_map_ids; [exact Hin|].
    specialize (IH Ht). rewrite ids_edge. right. exact IH.
Qed.

Section Fresh.
Variable T : tree.
Hypothesis ND : NoDup (ids T).
Variable h : Z.

Lemma cone_subt : forall s, subt s T -> cone T (tid s) = ids s.
Proof. intros s H. unfold cone. rewrite (find_sub_subt s T H ND). reflexivity. Qed.
Lemma kids_subt : forall s, subt s T -> kids T (tid s) = map tid (tch s).
Proof. intros s H. unfold kids. rewrite (find_sub_subt s T H ND). reflexivity. Qed.
Lemma cone_inside : forall s d, subt s T -> In d (ids s) -> incl (cone T d) (ids s).
Proof.
  intros s d Hs Hd. destruct (in_ids_subt s d Hd) as [s' [Hs' E]]. subst d.
  rewrite (cone_subt s' (subt_trans _ _ _ Hs' Hs)). apply subt_ids. exact Hs'.
Qed.
Lemma self_in_cone : forall s, subt s T -> In (tid s) (cone T (tid s)).
Proof. intros s H. rewrite cone_subt by exact H. apply tid_in_ids. Qed.

(* position of t in T : root, or a child of the node with id p *)
Definition par_ok (par : option nat) (t : tree) : Prop :=
  match par with
  | None => t = T
  | Some p => exists tp, subt tp T /\ tid tp = p /\ In t (tch tp)
  end.

Lemma par_subt : forall par t, par_ok par t -> subt t T.
Proof.
  intros [p|] t H; cbn in H.
  - destruct H as [[n ch] [Hs [_ Hin]]]. cbn [tch] in Hin.
    eapply subt_trans; [|exact Hs]. eapply subt_child; [exact Hin|apply subt_refl].
  - subst t. apply subt_refl.
Qed.
Lemma par_child : forall n ch c, subt (Node n ch) T -> In c ch -> par_ok (Some n) c.
Proof. intros n ch c H Hin. exists (Node n ch). split; [exact H|]. split; [reflexivity|exact Hin]. Qed.
Lemma par_memn : forall p t, par_ok (Some p) t -> memn (tid t) (kids T p) = true.
Proof.
  intros p t [tp [Hs [E Hin]]]. subst p. rewrite kids_subt by exact Hs.
  apply memn_in. apply in_map. exact Hin.
Qed.
Lemma par_not_root : forall p t, par_ok (Some p) t -> (tid t =? tid T)%nat = false.
Proof.
  intros p t [tp [Hs [E Hin]]]. apply Nat.eqb_neq. intros F.
  pose proof (child_edge tp t T Hs Hin) as H1. rewrite ids_edge in ND. inversion ND; subst.
  rewrite F in H1. contradiction.
Qed.
Lemma par_notin : forall p t, par_ok (Some p) t -> ~ In p (ids t).
Proof.
  intros p t [tp [Hs [E Hin]]] F. subst p.
  pose proof (subt_NoDup tp T Hs ND) as N. destruct tp as [m chp]. cbn [ids tid tch] in *.
  inversion N; subst. apply H1. eapply in_flat_map_ids; eassumption.
Qed.

(* ---- frames: which validity flags a piece of trace can change *)
Definition Fr (X W : list nat) (s s' : cst) : Prop :=
  (forall a, ~ In a W -> (forall x, In x X -> ~ In x (cone T a)) -> c_ec s' a = c_ec s a)
  /\ (forall y, ~ In y W -> (forall x, In x X -> In x (cone T y)) -> c_ep s' y = c_ep s y).

Lemma Fr_refl : forall X W s, Fr X W s s.
Proof. intros. split; reflexivity. Qed.
Lemma Fr_trans : forall X W s1 s2 s3, Fr X W s1 s2 -> Fr X W s2 s3 -> Fr X W s1 s3.
Proof.
  intros X W s1 s2 s3 [A1 B1] [A2 B2]. split; intros a Ha Hx.
  - rewrite A2, A1 by assumption. reflexivity.
  - rewrite B2, B1 by assumption. reflexivity.
Qed.
Lemma Fr_mono : forall X W X' W' s s', incl X X' -> incl W W' -> Fr X W s s' -> Fr X' W' s s'.
Proof.
  intros X W X' W' s s' HX HW [A B]. split; intros a Ha Hx.
  - apply A; [intros F; apply Ha, HW, F|intros x Hi; apply Hx, HX, Hi].
  - apply B; [intros F; apply Ha, HW, F|intros x Hi; apply Hx, HX, Hi].
Qed.
Lemma Fr_touch : forall x l s, Fr [x] [] s (set_loc l (touch T x s)).
Proof.
  intros x l s. split; intros a _ Hx; cbn [set_loc touch c_ec c_ep].
  - rewrite memn_notin by (apply Hx; left; reflexivity). apply andb_true_r.
  - assert (M : memn x (cone T a) = true) by (apply memn_in, Hx; left; reflexivity).
    rewrite M. apply andb_true_r.
Qed.
Lemma upd_other : forall f k v x, x <> k -> upd f k v x = f x.
Proof. intros. unfold upd. destruct (Nat.eqb_spec x k); [contradiction|reflexivity]. Qed.
Lemma upd_same : forall f k v, upd f k v k = v.
Proof. intros. unfold upd. rewrite Nat.eqb_refl. reflexivity. Qed.
Lemma Fr_setec : forall c v s, Fr [] [c] s (mkC (c_loc s) (upd (c_ec s) c v) (c_ep s)).
Proof.
  intros. split; intros a Ha _; cbn [c_ec c_ep]; [|reflexivity].
  apply upd_other. intros F. apply Ha. left. symmetry. exact F.
Qed.
Lemma Fr_setep : forall c v s, Fr [] [c] s (mkC (c_loc s) (c_ec s) (upd (c_ep s) c v)).
Proof.
  intros. split; intros a Ha _; cbn [c_ec c_ep]; [reflexivity|].
  apply upd_other. intros F. apply Ha. left. symmetry. exact F.
Qed.

Lemma replay_app : forall a b s,
  replay T s (a ++ b) = match replay T s a with Some s1 => replay T s1 b | None => None end.
Proof.
  induction a as [|e a IH]; intros b s; [reflexivity|].
  cbn [app replay]. destruct (cstep T s e); [apply IH|reflexivity].
Qed.

(* ---- what holds on entering / leaving the sweep of the subtree t *)
Definition Pre (t : tree) (s : cst) : Prop :=
  c_loc s = AtNode (tid t) /\ ep_ok T s (tid t) = true /\ forall d, In d (edge_ids t) -> c_ec s d = true.
Definition Xof (par : option nat) (t : tree) : list nat :=
  ids t ++ match par with Some p => [p] | None => [] end.
Definition Post (par : option nat) (t : tree) (s s' : cst) : Prop :=
  c_loc s' = after_up (tid t) par
  /\ (forall d, In d (edge_ids t) -> c_ec s' d = true)
  /\ (par <> None -> c_ec s' (tid t) = true)
  /\ Fr (Xof par t) (ids t) s s'.
Definition Hoare (prog : option nat -> tree -> list event) (t : tree) : Prop :=
  forall par s, par_ok par t -> Pre t s ->
    exists s', replay T s (prog par t) = Some s' /\ Post par t s s'.

(* invariant of the loop over the children of Node n ch *)
Definition Inv (n : nat) (ch : list tree) (s : cst) : Prop :=
  c_loc s = AtNode n /\ ep_ok T s n = true /\ forall d, In d (flat_map ids ch) -> c_ec s d = true.

Lemma nth_mid : forall done (c : tree) todo d,
  nth (length done) (map tid (done ++ c :: todo)) d = tid c.
Proof. intros. rewrite map_app, app_nth2; rewrite map_length; [|lia]. rewrite Nat.sub_diag. reflexivity. Qed.

Lemma forallb_others : forall s c l, (forall k, In k l -> k <> c -> c_ec s k = true) -> forallb (c_ec s) (others c l) = true.
Proof.
  intros s c l H. apply forallb_forall. intros k Hk. unfold others in Hk. apply filter_In in Hk.
  destruct Hk as [H1 H2]. apply H; [exact H1|]. intros F. subst k. rewrite Nat.eqb_refl in H2. discriminate.
Qed.

Lemma in_kids_edge : forall ch k, In k (map tid ch) -> In k (flat_map ids ch).
Proof.
  intros ch k H. apply in_map_iff in H. destruct H as [c [E Hc]]. subst k.
  eapply in_flat_map_ids; [exact Hc|apply tid_in_ids].
Qed.

(* facts about one child position *)
Record pos_ok (n : nat) (done : list tree) (c : tree) (todo : list tree) : Prop := {
  po_sub : subt (Node n (done ++ c :: todo)) T;
}.

Lemma child_facts : forall n done c todo,
  subt (Node n (done ++ c :: todo)) T ->
  let ch := done ++ c :: todo in
  subt c T /\ par_ok (Some n) c /\ kids T n = map tid ch /\ cone T n = ids (Node n ch)
  /\ cone T (tid c) = ids c /\ ~ In n (flat_map ids ch) /\ NoDup (flat_map ids ch).
Proof.
  intros n done c todo H ch.
  assert (Hin : In c ch) by (apply in_or_app; right; left; reflexivity).
  pose proof (par_child n ch c H Hin) as P.
  pose proof (subt_NoDup _ _ H ND) as N. cbn [ids] in N. inversion N; subst.
  repeat split.
  - apply (par_subt _ _ P).
  - exact P.
  - apply (kids_subt _ H).
  - apply (cone_subt _ H).
  - apply cone_subt. apply (par_subt _ _ P).
  - assumption.
  - assumption.
Qed.

(* ec of a node d inside child subtree c survives touching x outside ids c *)
Lemma ec_touch_keep : forall c x d s l, subt c T -> In d (ids c) -> ~ In x (ids c) ->
  c_ec (set_loc l (touch T x s)) d = c_ec s d.
Proof.
  intros c x d s l Hc Hd Hx. cbn [set_loc touch c_ec].
  rewrite memn_notin; [apply andb_true_r|]. intros F. apply Hx. eapply cone_inside; eassumption.
Qed.
Lemma ep_touch_keep : forall x y s l, In x (cone T y) -> c_ep (set_loc l (touch T x s)) y = c_ep s y.
Proof.
  intros x y s l H. cbn [set_loc touch c_ep]. apply memn_in in H. rewrite H. apply andb_true_r.
Qed.
Lemma ep_ok_touch_keep : forall x y s l, In x (cone T y) -> ep_ok T (set_loc l (touch T x s)) y = ep_ok T s y.
Proof. intros. unfold ep_ok. rewrite ep_touch_keep by assumption. reflexivity. Qed.

Lemma cone_edge : forall t d, subt t T -> In d (edge_ids t) -> incl (cone T d) (edge_ids t).
Proof.
  intros [n ch] d Ht Hd. unfold edge_ids in *. cbn [tch] in *.
  apply in_flat_map in Hd. destruct Hd as [c [Hc Hd]].
  assert (Sc : subt c T) by (eapply subt_trans; [|exact Ht]; eapply subt_child; [exact Hc|apply subt_refl]).
  intros x Hx. eapply in_flat_map_ids; [exact Hc|]. eapply cone_inside; eassumption.
Qed.

(* ---- single steps of the checker *)
Lemma st_Evolve1 : forall s n t, c_loc s = AtNode n -> ep_ok T s n = true -> forallb (c_ec s) (kids T n) = true ->
  cstep T s (Evolve1 n t) = Some (set_loc (AtNode n) (touch T n s)).
Proof. intros s n t L E F. cbn [cstep]. rewrite L, loc_eqb_refl, E, F. cbn [andb]. unfold set_loc, touch. cbn. rewrite L. reflexivity. Qed.
Lemma st_Evolve0 : forall s c t, c_loc s = OnBond c -> c_ec s c = true -> c_ep s c = true ->
  cstep T s (Evolve0 c t) = Some s.
Proof. intros s c t L E F. cbn [cstep]. rewrite L, loc_eqb_refl, E, F. reflexivity. Qed.
Lemma st_QRUp : forall s c p, c_loc s = AtNode c -> memn c (kids T p) = true ->
  cstep T s (QRUp c p) = Some (set_loc (OnBond c) (touch T c s)).
Proof. intros s c p L M. cbn [cstep]. rewrite L, loc_eqb_refl, M. reflexivity. Qed.
Lemma st_AbsorbUp : forall s c p, c_loc s = OnBond c -> memn c (kids T p) = true ->
  cstep T s (AbsorbUp c p) = Some (set_loc (AtNode p) (touch T p s)).
Proof. intros s c p L M. cbn [cstep]. rewrite L, loc_eqb_refl, M. reflexivity. Qed.
Lemma st_QRDown : forall s p i c, c_loc s = AtNode p -> nth i (kids T p) (S c) = c -> (i < length (kids T p))%nat ->
  cstep T s (QRDown p i c) = Some (set_loc (OnBond c) (touch T p s)).
Proof.
  intros s p i c L N I. cbn [cstep]. rewrite L, loc_eqb_refl, N, Nat.eqb_refl.
  apply Nat.ltb_lt in I. rewrite I. reflexivity.
Qed.
Lemma st_AbsorbDown : forall s p i c, c_loc s = OnBond c -> nth i (kids T p) (S c) = c -> (i < length (kids T p))%nat ->
  cstep T s (AbsorbDown p i c) = Some (set_loc (AtNode c) (touch T c s)).
Proof.
  intros s p i c L N I. cbn [cstep]. rewrite L, loc_eqb_refl, N, Nat.eqb_refl.
  apply Nat.ltb_lt in I. rewrite I. reflexivity.
Qed.
Lemma st_EnvChild : forall s c, (c =? tid T)%nat = false ->
  cstep T s (EnvChild c) = Some (mkC (c_loc s) (upd (c_ec s) c (forallb (c_ec s) (kids T c))) (c_ep s)).
Proof. intros s c H. cbn [cstep]. rewrite H. reflexivity. Qed.
Lemma st_EnvParent : forall s p i c, nth i (kids T p) (S c) = c -> (i < length (kids T p))%nat ->
  cstep T s (EnvParent p i c) =
  Some (mkC (c_loc s) (c_ec s) (upd (c_ep s) c (ep_ok T s p && forallb (c_ec s) (others c (kids T p))))).
Proof.
  intros s p i c N I. cbn [cstep]. rewrite N, Nat.eqb_refl. apply Nat.ltb_lt in I. rewrite I. reflexivity.
Qed.

Lemma sibling_disj : forall done c todo c' x,
  NoDup (flat_map ids (done ++ c :: todo)) -> In c' (done ++ todo) -> In x (ids c') -> ~ In x (ids c).
Proof.
  intros done c todo c' x N Hc' Hx F. destruct (NoDup_siblings done c todo x N F) as [A B].
  apply in_app_or in Hc'. destruct Hc' as [H|H]; [apply A|apply B]; eapply in_flat_map_ids; eassumption.
Qed.

Lemma in_mid_cases : forall done (c : tree) todo d,
  In d (flat_map ids (done ++ c :: todo)) -> In d (ids c) \/ exists c', In c' (done ++ todo) /\ In d (ids c').
Proof.
  intros done c todo d H. apply in_flat_map in H. destruct H as [c' [Hc' Hd]].
  apply in_app_or in Hc'. destruct Hc' as [H|[H|H]].
  - right. exists c'. split; [apply in_or_app; left; exact H|exact Hd].
  - subst c'. left. exact Hd.
  - right. exists c'. split; [apply in_or_app; right; exact H|exact Hd].
Qed.

(* the state after the two touches and the rebuilt parent environment that precede the descent into child c
   (forward: push n -> c ; backward: QRDown n, ..., AbsorbDown c) *)
Lemma descend_facts : forall n done c todo s s2,
  let ch := done ++ c :: todo in
  subt (Node n ch) T -> Inv n ch s ->
  Fr [n; tid c] [tid c] s s2 -> c_loc s2 = AtNode (tid c) -> c_ep s2 (tid c) = true ->
  Pre c s2.
Proof.
  intros n done c todo s s2 ch Ht [L [E A]] F L2 E2.
  destruct (child_facts n done c todo Ht) as [Sc [Pc [Kn [Cn [Cc [Nn Nd]]]]]].
  split; [exact L2|]. split; [unfold ep_ok; rewrite E2; apply orb_true_r|].
  intros d Hd. destruct F as [FA _].
  assert (NDc : NoDup (ids c)) by (apply (subt_NoDup c T Sc ND)).
  rewrite FA.
  - apply A. eapply in_flat_map_ids; [apply in_or_app; right; left; reflexivity|]. rewrite ids_edge. right. exact Hd.
  - intros [X|[]]. rewrite ids_edge in NDc. inversion NDc as [|? ? Hn1 Hn2]. apply Hn1. rewrite X. exact Hd.
  - intros x [X|[X|[]]] Fx; subst x; apply (cone_edge c d Sc Hd) in Fx.
    + apply Nn. eapply in_flat_map_ids; [apply in_or_app; right; left; reflexivity|]. rewrite ids_edge. right. exact Fx.
    + rewrite ids_edge in NDc. inversion NDc as [|? ? Hn1 Hn2]. apply Hn1. exact Fx.
Qed.

(* after the sweep of child c returned to n: the loop invariant holds again *)
Lemma return_facts : forall n done c todo s s3 s4,
  let ch := done ++ c :: todo in
  subt (Node n ch) T -> Inv n ch s ->
  Fr [n; tid c] [tid c] s s3 -> Post (Some n) c s3 s4 ->
  Inv n ch s4 /\ Fr (ids (Node n ch)) (ids (Node n ch)) s s4.
Proof.
  intros n done c todo s s3 s4 ch Ht [L [E A]] F [L4 [PA [PB PF]]].
  destruct (child_facts n done c todo Ht) as [Sc [Pc [Kn [Cn [Cc [Nn Nd]]]]]].
  assert (Hcin : In c ch) by (apply in_or_app; right; left; reflexivity).
  assert (Ic : incl (ids c) (flat_map ids ch)) by (intros x Hx; eapply in_flat_map_ids; eassumption).
  assert (Ntc : ~ In n (ids c)) by (intros X; apply Nn, Ic, X).
  assert (FT : Fr (ids (Node n ch)) (ids (Node n ch)) s s4).
  { eapply Fr_trans.
    - eapply Fr_mono; [| |exact F].
      + intros x [X|[X|[]]]; subst x; cbn [ids]; [left; reflexivity|right; apply Ic, tid_in_ids].
      + intros x [X|[]]; subst x. cbn [ids]. right. apply Ic, tid_in_ids.
    - eapply Fr_mono; [| |exact PF].
      + unfold Xof. intros x Hx. apply in_app_or in Hx. cbn [ids]. destruct Hx as [Hx|[X|[]]]; [right; apply Ic, Hx|left; exact X].
      + intros x Hx. cbn [ids]. right. apply Ic, Hx. }
  split; [|exact FT].
  split; [exact L4|]. split.
  - (* ep n *)
    unfold ep_ok in *. destruct F as [_ FB]. destruct PF as [_ PFB].
    rewrite PFB, FB; [exact E| | | |].
    + intros [X|[]]. apply Ntc. rewrite <- X. apply tid_in_ids.
    + intros x [X|[X|[]]]; subst x; rewrite Cn; cbn [ids]; [left; reflexivity|right; apply Ic, tid_in_ids].
    + exact Ntc.
    + unfold Xof. intros x Hx. rewrite Cn. cbn [ids]. apply in_app_or in Hx.
      destruct Hx as [Hx|[X|[]]]; [right; apply Ic, Hx|left; exact X].
  - intros d Hd. destruct (in_mid_cases done c todo d Hd) as [Hc|[c' [Hc' Hdc']]].
    + rewrite ids_edge in Hc. destruct Hc as [X|Hc]; [subst d; apply PB; discriminate|apply PA, Hc].
    + assert (Sc' : subt c' T).
      { eapply subt_trans; [|exact Ht]. eapply subt_child; [|apply subt_refl].
        apply in_app_or in Hc'. apply in_or_app. destruct Hc' as [H1|H1]; [left; exact H1|right; right; exact H1]. }
      assert (Ic' : incl (ids c') (flat_map ids ch)).
      { intros x Hx. eapply in_flat_map_ids; [|exact Hx].
        apply in_app_or in Hc'. apply in_or_app. destruct Hc' as [H1|H1]; [left; exact H1|right; right; exact H1]. }
      assert (Dj : forall x, In x (cone T d) -> ~ In x (ids c) /\ x <> n).
      { intros x Hx. apply (cone_inside c' d Sc' Hdc') in Hx. split.
        - eapply sibling_disj; eassumption.
        - intros X. subst x. apply Nn, Ic', Hx. }
      destruct F as [FA _]. destruct PF as [PFA _].
      rewrite PFA, FA; [apply A, Hd| | | |].
      * intros [X|[]]. subst d. eapply sibling_disj; [exact Nd|exact Hc'|exact Hdc'|apply tid_in_ids].
      * intros x [X|[X|[]]] Fx; subst x; destruct (Dj _ Fx) as [D1 D2]; [apply D2; reflexivity|apply D1, tid_in_ids].
      * eapply sibling_disj; eassumption.
      * unfold Xof. intros x Hx Fx. destruct (Dj _ Fx) as [D1 D2]. apply in_app_or in Hx.
        destruct Hx as [Hx|[X|[]]]; [apply D1, Hx|apply D2; symmetry; exact X].
Qed.

(* the value stored by build_parent_environ_node(n, i) is valid when only n (and c) changed since the invariant held *)
Lemma envparent_true : forall n done c todo s sx,
  let ch := done ++ c :: todo in
  subt (Node n ch) T -> Inv n ch s -> Fr [n; tid c] [] s sx ->
  ep_ok T sx n && forallb (c_ec sx) (others (tid c) (kids T n)) = true.
Proof.
  intros n done c todo s sx ch Ht [L [E A]] [FA FB].
  destruct (child_facts n done c todo Ht) as [Sc [Pc [Kn [Cn [Cc [Nn Nd]]]]]].
  assert (Hcin : In c ch) by (apply in_or_app; right; left; reflexivity).
  apply andb_true_intro. split.
  - unfold ep_ok in *. rewrite FB; [exact E|intros []|].
    intros x [X|[X|[]]]; subst x; rewrite Cn; cbn [ids]; [left; reflexivity|right].
    eapply in_flat_map_ids; [exact Hcin|apply tid_in_ids].
  - apply forallb_others. rewrite Kn. intros k Hk Hne.
    apply in_map_iff in Hk. destruct Hk as [c' [E' Hc']]. subst k.
    assert (Hc'' : In c' (done ++ todo)).
    { apply in_app_or in Hc'. apply in_or_app. destruct Hc' as [H1|[H1|H1]]; [left; exact H1| |right; exact H1].
      subst c'. contradiction. }
    assert (Sc' : subt c' T).
    { eapply subt_trans; [|exact Ht]. eapply subt_child; [exact Hc'|apply subt_refl]. }
    rewrite FA; [apply A; eapply in_flat_map_ids; [exact Hc'|apply tid_in_ids]|intros []|].
    intros x [X|[X|[]]] Fx; subst x; apply (cone_inside c' (tid c') Sc' (tid_in_ids c')) in Fx.
    + apply Nn. eapply in_flat_map_ids; eassumption.
    + eapply sibling_disj; [exact Nd|exact Hc''|exact Fx|apply tid_in_ids].
Qed.

Lemma index_facts : forall n done c todo,
  subt (Node n (done ++ c :: todo)) T ->
  nth (length done) (kids T n) (S (tid c)) = tid c /\ (length done < length (kids T n))%nat.
Proof.
  intros n done c todo Ht. pose proof (kids_subt _ Ht) as K. cbn [tid tch] in K. rewrite K. split; [apply nth_mid|].
  rewrite map_length, app_length. cbn [length]. lia.
Qed.

Lemma fwd_block : forall n done c todo s,
  let ch := done ++ c :: todo in
  subt (Node n ch) T -> Inv n ch s -> Hoare (fwd h) c ->
  exists s4, replay T s (PushToChild n (length done) (tid c) ++ [EnvParent n (length done) (tid c)]
                         ++ fwd h (Some n) c) = Some s4
             /\ Inv n ch s4 /\ Fr (ids (Node n ch)) (ids (Node n ch)) s s4.
Proof.
  intros n done c todo s ch Ht I HC.
  destruct (index_facts n done c todo Ht) as [Nth Len].
  destruct (child_facts n done c todo Ht) as [Sc [Pc [Kn [Cn [Cc [Nn Nd]]]]]].
  pose proof I as [L [E A]].
  set (s1 := set_loc (OnBond (tid c)) (touch T n s)).
  set (s2 := set_loc (AtNode (tid c)) (touch T (tid c) s1)).
  assert (F2 : Fr [n; tid c] [] s s2).
  { eapply Fr_trans; [eapply Fr_mono; [| |apply (Fr_touch n (OnBond (tid c)) s)]|
                      eapply Fr_mono; [| |apply (Fr_touch (tid c) (AtNode (tid c)) s1)]];
    try (intros x [X|[]]; subst x; cbn; tauto); apply incl_refl. }
  pose proof (envparent_true n done c todo s s2 Ht I F2) as V.
  set (s3 := mkC (c_loc s2) (c_ec s2) (upd (c_ep s2) (tid c) true)).
  assert (F3 : Fr [n; tid c] [tid c] s s3).
  { eapply Fr_trans; [eapply Fr_mono; [| |exact F2]|eapply Fr_mono; [| |apply (Fr_setep (tid c) true s2)]];
    try apply incl_refl; intros x []. }
  assert (P3 : Pre c s3).
  { eapply (descend_facts n done c todo s s3 Ht I F3); [reflexivity|]. unfold s3. cbn [c_ep]. apply upd_same. }
  destruct (HC (Some n) s3 Pc P3) as [s4 [R4 Po]].
  exists s4. split.
  - cbn [PushToChild app replay].
    rewrite (st_QRDown s n (length done) (tid c) L Nth Len). fold s1.
    rewrite (st_AbsorbDown s1 n (length done) (tid c) eq_refl Nth Len). fold s2.
    rewrite (st_EnvParent s2 n (length done) (tid c) Nth Len). rewrite V. fold s3. exact R4.
  - apply (return_facts n done c todo s s3 s4 Ht I F3 Po).
Qed.

Lemma bwd_block : forall n done c todo s,
  let ch := done ++ c :: todo in
  subt (Node n ch) T -> Inv n ch s -> Hoare (bwd h) c ->
  exists s4, replay T s ([QRDown n (length done) (tid c); EnvParent n (length done) (tid c);
                          Evolve0 (tid c) (- h); AbsorbDown n (length done) (tid c)]
                         ++ bwd h (Some n) c) = Some s4
             /\ Inv n ch s4 /\ Fr (ids (Node n ch)) (ids (Node n ch)) s s4.
Proof.
  intros n done c todo s ch Ht I HC.
  destruct (index_facts n done c todo Ht) as [Nth Len].
  destruct (child_facts n done c todo Ht) as [Sc [Pc [Kn [Cn [Cc [Nn Nd]]]]]].
  assert (Hcin : In c ch) by (apply in_or_app; right; left; reflexivity).
  pose proof I as [L [E A]].
  set (s1 := set_loc (OnBond (tid c)) (touch T n s)).
  assert (F1' : Fr [n] [] s s1) by apply Fr_touch.
  assert (F1 : Fr [n; tid c] [] s s1).
  { eapply Fr_mono; [| |exact F1']; [|apply incl_refl]. intros x [X|[]]; subst x; left; reflexivity. }
  pose proof (envparent_true n done c todo s s1 Ht I F1) as V.
  set (s2 := mkC (c_loc s1) (c_ec s1) (upd (c_ep s1) (tid c) true)).
  set (s3 := set_loc (AtNode (tid c)) (touch T (tid c) s2)).
  assert (F3 : Fr [n; tid c] [tid c] s s3).
  { apply (Fr_trans _ _ s s1 s3).
    - eapply Fr_mono; [apply incl_refl| |exact F1]. intros x [].
    - apply (Fr_trans _ _ s1 s2 s3).
      + eapply Fr_mono; [| |apply (Fr_setep (tid c) true s1)]; [intros x []|apply incl_refl].
      + eapply Fr_mono; [| |apply (Fr_touch (tid c) (AtNode (tid c)) s2)]; [|intros x []].
        intros x [X|[]]; subst x; right; left; reflexivity. }
  assert (EC1 : c_ec s2 (tid c) = true).
  { unfold s2. cbn [c_ec]. destruct F1' as [FA _]. rewrite FA; [|intros []|].
    - apply A. eapply in_flat_map_ids; [exact Hcin|apply tid_in_ids].
    - intros x [X|[]] Fx; subst x. rewrite Cc in Fx. apply Nn. eapply in_flat_map_ids; eassumption. }
  assert (P3 : Pre c s3).
  { eapply (descend_facts n done c todo s s3 Ht I F3); [reflexivity|].
    unfold s3. rewrite ep_touch_keep; [unfold s2; cbn [c_ep]; apply upd_same|]. rewrite Cc. apply tid_in_ids. }
  destruct (HC (Some n) s3 Pc P3) as [s4 [R4 Po]].
  exists s4. split.
  - cbn [app replay].
    rewrite (st_QRDown s n (length done) (tid c) L Nth Len). fold s1.
    rewrite (st_EnvParent s1 n (length done) (tid c) Nth Len). rewrite V. fold s2.
    rewrite (st_Evolve0 s2 (tid c) (- h) eq_refl EC1); [|unfold s2; cbn [c_ep]; apply upd_same].
    rewrite (st_AbsorbDown s2 n (length done) (tid c) eq_refl Nth Len). fold s3. exact R4.
  - apply (return_facts n done c todo s s3 s4 Ht I F3 Po).
Qed.

Lemma fwd_loop_fresh : forall n todo, Forall (Hoare (fwd h)) todo ->
  forall done s, subt (Node n (done ++ todo)) T -> Inv n (done ++ todo) s ->
  exists s', replay T s (fwd_kids h n (length done) todo) = Some s'
             /\ Inv n (done ++ todo) s'
             /\ Fr (ids (Node n (done ++ todo))) (ids (Node n (done ++ todo))) s s'.
Proof.
  intros n todo HF. induction HF as [|c todo Hc HF IH]; intros done s Ht I.
  - exists s. split; [reflexivity|]. split; [exact I|apply Fr_refl].
  - destruct (fwd_block n done c todo s Ht I Hc) as [s4 [R4 [I4 F4]]].
    assert (E : (done ++ [c]) ++ todo = done ++ c :: todo) by (rewrite <- app_assoc; reflexivity).
    specialize (IH (done ++ [c])). rewrite E in IH. rewrite app_length in IH. cbn [length] in IH.
    replace (length done + 1)%nat with (S (length done)) in IH by lia.
    destruct (IH s4 Ht I4) as [s' [R' [I' F']]].
    exists s'. split; [|split; [exact I'|eapply Fr_trans; eassumption]].
    cbn [fwd_kids]. rewrite !app_assoc. rewrite replay_app.
    rewrite <- !app_assoc. rewrite R4. exact R'.
Qed.

Lemma bwd_loop_fresh : forall n pre, Forall (Hoare (bwd h)) pre ->
  forall post s, subt (Node n (pre ++ post)) T -> Inv n (pre ++ post) s ->
  exists s', replay T s (bwd_kids h n 0 pre) = Some s'
             /\ Inv n (pre ++ post) s'
             /\ Fr (ids (Node n (pre ++ post))) (ids (Node n (pre ++ post))) s s'.
Proof.
  intros n pre. induction pre as [|c pre IH] using rev_ind; intros HF post s Ht I.
  - exists s. split; [reflexivity|]. split; [exact I|apply Fr_refl].
  - apply Forall_app in HF. destruct HF as [HF Hc]. inversion Hc as [|? ? Hc' _]; subst.
    rewrite <- app_assoc in *. cbn [app] in *.
    destruct (bwd_block n pre c post s Ht I Hc') as [s4 [R4 [I4 F4]]].
    destruct (IH HF (c :: post) s4 Ht I4) as [s' [R' [I' F']]].
    exists s'. split; [|split; [exact I'|eapply Fr_trans; eassumption]].
    rewrite bwd_kids_snoc. cbn [plus]. unfold bwd_blk. rewrite replay_app.
    rewrite R4. exact R'.
Qed.

(* touching n or the parent p keeps the environments of the proper descendants of t valid *)
Lemma desc_keep : forall par n ch s s' X,
  subt (Node n ch) T -> par_ok par (Node n ch) ->
  Fr X [n] s s' -> incl X (n :: match par with Some p => [p] | None => [] end) ->
  forall d, In d (flat_map ids ch) -> c_ec s d = true -> c_ec s' d = true.
Proof.
  intros par n ch s s' X Ht Pk [FA _] HX d Hd Hv.
  pose proof (subt_NoDup _ _ Ht ND) as N. cbn [ids] in N. inversion N as [|? ? Nn Nd]; subst.
  rewrite FA; [exact Hv| |].
  - intros [E|[]]. subst d. contradiction.
  - intros x Hx Fx. apply (cone_edge (Node n ch) d Ht Hd) in Fx. unfold edge_ids in Fx. cbn [tch] in Fx.
    apply HX in Hx. destruct Hx as [E|Hx]; [subst x; contradiction|].
    destruct par as [p|]; [|destruct Hx]. destruct Hx as [E|[]]. subst x.
    apply (par_notin p _ Pk). cbn [ids]. right. exact Fx.
Qed.

Lemma fwd_fresh : forall t, Hoare (fwd h) t.
Proof.
  apply tree_ind'. intros n ch HF par s Pk [L [E A]].
  pose proof (par_subt _ _ Pk) as Ht.
  assert (I : Inv n ([] ++ ch) s) by (split; [exact L|split; [exact E|exact A]]).
  destruct (fwd_loop_fresh n ch HF [] s Ht I) as [s1 [R1 [[L1 [E1 A1]] F1]]]. cbn [app length] in *.
  pose proof (kids_subt _ Ht) as Kn. pose proof (cone_subt _ Ht) as Cn. cbn [tid tch] in Kn, Cn.
  assert (K1 : forallb (c_ec s1) (kids T n) = true).
  { rewrite Kn. apply forallb_forall. intros k Hk. apply A1, in_kids_edge, Hk. }
  set (s2 := set_loc (AtNode n) (touch T n s1)).
  assert (F2 : Fr [n] [n] s1 s2).
  { eapply Fr_mono; [apply incl_refl| |apply Fr_touch]. intros x []. }
  rewrite fwd_eq. rewrite replay_app, R1. cbn [app replay].
  rewrite (st_Evolve1 s1 n h L1 E1 K1). fold s2.
  destruct par as [p|]; cbn [up_fwd].
  - pose proof (par_memn p _ Pk) as Mp. pose proof (par_not_root p _ Pk) as Nr. cbn [tid] in Mp, Nr.
    set (s3 := set_loc (OnBond n) (touch T n s2)).
    set (s4 := mkC (c_loc s3) (upd (c_ec s3) n true) (c_ep s3)).
    set (s6 := set_loc (AtNode p) (touch T p s4)).
    assert (F3 : Fr [n] [n] s1 s3).
    { eapply Fr_trans; [exact F2|]. eapply Fr_mono; [apply incl_refl| |apply Fr_touch]. intros x []. }
    assert (F4 : Fr [n] [n] s1 s4).
    { eapply Fr_trans; [exact F3|]. eapply Fr_mono; [| |apply (Fr_setec n true s3)]; [intros x []|apply incl_refl]. }
    assert (F6 : Fr [n; p] [n] s1 s6).
    { eapply Fr_trans; [eapply Fr_mono; [| |exact F4]; [|apply incl_refl]|].
      - intros x [X|[]]; subst x; left; reflexivity.
      - eapply Fr_mono; [| |apply Fr_touch]; [|intros x []]. intros x [X|[]]; subst x; right; left; reflexivity. }
    assert (K3 : forallb (c_ec s3) (kids T n) = true).
    { rewrite Kn. apply forallb_forall. intros k Hk.
      eapply (desc_keep (Some p) n ch s1 s3 [n] Ht Pk F3); [|apply in_kids_edge, Hk|apply A1, in_kids_edge, Hk].
      intros x [X|[]]; subst x; left; reflexivity. }
    assert (Ep : c_ep s4 n = true).
    { unfold s4, s3, s2. cbn [c_ep]. rewrite !ep_touch_keep by (rewrite Cn; left; reflexivity).
      unfold ep_ok in E1. rewrite Nr in E1. exact E1. }
    cbn [replay]. rewrite (st_QRUp s2 n p eq_refl Mp). fold s3.
    rewrite (st_EnvChild s3 n Nr), K3. fold s4.
    rewrite (st_Evolve0 s4 n (- h) eq_refl); [|unfold s4; cbn [c_ec]; apply upd_same|exact Ep].
    rewrite (st_AbsorbUp s4 n p eq_refl Mp). fold s6.
    exists s6. split; [reflexivity|]. split; [reflexivity|]. split; [|split].
    + intros d Hd. unfold edge_ids in Hd. cbn [tch] in Hd.
      eapply (desc_keep (Some p) n ch s1 s6 [n; p] Ht Pk F6); [apply incl_refl|exact Hd|apply A1, Hd].
    + intros _. cbn [tid]. unfold s6. cbn [set_loc touch c_ec]. unfold s4 at 1. cbn [c_ec]. rewrite upd_same.
      rewrite memn_notin; [reflexivity|]. rewrite Cn. apply (par_notin p _ Pk).
    + eapply Fr_trans; [eapply Fr_mono; [| |exact F1]|eapply Fr_mono; [| |exact F6]].
      * unfold Xof. apply incl_appl, incl_refl.
      * apply incl_refl.
      * unfold Xof. cbn [ids]. intros x [X|[X|[]]]; subst x; [left; reflexivity|apply in_or_app; right; left; reflexivity].
      * cbn [ids]. intros x [X|[]]; subst x; left; reflexivity.
  - exists s2. split; [reflexivity|]. split; [reflexivity|]. split; [|split].
    + intros d Hd. unfold edge_ids in Hd. cbn [tch] in Hd.
      eapply (desc_keep None n ch s1 s2 [n] Ht Pk F2); [apply incl_refl|exact Hd|apply A1, Hd].
    + intros F. contradiction.
    + eapply Fr_trans; [eapply Fr_mono; [| |exact F1]|eapply Fr_mono; [| |exact F2]].
      * unfold Xof. apply incl_appl, incl_refl.
      * apply incl_refl.
      * unfold Xof. cbn [ids]. intros x [X|[]]; subst x; left; reflexivity.
      * cbn [ids]. intros x [X|[]]; subst x; left; reflexivity.
Qed.

Lemma bwd_fresh : forall t, Hoare (bwd h) t.
Proof.
  apply tree_ind'. intros n ch HF par s Pk [L [E A]].
  pose proof (par_subt _ _ Pk) as Ht.
  pose proof (kids_subt _ Ht) as Kn. pose proof (cone_subt _ Ht) as Cn. cbn [tid tch] in Kn, Cn, L, E.
  unfold edge_ids in A. cbn [tch] in A.
  assert (K0 : forallb (c_ec s) (kids T n) = true).
  { rewrite Kn. apply forallb_forall. intros k Hk. apply A, in_kids_edge, Hk. }
  set (s1 := set_loc (AtNode n) (touch T n s)).
  assert (F1 : Fr [n] [n] s s1).
  { eapply Fr_mono; [apply incl_refl| |apply Fr_touch]. intros x []. }
  assert (I1 : Inv n ch s1).
  { split; [reflexivity|]. split.
    - unfold s1. rewrite ep_ok_touch_keep; [exact E|]. rewrite Cn. left. reflexivity.
    - intros d Hd. eapply (desc_keep par n ch s s1 [n] Ht Pk F1); [|exact Hd|apply A, Hd].
      intros x [X|[]]; subst x; left; reflexivity. }
  rewrite <- (app_nil_r ch) in Ht, I1.
  destruct (bwd_loop_fresh n ch HF [] s1 Ht I1) as [s2 [R2 [[L2 [E2 A2]] F2]]]. rewrite app_nil_r in *.
  rewrite bwd_eq. cbn [app replay]. rewrite (st_Evolve1 s n h L E K0). fold s1.
  rewrite replay_app, R2.
  assert (F12 : Fr (ids (Node n ch)) (ids (Node n ch)) s s2).
  { eapply Fr_trans; [eapply Fr_mono; [| |exact F1]|exact F2]; cbn [ids]; intros x [X|[]]; subst x; left; reflexivity. }
  destruct par as [p|]; cbn [up_bwd].
  - pose proof (par_memn p _ Pk) as Mp. pose proof (par_not_root p _ Pk) as Nr. cbn [tid] in Mp, Nr.
    set (s3 := set_loc (OnBond n) (touch T n s2)).
    set (s4 := set_loc (AtNode p) (touch T p s3)).
    set (s5 := mkC (c_loc s4) (upd (c_ec s4) n true) (c_ep s4)).
    assert (F4 : Fr [n; p] [n] s2 s4).
    { apply (Fr_trans _ _ s2 s3 s4).
      - eapply Fr_mono; [| |apply (Fr_touch n (OnBond n) s2)]; [|intros x []].
        intros x [X|[]]; subst x; left; reflexivity.
      - eapply Fr_mono; [| |apply (Fr_touch p (AtNode p) s3)]; [|intros x []].
        intros x [X|[]]; subst x; right; left; reflexivity. }
    assert (F5 : Fr [n; p] [n] s2 s5).
    { eapply Fr_trans; [exact F4|]. eapply Fr_mono; [| |apply (Fr_setec n true s4)]; [intros x []|apply incl_refl]. }
    assert (K4 : forallb (c_ec s4) (kids T n) = true).
    { rewrite Kn. apply forallb_forall. intros k Hk.
      eapply (desc_keep (Some p) n ch s2 s4 [n; p] Ht Pk F4); [apply incl_refl|apply in_kids_edge, Hk|apply A2, in_kids_edge, Hk]. }
    cbn [PushToParent app replay].
    rewrite (st_QRUp s2 n p L2 Mp). fold s3.
    rewrite (st_AbsorbUp s3 n p eq_refl Mp). fold s4.
    rewrite (st_EnvChild s4 n Nr), K4. fold s5.
    exists s5. split; [reflexivity|]. split; [reflexivity|]. split; [|split].
    + intros d Hd. unfold edge_ids in Hd. cbn [tch] in Hd.
      eapply (desc_keep (Some p) n ch s2 s5 [n; p] Ht Pk F5); [apply incl_refl|exact Hd|apply A2, Hd].
    + intros _. cbn [tid]. unfold s5. cbn [c_ec]. apply upd_same.
    + eapply Fr_trans; [eapply Fr_mono; [| |exact F12]|eapply Fr_mono; [| |exact F5]].
      * unfold Xof. apply incl_appl, incl_refl.
      * apply incl_refl.
      * unfold Xof. cbn [ids]. intros x [X|[X|[]]]; subst x; [left; reflexivity|apply in_or_app; right; left; reflexivity].
      * cbn [ids]. intros x [X|[]]; subst x; left; reflexivity.
  - exists s2. split; [reflexivity|]. split; [exact L2|]. split; [|split].
    + intros d Hd. unfold edge_ids in Hd. cbn [tch] in Hd. apply A2, Hd.
    + intros F. contradiction.
    + unfold Xof. rewrite app_nil_r. exact F12.
Qed.

Theorem replay_ps_step : exists s', replay T (cinit T) (ps_step h T) = Some s' /\ c_loc s' = AtNode (tid T).
Proof.
  assert (P0 : Pre T (cinit T)).
  { split; [reflexivity|]. split; [unfold ep_ok; rewrite Nat.eqb_refl; reflexivity|]. intros d _. reflexivity. }
  destruct (fwd_fresh T None (cinit T) eq_refl P0) as [s1 [R1 [L1 [A1 [_ _]]]]].
  assert (P1 : Pre T s1).
  { split; [exact L1|]. split; [unfold ep_ok; rewrite Nat.eqb_refl; reflexivity|exact A1]. }
  destruct (bwd_fresh T None s1 eq_refl P1) as [s2 [R2 [L2 _]]].
  exists s2. split; [|exact L2]. unfold ps_step. rewrite replay_app, R1. exact R2.
Qed.
End Fresh.

Theorem tree_env_fresh_all : forall h T, NoDup (ids T) -> replay_ok T (ps_step h T) = true.
Proof.
  intros h T ND. destruct (replay_ps_step T ND h) as [s' [R L]].
  unfold replay_ok. rewrite R, L. apply loc_eqb_refl.
Qed.

Section EnergyConserved.
  Variables (S E : Type).
  Variable en : S -> E.
  Variable act : event -> S -> S.
  Variable T : tree.
  (* contract: an event whose preconditions hold (centre on the object, every environment it reads up to date)
     does not change <H>: the local propagators then act with the true projected Hamiltonian *)
  Hypothesis checked_conserves : forall st e st' s, cstep T st e = Some st' -> en (act e s) = en s.

  Lemma energy_along : forall es st st' s, replay T st es = Some st' -> en (apply_events S act es s) = en s.
  Proof.
    induction es as [|e es IH]; intros st st' s R; [reflexivity|].
    cbn [replay] in R. destruct (cstep T st e) as [st1|] eqn:C; [|discriminate].
    cbn [apply_events fold_left]. fold (apply_events S act es (act e s)).
    rewrite (IH st1 st' _ R). eapply checked_conserves. exact C.
  Qed.

  Theorem ps_energy_conserved : NoDup (ids T) -> forall h s, en (apply_events S act (ps_step h T) s) = en s.
  Proof.
    intros ND h s. destruct (replay_ps_step T ND h) as [s' [R _]]. eapply energy_along. exact R.
  Qed.
End EnergyConserved.

(* ------------------------------------------------------------------ two-site scheme: every environment read is up to date *)
Section Fresh2.
Variable T : tree.
Hypothesis ND : NoDup (ids T).
Variable h : Z.

(* frames with separate write sets for the two kinds of environments *)
Definition Fr2 (X Wc Wp : list nat) (s s' : cst) : Prop :=
  (forall a, ~ In a Wc -> (forall x, In x X -> ~ In x (cone T a)) -> c_ec s' a = c_ec s a)
  /\ (forall y, ~ In y Wp -> (forall x, In x X -> In x (cone T y)) -> c_ep s' y = c_ep s y).

Lemma Fr2_refl : forall X Wc Wp s, Fr2 X Wc Wp s s.
Proof. intros. split; reflexivity. Qed.
Lemma Fr2_trans : forall X Wc Wp s1 s2 s3, Fr2 X Wc Wp s1 s2 -> Fr2 X Wc Wp s2 s3 -> Fr2 X Wc Wp s1 s3.
Proof.
  intros X Wc Wp s1 s2 s3 [A1 B1] [A2 B2]. split; intros a Ha Hx.
  - rewrite A2, A1 by assumption. reflexivity.
  - rewrite B2, B1 by assumption. reflexivity.
Qed.
Lemma Fr2_mono : forall X Wc Wp X' Wc' Wp' s s', incl X X' -> incl Wc Wc' -> incl Wp Wp' ->
  Fr2 X Wc Wp s s' -> Fr2 X' Wc' Wp' s s'.
Proof.
  intros X Wc Wp X' Wc' Wp' s s' HX HC HP [A B]. split; intros a Ha Hx.
  - apply A; [intros F; apply Ha, HC, F|intros x Hi; apply Hx, HX, Hi].
  - apply B; [intros F; apply Ha, HP, F|intros x Hi; apply Hx, HX, Hi].
Qed.
Lemma Fr2_touch : forall X Wc Wp x l s, In x X -> Fr2 X Wc Wp s (set_loc l (touch T x s)).
Proof.
  intros X Wc Wp x l s Hin. split; intros a _ Hx; cbn [set_loc touch c_ec c_ep].
  - rewrite memn_notin by (apply Hx, Hin). apply andb_true_r.
  - assert (M : memn x (cone T a) = true) by (apply memn_in, Hx, Hin). rewrite M. apply andb_true_r.
Qed.
Lemma Fr2_setec : forall X Wc Wp c v s, In c Wc -> Fr2 X Wc Wp s (mkC (c_loc s) (upd (c_ec s) c v) (c_ep s)).
Proof.
  intros. split; intros a Ha _; cbn [c_ec c_ep]; [|reflexivity].
  apply upd_other. intros F. apply Ha. rewrite F. assumption.
Qed.
Lemma Fr2_setep : forall X Wc Wp c v s, In c Wp -> Fr2 X Wc Wp s (mkC (c_loc s) (c_ec s) (upd (c_ep s) c v)).
Proof.
  intros. split; intros a Ha _; cbn [c_ec c_ep]; [reflexivity|].
  apply upd_other. intros F. apply Ha. rewrite F. assumption.
Qed.

Lemma st_Evolve2 : forall s c p t,
  (c_loc s = AtNode c \/ c_loc s = AtNode p) -> memn c (kids T p) = true ->
  forallb (c_ec s) (kids T c) = true -> forallb (c_ec s) (others c (kids T p)) = true -> ep_ok T s p = true ->
  cstep T s (Evolve2 c p t) = Some s.
Proof.
  intros s c p t L M A B E. cbn [cstep]. rewrite M, A, B, E.
  destruct L as [L|L]; rewrite L, loc_eqb_refl; [reflexivity|]. rewrite orb_true_r. reflexivity.
Qed.
Lemma st_Split2 : forall s c p b,
  (c_loc s = AtNode c \/ c_loc s = AtNode p) -> memn c (kids T p) = true ->
  cstep T s (Split2 c p b) = Some (set_loc (AtNode (if b then p else c)) (touch T p (touch T c s))).
Proof.
  intros s c p b L M. cbn [cstep]. rewrite M.
  destruct L as [L|L]; rewrite L, loc_eqb_refl; [reflexivity|]. rewrite orb_true_r. reflexivity.
Qed.
Lemma st_EnvChild_root : forall s, cstep T s (EnvChild (tid T)) = Some s.
Proof. intros. cbn [cstep]. rewrite Nat.eqb_refl. reflexivity. Qed.

(* build_parent_environ_node for all children of p, in order: every stored value is valid *)
Lemma envparents_run : forall p todo done s,
  kids T p = done ++ todo -> ~ In p (done ++ todo) -> ep_ok T s p = true ->
  (forall k, In k (done ++ todo) -> c_ec s k = true) ->
  exists s', replay T s (envparents p (length done) todo) = Some s'
    /\ c_loc s' = c_loc s /\ (forall a, c_ec s' a = c_ec s a)
    /\ (forall k, In k todo -> c_ep s' k = true) /\ (forall y, ~ In y todo -> c_ep s' y = c_ep s y).
Proof.
  intros p todo. induction todo as [|k todo IH]; intros done s K Np E A.
  - exists s. repeat split; try reflexivity. intros k [].
  - cbn [envparents replay].
    assert (Nth : nth (length done) (kids T p) (S k) = k).
    { rewrite K, app_nth2 by lia. rewrite Nat.sub_diag. reflexivity. }
    assert (Len : (length done < length (kids T p))%nat) by (rewrite K, app_length; cbn [length]; lia).
    rewrite (st_EnvParent T s p (length done) k Nth Len).
    assert (V : ep_ok T s p && forallb (c_ec s) (others k (kids T p)) = true).
    { rewrite E. cbn [andb]. apply forallb_others. rewrite K. intros x Hx _. apply A, Hx. }
    rewrite V. set (s1 := mkC (c_loc s) (c_ec s) (upd (c_ep s) k true)).
    assert (K1 : kids T p = (done ++ [k]) ++ todo) by (rewrite <- app_assoc; exact K).
    assert (Np1 : ~ In p ((done ++ [k]) ++ todo)) by (rewrite <- app_assoc; exact Np).
    assert (Npk : p <> k).
    { intros F. apply Np. apply in_or_app. right. left. symmetry. exact F. }
    assert (E1 : ep_ok T s1 p = true).
    { unfold ep_ok in *. unfold s1. cbn [c_ep]. rewrite upd_other by exact Npk. exact E. }
    assert (A1 : forall x, In x ((done ++ [k]) ++ todo) -> c_ec s1 x = true).
    { intros x Hx. rewrite <- app_assoc in Hx. apply A, Hx. }
    destruct (IH (done ++ [k]) s1 K1 Np1 E1 A1) as [s' [R [L [C [P Q]]]]].
    rewrite app_length in R. cbn [length] in R. replace (length done + 1)%nat with (S (length done)) in R by lia.
    exists s'. split; [exact R|]. split; [rewrite L; reflexivity|]. split; [intros a; rewrite C; reflexivity|]. split.
    + intros x [X|Hx]; [|apply P, Hx]. subst x.
      destruct (in_dec Nat.eq_dec k todo) as [I|I]; [apply P, I|].
      rewrite Q by exact I. unfold s1. cbn [c_ep]. apply upd_same.
    + intros y Hy. rewrite Q by (intros F; apply Hy; right; exact F).
      unfold s1. cbn [c_ep]. apply upd_other. intros F. apply Hy. left. symmetry. exact F.
Qed.

Definition Good (n : nat) (ch : list tree) (E : list nat) (s : cst) : Prop :=
  ep_ok T s n = true /\ forall d, In d (flat_map ids ch) -> ~ In d E -> c_ec s d = true.

Lemma good_weaken : forall n ch E E' s, incl E E' -> Good n ch E s -> Good n ch E' s.
Proof. intros n ch E E' s H [A B]. split; [exact A|]. intros d Hd Hn. apply B; [exact Hd|]. intros F. apply Hn, H, F. Qed.

Definition Hoare2 (prog : bool -> tree -> list event) (t : tree) : Prop :=
  forall r s, subt t T -> Inv T (tid t) (tch t) s ->
    exists s', replay T s (prog r t) = Some s' /\ Inv T (tid t) (tch t) s'
               /\ Fr2 (ids t) (ids t) (edge_ids t) s s'.

Section Node.
Variables (n : nat) (done : list tree) (c : tree) (todo : list tree).
Let ch := done ++ c :: todo.
Let t := Node n ch.
Hypothesis Ht : subt t T.

Let X := ids t.
Let Wc := ids t.
Let Wp := edge_ids t.
Definition FrT := Fr2 X Wc Wp.

Lemma c_in_ch : In c ch.
Proof. unfold ch. apply in_or_app. right. left. reflexivity. Qed.
Lemma n_in_X : In n X.
Proof. left. reflexivity. Qed.
Lemma ids_c_in_edge : forall x, In x (ids c) -> In x (flat_map ids ch).
Proof. intros x Hx. eapply in_flat_map_ids; [apply c_in_ch|exact Hx]. Qed.
Lemma tc_in_X : In (tid c) X.
Proof. right. apply ids_c_in_edge, tid_in_ids. Qed.
Lemma edge_in_X : forall x, In x (flat_map ids ch) -> In x X.
Proof. intros x Hx. right. exact Hx. Qed.

Lemma n_notin_cone_desc : forall d, In d (flat_map ids ch) -> ~ In n (cone T d).
Proof.
  intros d Hd F. apply (cone_edge T ND t d Ht Hd) in F. unfold edge_ids in F. cbn [t tch] in F.
  pose proof (subt_NoDup _ _ Ht ND) as N. cbn [t ids] in N. inversion N; subst. contradiction.
Qed.

Lemma tc_notin_cone : forall d, In d (flat_map ids ch) -> d <> tid c -> ~ In (tid c) (cone T d).
Proof.
  intros d Hd Hne F.
  destruct (child_facts T ND n done c todo Ht) as [Sc [Pc [Kn [Cn [Cc [Nn Nd]]]]]].
  destruct (in_mid_cases done c todo d Hd) as [Hc|[c' [Hc' Hdc']]].
  - rewrite ids_edge in Hc. destruct Hc as [E|Hc]; [apply Hne; symmetry; exact E|].
    apply (cone_edge T ND c d Sc Hc) in F.
    pose proof (subt_NoDup _ _ Sc ND) as N. rewrite ids_edge in N. inversion N; subst. contradiction.
  - assert (Sc' : subt c' T).
    { eapply subt_trans; [|exact Ht]. eapply subt_child; [|apply subt_refl].
      apply in_app_or in Hc'. apply in_or_app. destruct Hc' as [H1|H1]; [left; exact H1|right; right; exact H1]. }
    apply (cone_inside T ND c' d Sc' Hdc') in F.
    eapply sibling_disj; [exact Nd|exact Hc'|exact F|apply tid_in_ids].
Qed.

Lemma cone_n : cone T n = ids t.
Proof. apply (cone_subt T ND t Ht). Qed.
Lemma kids_n : kids T n = map tid ch.
Proof. apply (kids_subt T ND t Ht). Qed.

Lemma good_touch_n : forall E s l, Good n ch E s -> Good n ch E (set_loc l (touch T n s)).
Proof.
  intros E s l [A B]. split.
  - unfold ep_ok in *. rewrite ep_touch_keep; [exact A|]. rewrite cone_n. left. reflexivity.
  - intros d Hd Hn. cbn [set_loc touch c_ec]. rewrite (B d Hd Hn).
    rewrite memn_notin; [reflexivity|apply n_notin_cone_desc, Hd].
Qed.
Lemma good_touch_c : forall s l, Good n ch [tid c] s -> Good n ch [tid c] (set_loc l (touch T (tid c) s)).
Proof.
  intros s l [A B]. split.
  - unfold ep_ok in *. rewrite ep_touch_keep; [exact A|]. rewrite cone_n. right. apply ids_c_in_edge, tid_in_ids.
  - intros d Hd Hn. cbn [set_loc touch c_ec]. rewrite (B d Hd Hn).
    rewrite memn_notin; [reflexivity|]. apply tc_notin_cone; [exact Hd|]. intros F. apply Hn. left. symmetry. exact F.
Qed.
Lemma good_setec_c : forall s, Good n ch [tid c] s ->
  Good n ch [] (mkC (c_loc s) (upd (c_ec s) (tid c) true) (c_ep s)).
Proof.
  intros s [A B]. split; [exact A|]. intros d Hd _. cbn [c_ec].
  destruct (Nat.eq_dec d (tid c)) as [E|E]; [subst d; apply upd_same|].
  rewrite upd_other by exact E. apply B; [exact Hd|]. intros [F|[]]. apply E. symmetry. exact F.
Qed.
Lemma good_setec_n : forall E s v, Good n ch E s -> Good n ch E (mkC (c_loc s) (upd (c_ec s) n v) (c_ep s)).
Proof.
  intros E s v [A B]. split; [exact A|]. intros d Hd Hn. cbn [c_ec]. rewrite upd_other; [apply B; assumption|].
  intros F. subst d. destruct (child_facts T ND n done c todo Ht) as [_ [_ [_ [_ [_ [Nn _]]]]]]. contradiction.
Qed.

Lemma n_notin_kids : ~ In n (map tid ch).
Proof.
  intros F. destruct (child_facts T ND n done c todo Ht) as [_ [_ [_ [_ [_ [Nn _]]]]]]. apply Nn, in_kids_edge, F.
Qed.

(* EnvChild n : a no-op at the root, otherwise rewrites only ec n *)
Lemma run_EnvChild_n : forall E s, Good n ch E s ->
  exists s', cstep T s (EnvChild n) = Some s' /\ c_loc s' = c_loc s /\ Good n ch E s'
             /\ (forall y, c_ep s' y = c_ep s y) /\ (forall d, d <> n -> c_ec s' d = c_ec s d) /\ FrT s s'.
Proof.
  intros E s G. destruct (Nat.eqb_spec n (tid T)) as [R|R].
  - assert (Es : cstep T s (EnvChild n) = Some s) by (rewrite R; apply st_EnvChild_root).
    exists s. rewrite Es. split; [reflexivity|]. split; [reflexivity|]. split; [exact G|].
    split; [reflexivity|]. split; [reflexivity|apply Fr2_refl].
  - apply Nat.eqb_neq in R. rewrite (st_EnvChild T s n R).
    eexists. split; [reflexivity|]. split; [reflexivity|]. split; [apply good_setec_n, G|].
    split; [reflexivity|]. split; [intros d Hd; cbn [c_ec]; apply upd_other, Hd|].
    apply Fr2_setec. left. reflexivity.
Qed.

(* all parent environments below n rebuilt from a Good state *)
Lemma run_envparents_n : forall s, Good n ch [] s ->
  exists s', replay T s (envparents n 0 (map tid ch)) = Some s' /\ c_loc s' = c_loc s /\ Good n ch [] s'
             /\ (forall k, In k (map tid ch) -> c_ep s' k = true)
             /\ (forall y, ~ In y (map tid ch) -> c_ep s' y = c_ep s y) /\ FrT s s'.
Proof.
  intros s [A B].
  destruct (envparents_run n (map tid ch) [] s) as [s' [R [L [C [P Q]]]]].
  - cbn [app]. apply kids_n.
  - cbn [app]. apply n_notin_kids.
  - exact A.
  - cbn [app]. intros k Hk. apply B; [apply in_kids_edge, Hk|intros []].
  - exists s'. split; [exact R|]. split; [exact L|]. split; [|split; [exact P|split; [exact Q|]]].
    + split.
      * unfold ep_ok in *. rewrite Q; [exact A|apply n_notin_kids].
      * intros d Hd Hn. rewrite C. apply B; assumption.
    + split; intros a Ha _.
      * apply C.
      * apply Q. intros F. apply Ha. unfold Wp, edge_ids. cbn [t tch]. apply in_kids_edge, F.
Qed.

Lemma FrT_trans : forall s1 s2 s3, FrT s1 s2 -> FrT s2 s3 -> FrT s1 s3.
Proof. intros. eapply Fr2_trans; eassumption. Qed.

Lemma facts : subt c T /\ par_ok T (Some n) c /\ ~ In n (flat_map ids ch) /\ NoDup (flat_map ids ch).
Proof. destruct (child_facts T ND n done c todo Ht) as [Sc [Pc [_ [_ [_ [Nn Nd]]]]]]. repeat split; assumption. Qed.
Lemma kids_c : kids T (tid c) = map tid (tch c).
Proof. destruct facts as [Sc _]. apply (kids_subt T ND c Sc). Qed.
Lemma cone_c : cone T (tid c) = ids c.
Proof. destruct facts as [Sc _]. apply (cone_subt T ND c Sc). Qed.
Lemma c_not_root : (tid c =? tid T)%nat = false.
Proof. destruct facts as [_ [Pc _]]. apply (par_not_root T ND n c Pc). Qed.
Lemma memn_c : memn (tid c) (kids T n) = true.
Proof. rewrite kids_n. apply memn_in, in_map, c_in_ch. Qed.
Lemma kc_in_edge : forall g, In g (map tid (tch c)) -> In g (flat_map ids ch) /\ g <> tid c /\ In g (edge_ids c).
Proof.
  intros g Hg. assert (Hg' : In g (edge_ids c)) by (unfold edge_ids; apply in_kids_edge, Hg).
  split; [apply ids_c_in_edge; rewrite ids_edge; right; exact Hg'|]. split; [|exact Hg'].
  intros F. subst g. destruct facts as [Sc _]. pose proof (subt_NoDup _ _ Sc ND) as N. rewrite ids_edge in N.
  inversion N; subst. contradiction.
Qed.
Lemma tc_notin_kc : ~ In (tid c) (map tid (tch c)).
Proof. intros F. destruct (kc_in_edge _ F) as [_ [H _]]. apply H. reflexivity. Qed.
Lemma n_ne_tc : n <> tid c.
Proof. intros F. destruct facts as [_ [_ [Nn _]]]. apply Nn. rewrite F. apply ids_c_in_edge, tid_in_ids. Qed.

Lemma good_touch_c' : forall s, Good n ch [tid c] s -> Good n ch [tid c] (touch T (tid c) s).
Proof. intros s G. exact (good_touch_c s (c_loc s) G). Qed.
Lemma good_setep : forall E s y v, y <> n -> Good n ch E s -> Good n ch E (mkC (c_loc s) (c_ec s) (upd (c_ep s) y v)).
Proof.
  intros E s y v Hy [A B]. split; [|exact B]. unfold ep_ok in *. cbn [c_ep]. rewrite upd_other; [exact A|].
  intros F. apply Hy. symmetry. exact F.
Qed.
Lemma good_kc : forall s, Good n ch [tid c] s -> forallb (c_ec s) (kids T (tid c)) = true.
Proof.
  intros s [_ B]. rewrite kids_c. apply forallb_forall. intros g Hg. destruct (kc_in_edge g Hg) as [H1 [H2 _]].
  apply B; [exact H1|]. intros [F|[]]. apply H2. symmetry. exact F.
Qed.
Lemma good_others : forall s, Good n ch [tid c] s -> forallb (c_ec s) (others (tid c) (kids T n)) = true.
Proof.
  intros s [_ B]. apply forallb_others. rewrite kids_n. intros k Hk Hne. apply B; [apply in_kids_edge, Hk|].
  intros [F|[]]. apply Hne. symmetry. exact F.
Qed.
Lemma inv_good : forall s, Inv T n ch s -> Good n ch [] s.
Proof. intros s [_ [E A]]. split; [exact E|]. intros d Hd _. apply A, Hd. Qed.
Lemma good_inv : forall s, c_loc s = AtNode n -> Good n ch [] s -> Inv T n ch s.
Proof. intros s L [E A]. split; [exact L|]. split; [exact E|]. intros d Hd. apply A; [exact Hd|intros []]. Qed.

(* EnvChild c rebuilt from valid children environments; EnvParent n i c from a Good state *)
Lemma run_EnvChild_c : forall s, Good n ch [tid c] s ->
  exists s', cstep T s (EnvChild (tid c)) = Some s' /\ c_loc s' = c_loc s /\ Good n ch [] s'
             /\ (forall y, c_ep s' y = c_ep s y) /\ FrT s s'.
Proof.
  intros s G. rewrite (st_EnvChild T s (tid c) c_not_root), (good_kc s G).
  eexists. split; [reflexivity|]. split; [reflexivity|]. split; [apply good_setec_c, G|]. split; [reflexivity|].
  apply Fr2_setec. apply tc_in_X.
Qed.
Lemma run_EnvParent_c : forall s, Good n ch [] s ->
  exists s', cstep T s (EnvParent n (length done) (tid c)) = Some s' /\ c_loc s' = c_loc s /\ Good n ch [] s'
             /\ c_ep s' (tid c) = true /\ FrT s s'.
Proof.
  intros s G. destruct (index_facts T ND n done c todo Ht) as [Nth Len].
  rewrite (st_EnvParent T s n (length done) (tid c) Nth Len).
  assert (V : ep_ok T s n && forallb (c_ec s) (others (tid c) (kids T n)) = true).
  { destruct G as [A B]. rewrite A. cbn [andb]. apply good_others. split; [exact A|]. intros d Hd _. apply B; [exact Hd|intros []]. }
  rewrite V. eexists. split; [reflexivity|]. split; [reflexivity|].
  split; [apply good_setep; [intros F; apply n_ne_tc; symmetry; exact F|exact G]|]. split; [cbn [c_ep]; apply upd_same|].
  apply Fr2_setep. unfold Wp, edge_ids. cbn [t tch]. apply ids_c_in_edge, tid_in_ids.
Qed.

Lemma one_site_block : forall s tau, Inv T n ch s ->
  exists s', replay T s (Evolve1 n tau :: upd_1site n (map tid ch)) = Some s' /\ Inv T n ch s' /\ FrT s s'.
Proof.
  intros s tau I. pose proof (inv_good s I) as G. destruct I as [L [E A]].
  assert (K : forallb (c_ec s) (kids T n) = true).
  { rewrite kids_n. apply forallb_forall. intros k Hk. apply A, in_kids_edge, Hk. }
  cbn [replay]. rewrite (st_Evolve1 T s n tau L E K).
  set (s1 := set_loc (AtNode n) (touch T n s)).
  assert (G1 : Good n ch [] s1) by (apply good_touch_n, G).
  destruct (run_EnvChild_n [] s1 G1) as [s2 [R2 [L2 [G2 [_ [_ F2]]]]]].
  destruct (run_envparents_n s2 G2) as [s3 [R3 [L3 [G3 [_ [_ F3]]]]]].
  unfold upd_1site. cbn [replay]. rewrite R2, R3.
  exists s3. split; [reflexivity|]. split.
  - apply good_inv; [rewrite L3, L2; reflexivity|exact G3].
  - eapply FrT_trans; [apply Fr2_touch, n_in_X|]. eapply FrT_trans; eassumption.
Qed.

Lemma two_site_block : forall s tau b,
  (c_loc s = AtNode (tid c) \/ c_loc s = AtNode n) -> Good n ch [tid c] s ->
  exists s', replay T s ([Evolve2 (tid c) n tau; Split2 (tid c) n b]
                         ++ upd_2site (tid c) (map tid (tch c)) n (map tid ch)) = Some s'
             /\ c_loc s' = AtNode (if b then n else tid c) /\ Good n ch [] s' /\ c_ep s' (tid c) = true /\ FrT s s'.
Proof.
  intros s tau b L G.
  cbn [app replay].
  rewrite (st_Evolve2 s (tid c) n tau L memn_c (good_kc s G) (good_others s G) (proj1 G)).
  rewrite (st_Split2 s (tid c) n b L memn_c).
  set (s2 := set_loc (AtNode (if b then n else tid c)) (touch T n (touch T (tid c) s))).
  assert (G2 : Good n ch [tid c] s2) by (apply good_touch_n, good_touch_c', G).
  assert (F2 : FrT s s2).
  { eapply FrT_trans; [apply (Fr2_touch X Wc Wp (tid c) (c_loc s) s), tc_in_X|]. apply Fr2_touch, n_in_X. }
  destruct (run_EnvChild_c s2 G2) as [s3 [R3 [L3 [G3 [_ F3]]]]].
  destruct (run_EnvChild_n [] s3 G3) as [s4 [R4 [L4 [G4 [_ [_ F4]]]]]].
  destruct (run_envparents_n s4 G4) as [s5 [R5 [L5 [G5 [P5 [_ F5]]]]]].
  assert (Ec5 : c_ep s5 (tid c) = true) by (apply P5, in_map, c_in_ch).
  destruct (envparents_run (tid c) (map tid (tch c)) [] s5) as [s6 [R6 [L6 [C6 [_ Q6]]]]].
  { cbn [app]. apply kids_c. }
  { cbn [app]. apply tc_notin_kc. }
  { unfold ep_ok. rewrite Ec5. apply orb_true_r. }
  { cbn [app]. intros g Hg. destruct (kc_in_edge g Hg) as [H1 _]. apply (proj2 G5); [exact H1|intros []]. }
  cbn [length] in R6.
  unfold upd_2site. cbn [app replay]. rewrite R3, R4. rewrite replay_app, R5, R6.
  exists s6. split; [reflexivity|]. split; [rewrite L6, L5, L4, L3; reflexivity|]. split; [|split].
  - destruct G5 as [A5 B5]. split.
    + unfold ep_ok in *. rewrite Q6; [exact A5|]. intros F. destruct (kc_in_edge n F) as [H1 _].
      destruct facts as [_ [_ [Nn _]]]. contradiction.
    + intros d Hd Hn. rewrite C6. apply B5; assumption.
  - rewrite Q6; [exact Ec5|apply tc_notin_kc].
  - eapply FrT_trans; [exact F2|]. eapply FrT_trans; [exact F3|]. eapply FrT_trans; [exact F4|].
    eapply FrT_trans; [exact F5|]. split; intros a Ha _.
    + apply C6.
    + apply Q6. intros F. apply Ha. destruct (kc_in_edge a F) as [H1 _]. unfold Wp, edge_ids. cbn [t tch]. exact H1.
Qed.

Lemma descend2 : forall s, Inv T n ch s ->
  exists s', replay T s (PushToChild n (length done) (tid c) ++ upd_1bond (tid c) n (length done)) = Some s'
             /\ c_loc s' = AtNode (tid c) /\ Good n ch [] s' /\ c_ep s' (tid c) = true /\ FrT s s'.
Proof.
  intros s I. pose proof (inv_good s I) as G. destruct I as [L _].
  destruct (index_facts T ND n done c todo Ht) as [Nth Len].
  cbn [PushToChild upd_1bond app replay].
  rewrite (st_QRDown T s n (length done) (tid c) L Nth Len).
  set (s1 := set_loc (OnBond (tid c)) (touch T n s)).
  rewrite (st_AbsorbDown T s1 n (length done) (tid c) eq_refl Nth Len).
  set (s2 := set_loc (AtNode (tid c)) (touch T (tid c) s1)).
  assert (G2 : Good n ch [tid c] s2).
  { apply good_touch_c. eapply good_weaken; [|apply good_touch_n, G]. intros x []. }
  destruct (run_EnvChild_c s2 G2) as [s3 [R3 [L3 [G3 [_ F3]]]]].
  destruct (run_EnvParent_c s3 G3) as [s4 [R4 [L4 [G4 [E4 F4]]]]].
  rewrite R3, R4. exists s4. split; [reflexivity|]. split; [rewrite L4, L3; reflexivity|]. split; [exact G4|]. split; [exact E4|].
  eapply FrT_trans; [apply Fr2_touch, n_in_X|]. eapply FrT_trans; [apply Fr2_touch, tc_in_X|].
  eapply FrT_trans; eassumption.
Qed.

Lemma ascend2 : forall s, c_loc s = AtNode (tid c) -> Good n ch [tid c] s ->
  exists s', replay T s (PushToParent (tid c) n ++ upd_1bond (tid c) n (length done)) = Some s'
             /\ Inv T n ch s' /\ FrT s s'.
Proof.
  intros s L G. cbn [PushToParent upd_1bond app replay].
  rewrite (st_QRUp T s (tid c) n L memn_c).
  set (s1 := set_loc (OnBond (tid c)) (touch T (tid c) s)).
  rewrite (st_AbsorbUp T s1 (tid c) n eq_refl memn_c).
  set (s2 := set_loc (AtNode n) (touch T n s1)).
  assert (G2 : Good n ch [tid c] s2) by (apply good_touch_n, good_touch_c, G).
  destruct (run_EnvChild_c s2 G2) as [s3 [R3 [L3 [G3 [_ F3]]]]].
  destruct (run_EnvParent_c s3 G3) as [s4 [R4 [L4 [G4 [E4 F4]]]]].
  rewrite R3, R4. exists s4. split; [reflexivity|]. split.
  - apply good_inv; [rewrite L4, L3; reflexivity|exact G4].
  - eapply FrT_trans; [apply Fr2_touch, tc_in_X|]. eapply FrT_trans; [apply Fr2_touch, n_in_X|].
    eapply FrT_trans; eassumption.
Qed.

(* the recursive sweep of the subtree of c, seen from n *)
Lemma rec_keep : forall s3 s4 E, incl E [tid c] -> Good n ch E s3 -> Inv T (tid c) (tch c) s4 ->
  Fr2 (ids c) (ids c) (edge_ids c) s3 s4 -> Good n ch [tid c] s4 /\ FrT s3 s4.
Proof.
  intros s3 s4 E HE [A B] [_ [_ A4]] [FA FB].
  destruct facts as [Sc [Pc [Nn Nd]]].
  split.
  - split.
    + unfold ep_ok in *. rewrite FB; [exact A| |].
      * intros F. apply Nn, ids_c_in_edge. rewrite ids_edge. right. exact F.
      * intros x Hx. rewrite cone_n. right. apply ids_c_in_edge, Hx.
    + intros d Hd Hn. assert (Hne : d <> tid c) by (intros F; apply Hn; left; symmetry; exact F).
      destruct (in_mid_cases done c todo d Hd) as [Hc|[c' [Hc' Hdc']]].
      * rewrite ids_edge in Hc. destruct Hc as [F|Hc]; [exfalso; apply Hne; symmetry; exact F|]. apply A4, Hc.
      * assert (Sc' : subt c' T).
        { eapply subt_trans; [|exact Ht]. eapply subt_child; [|apply subt_refl].
          apply in_app_or in Hc'. apply in_or_app. destruct Hc' as [H1|H1]; [left; exact H1|right; right; exact H1]. }
        rewrite FA.
        -- apply B; [exact Hd|]. intros F. apply HE in F. destruct F as [F|[]]. apply Hne. symmetry. exact F.
        -- eapply sibling_disj; eassumption.
        -- intros x Hx Fx. apply (cone_inside T ND c' d Sc' Hdc') in Fx. eapply sibling_disj; eassumption.
  - eapply Fr2_mono; [| | |split; [exact FA|exact FB]].
    + intros x Hx. right. apply ids_c_in_edge, Hx.
    + intros x Hx. right. apply ids_c_in_edge, Hx.
    + intros x Hx. unfold Wp, edge_ids. cbn [t tch]. apply ids_c_in_edge. rewrite ids_edge. right. exact Hx.
Qed.
End Node.

Lemma inv_child : forall n done c todo s,
  c_loc s = AtNode (tid c) -> Good n (done ++ c :: todo) [] s -> c_ep s (tid c) = true -> Inv T (tid c) (tch c) s.
Proof.
  intros n done c todo s L [_ B] E. split; [exact L|]. split; [unfold ep_ok; rewrite E; apply orb_true_r|].
  intros d Hd. apply B; [|intros []]. apply ids_c_in_edge. rewrite ids_edge. right. exact Hd.
Qed.

Definition A2 (n i : nat) (c : tree) : list event :=
  match tch c with
  | [] => []
  | _ :: _ => PushToChild n i (tid c) ++ upd_1bond (tid c) n i ++ fwd2 h false c
  end.
Definition Z2 (n i : nat) (c : tree) : list event :=
  match tch c with
  | [] => []
  | _ :: _ => bwd2 h false c ++ PushToParent (tid c) n ++ upd_1bond (tid c) n i
  end.

Lemma A2_run : forall n done c todo s,
  subt (Node n (done ++ c :: todo)) T -> Inv T n (done ++ c :: todo) s -> Hoare2 (fwd2 h) c ->
  exists s1, replay T s (A2 n (length done) c) = Some s1
             /\ (c_loc s1 = AtNode (tid c) \/ c_loc s1 = AtNode n) /\ Good n (done ++ c :: todo) [tid c] s1
             /\ FrT n done c todo s s1.
Proof.
  intros n done c todo s Ht I HC.
  assert (Hrec : exists s1, replay T s (PushToChild n (length done) (tid c) ++ upd_1bond (tid c) n (length done) ++ fwd2 h false c) = Some s1
             /\ c_loc s1 = AtNode (tid c) /\ Good n (done ++ c :: todo) [tid c] s1 /\ FrT n done c todo s s1).
  { destruct (descend2 n done c todo Ht s I) as [s1 [R1 [L1 [G1 [E1 F1]]]]].
    pose proof (inv_child n done c todo s1 L1 G1 E1) as I1.
    destruct (facts n done c todo Ht) as [Sc _].
    destruct (HC false s1 Sc I1) as [s2 [R2 [I2 F2]]].
    destruct (rec_keep n done c todo Ht s1 s2 [] (incl_nil_l _) G1 I2 F2) as [G2 F2'].
    exists s2. rewrite app_assoc, replay_app, R1. split; [exact R2|]. split; [apply I2|]. split; [exact G2|].
    eapply FrT_trans; eassumption. }
  unfold A2. destruct (tch c) eqn:Etc.
  - exists s. split; [reflexivity|]. split; [right; apply I|]. split.
    + eapply good_weaken; [|apply inv_good, I]. intros x [].
    + apply Fr2_refl.
  - destruct Hrec as [s1 [R1 [L1 [G1 F1]]]]. exists s1. split; [exact R1|]. split; [left; exact L1|]. split; assumption.
Qed.

Lemma tail1_run : forall n done c todo r len i s,
  subt (Node n (done ++ c :: todo)) T -> Inv T n (done ++ c :: todo) s ->
  exists s', replay T s (tail1 h r n (map tid (done ++ c :: todo)) len i) = Some s'
             /\ Inv T n (done ++ c :: todo) s' /\ FrT n done c todo s s'.
Proof.
  intros n done c todo r len i s Ht I. unfold tail1. destruct (r && (S i =? len)%nat).
  - exists s. split; [reflexivity|]. split; [exact I|apply Fr2_refl].
  - apply (one_site_block n done c todo Ht s (- h) I).
Qed.

Definition fwd2_blk (r : bool) (n : nat) (kn : list nat) (len i : nat) (c : tree) : list event :=
  A2 n i c ++ [Evolve2 (tid c) n h; Split2 (tid c) n true] ++ upd_2site (tid c) (map tid (tch c)) n kn
  ++ tail1 h r n kn len i.

Lemma fwd2_block : forall n done c todo r len s,
  subt (Node n (done ++ c :: todo)) T -> Inv T n (done ++ c :: todo) s -> Hoare2 (fwd2 h) c ->
  exists s', replay T s (fwd2_blk r n (map tid (done ++ c :: todo)) len (length done) c) = Some s'
             /\ Inv T n (done ++ c :: todo) s' /\ FrT n done c todo s s'.
Proof.
  intros n done c todo r len s Ht I HC. unfold fwd2_blk.
  destruct (A2_run n done c todo s Ht I HC) as [s1 [R1 [L1 [G1 F1]]]].
  destruct (two_site_block n done c todo Ht s1 h true L1 G1) as [s2 [R2 [L2 [G2 [_ F2]]]]].
  pose proof (good_inv n done c todo s2 L2 G2) as I2.
  destruct (tail1_run n done c todo r len (length done) s2 Ht I2) as [s3 [R3 [I3 F3]]].
  exists s3. rewrite replay_app, R1. rewrite app_assoc, replay_app, R2. split; [exact R3|]. split; [exact I3|].
  eapply FrT_trans; [exact F1|]. eapply FrT_trans; eassumption.
Qed.

Definition bwd2_blk (r : bool) (n : nat) (kn : list nat) (len i : nat) (c : tree) : list event :=
  tail1 h r n kn len i
  ++ [Evolve2 (tid c) n h; Split2 (tid c) n (is_nil (tch c))] ++ upd_2site (tid c) (map tid (tch c)) n kn
  ++ Z2 n i c.

Lemma Z2_run : forall n done c todo s,
  subt (Node n (done ++ c :: todo)) T -> Hoare2 (bwd2 h) c ->
  c_loc s = AtNode (if is_nil (tch c) then n else tid c) -> Good n (done ++ c :: todo) [] s -> c_ep s (tid c) = true ->
  exists s', replay T s (Z2 n (length done) c) = Some s' /\ Inv T n (done ++ c :: todo) s' /\ FrT n done c todo s s'.
Proof.
  intros n done c todo s Ht HC L G E.
  assert (Hrec : c_loc s = AtNode (tid c) ->
     exists s', replay T s (bwd2 h false c ++ PushToParent (tid c) n ++ upd_1bond (tid c) n (length done)) = Some s'
                /\ Inv T n (done ++ c :: todo) s' /\ FrT n done c todo s s').
  { intros Lc. pose proof (inv_child n done c todo s Lc G E) as I1.
    destruct (facts n done c todo Ht) as [Sc _].
    destruct (HC false s Sc I1) as [s2 [R2 [I2 F2]]].
    destruct (rec_keep n done c todo Ht s s2 [] (incl_nil_l _) G I2 F2) as [G2 F2'].
    destruct (ascend2 n done c todo Ht s2 (proj1 I2) G2) as [s3 [R3 [I3 F3]]].
    exists s3. rewrite replay_app, R2. split; [exact R3|]. split; [exact I3|]. eapply FrT_trans; eassumption. }
  unfold Z2. revert L. destruct (tch c) eqn:Etc; cbn [is_nil]; intros L.
  - exists s. split; [reflexivity|]. split; [apply good_inv; assumption|apply Fr2_refl].
  - apply Hrec, L.
Qed.

Lemma bwd2_block : forall n done c todo r len s,
  subt (Node n (done ++ c :: todo)) T -> Inv T n (done ++ c :: todo) s -> Hoare2 (bwd2 h) c ->
  exists s', replay T s (bwd2_blk r n (map tid (done ++ c :: todo)) len (length done) c) = Some s'
             /\ Inv T n (done ++ c :: todo) s' /\ FrT n done c todo s s'.
Proof.
  intros n done c todo r len s Ht I HC. unfold bwd2_blk.
  destruct (tail1_run n done c todo r len (length done) s Ht I) as [s1 [R1 [I1 F1]]].
  assert (G1 : Good n (done ++ c :: todo) [tid c] s1).
  { eapply good_weaken; [|apply inv_good, I1]. intros x []. }
  destruct (two_site_block n done c todo Ht s1 h (is_nil (tch c)) (or_intror (proj1 I1)) G1) as [s2 [R2 [L2 [G2 [E2 F2]]]]].
  destruct (Z2_run n done c todo s2 Ht HC L2 G2 E2) as [s3 [R3 [I3 F3]]].
  exists s3. rewrite replay_app, R1. rewrite app_assoc, replay_app, R2. split; [exact R3|]. split; [exact I3|].
  eapply FrT_trans; [exact F1|]. eapply FrT_trans; eassumption.
Qed.

Lemma fwd2_kids_blk : forall r n kn len i c l,
  fwd2_kids h r n kn len i (c :: l) = fwd2_blk r n kn len i c ++ fwd2_kids h r n kn len (S i) l.
Proof.
  intros. cbn [fwd2_kids]. unfold fwd2_blk, A2. repeat rewrite <- app_assoc. cbn [app]. repeat rewrite <- app_assoc. reflexivity.
Qed.

Lemma bwd2_kids_snoc : forall r n kn len l c i,
  bwd2_kids h r n kn len i (l ++ [c]) = bwd2_blk r n kn len (i + length l) c ++ bwd2_kids h r n kn len i l.
Proof.
  intros r n kn len l c. induction l as [|d l IH]; intros i.
  - cbn [app bwd2_kids length]. rewrite Nat.add_0_r, app_nil_r. unfold bwd2_blk, Z2. cbn [app]. repeat rewrite <- app_assoc. cbn [app]. repeat rewrite <- app_assoc. reflexivity.
  - cbn [app bwd2_kids length]. rewrite IH. rewrite <- app_assoc.
    replace (S i + length l)%nat with (i + S (length l))%nat by lia. reflexivity.
Qed.

Definition FrN (n : nat) (ch : list tree) := Fr2 (ids (Node n ch)) (ids (Node n ch)) (edge_ids (Node n ch)).

Lemma fwd2_loop : forall r n len todo, Forall (Hoare2 (fwd2 h)) todo ->
  forall done s, subt (Node n (done ++ todo)) T -> Inv T n (done ++ todo) s ->
  exists s', replay T s (fwd2_kids h r n (map tid (done ++ todo)) len (length done) todo) = Some s'
             /\ Inv T n (done ++ todo) s' /\ FrN n (done ++ todo) s s'.
Proof.
  intros r n len todo HF. induction HF as [|c todo Hc HF IH]; intros done s Ht I.
  - exists s. split; [reflexivity|]. split; [exact I|apply Fr2_refl].
  - destruct (fwd2_block n done c todo r len s Ht I Hc) as [s1 [R1 [I1 F1]]].
    assert (E : (done ++ [c]) ++ todo = done ++ c :: todo) by (rewrite <- app_assoc; reflexivity).
    specialize (IH (done ++ [c])). rewrite E in IH. rewrite app_length in IH. cbn [length] in IH.
    replace (length done + 1)%nat with (S (length done)) in IH by lia.
    destruct (IH s1 Ht I1) as [s2 [R2 [I2 F2]]].
    exists s2. rewrite fwd2_kids_blk, replay_app, R1. split; [exact R2|]. split; [exact I2|].
    eapply Fr2_trans; [exact F1|exact F2].
Qed.

Lemma bwd2_loop : forall r n len pre, Forall (Hoare2 (bwd2 h)) pre ->
  forall post s, subt (Node n (pre ++ post)) T -> Inv T n (pre ++ post) s ->
  exists s', replay T s (bwd2_kids h r n (map tid (pre ++ post)) len 0 pre) = Some s'
             /\ Inv T n (pre ++ post) s' /\ FrN n (pre ++ post) s s'.
Proof.
  intros r n len pre. induction pre as [|c pre IH] using rev_ind; intros HF post s Ht I.
  - exists s. split; [reflexivity|]. split; [exact I|apply Fr2_refl].
  - apply Forall_app in HF. destruct HF as [HF Hc]. inversion Hc as [|? ? Hc' _]; subst.
    rewrite <- app_assoc in *. cbn [app] in *.
    destruct (bwd2_block n pre c post r len s Ht I Hc') as [s1 [R1 [I1 F1]]].
    destruct (IH HF (c :: post) s1 Ht I1) as [s2 [R2 [I2 F2]]].
    exists s2. rewrite bwd2_kids_snoc. cbn [plus]. rewrite replay_app, R1. split; [exact R2|]. split; [exact I2|].
    eapply Fr2_trans; [exact F1|exact F2].
Qed.

Lemma fwd2_fresh : forall t, Hoare2 (fwd2 h) t.
Proof.
  apply tree_ind'. intros n ch HF r s Ht I. cbn [tid tch] in I.
  rewrite fwd2_eq.
  destruct (fwd2_loop r n (length ch) ch HF [] s Ht I) as [s' [R [I' F]]]. cbn [app length] in *.
  exists s'. split; [exact R|]. split; [exact I'|exact F].
Qed.

Lemma bwd2_fresh : forall t, Hoare2 (bwd2 h) t.
Proof.
  apply tree_ind'. intros n ch HF r s Ht I. cbn [tid tch] in I.
  rewrite bwd2_eq. rewrite <- (app_nil_r ch) in Ht, I.
  destruct (bwd2_loop r n (length ch) ch HF [] s Ht I) as [s' [R [I' F]]]. rewrite !app_nil_r in *.
  exists s'. split; [exact R|]. split; [exact I'|exact F].
Qed.

Theorem replay_ps2_step : exists s', replay T (cinit T) (ps2_step h T) = Some s' /\ c_loc s' = AtNode (tid T).
Proof.
  assert (I0 : Inv T (tid T) (tch T) (cinit T)).
  { split; [reflexivity|]. split; [unfold ep_ok; rewrite Nat.eqb_refl; reflexivity|]. intros d _. reflexivity. }
  destruct (fwd2_fresh T true (cinit T) (subt_refl T) I0) as [s1 [R1 [I1 _]]].
  destruct (bwd2_fresh T true s1 (subt_refl T) I1) as [s2 [R2 [I2 _]]].
  exists s2. unfold ps2_step. rewrite replay_app, R1. split; [exact R2|apply I2].
Qed.
End Fresh2.

Theorem ps2_env_fresh_all : forall h T, NoDup (ids T) -> replay_ok T (ps2_step h T) = true.
Proof.
  intros h T ND. destruct (replay_ps2_step T ND h) as [s' [R L]].
  unfold replay_ok. rewrite R, L. apply loc_eqb_refl.
Qed.
