(* Proofs about the step-size controllers of Model/StepCtl.v, for EVERY error-estimate function. *)
From Coq Require Import QArith Qabs Lqa List Bool Lia.
Import ListNotations.
From RV Require Import Gen.StepCtlConsts Model.StepCtl Gen.StepCtlGen.
Local Open Scope Q_scope.

(* ------------------------------------------------------------------ basics ----------------- *)
Lemma Qlt_bool_true x y : Qlt_bool x y = true <-> x < y.
Proof.
  unfold Qlt_bool. rewrite negb_true_iff. split.
  - intros Hb. apply Qnot_le_lt. intros Hle. apply Qle_bool_iff in Hle. congruence.
  - intros Hlt. destruct (Qle_bool y x) eqn:E; [|reflexivity]. apply Qle_bool_iff in E. lra.
Qed.
Lemma Qlt_bool_false x y : Qlt_bool x y = false <-> y <= x.
Proof.
  unfold Qlt_bool. rewrite negb_false_iff. apply Qle_bool_iff.
Qed.

Lemma Qabs_cases x : (0 <= x /\ Qabs x == x) \/ (x <= 0 /\ Qabs x == - x).
Proof.
  destruct (Qlt_le_dec x 0) as [Hn|Hp].
  - right. split; [lra|]. apply Qabs_neg. lra.
  - left. split; [exact Hp|]. now apply Qabs_pos.
Qed.

Lemma min_abs_cases a b :
  (min_abs a b = a /\ Qabs a < Qabs b) \/ (min_abs a b = b /\ Qabs b <= Qabs a).
Proof.
  unfold min_abs. destruct (Qlt_bool (Qabs a) (Qabs b)) eqn:E.
  - left. split; [reflexivity|]. now apply Qlt_bool_true.
  - right. split; [reflexivity|]. now apply Qlt_bool_false.
Qed.

Lemma min_abs_le_l a b : Qabs (min_abs a b) <= Qabs a.
Proof. destruct (min_abs_cases a b) as [[-> H]|[-> H]]; lra. Qed.

Lemma pymax_ge a b : a <= pymax a b /\ b <= pymax a b /\ (pymax a b = a \/ pymax a b = b).
Proof.
  unfold pymax. destruct (Qlt_bool a b) eqn:E.
  - apply Qlt_bool_true in E. repeat split; try lra. now right.
  - apply Qlt_bool_false in E. repeat split; try lra. now left.
Qed.
Lemma pymin_le a b : pymin a b <= a /\ pymin a b <= b /\ (pymin a b = a \/ pymin a b = b).
Proof.
  unfold pymin. destruct (Qlt_bool b a) eqn:E.
  - apply Qlt_bool_true in E. repeat split; try lra. now right.
  - apply Qlt_bool_false in E. repeat split; try lra. now left.
Qed.

(* the constants as the source has them *)
Lemma tdvp_consts : 0 < tdvp_p_min /\ tdvp_p_min < tdvp_p_restart /\ tdvp_p_restart <= 1 /\ 1 <= tdvp_p_max.
Proof. unfold tdvp_p_min, tdvp_p_restart, tdvp_p_max. repeat split; try lra; try (unfold Qle, Qlt; cbn; lia). Qed.
Lemma pc_consts : 0 < pc_p_min /\ pc_p_min < pc_p_restart /\ pc_p_restart <= 1 /\ 1 <= pc_p_max.
Proof. unfold pc_p_min, pc_p_restart, pc_p_max. repeat split; try lra; try (unfold Qle, Qlt; cbn; lia). Qed.
Lemma tdrk_consts : 0 < tdrk_p_min /\ tdrk_p_min < tdrk_p_restart /\ tdrk_p_restart <= 1 /\ 1 <= tdrk_p_max.
Proof. unfold tdrk_p_min, tdrk_p_restart, tdrk_p_max. repeat split; try lra; try (unfold Qle, Qlt; cbn; lia). Qed.

Lemma tdvp_clamp_range p : tdvp_p_min <= tdvp_clamp p /\ tdvp_clamp p <= tdvp_p_max.
Proof.
  pose proof tdvp_consts as (C1 & C2 & C3 & C4).
  unfold tdvp_clamp.
  destruct (Qlt_bool p tdvp_p_min) eqn:E1.
  - destruct (Qlt_bool tdvp_p_max tdvp_p_min) eqn:E2.
    + apply Qlt_bool_true in E2. lra.
    + split; lra.
  - apply Qlt_bool_false in E1. destruct (Qlt_bool tdvp_p_max p) eqn:E2.
    + split; lra.
    + apply Qlt_bool_false in E2. split; lra.
Qed.

(* one trial step stays between the current position and the target and keeps the direction *)
Lemma step_between g t x : same_dir g t -> between0 x t ->
  between0 (x + min_abs g (t - x)) t /\ same_dir (min_abs g (t - x)) t.
Proof.
  intros Hd Hb.
  destruct (min_abs_cases g (t - x)) as [[-> Hlt]|[-> Hle]].
  - destruct (Qabs_cases g) as [[Hg Eg]|[Hg Eg]]; destruct (Qabs_cases (t - x)) as [[Hr Er]|[Hr Er]];
      rewrite Eg, Er in Hlt; unfold between0, same_dir in *; split; lra.
  - unfold between0, same_dir in *. split; lra.
Qed.

Lemma same_dir_scale g t p : 0 <= p -> same_dir g t -> same_dir (g * p) t.
Proof. unfold same_dir. intros Hp [[H1 H2]|[H1 H2]]; [left|right]; split; try lra; nra. Qed.

Lemma shrink_step dt p r c : 0 <= p -> p <= c -> Qabs (min_abs (dt * p) r) <= c * Qabs dt.
Proof.
  intros Hp Hc. eapply Qle_trans; [apply min_abs_le_l|].
  rewrite Qabs_Qmult, (Qabs_pos p Hp). pose proof (Qabs_nonneg dt). nra.
Qed.

Lemma acc_sum_cons e tr : acc_sum (e :: tr) = if e_acc e then e_dt e + acc_sum tr else acc_sum tr.
Proof. reflexivity. Qed.

Lemma acc_sum_app tr1 tr2 : acc_sum (tr1 ++ tr2) == acc_sum tr1 + acc_sum tr2.
Proof.
  induction tr1 as [|e tr1 IH]; [change (acc_sum []) with 0; cbn [app]; lra|].
  cbn [app]. rewrite !acc_sum_cons. destruct (e_acc e); rewrite IH; lra.
Qed.

Lemma between0_Qeq x y t : x == y -> between0 x t -> between0 y t.
Proof. unfold between0. intros E [H|H]; [left|right]; lra. Qed.

Lemma consE_some e r tr g : consE e r = Some (tr, g) -> exists tr', r = Some (tr', g) /\ tr = e :: tr'.
Proof. destruct r as [[tr' g']|]; cbn; intros E; inversion E; subst. eauto. Qed.

(* head of a trace produced from a given state: its tried step is min_abs guess remaining *)
Definition head_dt (tr : list event) (d : Q) : Prop := match tr with e :: _ => e_dt e = d | [] => True end.

(* ------------------------------------------------------------------ adaptive_tdvp ---------- *)
Section Tdvp.
Variable est : estimate.
Variable target : Q.

Lemma tdvp_head : forall fuel it g x tr g', tdvp_loop fuel est target it g x = Some (tr, g') ->
  head_dt tr (min_abs g (target - x)) /\ tr <> [].
Proof.
  destruct fuel as [|f]; intros it g x tr g' Hr; [discriminate|]. cbn [tdvp_loop] in Hr.
  destruct (Qlt_bool _ tdvp_p_restart).
  - apply consE_some in Hr. destruct Hr as (tr' & _ & ->). split; [reflexivity|discriminate].
  - destruct (Qeq_bool _ target).
    + inversion Hr; subst. split; [reflexivity|discriminate].
    + apply consE_some in Hr. destruct Hr as (tr' & _ & ->). split; [reflexivity|discriminate].
Qed.

Lemma tdvp_partition : forall fuel it g x tr g', tdvp_loop fuel est target it g x = Some (tr, g') ->
  x + acc_sum tr == target.
Proof.
  induction fuel as [|f IH]; intros it g x tr g' Hr; [discriminate|]. cbn [tdvp_loop] in Hr.
  destruct (Qlt_bool _ tdvp_p_restart).
  - apply consE_some in Hr. destruct Hr as (tr' & Hr & ->). cbn. eapply IH; eassumption.
  - destruct (Qeq_bool _ target) eqn:E.
    + inversion Hr; subst. apply Qeq_bool_eq in E. cbn. lra.
    + apply consE_some in Hr. destruct Hr as (tr' & Hr & ->). cbn. specialize (IH _ _ _ _ _ Hr).
      fold (acc_sum tr'). lra.
Qed.

Lemma tdvp_invariants : forall fuel it g x tr g', tdvp_loop fuel est target it g x = Some (tr, g') ->
  same_dir g target -> between0 x target ->
  (forall tr1 tr2, tr = tr1 ++ tr2 -> between0 (x + acc_sum tr1) target)
  /\ Forall (fun e => same_dir (e_dt e) target) tr
  /\ same_dir g' target.
Proof.
  pose proof tdvp_consts as (C1 & C2 & C3 & C4).
  induction fuel as [|f IH]; intros it g x tr g' Hr Hd Hb; [discriminate|]. cbn [tdvp_loop] in Hr.
  set (dt := min_abs g (target - x)) in *.
  destruct (step_between g target x Hd Hb) as [Hb' Hd']. fold dt in Hb', Hd'.
  pose proof (tdvp_clamp_range (est it x dt)) as [P1 P2]. set (p := tdvp_clamp (est it x dt)) in *.
  destruct (Qlt_bool p tdvp_p_restart).
  - apply consE_some in Hr. destruct Hr as (tr' & Hr & ->).
    destruct (IH _ _ _ _ _ Hr) as (I1 & I2 & I3); [apply same_dir_scale; [lra|exact Hd']|exact Hb|].
    split; [|split; [constructor; [exact Hd'|exact I2]|exact I3]].
    intros [|e1 tr1] tr2 E; [cbn; eapply between0_Qeq; [|exact Hb]; lra|].
    cbn [app] in E. inversion E; subst. rewrite acc_sum_cons. cbn [e_acc]. apply (I1 tr1 tr2). reflexivity.
  - destruct (Qeq_bool (x + dt) target) eqn:E.
    + inversion Hr; subst. split; [|split; [constructor; [exact Hd'|constructor]|exact Hd]].
      intros [|e1 tr1] tr2 E2; [cbn; eapply between0_Qeq; [|exact Hb]; lra|].
      cbn [app] in E2. inversion E2; subst. destruct tr1; [|discriminate].
      cbn. eapply between0_Qeq; [|exact Hb']. lra.
    + apply consE_some in Hr. destruct Hr as (tr' & Hr & ->).
      destruct (IH _ _ _ _ _ Hr) as (I1 & I2 & I3); [apply same_dir_scale; [lra|exact Hd]|exact Hb'|].
      split; [|split; [constructor; [exact Hd'|exact I2]|exact I3]].
      intros [|e1 tr1] tr2 E2; [cbn; eapply between0_Qeq; [|exact Hb]; lra|].
      cbn [app] in E2. inversion E2; subst. rewrite acc_sum_cons. cbn [e_acc e_dt].
      eapply between0_Qeq; [|apply (I1 tr1 tr2); reflexivity]. lra.
Qed.

Lemma tdvp_shrinks : forall fuel it g x tr g', tdvp_loop fuel est target it g x = Some (tr, g') ->
  shrink_ok tdvp_p_restart tr.
Proof.
  pose proof tdvp_consts as (C1 & C2 & C3 & C4).
  induction fuel as [|f IH]; intros it g x tr g' Hr; [discriminate|]. cbn [tdvp_loop] in Hr.
  set (dt := min_abs g (target - x)) in *.
  pose proof (tdvp_clamp_range (est it x dt)) as [P1 P2]. set (p := tdvp_clamp (est it x dt)) in *.
  destruct (Qlt_bool p tdvp_p_restart) eqn:Ep.
  - apply consE_some in Hr. destruct Hr as (tr' & Hr & ->).
    pose proof (tdvp_head _ _ _ _ _ _ Hr) as [Hh Hne]. specialize (IH _ _ _ _ _ Hr).
    destruct tr' as [|e2 tr'']; [congruence|]. cbn [shrink_ok]. split; [|exact IH].
    intros _. cbn [head_dt] in Hh. rewrite Hh. cbn [e_dt].
    apply Qlt_bool_true in Ep. apply shrink_step; lra.
  - destruct (Qeq_bool (x + dt) target).
    + inversion Hr; subst. exact I.
    + apply consE_some in Hr. destruct Hr as (tr' & Hr & ->). specialize (IH _ _ _ _ _ Hr).
      destruct tr' as [|e2 tr'']; [exact I|]. cbn [shrink_ok]. split; [|exact IH]. cbn. discriminate.
Qed.
End Tdvp.

(* ------------------------------------------------------------------ general RK -------------- *)
Section Tdrk.
Variable est : estimate.
Variable target : Q.

Lemma tdrk_head : forall fuel it g x tr g', tdrk_loop fuel est target it g x = Some (tr, g') ->
  head_dt tr (min_abs g (target - x)) /\ tr <> [].
Proof.
  destruct fuel as [|f]; intros it g x tr g' Hr; [discriminate|]. cbn [tdrk_loop] in Hr.
  destruct (Qlt_bool _ tdrk_p_restart).
  - apply consE_some in Hr. destruct Hr as (tr' & _ & ->). split; [reflexivity|discriminate].
  - destruct (Qeq_bool _ target).
    + inversion Hr; subst. split; [reflexivity|discriminate].
    + apply consE_some in Hr. destruct Hr as (tr' & _ & ->). split; [reflexivity|discriminate].
Qed.

Lemma tdrk_partition : forall fuel it g x tr g', tdrk_loop fuel est target it g x = Some (tr, g') ->
  x + acc_sum tr == target.
Proof.
  induction fuel as [|f IH]; intros it g x tr g' Hr; [discriminate|]. cbn [tdrk_loop] in Hr.
  destruct (Qlt_bool _ tdrk_p_restart).
  - apply consE_some in Hr. destruct Hr as (tr' & Hr & ->). rewrite acc_sum_cons. cbn [e_acc]. eapply IH; eassumption.
  - destruct (Qeq_bool _ target) eqn:E.
    + inversion Hr; subst. apply Qeq_bool_eq in E. rewrite acc_sum_cons. cbn [e_acc e_dt]. change (acc_sum []) with 0. lra.
    + apply consE_some in Hr. destruct Hr as (tr' & Hr & ->). rewrite acc_sum_cons. cbn [e_acc e_dt].
      specialize (IH _ _ _ _ _ Hr). lra.
Qed.

Lemma tdrk_invariants : forall fuel it g x tr g', tdrk_loop fuel est target it g x = Some (tr, g') ->
  same_dir g target -> between0 x target ->
  (forall tr1 tr2, tr = tr1 ++ tr2 -> between0 (x + acc_sum tr1) target)
  /\ Forall (fun e => same_dir (e_dt e) target) tr
  /\ same_dir g' target.
Proof.
  pose proof tdrk_consts as (C1 & C2 & C3 & C4).
  induction fuel as [|f IH]; intros it g x tr g' Hr Hd Hb; [discriminate|]. cbn [tdrk_loop] in Hr.
  set (dt := min_abs g (target - x)) in *.
  destruct (step_between g target x Hd Hb) as [Hb' Hd']. fold dt in Hb', Hd'.
  set (p := est it x dt) in *.
  destruct (Qlt_bool p tdrk_p_restart) eqn:Ep.
  - apply consE_some in Hr. destruct Hr as (tr' & Hr & ->).
    pose proof (pymax_ge tdrk_p_min p) as (M1 & _ & _).
    destruct (IH _ _ _ _ _ Hr) as (I1 & I2 & I3); [apply same_dir_scale; [lra|exact Hd']|exact Hb|].
    split; [|split; [constructor; [exact Hd'|exact I2]|exact I3]].
    intros [|e1 tr1] tr2 E; [change (acc_sum []) with 0; eapply between0_Qeq; [|exact Hb]; lra|].
    cbn [app] in E. inversion E; subst. rewrite acc_sum_cons. cbn [e_acc]. apply (I1 tr1 tr2). reflexivity.
  - apply Qlt_bool_false in Ep. destruct (Qeq_bool (dt + x) target) eqn:E.
    + inversion Hr; subst. split; [|split; [constructor; [exact Hd'|constructor]|]].
      * intros [|e1 tr1] tr2 E2; [change (acc_sum []) with 0; eapply between0_Qeq; [|exact Hb]; lra|].
        cbn [app] in E2. inversion E2; subst. destruct tr1; [|discriminate].
        rewrite acc_sum_cons. cbn [e_acc e_dt]. change (acc_sum []) with 0. eapply between0_Qeq; [|exact Hb']. lra.
      * destruct (min_abs_cases (dt * p) g) as [[-> _]|[-> _]]; [apply same_dir_scale; [lra|exact Hd']|exact Hd].
    + apply consE_some in Hr. destruct Hr as (tr' & Hr & ->).
      pose proof (pymin_le p tdrk_p_max) as (_ & _ & [M|M]).
      * destruct (IH _ _ _ _ _ Hr) as (I1 & I2 & I3);
          [apply same_dir_scale; [rewrite M; lra|exact Hd]|eapply between0_Qeq; [|exact Hb']; lra|].
        split; [|split; [constructor; [exact Hd'|exact I2]|exact I3]].
        intros [|e1 tr1] tr2 E2; [change (acc_sum []) with 0; eapply between0_Qeq; [|exact Hb]; lra|].
        cbn [app] in E2. inversion E2; subst. rewrite acc_sum_cons. cbn [e_acc e_dt].
        eapply between0_Qeq; [|apply (I1 tr1 tr2); reflexivity]. lra.
      * destruct (IH _ _ _ _ _ Hr) as (I1 & I2 & I3);
          [apply same_dir_scale; [rewrite M; lra|exact Hd]|eapply between0_Qeq; [|exact Hb']; lra|].
        split; [|split; [constructor; [exact Hd'|exact I2]|exact I3]].
        intros [|e1 tr1] tr2 E2; [change (acc_sum []) with 0; eapply between0_Qeq; [|exact Hb]; lra|].
        cbn [app] in E2. inversion E2; subst. rewrite acc_sum_cons. cbn [e_acc e_dt].
        eapply between0_Qeq; [|apply (I1 tr1 tr2); reflexivity]. lra.
Qed.

Lemma tdrk_shrinks : forall fuel it g x tr g', tdrk_loop fuel est target it g x = Some (tr, g') ->
  shrink_ok tdrk_p_restart tr.
Proof.
  pose proof tdrk_consts as (C1 & C2 & C3 & C4).
  induction fuel as [|f IH]; intros it g x tr g' Hr; [discriminate|]. cbn [tdrk_loop] in Hr.
  set (dt := min_abs g (target - x)) in *. set (p := est it x dt) in *.
  destruct (Qlt_bool p tdrk_p_restart) eqn:Ep.
  - apply consE_some in Hr. destruct Hr as (tr' & Hr & ->).
    pose proof (tdrk_head _ _ _ _ _ _ Hr) as [Hh Hne]. specialize (IH _ _ _ _ _ Hr).
    destruct tr' as [|e2 tr'']; [congruence|]. cbn [shrink_ok]. split; [|exact IH].
    intros _. cbn [head_dt] in Hh. rewrite Hh. cbn [e_dt].
    apply Qlt_bool_true in Ep. pose proof (pymax_ge tdrk_p_min p) as (M1 & M2 & [M|M]);
      rewrite M in M1, M2 |- *; apply shrink_step; lra.
  - destruct (Qeq_bool (dt + x) target).
    + inversion Hr; subst. exact I.
    + apply consE_some in Hr. destruct Hr as (tr' & Hr & ->). specialize (IH _ _ _ _ _ Hr).
      destruct tr' as [|e2 tr'']; [exact I|]. cbn [shrink_ok]. split; [|exact IH]. cbn. discriminate.
Qed.

(* the time by which the carried STATE has been propagated *)
Lemma tried_acc_sum tr : Forall (fun e => e_acc e = true) tr -> tried_sum tr == acc_sum tr.
Proof.
  induction 1 as [|e tr He _ IH]; [reflexivity|].
  rewrite acc_sum_cons, He. change (tried_sum (e :: tr)) with (e_dt e + tried_sum tr). now rewrite IH.
Qed.

Lemma tdrk_applied_ok : forall fuel it g x tr g', tdrk_loop fuel est target it g x = Some (tr, g') ->
  x + applied_sum false tr == target.
Proof. intros. unfold applied_sum. eapply tdrk_partition; eassumption. Qed.
End Tdrk.

(* with the trial result bound to the carried state, a single rejection makes the state overshoot:
   target 1, guess 1, first estimate 1/4 (rejected), afterwards 1 (accepted): the state is propagated
   by 1 + 1/4 + 3/4 = 2 while the bookkeeping says 1 *)
Definition est_reject_once : estimate := fun it _ _ => match it with O => 1 # 4 | _ => 1 end.
Lemma tdrk_carry_overshoots :
  exists tr g', tdrk_run 10 est_reject_once 1 1 = Some (tr, g')
                /\ acc_sum tr == 1 /\ applied_sum true tr == 2 /\ ~ applied_sum true tr == 1.
Proof.
  eexists. eexists. split; [vm_compute; reflexivity|]. vm_compute. repeat split; try discriminate.
Qed.

(* ------------------------------------------------------------------ Taylor P&C -------------- *)
Lemma step0 g r : same_dir g r -> between0 (min_abs g r) r /\ same_dir (min_abs g r) r.
Proof.
  intros Hd.
  destruct (min_abs_cases g r) as [[-> Hlt]|[-> Hle]].
  - destruct (Qabs_cases g) as [[Hg Eg]|[Hg Eg]]; destruct (Qabs_cases r) as [[Hr Er]|[Hr Er]];
      rewrite Eg, Er in Hlt; unfold between0, same_dir in *; split; lra.
  - unfold between0, same_dir in *. split; lra.
Qed.

Section Pc.
Variable est : estimate.

Lemma pc_head : forall fuel it g r tr g', pc_loop fuel est it g r = Some (tr, g') ->
  head_dt tr (min_abs g r) /\ tr <> [].
Proof.
  destruct fuel as [|f]; intros it g r tr g' Hr; [discriminate|]. cbn [pc_loop] in Hr.
  destruct (Qeq_bool _ r); destruct (Qlt_bool _ pc_p_restart);
    try (apply consE_some in Hr; destruct Hr as (tr' & _ & ->); split; [reflexivity|discriminate]).
  inversion Hr; subst. split; [reflexivity|discriminate].
Qed.

Lemma pc_partition : forall fuel it g r tr g', pc_loop fuel est it g r = Some (tr, g') -> acc_sum tr == r.
Proof.
  induction fuel as [|f IH]; intros it g r tr g' Hr; [discriminate|]. cbn [pc_loop] in Hr.
  destruct (Qeq_bool _ r) eqn:E; destruct (Qlt_bool _ pc_p_restart).
  - apply consE_some in Hr. destruct Hr as (tr' & Hr & ->). rewrite acc_sum_cons. cbn [e_acc]. eapply IH; eassumption.
  - inversion Hr; subst. apply Qeq_bool_eq in E. rewrite acc_sum_cons. cbn [e_acc e_dt]. change (acc_sum []) with 0. lra.
  - apply consE_some in Hr. destruct Hr as (tr' & Hr & ->). rewrite acc_sum_cons. cbn [e_acc]. eapply IH; eassumption.
  - apply consE_some in Hr. destruct Hr as (tr' & Hr & ->). rewrite acc_sum_cons. cbn [e_acc e_dt].
    specialize (IH _ _ _ _ _ Hr). lra.
Qed.

Lemma same_dir_weaken x r r' : between0 r' r -> ~ r' == 0 -> same_dir x r' -> same_dir x r.
Proof. unfold between0, same_dir. intros Hb Hn Hs. destruct (Qlt_le_dec r' 0), (Qlt_le_dec 0 r'); lra. Qed.

Lemma pc_invariants : forall fuel it g r tr g', pc_loop fuel est it g r = Some (tr, g') ->
  same_dir g r ->
  (forall tr1 tr2, tr = tr1 ++ tr2 -> between0 (acc_sum tr1) r)
  /\ Forall (fun e => same_dir (e_dt e) r) tr
  /\ same_dir g' r.
Proof.
  pose proof pc_consts as (C1 & C2 & C3 & C4).
  induction fuel as [|f IH]; intros it g r tr g' Hr Hd; [discriminate|]. cbn [pc_loop] in Hr.
  set (dt := min_abs g r) in *.
  destruct (step0 g r Hd) as [Hb' Hd']. fold dt in Hb', Hd'.
  set (p := est it r dt) in *.
  assert (B0 : between0 0 r) by (unfold between0, same_dir in *; lra).
  destruct (Qeq_bool dt r) eqn:E; destruct (Qlt_bool p pc_p_restart) eqn:Ep.
  - apply consE_some in Hr. destruct Hr as (tr' & Hr & ->).
    pose proof (pymax_ge pc_p_min p) as (M1 & _ & _).
    destruct (IH _ _ _ _ _ Hr) as (I1 & I2 & I3); [apply same_dir_scale; [lra|exact Hd']|].
    split; [|split; [constructor; [exact Hd'|exact I2]|exact I3]].
    intros [|e1 tr1] tr2 E2; [exact B0|].
    cbn [app] in E2. inversion E2; subst. rewrite acc_sum_cons. cbn [e_acc]. apply (I1 tr1 tr2). reflexivity.
  - apply Qlt_bool_false in Ep. inversion Hr; subst. split; [|split; [constructor; [exact Hd'|constructor]|]].
    + intros [|e1 tr1] tr2 E2; [exact B0|].
      cbn [app] in E2. inversion E2; subst. destruct tr1; [|discriminate].
      rewrite acc_sum_cons. cbn [e_acc e_dt]. change (acc_sum []) with 0. eapply between0_Qeq; [|exact Hb']. lra.
    + destruct (min_abs_cases (dt * p) g) as [[-> _]|[-> _]]; [apply same_dir_scale; [lra|exact Hd']|exact Hd].
  - apply consE_some in Hr. destruct Hr as (tr' & Hr & ->).
    pose proof (pymax_ge pc_p_min p) as (M1 & _ & _).
    destruct (IH _ _ _ _ _ Hr) as (I1 & I2 & I3); [apply same_dir_scale; [lra|exact Hd]|].
    split; [|split; [constructor; [exact Hd'|exact I2]|exact I3]].
    intros [|e1 tr1] tr2 E2; [exact B0|].
    cbn [app] in E2. inversion E2; subst. rewrite acc_sum_cons. cbn [e_acc]. apply (I1 tr1 tr2). reflexivity.
  - apply Qlt_bool_false in Ep. apply consE_some in Hr. destruct Hr as (tr' & Hr & ->).
    assert (Hne : ~ r - dt == 0).
    { intros Z. assert (Z' : dt == r) by lra. apply Qeq_eq_bool in Z'. congruence. }
    assert (Hbr : between0 (r - dt) r) by (unfold between0 in *; lra).
    assert (Hdg : same_dir g (r - dt)).
    { (* not the last step: dt = g, strictly shorter than r *)
      destruct (min_abs_cases g r) as [[Em Hlt]|[Em Hle]]; fold dt in Em.
      - rewrite Em in *. destruct (Qabs_cases g) as [[Hg Eg]|[Hg Eg]]; destruct (Qabs_cases r) as [[Hr' Er]|[Hr' Er]];
          rewrite Eg, Er in Hlt; unfold same_dir, between0 in *; lra.
      - exfalso. apply Hne. rewrite Em. lra. }
    pose proof (pymin_le p pc_p_max) as (_ & _ & M).
    assert (Hpp : 0 <= pymin p pc_p_max) by (destruct M as [M|M]; rewrite M; lra).
    destruct (IH _ _ _ _ _ Hr) as (I1 & I2 & I3); [apply same_dir_scale; [exact Hpp|exact Hdg]|].
    split; [|split; [constructor; [exact Hd'|]|]].
    + intros [|e1 tr1] tr2 E2; [exact B0|].
      cbn [app] in E2. inversion E2; subst. rewrite acc_sum_cons. cbn [e_acc e_dt].
      pose proof (I1 tr1 tr2 eq_refl) as Hb2. fold dt. unfold between0 in *. lra.
    + eapply Forall_impl; [|exact I2]. intros e He. eapply same_dir_weaken; eassumption.
    + eapply same_dir_weaken; eassumption.
Qed.

Lemma pc_shrinks : forall fuel it g r tr g', pc_loop fuel est it g r = Some (tr, g') ->
  shrink_ok pc_p_restart tr.
Proof.
  pose proof pc_consts as (C1 & C2 & C3 & C4).
  induction fuel as [|f IH]; intros it g r tr g' Hr; [discriminate|]. cbn [pc_loop] in Hr.
  set (dt := min_abs g r) in *. set (p := est it r dt) in *.
  destruct (Qeq_bool dt r) eqn:E; destruct (Qlt_bool p pc_p_restart) eqn:Ep.
  - apply consE_some in Hr. destruct Hr as (tr' & Hr & ->).
    pose proof (pc_head _ _ _ _ _ _ Hr) as [Hh Hne]. specialize (IH _ _ _ _ _ Hr).
    destruct tr' as [|e2 tr'']; [congruence|]. cbn [shrink_ok]. split; [|exact IH].
    intros _. cbn [head_dt] in Hh. rewrite Hh. cbn [e_dt].
    apply Qlt_bool_true in Ep. pose proof (pymax_ge pc_p_min p) as (M1 & M2 & [M|M]);
      rewrite M in M1, M2 |- *; apply shrink_step; lra.
  - inversion Hr; subst. exact I.
  - apply consE_some in Hr. destruct Hr as (tr' & Hr & ->).
    pose proof (pc_head _ _ _ _ _ _ Hr) as [Hh Hne]. specialize (IH _ _ _ _ _ Hr).
    destruct tr' as [|e2 tr'']; [congruence|]. cbn [shrink_ok]. split; [|exact IH].
    intros _. cbn [head_dt] in Hh. rewrite Hh. cbn [e_dt].
    (* not the last step: the tried dt is the guess itself *)
    assert (Eg : dt = g).
    { destruct (min_abs_cases g r) as [[Em _]|[Em _]]; fold dt in Em; [exact Em|].
      exfalso. rewrite Em in E. rewrite Qeq_bool_refl in E. discriminate. }
    rewrite Eg.
    apply Qlt_bool_true in Ep. pose proof (pymax_ge pc_p_min p) as (M1 & M2 & [M|M]);
      rewrite M in M1, M2 |- *; apply shrink_step; lra.
  - apply consE_some in Hr. destruct Hr as (tr' & Hr & ->). specialize (IH _ _ _ _ _ Hr).
    destruct tr' as [|e2 tr'']; [exact I|]. cbn [shrink_ok]. split; [|exact IH]. cbn. discriminate.
Qed.
End Pc.

(* ================================================================== statements from the initial state *)
Lemma between0_start t : same_dir t t -> between0 0 t.
Proof. unfold same_dir, between0. lra. Qed.
Lemma same_dir_refl_of g t : same_dir g t -> same_dir t t.
Proof. unfold same_dir. lra. Qed.

Section Top.
Variable est : estimate.
Variables (fuel : nat) (target guess : Q) (tr : list event) (g' : Q).

Lemma tdvp_accepted_steps_partition : tdvp_run fuel est target guess = Some (tr, g') -> acc_sum tr == target.
Proof. intros Hr. pose proof (tdvp_partition _ _ _ _ _ _ _ _ Hr). lra. Qed.
Lemma tdrk_accepted_steps_partition : tdrk_run fuel est target guess = Some (tr, g') -> acc_sum tr == target.
Proof. intros Hr. pose proof (tdrk_partition _ _ _ _ _ _ _ _ Hr). lra. Qed.
Lemma pc_accepted_steps_partition : pc_run fuel est target guess = Some (tr, g') -> acc_sum tr == target.
Proof. intros Hr. exact (pc_partition _ _ _ _ _ _ _ Hr). Qed.

Lemma tdvp_never_overshoots : tdvp_run fuel est target guess = Some (tr, g') -> same_dir guess target ->
  forall tr1 tr2, tr = tr1 ++ tr2 -> between0 (acc_sum tr1) target.
Proof.
  intros Hr Hd tr1 tr2 E.
  destruct (tdvp_invariants _ _ _ _ _ _ _ _ Hr Hd (between0_start _ (same_dir_refl_of _ _ Hd))) as (I1 & _ & _).
  eapply between0_Qeq; [|apply (I1 tr1 tr2 E)]. lra.
Qed.
Lemma tdrk_never_overshoots : tdrk_run fuel est target guess = Some (tr, g') -> same_dir guess target ->
  forall tr1 tr2, tr = tr1 ++ tr2 -> between0 (acc_sum tr1) target.
Proof.
  intros Hr Hd tr1 tr2 E.
  destruct (tdrk_invariants _ _ _ _ _ _ _ _ Hr Hd (between0_start _ (same_dir_refl_of _ _ Hd))) as (I1 & _ & _).
  eapply between0_Qeq; [|apply (I1 tr1 tr2 E)]. lra.
Qed.
Lemma pc_never_overshoots : pc_run fuel est target guess = Some (tr, g') -> same_dir guess target ->
  forall tr1 tr2, tr = tr1 ++ tr2 -> between0 (acc_sum tr1) target.
Proof.
  intros Hr Hd tr1 tr2 E. destruct (pc_invariants _ _ _ _ _ _ _ Hr Hd) as (I1 & _ & _). exact (I1 tr1 tr2 E).
Qed.

Lemma tdvp_direction_preserved : tdvp_run fuel est target guess = Some (tr, g') -> same_dir guess target ->
  Forall (fun e => same_dir (e_dt e) target) tr /\ same_dir g' target.
Proof.
  intros Hr Hd.
  destruct (tdvp_invariants _ _ _ _ _ _ _ _ Hr Hd (between0_start _ (same_dir_refl_of _ _ Hd))) as (_ & I2 & I3). now split.
Qed.
Lemma tdrk_direction_preserved : tdrk_run fuel est target guess = Some (tr, g') -> same_dir guess target ->
  Forall (fun e => same_dir (e_dt e) target) tr /\ same_dir g' target.
Proof.
  intros Hr Hd.
  destruct (tdrk_invariants _ _ _ _ _ _ _ _ Hr Hd (between0_start _ (same_dir_refl_of _ _ Hd))) as (_ & I2 & I3). now split.
Qed.
Lemma pc_direction_preserved : pc_run fuel est target guess = Some (tr, g') -> same_dir guess target ->
  Forall (fun e => same_dir (e_dt e) target) tr /\ same_dir g' target.
Proof. intros Hr Hd. destruct (pc_invariants _ _ _ _ _ _ _ Hr Hd) as (_ & I2 & I3). now split. Qed.

Lemma tdvp_reject_shrinks : tdvp_run fuel est target guess = Some (tr, g') ->
  shrink_ok tdvp_p_restart tr /\ tdvp_p_restart < 1.
Proof. intros Hr. split; [eapply tdvp_shrinks; exact Hr|reflexivity]. Qed.
Lemma tdrk_reject_shrinks : tdrk_run fuel est target guess = Some (tr, g') ->
  shrink_ok tdrk_p_restart tr /\ tdrk_p_restart < 1.
Proof. intros Hr. split; [eapply tdrk_shrinks; exact Hr|reflexivity]. Qed.
Lemma pc_reject_shrinks : pc_run fuel est target guess = Some (tr, g') ->
  shrink_ok pc_p_restart tr /\ pc_p_restart < 1.
Proof. intros Hr. split; [eapply pc_shrinks; exact Hr|reflexivity]. Qed.

(* the state returned by the general-RK controller has been propagated by exactly the requested time
   -- provided a rejected trial does not replace the carried state (flag read from the source) *)
Lemma tdrk_state_time : tdrk_carry_rejected = false ->
  tdrk_run fuel est target guess = Some (tr, g') -> applied_sum tdrk_carry_rejected tr == target.
Proof. intros -> Hr. pose proof (tdrk_applied_ok _ _ _ _ _ _ _ _ Hr). lra. Qed.
End Top.

Lemma tdrk_state_time_refuted : tdrk_carry_rejected = true ->
  exists est fuel target guess tr g', tdrk_run fuel est target guess = Some (tr, g')
     /\ same_dir guess target /\ ~ applied_sum tdrk_carry_rejected tr == target.
Proof.
  intros ->. destruct tdrk_carry_overshoots as (tr & g' & Hr & _ & _ & Hn).
  exists est_reject_once, 10%nat, 1, 1, tr, g'. split; [exact Hr|]. split; [|exact Hn].
  unfold same_dir. left. split; unfold Qle; cbn; lia.
Qed.

(* splitting t into two successive calls: the accepted sub-steps of both calls partition t1 + t2 *)
Lemma split_calls_partition (est1 est2 : estimate) fuel1 fuel2 t1 t2 gs tr1 g1 tr2 g2 :
  tdvp_run fuel1 est1 t1 gs = Some (tr1, g1) -> tdvp_run fuel2 est2 t2 g1 = Some (tr2, g2) ->
  acc_sum (tr1 ++ tr2) == t1 + t2.
Proof.
  intros H1 H2. rewrite acc_sum_app.
  rewrite (tdvp_accepted_steps_partition _ _ _ _ _ _ H1), (tdvp_accepted_steps_partition _ _ _ _ _ _ H2). reflexivity.
Qed.

(* the offset handed to the stage Hamiltonians is the accepted time so far: position of the k-th event = sum of the
   accepted steps before it (general-RK controller, started at 0) *)
Lemma tdrk_pos_is_accepted_time (est : estimate) (target : Q) : forall fuel it g x tr g',
  tdrk_loop fuel est target it g x = Some (tr, g') ->
  forall tr1 e tr2, tr = tr1 ++ e :: tr2 -> e_pos e == x + acc_sum tr1.
Proof.
  induction fuel as [|f IH]; intros it g x tr g' Hr tr1 e tr2 E; [discriminate|]. cbn [tdrk_loop] in Hr.
  destruct (Qlt_bool _ tdrk_p_restart).
  - apply consE_some in Hr. destruct Hr as (tr' & Hr & Et). rewrite Et in E.
    destruct tr1 as [|e1 tr1]; cbn [app] in E; inversion E; subst.
    + cbn [e_pos]. change (acc_sum []) with 0. lra.
    + rewrite acc_sum_cons. cbn [e_acc]. eapply IH; [exact Hr|reflexivity].
  - destruct (Qeq_bool _ target).
    + inversion Hr as [[Et Eg]]. rewrite <- Et in E.
      destruct tr1 as [|e1 tr1]; cbn [app] in E; inversion E; subst.
      * cbn [e_pos]. change (acc_sum []) with 0. lra.
      * destruct tr1; discriminate.
    + apply consE_some in Hr. destruct Hr as (tr' & Hr & Et). rewrite Et in E.
      destruct tr1 as [|e1 tr1]; cbn [app] in E; inversion E; subst.
      * cbn [e_pos]. change (acc_sum []) with 0. lra.
      * rewrite acc_sum_cons. cbn [e_acc e_dt]. rewrite (IH _ _ _ _ _ Hr tr1 e tr2 eq_refl). lra.
Qed.

(* ================================================================== the loops unfold to the GENERATED step functions == *)
(* Gen/StepCtlGen.v is produced by tx/stepctlgen.py from the loop bodies of the three controllers (every comparison, min / max /
   min_abs, update formula and the order of the tests).  The loops all theorems above are about are exactly the iteration of
   those generated steps: *)
Ltac split_ifs := repeat match goal with |- context [if ?c then _ else _] => destruct c eqn:? end.

Lemma tdvp_loop_gen (est : estimate) target f it g x :
  tdvp_loop (S f) est target it g x =
  let dt := tdvp_dt_gen g x target in
  let ev acc := {| e_dt := dt; e_acc := acc; e_pos := x; e_guess := g |} in
  match tdvp_step_gen g x target dt (est it x dt) with
  | Reject g' => consE (ev false) (tdvp_loop f est target (S it) g' x)
  | Sub g' x' => consE (ev true) (tdvp_loop f est target (S it) g' x')
  | Final gf => Some ([ev true], gf)
  end.
Proof.
  cbn [tdvp_loop]. unfold tdvp_dt_gen, tdvp_step_gen, tdvp_clamp. cbv zeta.
  set (dt := min_abs g (target - x)). set (p0 := est it x dt). split_ifs; try reflexivity; try congruence.
Qed.

Lemma pc_loop_gen (est : estimate) f it g r :
  pc_loop (S f) est it g r =
  let dt := pc_dt_gen g r r in
  let ev acc := {| e_dt := dt; e_acc := acc; e_pos := r; e_guess := g |} in
  match pc_step_gen g r r dt (est it r dt) with
  | Reject g' => consE (ev false) (pc_loop f est (S it) g' r)
  | Sub g' r' => consE (ev true) (pc_loop f est (S it) g' r')
  | Final gf => Some ([ev true], gf)
  end.
Proof.
  cbn [pc_loop]. unfold pc_dt_gen, pc_step_gen. cbv zeta.
  set (dt := min_abs g r). set (p0 := est it r dt). split_ifs; try reflexivity; try congruence.
Qed.

Lemma tdrk_loop_gen (est : estimate) target f it g x :
  tdrk_loop (S f) est target it g x =
  let dt := tdrk_dt_gen g x target in
  let ev acc := {| e_dt := dt; e_acc := acc; e_pos := x; e_guess := g |} in
  match tdrk_step_gen g x target dt (est it x dt) with
  | Reject g' => consE (ev false) (tdrk_loop f est target (S it) g' x)
  | Sub g' x' => consE (ev true) (tdrk_loop f est target (S it) g' x')
  | Final gf => Some ([ev true], gf)
  end.
Proof.
  cbn [tdrk_loop]. unfold tdrk_dt_gen, tdrk_step_gen. cbv zeta.
  set (dt := min_abs g (target - x)). set (p0 := est it x dt). split_ifs; try reflexivity; try congruence.
Qed.

(* ================================================================== the error measure is a RELATIVE error ================= *)
(* Gen/StepCtlGen.v also carries the expression the enlargement factor is computed from (read from the source).  Scaling the state by
   any non-zero factor c scales both the distance of the two solutions and the norm of the state by |c|: the measure -- hence p, hence
   every accept / reject decision and every sub-step -- does not change. *)
Lemma rel_err_scale (c d n : Q) : ~ c == 0 -> (c * d) / (c * n) == d / n.
Proof.
  intros Hc. unfold Qdiv. rewrite Qinv_mult_distr.
  transitivity ((c * / c) * (d * / n)); [ring|]. rewrite Qmult_inv_r by exact Hc. ring.
Qed.

Lemma err_gen_scale_invariant (c d n : Q) : ~ c == 0 ->
  tdvp_err_gen (c * d) (c * n) == tdvp_err_gen d n /\ pc_err_gen (c * d) (c * n) == pc_err_gen d n
  /\ tdrk_err_gen (c * d) (c * n) == tdrk_err_gen d n.
Proof. intros Hc. unfold tdvp_err_gen, pc_err_gen, tdrk_err_gen. repeat split; now apply rel_err_scale. Qed.
