(* C16 -- Pauli algebra (finite, complete) and unit-matrix algebra of the electron bases (all sizes). *)
From Coq Require Import QArith ZArith List String Bool Arith Lia Qring.
Import ListNotations.
From RV Require Import Model.Ladder Model.Pauli Proofs.LadderProofs.
Close Scope Q_scope.

(* sigma_a sigma_b = delta_ab 1 + i sum_c eps_abc sigma_c   -- all nine products *)
Lemma pauli_algebra : forall a b,
  m2_mul (sigma a) (sigma b) = m2_add (if ax_eqb a b then m2_id else m2_zero) (m2_scale gi_i (eps_sigma a b)).
Proof. intros [] []; vm_compute; reflexivity. Qed.

Lemma pauli_hermitian_traceless : forall a, m2_dagger (sigma a) = sigma a /\ m2_trace (sigma a) = (0, 0)%Z.
Proof. intros []; vm_compute; split; reflexivity. Qed.

Lemma pauli_anticommute : forall a b, ax_eqb a b = false ->
  m2_add (m2_mul (sigma a) (sigma b)) (m2_mul (sigma b) (sigma a)) = m2_zero.
Proof. intros [] [] H; try discriminate H; vm_compute; reflexivity. Qed.

(* raising / lowering operators and i sigma_y *)
Lemma pauli_ladder :
  m2_scale (gi_of 2) sP = m2_add sX (m2_scale gi_i sY) /\
  m2_scale (gi_of 2) sM = m2_sub sX (m2_scale gi_i sY) /\
  m2_dagger sP = sM /\
  m2_add (m2_mul sP sM) (m2_mul sM sP) = m2_id /\
  m2_sub (m2_mul sP sM) (m2_mul sM sP) = sZ /\
  m2_sub (m2_mul sZ sP) (m2_mul sP sZ) = m2_scale (gi_of 2) sP /\
  m2_sub (m2_mul sZ sM) (m2_mul sM sZ) = m2_scale (gi_of (-2)) sM /\
  m2_mul sP sP = m2_zero /\ m2_mul sM sM = m2_zero /\
  siY = m2_scale gi_i sY /\ m2_mul siY siY = m2_scale (gi_of (-1)) m2_id.
Proof. vm_compute. repeat split; reflexivity. Qed.

(* Heisenberg exchange: (XX + YY)/2 = s+ s- + s- s+ on two sites is checked by the dense oracle; on one site: *)
Lemma pauli_xx_yy : m2_add (m2_mul sX sX) (m2_mul sY sY) = m2_scale (gi_of 2) (m2_add (m2_mul sP sM) (m2_mul sM sP)).
Proof. vm_compute. reflexivity. Qed.

(* Heisenberg exchange on two sites:  S.S = (XX + YY + ZZ)/4 = ZZ/4 + (s+ s- + s- s+)/2 *)
Lemma heisenberg_exchange :
  gl_add (kron2 sX sX) (kron2 sY sY) = gl_scale (gi_of 2) (gl_add (kron2 sP sM) (kron2 sM sP)).
Proof. vm_compute. reflexivity. Qed.

(* every alias denotes the same matrix as its canonical name *)
Lemma spin_aliases :
  forallb (fun p => match lookup (fst p) spin_symbols, lookup (snd p) spin_symbols with
                    | Some a, Some b => forallb (fun z => Z.eqb (fst z) (snd z)) (combine (flat_m2 a) (flat_m2 b))
                    | _, _ => false end)
          [("X","sigma_x"); ("x","sigma_x"); ("Y","sigma_y"); ("y","sigma_y"); ("Z","sigma_z"); ("z","sigma_z");
           ("iY","isigma_y"); ("iy","isigma_y"); ("+","sigma_+"); ("-","sigma_-")]%string = true.
Proof. vm_compute. reflexivity. Qed.

(* ------------------------------------------------------------------ unit matrices *)
Local Open Scope Q_scope.

Ltac eqbs' :=
  repeat match goal with
         | |- context [(?a =? ?b)%nat] => destruct (Nat.eqb_spec a b)
         | |- context [(?a <? ?b)%nat] => destruct (Nat.ltb_spec a b)
         end.

(* E_ij E_kl = delta_jk E_il   for every size n > j, k *)
Lemma unit_mul n i j k l a b : (j < n)%nat -> (k < n)%nat ->
  mmul n (unit_mat i j) (unit_mat k l) a b == if (j =? k)%nat then unit_mat i l a b else 0.
Proof.
  intros Hj Hk. unfold mmul. rewrite (qsum_delta _ _ j).
  - unfold unit_mat. eqbs'; cbn [andb]; try (exfalso; lia); ring.
  - intros x Hx Hne. unfold unit_mat. eqbs'; cbn [andb]; try (exfalso; lia); ring.
Qed.

(* BasisMultiElectronVac: the two-factor matrix is the product of the one-factor matrices (n electron states + vacuum) *)
Lemma vac_product n i j a b : mmul (n + 1) (mev_create i) (mev_annih j) a b == mev_hop i j a b.
Proof.
  unfold mev_create, mev_annih, mev_hop. rewrite unit_mul by lia. reflexivity.
Qed.

(* ... its restriction to the one-electron states is the BasisMultiElectron matrix, and it annihilates the vacuum *)
Lemma vac_restriction (i j a b : nat) :
  mev_hop i j (a + 1)%nat (b + 1)%nat == me_hop i j a b /\ mev_hop i j 0%nat b == 0 /\ mev_hop i j a 0%nat == 0.
Proof.
  unfold mev_hop, me_hop, unit_mat. repeat split; eqbs'; cbn [andb]; try (exfalso; lia); reflexivity.
Qed.

(* hopping matrices compose like unit matrices inside the one-electron space *)
Lemma me_hop_compose n i j k l a b : (j < n)%nat -> (k < n)%nat ->
  mmul n (me_hop i j) (me_hop k l) a b == if (j =? k)%nat then me_hop i l a b else 0.
Proof. apply unit_mul. Qed.

(* BasisSimpleElectron *)
Lemma simple_electron a b : (a < 2)%nat -> (b < 2)%nat ->
  mmul 2 se_create se_annih a b == se_number a b /\
  mmul 2 se_annih se_create a b == mono_inf MI a b - se_number a b.
Proof.
  intros Ha Hb. unfold se_create, se_annih, se_number. rewrite !unit_mul by lia.
  cbn [Nat.eqb mono_inf]. unfold unit_mat. split; [reflexivity|].
  destruct a as [|[|a]], b as [|[|b]]; try lia; vm_compute; reflexivity.
Qed.
