From Coq Require Import Ring List Arith Lia.
Import ListNotations.
From RV Require Import Base.CRing Base.BigSum Model.Chain.

Section ChainProofs.
Variable R : CRing.
Add Ring RR : (rth R).
Notation "0" := (r0 R).
Notation "1" := (r1 R).
Infix "+" := (radd R).
Infix "*" := (rmul R).

Lemma lastdim_cons {A} dl d (t : A) c : lastdim dl ((d, t) :: c) = lastdim d c.
Proof. reflexivity. Qed.

Lemma lastdim_app {A} dl (a b : list (nat * A)) : lastdim dl (a ++ b) = lastdim (lastdim dl a) b.
Proof. unfold lastdim. apply fold_left_app. Qed.

(* identity chain: entries outside the diagonal vanish, and summing against it selects *)
Lemma chain3_nil l r : @chain3 R [] [] l r = if Nat.eqb l r then 1 else 0.
Proof. reflexivity. Qed.

(* splitting a chain at any cut: the product of the two halves summed over the cut bond *)
Lemma chain3_app (a b : list (nat * T3 R)) : forall (s1 s2 : list nat) dl l r,
  length s1 = length a -> (l < dl)%nat ->
  chain3 (a ++ b) (s1 ++ s2) l r =
  sumn (lastdim dl a) (fun m => chain3 a s1 l m * chain3 b s2 m r).
Proof.
  induction a as [|[d t] a IH]; intros s1 s2 dl l r Hlen Hl.
  - destruct s1; [|discriminate]. cbn [app lastdim fold_left chain3].
    rewrite (sumn_ext R dl _ (fun m => if Nat.eqb m l then chain3 b s2 m r else 0)).
    + rewrite (sumn_delta R dl l (fun m => chain3 b s2 m r) Hl). reflexivity.
    + intros m _. rewrite (Nat.eqb_sym l m). destruct (Nat.eqb m l); ring.
  - destruct s1 as [|p s1]; [discriminate|]. cbn in Hlen.
    cbn [app chain3]. rewrite lastdim_cons.
    rewrite (sumn_ext R d _ (fun m => sumn (lastdim d a) (fun m' => t l p m * (chain3 a s1 m m' * chain3 b s2 m' r)))).
    2:{ intros m Hm. rewrite (IH s1 s2 d m r) by (try lia; exact Hm). rewrite sumn_scale_l. reflexivity. }
    rewrite sumn_exchange. apply sumn_ext. intros m' Hm'.
    rewrite <- sumn_scale_r. apply sumn_ext. intros m Hm. ring.
Qed.

(* linearity of the chain in the first site tensor, used by every "one site changes" argument *)
Lemma chain3_scale_first c d (t : T3 R) ts s l r :
  chain3 ((d, fun a p b => c * t a p b) :: ts) s l r = c * chain3 ((d, t) :: ts) s l r.
Proof.
  destruct s as [|p s]; cbn [chain3]; [ring|].
  rewrite <- sumn_scale_l. apply sumn_ext. intros m _. ring.
Qed.

End ChainProofs.
