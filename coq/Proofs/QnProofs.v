(* Quantum-number labels: meaning of move_qnidx, sector containment, preservation of validity by the exact
   operations, soundness of the boolean checker.                                                           *)
From Coq Require Import Ring List Arith Lia Bool ZArith.
Import ListNotations.
From RV Require Import Base.CRing Base.BigSum Model.Chain Proofs.ChainProofs Model.Mp Proofs.MpProofs Model.Qn.

Local Open Scope Z_scope.

(* ================================================================== list helpers *)
Lemma nth_mapi_from_gen {A} (F : nat -> list A -> list A) (HF : forall j, F j [] = []) :
  forall q k i, nth i (mapi_from F k q) [] = F (k + i)%nat (nth i q []).
Proof.
  induction q as [|x q IH]; intros k i.
  - destruct i; cbn; rewrite HF; reflexivity.
  - destruct i as [|i]; cbn [mapi_from nth].
    + rewrite Nat.add_0_r. reflexivity.
    + rewrite IH. f_equal. lia.
Qed.

Lemma length_mapi_from {A B} (f : nat -> A -> B) : forall q k, length (mapi_from f k q) = length q.
Proof. induction q as [|x q IH]; intros k; cbn [mapi_from length]; [reflexivity|]. rewrite IH. reflexivity. Qed.

Lemma nth_zipw {A B C} (f : A -> B -> C) : forall (a : list A) (b : list B) i da db dc,
  (i < length a)%nat -> (i < length b)%nat -> nth i (zipw f a b) dc = f (nth i a da) (nth i b db).
Proof.
  induction a as [|x a IH]; intros b i da db dc Ha Hb; [cbn in Ha; lia|].
  destruct b as [|y b]; [cbn in Hb; lia|].
  destruct i as [|i]; cbn [zipw nth]; [reflexivity|]. apply IH; cbn in Ha, Hb; lia.
Qed.

Lemma length_zipw {A B C} (f : A -> B -> C) : forall (a : list A) (b : list B),
  length (zipw f a b) = Nat.min (length a) (length b).
Proof.
  induction a as [|x a IH]; intros b; [reflexivity|]. destruct b as [|y b]; [reflexivity|].
  cbn [zipw length]. rewrite IH. reflexivity.
Qed.

Lemma length_set_first {A} (q : list A) z : length (set_first q z) = length q.
Proof. destruct q; reflexivity. Qed.
Lemma length_set_last {A} : forall (q : list A) z, length (set_last q z) = length q.
Proof.
  induction q as [|x q IH]; intros z; [reflexivity|]. cbn [set_last]. destruct q as [|y q]; [reflexivity|].
  cbn [length]. f_equal. apply (IH z).
Qed.
Lemma nth_set_first {A} (q : list A) z i d : (0 < length q)%nat ->
  nth i (set_first q z) d = if Nat.eqb i 0 then z else nth i q d.
Proof. destruct q as [|x q]; [cbn; lia|]. destruct i; reflexivity. Qed.
Lemma nth_set_last {A} : forall (q : list A) z i d, (i < length q)%nat ->
  nth i (set_last q z) d = if Nat.eqb (S i) (length q) then z else nth i q d.
Proof.
  induction q as [|x q IH]; intros z i d Hi; [cbn in Hi; lia|].
  cbn [set_last]. destruct q as [|y q].
  - destruct i; [reflexivity|cbn in Hi; lia].
  - destruct i as [|i]; [reflexivity|].
    cbn [nth]. rewrite IH by (cbn in Hi |- *; lia). cbn [length Nat.eqb]. reflexivity.
Qed.

Lemma nth_outer_Z (qo qm : list Z) : forall lo lm, (lo < length qo)%nat -> (lm < length qm)%nat ->
  nth (lo * length qm + lm) (@outer ZLab qo qm) 0 = nth lo qo 0 + nth lm qm 0.
Proof.
  unfold outer. cbn [lab ZLab ladd]. induction qo as [|x qo IH]; intros lo lm Hlo Hlm; [cbn in Hlo; lia|].
  cbn [flat_map]. destruct lo as [|lo].
  - cbn [Nat.mul Nat.add nth]. rewrite app_nth1 by (rewrite map_length; exact Hlm).
    rewrite (nth_indep _ 0 ((fun y => x + y) 0)) by (rewrite map_length; exact Hlm).
    rewrite (map_nth (fun y => x + y)). reflexivity.
  - rewrite app_nth2 by (rewrite map_length, Nat.mul_succ_l; lia).
    rewrite map_length. replace (S lo * length qm + lm - length qm)%nat with (lo * length qm + lm)%nat by (rewrite Nat.mul_succ_l; lia).
    cbn [nth]. apply IH; [cbn in Hlo; lia|exact Hlm].
Qed.

Lemma length_outer (qo qm : list Z) : length (@outer ZLab qo qm) = (length qo * length qm)%nat.
Proof.
  unfold outer. cbn [lab ZLab ladd]. induction qo as [|x qo IH]; [reflexivity|]. cbn [flat_map length Nat.mul].
  rewrite app_length, map_length, IH. reflexivity.
Qed.

(* ================================================================== move_qnidx *)
Lemma nth_flip_above n lo (tot : Z) (q : list (list Z)) i :
  nth i (@flip_above ZLab n lo tot q) [] =
  if (lo <? i)%nat && (i <=? n)%nat then map (fun v => tot - v) (nth i q []) else nth i q [].
Proof.
  unfold flip_above.
  rewrite (nth_mapi_from_gen (fun idx x => if (lo <? idx)%nat && (idx <=? n)%nat then map (fun v => lsub ZLab tot v) x else x)).
  - reflexivity.
  - intros j. destruct ((lo <? j)%nat && (j <=? n)%nat); reflexivity.
Qed.

Lemma length_nth_flip_above n lo tot q i :
  length (nth i (@flip_above ZLab n lo tot q) []) = length (nth i q []).
Proof. rewrite nth_flip_above. destruct ((lo <? i)%nat && (i <=? n)%nat); [apply map_length|reflexivity]. Qed.

Lemma length_flip_above n lo tot q : length (@flip_above ZLab n lo tot q) = length q.
Proof. apply length_mapi_from. Qed.

Lemma map_length_flip_above n lo tot q : map (@length Z) (@flip_above ZLab n lo tot q) = map (@length Z) q.
Proof.
  apply (nth_ext _ _ O O).
  - rewrite !map_length. apply length_flip_above.
  - intros i Hi. rewrite map_length, length_flip_above in Hi.
    rewrite (nth_indep _ O (length (@nil Z))) by (rewrite map_length, length_flip_above; exact Hi).
    rewrite (nth_indep (map (@length Z) q) O (length (@nil Z))) by (rewrite map_length; exact Hi).
    rewrite !(map_nth (@length Z)). apply length_nth_flip_above.
Qed.

Lemma qn_move (n : nat) (m : metaZ) d : qn (move_qnidx n m d) = flip_above n d (qntot m) (flip_above n (qnidx m) (qntot m) (qn m)).
Proof. reflexivity. Qed.

Lemma length_qn_move n (m : metaZ) d i : length (nth i (qn (move_qnidx n m d)) []) = length (nth i (qn m) []).
Proof. rewrite qn_move, !length_nth_flip_above. reflexivity. Qed.

Lemma map_length_qn_move n (m : metaZ) d : map (@length Z) (qn (move_qnidx n m d)) = map (@length Z) (qn m).
Proof. rewrite qn_move, !map_length_flip_above. reflexivity. Qed.

(* move_qnidx changes the representation, not the meaning: left-block labels are unchanged, the centre is dst *)
Theorem Llab_move n (m : metaZ) d i a : (i <= n)%nat -> (a < length (nth i (qn m) []))%nat ->
  Llab (move_qnidx n m d) i a = Llab m i a.
Proof.
  intros Hi Ha. unfold Llab, qn_at. rewrite qn_move. cbn [qnidx qntot move_qnidx lzero_like ZLab lsub].
  rewrite !nth_flip_above.
  assert (Hn : (i <=? n)%nat = true) by (apply Nat.leb_le; exact Hi). rewrite Hn, !andb_true_r.
  set (x := nth i (qn m) []) in *.
  assert (Hm : forall (t : Z), nth a (map (fun v => t - v) x) 0 = t - nth a x 0).
  { intros t. rewrite (nth_indep _ 0 ((fun v => t - v) 0)) by (rewrite map_length; exact Ha).
    apply (map_nth (fun v => t - v)). }
  assert (Hm2 : forall (t u : Z), nth a (map (fun v => t - v) (map (fun v => u - v) x)) 0 = t - (u - nth a x 0)).
  { intros t u. rewrite (nth_indep _ 0 ((fun v => t - v) 0)) by (rewrite !map_length; exact Ha).
    rewrite (map_nth (fun v => t - v)). rewrite Hm. reflexivity. }
  destruct (Nat.ltb_spec (qnidx m) i), (Nat.ltb_spec d i), (Nat.leb_spec i d), (Nat.leb_spec i (qnidx m));
    try lia; rewrite ?Hm2, ?Hm.
  all: try reflexivity; try (generalize (nth a x 0); generalize (qntot m); cbn [lab ZLab]; intros; lia).
Qed.

Theorem move_qnidx_meaning n (m : metaZ) d :
  qnidx (move_qnidx n m d) = d /\ qntot (move_qnidx n m d) = qntot m /\ to_right (move_qnidx n m d) = to_right m /\
  map (@length Z) (qn (move_qnidx n m d)) = map (@length Z) (qn m) /\
  forall i a, (i <= n)%nat -> (a < length (nth i (qn m) []))%nat -> Llab (move_qnidx n m d) i a = Llab m i a.
Proof.
  split; [reflexivity|]. split; [reflexivity|]. split; [reflexivity|]. split; [apply map_length_qn_move|].
  intros i a. apply Llab_move.
Qed.

(* ================================================================== sector containment *)
Section Sector.
Variable R : CRing.
Add Ring RRq : (rth R).
Notation zero := (r0 R).
Notation "x *r y" := (rmul R x y) (at level 40, left associativity).

Lemma valid_from3_chain : forall (ts : list (nat * T3 R)) sig Lf i dl s l r,
  valid_from3 sig Lf i dl ts -> (l < dl)%nat -> (r < lastdim dl ts)%nat ->
  Lf i l + charge sig i s <> Lf (i + length ts)%nat r ->
  chain3 ts s l r = zero.
Proof.
  induction ts as [|[d t] ts IH]; intros sig Lf i dl s l r Hv Hl Hr Hne.
  - destruct s as [|p s]; [|reflexivity]. cbn [chain3]. cbn [charge length] in Hne.
    rewrite Nat.add_0_r, Z.add_0_r in Hne.
    destruct (Nat.eqb_spec l r) as [->|]; [congruence|reflexivity].
  - destruct s as [|p s]; [reflexivity|].
    cbn [valid_from3] in Hv. destruct Hv as [Hsite Hrest].
    rewrite lastdim_cons in Hr. cbn [chain3]. apply sumn_0. intros m Hm.
    destruct (Z.eq_dec (Lf i l + sig i p) (Lf (S i) m)) as [Heq|Hneq].
    + rewrite (IH sig Lf (S i) d s m r Hrest Hm Hr); [ring|].
      cbn [charge length] in Hne. replace (i + S (length ts))%nat with (S i + length ts)%nat in Hne by lia. lia.
    + rewrite (Hsite l p m Hl Hm Hneq). ring.
Qed.

(* the semantic core: valid labels => zero amplitude outside the sector *)
Theorem valid_in_sector_zero sig (m : metaZ) (ts : list (nat * T3 R)) s :
  qn_valid3 sig m ts -> charge sig 0 s <> qntot m -> amp ts s = zero.
Proof.
  intros [[Hsh [Hld Hk]] [H0 [Hn Hv]]] Hne. unfold amp.
  apply (valid_from3_chain ts sig (Llab m) 0%nat 1%nat s 0%nat 0%nat Hv); [lia | rewrite Hld; lia |].
  rewrite H0. cbn [Nat.add]. rewrite Hn. lia.
Qed.

Theorem valid_in_sector sig (m : metaZ) (ts : list (nat * T3 R)) :
  qn_valid3 sig m ts -> forall s, amp ts s <> zero -> charge sig 0 s = qntot m.
Proof.
  intros Hv s Hnz. destruct (Z.eq_dec (charge sig 0 s) (qntot m)) as [|Hne]; [assumption|].
  exfalso. apply Hnz. apply (valid_in_sector_zero sig m ts s Hv Hne).
Qed.

(* the form used in the property text: every non-zero entry satisfies the label equation *)
Lemma valid_from3_nonzero sig Lf i dl d (t : T3 R) ts l p r :
  valid_from3 sig Lf i dl ((d, t) :: ts) -> (l < dl)%nat -> (r < d)%nat -> t l p r <> zero ->
  Lf i l + sig i p = Lf (S i) r.
Proof.
  intros [Hs _] Hl Hr Hnz. destruct (Z.eq_dec (Lf i l + sig i p) (Lf (S i) r)) as [|Hne]; [assumption|].
  exfalso. apply Hnz. apply Hs; assumption.
Qed.

End Sector.

(* ================================================================== validity: generic facts *)
Ltac zl := cbn [lab ZLab ladd lsub lneg lzero_like] in *.

Lemma nth_bdims_0 {A} dl (ts : list (nat * A)) : nth 0 (bdims dl ts) O = dl.
Proof. reflexivity. Qed.
Lemma nth_bdims_S {A} dl d (t : A) ts k : nth (S k) (bdims dl ((d, t) :: ts)) O = nth k (bdims d ts) O.
Proof. reflexivity. Qed.
Lemma length_bdims {A} dl (ts : list (nat * A)) : length (bdims dl ts) = S (length ts).
Proof. unfold bdims. cbn [length]. rewrite map_length. reflexivity. Qed.
Lemma nth_bdims_last {A} : forall (ts : list (nat * A)) dl, nth (length ts) (bdims dl ts) O = lastdim dl ts.
Proof.
  induction ts as [|[d t] ts IH]; intros dl; [reflexivity|].
  cbn [length]. rewrite nth_bdims_S, lastdim_cons. apply IH.
Qed.

Lemma shape_len {A} (m : metaZ) (ts : list (nat * A)) j :
  map (@length Z) (qn m) = bdims 1 ts -> length (nth j (qn m) []) = nth j (bdims 1 ts) O.
Proof. intros H. rewrite <- H. symmetry. apply (map_nth (@length Z) (qn m) [] j). Qed.

Section ValidOps.
Variable R : CRing.
Add Ring RRv : (rth R).
Notation zero := (r0 R).
Notation "x *r y" := (rmul R x y) (at level 40, left associativity).
Notation T3 := (T3 R).
Notation T4 := (T4 R).

Lemma valid_from3_ext : forall (ts : list (nat * T3)) sig Lf Lg i dl,
  (forall k a, (k <= length ts)%nat -> (a < nth k (bdims dl ts) O)%nat -> Lf (i + k)%nat a = Lg (i + k)%nat a) ->
  valid_from3 sig Lf i dl ts -> valid_from3 sig Lg i dl ts.
Proof.
  induction ts as [|[d t] ts IH]; intros sig Lf Lg i dl Hext Hv; [exact I|].
  destruct Hv as [Hs Hr]. split.
  - intros l p r Hl Hr' Hne. apply Hs; try assumption.
    pose proof (Hext O l (Nat.le_0_l _) Hl) as E0. rewrite Nat.add_0_r in E0.
    assert (H1 : (1 <= length ((d, t) :: ts))%nat) by (cbn; lia).
    pose proof (Hext 1%nat r H1 Hr') as E1. replace (i + 1)%nat with (S i) in E1 by lia.
    rewrite E0, E1. exact Hne.
  - apply (IH sig Lf Lg (S i) d); [|exact Hr].
    intros k a Hk Ha. replace (S i + k)%nat with (i + S k)%nat by lia.
    apply Hext; [cbn; lia|]. rewrite nth_bdims_S. exact Ha.
Qed.

(* rank 4 <-> all rank-3 slices *)
Lemma valid4_slice : forall (ts : list (nat * T4)) sig Lf i dl,
  valid_from4 sig Lf i dl ts <-> (forall f, valid_from3 (fun j pu => sig j pu (f j)) Lf i dl (slice4 f i ts)).
Proof.
  induction ts as [|[d t] ts IH]; intros sig Lf i dl; cbn [valid_from4 slice4 valid_from3].
  - split; intros; exact I.
  - split.
    + intros [Hs Hr] f. split; [intros l p r; apply Hs | apply IH; exact Hr].
    + intros H. split.
      * intros l pu pd r Hl Hr Hne. destruct (H (fun _ => pd)) as [Hs _]. apply (Hs l pu r); assumption.
      * apply IH. intros f. destruct (H f) as [_ Hr]. exact Hr.
Qed.

Lemma bdims_slice4 f i dl (ts : list (nat * T4)) : bdims dl (slice4 f i ts) = bdims dl ts.
Proof.
  unfold bdims. f_equal. revert i. induction ts as [|[d t] ts IH]; intros i; cbn [slice4 map fst]; [reflexivity|].
  rewrite IH. reflexivity.
Qed.

Lemma shape_ok_slice4 (m : metaZ) f (ts : list (nat * T4)) : shape_ok m (slice4 f 0 ts) <-> shape_ok m ts.
Proof. unfold shape_ok. rewrite bdims_slice4, lastdim_slice4, length_slice4. reflexivity. Qed.

Lemma qn_valid4_slice sig (m : metaZ) (ts : list (nat * T4)) :
  qn_valid4 sig m ts <-> (forall f, qn_valid3 (fun j pu => sig j pu (f j)) m (slice4 f 0 ts)).
Proof.
  unfold qn_valid4, qn_valid3. split.
  - intros [Hsh [H0 [Hn Hv]]] f. rewrite shape_ok_slice4, length_slice4.
    repeat split; try assumption; try apply Hsh. apply valid4_slice. exact Hv.
  - intros H. pose proof (H (fun _ => O)) as [Hsh [H0 [Hn _]]].
    rewrite shape_ok_slice4 in Hsh. rewrite length_slice4 in Hn.
    repeat split; try assumption; try apply Hsh. apply valid4_slice. intros f. apply (H f).
Qed.

(* ------------------------------------------------------------------ scale, conj: zero entries stay zero *)
Lemma valid_from3_scale : forall (ts : list (nat * T3)) sig Lf i dl k c,
  valid_from3 sig Lf i dl ts -> valid_from3 sig Lf i dl (scale_at3 k c ts).
Proof.
  induction ts as [|[d t] ts IH]; intros sig Lf i dl k c Hv; [exact I|].
  destruct Hv as [Hs Hr]. destruct k as [|k]; cbn [scale_at3 valid_from3].
  - split; [|exact Hr]. intros l p r Hl Hr' Hne. rewrite (Hs l p r Hl Hr' Hne). ring.
  - split; [exact Hs|]. apply IH. exact Hr.
Qed.

Lemma valid_from3_conj : forall (ts : list (nat * T3)) sig Lf i dl,
  valid_from3 sig Lf i dl ts -> valid_from3 sig Lf i dl (conj3 ts).
Proof.
  induction ts as [|[d t] ts IH]; intros sig Lf i dl Hv; [exact I|].
  destruct Hv as [Hs Hr]. cbn [conj3 map fst snd valid_from3]. split.
  - intros l p r Hl Hr' Hne. rewrite (Hs l p r Hl Hr' Hne). apply rcj_0.
  - apply IH. exact Hr.
Qed.

Lemma bdims_scale_at3 : forall (ts : list (nat * T3)) k c dl, bdims dl (scale_at3 k c ts) = bdims dl ts.
Proof.
  unfold bdims. intros ts k c dl. f_equal. revert k. induction ts as [|[d t] ts IH]; intros k; [reflexivity|].
  destruct k; cbn [scale_at3 map fst]; [reflexivity|]. rewrite IH. reflexivity.
Qed.
Lemma bdims_conj3 (ts : list (nat * T3)) dl : bdims dl (conj3 ts) = bdims dl ts.
Proof. unfold bdims, conj3. f_equal. rewrite map_map. apply map_ext. intros [d t]. reflexivity. Qed.
Lemma lastdim_conj3 (ts : list (nat * T3)) dl : lastdim dl (conj3 ts) = lastdim dl ts.
Proof. rewrite <- !nth_bdims_last. rewrite bdims_conj3. unfold conj3. rewrite map_length. reflexivity. Qed.

Theorem scale_valid3 sig (m : metaZ) (ts : list (nat * T3)) k c :
  qn_valid3 sig m ts -> qn_valid3 sig m (scale_at3 k c ts).
Proof.
  intros [[Hsh [Hld Hk]] [H0 [Hn Hv]]]. unfold qn_valid3, shape_ok.
  rewrite bdims_scale_at3, lastdim_scale_at3, length_scale_at3.
  repeat split; try assumption. apply valid_from3_scale. exact Hv.
Qed.

Theorem conj_valid3 sig (m : metaZ) (ts : list (nat * T3)) :
  qn_valid3 sig m ts -> qn_valid3 sig m (conj3 ts).
Proof.
  intros [[Hsh [Hld Hk]] [H0 [Hn Hv]]]. unfold qn_valid3, shape_ok.
  rewrite bdims_conj3, lastdim_conj3. unfold conj3 at 1 2. rewrite map_length.
  repeat split; try assumption. apply valid_from3_conj. exact Hv.
Qed.

Lemma slice4_scale f : forall (ts : list (nat * T4)) i k c, slice4 f i (scale_at4 k c ts) = scale_at3 k c (slice4 f i ts).
Proof.
  induction ts as [|[d t] ts IH]; intros i k c; [reflexivity|].
  destruct k; cbn [scale_at4 slice4 scale_at3]; [reflexivity|]. rewrite IH. reflexivity.
Qed.
Lemma slice4_conj f : forall (ts : list (nat * T4)) i, slice4 f i (conj4 ts) = conj3 (slice4 f i ts).
Proof.
  induction ts as [|[d t] ts IH]; intros i; [reflexivity|].
  cbn [conj4 map slice4 conj3 fst snd]. f_equal. apply IH.
Qed.

Theorem scale_valid4 sig (m : metaZ) (ts : list (nat * T4)) k c :
  qn_valid4 sig m ts -> qn_valid4 sig m (scale_at4 k c ts).
Proof.
  rewrite !qn_valid4_slice. intros H f. rewrite slice4_scale. apply scale_valid3. apply H.
Qed.
Theorem conj_valid4 sig (m : metaZ) (ts : list (nat * T4)) :
  qn_valid4 sig m ts -> qn_valid4 sig m (conj4 ts).
Proof.
  rewrite !qn_valid4_slice. intros H f. rewrite slice4_conj. apply conj_valid3. apply H.
Qed.

End ValidOps.

(* ================================================================== conj_trans *)
Section ValidCT.
Variable R : CRing.
Add Ring RRct : (rth R).
Notation T4 := (T4 R).

Lemma valid_from4_ext : forall (ts : list (nat * T4)) sig Lf Lg i dl,
  (forall k a, (k <= length ts)%nat -> (a < nth k (bdims dl ts) O)%nat -> Lf (i + k)%nat a = Lg (i + k)%nat a) ->
  valid_from4 sig Lf i dl ts -> valid_from4 sig Lg i dl ts.
Proof.
  intros ts sig Lf Lg i dl Hext Hv. apply valid4_slice. intros f.
  apply (valid_from3_ext R (slice4 f i ts) _ Lf Lg i dl).
  - intros k a Hk Ha. rewrite length_slice4 in Hk. rewrite bdims_slice4 in Ha. apply Hext; assumption.
  - apply valid4_slice. exact Hv.
Qed.

Lemma valid_from4_conj_trans : forall (ts : list (nat * T4)) sig Lf i dl,
  (forall j pu pd, sig j pu pd = - sig j pd pu) ->
  valid_from4 sig Lf i dl ts -> valid_from4 sig (fun j a => - Lf j a) i dl (conj_trans4 ts).
Proof.
  induction ts as [|[d t] ts IH]; intros sig Lf i dl Hanti Hv; [exact I|].
  destruct Hv as [Hs Hr]. cbn [conj_trans4 map fst snd valid_from4]. split.
  - intros l pu pd r Hl Hr' Hne. rewrite (Hs l pd pu r Hl Hr'); [apply rcj_0|].
    rewrite (Hanti i pu pd) in Hne. lia.
  - apply IH; assumption.
Qed.

Lemma bdims_conj_trans4 (ts : list (nat * T4)) dl : bdims dl (conj_trans4 ts) = bdims dl ts.
Proof. unfold bdims, conj_trans4. f_equal. rewrite map_map. apply map_ext. intros [d t]. reflexivity. Qed.

Lemma nth_map_opp (q : list (list Z)) j a : nth a (nth j (map (map Z.opp) q) []) 0 = - nth a (nth j q []) 0.
Proof.
  change (@nil Z) with (map Z.opp []) at 1. rewrite (map_nth (map Z.opp)).
  change 0 with (Z.opp 0) at 1. rewrite (map_nth Z.opp). reflexivity.
Qed.

Lemma Llab_conj_trans (m : metaZ) j a : Llab (conj_trans_meta m) j a = - Llab m j a.
Proof.
  unfold Llab, qn_at, conj_trans_meta. cbn [qn qnidx qntot]. zl.
  rewrite nth_map_opp.
  destruct (j <=? qnidx m)%nat; [reflexivity|].
  generalize (nth a (nth j (qn m) []) 0). generalize (qntot m). zl. intros; lia.
Qed.

Theorem conj_trans_valid sig (m : metaZ) (ts : list (nat * T4)) :
  (forall j pu pd, sig j pu pd = - sig j pd pu) ->
  qn_valid4 sig m ts -> qn_valid4 sig (conj_trans_meta m) (conj_trans4 ts).
Proof.
  intros Hanti [[Hsh [Hld Hk]] [H0 [Hn Hv]]]. unfold qn_valid4, shape_ok.
  assert (Hlen : length (conj_trans4 ts) = length ts) by (unfold conj_trans4; apply map_length).
  rewrite bdims_conj_trans4, Hlen, <- nth_bdims_last, bdims_conj_trans4, Hlen, nth_bdims_last.
  repeat split; try assumption.
  - cbn [conj_trans_meta qn]. rewrite map_map. rewrite <- Hsh. apply map_ext. intros x. apply map_length.
  - rewrite Llab_conj_trans, H0. reflexivity.
  - rewrite Llab_conj_trans, Hn. reflexivity.
  - apply (valid_from4_ext (conj_trans4 ts) sig (fun j a => - Llab m j a)).
    + intros k a _ _. rewrite Llab_conj_trans. reflexivity.
    + apply valid_from4_conj_trans; assumption.
Qed.

End ValidCT.

(* ================================================================== add *)
Section ValidAdd.
Variable R : CRing.
Add Ring RRadd : (rth R).
Notation T3 := (T3 R).
Notation T4 := (T4 R).

Lemma add_rest3_valid : forall (A B : list (nat * T3)) i dla dlb sig Lfa Lfb Lfc,
  A <> [] -> length A = length B -> lastdim dla A = lastdim dlb B ->
  valid_from3 sig Lfa i dla A -> valid_from3 sig Lfb i dlb B ->
  (forall k l, (k < length A)%nat -> (l < nth k (bdims dla A) O)%nat -> Lfc (i + k)%nat l = Lfa (i + k)%nat l) ->
  (forall k l, (k < length A)%nat -> (l < nth k (bdims dlb B) O)%nat ->
       Lfc (i + k)%nat (nth k (bdims dla A) O + l)%nat = Lfb (i + k)%nat l) ->
  (forall r, (r < lastdim dla A)%nat -> Lfc (i + length A)%nat r = Lfa (i + length A)%nat r /\
                                        Lfc (i + length A)%nat r = Lfb (i + length A)%nat r) ->
  valid_from3 sig Lfc i (dla + dlb) (add_rest3 dla A B).
Proof.
  induction A as [|[da ta] A' IH]; intros B i dla dlb sig Lfa Lfb Lfc Hne Hlen Hld HvA HvB Ha Hb Hlast; [congruence|].
  destruct B as [|[db tb] B']; [discriminate|].
  destruct HvA as [HsA HrA]. destruct HvB as [HsB HrB].
  assert (Ha0 : forall l, (l < dla)%nat -> Lfc i l = Lfa i l).
  { intros l Hl. pose proof (Ha O l) as E. rewrite Nat.add_0_r in E. apply E; [cbn; lia|exact Hl]. }
  assert (Hb0 : forall l, (l < dlb)%nat -> Lfc i (dla + l)%nat = Lfb i l).
  { intros l Hl. pose proof (Hb O l) as E. rewrite Nat.add_0_r in E. apply E; [cbn; lia|exact Hl]. }
  destruct A' as [|x A''].
  - destruct B' as [|y B'']; [|discriminate]. cbn [add_rest3 valid_from3]. split; [|exact I].
    cbn [lastdim fold_left fst] in Hld, Hlast. subst db. cbn [length] in Hlast.
    intros l p r Hl Hr Hne'. unfold tadd_last3.
    destruct (Hlast r Hr) as [E1 E2]. replace (i + 1)%nat with (S i) in E1, E2 by lia.
    destruct (Nat.ltb_spec l dla) as [Hlt|Hge].
    + apply HsA; try assumption. rewrite <- Ha0, <- E1 by assumption. exact Hne'.
    + apply HsB; try lia. rewrite <- Hb0, <- E2 by lia. replace (dla + (l - dla))%nat with l by lia. exact Hne'.
  - destruct B' as [|y B'']; [discriminate|]. cbn [add_rest3 valid_from3].
    assert (Ha1 : forall r, (r < da)%nat -> Lfc (S i) r = Lfa (S i) r).
    { intros r Hr. pose proof (Ha 1%nat r) as E. replace (i + 1)%nat with (S i) in E by lia. apply E; [cbn; lia|exact Hr]. }
    assert (Hb1 : forall r, (r < db)%nat -> Lfc (S i) (da + r)%nat = Lfb (S i) r).
    { intros r Hr. pose proof (Hb 1%nat r) as E. replace (i + 1)%nat with (S i) in E by lia. apply E; [cbn; lia|exact Hr]. }
    split.
    + intros l p r Hl Hr Hne'. unfold tadd_mid3.
      destruct (Nat.ltb_spec l dla) as [Hlt|Hge]; destruct (Nat.ltb_spec r da) as [Hrt|Hrg]; try reflexivity.
      * apply HsA; try assumption. rewrite <- Ha0, <- Ha1 by assumption. exact Hne'.
      * apply HsB; try lia. rewrite <- Hb0, <- Hb1 by lia.
        replace (dla + (l - dla))%nat with l by lia. replace (da + (r - da))%nat with r by lia. exact Hne'.
    + rewrite !lastdim_cons in Hld, Hlast.
      apply (IH (y :: B'') (S i) da db sig Lfa Lfb Lfc); try assumption; try discriminate.
      * cbn in Hlen |- *. lia.
      * intros k l Hk Hl. replace (S i + k)%nat with (i + S k)%nat by lia. apply Ha; [cbn in Hk |- *; lia|exact Hl].
      * intros k l Hk Hl. replace (S i + k)%nat with (i + S k)%nat by lia.
        apply (Hb (S k) l); [cbn in Hk |- *; lia|exact Hl].
      * intros r Hr. replace (S i + length (x :: A''))%nat with (i + length ((da, ta) :: x :: A''))%nat by (cbn; lia).
        apply Hlast. exact Hr.
Qed.

Lemma add3_valid_from (A B : list (nat * T3)) sig Lfa Lfb Lfc :
  (2 <= length A)%nat -> length A = length B -> lastdim 1 A = lastdim 1 B ->
  valid_from3 sig Lfa 0 1 A -> valid_from3 sig Lfb 0 1 B ->
  Lfc O O = Lfa O O -> Lfc O O = Lfb O O ->
  (forall k l, (0 < k < length A)%nat -> (l < nth k (bdims 1 A) O)%nat -> Lfc k l = Lfa k l) ->
  (forall k l, (0 < k < length A)%nat -> (l < nth k (bdims 1 B) O)%nat -> Lfc k (nth k (bdims 1 A) O + l)%nat = Lfb k l) ->
  (forall r, (r < lastdim 1 A)%nat -> Lfc (length A) r = Lfa (length A) r /\ Lfc (length A) r = Lfb (length A) r) ->
  valid_from3 sig Lfc 0 1 (add3 A B).
Proof.
  intros H2 Hlen Hld HvA HvB H0a H0b Ha Hb Hlast.
  destruct A as [|[da ta] A']; [cbn in H2; lia|]. destruct B as [|[db tb] B']; [discriminate|].
  destruct A' as [|x A'']; [cbn in H2; lia|]. destruct B' as [|y B'']; [discriminate|].
  destruct HvA as [HsA HrA]. destruct HvB as [HsB HrB].
  cbn [add3 valid_from3]. split.
  - intros l p r Hl Hr Hne. assert (l = O) by lia. subst l. unfold tadd_first3.
    destruct (Nat.ltb_spec r da) as [Hrt|Hrg].
    + apply HsA; try lia. rewrite <- H0a. rewrite <- (Ha 1%nat r) by (cbn; lia). exact Hne.
    + apply HsB; try lia. rewrite <- H0b. rewrite <- (Hb 1%nat (r - da)%nat) by (cbn; lia).
      cbn [bdims map fst nth]. replace (da + (r - da))%nat with r by lia. exact Hne.
  - rewrite !lastdim_cons in Hld, Hlast.
    apply (add_rest3_valid (x :: A'') (y :: B'') 1%nat da db sig Lfa Lfb Lfc); try assumption; try discriminate.
    + cbn in Hlen |- *. lia.
    + intros k l Hk Hl. apply (Ha (S k) l); [cbn in Hk |- *; lia|exact Hl].
    + intros k l Hk Hl. apply (Hb (S k) l); [cbn in Hk |- *; lia|exact Hl].
Qed.

Lemma add_rest3_cons2 dla da ta x (A : list (nat * T3)) db tb y (B : list (nat * T3)) :
  add_rest3 dla ((da, ta) :: x :: A) ((db, tb) :: y :: B) =
  ((da + db)%nat, tadd_mid3 R dla da ta tb) :: add_rest3 da (x :: A) (y :: B).
Proof. reflexivity. Qed.

Lemma nth_bdims_add_rest3 : forall (A B : list (nat * T3)) dla dlb j,
  A <> [] -> length A = length B -> (j <= length A)%nat ->
  nth j (bdims (dla + dlb) (add_rest3 dla A B)) O =
  if Nat.eqb j (length A) then nth j (bdims dla A) O else (nth j (bdims dla A) O + nth j (bdims dlb B) O)%nat.
Proof.
  induction A as [|[da ta] A' IH]; intros B dla dlb j Hne Hlen Hj; [congruence|].
  destruct B as [|[db tb] B']; [discriminate|].
  destruct A' as [|x A''].
  - destruct B' as [|y B'']; [|discriminate]. cbn [add_rest3].
    destruct j as [|[|j]]; [reflexivity|reflexivity|cbn in Hj; lia].
  - destruct B' as [|y B'']; [discriminate|]. rewrite add_rest3_cons2.
    destruct j as [|j]; [reflexivity|].
    rewrite !nth_bdims_S. rewrite (IH (y :: B'') da db j); [|discriminate|cbn in Hlen |- *; lia|cbn in Hj |- *; lia].
    reflexivity.
Qed.

Lemma nth_bdims_add3 (A B : list (nat * T3)) j :
  (2 <= length A)%nat -> length A = length B -> (j <= length A)%nat ->
  nth j (bdims 1 (add3 A B)) O =
  if Nat.eqb j 0 then 1%nat else if Nat.eqb j (length A) then nth j (bdims 1 A) O
  else (nth j (bdims 1 A) O + nth j (bdims 1 B) O)%nat.
Proof.
  intros H2 Hlen Hj.
  destruct A as [|[da ta] A']; [cbn in H2; lia|]. destruct B as [|[db tb] B']; [discriminate|].
  destruct A' as [|x A'']; [cbn in H2; lia|]. destruct B' as [|y B'']; [discriminate|].
  change (add3 ((da, ta) :: x :: A'') ((db, tb) :: y :: B''))
    with (((da + db)%nat, tadd_first3 R da ta tb) :: add_rest3 da (x :: A'') (y :: B'')).
  destruct j as [|j]; [reflexivity|].
  rewrite !nth_bdims_S. cbn [Nat.eqb].
  rewrite (nth_bdims_add_rest3 (x :: A'') (y :: B'') da db j); [|discriminate|cbn in Hlen |- *; lia|cbn in Hj |- *; lia].
  reflexivity.
Qed.

Lemma nth_app_Z (x y : list Z) l :
  nth l (x ++ y) 0 = if (l <? length x)%nat then nth l x 0 else nth (l - length x) y 0.
Proof. destruct (Nat.ltb_spec l (length x)); [apply app_nth1; assumption|apply app_nth2; lia]. Qed.

(* labels of the sum: the re-centred labels of self followed by the labels of other *)
Theorem add_valid3 sig (ma mb : metaZ) (A B : list (nat * T3)) :
  qn_valid3 sig ma A -> qn_valid3 sig mb B -> qntot ma = qntot mb ->
  (2 <= length A)%nat -> length A = length B ->
  qn_valid3 sig (add_meta (length A) ma mb) (add3 A B).
Proof.
  intros [[HshA [HldA HkA]] [H0A [HnA HvA]]] [[HshB [HldB HkB]] [H0B [HnB HvB]]] Htot H2 Hlen.
  set (n := length A) in *.
  set (a' := move_qnidx n ma (qnidx mb)).
  assert (HlenqA : length (qn ma) = S n).
  { rewrite <- (map_length (@length Z)), HshA, length_bdims. reflexivity. }
  assert (HlenqB : length (qn mb) = S n).
  { rewrite <- (map_length (@length Z)), HshB, length_bdims. unfold n. lia. }
  assert (Hlenqa' : length (qn a') = S n).
  { unfold a'. rewrite qn_move, !length_flip_above. exact HlenqA. }
  assert (Hla' : forall j, length (nth j (qn a') []) = nth j (bdims 1 A) O).
  { intros j. unfold a'. rewrite length_qn_move. apply shape_len. exact HshA. }
  assert (HlB : forall j, length (nth j (qn mb) []) = nth j (bdims 1 B) O).
  { intros j. apply shape_len. exact HshB. }
  (* the stored label lists of the result *)
  assert (Hq : forall j, (j <= n)%nat ->
     nth j (qn (add_meta n ma mb)) [] =
     if Nat.eqb j 0 then [0] else if Nat.eqb j n then [0] else nth j (qn a') [] ++ nth j (qn mb) []).
  { intros j Hj. unfold add_meta. cbn [qn]. fold a'. zl.
    rewrite nth_set_last by (rewrite length_set_first, length_zipw, Hlenqa', HlenqB; lia).
    rewrite length_set_first, length_zipw, Hlenqa', HlenqB, Nat.min_id. cbn [Nat.eqb].
    rewrite nth_set_first by (rewrite length_zipw, Hlenqa', HlenqB; lia).
    destruct (Nat.eqb_spec j n) as [->|Hjn].
    - destruct (Nat.eqb_spec n 0); [lia|reflexivity].
    - destruct (Nat.eqb_spec j 0) as [->|Hj0]; [reflexivity|].
      apply (nth_zipw (@app Z) (qn a') (qn mb) j [] [] []); lia. }
  assert (Hk : (qnidx mb < n)%nat) by (unfold n; lia).
  (* left-block labels of the result *)
  assert (HL0 : Llab (add_meta n ma mb) 0 0 = 0).
  { unfold Llab, qn_at. rewrite Hq by lia. cbn [Nat.eqb add_meta qnidx nth]. reflexivity. }
  assert (HLn : Llab (add_meta n ma mb) n 0 = qntot ma).
  { unfold Llab, qn_at. rewrite Hq by lia. rewrite Nat.eqb_refl.
    destruct (Nat.eqb_spec n 0); [lia|]. cbn [add_meta qnidx qntot nth].
    destruct (Nat.leb_spec n (qnidx mb)); [lia|]. zl. generalize (qntot ma). zl. intros; lia. }
  assert (HLa : forall j l, (0 < j < n)%nat -> (l < nth j (bdims 1 A) O)%nat ->
                 Llab (add_meta n ma mb) j l = Llab ma j l).
  { intros j l Hj Hl. rewrite <- (Llab_move n ma (qnidx mb) j l) by (try lia; rewrite (shape_len ma A j HshA); exact Hl).
    fold a'. unfold Llab, qn_at. rewrite Hq by lia.
    destruct (Nat.eqb_spec j 0); [lia|]. destruct (Nat.eqb_spec j n); [lia|].
    cbn [add_meta qnidx qntot]. fold a'. zl. rewrite nth_app_Z, Hla'.
    destruct (Nat.ltb_spec l (nth j (bdims 1 A) O)); [|lia]. reflexivity. }
  assert (HLb : forall j l, (0 < j < n)%nat -> (l < nth j (bdims 1 B) O)%nat ->
                 Llab (add_meta n ma mb) j (nth j (bdims 1 A) O + l)%nat = Llab mb j l).
  { intros j l Hj Hl. unfold Llab, qn_at. rewrite Hq by lia.
    destruct (Nat.eqb_spec j 0); [lia|]. destruct (Nat.eqb_spec j n); [lia|].
    cbn [add_meta qnidx qntot]. fold a'. zl. rewrite nth_app_Z, Hla'.
    destruct (Nat.ltb_spec (nth j (bdims 1 A) O + l) (nth j (bdims 1 A) O)); [lia|].
    replace (nth j (bdims 1 A) O + l - nth j (bdims 1 A) O)%nat with l by lia.
    rewrite Htot. reflexivity. }
  unfold qn_valid3, shape_ok. rewrite length_add3 by exact Hlen. fold n.
  assert (Hbd : map (@length Z) (qn (add_meta n ma mb)) = bdims 1 (add3 A B)).
  { apply (nth_ext _ _ O O).
    - rewrite map_length, length_bdims, length_add3 by exact Hlen.
      unfold add_meta. cbn [qn]. fold a'. rewrite length_set_last, length_set_first, length_zipw, Hlenqa', HlenqB. fold n. lia.
    - intros j Hj. rewrite map_length in Hj.
      assert (Hjn : (j <= n)%nat).
      { unfold add_meta in Hj. cbn [qn] in Hj. fold a' in Hj.
        rewrite length_set_last, length_set_first, length_zipw, Hlenqa', HlenqB in Hj. lia. }
      rewrite (nth_indep _ O (length (@nil Z))) by (rewrite map_length; exact Hj).
      rewrite (map_nth (@length Z)). rewrite Hq by exact Hjn.
      rewrite nth_bdims_add3 by (try assumption; fold n; lia). fold n.
      destruct (Nat.eqb_spec j 0); [reflexivity|].
      destruct (Nat.eqb_spec j n) as [->|].
      + unfold n. rewrite nth_bdims_last, HldA. reflexivity.
      + rewrite app_length, Hla', HlB. reflexivity. }
  split; [split; [exact Hbd | split]|].
  - rewrite <- nth_bdims_last, length_add3 by exact Hlen. fold n.
    rewrite nth_bdims_add3 by (try assumption; fold n; lia). fold n.
    destruct (Nat.eqb_spec n 0); [lia|]. rewrite Nat.eqb_refl. unfold n. rewrite nth_bdims_last. exact HldA.
  - cbn [add_meta qnidx]. exact Hk.
  - split; [exact HL0|]. split; [exact HLn|].
    apply (add3_valid_from A B sig (Llab ma) (Llab mb) (Llab (add_meta n ma mb))); try assumption.
    + rewrite HldA, HldB. reflexivity.
    + rewrite HL0, H0A. reflexivity.
    + rewrite HL0, H0B. reflexivity.
    + fold n. intros r Hr. rewrite HldA in Hr. assert (r = O) by lia. subst r.
      rewrite HLn, HnA. fold n in HnB. rewrite <- Hlen in HnB. fold n in HnB. rewrite HnB. split; [reflexivity|exact Htot].
Qed.

Lemma slice4_add' f (A B : list (nat * T4)) : slice4 f 0 (add4 A B) = add3 (slice4 f 0 A) (slice4 f 0 B).
Proof. apply slice4_add. Qed.

Theorem add_valid4 sig (ma mb : metaZ) (A B : list (nat * T4)) :
  qn_valid4 sig ma A -> qn_valid4 sig mb B -> qntot ma = qntot mb ->
  (2 <= length A)%nat -> length A = length B ->
  qn_valid4 sig (add_meta (length A) ma mb) (add4 A B).
Proof.
  rewrite !qn_valid4_slice. intros HA HB Htot H2 Hlen f.
  rewrite slice4_add'. rewrite <- (length_slice4 R f 0 A).
  apply add_valid3; try apply HA; try apply HB; try assumption; rewrite !length_slice4; assumption.
Qed.

End ValidAdd.

(* ================================================================== apply *)
Section ValidApply.
Variable R : CRing.
Add Ring RRap : (rth R).
Notation zero := (r0 R).
Notation T3 := (T3 R).
Notation T4 := (T4 R).

Lemma divmod_decomp L d c : (L < c * d)%nat ->
  (L / d < c)%nat /\ (L mod d < d)%nat /\ L = (L / d * d + L mod d)%nat.
Proof.
  intros H. assert (Hd : d <> O) by (intros ->; lia).
  split; [apply Nat.div_lt_upper_bound; [exact Hd|lia]|].
  split; [apply Nat.mod_upper_bound; exact Hd|].
  pose proof (Nat.div_mod L d Hd). lia.
Qed.

Lemma apply3_valid_from : forall (W : list (nat * T4)) (a : list (nat * T3)) dqs i dlW dla sigW sig sigc LfW Lfa Lfc,
  length W = length a -> length dqs = length a ->
  valid_from4 sigW LfW i dlW W -> valid_from3 sig Lfa i dla a ->
  (forall j pu q, sigc j pu = sigW j pu q + sig j q) ->
  (forall k lW la, (k <= length a)%nat -> (lW < nth k (bdims dlW W) O)%nat -> (la < nth k (bdims dla a) O)%nat ->
      Lfc (i + k)%nat (lW * nth k (bdims dla a) O + la)%nat = LfW (i + k)%nat lW + Lfa (i + k)%nat la) ->
  valid_from3 sigc Lfc i (dlW * dla) (apply3 dla dqs W a).
Proof.
  induction W as [|[dW o] W' IH]; intros a dqs i dlW dla sigW sig sigc LfW Lfa Lfc HlW Hlq HvW Hva Hsig HL; [exact I|].
  destruct a as [|[da ta] a']; [discriminate|]. destruct dqs as [|dq dqs']; [discriminate|].
  destruct HvW as [HsW HrW]. destruct Hva as [Hsa Hra]. cbn [apply3 valid_from3]. split.
  - intros L p Rr HL' HR Hne. unfold tapply3. apply sumn_0. intros q _.
    destruct (divmod_decomp L dla dlW HL') as [HlW' [Hla' HLeq]].
    destruct (divmod_decomp Rr da dW HR) as [HrW' [Hra' HReq]].
    pose proof (HL O (L / dla)%nat (L mod dla)%nat (Nat.le_0_l _) HlW' Hla') as E0.
    rewrite Nat.add_0_r in E0. cbn [bdims nth] in E0. rewrite <- HLeq in E0.
    assert (H1 : (1 <= length ((da, ta) :: a'))%nat) by (cbn; lia).
    pose proof (HL 1%nat (Rr / da)%nat (Rr mod da)%nat H1 HrW' Hra') as E1.
    replace (i + 1)%nat with (S i) in E1 by lia. cbn [bdims map fst nth] in E1. rewrite <- HReq in E1.
    destruct (Z.eq_dec (LfW i (L / dla)%nat + sigW i p q) (LfW (S i) (Rr / da)%nat)) as [HeqW|HneW].
    + rewrite (Hsa (L mod dla)%nat q (Rr mod da)%nat Hla' Hra'); [ring|].
      rewrite E0, E1, (Hsig i p q) in Hne. lia.
    + rewrite (HsW (L / dla)%nat p q (Rr / da)%nat HlW' HrW' HneW). ring.
  - apply (IH a' dqs' (S i) dW da sigW sig sigc LfW Lfa Lfc); try assumption.
    + cbn in HlW |- *. lia.
    + cbn in Hlq |- *. lia.
    + intros k lW la Hk HlW' Hla'. replace (S i + k)%nat with (i + S k)%nat by lia.
      apply (HL (S k) lW la); [cbn in Hk |- *; lia|exact HlW'|exact Hla'].
Qed.

Lemma nth_bdims_apply3 : forall (W : list (nat * T4)) (a : list (nat * T3)) dqs dlW dla j,
  length W = length a -> length dqs = length a -> (j <= length a)%nat ->
  nth j (bdims (dlW * dla) (apply3 dla dqs W a)) O = (nth j (bdims dlW W) O * nth j (bdims dla a) O)%nat.
Proof.
  induction W as [|[dW o] W' IH]; intros a dqs dlW dla j HlW Hlq Hj.
  - destruct a; [|discriminate]. destruct j; [reflexivity|cbn in Hj; lia].
  - destruct a as [|[da ta] a']; [discriminate|]. destruct dqs as [|dq dqs']; [discriminate|].
    cbn [apply3]. destruct j as [|j]; [reflexivity|]. rewrite !nth_bdims_S.
    apply IH; cbn in *; lia.
Qed.

Theorem apply_valid3 sigW sig sigc (mo ma : metaZ) (W : list (nat * T4)) (a : list (nat * T3)) dqs :
  qn_valid4 sigW mo W -> qn_valid3 sig ma a ->
  (forall j pu q, sigc j pu = sigW j pu q + sig j q) ->
  length W = length a -> length dqs = length a ->
  qn_valid3 sigc (apply_meta (length a) mo ma) (apply3 1 dqs W a) /\
  qntot (apply_meta (length a) mo ma) = qntot ma + qntot mo.
Proof.
  intros [[HshW [HldW HkW]] [H0W [HnW HvW]]] [[Hsha [Hlda Hka]] [H0a [Hna Hva]]] Hsig HlW Hlq.
  split; [|reflexivity].
  set (n := length a) in *.
  set (a1 := move_qnidx n ma (qnidx mo)).
  set (a2 := @Build_meta ZLab (zipw outer (qn mo) (qn a1)) (qnidx a1) (ladd ZLab (qntot ma) (qntot mo)) (to_right a1)).
  assert (Hres : apply_meta n mo ma = move_qnidx n a2 (qnidx ma)) by reflexivity.
  assert (Hlenqo : length (qn mo) = S n).
  { rewrite <- (map_length (@length Z)), HshW, length_bdims. unfold n. lia. }
  assert (Hlenqa : length (qn ma) = S n).
  { rewrite <- (map_length (@length Z)), Hsha, length_bdims. reflexivity. }
  assert (Hlenqa1 : length (qn a1) = S n).
  { unfold a1. rewrite qn_move, !length_flip_above. exact Hlenqa. }
  assert (Hlo : forall j, length (nth j (qn mo) []) = nth j (bdims 1 W) O) by (intros j; apply shape_len; exact HshW).
  assert (Hla : forall j, length (nth j (qn ma) []) = nth j (bdims 1 a) O) by (intros j; apply shape_len; exact Hsha).
  assert (Hla1 : forall j, length (nth j (qn a1) []) = nth j (bdims 1 a) O).
  { intros j. unfold a1. rewrite length_qn_move. apply Hla. }
  assert (Hq2 : forall j, (j <= n)%nat -> nth j (qn a2) [] = outer (nth j (qn mo) []) (nth j (qn a1) [])).
  { intros j Hj. unfold a2. cbn [qn]. apply (nth_zipw (@outer ZLab) (qn mo) (qn a1) j [] [] []); lia. }
  assert (Hl2 : forall j, (j <= n)%nat -> length (nth j (qn a2) []) = (nth j (bdims 1 W) O * nth j (bdims 1 a) O)%nat).
  { intros j Hj. rewrite Hq2 by exact Hj. rewrite length_outer, Hlo, Hla1. reflexivity. }
  (* the labels of the product *)
  assert (HL : forall j lW la, (j <= n)%nat -> (lW < nth j (bdims 1 W) O)%nat -> (la < nth j (bdims 1 a) O)%nat ->
     Llab (apply_meta n mo ma) j (lW * nth j (bdims 1 a) O + la)%nat = Llab mo j lW + Llab ma j la).
  { intros j lW la Hj HlW' Hla'. rewrite Hres.
    rewrite Llab_move; [|exact Hj|rewrite Hl2 by exact Hj; nia].
    rewrite <- (Llab_move n ma (qnidx mo) j la Hj) by (rewrite Hla; exact Hla'). fold a1.
    unfold Llab, qn_at. rewrite Hq2 by exact Hj.
    cbn [a2 qnidx qntot]. replace (qnidx a1) with (qnidx mo) by reflexivity.
    replace (qntot a1) with (qntot ma) by reflexivity. zl.
    rewrite <- (Hla1 j). rewrite nth_outer_Z by (rewrite ?Hlo, ?Hla1; assumption).
    destruct (j <=? qnidx mo)%nat; [reflexivity|].
    generalize (nth lW (nth j (qn mo) []) 0). generalize (nth la (nth j (qn a1) []) 0).
    generalize (qntot ma). generalize (qntot mo). zl. intros; lia. }
  unfold qn_valid3, shape_ok. rewrite length_apply3 by assumption. fold n.
  assert (Hlenres : length (qn (apply_meta n mo ma)) = S n).
  { rewrite Hres, qn_move, !length_flip_above. unfold a2. cbn [qn]. rewrite length_zipw, Hlenqo, Hlenqa1. lia. }
  split; [split; [|split]|].
  - apply (nth_ext _ _ O O).
    + rewrite map_length, length_bdims, length_apply3 by assumption. exact Hlenres.
    + intros j Hj. rewrite map_length in Hj.
      assert (Hj' : (j < S n)%nat) by (rewrite <- Hlenres; exact Hj).
      rewrite (nth_indep _ O (length (@nil Z))) by (rewrite map_length; exact Hj).
      rewrite (map_nth (@length Z)). rewrite Hres, length_qn_move, Hl2 by lia.
      change 1%nat with (1 * 1)%nat at 3. rewrite nth_bdims_apply3 by (try assumption; fold n; lia). reflexivity.
  - rewrite <- nth_bdims_last, length_apply3 by assumption. fold n.
    change 1%nat with (1 * 1)%nat at 1. rewrite nth_bdims_apply3 by (try assumption; fold n; lia).
    unfold n at 2. rewrite nth_bdims_last, Hlda. rewrite <- HlW. rewrite nth_bdims_last, HldW. reflexivity.
  - rewrite Hres. cbn [move_qnidx qnidx]. exact Hka.
  - split; [|split].
    + pose proof (HL O O O (Nat.le_0_l _)) as E. cbn [bdims nth Nat.mul Nat.add] in E. rewrite E by lia.
      rewrite H0W, H0a. reflexivity.
    + assert (Hb1 : nth n (bdims 1 a) O = 1%nat) by (unfold n; rewrite nth_bdims_last; exact Hlda).
      assert (Hb2 : nth n (bdims 1 W) O = 1%nat) by (rewrite <- HlW, nth_bdims_last; exact HldW).
      pose proof (HL n O O (Nat.le_refl _)) as E. rewrite Hb1, Hb2 in E. cbn [Nat.mul Nat.add] in E.
      rewrite E by lia. rewrite HlW in HnW. rewrite HnW, Hna.
      rewrite Hres. cbn [move_qnidx qntot a2]. zl. generalize (qntot mo). generalize (qntot ma). zl. intros; lia.
    + change 1%nat with (1 * 1)%nat at 1.
      apply (apply3_valid_from W a dqs O 1%nat 1%nat sigW sig sigc (Llab mo) (Llab ma)); assumption.
Qed.

End ValidApply.

(* ================================================================== operator on operator; MpDm.apply *)
Section ValidApply4.
Variable R : CRing.
Add Ring RRap4 : (rth R).
Notation T3 := (T3 R).
Notation T4 := (T4 R).

Theorem apply_valid4 sigW sigB sigC (mo mb : metaZ) (W B : list (nat * T4)) dqs :
  qn_valid4 sigW mo W -> qn_valid4 sigB mb B ->
  (forall j pu q pd, sigC j pu pd = sigW j pu q + sigB j q pd) ->
  length W = length B -> length dqs = length B ->
  qn_valid4 sigC (apply_meta (length B) mo mb) (apply4 1 dqs W B) /\
  qntot (apply_meta (length B) mo mb) = qntot mb + qntot mo.
Proof.
  intros HW HB Hsig HlW Hlq. split; [|reflexivity].
  rewrite qn_valid4_slice in HB. apply qn_valid4_slice. intros f.
  rewrite slice4_apply. rewrite <- (length_slice4 R f 0 B).
  apply (apply_valid3 R sigW (fun j q => sigB j q (f j)) (fun j pu => sigC j pu (f j)) mo mb W (slice4 f 0 B) dqs).
  - exact HW.
  - apply HB.
  - intros j pu q. apply Hsig.
  - rewrite length_slice4. exact HlW.
  - rewrite length_slice4. exact Hlq.
Qed.

Lemma valid_from3_trivial : forall (ts : list (nat * T3)) i dl, valid_from3 (fun _ _ => 0) (fun _ _ => 0) i dl ts.
Proof.
  induction ts as [|[d t] ts IH]; intros i dl; [exact I|]. split; [|apply IH].
  intros l p r _ _ Hne. exfalso. apply Hne. reflexivity.
Qed.

Lemma nth_dummy (z : Z) odims j : nth j (map (fun d => repeat z d) odims) [] = repeat z (nth j odims O).
Proof. change (@nil Z) with ((fun d => repeat z d) O). apply map_nth. Qed.

(* MpDm.apply(mp): the labels of the density operator are carried by its upper index only, so the result is valid
   whatever the second factor is (this is why the code may use mp.dummy_qn) *)
Theorem mpdm_apply_valid sig (mr : metaZ) (Rho Op : list (nat * T4)) dqs :
  qn_valid4 sig mr Rho -> (forall j pu q q', sig j pu q = sig j pu q') ->
  length Rho = length Op -> length dqs = length Op -> lastdim 1 Op = 1%nat ->
  qn_valid4 sig (mpdm_apply_meta mr (bdims 1 Op)) (apply4 1 dqs Rho Op).
Proof.
  intros [[Hsh [Hld Hk]] [H0 [Hn Hv]]] Hind HlR Hlq HldO.
  set (n := length Op) in *.
  set (mres := mpdm_apply_meta mr (bdims 1 Op)).
  assert (Hlenq : length (qn mr) = S n).
  { rewrite <- (map_length (@length Z)), Hsh, length_bdims. lia. }
  assert (Hlr : forall j, length (nth j (qn mr) []) = nth j (bdims 1 Rho) O) by (intros j; apply shape_len; exact Hsh).
  assert (Hq : forall j, (j <= n)%nat ->
     nth j (qn mres) [] = outer (nth j (qn mr) []) (repeat 0 (nth j (bdims 1 Op) O))).
  { intros j Hj. unfold mres, mpdm_apply_meta. cbn [qn].
    rewrite (nth_zipw (@outer ZLab) (qn mr) _ j [] [] []); [|lia|rewrite map_length, length_bdims; fold n; lia].
    rewrite nth_dummy. reflexivity. }
  assert (HL : forall j lr lo, (j <= n)%nat -> (lr < nth j (bdims 1 Rho) O)%nat -> (lo < nth j (bdims 1 Op) O)%nat ->
     Llab mres j (lr * nth j (bdims 1 Op) O + lo)%nat = Llab mr j lr + 0).
  { intros j lr lo Hj Hlr' Hlo. unfold Llab, qn_at. rewrite Hq by exact Hj.
    cbn [mres mpdm_apply_meta qnidx qntot]. zl.
    pose proof (nth_outer_Z (nth j (qn mr) []) (repeat 0 (nth j (bdims 1 Op) O)) lr lo) as E.
    rewrite repeat_length in E. zl. rewrite E by (rewrite ?Hlr; assumption).
    rewrite nth_repeat.
    destruct (j <=? qnidx mr)%nat; [reflexivity|].
    generalize (nth lr (nth j (qn mr) []) 0). generalize (qntot mr). zl. intros; lia. }
  assert (Hlenres : length (qn mres) = S n).
  { unfold mres, mpdm_apply_meta. cbn [qn]. rewrite length_zipw, map_length, length_bdims, Hlenq. fold n. lia. }
  assert (Hlapp : length (apply4 1 dqs Rho Op) = n).
  { rewrite <- (length_slice4 R (fun _ => O) 0), slice4_apply, length_apply3, length_slice4; rewrite ?length_slice4; auto. }
  assert (Hbd : forall j, (j <= n)%nat -> nth j (bdims 1 (apply4 1 dqs Rho Op)) O = (nth j (bdims 1 Rho) O * nth j (bdims 1 Op) O)%nat).
  { intros j Hj. rewrite <- (bdims_slice4 R (fun _ => O) 0 1 (apply4 1 dqs Rho Op)), slice4_apply.
    change 1%nat with (1 * 1)%nat at 1. rewrite nth_bdims_apply3; rewrite ?length_slice4, ?bdims_slice4; auto. }
  unfold qn_valid4, shape_ok. rewrite Hlapp. fold mres.
  split; [split; [|split]|].
  - apply (nth_ext _ _ O O).
    + rewrite map_length, length_bdims, Hlapp. exact Hlenres.
    + intros j Hj. rewrite map_length in Hj.
      assert (Hj' : (j < S n)%nat) by (rewrite <- Hlenres; exact Hj).
      rewrite (nth_indep _ O (length (@nil Z))) by (rewrite map_length; exact Hj).
      rewrite (map_nth (@length Z)). rewrite Hq by lia. rewrite length_outer, repeat_length, Hlr, Hbd by lia. reflexivity.
  - rewrite <- nth_bdims_last, Hlapp, Hbd by lia. rewrite <- HlR at 1. rewrite nth_bdims_last, Hld.
    unfold n. rewrite nth_bdims_last, HldO. reflexivity.
  - unfold mres. cbn [mpdm_apply_meta qnidx]. lia.
  - split; [|split].
    + pose proof (HL O O O (Nat.le_0_l _)) as E. cbn [bdims nth Nat.mul Nat.add] in E. rewrite E by lia. rewrite H0. reflexivity.
    + assert (Hb1 : nth n (bdims 1 Op) O = 1%nat) by (unfold n; rewrite nth_bdims_last; exact HldO).
      assert (Hb2 : nth n (bdims 1 Rho) O = 1%nat) by (rewrite <- HlR, nth_bdims_last; exact Hld).
      pose proof (HL n O O (Nat.le_refl _)) as E. rewrite Hb1, Hb2 in E. cbn [Nat.mul Nat.add] in E.
      rewrite E by lia. rewrite HlR in Hn. rewrite Hn. unfold mres. cbn [mpdm_apply_meta qntot]. lia.
    + apply valid4_slice. intros f. rewrite slice4_apply.
      change 1%nat with (1 * 1)%nat at 1.
      apply (apply3_valid_from R Rho (slice4 f 0 Op) dqs O 1%nat 1%nat sig (fun _ _ => 0) (fun j pu => sig j pu (f j))
               (Llab mr) (fun _ _ => 0) (Llab mres)); rewrite ?length_slice4; try assumption.
      * apply valid_from3_trivial.
      * intros j pu q. rewrite (Hind j pu q (f j)). lia.
      * intros k lr lo Hkk Hlr' Hlo. rewrite bdims_slice4 in Hlo |- *. cbn [Nat.add]. apply HL; assumption.
Qed.

End ValidApply4.

(* ================================================================== soundness of the boolean checker *)
Section Checker.
Variable R : CRing.
Notation T3 := (T3 R).

Lemma length_Llist (m : metaZ) i : length (Llist m i) = length (nth i (qn m) []).
Proof. unfold Llist. rewrite map_length, seq_length. reflexivity. Qed.

Lemma nth_Llist (m : metaZ) i l : (l < length (nth i (qn m) []))%nat -> nth l (Llist m i) 0 = Llab m i l.
Proof.
  intros Hl. unfold Llist.
  rewrite (nth_indep _ 0 ((fun a => Llab m i a) O)) by (rewrite map_length, seq_length; exact Hl).
  rewrite (map_nth (fun a => Llab m i a)). rewrite seq_nth by exact Hl. reflexivity.
Qed.

Lemma site_okb_sound sg LL LR pat (t : T3) :
  site_okb sg LL LR pat = true -> (forall l p r, pat_at pat l p r = false -> t l p r = r0 R) ->
  forall l p r, (l < length LL)%nat -> (r < length LR)%nat -> nth l LL 0 + nth p sg 0 <> nth r LR 0 -> t l p r = r0 R.
Proof.
  intros Hok Hsup l p r Hl Hr Hne. apply Hsup.
  destruct (pat_at pat l p r) eqn:E; [|reflexivity]. exfalso.
  unfold site_okb in Hok. rewrite forallb_forall in Hok.
  assert (Hinl : In l (seq 0 (length LL))) by (apply in_seq; lia).
  pose proof (Hok l Hinl) as Hok1. rewrite forallb_forall in Hok1.
  destruct (Nat.lt_ge_cases p (length (nth l pat []))) as [Hp|Hp].
  - assert (Hinp : In p (seq 0 (length (nth l pat [])))) by (apply in_seq; lia).
    pose proof (Hok1 p Hinp) as Hok2. rewrite forallb_forall in Hok2.
    assert (Hinr : In r (seq 0 (length LR))) by (apply in_seq; lia).
    pose proof (Hok2 r Hinr) as Hok3. rewrite E in Hok3. cbn [implb] in Hok3.
    apply Z.eqb_eq in Hok3. contradiction.
  - unfold pat_at in E. rewrite (nth_overflow (nth l pat []) []) in E by exact Hp.
    destruct r; discriminate.
Qed.

Lemma has_support_length : forall pats (ts : list (nat * T3)), has_support pats ts -> length pats = length ts.
Proof.
  induction pats as [|pat pats IH]; intros ts H; destruct ts as [|[d t] ts]; cbn in H; try contradiction; [reflexivity|].
  destruct H as [_ H]. cbn [length]. f_equal. apply IH. exact H.
Qed.

Lemma checker_valid_from : forall (ts : list (nat * T3)) pats sigs (m : metaZ) i dl,
  has_support pats ts ->
  (forall j, (j < length ts)%nat ->
     site_okb (nth (i + j) sigs []) (Llist m (i + j)) (Llist m (S (i + j))) (nth j pats []) = true) ->
  (forall j, (j <= length ts)%nat -> nth j (bdims dl ts) O = length (nth (i + j) (qn m) [])) ->
  valid_from3 (sig_of sigs) (Llab m) i dl ts.
Proof.
  induction ts as [|[d t] ts IH]; intros pats sigs m i dl Hsup Hsite Hdim; [exact I|].
  destruct pats as [|pat pats]; [contradiction|]. destruct Hsup as [Hs Hsup].
  pose proof (Hdim O (Nat.le_0_l _)) as D0. rewrite Nat.add_0_r in D0. cbn [bdims nth] in D0.
  assert (H1 : (1 <= length ((d, t) :: ts))%nat) by (cbn; lia).
  pose proof (Hdim 1%nat H1) as D1. replace (i + 1)%nat with (S i) in D1 by lia. cbn [bdims map fst nth] in D1.
  assert (H0 : (O < length ((d, t) :: ts))%nat) by (cbn; lia).
  pose proof (Hsite O H0) as S0. rewrite Nat.add_0_r in S0. cbn [nth] in S0.
  split.
  - intros l p r Hl Hr Hne.
    apply (site_okb_sound _ _ _ _ t S0 Hs l p r); rewrite ?length_Llist; try lia.
    rewrite !nth_Llist by lia. exact Hne.
  - apply (IH pats sigs m (S i) d Hsup).
    + intros j Hj. replace (S i + j)%nat with (i + S j)%nat by lia.
      assert (HSj : (S j < length ((d, t) :: ts))%nat) by (cbn; lia).
      pose proof (Hsite (S j) HSj) as E. cbn [nth] in E. exact E.
    + intros j Hj. replace (S i + j)%nat with (i + S j)%nat by lia.
      assert (HSj : (S j <= length ((d, t) :: ts))%nat) by (cbn; lia).
      pose proof (Hdim (S j) HSj) as E. rewrite nth_bdims_S in E. exact E.
Qed.

(* the checker decides label validity for ANY tensors with the exported support and dimensions *)
Theorem qn_validb_sound sigs (m : metaZ) pats (ts : list (nat * T3)) :
  qn_validb sigs m pats = true -> has_support pats ts -> map fst ts = tl (map (@length Z) (qn m)) ->
  qn_valid3 (sig_of sigs) m ts.
Proof.
  intros Hb Hsup Hdims. unfold qn_validb in Hb.
  repeat (apply andb_prop in Hb; let H := fresh "Hc" in destruct Hb as [Hb H]).
  pose proof (has_support_length pats ts Hsup) as Hlp. rewrite Hlp in *.
  apply Nat.eqb_eq in Hb. apply Nat.eqb_eq in Hc5. apply Nat.ltb_lt in Hc4. apply Nat.eqb_eq in Hc3.
  apply Nat.eqb_eq in Hc2. apply Z.eqb_eq in Hc1. apply Z.eqb_eq in Hc0.
  assert (Hbd : map (@length Z) (qn m) = bdims 1 ts).
  { unfold bdims. rewrite Hdims. destruct (qn m) as [|q0 qs] eqn:Eq; [cbn in Hb; lia|].
    cbn [map tl]. f_equal. cbn [nth] in Hc3. exact Hc3. }
  assert (Hdim : forall j, nth j (bdims 1 ts) O = length (nth j (qn m) [])).
  { intros j. symmetry. apply shape_len. exact Hbd. }
  unfold qn_valid3, shape_ok. repeat split; try assumption.
  - rewrite <- nth_bdims_last, Hdim. exact Hc2.
  - apply (checker_valid_from ts pats sigs m O 1%nat Hsup).
    + intros j Hj. cbn [Nat.add]. rewrite forallb_forall in Hc. apply Hc. apply in_seq. lia.
    + intros j _. cbn [Nat.add]. apply Hdim.
Qed.

End Checker.

(* ================================================================== several components: every operation commutes
   with taking component k, so every statement above holds component-wise for vector labels *)
Lemma comp_nil k : comp k [] = 0.
Proof. unfold comp. destruct k; reflexivity. Qed.

Lemma comp_zipz f (Hf : f 0 0 = 0) : forall a b k, comp k (zipz f a b) = f (comp k a) (comp k b).
Proof.
  induction a as [|x a IH]; intros b k.
  - cbn [zipz]. rewrite comp_nil. unfold comp. rewrite <- Hf at 1. apply (map_nth (fun y => f 0 y)).
  - destruct b as [|y b]; cbn [zipz].
    + destruct k as [|k]; [unfold comp; reflexivity|].
      change (comp (S k) (f x 0 :: zipz f a [])) with (comp k (zipz f a [])).
      rewrite IH. rewrite !comp_nil. reflexivity.
    + destruct k as [|k]; [reflexivity|]. apply (IH b k).
Qed.

Lemma comp_map_opp k v : comp k (map Z.opp v) = - comp k v.
Proof. unfold comp. change 0 with (Z.opp 0) at 1. apply (map_nth Z.opp). Qed.
Lemma comp_zero_like k v : comp k (map (fun _ : Z => 0) v) = 0.
Proof. unfold comp. apply (map_nth (fun _ : Z => 0) v 0 k). Qed.

Lemma map_mapi_from {A B} (g : A -> B) (f : nat -> A -> A) (f' : nat -> B -> B)
  (H : forall idx x, g (f idx x) = f' idx (g x)) : forall q i, map g (mapi_from f i q) = mapi_from f' i (map g q).
Proof. induction q as [|x q IH]; intros i; cbn [mapi_from map]; [reflexivity|]. rewrite H, IH. reflexivity. Qed.

Lemma proj_flip_above k n lo tot q :
  map (map (comp k)) (@flip_above VLab n lo tot q) = @flip_above ZLab n lo (comp k tot) (map (map (comp k)) q).
Proof.
  unfold flip_above. apply map_mapi_from. intros idx x.
  destruct ((lo <? idx)%nat && (idx <=? n)%nat); [|reflexivity].
  rewrite !map_map. apply map_ext. intros v. cbn [lsub VLab ZLab]. apply (comp_zipz Z.sub eq_refl).
Qed.

Lemma proj_move k n (m : meta VLab) d : proj_meta k (move_qnidx n m d) = move_qnidx n (proj_meta k m) d.
Proof.
  unfold proj_meta, move_qnidx. cbn [qn qnidx qntot to_right]. f_equal.
  rewrite !proj_flip_above. reflexivity.
Qed.

Lemma map_zipw_app {A B} (g : A -> B) : forall (a b : list (list A)),
  map (map g) (zipw (@app A) a b) = zipw (@app B) (map (map g) a) (map (map g) b).
Proof.
  induction a as [|x a IH]; intros b; [reflexivity|]. destruct b as [|y b]; [reflexivity|].
  cbn [zipw map]. rewrite map_app, IH. reflexivity.
Qed.
Lemma map_set_first {A B} (g : A -> B) (q : list A) z : map g (set_first q z) = set_first (map g q) (g z).
Proof. destruct q; reflexivity. Qed.
Lemma map_set_last {A B} (g : A -> B) : forall (q : list A) z, map g (set_last q z) = set_last (map g q) (g z).
Proof.
  induction q as [|x q IH]; intros z; [reflexivity|]. cbn [set_last map]. destruct q as [|y q]; [reflexivity|].
  cbn [map]. f_equal. apply (IH z).
Qed.

Lemma proj_add_meta k n (a b : meta VLab) :
  proj_meta k (add_meta n a b) = add_meta n (proj_meta k a) (proj_meta k b).
Proof.
  unfold add_meta. rewrite <- proj_move.
  unfold proj_meta at 1. cbn [qn qnidx qntot to_right].
  rewrite map_set_last, map_set_first, map_zipw_app.
  cbn [map lzero_like VLab ZLab]. rewrite comp_zero_like. reflexivity.
Qed.

Lemma proj_outer k : forall qo qm, map (comp k) (@outer VLab qo qm) = @outer ZLab (map (comp k) qo) (map (comp k) qm).
Proof.
  unfold outer. induction qo as [|x qo IH]; intros qm; [reflexivity|].
  cbn [flat_map map]. rewrite map_app, IH. apply f_equal2; [|reflexivity].
  rewrite !map_map. apply map_ext. intros y. cbn [ladd VLab ZLab]. apply (comp_zipz Z.add eq_refl).
Qed.

Lemma map_zipw_outer k : forall (a b : list (list (list Z))),
  map (map (comp k)) (zipw (@outer VLab) a b) = zipw (@outer ZLab) (map (map (comp k)) a) (map (map (comp k)) b).
Proof.
  induction a as [|x a IH]; intros b; [reflexivity|]. destruct b as [|y b]; [reflexivity|].
  cbn [zipw map]. rewrite proj_outer, IH. reflexivity.
Qed.

Lemma proj_apply_meta k n (o a : meta VLab) :
  proj_meta k (apply_meta n o a) = apply_meta n (proj_meta k o) (proj_meta k a).
Proof.
  unfold apply_meta. rewrite proj_move. f_equal.
  unfold proj_meta at 1. cbn [qn qnidx qntot to_right].
  rewrite map_zipw_outer.
  replace (map (map (comp k)) (qn (move_qnidx n a (qnidx o)))) with (qn (proj_meta k (move_qnidx n a (qnidx o)))) by reflexivity.
  rewrite proj_move. cbn [ladd VLab]. rewrite (comp_zipz Z.add eq_refl). reflexivity.
Qed.

Lemma proj_conj_trans_meta k (m : meta VLab) : proj_meta k (conj_trans_meta m) = conj_trans_meta (proj_meta k m).
Proof.
  unfold conj_trans_meta, proj_meta. cbn [qn qnidx qntot to_right lneg VLab ZLab].
  rewrite comp_map_opp. f_equal. rewrite !map_map. apply map_ext. intros x.
  rewrite !map_map. apply map_ext. intros v. apply comp_map_opp.
Qed.

Section ValidV.
Variable R : CRing.
Notation T3 := (T3 R).
Notation T4 := (T4 R).

Theorem valid_in_sectorV nc sigV (m : meta VLab) (ts : list (nat * T3)) :
  qn_valid3V nc sigV m ts -> forall s, amp ts s <> r0 R ->
  forall k, (k < nc)%nat -> charge (fun i p => comp k (sigV i p)) 0 s = comp k (qntot m).
Proof. intros Hv s Hnz k Hk. apply (valid_in_sector R _ (proj_meta k m) ts (Hv k Hk) s Hnz). Qed.

Theorem add_valid3V nc sigV (ma mb : meta VLab) (A B : list (nat * T3)) :
  qn_valid3V nc sigV ma A -> qn_valid3V nc sigV mb B -> qntot ma = qntot mb ->
  (2 <= length A)%nat -> length A = length B ->
  qn_valid3V nc sigV (add_meta (length A) ma mb) (add3 A B).
Proof.
  intros HA HB Htot H2 Hlen k Hk. rewrite proj_add_meta.
  apply add_valid3; try assumption; [apply HA|apply HB|]; try exact Hk. cbn [proj_meta qntot]. rewrite Htot. reflexivity.
Qed.

Theorem apply_valid3V nc sigWV sigV sigcV (mo ma : meta VLab) (W : list (nat * T4)) (a : list (nat * T3)) dqs :
  qn_valid4V nc sigWV mo W -> qn_valid3V nc sigV ma a ->
  (forall k j pu q, (k < nc)%nat -> comp k (sigcV j pu) = comp k (sigWV j pu q) + comp k (sigV j q)) ->
  length W = length a -> length dqs = length a ->
  qn_valid3V nc sigcV (apply_meta (length a) mo ma) (apply3 1 dqs W a).
Proof.
  intros HW Ha Hsig HlW Hlq k Hk. rewrite proj_apply_meta.
  apply (apply_valid3 R (fun i pu pd => comp k (sigWV i pu pd)) (fun i p => comp k (sigV i p))); try assumption.
  - apply HW. exact Hk.
  - apply Ha. exact Hk.
  - intros j pu q. apply Hsig. exact Hk.
Qed.

Theorem conj_trans_validV nc sigV (m : meta VLab) (ts : list (nat * T4)) :
  (forall k j pu pd, (k < nc)%nat -> comp k (sigV j pu pd) = - comp k (sigV j pd pu)) ->
  qn_valid4V nc sigV m ts -> qn_valid4V nc sigV (conj_trans_meta m) (conj_trans4 ts).
Proof.
  intros Hanti Hv k Hk. rewrite proj_conj_trans_meta. apply conj_trans_valid.
  - intros j pu pd. apply Hanti. exact Hk.
  - apply Hv. exact Hk.
Qed.

Theorem qn_validbV_sound nc sigsV (m : meta VLab) pats (ts : list (nat * T3)) :
  qn_validbV nc sigsV m pats = true -> has_support pats ts -> map fst ts = tl (map (@length (list Z)) (qn m)) ->
  forall k, (k < nc)%nat -> qn_valid3 (sig_of (map (map (comp k)) sigsV)) (proj_meta k m) ts.
Proof.
  intros Hb Hsup Hdims k Hk. unfold qn_validbV in Hb. rewrite forallb_forall in Hb.
  apply (qn_validb_sound R _ _ pats); [apply Hb; apply in_seq; lia | exact Hsup |].
  rewrite Hdims. cbn [proj_meta qn]. rewrite map_map. destruct (qn m) as [|q0 qs]; [reflexivity|].
  cbn [map tl]. apply map_ext. intros x. symmetry. apply map_length.
Qed.

End ValidV.

(* ================================================================== corollaries used by C06 *)
Section Corollaries.
Variable R : CRing.
Notation T3 := (T3 R).
Notation T4 := (T4 R).

(* re-centring the labels (what canonicalise / compress / every sweep does between sites) keeps them valid *)
Theorem move_valid3 sig (m : metaZ) (ts : list (nat * T3)) d :
  qn_valid3 sig m ts -> (d < length ts)%nat -> qn_valid3 sig (move_qnidx (length ts) m d) ts.
Proof.
  intros [[Hsh [Hld Hk]] [H0 [Hn Hv]]] Hd.
  assert (Hlen : forall j, length (nth j (qn m) []) = nth j (bdims 1 ts) O) by (intros j; apply shape_len; exact Hsh).
  unfold qn_valid3, shape_ok. rewrite map_length_qn_move.
  split; [split; [exact Hsh|split; [exact Hld|exact Hd]]|].
  split; [|split].
  - rewrite Llab_move; [exact H0|lia|rewrite Hlen; cbn; lia].
  - rewrite Llab_move; [exact Hn|lia|rewrite Hlen, nth_bdims_last, Hld; lia].
  - apply (valid_from3_ext R ts sig (Llab m)); [|exact Hv].
    intros k a Hk' Ha. cbn [Nat.add]. symmetry. apply Llab_move; [exact Hk'|rewrite Hlen; exact Ha].
Qed.

(* applying an operator of total charge q moves the state exactly to the sector shifted by q *)
Theorem apply_moves_sector sigW sig sigc (mo ma : metaZ) (W : list (nat * T4)) (a : list (nat * T3)) dqs :
  qn_valid4 sigW mo W -> qn_valid3 sig ma a ->
  (forall j pu q, sigc j pu = sigW j pu q + sig j q) ->
  length W = length a -> length dqs = length a ->
  forall s, amp (apply3 1 dqs W a) s <> r0 R -> charge sigc 0 s = qntot ma + qntot mo.
Proof.
  intros HW Ha Hsig HlW Hlq s Hnz.
  destruct (apply_valid3 R sigW sig sigc mo ma W a dqs HW Ha Hsig HlW Hlq) as [Hv Htot].
  rewrite <- Htot. apply (valid_in_sector R sigc _ _ Hv s Hnz).
Qed.

Theorem add_stays_in_sector sig (ma mb : metaZ) (A B : list (nat * T3)) :
  qn_valid3 sig ma A -> qn_valid3 sig mb B -> qntot ma = qntot mb ->
  (2 <= length A)%nat -> length A = length B ->
  forall s, amp (add3 A B) s <> r0 R -> charge sig 0 s = qntot ma.
Proof.
  intros HA HB Htot H2 Hlen s Hnz.
  apply (valid_in_sector R sig _ _ (add_valid3 R sig ma mb A B HA HB Htot H2 Hlen) s Hnz).
Qed.

End Corollaries.
