(* C08 -- tree_env_fresh: in optimize_ttns (any tree whose root has a child, any number of sweeps) every environment
   that is read -- by hop_expr2 for the two-site problem or by TTNEnviron's build_* functions to make another
   environment -- carries the current versions of exactly the node tensors it depends on.                    *)
From Coq Require Import List Arith Bool Lia.
Import ListNotations.
From RV Require Import Model.TreeOpt.

(* ------------------------------------------------------------------ paths *)
Lemma path_eqb_eq a : forall b, path_eqb a b = true <-> a = b.
Proof.
  induction a as [|x a IH]; intros [|y b]; cbn; split; intros H; try reflexivity; try discriminate.
  - apply andb_true_iff in H. destruct H as [H1 H2]. apply Nat.eqb_eq in H1. apply IH in H2. congruence.
  - inversion H; subst. rewrite Nat.eqb_refl. cbn. apply IH. reflexivity.
Qed.
Lemma path_eqb_refl a : path_eqb a a = true.
Proof. apply path_eqb_eq. reflexivity. Qed.
Lemma path_eqb_neq a b : a <> b -> path_eqb a b = false.
Proof. intros H. destruct (path_eqb a b) eqn:E; [apply path_eqb_eq in E; contradiction|reflexivity]. Qed.

Lemma is_prefix_spec a : forall w, is_prefix a w = true <-> exists r, w = a ++ r.
Proof.
  induction a as [|x a IH]; intros w; cbn.
  - split; [intros _; exists w; reflexivity|reflexivity].
  - destruct w as [|y w]; [split; [discriminate|intros [r H]; discriminate]|].
    rewrite andb_true_iff, Nat.eqb_eq, IH. split.
    + intros [-> [r ->]]. exists r. reflexivity.
    + intros [r H]. inversion H; subst. split; [reflexivity|exists r; reflexivity].
Qed.
Lemma is_prefix_app a r : is_prefix a (a ++ r) = true.
Proof. apply is_prefix_spec. exists r. reflexivity. Qed.
Lemma is_prefix_refl a : is_prefix a a = true.
Proof. apply is_prefix_spec. exists []. rewrite app_nil_r. reflexivity. Qed.
Lemma is_prefix_false a w : is_prefix a w = false <-> ~ exists r, w = a ++ r.
Proof.
  rewrite <- is_prefix_spec. destruct (is_prefix a w); split; intros H.
  - discriminate.
  - exfalso. apply H. reflexivity.
  - discriminate.
  - reflexivity.
Qed.
Lemma is_prefix_trans a b w : is_prefix a b = true -> is_prefix b w = true -> is_prefix a w = true.
Proof. rewrite !is_prefix_spec. intros [r ->] [r' ->]. exists (r ++ r'). rewrite app_assoc. reflexivity. Qed.
Lemma is_prefix_length a w : is_prefix a w = true -> length a <= length w.
Proof. rewrite is_prefix_spec. intros [r ->]. rewrite app_length. lia. Qed.
Lemma is_prefix_same_length a w : is_prefix a w = true -> length w <= length a -> w = a.
Proof.
  rewrite is_prefix_spec. intros [r ->] H. rewrite app_length in H. destruct r; [apply app_nil_r|cbn in H; lia].
Qed.
(* two prefixes of one path are comparable *)
Lemma is_prefix_comparable a b w : is_prefix a w = true -> is_prefix b w = true -> is_prefix a b = true \/ is_prefix b a = true.
Proof.
  revert b w. induction a as [|x a IH]; intros b w Ha Hb; [left; reflexivity|].
  destruct b as [|y b]; [right; reflexivity|]. destruct w as [|z w]; [discriminate|].
  cbn in *. apply andb_true_iff in Ha. apply andb_true_iff in Hb. destruct Ha as [A1 A2], Hb as [B1 B2].
  apply Nat.eqb_eq in A1. apply Nat.eqb_eq in B1. subst. rewrite Nat.eqb_refl. cbn. apply (IH b w); assumption.
Qed.
Lemma is_prefix_snoc_cases v w : is_prefix v w = true -> w = v \/ exists g r, w = v ++ g :: r.
Proof. rewrite is_prefix_spec. intros [[|g r] ->]; [left; apply app_nil_r|right; exists g, r; reflexivity]. Qed.
Lemma is_prefix_snoc v g w : is_prefix (v ++ [g]) w = true <-> exists r, w = v ++ g :: r.
Proof. rewrite is_prefix_spec. split; intros [r ->]; exists r; rewrite <- app_assoc; reflexivity. Qed.
Lemma is_prefix_snoc_self v g : is_prefix (v ++ [g]) v = false.
Proof.
  destruct (is_prefix (v ++ [g]) v) eqn:E; [|reflexivity]. apply is_prefix_length in E. rewrite app_length in E. cbn in E. lia.
Qed.
Lemma snoc_inj (a b : path) x y : a ++ [x] = b ++ [y] -> a = b /\ x = y.
Proof. intros H. apply app_inj_tail in H. exact H. Qed.

(* ------------------------------------------------------------------ the shape *)
Lemma fnth_lt f : forall g c, fnth f g = Some c -> g < flen f.
Proof. induction f as [|t f IH]; intros [|g] c H; cbn in *; try discriminate; [lia|]. apply IH in H. lia. Qed.
Lemma fnth_some f : forall g, g < flen f -> exists c, fnth f g = Some c.
Proof. induction f as [|t f IH]; intros [|g] H; cbn in *; try lia; [eexists; reflexivity|]. apply IH. lia. Qed.

Lemma sub_app t a : forall b, sub t (a ++ b) = match sub t a with Some c => sub c b | None => None end.
Proof.
  revert t. induction a as [|i a IH]; intros t b; [reflexivity|].
  cbn. destruct (fnth (kids t) i); [apply IH|reflexivity].
Qed.
Lemma valid_prefix T a b : valid T (a ++ b) = true -> valid T a = true.
Proof. unfold valid. rewrite sub_app. destruct (sub T a); [reflexivity|discriminate]. Qed.
Lemma child_bound T v c g r : sub T v = Some c -> valid T (v ++ g :: r) = true -> g < nch c.
Proof.
  unfold valid. intros Hs. rewrite sub_app, Hs. cbn. destruct (fnth (kids c) g) eqn:E; [|discriminate].
  intros _. apply fnth_lt in E. exact E.
Qed.
Lemma sub_snoc T v c g : sub T v = Some c -> sub T (v ++ [g]) = fnth (kids c) g.
Proof. intros H. rewrite sub_app, H. cbn. destruct (fnth (kids c) g); reflexivity. Qed.

(* ------------------------------------------------------------------ first_some *)
Lemma fs_miss (f : nat -> option nat) gs : (forall g, In g gs -> f g = None) -> first_some (map f gs) = None.
Proof. induction gs as [|g gs IH]; intros H; [reflexivity|]. cbn. rewrite (H g) by (left; reflexivity). apply IH. intros; apply H; right; assumption. Qed.
Lemma fs_hit (f : nat -> option nat) gs g0 x : In g0 gs -> f g0 = Some x ->
  (forall g, In g gs -> g <> g0 -> f g = None) -> first_some (map f gs) = Some x.
Proof.
  induction gs as [|g gs IH]; intros Hin H0 Hn; [contradiction|]. cbn.
  destruct (Nat.eq_dec g g0) as [->|Hne].
  - rewrite H0. reflexivity.
  - rewrite (Hn g) by (try (left; reflexivity); exact Hne). apply IH; try assumption.
    + destruct Hin; [congruence|assumption].
    + intros; apply Hn; [right; assumption|assumption].
Qed.

(* ------------------------------------------------------------------ store *)
Section Fresh.
Variable T : tree.

Definition FreshK (s : st) (k : key) : Prop := forall w, env s k w = spec T (ver s) k w.
Definition Good (s : st) : Prop := Forall obs_ok (obsl s).

Lemma key_eqb_eq (a b : key) : key_eqb a b = true <-> a = b.
Proof.
  destruct a as [pa sa], b as [pb sb]. unfold key_eqb. cbn [fst snd]. rewrite andb_true_iff, path_eqb_eq.
  split.
  - intros [-> H]. destruct sa, sb; cbn in H; try discriminate; [reflexivity|apply Nat.eqb_eq in H; subst; reflexivity].
  - intros H. inversion H; subst. split; [reflexivity|]. destruct sb; cbn; [reflexivity|apply Nat.eqb_refl].
Qed.
Lemma key_eqb_refl k : key_eqb k k = true. Proof. apply key_eqb_eq. reflexivity. Qed.
Lemma key_eqb_neq a b : a <> b -> key_eqb a b = false.
Proof. intros H. destruct (key_eqb a b) eqn:E; [apply key_eqb_eq in E; contradiction|reflexivity]. Qed.

(* reads do not change versions or environments *)
Lemma rds_cons k ks s : rds T (k :: ks) s = rds T ks (rd T k s).
Proof. reflexivity. Qed.
Lemma rds_ver ks : forall s, ver (rds T ks s) = ver s.
Proof. induction ks as [|k ks IH]; intros s; [reflexivity|]. rewrite rds_cons, IH. reflexivity. Qed.
Lemma rds_env ks : forall s, env (rds T ks s) = env s.
Proof. induction ks as [|k ks IH]; intros s; [reflexivity|]. rewrite rds_cons, IH. reflexivity. Qed.
Lemma rds_good ks : forall s, Good s -> (forall k, In k ks -> FreshK s k) -> Good (rds T ks s).
Proof.
  induction ks as [|k ks IH]; intros s Hg Hf; [exact Hg|]. rewrite rds_cons. apply IH.
  - constructor; [|exact Hg]. unfold obs_ok. cbn. apply Hf. left. reflexivity.
  - intros k' Hk' w. cbn. apply Hf. right. exact Hk'.
Qed.
Lemma rd_good k s : Good s -> FreshK s k -> Good (rd T k s).
Proof. intros Hg Hf. constructor; [exact Hf|exact Hg]. Qed.

(* transfer of freshness between states *)
Lemma fresh_transfer s s' k :
  FreshK s k -> (forall w, env s' k w = env s k w) ->
  (forall w, valid T w = true -> dep k w = true -> ver s' w = ver s w) -> FreshK s' k.
Proof.
  intros Hf He Hv w. rewrite He, Hf. unfold spec. destruct (valid T w) eqn:V; [|reflexivity].
  destruct (dep k w) eqn:D; [|reflexivity]. cbn. rewrite Hv by assumption. reflexivity.
Qed.

(* ------------------------------------------------------------------ the stamps the two builders compute *)
Lemma child_keys_map (s : st) v n w :
  map (fun k => env s k w) (child_keys v n) = map (fun g => env s (v, SChild g) w) (seq 0 n).
Proof. unfold child_keys. rewrite map_map. reflexivity. Qed.
Lemma child_keys_but_map (s : st) v n i w :
  map (fun k => env s k w) (child_keys_but v n i) =
  map (fun g => env s (v, SChild g) w) (filter (fun g => negb (g =? i)) (seq 0 n)).
Proof. unfold child_keys_but. rewrite map_map. reflexivity. Qed.

Lemma up_stamp_ok s (p : path) i c nc :
  sub T (p ++ [i]) = Some c -> nch c = nc ->
  (forall g, g < nc -> FreshK s (p ++ [i], SChild g)) ->
  forall w, (if path_eqb w (p ++ [i]) then Some (ver s (p ++ [i]))
             else first_some (map (fun k => env s k w) (child_keys (p ++ [i]) nc)))
            = spec T (ver s) (p, SChild i) w.
Proof.
  intros Hs Hn Hf w. set (v := p ++ [i]) in *. unfold spec, dep. cbn [fst snd]. fold v.
  destruct (path_eqb w v) eqn:E.
  - apply path_eqb_eq in E. subst w. unfold valid. rewrite Hs, is_prefix_refl. reflexivity.
  - assert (Hne : w <> v) by (intros ->; rewrite path_eqb_refl in E; discriminate).
    rewrite child_keys_map.
    rewrite (map_ext_in _ (fun g => if valid T w && is_prefix (v ++ [g]) w then Some (ver s w) else None)).
    2:{ intros g Hg. apply in_seq in Hg. rewrite (Hf g) by lia. reflexivity. }
    destruct (valid T w && is_prefix v w) eqn:D.
    + apply andb_true_iff in D. destruct D as [V P].
      destruct (is_prefix_snoc_cases _ _ P) as [->|[g0 [r ->]]]; [contradiction|].
      assert (Hg0 : g0 < nc) by (rewrite <- Hn; apply (child_bound T v c g0 r Hs V)).
      apply (fs_hit _ _ g0).
      * apply in_seq. lia.
      * rewrite V. cbn. replace (is_prefix (v ++ [g0]) (v ++ g0 :: r)) with true; [reflexivity|].
        symmetry. apply is_prefix_snoc. exists r. reflexivity.
      * intros g _ Hne'. rewrite V. cbn. replace (is_prefix (v ++ [g]) (v ++ g0 :: r)) with false; [reflexivity|].
        symmetry. apply is_prefix_false. intros [r' H]. rewrite <- app_assoc in H. apply app_inv_head in H. inversion H. congruence.
    + apply fs_miss. intros g _. destruct (valid T w) eqn:V; [|reflexivity]. cbn in *.
      replace (is_prefix (v ++ [g]) w) with false; [reflexivity|].
      symmetry. apply is_prefix_false. intros [r H]. rewrite <- app_assoc in H.
      rewrite H in D. rewrite is_prefix_app in D. discriminate.
Qed.

Lemma down_stamp_ok s (v : path) c np i :
  sub T v = Some c -> nch c = np ->
  (forall j, j < np -> j <> i -> FreshK s (v, SChild j)) -> FreshK s (v, SParent) ->
  forall w, (if path_eqb w v then Some (ver s v)
             else match first_some (map (fun k => env s k w) (child_keys_but v np i)) with
                  | Some x => Some x
                  | None => env s (v, SParent) w
                  end)
            = spec T (ver s) (v ++ [i], SParent) w.
Proof.
  intros Hs Hn Hf Hp w. unfold spec at 1, dep. cbn [fst snd].
  destruct (path_eqb w v) eqn:E.
  - apply path_eqb_eq in E. subst w. unfold valid. rewrite Hs, is_prefix_snoc_self. reflexivity.
  - assert (Hne : w <> v) by (intros ->; rewrite path_eqb_refl in E; discriminate).
    rewrite child_keys_but_map.
    rewrite (map_ext_in _ (fun g => if valid T w && is_prefix (v ++ [g]) w then Some (ver s w) else None)).
    2:{ intros g Hg. apply filter_In in Hg. destruct Hg as [Hg Hgi]. apply in_seq in Hg.
        apply negb_true_iff, Nat.eqb_neq in Hgi. rewrite (Hf g) by (try lia; exact Hgi). reflexivity. }
    rewrite Hp. unfold spec, dep. cbn [fst snd].
    destruct (valid T w) eqn:V; cbn [andb].
    2:{ rewrite fs_miss by (intros; reflexivity). reflexivity. }
    destruct (is_prefix v w) eqn:P.
    + destruct (is_prefix_snoc_cases _ _ P) as [->|[g0 [r ->]]]; [contradiction|].
      assert (Hg0 : g0 < np) by (rewrite <- Hn; apply (child_bound T v c g0 r Hs V)).
      destruct (Nat.eq_dec g0 i) as [->|Hgi].
      * replace (is_prefix (v ++ [i]) (v ++ i :: r)) with true by (symmetry; apply is_prefix_snoc; exists r; reflexivity).
        cbn. rewrite fs_miss; [reflexivity|]. intros g Hg. apply filter_In in Hg. destruct Hg as [_ Hg].
        apply negb_true_iff, Nat.eqb_neq in Hg.
        replace (is_prefix (v ++ [g]) (v ++ i :: r)) with false; [reflexivity|].
        symmetry. apply is_prefix_false. intros [r' H]. rewrite <- app_assoc in H. apply app_inv_head in H. inversion H. congruence.
      * replace (is_prefix (v ++ [i]) (v ++ g0 :: r)) with false.
        2:{ symmetry. apply is_prefix_false. intros [r' H]. rewrite <- app_assoc in H. apply app_inv_head in H. inversion H. congruence. }
        cbn. rewrite (fs_hit _ _ g0 (ver s (v ++ g0 :: r))); [reflexivity| | |].
        -- apply filter_In. split; [apply in_seq; lia|]. apply negb_true_iff, Nat.eqb_neq. exact Hgi.
        -- replace (is_prefix (v ++ [g0]) (v ++ g0 :: r)) with true; [reflexivity|].
           symmetry. apply is_prefix_snoc. exists r. reflexivity.
        -- intros g _ Hne'. replace (is_prefix (v ++ [g]) (v ++ g0 :: r)) with false; [reflexivity|].
           symmetry. apply is_prefix_false. intros [r' H]. rewrite <- app_assoc in H. apply app_inv_head in H. inversion H. congruence.
    + replace (is_prefix (v ++ [i]) w) with false.
      2:{ symmetry. apply is_prefix_false. intros [r H]. rewrite <- app_assoc in H. rewrite H, is_prefix_app in P. discriminate. }
      cbn. rewrite fs_miss; [reflexivity|]. intros g _.
      replace (is_prefix (v ++ [g]) w) with false; [reflexivity|].
      symmetry. apply is_prefix_false. intros [r H]. rewrite <- app_assoc in H. rewrite H, is_prefix_app in P. discriminate.
Qed.

End Fresh.

(* ------------------------------------------------------------------ the builders *)
Section Steps.
Variable T : tree.
Notation FreshK := (FreshK T).
Notation Good := Good.

Lemma fresh_ext s s' k : ver s' = ver s -> (forall w, env s' k w = env s k w) -> FreshK s k -> FreshK s' k.
Proof. intros Hv He Hf w. rewrite He, Hf, Hv. reflexivity. Qed.

Lemma bc_ok s (p : path) i c nc :
  sub T (p ++ [i]) = Some c -> nch c = nc -> Good s ->
  (forall g, g < nc -> FreshK s (p ++ [i], SChild g)) ->
  let s' := bc T p i nc s in
  Good s' /\ ver s' = ver s /\ FreshK s' (p, SChild i) /\
  (forall k, k <> (p, SChild i) -> forall w, env s' k w = env s k w).
Proof.
  intros Hs Hn Hg Hf s'. subst s'. unfold bc.
  set (s1 := rds T (child_keys (p ++ [i]) nc) s).
  assert (G1 : Good s1).
  { apply rds_good; [exact Hg|]. intros k Hk. unfold child_keys in Hk. apply in_map_iff in Hk.
    destruct Hk as [g [<- Hin]]. apply in_seq in Hin. apply Hf. lia. }
  split; [exact G1|]. split; [apply rds_ver|]. split.
  - intros w. cbn [wr env ver]. rewrite key_eqb_refl. unfold s1. rewrite rds_ver.
    apply (up_stamp_ok T s p i c nc Hs Hn Hf).
  - intros k Hk w. cbn [wr env]. rewrite (key_eqb_neq _ _ Hk). unfold s1. rewrite rds_env. reflexivity.
Qed.

Lemma bp_ok s (v : path) c np i :
  sub T v = Some c -> nch c = np -> Good s ->
  (forall j, j < np -> j <> i -> FreshK s (v, SChild j)) -> FreshK s (v, SParent) ->
  let s' := bp T v i np s in
  Good s' /\ ver s' = ver s /\ FreshK s' (v ++ [i], SParent) /\
  (forall k, k <> (v ++ [i], SParent) -> forall w, env s' k w = env s k w).
Proof.
  intros Hs Hn Hg Hf Hp s'. subst s'. unfold bp.
  set (s1 := rds T (child_keys_but v np i) s).
  assert (G1 : Good s1).
  { apply rds_good; [exact Hg|]. intros k Hk. unfold child_keys_but in Hk. apply in_map_iff in Hk.
    destruct Hk as [g [<- Hin]]. apply filter_In in Hin. destruct Hin as [Hin Hgi]. apply in_seq in Hin.
    apply negb_true_iff, Nat.eqb_neq in Hgi. apply Hf; [lia|exact Hgi]. }
  assert (G2 : Good (rd T (v, SParent) s1)).
  { apply rd_good; [exact G1|]. apply (fresh_ext s); [apply rds_ver|intros; unfold s1; rewrite rds_env; reflexivity|exact Hp]. }
  split; [exact G2|]. split; [cbn; apply rds_ver|]. split.
  - intros w. cbn [wr rd env ver]. rewrite key_eqb_refl. unfold s1. rewrite rds_ver.
    apply (down_stamp_ok T s v c np i Hs Hn Hf Hp).
  - intros k Hk w. cbn [wr rd env]. rewrite (key_eqb_neq _ _ Hk). unfold s1. rewrite rds_env. reflexivity.
Qed.

Lemma snoc_neq_self (v : path) i : v ++ [i] <> v.
Proof. intros H. apply (f_equal (@length nat)) in H. rewrite app_length in H. cbn in H. lia. Qed.

(* all environments towards the children of v, one after the other *)
Lemma bp_fold_ok (v : path) c np : sub T v = Some c -> nch c = np ->
  forall (l : list nat) s, Good s -> (forall j, j < np -> FreshK s (v, SChild j)) -> FreshK s (v, SParent) ->
  let s' := fold_left (fun s i' => bp T v i' np s) l s in
  Good s' /\ ver s' = ver s /\ (forall i, In i l -> FreshK s' (v ++ [i], SParent)) /\
  (forall k, (forall i, In i l -> k <> (v ++ [i], SParent)) -> forall w, env s' k w = env s k w).
Proof.
  intros Hs Hn. induction l as [|i l IH]; intros s Hg Hf Hp.
  - cbn. repeat split; try assumption; try reflexivity. intros i [].
  - cbn [fold_left].
    destruct (bp_ok s v c np i Hs Hn Hg (fun j Hj _ => Hf j Hj) Hp) as [G1 [V1 [F1 E1]]].
    set (s1 := bp T v i np s) in *.
    assert (Hf1 : forall j, j < np -> FreshK s1 (v, SChild j)).
    { intros j Hj. apply (fresh_ext s); [exact V1| |apply Hf; exact Hj]. apply E1. intros H. inversion H. }
    assert (Hp1 : FreshK s1 (v, SParent)).
    { apply (fresh_ext s); [exact V1| |exact Hp]. apply E1. intros H. inversion H. exact (snoc_neq_self v i (eq_sym H1)). }
    destruct (IH s1 G1 Hf1 Hp1) as [G2 [V2 [F2 E2]]]. cbv zeta in G2, V2, F2, E2.
    split; [exact G2|]. split; [rewrite V2; exact V1|]. split.
    + intros i' [<-|Hin]; [|apply F2; exact Hin].
      destruct (in_dec Nat.eq_dec i l) as [Hi|Hi]; [apply F2; exact Hi|].
      apply (fresh_ext s1); [exact V2| |exact F1]. apply E2. intros i'' Hin'' H. inversion H.
      apply app_inv_head in H1. inversion H1. subst. contradiction.
    + intros k Hk w. rewrite E2 by (intros i' Hi'; apply Hk; right; exact Hi').
      apply E1. apply Hk. left. reflexivity.
Qed.

End Steps.

(* ------------------------------------------------------------------ TTNEnviron.update_2site and one two-site step *)
Section Main.
Variable T : tree.
Notation FreshK := (FreshK T).

Definition UpFresh (s : st) (p : path) : Prop :=
  forall (d : path) cd g, is_prefix p d = true -> sub T d = Some cd -> g < nch cd -> FreshK s (d, SChild g).
Definition up_ok (p : path) (up : option (path * nat)) : Prop :=
  match up with Some (pp, pi) => p = pp ++ [pi] | None => p = [] end.
Definition Q (up : option (path * nat)) (s : st) : Prop :=
  match up with Some (pp, pi) => FreshK s (pp, SChild pi) | None => True end.

Record Frame (s s' : st) (p : path) (up : option (path * nat)) : Prop := {
  fr_ver : forall w, is_prefix p w = false -> ver s' w = ver s w;
  fr_env : forall (d : path) sl, is_prefix p d = false ->
           (forall pp pi, up = Some (pp, pi) -> (d, sl) <> (pp, SChild pi)) ->
           forall w, env s' (d, sl) w = env s (d, sl) w;
  fr_par : forall w, env s' (p, SParent) w = env s (p, SParent) w }.

Lemma Frame_refl s p up : Frame s s p up.
Proof. constructor; reflexivity. Qed.
Lemma Frame_trans s1 s2 s3 p up : Frame s1 s2 p up -> Frame s2 s3 p up -> Frame s1 s3 p up.
Proof.
  intros [a1 b1 c1] [a2 b2 c2]. constructor.
  - intros w H. rewrite a2, a1 by assumption. reflexivity.
  - intros d sl H1 H2 w. rewrite b2, b1 by assumption. reflexivity.
  - intros w. rewrite c2, c1. reflexivity.
Qed.

Lemma prefix_snoc_up (p d : path) g : is_prefix p d = true -> is_prefix (d ++ [g]) p = false.
Proof.
  intros H. destruct (is_prefix (d ++ [g]) p) eqn:E; [|reflexivity].
  apply is_prefix_length in H. apply is_prefix_length in E. rewrite app_length in E. cbn in E. lia.
Qed.
Lemma prefix_snoc_snoc (p d : path) g i : is_prefix p d = true -> is_prefix (d ++ [g]) (p ++ [i]) = true -> d = p /\ g = i.
Proof.
  intros H E. pose proof (is_prefix_length _ _ H) as L1. pose proof (is_prefix_length _ _ E) as L2.
  rewrite !app_length in L2. cbn in L2.
  assert (d = p) by (apply (is_prefix_same_length p d H); lia). subst d. split; [reflexivity|].
  assert (p ++ [i] = p ++ [g]) by (apply is_prefix_same_length; [exact E|rewrite !app_length; cbn; lia]).
  apply app_inv_head in H0. congruence.
Qed.

Lemma fresh_bump s k (x : path) : FreshK s k -> dep k x = false -> FreshK (bump x s) k.
Proof.
  intros Hf Hd. apply (fresh_transfer T s); [exact Hf|reflexivity|].
  intros w _ Hw. cbn. destruct (path_eqb w x) eqn:E; [|reflexivity].
  apply path_eqb_eq in E. subst. congruence.
Qed.

Lemma env_update_ok (p : path) up tp np i tc nc s1 :
  sub T p = Some tp -> nch tp = np -> fnth (kids tp) i = Some tc -> nch tc = nc -> up_ok p up ->
  Good s1 -> FreshK s1 (p, SParent) ->
  (forall (d : path) cd g, is_prefix p d = true -> sub T d = Some cd -> g < nch cd -> (d, g) <> (p, i) -> FreshK s1 (d, SChild g)) ->
  let s5 := env_update T p up np i nc s1 in
  Good s5 /\ ver s5 = ver s1 /\ FreshK s5 (p, SParent) /\ UpFresh s5 p /\ Q up s5 /\ FreshK s5 (p ++ [i], SParent) /\
  (forall (d : path) sl, is_prefix p d = false -> (forall pp pi, up = Some (pp, pi) -> (d, sl) <> (pp, SChild pi)) ->
     forall w, env s5 (d, sl) w = env s1 (d, sl) w) /\
  (forall w, env s5 (p, SParent) w = env s1 (p, SParent) w).
Proof.
  intros Hp Hnp Hi Hnc Hup A1 A2 A3 s5. subst s5. unfold env_update.
  set (c := p ++ [i]).
  assert (Hc : sub T c = Some tc) by (unfold c; rewrite (sub_snoc T p tp i Hp); exact Hi).
  assert (Hinp : i < np) by (rewrite <- Hnp; apply (fnth_lt _ _ _ Hi)).
  assert (Hcp : c <> p) by apply snoc_neq_self.
  (* 1. env(c -> p) *)
  destruct (bc_ok T s1 p i tc nc Hc Hnc A1) as [G2 [V2 [F2 E2]]].
  { intros g Hg. apply (A3 c tc g); [apply is_prefix_app|exact Hc|rewrite Hnc; exact Hg|].
    intros H. inversion H. contradiction. }
  set (s2 := bc T p i nc s1) in *.
  assert (U2 : UpFresh s2 p).
  { intros d cd g Hd Hs Hg. destruct (Nat.eq_dec g i) as [->|Hgi].
    - destruct (list_eq_dec Nat.eq_dec d p) as [->|Hdp]; [exact F2|].
      apply (fresh_ext T s1); [exact V2| |apply (A3 d cd i Hd Hs Hg); congruence]. apply E2. congruence.
    - apply (fresh_ext T s1); [exact V2| |apply (A3 d cd g Hd Hs Hg); congruence]. apply E2. congruence. }
  assert (P2 : FreshK s2 (p, SParent)) by (apply (fresh_ext T s1); [exact V2| |exact A2]; apply E2; discriminate).
  (* 2. env(p -> its parent) *)
  assert (S3 : exists s3, s3 = match up with Some (pp, pi) => bc T pp pi np s2 | None => s2 end /\
            Good s3 /\ ver s3 = ver s1 /\ UpFresh s3 p /\ FreshK s3 (p, SParent) /\ Q up s3 /\
            (forall k : key, k <> (p, SChild i) -> (forall pp pi, up = Some (pp, pi) -> k <> (pp, SChild pi)) ->
               forall w, env s3 k w = env s1 k w)).
  { destruct up as [[pp pi]|].
    - cbn in Hup. subst p.
      destruct (bc_ok T s2 pp pi tp np Hp Hnp G2) as [G3 [V3 [F3 E3]]].
      { intros g Hg. apply (U2 (pp ++ [pi]) tp g); [apply is_prefix_refl|exact Hp|rewrite Hnp; exact Hg]. }
      eexists. split; [reflexivity|]. split; [exact G3|]. split; [rewrite V3; exact V2|].
      assert (Hkey : forall (d : path) sl, is_prefix (pp ++ [pi]) d = true -> (d, sl) <> (pp, SChild pi)).
      { intros d sl Hd H. inversion H. subst d. rewrite is_prefix_snoc_self in Hd. discriminate. }
      split; [|split; [|split]].
      + intros d cd g Hd Hs Hg. apply (fresh_ext T s2); [exact V3| |apply (U2 d cd g Hd Hs Hg)]. apply E3. apply Hkey. exact Hd.
      + apply (fresh_ext T s2); [exact V3| |exact P2]. apply E3. discriminate.
      + exact F3.
      + intros k Hk1 Hk2 w. rewrite E3 by (apply (Hk2 pp pi); reflexivity). apply E2. exact Hk1.
    - exists s2. split; [reflexivity|]. split; [exact G2|]. split; [exact V2|]. split; [exact U2|]. split; [exact P2|]. split; [exact I|].
      intros k Hk1 _ w. apply E2. exact Hk1. }
  destruct S3 as [s3 [-> [G3 [V3 [U3 [P3 [Q3 E3]]]]]]].
  set (s3 := match up with Some (pp, pi) => bc T pp pi np s2 | None => s2 end) in *.
  (* 3. env(p -> each child) *)
  destruct (bp_fold_ok T p tp np Hp Hnp (seq 0 np) s3 G3) as [G4 [V4 [F4 E4]]].
  { intros j Hj. apply (U3 p tp j); [apply is_prefix_refl|exact Hp|rewrite Hnp; exact Hj]. }
  { exact P3. }
  set (s4 := fold_left (fun s i' => bp T p i' np s) (seq 0 np) s3) in *.
  assert (K4 : forall (d : path) g i', (d, SChild g) <> (p ++ [i'], SParent)) by (intros; discriminate).
  assert (U4 : UpFresh s4 p).
  { intros d cd g Hd Hs Hg. apply (fresh_ext T s3); [exact V4| |apply (U3 d cd g Hd Hs Hg)]. apply E4. intros; apply K4. }
  assert (P4 : FreshK s4 (p, SParent)).
  { apply (fresh_ext T s3); [exact V4| |exact P3]. apply E4. intros i' _ H. inversion H. exact (snoc_neq_self p i' (eq_sym H1)). }
  assert (Q4 : Q up s4).
  { destruct up as [[pp pi]|]; [|exact I]. cbn in *. apply (fresh_ext T s3); [exact V4| |exact Q3]. apply E4. intros; apply K4. }
  assert (C4 : FreshK s4 (c, SParent)) by (apply F4; apply in_seq; lia).
  (* 4. env(c -> each of its children) *)
  destruct (bp_fold_ok T c tc nc Hc Hnc (seq 0 nc) s4 G4) as [G5 [V5 [F5 E5]]].
  { intros g Hg. apply (U4 c tc g); [apply is_prefix_app|exact Hc|rewrite Hnc; exact Hg]. }
  { exact C4. }
  set (s5 := fold_left (fun s g => bp T c g nc s) (seq 0 nc) s4) in *.
  assert (K5 : forall (d : path) g g', (d, SChild g) <> (c ++ [g'], SParent)) by (intros; discriminate).
  split; [exact G5|]. split; [rewrite V5, V4; exact V3|].
  assert (Hpc : forall g', (p, SParent) <> (c ++ [g'], SParent)).
  { intros g' H. inversion H. apply (f_equal (@length nat)) in H1. unfold c in H1. rewrite !app_length in H1. cbn in H1. lia. }
  split; [|split; [|split; [|split; [|split]]]].
  - apply (fresh_ext T s4); [exact V5| |exact P4]. apply E5. intros g' _. apply Hpc.
  - intros d cd g Hd Hs Hg. apply (fresh_ext T s4); [exact V5| |apply (U4 d cd g Hd Hs Hg)]. apply E5. intros; apply K5.
  - destruct up as [[pp pi]|]; [|exact I]. cbn in *. apply (fresh_ext T s4); [exact V5| |exact Q4]. apply E5. intros; apply K5.
  - apply (fresh_ext T s4); [exact V5| |exact C4]. apply E5. intros g' _ H. inversion H. exact (snoc_neq_self c g' (eq_sym H1)).
  - intros d sl Hd Hk w.
    rewrite E5, E4, E3; try reflexivity.
    + intros H. inversion H. subst d. rewrite is_prefix_refl in Hd. discriminate.
    + exact Hk.
    + intros i' _ H. inversion H. subst d. rewrite is_prefix_app in Hd. discriminate.
    + intros g' _ H. inversion H. subst d. unfold c in Hd. rewrite <- app_assoc, is_prefix_app in Hd. discriminate.
  - intros w. rewrite E5, E4, E3; try reflexivity.
    + discriminate.
    + intros pp pi _. discriminate.
    + intros i' _ H. inversion H. exact (snoc_neq_self p i' (eq_sym H1)).
    + intros g' _. apply Hpc.
Qed.

(* solve; TTNS.update_2site; TTNEnviron.update_2site  for the pair (c = p ++ [i], p) *)
Lemma pair_step_ok (p : path) up tp np i tc nc b s :
  sub T p = Some tp -> nch tp = np -> fnth (kids tp) i = Some tc -> nch tc = nc -> up_ok p up ->
  Good s -> FreshK s (p, SParent) -> UpFresh s p ->
  let s' := env_update T p up np i nc (upd p i b (solve T p np i nc s)) in
  Good s' /\ FreshK s' (p, SParent) /\ UpFresh s' p /\ Q up s' /\ FreshK s' (p ++ [i], SParent) /\ Frame s s' p up.
Proof.
  intros Hp Hnp Hi Hnc Hup Hg HP HU s'. subst s'.
  set (c := p ++ [i]).
  assert (Hc : sub T c = Some tc) by (unfold c; rewrite (sub_snoc T p tp i Hp); exact Hi).
  set (s0 := solve T p np i nc s).
  assert (G0 : Good s0).
  { unfold s0, solve. cbn [ev obsl]. unfold Good. cbn [obsl ev]. change (Good (rd T (p, SParent) (rds T (child_keys_but p np i) (rds T (child_keys c nc) s)))).
    set (sa := rds T (child_keys c nc) s).
    assert (Ga : Good sa).
    { apply rds_good; [exact Hg|]. intros k Hk. unfold child_keys in Hk. apply in_map_iff in Hk. destruct Hk as [g [<- Hin]].
      apply in_seq in Hin. apply (HU c tc g); [apply is_prefix_app|exact Hc|rewrite Hnc; lia]. }
    set (sb := rds T (child_keys_but p np i) sa).
    assert (Gb : Good sb).
    { apply rds_good; [exact Ga|]. intros k Hk. unfold child_keys_but in Hk. apply in_map_iff in Hk. destruct Hk as [g [<- Hin]].
      apply filter_In in Hin. destruct Hin as [Hin _]. apply in_seq in Hin.
      apply (fresh_ext T s); [apply rds_ver|intros; unfold sa; rewrite rds_env; reflexivity|].
      apply (HU p tp g); [apply is_prefix_refl|exact Hp|rewrite Hnp; lia]. }
    apply rd_good; [exact Gb|].
    apply (fresh_ext T s); [unfold sb, sa; rewrite !rds_ver; reflexivity|intros; unfold sb, sa; rewrite !rds_env; reflexivity|exact HP]. }
  assert (V0 : ver s0 = ver s) by (unfold s0, solve; cbn [ev rd ver]; rewrite !rds_ver; reflexivity).
  assert (E0 : env s0 = env s) by (unfold s0, solve; cbn [ev rd env]; rewrite !rds_env; reflexivity).
  set (s1 := upd p i b s0).
  assert (G1 : Good s1) by exact G0.
  assert (E1 : env s1 = env s) by exact E0.
  assert (V1 : forall w, ver s1 w = if path_eqb w p then S (if path_eqb w c then S (ver s w) else ver s w)
                                     else if path_eqb w c then S (ver s w) else ver s w).
  { intros w. unfold s1, upd. cbn [bump ev ver]. rewrite V0. reflexivity. }
  assert (Hs0 : forall k, FreshK s k -> FreshK s0 k).
  { intros k Hk. apply (fresh_ext T s); [exact V0|intros; rewrite E0; reflexivity|exact Hk]. }
  assert (Hs1 : forall k, FreshK s k -> dep k c = false -> dep k p = false -> FreshK s1 k).
  { intros k Hk D1 D2. unfold s1, upd. apply fresh_bump; [|exact D2]. apply fresh_bump; [|exact D1].
    apply (fresh_ext T s0); [reflexivity|reflexivity|apply Hs0; exact Hk]. }
  destruct (env_update_ok p up tp np i tc nc s1 Hp Hnp Hi Hnc Hup G1) as [G5 [V5 [P5 [U5 [Q5 [C5 [EF EP]]]]]]].
  - apply Hs1; [exact HP| |]; unfold dep; cbn [fst snd]; [unfold c; rewrite is_prefix_app|rewrite is_prefix_refl]; reflexivity.
  - intros d cd g Hd Hs Hgl Hne. apply Hs1; [apply (HU d cd g Hd Hs Hgl)| |]; unfold dep; cbn [fst snd].
    + destruct (is_prefix (d ++ [g]) c) eqn:E; [|reflexivity]. exfalso.
      destruct (prefix_snoc_snoc p d g i Hd E) as [-> ->]. apply Hne. reflexivity.
    + apply prefix_snoc_up. exact Hd.
  - split; [exact G5|]. split; [exact P5|]. split; [exact U5|]. split; [exact Q5|]. split; [exact C5|].
    constructor.
    + intros w Hw. rewrite V5, V1.
      assert (path_eqb w p = false) by (apply path_eqb_neq; intros ->; rewrite is_prefix_refl in Hw; discriminate).
      assert (path_eqb w c = false) by (apply path_eqb_neq; intros ->; unfold c in Hw; rewrite is_prefix_app in Hw; discriminate).
      rewrite H, H0. reflexivity.
    + intros d sl Hd Hk w. rewrite (EF d sl Hd Hk w), E1. reflexivity.
    + intros w. rewrite EP, E1. reflexivity.
Qed.

(* ------------------------------------------------------------------ optimize_recursion, all trees *)
Lemma UpFresh_sub s (p c : path) : is_prefix p c = true -> UpFresh s p -> UpFresh s c.
Proof. intros H HU d cd g Hd. apply HU. apply (is_prefix_trans p c d H Hd). Qed.

Definition tree_goal (t : tree) : Prop :=
  forall (p : path) up s, sub T p = Some t -> up_ok p up -> 0 < nch t ->
  Good s -> FreshK s (p, SParent) -> UpFresh s p ->
  let s' := opt_tree T t p up s in
  Good s' /\ FreshK s' (p, SParent) /\ UpFresh s' p /\ Q up s' /\ Frame s s' p up.
Definition forest_goal (f : forest) : Prop :=
  forall tp np (p : path) up i s, sub T p = Some tp -> nch tp = np ->
  (forall j, fnth f j = fnth (kids tp) (i + j)) -> up_ok p up ->
  Good s -> FreshK s (p, SParent) -> UpFresh s p ->
  let s' := opt_forest T f np p up i s in
  Good s' /\ FreshK s' (p, SParent) /\ UpFresh s' p /\ ((0 < flen f \/ Q up s) -> Q up s') /\ Frame s s' p up.

Scheme tree_mut := Induction for tree Sort Prop
with forest_mut := Induction for forest Sort Prop.

Lemma opt_forest_cons c rest np (p : path) up i s :
  opt_forest T (FCons c rest) np p up i s =
  opt_forest T rest np p up (S i)
    (env_update T p up np i (nch c) (upd p i true (solve T p np i (nch c)
       (if 0 <? nch c then opt_tree T c (p ++ [i]) (Some (p, i)) (env_update T p up np i (nch c) (upd p i false (solve T p np i (nch c) s))) else s)))).
Proof. reflexivity. Qed.
Lemma opt_tree_node f (p : path) up s : opt_tree T (Node f) p up s = opt_forest T f (flen f) p up 0 s.
Proof. reflexivity. Qed.

Lemma opt_ok : forall t, tree_goal t.
Proof.
  apply (tree_mut tree_goal forest_goal).
  - (* Node *)
    intros f IH p up s Hp Hup Hn Hg HP HU. rewrite opt_tree_node.
    destruct (IH (Node f) (flen f) p up 0 s Hp eq_refl (fun j => eq_refl) Hup Hg HP HU) as [G [P [U [Qs F]]]].
    cbv zeta in G, P, U, Qs, F. split; [exact G|split; [exact P|split; [exact U|split; [apply Qs; left; exact Hn|exact F]]]].
  - (* FNil *)
    intros tp np p up i s _ _ _ _ Hg HP HU. cbn [opt_forest].
    split; [exact Hg|split; [exact HP|split; [exact HU|split; [|apply Frame_refl]]]].
    intros [H|H]; [inversion H|exact H].
  - (* FCons *)
    intros c IHc rest IHrest tp np p up i s Hp Hnp Hf Hup Hg HP HU. rewrite opt_forest_cons.
    assert (Hi : fnth (kids tp) i = Some c) by (rewrite <- (Nat.add_0_r i), <- Hf; reflexivity).
    set (nc := nch c). set (cp := p ++ [i]).
    assert (Hc : sub T cp = Some c) by (unfold cp; rewrite (sub_snoc T p tp i Hp); exact Hi).
    (* first half: descend *)
    assert (HB : exists sB, sB = (if 0 <? nc then opt_tree T c cp (Some (p, i)) (env_update T p up np i nc (upd p i false (solve T p np i nc s))) else s)
                  /\ Good sB /\ FreshK sB (p, SParent) /\ UpFresh sB p /\ Frame s sB p up).
    { destruct (0 <? nc) eqn:En.
      - apply Nat.ltb_lt in En.
        destruct (pair_step_ok p up tp np i c nc false s Hp Hnp Hi eq_refl Hup Hg HP HU) as [GA [PA [UA [QA [CA FA]]]]].
        set (sA := env_update T p up np i nc (upd p i false (solve T p np i nc s))) in *.
        destruct (IHc cp (Some (p, i)) sA Hc eq_refl En GA CA (UpFresh_sub sA p cp (is_prefix_app p [i]) UA)) as [GB [CB [UB [QB FB]]]].
        cbv zeta in GB, CB, UB, QB, FB. cbn [Q] in QB.
        set (sB := opt_tree T c cp (Some (p, i)) sA) in *.
        destruct FB as [fv fe fp].
        exists sB. split; [reflexivity|]. split; [exact GB|].
        assert (Hcp_p : is_prefix cp p = false) by apply is_prefix_snoc_self.
        split; [|split].
        + apply (fresh_transfer T sA); [exact PA| |].
          * apply fe; [exact Hcp_p|]. intros pp pi H. inversion H. discriminate.
          * intros w _ Hw. apply fv. unfold dep in Hw. cbn [fst snd] in Hw. apply negb_true_iff in Hw.
            destruct (is_prefix cp w) eqn:E; [|reflexivity]. exfalso.
            rewrite (is_prefix_trans p cp w (is_prefix_app p [i]) E) in Hw. discriminate.
        + intros d cd g Hd Hs Hgl.
          destruct (is_prefix cp d) eqn:Ecd; [apply (UB d cd g Ecd Hs Hgl)|].
          destruct (list_eq_dec Nat.eq_dec d p) as [->|Hdp].
          * destruct (Nat.eq_dec g i) as [->|Hgi]; [exact QB|].
            apply (fresh_transfer T sA); [apply (UA p cd g Hd Hs Hgl)| |].
            -- apply fe; [exact Hcp_p|]. intros pp pi H. inversion H. congruence.
            -- intros w _ Hw. apply fv. unfold dep in Hw. cbn [fst snd] in Hw.
               destruct (is_prefix cp w) eqn:E; [|reflexivity]. exfalso.
               destruct (is_prefix_comparable _ _ _ Hw E) as [H|H].
               ++ destruct (prefix_snoc_snoc p p g i (is_prefix_refl p) H) as [_ ?]. contradiction.
               ++ destruct (prefix_snoc_snoc p p i g (is_prefix_refl p) H) as [_ ?]. congruence.
          * apply (fresh_transfer T sA); [apply (UA d cd g Hd Hs Hgl)| |].
            -- apply fe; [exact Ecd|]. intros pp pi H. inversion H. congruence.
            -- intros w _ Hw. apply fv. unfold dep in Hw. cbn [fst snd] in Hw.
               destruct (is_prefix cp w) eqn:E; [|reflexivity]. exfalso.
               destruct (is_prefix_comparable _ _ _ Hw E) as [H|H].
               ++ destruct (prefix_snoc_snoc p d g i Hd H) as [? _]. contradiction.
               ++ (* cp prefix of d ++ [g], cp not prefix of d: cp = d ++ [g] *)
                  apply is_prefix_spec in H. destruct H as [r H]. destruct r as [|x r] using rev_ind.
                  ** rewrite app_nil_r in H. unfold cp in H. apply snoc_inj in H. destruct H as [? _]. congruence.
                  ** rewrite app_assoc in H. apply snoc_inj in H. destruct H as [H _]. rewrite H, is_prefix_app in Ecd. discriminate.
        + apply (Frame_trans s sA sB p up FA). constructor.
          * intros w Hw. apply fv. destruct (is_prefix cp w) eqn:E; [|reflexivity].
            rewrite (is_prefix_trans p cp w (is_prefix_app p [i]) E) in Hw. discriminate.
          * intros d sl Hd Hk w. apply fe.
            -- destruct (is_prefix cp d) eqn:E; [|reflexivity]. rewrite (is_prefix_trans p cp d (is_prefix_app p [i]) E) in Hd. discriminate.
            -- intros pp pi H. inversion H. subst. intros H'. inversion H'. subst d. rewrite is_prefix_refl in Hd. discriminate.
          * intros w. apply fe; [exact Hcp_p|]. intros pp pi H. inversion H. discriminate.
      - exists s. split; [reflexivity|]. split; [exact Hg|]. split; [exact HP|]. split; [exact HU|apply Frame_refl]. }
    destruct HB as [sB [EB [GB [PB [UB FB]]]]]. rewrite <- EB. clear EB.
    (* second half: the pair (c, p) with the centre moved to the parent *)
    destruct (pair_step_ok p up tp np i c nc true sB Hp Hnp Hi eq_refl Hup GB PB UB) as [GC [PC [UC [QC [_ FC]]]]].
    set (sC := env_update T p up np i nc (upd p i true (solve T p np i nc sB))) in *.
    destruct (IHrest tp np p up (S i) sC Hp Hnp) as [GD [PD [UD [QD FD]]]]; try assumption.
    { intros j. replace (S i + j) with (i + S j) by lia. rewrite <- (Hf (S j)). reflexivity. }
    cbv zeta in GD, PD, UD, QD, FD.
    split; [exact GD|]. split; [exact PD|]. split; [exact UD|]. split.
    + intros _. apply QD. right. exact QC.
    + apply (Frame_trans s sB _ p up FB). apply (Frame_trans sB sC _ p up FC FD).
Qed.

End Main.

(* ------------------------------------------------------------------ TTNEnviron.__init__ *)
Section Init.
Variable T : tree.
Notation FreshK := (FreshK T).
Notation UpFresh := (UpFresh T).
Notation Q := (Q T).

Lemma up_tree_node f (p : path) up s :
  up_tree T (Node f) p up s =
  match up with Some (pp, pi) => bc T pp pi (flen f) (up_forest T f p 0 s) | None => up_forest T f p 0 s end.
Proof. reflexivity. Qed.
Lemma up_forest_cons c rest (p : path) i s :
  up_forest T (FCons c rest) p i s = up_forest T rest p (S i) (up_tree T c (p ++ [i]) (Some (p, i)) s).
Proof. reflexivity. Qed.

(* keys touched by the upward pass below p *)
Definition up_frame (s s' : st) (p : path) (up : option (path * nat)) : Prop :=
  ver s' = ver s /\
  (forall (d : path) sl, is_prefix p d = false -> (forall pp pi, up = Some (pp, pi) -> (d, sl) <> (pp, SChild pi)) ->
     forall w, env s' (d, sl) w = env s (d, sl) w) /\
  (forall (d : path) w, env s' (d, SParent) w = env s (d, SParent) w).

Definition up_tree_goal (t : tree) : Prop :=
  forall (p : path) up s, sub T p = Some t -> up_ok p up -> Good s ->
  let s' := up_tree T t p up s in
  Good s' /\ UpFresh s' p /\ Q up s' /\ up_frame s s' p up.
Definition up_forest_goal (f : forest) : Prop :=
  forall tp (p : path) i s, sub T p = Some tp -> (forall j, fnth f j = fnth (kids tp) (i + j)) -> Good s ->
  (forall j cj, j < i -> fnth (kids tp) j = Some cj -> FreshK s (p, SChild j) /\ UpFresh s (p ++ [j])) ->
  let s' := up_forest T f p i s in
  Good s' /\
  (forall j cj, j < i + flen f -> fnth (kids tp) j = Some cj -> FreshK s' (p, SChild j) /\ UpFresh s' (p ++ [j])) /\
  ver s' = ver s /\
  (forall (d : path) sl, is_prefix p d = false -> forall w, env s' (d, sl) w = env s (d, sl) w) /\
  (forall (d : path) w, env s' (d, SParent) w = env s (d, SParent) w).

Lemma sibling_not_prefix (p d : path) i j : i <> j -> is_prefix (p ++ [j]) d = true -> is_prefix (p ++ [i]) d = false.
Proof.
  intros Hij Hd. destruct (is_prefix (p ++ [i]) d) eqn:E; [|reflexivity]. exfalso.
  apply is_prefix_snoc in Hd. apply is_prefix_snoc in E. destruct Hd as [r ->]. destruct E as [r' E].
  apply app_inv_head in E. inversion E. congruence.
Qed.

Lemma up_ok_all : forall t, up_tree_goal t.
Proof.
  apply (tree_mut up_tree_goal up_forest_goal).
  - intros f IH p up s Hp Hup Hg. rewrite up_tree_node.
    destruct (IH (Node f) p 0 s Hp (fun j => eq_refl) Hg) as [G1 [F1 [V1 [E1 P1]]]]; [intros j cj Hj; lia|].
    cbv zeta in G1, F1, V1, E1, P1. set (s1 := up_forest T f p 0 s) in *.
    assert (U1 : UpFresh s1 p).
    { intros d cd g Hd Hs Hgl. destruct (is_prefix_snoc_cases _ _ Hd) as [->|[g0 [r ->]]].
      - rewrite Hp in Hs. inversion Hs; subst cd. destruct (fnth_some (kids (Node f)) g Hgl) as [cg Hcg].
        apply (F1 g cg); [cbn; cbn in Hgl; lia|exact Hcg].
      - assert (V : valid T (p ++ g0 :: r) = true) by (unfold valid; rewrite Hs; reflexivity).
        pose proof (child_bound T p (Node f) g0 r Hp V) as Hb. destruct (fnth_some (kids (Node f)) g0 Hb) as [cg Hcg].
        destruct (F1 g0 cg) as [_ U]; [cbn; cbn in Hb; lia|exact Hcg|].
        apply (U (p ++ g0 :: r) cd g); [apply is_prefix_snoc; exists r; reflexivity|exact Hs|exact Hgl]. }
    destruct up as [[pp pi]|].
    + cbn in Hup. subst p.
      destruct (bc_ok T s1 pp pi (Node f) (flen f) Hp eq_refl G1) as [G2 [V2 [F2 E2]]].
      { intros g Hg'. apply (U1 (pp ++ [pi]) (Node f) g); [apply is_prefix_refl|exact Hp|exact Hg']. }
      split; [exact G2|]. split; [|split; [exact F2|]].
      * intros d cd g Hd Hs Hgl. apply (fresh_ext T s1); [exact V2| |apply (U1 d cd g Hd Hs Hgl)].
        apply E2. intros H. inversion H. subst d. rewrite is_prefix_snoc_self in Hd. discriminate.
      * split; [rewrite V2; exact V1|]. split.
        -- intros d sl Hd Hk w. rewrite E2 by (apply (Hk pp pi); reflexivity). apply E1. exact Hd.
        -- intros d w. rewrite E2 by discriminate. apply P1.
    + split; [exact G1|]. split; [exact U1|]. split; [exact I|]. split; [exact V1|]. split; [|exact P1].
      intros d sl Hd _ w. apply E1. exact Hd.
  - intros tp p i s _ _ Hg Hprev. cbn [up_forest flen]. rewrite Nat.add_0_r.
    split; [exact Hg|]. split; [exact Hprev|]. repeat split; reflexivity.
  - intros c IHc rest IHrest tp p i s Hp Hf Hg Hprev. rewrite up_forest_cons.
    assert (Hi : fnth (kids tp) i = Some c) by (rewrite <- (Nat.add_0_r i), <- Hf; reflexivity).
    assert (Hc : sub T (p ++ [i]) = Some c) by (rewrite (sub_snoc T p tp i Hp); exact Hi).
    destruct (IHc (p ++ [i]) (Some (p, i)) s Hc eq_refl Hg) as [G1 [U1 [Q1 [V1 [E1 P1]]]]].
    cbv zeta in G1, U1, Q1, V1, E1, P1. cbn [TreeOptProofs.Q] in Q1. set (s1 := up_tree T c (p ++ [i]) (Some (p, i)) s) in *.
    destruct (IHrest tp p (S i) s1 Hp) as [G2 [F2 [V2 [E2 P2]]]]; try assumption.
    { intros j. replace (S i + j) with (i + S j) by lia. rewrite <- (Hf (S j)). reflexivity. }
    { intros j cj Hj Hcj. destruct (Nat.eq_dec j i) as [->|Hji].
      - split; [exact Q1|exact U1].
      - destruct (Hprev j cj ltac:(lia) Hcj) as [A B]. split.
        + apply (fresh_ext T s); [exact V1| |exact A]. apply E1; [apply is_prefix_snoc_self|].
          intros pp pi H. inversion H. subst. intros H'. inversion H'. congruence.
        + intros d cd g Hd Hs Hgl. apply (fresh_ext T s); [exact V1| |apply (B d cd g Hd Hs Hgl)].
          apply E1; [apply (sibling_not_prefix p d i j); [congruence|exact Hd]|].
          intros pp pi H. inversion H. subst. intros H'. inversion H'. subst d. rewrite is_prefix_snoc_self in Hd. discriminate. }
    cbv zeta in G2, F2, V2, E2, P2.
    split; [exact G2|]. split.
    { intros j cj Hj. apply F2. cbn [flen] in Hj. lia. }
    split; [rewrite V2; exact V1|]. split.
    + intros d sl Hd w. rewrite E2 by exact Hd. apply E1.
      * destruct (is_prefix (p ++ [i]) d) eqn:E; [|reflexivity]. rewrite (is_prefix_trans p (p ++ [i]) d (is_prefix_app p [i]) E) in Hd. discriminate.
      * intros pp pi H. inversion H. subst. intros H'. inversion H'. subst d. rewrite is_prefix_refl in Hd. discriminate.
    + intros d w. rewrite P2. apply P1.
Qed.

(* downward pass *)
Lemma down_tree_node f (p : path) s :
  down_tree T (Node f) p s = down_forest T f p 0 (fold_left (fun s i' => bp T p i' (flen f) s) (seq 0 (flen f)) s).
Proof. reflexivity. Qed.
Lemma down_forest_cons c rest (p : path) i s :
  down_forest T (FCons c rest) p i s = down_forest T rest p (S i) (down_tree T c (p ++ [i]) s).
Proof. reflexivity. Qed.

Definition down_frame (s s' : st) (p : path) : Prop :=
  ver s' = ver s /\
  (forall k : key, (forall d : path, k = (d, SParent) -> is_prefix p d = false \/ d = p) -> forall w, env s' k w = env s k w).

Definition down_tree_goal (t : tree) : Prop :=
  forall (p : path) s, sub T p = Some t -> Good s -> UpFresh s [] -> FreshK s (p, SParent) ->
  let s' := down_tree T t p s in Good s' /\ down_frame s s' p.
Definition down_forest_goal (f : forest) : Prop :=
  forall tp (p : path) i s, sub T p = Some tp -> (forall j, fnth f j = fnth (kids tp) (i + j)) -> Good s -> UpFresh s [] ->
  (forall j cj, i <= j -> fnth (kids tp) j = Some cj -> FreshK s (p ++ [j], SParent)) ->
  let s' := down_forest T f p i s in
  Good s' /\ ver s' = ver s /\
  (forall k : key, (forall d : path, k = (d, SParent) -> is_prefix p d = false \/ d = p) -> forall w, env s' k w = env s k w).

Lemma UpFresh_keep s s' : ver s' = ver s -> (forall (d : path) g w, env s' (d, SChild g) w = env s (d, SChild g) w) ->
  UpFresh s [] -> UpFresh s' [].
Proof. intros V E U d cd g Hd Hs Hg. apply (fresh_ext T s); [exact V|apply E|apply (U d cd g Hd Hs Hg)]. Qed.

Lemma down_ok_all : forall t, down_tree_goal t.
Proof.
  apply (tree_mut down_tree_goal down_forest_goal).
  - intros f IH p s Hp Hg HU HP. rewrite down_tree_node.
    destruct (bp_fold_ok T p (Node f) (flen f) Hp eq_refl (seq 0 (flen f)) s Hg) as [G1 [V1 [F1 E1]]].
    { intros j Hj. apply (HU p (Node f) j); [reflexivity|exact Hp|exact Hj]. }
    { exact HP. }
    set (s1 := fold_left (fun s i' => bp T p i' (flen f) s) (seq 0 (flen f)) s) in *.
    assert (U1 : UpFresh s1 []).
    { apply (UpFresh_keep s); [exact V1| |exact HU]. intros d g w. apply E1. intros; discriminate. }
    destruct (IH (Node f) p 0 s1 Hp (fun j => eq_refl) G1 U1) as [G2 [V2 E2]].
    { intros j cj _ Hcj. apply F1. apply in_seq. pose proof (fnth_lt _ _ _ Hcj). cbn in H. lia. }
    cbv zeta in G2, V2, E2. split; [exact G2|]. split; [rewrite V2; exact V1|].
    intros k Hk w. rewrite E2 by exact Hk. apply E1. intros i' _ ->.
    destruct (Hk (p ++ [i']) eq_refl) as [H|H]; [rewrite is_prefix_app in H; discriminate|exact (snoc_neq_self p i' H)].
  - intros tp p i s _ _ Hg _ _. cbn [down_forest]. repeat split; try assumption; reflexivity.
  - intros c IHc rest IHrest tp p i s Hp Hf Hg HU HF. rewrite down_forest_cons.
    assert (Hi : fnth (kids tp) i = Some c) by (rewrite <- (Nat.add_0_r i), <- Hf; reflexivity).
    assert (Hc : sub T (p ++ [i]) = Some c) by (rewrite (sub_snoc T p tp i Hp); exact Hi).
    destruct (IHc (p ++ [i]) s Hc Hg HU (HF i c (le_n i) Hi)) as [G1 [V1 E1]].
    cbv zeta in G1, V1, E1. set (s1 := down_tree T c (p ++ [i]) s) in *.
    assert (U1 : UpFresh s1 []).
    { apply (UpFresh_keep s); [exact V1| |exact HU]. intros d g w. apply E1. intros; discriminate. }
    destruct (IHrest tp p (S i) s1 Hp) as [G2 [V2 E2]]; try assumption.
    { intros j. replace (S i + j) with (i + S j) by lia. rewrite <- (Hf (S j)). reflexivity. }
    { intros j cj Hj Hcj. apply (fresh_ext T s); [exact V1| |apply (HF j cj); [lia|exact Hcj]].
      apply E1. intros d H. inversion H. subst d. left. apply (sibling_not_prefix p (p ++ [j]) i j); [lia|apply is_prefix_refl]. }
    cbv zeta in G2, V2, E2. split; [exact G2|]. split; [rewrite V2; exact V1|].
    intros k Hk w. rewrite E2 by exact Hk. apply E1. intros d ->. destruct (Hk d eq_refl) as [H|H].
    + left. destruct (is_prefix (p ++ [i]) d) eqn:E; [|reflexivity]. rewrite (is_prefix_trans p (p ++ [i]) d (is_prefix_app p [i]) E) in H. discriminate.
    + subst d. left. apply is_prefix_snoc_self.
Qed.

Lemma init_ok vr :
  Good (init T vr) /\ UpFresh (init T vr) [] /\ FreshK (init T vr) ([], SParent).
Proof.
  unfold init. set (s0 := mkSt vr (fun _ _ => None) [] []).
  assert (G0 : Good s0) by constructor.
  assert (P0 : FreshK s0 ([], SParent)).
  { intros w. cbn. unfold spec, dep. cbn. rewrite andb_false_r. reflexivity. }
  destruct (up_ok_all T [] None s0 eq_refl eq_refl G0) as [G1 [U1 [_ [V1 [E1 P1]]]]].
  cbv zeta in G1, U1, V1, E1, P1. set (s1 := up_tree T T [] None s0) in *.
  assert (Pp1 : FreshK s1 ([], SParent)) by (apply (fresh_ext T s0); [exact V1|apply P1|exact P0]).
  destruct (down_ok_all T [] s1 eq_refl G1 U1 Pp1) as [G2 [V2 E2]].
  cbv zeta in G2, V2, E2. split; [exact G2|]. split.
  - apply (UpFresh_keep s1); [exact V2| |exact U1]. intros d g w. apply E2. intros; discriminate.
  - apply (fresh_ext T s1); [exact V2| |exact Pp1]. apply E2. intros d H. inversion H. right. reflexivity.
Qed.

End Init.

(* ------------------------------------------------------------------ the theorem *)
Theorem tree_env_fresh_all : forall (T : tree) (k : nat) (vr : path -> nat),
  0 < nch T -> Forall obs_ok (obsl (optimize T k vr)).
Proof.
  intros T k vr Hn. unfold optimize.
  destruct (init_ok T vr) as [G [U P]]. revert G U P. generalize (init T vr).
  induction k as [|k IH]; intros s G U P; [exact G|].
  cbn [sweeps]. destruct (opt_ok T T [] None s eq_refl eq_refl Hn G P U) as [G' [P' [U' _]]].
  apply IH; assumption.
Qed.
